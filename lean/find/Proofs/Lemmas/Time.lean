import Model.Time
import Mathlib.Tactic
/-!
Helper lemmas about the calendar model `Model/Time.lean`:
specification of the bounded searches, `truncTo` (= `set_time_resolution`) is monotone,
idempotent and `≤ id`, keeps the year, and the calendar fields of a time rebuild its
truncation (`mkDate_fields_day`, `mkDate_fields_hour`).
-/
namespace TM

/-! ### bounded search -/

theorem findGreatest_le (P : Nat → Bool) (n : Nat) : findGreatest P n ≤ n := by
  induction n with
  | zero => simp [findGreatest]
  | succ n ih => unfold findGreatest; split <;> omega

theorem le_findGreatest (P : Nat → Bool) {n k : Nat} (hk : k ≤ n) (hP : P k = true) :
    k ≤ findGreatest P n := by
  induction n with
  | zero => omega
  | succ n ih =>
    unfold findGreatest
    split
    · exact hk
    · rename_i hn
      rcases Nat.lt_or_ge k (n + 1) with h | h
      · exact ih (by omega)
      · have : k = n + 1 := by omega
        subst this; exact absurd hP hn

theorem findGreatest_spec (P : Nat → Bool) {n k : Nat} (hk : k ≤ n) (hP : P k = true) :
    P (findGreatest P n) = true := by
  induction n with
  | zero =>
    have : k = 0 := by omega
    subst this; simpa [findGreatest] using hP
  | succ n ih =>
    unfold findGreatest
    split
    · assumption
    · rename_i hn
      rcases Nat.lt_or_ge k (n + 1) with h | h
      · exact ih (by omega)
      · have : k = n + 1 := by omega
        subst this; exact absurd hP hn

/-! ### years -/

theorem isLeap_iff (y : Nat) : isLeap y = true ↔ (y % 4 = 0 ∧ (y % 100 ≠ 0 ∨ y % 400 = 0)) := by
  simp [isLeap]

theorem dby_succ (y : Nat) (hy : 1 ≤ y) : dby (y + 1) = dby y + yearLen y := by
  obtain ⟨k, rfl⟩ : ∃ k, y = k + 1 := ⟨y - 1, by omega⟩
  simp only [dby, Nat.add_sub_cancel, yearLen, isLeap]
  by_cases h4 : (k + 1) % 4 = 0 <;> by_cases h100 : (k + 1) % 100 = 0 <;>
    by_cases h400 : (k + 1) % 400 = 0 <;> simp [h4, h100, h400] <;> omega

theorem yearLen_ge (y : Nat) : 365 ≤ yearLen y := by unfold yearLen; split <;> omega
theorem yearLen_le (y : Nat) : yearLen y ≤ 366 := by unfold yearLen; split <;> omega

theorem dby_lt_succ (y : Nat) (hy : 1 ≤ y) : dby y < dby (y + 1) := by
  rw [dby_succ y hy]; have := yearLen_ge y; omega

theorem dby_mono {y z : Nat} (hy : 1 ≤ y) (h : y ≤ z) : dby y ≤ dby z := by
  induction z with
  | zero => omega
  | succ z ih =>
    rcases Nat.lt_or_ge y (z + 1) with h1 | h1
    · have := ih (by omega)
      have := dby_lt_succ z (by omega)
      omega
    · have : y = z + 1 := by omega
      subst this; exact le_refl _

theorem dby_strict {y z : Nat} (hy : 1 ≤ y) (h : y < z) : dby y < dby z := by
  have h1 := dby_lt_succ y hy
  have h2 := dby_mono (y := y + 1) (z := z) (by omega) (by omega)
  omega

theorem dby_ge (y : Nat) : 365 * (y - 1) ≤ dby y := by unfold dby; omega

theorem yearOfDay_spec (d : Nat) :
    1 ≤ yearOfDay d ∧ dby (yearOfDay d) ≤ d ∧ d < dby (yearOfDay d + 1) := by
  have hP1 : (fun y => decide (dby y ≤ d)) 1 = true := by simp [dby]
  have h1 : 1 ≤ yearOfDay d := le_findGreatest _ (by omega) hP1
  have h2 : decide (dby (yearOfDay d) ≤ d) = true :=
    findGreatest_spec (fun y => decide (dby y ≤ d)) (k := 1) (by omega) hP1
  refine ⟨h1, by simpa using h2, ?_⟩
  by_contra hc
  have hc : dby (yearOfDay d + 1) ≤ d := by omega
  rcases Nat.lt_or_ge (yearOfDay d + 1) (d / 365 + 1 + 1) with hb | hb
  · have := le_findGreatest (fun y => decide (dby y ≤ d)) (n := d / 365 + 1) (k := yearOfDay d + 1)
      (by omega) (by simpa using hc)
    unfold yearOfDay at this; unfold yearOfDay at h1; omega
  · have := dby_ge (yearOfDay d + 1)
    omega

theorem yearOfDay_unique {d y : Nat} (hy : 1 ≤ y) (h1 : dby y ≤ d) (h2 : d < dby (y + 1)) :
    yearOfDay d = y := by
  obtain ⟨g0, g1, g2⟩ := yearOfDay_spec d
  rcases Nat.lt_trichotomy (yearOfDay d) y with h | h | h
  · have := dby_mono (y := yearOfDay d + 1) (z := y) (by omega) (by omega); omega
  · exact h
  · have := dby_mono (y := y + 1) (z := yearOfDay d) (by omega) (by omega); omega

theorem yearOfDay_mono {a b : Nat} (h : a ≤ b) : yearOfDay a ≤ yearOfDay b := by
  obtain ⟨a0, a1, _⟩ := yearOfDay_spec a
  obtain ⟨_, _, b2⟩ := yearOfDay_spec b
  by_contra hc
  have := dby_mono (y := yearOfDay b + 1) (z := yearOfDay a) (by omega) (by omega)
  omega

theorem doy0_lt (d : Nat) : doy0OfDay d < yearLen (yearOfDay d) := by
  obtain ⟨h0, h1, h2⟩ := yearOfDay_spec d
  rw [dby_succ _ h0] at h2
  unfold doy0OfDay; omega

/-! ### months -/

theorem dbm_succ (l : Bool) (m : Nat) (h1 : 1 ≤ m) (h2 : m ≤ 12) :
    dbm l (m + 1) = dbm l m + monthLen l m := by
  interval_cases m <;> cases l <;> rfl

theorem dbm_13 (y : Nat) : dbm (isLeap y) 13 = yearLen y := by
  unfold yearLen; cases isLeap y <;> rfl

theorem dbm_mono_fin : ∀ l : Bool, ∀ a b : Fin 14, 1 ≤ a.val → a.val ≤ b.val → dbm l a.val ≤ dbm l b.val := by
  decide

theorem dbm_mono (l : Bool) {a b : Nat} (ha : 1 ≤ a) (hab : a ≤ b) (hb : b ≤ 13) : dbm l a ≤ dbm l b :=
  dbm_mono_fin l ⟨a, by omega⟩ ⟨b, by omega⟩ ha hab

theorem monthLen_pos (l : Bool) (m : Nat) (h1 : 1 ≤ m) (h2 : m ≤ 12) : 1 ≤ monthLen l m := by
  interval_cases m <;> cases l <;> decide

theorem monthLen_le (l : Bool) (m : Nat) : monthLen l m ≤ 31 := by
  unfold monthLen; split <;> (try split) <;> omega

/-- specification of the month search for any `x < length of the year` -/
theorem month_search_spec (l : Bool) (x : Nat) (hx : x < dbm l 13) :
    let m := findGreatest (fun m => decide (dbm l m ≤ x)) 12
    1 ≤ m ∧ m ≤ 12 ∧ dbm l m ≤ x ∧ x < dbm l (m + 1) := by
  intro m
  have hP1 : (fun m => decide (dbm l m ≤ x)) 1 = true := by simp [dbm]
  have h1 : 1 ≤ m := le_findGreatest _ (by omega) hP1
  have h2 : m ≤ 12 := findGreatest_le _ _
  have h3 : decide (dbm l m ≤ x) = true :=
    findGreatest_spec (fun m => decide (dbm l m ≤ x)) (k := 1) (by omega) hP1
  refine ⟨h1, h2, by simpa using h3, ?_⟩
  by_contra hc
  have hc : dbm l (m + 1) ≤ x := by omega
  rcases Nat.lt_or_ge m 12 with hb | hb
  · have := le_findGreatest (fun m => decide (dbm l m ≤ x)) (n := 12) (k := m + 1) (by omega)
      (by simpa using hc)
    omega
  · have : m = 12 := by omega
    rw [this] at hc
    have h13 : dbm l (12 + 1) = dbm l 13 := rfl
    omega

theorem month_search_unique (l : Bool) (x m : Nat) (h1 : 1 ≤ m) (h2 : m ≤ 12)
    (h3 : dbm l m ≤ x) (h4 : x < dbm l (m + 1)) :
    findGreatest (fun m => decide (dbm l m ≤ x)) 12 = m := by
  have hx : x < dbm l 13 := lt_of_lt_of_le h4 (dbm_mono l (by omega) (by omega) (le_refl _))
  obtain ⟨g1, g2, g3, g4⟩ := month_search_spec l x hx
  generalize findGreatest (fun m => decide (dbm l m ≤ x)) 12 = k at *
  rcases Nat.lt_trichotomy k m with h | h | h
  · have := dbm_mono l (a := k + 1) (b := m) (by omega) (by omega) (by omega); omega
  · exact h
  · have := dbm_mono l (a := m + 1) (b := k) (by omega) (by omega) (by omega); omega

theorem monthOfDay_spec (d : Nat) :
    1 ≤ monthOfDay d ∧ monthOfDay d ≤ 12 ∧
    dbm (isLeap (yearOfDay d)) (monthOfDay d) ≤ doy0OfDay d ∧
    doy0OfDay d < dbm (isLeap (yearOfDay d)) (monthOfDay d + 1) := by
  have hx : doy0OfDay d < dbm (isLeap (yearOfDay d)) 13 := by rw [dbm_13]; exact doy0_lt d
  exact month_search_spec _ _ hx

theorem monthOfDay_eq {d m : Nat} (h1 : 1 ≤ m) (h2 : m ≤ 12)
    (h3 : dbm (isLeap (yearOfDay d)) m ≤ doy0OfDay d)
    (h4 : doy0OfDay d < dbm (isLeap (yearOfDay d)) (m + 1)) : monthOfDay d = m := by
  unfold monthOfDay; exact month_search_unique _ _ _ h1 h2 h3 h4

theorem monthStartDay_le (d : Nat) : monthStartDay d ≤ d := by
  obtain ⟨_, h1, _⟩ := yearOfDay_spec d
  obtain ⟨_, _, h3, _⟩ := monthOfDay_spec d
  unfold monthStartDay; unfold doy0OfDay at h3; omega

/-- the day number `dby y + x` with `x` inside year `y` has year `y`, day-of-year `x` -/
theorem yearOfDay_add {y x : Nat} (hy : 1 ≤ y) (hx : x < yearLen y) : yearOfDay (dby y + x) = y :=
  yearOfDay_unique hy (by omega) (by rw [dby_succ y hy]; omega)

theorem monthStartDay_fields (d : Nat) :
    yearOfDay (monthStartDay d) = yearOfDay d ∧ monthOfDay (monthStartDay d) = monthOfDay d := by
  obtain ⟨hy, _, _⟩ := yearOfDay_spec d
  obtain ⟨m1, m2, m3, m4⟩ := monthOfDay_spec d
  have hlt : dbm (isLeap (yearOfDay d)) (monthOfDay d) < yearLen (yearOfDay d) := by
    have := doy0_lt d; omega
  have e1 : yearOfDay (monthStartDay d) = yearOfDay d := by
    unfold monthStartDay; exact yearOfDay_add hy hlt
  refine ⟨e1, ?_⟩
  have e2 : doy0OfDay (monthStartDay d) = dbm (isLeap (yearOfDay d)) (monthOfDay d) := by
    unfold doy0OfDay; rw [e1]; unfold monthStartDay; omega
  have hpos := monthLen_pos (isLeap (yearOfDay d)) (monthOfDay d) m1 m2
  apply monthOfDay_eq m1 m2
  · rw [e1, e2]
  · rw [e1, e2, dbm_succ _ _ m1 m2]; omega

theorem monthStartDay_idem (d : Nat) : monthStartDay (monthStartDay d) = monthStartDay d := by
  obtain ⟨e1, e2⟩ := monthStartDay_fields d
  show dby (yearOfDay (monthStartDay d)) + dbm (isLeap (yearOfDay (monthStartDay d)))
      (monthOfDay (monthStartDay d)) = monthStartDay d
  rw [e1, e2]; rfl

theorem monthStartDay_mono {a b : Nat} (h : a ≤ b) : monthStartDay a ≤ monthStartDay b := by
  have hy := yearOfDay_mono h
  obtain ⟨a0, a1, a2⟩ := yearOfDay_spec a
  obtain ⟨b0, b1, b2⟩ := yearOfDay_spec b
  obtain ⟨am1, am2, am3, am4⟩ := monthOfDay_spec a
  obtain ⟨bm1, bm2, bm3, bm4⟩ := monthOfDay_spec b
  rcases Nat.lt_or_ge (yearOfDay a) (yearOfDay b) with hlt | hge
  · have h1 := monthStartDay_le a
    have h2 := dby_mono (y := yearOfDay a + 1) (z := yearOfDay b) (by omega) (by omega)
    unfold monthStartDay at *; omega
  · have he : yearOfDay a = yearOfDay b := by omega
    unfold monthStartDay
    unfold doy0OfDay at am3 am4 bm3 bm4
    rw [he] at am3 am4 ⊢
    have hm : monthOfDay a ≤ monthOfDay b := by
      by_contra hc
      have := dbm_mono (isLeap (yearOfDay b)) (a := monthOfDay b + 1) (b := monthOfDay a)
        (by omega) (by omega) (by omega)
      omega
    have := dbm_mono (isLeap (yearOfDay b)) am1 hm (by omega)
    omega

/-! ### times -/

theorem dayNum_mono {a b : Nat} (h : a ≤ b) : dayNum a ≤ dayNum b := Nat.div_le_div_right h

theorem yearOf_mono {a b : Nat} (h : a ≤ b) : yearOf a ≤ yearOf b := yearOfDay_mono (dayNum_mono h)

theorem dayNum_mul (d : Nat) : dayNum (d * usPerDay) = d := by
  unfold dayNum usPerDay; omega

theorem truncTo_le (r : Res) (t : Nat) : truncTo r t ≤ t := by
  cases r
  · show dby (yearOf t) * usPerDay ≤ t
    obtain ⟨_, h, _⟩ := yearOfDay_spec (dayNum t)
    have : dby (yearOf t) * usPerDay ≤ dayNum t * usPerDay := Nat.mul_le_mul_right _ h
    have h2 : dayNum t * usPerDay ≤ t := Nat.div_mul_le_self t usPerDay
    omega
  · show monthStartDay (dayNum t) * usPerDay ≤ t
    have : monthStartDay (dayNum t) * usPerDay ≤ dayNum t * usPerDay :=
      Nat.mul_le_mul_right _ (monthStartDay_le _)
    have h2 : dayNum t * usPerDay ≤ t := Nat.div_mul_le_self t usPerDay
    omega
  · show t - t % usPerDay ≤ t; omega
  · show t - t % usPerHour ≤ t; omega

theorem truncTo_mono (r : Res) {a b : Nat} (h : a ≤ b) : truncTo r a ≤ truncTo r b := by
  cases r
  · show dby (yearOf a) * usPerDay ≤ dby (yearOf b) * usPerDay
    exact Nat.mul_le_mul_right _ (dby_mono (yearOfDay_spec _).1 (yearOf_mono h))
  · show monthStartDay (dayNum a) * usPerDay ≤ monthStartDay (dayNum b) * usPerDay
    exact Nat.mul_le_mul_right _ (monthStartDay_mono (dayNum_mono h))
  · show a - a % usPerDay ≤ b - b % usPerDay
    unfold usPerDay; omega
  · show a - a % usPerHour ≤ b - b % usPerHour
    unfold usPerHour; omega

theorem yearOf_dby_mul (y : Nat) (hy : 1 ≤ y) : yearOf (dby y * usPerDay) = y := by
  unfold yearOf; rw [dayNum_mul]
  exact yearOfDay_unique hy (le_refl _) (dby_lt_succ y hy)

theorem truncTo_idem (r : Res) (t : Nat) : truncTo r (truncTo r t) = truncTo r t := by
  cases r
  · show dby (yearOf (dby (yearOf t) * usPerDay)) * usPerDay = dby (yearOf t) * usPerDay
    have := yearOf_dby_mul (yearOf t) (yearOfDay_spec (dayNum t)).1
    rw [this]
  · show monthStartDay (dayNum (monthStartDay (dayNum t) * usPerDay)) * usPerDay = _
    rw [dayNum_mul, monthStartDay_idem]; rfl
  · show (t - t % usPerDay) - (t - t % usPerDay) % usPerDay = t - t % usPerDay
    unfold usPerDay; omega
  · show (t - t % usPerHour) - (t - t % usPerHour) % usPerHour = t - t % usPerHour
    unfold usPerHour; omega

theorem yearOf_truncTo (r : Res) (t : Nat) : yearOf (truncTo r t) = yearOf t := by
  cases r
  · exact yearOf_dby_mul _ (yearOfDay_spec _).1
  · show yearOfDay (dayNum (monthStartDay (dayNum t) * usPerDay)) = _
    rw [dayNum_mul]; exact (monthStartDay_fields _).1
  · show yearOfDay (dayNum (t - t % usPerDay)) = yearOfDay (dayNum t)
    have : dayNum (t - t % usPerDay) = dayNum t := by unfold dayNum usPerDay; omega
    rw [this]
  · show yearOfDay (dayNum (t - t % usPerHour)) = yearOfDay (dayNum t)
    have : dayNum (t - t % usPerHour) = dayNum t := by unfold dayNum usPerDay usPerHour; omega
    rw [this]

/-! ### the calendar fields of a time rebuild its truncation -/

theorem yearOf_le_9999 {t : Nat} (h : t ≤ maxT) : yearOf t ≤ 9999 := by
  obtain ⟨h0, h1, _⟩ := yearOfDay_spec (dayNum t)
  by_contra hc
  have h2 := dby_mono (y := 10000) (z := yearOf t) (by omega) (by omega)
  have e : dby 10000 = 3652059 := by decide
  have h3 : dayNum t < dby 10000 := by
    rw [e]; unfold dayNum; unfold maxT at h; rw [e] at h; unfold usPerDay at *; omega
  unfold yearOf at h2 hc; omega

theorem fields_valid (d : Nat) :
    1 ≤ monthOfDay d ∧ monthOfDay d ≤ 12 ∧ 1 ≤ domOfDay d ∧
    domOfDay d ≤ monthLen (isLeap (yearOfDay d)) (monthOfDay d) ∧
    dby (yearOfDay d) + dbm (isLeap (yearOfDay d)) (monthOfDay d) + (domOfDay d - 1) = d := by
  obtain ⟨_, y1, _⟩ := yearOfDay_spec d
  obtain ⟨m1, m2, m3, m4⟩ := monthOfDay_spec d
  rw [dbm_succ _ _ m1 m2] at m4
  unfold domOfDay
  unfold doy0OfDay at *
  refine ⟨m1, m2, by omega, by omega, by omega⟩

theorem mkDate_fields_day {t : Nat} (h : t ≤ maxT) :
    mkDate (yearOf t) (monthOf t) (domOf t) none = some (truncTo .day t) := by
  obtain ⟨v1, v2, v3, v4, v5⟩ := fields_valid (dayNum t)
  have hy := yearOf_le_9999 h
  have hy1 := (yearOfDay_spec (dayNum t)).1
  unfold mkDate
  simp only []
  rw [if_pos (by unfold yearOf monthOf domOf at *; exact ⟨hy1, hy, v1, v2, v3, v4, by omega⟩)]
  unfold yearOf monthOf domOf
  rw [v5]
  show some (dayNum t * usPerDay + 0 * usPerHour) = some (t - t % usPerDay)
  unfold dayNum usPerDay; congr 1; omega

theorem mkDate_fields_hour {t : Nat} (h : t ≤ maxT) :
    mkDate (yearOf t) (monthOf t) (domOf t) (some (hourOf t)) = some (truncTo .hour t) := by
  obtain ⟨v1, v2, v3, v4, v5⟩ := fields_valid (dayNum t)
  have hy := yearOf_le_9999 h
  have hy1 := (yearOfDay_spec (dayNum t)).1
  have hh : hourOf t < 24 := by unfold hourOf usPerDay usPerHour; omega
  unfold mkDate
  simp only []
  rw [if_pos (by unfold yearOf monthOf domOf at *; exact ⟨hy1, hy, v1, v2, v3, v4, hh⟩)]
  unfold yearOf monthOf domOf
  rw [v5]
  show some (dayNum t * usPerDay + hourOf t * usPerHour) = some (t - t % usPerHour)
  unfold dayNum hourOf usPerDay usPerHour; congr 1; omega

/-- `{doy}` of a time converts back to its month and day -/
theorem doy_fields (t : Nat) :
    monthOfDay (dby (yearOf t) + doyOf t - 1) = monthOf t ∧
    domOfDay (dby (yearOf t) + doyOf t - 1) = domOf t := by
  obtain ⟨_, y1, _⟩ := yearOfDay_spec (dayNum t)
  have : dby (yearOf t) + doyOf t - 1 = dayNum t := by
    unfold doyOf doy0OfDay yearOf; omega
  rw [this]; exact ⟨rfl, rfl⟩

/-! ### 7-tuples and times are in bijection -/

/-- every time up to `datetime.max` is the value of the 7-tuple of its own fields -/
theorem ofFields_fields {t : Nat} (h : t ≤ maxT) :
    ofFields (yearOf t) (monthOf t) (domOf t) (hourOf t) (minuteOf t) (secondOf t) (microOf t) = some t := by
  unfold ofFields
  rw [mkDate_fields_hour h]
  simp only []
  have h1 : minuteOf t < 60 := by unfold minuteOf usPerHour; omega
  have h2 : secondOf t < 60 := by unfold secondOf; omega
  have h3 : microOf t < 1000000 := by unfold microOf; omega
  rw [if_pos ⟨h1, h2, h3⟩]
  congr 1
  show t - t % usPerHour + minuteOf t * 60000000 + secondOf t * 1000000 + microOf t = t
  unfold minuteOf secondOf microOf usPerHour; omega

/-- a valid 7-tuple is recovered from its value: `ofFields` is injective -/
theorem fields_ofFields {y mo d h mi s us t : Nat} (hv : ofFields y mo d h mi s us = some t) :
    yearOf t = y ∧ monthOf t = mo ∧ domOf t = d ∧ hourOf t = h ∧ minuteOf t = mi ∧ secondOf t = s ∧
    microOf t = us ∧ t ≤ maxT := by
  unfold ofFields mkDate at hv
  simp only [] at hv
  by_cases hc : 1 ≤ y ∧ y ≤ 9999 ∧ 1 ≤ mo ∧ mo ≤ 12 ∧ 1 ≤ d ∧ d ≤ monthLen (isLeap y) mo ∧ h < 24
  · rw [if_pos hc] at hv
    simp only [] at hv
    by_cases hc2 : mi < 60 ∧ s < 60 ∧ us < 1000000
    · rw [if_pos hc2] at hv
      simp only [Option.some.injEq] at hv
      obtain ⟨y1, y2, m1, m2, d1, d2, hh⟩ := hc
      obtain ⟨c1, c2, c3⟩ := hc2
      have hsucc := dbm_succ (isLeap y) mo m1 m2
      have h13 := dbm_mono (isLeap y) (a := mo + 1) (b := 13) (by omega) (by omega) (le_refl _)
      rw [dbm_13] at h13
      have hx : dbm (isLeap y) mo + (d - 1) < yearLen y := by omega
      have hday : dayNum t = dby y + (dbm (isLeap y) mo + (d - 1)) := by
        rw [← hv]; unfold dayNum usPerDay usPerHour; omega
      have ey : yearOfDay (dayNum t) = y := by rw [hday]; exact yearOfDay_add y1 hx
      have edoy : doy0OfDay (dayNum t) = dbm (isLeap y) mo + (d - 1) := by
        unfold doy0OfDay; rw [ey, hday]; omega
      have em : monthOfDay (dayNum t) = mo := by
        apply monthOfDay_eq m1 m2 <;> rw [ey, edoy] <;> omega
      have ed : domOfDay (dayNum t) = d := by
        unfold domOfDay; rw [ey, em, edoy]; omega
      have ey' : dby y < dby 10000 := dby_strict y1 (by omega)
      have e10 : dby 10000 = 3652059 := by decide
      have hle := dby_mono (y := y + 1) (z := 10000) (by omega) (by omega)
      rw [dby_succ y y1] at hle
      refine ⟨ey, em, ed, ?_, ?_, ?_, ?_, ?_⟩
      · rw [← hv]; unfold hourOf usPerDay usPerHour; omega
      · rw [← hv]; unfold minuteOf usPerDay usPerHour; omega
      · rw [← hv]; unfold secondOf usPerDay usPerHour; omega
      · rw [← hv]; unfold microOf usPerDay usPerHour; omega
      · have : dayNum t < dby 10000 := by rw [hday]; omega
        rw [e10] at this
        unfold maxT; rw [e10]; unfold dayNum usPerDay at *; omega
    · rw [if_neg hc2] at hv; cases hv
  · rw [if_neg hc] at hv; cases hv

/-- every month is at most `Res.month.micros`, every year at most `Res.year.micros` long -/
theorem period_le_res :
    (∀ l m, monthLen l m * usPerDay ≤ Res.month.micros) ∧ (∀ y, yearLen y * usPerDay ≤ Res.year.micros) := by
  refine ⟨fun l m => ?_, fun y => ?_⟩
  · exact Nat.mul_le_mul_right _ (monthLen_le l m)
  · exact Nat.mul_le_mul_right _ (yearLen_le y)

end TM
