import Model.Time
namespace TM
theorem truncTo_hour_le (t : Nat) : truncTo .hour t ≤ t := by show t - t % usPerHour ≤ t; omega
end TM
