import Proofs.Lemmas.Find
/-!
Specification vocabulary shared by the property files C01 and C16: the declarative
selection predicate `Selected`, the key order `KeyLe`, the files of an answer, and the
bridges between them and the executable model.
-/
open FS TM

/-- the declarative selection of the property for the semi-open period `[start, stop)` -/
def Selected (cfg : Config) (F : Filters) (start stop : Nat) (f : FileRec) : Prop :=
  f.t0 < stop ∧ start ≤ f.t1 ∧
  ¬ (f.id ∈ cfg.exclNames ∨ ∃ p ∈ cfg.exclTimes, p.1 ≤ f.t1 ∧ f.t0 ≤ p.2) ∧
  whiteOk F.white f.users = true ∧ blackOk F.black f.users = true

/-- the files of an answer, bundled or not -/
def Out.files : Out → List FileRec
  | .flat l => l
  | .bundles bs => bs.flatten

/-- order of the sort key `(t0, t1)` -/
def KeyLe (a b : FileRec) : Prop := a.t0 < b.t0 ∨ (a.t0 = b.t0 ∧ a.t1 ≤ b.t1)

theorem sel_iff {cfg : Config} {F : Filters} {s e stop : Nat} (f : FileRec)
    (hse : e + 1 = stop) : sel cfg F s e f = true ↔ Selected cfg F s stop f := by
  unfold sel Selected overlaps
  simp only [Bool.and_eq_true, decide_eq_true_eq, Bool.not_eq_true', ← Bool.not_eq_true,
    isExcluded_iff]
  constructor
  · rintro ⟨⟨⟨⟨h1, h2⟩, h3⟩, h4⟩, h5⟩; exact ⟨by omega, h2, h3, h4, h5⟩
  · rintro ⟨h1, h2, h3, h4, h5⟩; exact ⟨⟨⟨⟨by omega, h2⟩, h3⟩, h4⟩, h5⟩

theorem keyLe_iff (a b : FileRec) : keyLe a b = true ↔ KeyLe a b := by
  unfold keyLe KeyLe; simp

theorem findRaw_ok {cfg : Config} {q : Query} {pop raw : List FileRec}
    (h : findRaw cfg q pop = .ok raw) :
    ∃ s e ds, period cfg q = .ok (s, e, ds) ∧ raw = pop.filter (keep cfg q.filters s e ds) := by
  unfold findRaw at h
  cases hp : period cfg q with
  | error err => rw [hp] at h; cases h
  | ok v =>
    obtain ⟨s, e, ds⟩ := v
    rw [hp] at h
    simp only [Except.ok.injEq] at h
    exact ⟨s, e, ds, rfl, h.symm⟩

theorem prepare_files_perm {raw : List FileRec} {sort : Bool} {b : Bundle} {out : Out}
    (h : prepare raw sort b = .ok out) : (Out.files out).Perm raw := by
  unfold prepare at h
  cases b with
  | none =>
    simp only [Except.ok.injEq] at h
    subst h
    unfold Out.files
    by_cases hs : sort = true
    · simp only [hs, if_true]; exact sortFiles_perm raw
    · simp only [hs]; exact List.Perm.refl _
  | count n =>
    by_cases hn : n = 0
    · simp [hn] at h
    · simp only [hn, if_false, Except.ok.injEq] at h
      subst h
      unfold Out.files chunksOf
      simp only []
      rw [chunksAux_flatten n (by omega) _ _ (le_refl _)]
      exact sortFiles_perm raw
  | freq w =>
    simp only [] at h
    split at h
    · cases h
    · simp only [Except.ok.injEq] at h
      subst h
      unfold Out.files
      exact ((groupByBin_props w _).1).trans (sortFiles_perm raw)

theorem find_ok {cfg : Config} {q : Query} {sort : Bool} {b : Bundle} {nf : Bool}
    {pop : List FileRec} {out : Out} (h : find cfg q sort b nf pop = .ok out) :
    ∃ raw, findRaw cfg q pop = .ok raw ∧ prepare raw sort b = .ok out := by
  unfold find at h
  cases hr : findRaw cfg q pop with
  | error err => rw [hr] at h; cases h
  | ok raw =>
    rw [hr] at h
    simp only [] at h
    by_cases hc : (nf && raw.isEmpty) = true
    · rw [if_pos hc] at h; cases h
    · rw [if_neg hc] at h; exact ⟨raw, rfl, h⟩

