import Model.Find
import Proofs.Lemmas.Time
/-!
Helper lemmas for C01 about `Model/Find.lean`: the adjusted period, exclusion, sorting,
bundling, and the pruning-completeness induction `dirsOk_of_placed`.
-/
namespace FS
open TM

/-! ### small facts -/

theorem lookup_mem {β : Type} (l : List (String × β)) (k : String) (v : β)
    (h : l.lookup k = some v) : (k, v) ∈ l := by
  induction l with
  | nil => simp at h
  | cons a t ih =>
    obtain ⟨a1, a2⟩ := a
    simp only [List.lookup_cons] at h
    by_cases e : k == a1
    · simp [e] at h; simp at e; subst e; subst h; simp
    · simp [e] at h; exact List.mem_cons_of_mem _ (ih h)

theorem isExcluded_iff (cfg : Config) (f : FileRec) :
    isExcluded cfg f = true ↔
      f.id ∈ cfg.exclNames ∨ ∃ p ∈ cfg.exclTimes, p.1 ≤ f.t1 ∧ f.t0 ≤ p.2 := by
  simp [isExcluded]

/-- directory-level white-list check follows from the whole-path check when the directory
values are those of the path -/
theorem whiteOk_sub (wl : List (String × List String)) (us vs : List (String × String))
    (hsub : vs.all (fun nv => us.lookup nv.1 == some nv.2) = true) (h : whiteOk wl us = true) :
    whiteOk wl vs = true := by
  unfold whiteOk at *
  rw [List.all_eq_true] at *
  intro nv hnv
  have h1 := hsub nv hnv
  simp only [beq_iff_eq] at h1
  exact h (nv.1, nv.2) (lookup_mem _ _ _ h1)

/-! ### the adjusted period -/

theorem period_ok {cfg : Config} {q : Query} {s e ds : Nat} (h : period cfg q = .ok (s, e, ds)) :
    s = startOf q ∧ e + 1 = stopOf q ∧ s ≤ e ∧
    (cfg.layout = [] ∧ ds = s ∨ ds = 0 ∧ s = 0 ∨
      ∃ r, subDirRes cfg.layout = some r ∧ r ≤ s ∧ ds = s - r) := by
  unfold period at h
  by_cases h0 : stopOf q = 0
  · simp [h0] at h
  · by_cases h1 : stopOf q - 1 < startOf q
    · simp [h0, h1] at h
    · simp only [h0, h1, if_false] at h
      cases hr : subDirRes cfg.layout with
      | none =>
        rw [hr] at h
        simp only [Except.ok.injEq, Prod.mk.injEq] at h
        obtain ⟨rfl, rfl, rfl⟩ := h
        refine ⟨rfl, by omega, by omega, Or.inl ⟨?_, rfl⟩⟩
        unfold subDirRes at hr
        by_cases he : cfg.layout.isEmpty = true
        · simpa using he
        · simp [he] at hr
      | some r =>
        rw [hr] at h
        by_cases h2 : startOf q = 0
        · simp only [h2, if_true, Except.ok.injEq, Prod.mk.injEq] at h
          obtain ⟨rfl, rfl, rfl⟩ := h
          exact ⟨h2.symm, by omega, by omega, Or.inr (Or.inl ⟨rfl, rfl⟩)⟩
        · by_cases h3 : startOf q < r
          · simp [h2, h3] at h
          · simp only [h2, h3, if_false, Except.ok.injEq, Prod.mk.injEq] at h
            obtain ⟨rfl, rfl, rfl⟩ := h
            exact ⟨rfl, by omega, by omega, Or.inr (Or.inr ⟨r, rfl, by omega, rfl⟩)⟩

/-! ### sorting -/

theorem keyLe_trans (a b c : FileRec) (h1 : keyLe a b = true) (h2 : keyLe b c = true) :
    keyLe a c = true := by
  unfold keyLe at *
  simp only [Bool.or_eq_true, Bool.and_eq_true, decide_eq_true_eq] at *
  omega

theorem keyLe_total (a b : FileRec) : (keyLe a b || keyLe b a) = true := by
  unfold keyLe
  simp only [Bool.or_eq_true, Bool.and_eq_true, decide_eq_true_eq]
  omega

theorem sortFiles_perm (l : List FileRec) : (sortFiles l).Perm l := List.mergeSort_perm l keyLe

theorem sortFiles_sorted (l : List FileRec) :
    (sortFiles l).Pairwise (fun a b => keyLe a b = true) :=
  List.pairwise_mergeSort keyLe_trans keyLe_total l

/-! ### bundling by count -/

theorem chunksAux_flatten {α : Type} (n : Nat) (hn : 0 < n) :
    ∀ (fuel : Nat) (l : List α), l.length ≤ fuel → (chunksAux n fuel l).flatten = l := by
  intro fuel
  induction fuel with
  | zero => intro l h; simp at h; subst h; simp [chunksAux]
  | succ k ih =>
    intro l h
    unfold chunksAux
    split
    · rename_i he; simp at he; subst he; simp
    · rename_i hne
      have hl : 0 < l.length := by
        cases l with
        | nil => simp at hne
        | cons a t => simp
      rw [List.flatten_cons, ih (l.drop n) (by rw [List.length_drop]; omega), List.take_append_drop]

theorem chunksAux_props {α : Type} (n : Nat) (hn : 0 < n) :
    ∀ (fuel : Nat) (l : List α), ∀ b ∈ chunksAux n fuel l, b ≠ [] ∧ b.length ≤ n := by
  intro fuel
  induction fuel with
  | zero => intro l b hb; simp [chunksAux] at hb
  | succ k ih =>
    intro l b hb
    unfold chunksAux at hb
    split at hb
    · simp at hb
    · rename_i hne
      rcases List.mem_cons.mp hb with h | h
      · subst h
        constructor
        · cases l with
          | nil => simp at hne
          | cons a t =>
            cases n with
            | zero => omega
            | succ m => simp
        · rw [List.length_take]; omega
      · exact ih _ b h

/-! ### bundling by frequency -/

theorem foldl_min_le (l : List Nat) (a : Nat) : l.foldl min a ≤ a ∧ ∀ x ∈ l, l.foldl min a ≤ x := by
  induction l generalizing a with
  | nil => simp
  | cons b t ih =>
    simp only [List.foldl_cons]
    obtain ⟨h1, h2⟩ := ih (min a b)
    refine ⟨by omega, ?_⟩
    intro x hx
    rcases List.mem_cons.mp hx with h | h
    · subst h; omega
    · exact h2 x h

theorem foldl_min_mem (l : List Nat) (a : Nat) : l.foldl min a = a ∨ l.foldl min a ∈ l := by
  induction l generalizing a with
  | nil => simp
  | cons b t ih =>
    simp only [List.foldl_cons]
    rcases ih (min a b) with h | h
    · rcases Nat.le_total a b with hab | hab
      · left; rw [h]; omega
      · right; rw [h]; simp; left; omega
    · right; exact List.mem_cons_of_mem _ h

/-- every group is non-empty and lies in one bin; the groups together are a permutation -/
theorem groupAux_props (w : Nat) :
    ∀ (fuel : Nat) (l : List FileRec), l.length ≤ fuel →
      (groupAux w fuel l).flatten.Perm l ∧
      ∀ b ∈ groupAux w fuel l, b ≠ [] ∧ ∀ x ∈ b, ∀ y ∈ b, binOf w x = binOf w y := by
  intro fuel
  induction fuel with
  | zero => intro l h; simp at h; subst h; simp [groupAux]
  | succ k ih =>
    intro l h
    cases l with
    | nil => simp [groupAux]
    | cons f t =>
      simp only [groupAux]
      generalize hb : (t.map (binOf w)).foldl min (binOf w f) = b
      have hmem : ∃ g ∈ f :: t, binOf w g = b := by
        rcases foldl_min_mem (t.map (binOf w)) (binOf w f) with h1 | h1
        · exact ⟨f, by simp, by rw [← hb, h1]⟩
        · rw [hb] at h1
          obtain ⟨g, hg, e⟩ := List.mem_map.mp h1
          exact ⟨g, List.mem_cons_of_mem _ hg, e⟩
      have hlen : ((f :: t).filter fun g => binOf w g != b).length ≤ k := by
        obtain ⟨g, hg, e⟩ := hmem
        have : ((f :: t).filter fun g => binOf w g != b).length < (f :: t).length := by
          apply List.length_filter_lt_length_iff_exists.mpr
          exact ⟨g, hg, by simp [e]⟩
        simp only [List.length_cons] at h this
        omega
      obtain ⟨ihp, ihb⟩ := ih _ hlen
      constructor
      · rw [List.flatten_cons]
        have hsplit : List.Perm (((f :: t).filter fun g => binOf w g == b) ++
            ((f :: t).filter fun g => binOf w g != b)) (f :: t) := by
          have := List.filter_append_perm (fun g => binOf w g == b) (f :: t)
          have e : (fun g => binOf w g != b) = (fun g => !(binOf w g == b)) := by
            funext g; rfl
          rw [e]; exact this
        exact (List.Perm.append_left _ ihp).trans hsplit
      · intro bb hbb
        rcases List.mem_cons.mp hbb with h1 | h1
        · subst h1
          constructor
          · obtain ⟨g, hg, e⟩ := hmem
            intro hnil
            have : g ∈ (f :: t).filter fun g => binOf w g == b :=
              List.mem_filter.mpr ⟨hg, by simp [e]⟩
            rw [hnil] at this; simp at this
          · intro x hx y hy
            have hx' := (List.mem_filter.mp hx).2
            have hy' := (List.mem_filter.mp hy).2
            simp only [beq_iff_eq] at hx' hy'
            omega
        · exact ihb bb h1

theorem groupByBin_props (w : Nat) (l : List FileRec) :
    (groupByBin w l).flatten.Perm l ∧
    ∀ b ∈ groupByBin w l, b ≠ [] ∧ ∀ x ∈ b, ∀ y ∈ b, binOf w x = binOf w y :=
  groupAux_props w l.length l (le_refl _)

end FS

namespace FS
open TM

/-! ### pruning completeness -/

/-- `acc` holds exactly the placeholders `fs`, each with the value of the field of `t` -/
structure AccOf (t : Nat) (fs : List Field) (acc : TAttr) : Prop where
  pres : levelConforms ⟨false, fs⟩ ⟨acc, []⟩ = true
  vals : levelOfTime t ⟨acc, []⟩ = true

theorem accOf_nil (t : Nat) : AccOf t [] {} := ⟨by decide, by simp [levelOfTime, optAll]⟩

theorem isSome_orElse {α : Type} (a b : Option α) : (b <|> a).isSome = (b.isSome || a.isSome) := by
  cases b <;> simp

theorem optAll_orElse (a b : Option Nat) (p : Nat → Bool) (ha : optAll a p = true)
    (hb : optAll b p = true) : optAll (b <|> a) p = true := by
  cases b <;> simpa [optAll] using (by first | exact ha | exact hb)

theorem accOf_merge {t : Nat} {fs : List Field} {acc : TAttr} {c : Chunk} {v : Level}
    (h : AccOf t fs acc) (hc : levelConforms c v = true) (hv : levelOfTime t v = true) :
    AccOf t (fs ++ c.fields) (acc.merge v.t) := by
  obtain ⟨hp, hvals⟩ := h
  constructor
  · simp only [levelConforms, Bool.and_eq_true, beq_iff_eq] at hp hc ⊢
    simp only [TAttr.merge, isSome_orElse, List.contains_append]
    obtain ⟨⟨⟨⟨⟨p1, p2⟩, p3⟩, p4⟩, p5⟩, p6⟩ := hp
    obtain ⟨⟨⟨⟨⟨c1, c2⟩, c3⟩, c4⟩, c5⟩, c6⟩ := hc
    rw [p1, p2, p3, p4, p5, p6, c1, c2, c3, c4, c5, c6]
    simp [Bool.or_comm]
  · simp only [levelOfTime, Bool.and_eq_true] at hvals hv ⊢
    obtain ⟨⟨⟨⟨⟨p1, p2⟩, p3⟩, p4⟩, p5⟩, p6⟩ := hvals
    obtain ⟨⟨⟨⟨⟨c1, c2⟩, c3⟩, c4⟩, c5⟩, c6⟩ := hv
    simp only [TAttr.merge]
    exact ⟨⟨⟨⟨⟨optAll_orElse _ _ _ p1 c1, optAll_orElse _ _ _ p2 c2⟩, optAll_orElse _ _ _ p3 c3⟩,
      optAll_orElse _ _ _ p4 c4⟩, optAll_orElse _ _ _ p5 c5⟩, optAll_orElse _ _ _ p6 c6⟩

end FS

namespace FS
open TM

theorem resOfFields_hour {fs : List Field} (h : fs.contains .hour = true) : resOfFields fs = .hour := by
  unfold resOfFields; rw [h]; rfl

theorem resOfFields_day {fs : List Field} (h : fs.contains .hour = false)
    (h2 : (fs.contains .day || fs.contains .doy) = true) : resOfFields fs = .day := by
  unfold resOfFields; rw [h, h2]; rfl

/-- **the three outcomes of `_check_placeholders` all accept the directory of `t`** when
`ds ≤ t ≤ e` (or when the levels so far hold no temporal placeholder at all) -/
theorem check_of_acc {t ds e : Nat} {fs : List Field} {acc : TAttr} (hacc : AccOf t fs acc)
    (ht : t ≤ maxT) (h1 : ds ≤ t ∨ fs = []) (h2 : t ≤ e) :
    checkPlaceholders acc (truncTo (resOfFields fs) ds) (truncTo (resOfFields fs) e) = true := by
  obtain ⟨hp, hv⟩ := hacc
  simp only [levelConforms, Bool.and_eq_true, beq_iff_eq] at hp
  simp only [levelOfTime, Bool.and_eq_true] at hv
  obtain ⟨⟨⟨⟨⟨p1, p2⟩, p3⟩, p4⟩, p5⟩, p6⟩ := hp
  obtain ⟨⟨⟨⟨⟨v1, v2⟩, v3⟩, v4⟩, v5⟩, v6⟩ := hv
  unfold checkPlaceholders
  cases hy : acc.stdYear with
  | none => rfl
  | some y =>
    -- the year is the year of `t`
    have hyt : y = yearOf t := by
      unfold TAttr.stdYear at hy
      cases h2' : acc.year2 with
      | some y2 =>
        rw [h2'] at hy v2; simp only [Option.some.injEq] at hy
        simp only [optAll, beq_iff_eq] at v2; omega
      | none =>
        rw [h2'] at hy; simp only at hy
        rw [hy] at v1; simpa [optAll] using v1
    subst hyt
    have hds : ds ≤ t := by
      rcases h1 with h | h
      · exact h
      · subst h
        simp only [List.contains_nil] at p1 p2
        unfold TAttr.stdYear at hy
        cases h2' : acc.year2 with
        | some y2 => rw [h2'] at p2; simp at p2
        | none =>
          rw [h2'] at hy; simp only at hy
          rw [hy] at p1; simp at p1
    have hfb : decide (yearOf (truncTo (resOfFields fs) ds) ≤ yearOf t ∧
        yearOf t ≤ yearOf (truncTo (resOfFields fs) e)) = true := by
      rw [yearOf_truncTo, yearOf_truncTo]
      exact decide_eq_true ⟨yearOf_mono hds, yearOf_mono h2⟩
    simp only []
    -- month and day, when both known, are those of `t`; then day or doy is a placeholder
    have hmd : ∀ m d, acc.stdMonthDay = (some m, some d) →
        m = monthOf t ∧ d = domOf t ∧ (fs.contains .day || fs.contains .doy) = true := by
      intro m d hmd
      unfold TAttr.stdMonthDay at hmd
      rw [hy] at hmd
      cases hd : acc.doy with
      | some n =>
        rw [hd] at hmd v5 p5
        simp only [Prod.mk.injEq, Option.some.injEq] at hmd
        simp only [optAll, beq_iff_eq] at v5
        subst v5
        obtain ⟨e1, e2⟩ := doy_fields t
        refine ⟨by rw [← hmd.1, e1], by rw [← hmd.2, e2], ?_⟩
        rw [← p5]; simp
      | none =>
        rw [hd] at hmd
        simp only [Prod.mk.injEq] at hmd
        rw [hmd.1] at v3; rw [hmd.2] at v4 p4
        simp only [optAll, beq_iff_eq] at v3 v4
        refine ⟨v3, v4, ?_⟩
        rw [← p4]; simp
    rcases hsm : acc.stdMonthDay with ⟨om, od⟩
    cases om with
    | none => simpa using hfb
    | some m =>
      cases od with
      | none => simpa using hfb
      | some d =>
        obtain ⟨rfl, rfl, hdd⟩ := hmd m d hsm
        simp only []
        cases hh : acc.hour with
        | some h =>
          rw [hh] at v6 p6
          simp only [optAll, beq_iff_eq] at v6
          subst v6
          rw [mkDate_fields_hour ht]
          have hr : resOfFields fs = .hour := resOfFields_hour (by rw [← p6]; rfl)
          rw [hr]
          exact decide_eq_true ⟨truncTo_mono _ hds, truncTo_mono _ h2⟩
        | none =>
          rw [hh] at p6
          rw [mkDate_fields_day ht]
          have hr : resOfFields fs = .day := resOfFields_day (by rw [← p6]; rfl) hdd
          rw [hr]
          exact decide_eq_true ⟨truncTo_mono _ hds, truncTo_mono _ h2⟩

end FS

namespace FS
open TM

/-- **pruning completeness, induction over the directory levels**: the chain of
directories of a file whose start time `t` satisfies `ds ≤ t ≤ e` survives every level of
`_get_search_dirs` -/
theorem dirsOk_of_placed (wl : List (String × List String)) (t ds e : Nat) (ht : t ≤ maxT)
    (h2 : t ≤ e) :
    ∀ (cs : List Chunk) (vs : List Level) (fs : List Field) (acc : TAttr),
      AccOf t fs acc → conforms cs vs = true → vs.all (levelOfTime t) = true →
      vs.all (fun v => whiteOk wl v.users) = true →
      (ds ≤ t ∨ (fs = [] ∧ ∀ c ∈ cs, c.fields = [])) →
      dirsOk wl ds e fs acc cs vs = true := by
  intro cs
  induction cs with
  | nil =>
    intro vs fs acc _ hc _ _ _
    cases vs with
    | nil => rfl
    | cons v vs => simp [conforms] at hc
  | cons c cs ih =>
    intro vs fs acc hacc hc hv hw H
    cases vs with
    | nil => simp [conforms] at hc
    | cons v vs =>
      simp only [conforms, Bool.and_eq_true] at hc
      simp only [List.all_cons, Bool.and_eq_true] at hv hw
      unfold dirsOk
      have Hrest : ∀ fs' : List Field, (fs = [] → c.fields = [] → fs' = []) →
          (ds ≤ t ∨ (fs' = [] ∧ ∀ c' ∈ cs, c'.fields = [])) := by
        intro fs' hfs
        rcases H with h | ⟨h1, h3⟩
        · exact Or.inl h
        · exact Or.inr ⟨hfs h1 (h3 c (by simp)), fun c' hc' => h3 c' (List.mem_cons_of_mem _ hc')⟩
      by_cases hl : c.lit = true
      · rw [if_pos hl]
        exact ih vs fs acc hacc hc.2 hv.2 hw.2 (Hrest fs (fun h _ => h))
      · rw [if_neg hl]
        have hacc' := accOf_merge hacc hc.1 hv.1
        have H' := Hrest (fs ++ c.fields) (fun h1 h3 => by rw [h1, h3]; rfl)
        have hchk := check_of_acc (ds := ds) (e := e) hacc' ht
          (H'.imp id (fun h => h.1)) h2
        simp only [Bool.and_eq_true]
        exact ⟨⟨hw.1, hchk⟩, ih vs _ _ hacc' hc.2 hv.2 hw.2 H'⟩

/-- the declarative selection of C01 for the adjusted period `[s, e]` -/
def sel (cfg : Config) (F : Filters) (s e : Nat) (f : FileRec) : Bool :=
  overlaps f s e && !isExcluded cfg f && whiteOk F.white f.users && blackOk F.black f.users

theorem sel_of_keep {cfg : Config} {F : Filters} {s e ds : Nat} {f : FileRec}
    (h : keep cfg F s e ds f = true) : sel cfg F s e f = true := by
  unfold keep at h; unfold sel
  simp only [Bool.and_eq_true] at h ⊢
  exact ⟨⟨⟨h.1.1.2, h.1.2⟩, h.1.1.1.2⟩, h.2⟩

theorem fields_empty_of_flatMap {L : List Chunk} (h : (L.flatMap (·.fields)).isEmpty = true) :
    ∀ c ∈ L, c.fields = [] := by
  intro c hc
  rw [List.isEmpty_iff] at h
  have := List.flatMap_eq_nil_iff.mp h c hc
  exact this

/-- **pruning completeness**: a well-placed file whose coverage meets the period keeps its
whole chain of directories, whatever the layout -/
theorem dirs_kept {cfg : Config} {q : Query} {s e ds : Nat} {f : FileRec}
    (hper : period cfg q = .ok (s, e, ds)) (hwp : wellPlaced cfg f = true)
    (hw : whiteOk q.filters.white f.users = true) (h0 : f.t0 ≤ e) (h1 : s ≤ f.t1) :
    dirsOk q.filters.white ds e [] {} cfg.layout f.dirs = true := by
  unfold wellPlaced at hwp
  simp only [Bool.and_eq_true, decide_eq_true_eq] at hwp
  obtain ⟨⟨⟨⟨⟨w1, w2⟩, w3⟩, w4⟩, w5⟩, w6⟩ := hwp
  apply dirsOk_of_placed q.filters.white f.t0 ds e (by omega) h0 cfg.layout f.dirs [] {}
    (accOf_nil _) w1 w2
  · rw [List.all_eq_true] at w6 ⊢
    intro v hv
    exact whiteOk_sub _ _ _ (w6 v hv) hw
  · obtain ⟨_, _, _, hcase⟩ := period_ok hper
    rcases hcase with ⟨hl, _⟩ | ⟨h0, _⟩ | ⟨r, hr, hrs, hds⟩
    · right; rw [hl]; exact ⟨rfl, by simp⟩
    · left; omega
    · rw [hr] at w5
      simp only [Bool.or_eq_true, decide_eq_true_eq] at w5
      rcases w5 with h5 | h5
      · right; exact ⟨rfl, fields_empty_of_flatMap h5⟩
      · left; omega

theorem keep_of_sel {cfg : Config} {q : Query} {s e ds : Nat} {f : FileRec}
    (hper : period cfg q = .ok (s, e, ds)) (hwp : wellPlaced cfg f = true)
    (h : sel cfg q.filters s e f = true) : keep cfg q.filters s e ds f = true := by
  unfold sel at h
  simp only [Bool.and_eq_true] at h
  obtain ⟨⟨⟨ho, hx⟩, hw⟩, hb⟩ := h
  have ho' := ho
  unfold overlaps at ho'
  simp only [decide_eq_true_eq] at ho'
  have hdirs := dirs_kept hper hwp hw ho'.1 ho'.2
  unfold keep
  simp only [Bool.and_eq_true]
  exact ⟨⟨⟨⟨hdirs, hw⟩, ho⟩, hx⟩, hb⟩

theorem keep_eq_sel {cfg : Config} {q : Query} {s e ds : Nat} {f : FileRec}
    (hper : period cfg q = .ok (s, e, ds)) (hwp : wellPlaced cfg f = true) :
    keep cfg q.filters s e ds f = sel cfg q.filters s e f := by
  cases hk : keep cfg q.filters s e ds f with
  | true => exact (sel_of_keep hk).symm
  | false =>
    cases hs : sel cfg q.filters s e f with
    | false => rfl
    | true => rw [keep_of_sel hper hwp hs] at hk; cases hk

end FS

/-! ### frequency bundles of a sorted answer concatenate to the answer -/

namespace FS
open TM

/-- ordered by frequency bin -/
def BinSorted (w : Nat) (l : List FileRec) : Prop := l.Pairwise (fun a b => binOf w a ≤ binOf w b)

theorem filter_split_of_binSorted (w b : Nat) :
    ∀ l : List FileRec, BinSorted w l → (∀ x ∈ l, b ≤ binOf w x) →
      (l.filter fun g => binOf w g == b) ++ (l.filter fun g => binOf w g != b) = l := by
  intro l
  induction l with
  | nil => intro _ _; rfl
  | cons x l ih =>
    intro hs hb
    have hs' : BinSorted w l := (List.pairwise_cons.mp hs).2
    have hx := (List.pairwise_cons.mp hs).1
    have hb' : ∀ y ∈ l, b ≤ binOf w y := fun y hy => hb y (List.mem_cons_of_mem _ hy)
    by_cases hxb : binOf w x = b
    · have e1 : (binOf w x == b) = true := by simp [hxb]
      have e2 : (binOf w x != b) = false := by simp [hxb]
      simp only [List.filter_cons, e1, e2, if_true, Bool.false_eq_true, if_false, List.cons_append]
      rw [ih hs' hb']
    · have hgt : b < binOf w x := by
        have := hb x (by simp); omega
      have e1 : ¬ (binOf w x == b) = true := by simp [hxb]
      have e2 : (binOf w x != b) = true := by simp [hxb]
      have hnone : (l.filter fun g => binOf w g == b) = [] := by
        rw [List.filter_eq_nil_iff]
        intro y hy
        have := hx y hy
        simp only [beq_iff_eq]; omega
      have hall : (l.filter fun g => binOf w g != b) = l := by
        rw [List.filter_eq_self]
        intro y hy
        have := hx y hy
        simp only [bne_iff_ne, ne_eq]; omega
      have e1' : (binOf w x == b) = false := by simpa using e1
      simp only [List.filter_cons, e1', e2, if_true, Bool.false_eq_true, if_false]
      rw [hnone, hall]; rfl

theorem groupAux_flatten_of_binSorted (w : Nat) :
    ∀ (fuel : Nat) (l : List FileRec), l.length ≤ fuel → BinSorted w l →
      (groupAux w fuel l).flatten = l := by
  intro fuel
  induction fuel with
  | zero => intro l h _; simp at h; subst h; simp [groupAux]
  | succ k ih =>
    intro l h hs
    cases l with
    | nil => simp [groupAux]
    | cons f t =>
      simp only [groupAux]
      have hf := (List.pairwise_cons.mp hs).1
      have hb : (t.map (binOf w)).foldl min (binOf w f) = binOf w f := by
        rcases foldl_min_mem (t.map (binOf w)) (binOf w f) with h1 | h1
        · exact h1
        · obtain ⟨g, hg, e⟩ := List.mem_map.mp h1
          have h2 := (foldl_min_le (t.map (binOf w)) (binOf w f)).1
          have h3 := hf g hg
          omega
      rw [hb]
      have hlen : ((f :: t).filter fun g => binOf w g != binOf w f).length ≤ k := by
        have : ((f :: t).filter fun g => binOf w g != binOf w f).length < (f :: t).length := by
          apply List.length_filter_lt_length_iff_exists.mpr
          exact ⟨f, by simp, by simp⟩
        simp only [List.length_cons] at h this
        omega
      have hsub : BinSorted w ((f :: t).filter fun g => binOf w g != binOf w f) :=
        List.Pairwise.sublist List.filter_sublist hs
      rw [List.flatten_cons, ih _ hlen hsub]
      apply filter_split_of_binSorted w (binOf w f) (f :: t) hs
      intro x hx
      rcases List.mem_cons.mp hx with h1 | h1
      · subst h1; exact le_refl _
      · exact hf x h1

theorem sortFiles_binSorted (w : Nat) (l : List FileRec) : BinSorted w (sortFiles l) := by
  apply (sortFiles_sorted l).imp
  intro a b h
  unfold keyLe at h
  simp only [Bool.or_eq_true, Bool.and_eq_true, decide_eq_true_eq] at h
  unfold binOf
  apply Nat.div_le_div_right
  omega

theorem groupByBin_sortFiles_flatten (w : Nat) (l : List FileRec) :
    (groupByBin w (sortFiles l)).flatten = sortFiles l :=
  groupAux_flatten_of_binSorted w _ _ (le_refl _) (sortFiles_binSorted w l)

end FS

namespace FS
open TM

/-! ### one bundle per frequency bin, bins ascending -/

theorem groupAux_mem (w : Nat) (fuel : Nat) (l : List FileRec) (h : l.length ≤ fuel) :
    ∀ b ∈ groupAux w fuel l, ∀ f ∈ b, f ∈ l := by
  intro b hb f hf
  exact ((groupAux_props w fuel l h).1.mem_iff).mp (List.mem_flatten.mpr ⟨b, hb, hf⟩)

theorem groupAux_ascending (w : Nat) :
    ∀ (fuel : Nat) (l : List FileRec), l.length ≤ fuel →
      (groupAux w fuel l).Pairwise (fun x y => ∀ f ∈ x, ∀ g ∈ y, binOf w f < binOf w g) := by
  intro fuel
  induction fuel with
  | zero => intro l h; simp at h; subst h; simp [groupAux]
  | succ k ih =>
    intro l h
    cases l with
    | nil => simp [groupAux]
    | cons a t =>
      simp only [groupAux]
      generalize hb : (t.map (binOf w)).foldl min (binOf w a) = b
      have hmin : ∀ x ∈ a :: t, b ≤ binOf w x := by
        intro x hx
        obtain ⟨h1, h2⟩ := foldl_min_le (t.map (binOf w)) (binOf w a)
        rw [hb] at h1 h2
        rcases List.mem_cons.mp hx with e | e
        · subst e; exact h1
        · exact h2 _ (List.mem_map.mpr ⟨x, e, rfl⟩)
      have hmem : ∃ g ∈ a :: t, binOf w g = b := by
        rcases foldl_min_mem (t.map (binOf w)) (binOf w a) with h1 | h1
        · exact ⟨a, by simp, by rw [← hb, h1]⟩
        · rw [hb] at h1
          obtain ⟨g, hg, e⟩ := List.mem_map.mp h1
          exact ⟨g, List.mem_cons_of_mem _ hg, e⟩
      have hlen : ((a :: t).filter fun g => binOf w g != b).length ≤ k := by
        obtain ⟨g, hg, e⟩ := hmem
        have : ((a :: t).filter fun g => binOf w g != b).length < (a :: t).length := by
          apply List.length_filter_lt_length_iff_exists.mpr
          exact ⟨g, hg, by simp [e]⟩
        simp only [List.length_cons] at h this
        omega
      rw [List.pairwise_cons]
      refine ⟨?_, ih _ hlen⟩
      intro y hy f hf g hg
      have hg' := groupAux_mem w k _ hlen y hy g hg
      obtain ⟨hgl, hgb⟩ := List.mem_filter.mp hg'
      have hfb := (List.mem_filter.mp hf).2
      simp only [beq_iff_eq] at hfb
      simp only [bne_iff_ne, ne_eq] at hgb
      have := hmin g hgl
      omega

theorem groupByBin_ascending (w : Nat) (l : List FileRec) :
    (groupByBin w l).Pairwise (fun x y => ∀ f ∈ x, ∀ g ∈ y, binOf w f < binOf w g) :=
  groupAux_ascending w l.length l (le_refl _)

end FS
