import Model.Find
import Proofs.Lemmas.Time
