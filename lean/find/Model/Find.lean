import Model.Time
/-!
# Model of `FileSet.find` (typhon/files/fileset.py) — core Lean only

What is modelled (after the `fix:` commits a76bb98, bcc81f5, 785570e):

* `find`: defaults `datetime.min` / `datetime.max`, `end -= 1µs`, `ValueError` when
  `end < start`, the look-back `dir_start = start - _sub_dir_time_resolution`
  (none when there is no sub-directory part or `start == datetime.min`; CPython's
  `OverflowError` when the difference precedes `datetime.min`), the filter split into a
  white-list (substituted into the regexes) and a black-list (`re.match` = prefix match),
  `NoFilesError`, sorting and bundling (`_prepare_find_return`).
* `_get_search_dirs` / `_get_matching_dirs` / `_check_placeholders`: per directory level the
  placeholders parsed so far are compared with `start`/`end` truncated
  (`set_time_resolution`) to the finest resolution of the directory template *up to that
  level*; three outcomes: full `datetime` comparison, year-only fall-back when
  `datetime(**attr)` raises, `True` without a year.
* `_get_matching_files`: white-list match, closed-interval overlap with
  `(start, end-1µs)`, `is_excluded` (name set, or coverage overlapping an excluded period —
  `IntervalTree.__contains__` by its specification, theorem `C03_contains_iff`).
* `__contains__`, `__len__`, single-file filesets.

Name parsing is C02's business: a file record carries the values the regexes of the
template parse from its path — per directory level (`Level`) and for the whole path
(`users`, coverage `t0 t1`).  The directory walk of the code visits a directory iff every
prefix of its chain of levels passes the check, and yields the files of the surviving
directories in `glob` order; the model therefore keeps a file iff its own chain passes
(`dirsOk`) and preserves the order of the population, which the harness supplies in
traversal order.
-/
namespace FS
open TM

inductive Err where
  | valueError | noFiles | overflow | other
  deriving DecidableEq, Repr

/-- temporal placeholders a directory level may hold -/
inductive Field where
  | year | year2 | month | day | doy | hour
  deriving DecidableEq, Repr

/-- one element of `_sub_dir_chunks` -/
structure Chunk where
  /-- no special character: the level is joined, not globbed -/
  lit : Bool
  /-- temporal placeholders `re.findall(r"{(\w+)}", chunk)` finds -/
  fields : List Field
  deriving Repr

/-- `_get_time_resolution(path)[0]`: finest placeholder (`doy`→`day`, `year2`→`year`),
`year` when there is none -/
def resOfFields (fs : List Field) : Res :=
  if fs.contains .hour then .hour
  else if fs.contains .day || fs.contains .doy then .day
  else if fs.contains .month then .month
  else .year

/-- `_sub_dir_time_resolution` (path setter): `None` without a sub-directory part -/
def subDirRes (layout : List Chunk) : Option Nat :=
  if layout.isEmpty then none else some (resOfFields (layout.flatMap (·.fields))).micros

/-- temporal placeholder values parsed from directory names (`int(value)`) -/
structure TAttr where
  year : Option Nat := none
  year2 : Option Nat := none
  month : Option Nat := none
  day : Option Nat := none
  doy : Option Nat := none
  hour : Option Nat := none
  deriving Repr, DecidableEq

/-- `{**dir_attr, **new}`: the deeper level overrides -/
def TAttr.merge (a b : TAttr) : TAttr :=
  { year := b.year <|> a.year, year2 := b.year2 <|> a.year2, month := b.month <|> a.month,
    day := b.day <|> a.day, doy := b.doy <|> a.doy, hour := b.hour <|> a.hour }

/-- `_standardise_datetime_args`: `year2` with threshold 65 replaces `year` -/
def TAttr.stdYear (a : TAttr) : Option Nat :=
  match a.year2 with
  | some y2 => some (if y2 < 65 then 2000 + y2 else 1900 + y2)
  | none => a.year

/-- month and day after `_standardise_datetime_args`: a `doy` is converted with
`datetime(year,1,1) + timedelta(doy-1)` and overrides month/day (the year is NOT
adjusted when the date rolls over — as coded: `…/2018/367` is 2 January *2018*, `…/2018/000`
is 31 December *2018*).  The day number `dby y + doy - 1` is exact in `Nat` unless
`year ≤ 1 ∧ doy = 0`, where CPython raises `OverflowError` out of `find` (outside the
model: the driver refuses such a directory, see `levelsSupported`). -/
def TAttr.stdMonthDay (a : TAttr) : Option Nat × Option Nat :=
  match a.doy, a.stdYear with
  | some n, some y => (some (monthOfDay (dby y + n - 1)), some (domOfDay (dby y + n - 1)))
  | _, _ => (a.month, a.day)

/-- `_check_placeholders(attr, start, end)` with `start`, `end` already truncated -/
def checkPlaceholders (a : TAttr) (s e : Nat) : Bool :=
  match a.stdYear with
  | none => true
  | some y =>
    let fallback := decide (yearOf s ≤ y ∧ y ≤ yearOf e)
    match a.stdMonthDay with
    | (some m, some d) =>
      match mkDate y m d a.hour with
      | some t => decide (s ≤ t ∧ t ≤ e)
      | none => fallback          -- datetime(...) raised ValueError, caught by the bare except
    | _ => fallback               -- datetime(...) raised TypeError (month or day missing)

/-- what the regex of one chunk parses from one directory name -/
structure Level where
  t : TAttr := {}
  users : List (String × String) := []
  deriving Repr

structure FileRec where
  id : Nat
  dirs : List Level
  /-- user placeholder values of the whole path (`file_info.attr`) -/
  users : List (String × String)
  t0 : Nat
  t1 : Nat
  deriving Repr

/-- state of the FileSet object that `find` reads -/
structure Config where
  layout : List Chunk
  exclNames : List Nat := []
  exclTimes : List (Nat × Nat) := []
  deriving Repr

/-- `filters` split as `find` does; values are literal alternatives -/
structure Filters where
  white : List (String × List String) := []
  black : List (String × List String) := []
  deriving Repr

/-- all placeholders present are filled with an allowed alternative -/
def whiteOk (wl : List (String × List String)) (users : List (String × String)) : Bool :=
  users.all fun nv =>
    match wl.lookup nv.1 with
    | none => true
    | some allowed => allowed.contains nv.2

/-- `_check_file`: no black-listed alternative is a prefix (`re.match`) of the value -/
def blackOk (bl : List (String × List String)) (users : List (String × String)) : Bool :=
  bl.all fun nv =>
    match users.lookup nv.1 with
    | none => true
    | some v => !(nv.2.any fun alt => alt.isPrefixOf v)

/-- `is_excluded` -/
def isExcluded (cfg : Config) (f : FileRec) : Bool :=
  cfg.exclNames.contains f.id ||
  cfg.exclTimes.any fun p => decide (p.1 ≤ f.t1 ∧ f.t0 ≤ p.2)

/-- the walk of `_get_search_dirs` along the chain of one file:
`fs` = temporal placeholders of the template levels seen so far, `acc` = values parsed so far -/
def dirsOk (wl : List (String × List String)) (ds e : Nat) :
    List Field → TAttr → List Chunk → List Level → Bool
  | _, _, [], [] => true
  | fs, acc, c :: cs, v :: vs =>
    if c.lit then dirsOk wl ds e fs acc cs vs
    else
      let fs' := fs ++ c.fields
      let acc' := acc.merge v.t
      let r := resOfFields fs'
      whiteOk wl v.users && checkPlaceholders acc' (truncTo r ds) (truncTo r e)
        && dirsOk wl ds e fs' acc' cs vs
  | _, _, _, _ => false

/-- closed-interval overlap `IntervalTree.interval_overlaps(times, (start, end))` -/
def overlaps (f : FileRec) (s e : Nat) : Bool := decide (f.t0 ≤ e ∧ f.t1 ≥ s)

def keep (cfg : Config) (F : Filters) (s e ds : Nat) (f : FileRec) : Bool :=
  dirsOk F.white ds e [] {} cfg.layout f.dirs
    && whiteOk F.white f.users
    && overlaps f s e
    && !isExcluded cfg f
    && blackOk F.black f.users

structure Query where
  start : Option Nat := none
  stop : Option Nat := none
  filters : Filters := {}
  deriving Repr

/-- `start`, defaulting to `datetime.min` -/
def startOf (q : Query) : Nat := match q.start with | some s => s | none => 0
/-- `end`, defaulting to `datetime.max` -/
def stopOf (q : Query) : Nat := match q.stop with | some e => e | none => maxT

/-- the adjusted period `(start, end-1µs, dir_start)` or the error `find` raises -/
def period (cfg : Config) (q : Query) : Except Err (Nat × Nat × Nat) :=
  if stopOf q = 0 then .error .overflow           -- datetime.min - 1µs
  else if stopOf q - 1 < startOf q then .error .valueError
  else
    match subDirRes cfg.layout with
    | none => .ok (startOf q, stopOf q - 1, startOf q)
    | some r =>
      if startOf q = 0 then .ok (startOf q, stopOf q - 1, startOf q)
      else if startOf q < r then .error .overflow   -- start - resolution precedes datetime.min
      else .ok (startOf q, stopOf q - 1, startOf q - r)

/-- the generator `file_finder` of `find`, in traversal order -/
def findRaw (cfg : Config) (q : Query) (pop : List FileRec) : Except Err (List FileRec) :=
  match period cfg q with
  | .error err => .error err
  | .ok (s, e, ds) => .ok (pop.filter (keep cfg q.filters s e ds))

/-! ### `_prepare_find_return` -/

/-- sort key order `(t0, t1)` lexicographic -/
def keyLe (f g : FileRec) : Bool := decide (f.t0 < g.t0) || (decide (f.t0 = g.t0) && decide (f.t1 ≤ g.t1))

/-- Python's `sorted(..., key=...)` is a stable sort, as is `List.mergeSort` -/
def sortFiles (l : List FileRec) : List FileRec := l.mergeSort keyLe

inductive Bundle where
  | none
  | count (n : Nat)
  /-- fixed-frequency offset given in µs ('1h', '6h', '1D': divisors of one day, so the
  pandas bins are aligned with `t0 / w`) -/
  | freq (w : Nat)
  deriving Repr

inductive Out where
  | flat (l : List FileRec)
  | bundles (l : List (List FileRec))
  deriving Repr

/-- `files[i:i+n] for i in range(0, len(files), n)` -/
def chunksAux {α : Type} (n : Nat) : Nat → List α → List (List α)
  | 0, _ => []
  | fuel + 1, l => if l.isEmpty then [] else l.take n :: chunksAux n fuel (l.drop n)

def chunksOf {α : Type} (n : Nat) (l : List α) : List (List α) := chunksAux n l.length l

def binOf (w : Nat) (f : FileRec) : Nat := f.t0 / w

/-- non-empty groups of `groupby(pd.Grouper(freq=w))` in ascending bin order -/
def groupAux (w : Nat) : Nat → List FileRec → List (List FileRec)
  | 0, _ => []
  | _ + 1, [] => []
  | fuel + 1, f :: l =>
    let b := (l.map (binOf w)).foldl min (binOf w f)
    ((f :: l).filter fun g => binOf w g == b) ::
      groupAux w fuel ((f :: l).filter fun g => binOf w g != b)

def groupByBin (w : Nat) (l : List FileRec) : List (List FileRec) := groupAux w l.length l

def prepare (files : List FileRec) (sort : Bool) (b : Bundle) : Except Err Out :=
  match b with
  | .none => .ok (.flat (if sort then sortFiles files else files))
  | .count n =>
    if n = 0 then .error .valueError            -- range() arg 3 must not be zero
    else .ok (.bundles (chunksOf n (sortFiles files)))
  | .freq w =>
    if w = 0 ∨ !sort then .error .other         -- outside the model (driver refuses)
    else .ok (.bundles (groupByBin w (sortFiles files)))

/-- `FileSet.find(start, end, sort, bundle=…, filters, no_files_error)` for a fileset whose
path holds placeholders -/
def find (cfg : Config) (q : Query) (sort : Bool) (b : Bundle) (noFilesError : Bool)
    (pop : List FileRec) : Except Err Out :=
  match findRaw cfg q pop with
  | .error err => .error err
  | .ok raw => if noFilesError && raw.isEmpty then .error .noFiles else prepare raw sort b

/-- `t in fileset` -/
def containsT (cfg : Config) (pop : List FileRec) (t : Nat) : Except Err Bool :=
  if t ≥ maxT then .error .overflow             -- t + 1µs
  else match findRaw cfg { start := some t, stop := some (t + 1) } pop with
    | .error err => .error err
    | .ok raw => .ok (!raw.isEmpty)

/-- `(a, b) in fileset` -/
def containsP (cfg : Config) (pop : List FileRec) (a b : Nat) : Except Err Bool :=
  match findRaw cfg { start := some a, stop := some b } pop with
  | .error err => .error err
  | .ok raw => .ok (!raw.isEmpty)

/-- `len(fileset)` -/
def len (cfg : Config) (pop : List FileRec) : Except Err Nat :=
  match findRaw cfg {} pop with
  | .error err => .error err
  | .ok raw => .ok raw.length

/-- single-file fileset (path without special characters): `exists` = `isfile(path)`,
`cov` = `time_coverage` -/
def findSingle (isfile : Bool) (cov : Nat × Nat) (q : Query) (noFilesError : Bool) :
    Except Err (List (Nat × Nat)) :=
  let s := match q.start with | some s => s | none => 0
  let stop := match q.stop with | some e => e | none => maxT
  if stop = 0 then .error .overflow
  else if stop - 1 < s then .error .valueError
  else if !isfile then .error .valueError
  else if cov.1 ≤ stop - 1 ∧ cov.2 ≥ s then .ok [cov]
  else if noFilesError then .error .noFiles
  else .ok []

/-! ### placement predicates (used by the theorems, evaluated by the driver) -/

def optAll (o : Option Nat) (p : Nat → Bool) : Bool :=
  match o with | some x => p x | none => true

/-- the fields a level holds are those of the chunk -/
def levelConforms (c : Chunk) (v : Level) : Bool :=
  (v.t.year.isSome == c.fields.contains .year) && (v.t.year2.isSome == c.fields.contains .year2)
  && (v.t.month.isSome == c.fields.contains .month) && (v.t.day.isSome == c.fields.contains .day)
  && (v.t.doy.isSome == c.fields.contains .doy) && (v.t.hour.isSome == c.fields.contains .hour)

/-- every temporal value in the directory names is the corresponding field of `t` -/
def levelOfTime (t : Nat) (v : Level) : Bool :=
  optAll v.t.year (· == yearOf t)
  && optAll v.t.year2 (fun y2 => (if y2 < 65 then 2000 + y2 else 1900 + y2) == yearOf t)
  && optAll v.t.month (· == monthOf t) && optAll v.t.day (· == domOf t)
  && optAll v.t.doy (· == doyOf t) && optAll v.t.hour (· == hourOf t)

def conforms : List Chunk → List Level → Bool
  | [], [] => true
  | c :: cs, v :: vs => levelConforms c v && conforms cs vs
  | _, _ => false

/-- templates inside the quantifier: a level never holds temporal placeholders without a
year at or above it (otherwise `_to_datetime_args` raises out of `find`) -/
def layoutSupported : List Field → List Chunk → Bool
  | _, [] => true
  | fs, c :: cs =>
    let fs' := fs ++ c.fields
    (c.lit || fs'.isEmpty || fs'.contains .year || fs'.contains .year2)
      && (!c.lit || c.fields.isEmpty) && layoutSupported fs' cs

/-- "each file sits in the directory of its start time and lasts no longer than one
period of the finest directory level" -/
def wellPlaced (cfg : Config) (f : FileRec) : Bool :=
  conforms cfg.layout f.dirs && f.dirs.all (levelOfTime f.t0)
  && decide (f.t0 ≤ f.t1) && decide (f.t1 ≤ maxT)
  && (match subDirRes cfg.layout with
      | none => true
      | some r => (cfg.layout.flatMap (·.fields)).isEmpty || decide (f.t1 - f.t0 ≤ r))
  -- user placeholder values of the directory names are those of the whole path
  && f.dirs.all (fun v => v.users.all fun nv => f.users.lookup nv.1 == some nv.2)

end FS
