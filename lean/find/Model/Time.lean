/-!
# Time model for C01 / C16 (self-contained, core Lean only)

A point in time is a `Nat`: microseconds since 0001-01-01T00:00:00 (= `datetime.min`),
`datetime.max` is `maxT`.  A `timedelta` is a `Nat` of microseconds as well; the only
subtractions the modelled code performs (`end - 1µs`, `start - resolution`) are guarded
explicitly (`OverflowError` of CPython when the result would precede `datetime.min`).

The proleptic Gregorian calendar is defined from `dby` (days before year) and `dbm`
(days before month); the year of a day number is found by *bounded search*
(`findGreatest`), not by CPython's 400/100/4/1 cascade, so that its specification
`dby y ≤ n < dby (y+1)` holds by construction.  Agreement with CPython's `datetime` is
checked by the correspondence harness (driver op `cal`).

`truncTo r t` models `typhon.utils.timeutils.set_time_resolution(t, r)` for the
resolutions a directory level can have (`year`, `month`, `day`, `hour`).
-/
namespace TM

def usPerHour : Nat := 3600000000
def usPerDay : Nat := 86400000000

/-- greatest `k ≤ n` with `P k`, searching downwards from `n`; `0` when there is none -/
def findGreatest (P : Nat → Bool) : Nat → Nat
  | 0 => 0
  | n + 1 => if P (n + 1) then n + 1 else findGreatest P n

def isLeap (y : Nat) : Bool := y % 4 == 0 && (y % 100 != 0 || y % 400 == 0)

def yearLen (y : Nat) : Nat := if isLeap y then 366 else 365

/-- days before 1 January of year `y` (`y ≥ 1`), counted from 0001-01-01 -/
def dby (y : Nat) : Nat := 365 * (y - 1) + (y - 1) / 4 - (y - 1) / 100 + (y - 1) / 400

def monthLen (leap : Bool) (m : Nat) : Nat :=
  match m with
  | 1 => 31 | 2 => if leap then 29 else 28 | 3 => 31 | 4 => 30 | 5 => 31 | 6 => 30
  | 7 => 31 | 8 => 31 | 9 => 30 | 10 => 31 | 11 => 30 | 12 => 31 | _ => 0

/-- days before the first of month `m` (1..13; 13 = length of the year) -/
def dbm (leap : Bool) (m : Nat) : Nat :=
  let l := if leap then 1 else 0
  match m with
  | 1 => 0 | 2 => 31 | 3 => 59 + l | 4 => 90 + l | 5 => 120 + l | 6 => 151 + l
  | 7 => 181 + l | 8 => 212 + l | 9 => 243 + l | 10 => 273 + l | 11 => 304 + l
  | 12 => 334 + l | 13 => 365 + l | _ => 0

/-- `datetime.max` = 9999-12-31T23:59:59.999999 -/
def maxT : Nat := dby 10000 * usPerDay - 1

/-! ### calendar fields of a day number (0 = 0001-01-01) -/

def yearOfDay (d : Nat) : Nat := findGreatest (fun y => dby y ≤ d) (d / 365 + 1)

/-- 0-based day of the year -/
def doy0OfDay (d : Nat) : Nat := d - dby (yearOfDay d)

def monthOfDay (d : Nat) : Nat :=
  findGreatest (fun m => dbm (isLeap (yearOfDay d)) m ≤ doy0OfDay d) 12

/-- day of the month, 1-based -/
def domOfDay (d : Nat) : Nat :=
  doy0OfDay d - dbm (isLeap (yearOfDay d)) (monthOfDay d) + 1

/-! ### calendar fields of a time -/

def dayNum (t : Nat) : Nat := t / usPerDay
def yearOf (t : Nat) : Nat := yearOfDay (dayNum t)
def monthOf (t : Nat) : Nat := monthOfDay (dayNum t)
def domOf (t : Nat) : Nat := domOfDay (dayNum t)
/-- day of the year, 1-based (`{doy}`) -/
def doyOf (t : Nat) : Nat := doy0OfDay (dayNum t) + 1
def hourOf (t : Nat) : Nat := t % usPerDay / usPerHour
def minuteOf (t : Nat) : Nat := t % usPerHour / 60000000
def secondOf (t : Nat) : Nat := t % 60000000 / 1000000
def microOf (t : Nat) : Nat := t % 1000000

/-- directory-level resolutions (`_get_time_resolution(...)[0]` restricted to the
placeholders a directory level may hold; `doy` counts as `day`, `year2` as `year`) -/
inductive Res where
  | year | month | day | hour
  deriving DecidableEq, Repr

/-- `FileSet._temporal_resolution[r]` in µs: 366 d, 31 d, 1 d, 1 h -/
def Res.micros : Res → Nat
  | .year => 366 * usPerDay
  | .month => 31 * usPerDay
  | .day => usPerDay
  | .hour => usPerHour

/-- rank: larger = finer -/
def Res.rank : Res → Nat
  | .year => 0 | .month => 1 | .day => 2 | .hour => 3

/-- first day (number) of the month containing day `d` -/
def monthStartDay (d : Nat) : Nat :=
  dby (yearOfDay d) + dbm (isLeap (yearOfDay d)) (monthOfDay d)

/-- `set_time_resolution(t, r)` -/
def truncTo (r : Res) (t : Nat) : Nat :=
  match r with
  | .hour => t - t % usPerHour
  | .day => t - t % usPerDay
  | .month => monthStartDay (dayNum t) * usPerDay
  | .year => dby (yearOf t) * usPerDay

/-- `datetime(year=y, month=m, day=d[, hour=h])` as a time; `none` when CPython raises
`ValueError` (field out of range) -/
def mkDate (y m d : Nat) (h : Option Nat) : Option Nat :=
  let hh := match h with | some x => x | none => 0   -- datetime's default hour
  if 1 ≤ y ∧ y ≤ 9999 ∧ 1 ≤ m ∧ m ≤ 12 ∧ 1 ≤ d ∧ d ≤ monthLen (isLeap y) m ∧ hh < 24 then
    some ((dby y + dbm (isLeap y) m + (d - 1)) * usPerDay + hh * usPerHour)
  else none

/-- the 7-tuple `(year, month, day, hour, minute, second, microsecond)` as a time, `none`
when it is not a valid `datetime`; inverse of the field functions
(`ofFields_fields`, `fields_ofFields` in `Proofs/Lemmas/Time.lean`) -/
def ofFields (y mo d h mi s us : Nat) : Option Nat :=
  match mkDate y mo d (some h) with
  | some t => if mi < 60 ∧ s < 60 ∧ us < 1000000 then some (t + mi * 60000000 + s * 1000000 + us) else none
  | none => none

end TM
