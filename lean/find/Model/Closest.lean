import Model.Find
/-!
# Model of `FileSet.find_closest` / `fileset[t]` (typhon/files/fileset.py) — core Lean only

After the `fix:` commit 7bee3f5 (the short-cut honours filters and exclusion):

1. exact-name short-cut: when no filters are given and `get_filename(t)` names an existing
   file that is not excluded, that file is returned.  Which file of the population (if any)
   carries the name generated for `t` is name formatting, C02's business: it is the
   parameter `exact` (supplied by the harness from its own rendering of the template;
   `none` when the template needs placeholder values `t` cannot give —
   `UnfilledPlaceholderError` is swallowed by the code);
2. search window `t ± _sub_dir_time_resolution` (`datetime.min … datetime.max` without a
   sub-directory part), CPython's `OverflowError` when it leaves the datetime range;
3. `find(start, end, sort=False, filters=filters)` — C01's `findRaw`, `NoFilesError` when
   empty;
4. the first file (in traversal order) whose coverage contains `t`, else the first file
   minimising `min(|t0 - t|, |t1 - t|)` (`np.argmin`).
-/
namespace FS
open TM

def covers (t : Nat) (f : FileRec) : Bool := decide (f.t0 ≤ t ∧ t ≤ f.t1)

def absDiff (a b : Nat) : Nat := if a ≤ b then b - a else a - b

/-- `np.min(np.abs(times - t), axis=1)` for one file -/
def dist (t : Nat) (f : FileRec) : Nat := min (absDiff f.t0 t) (absDiff f.t1 t)

/-- `files[np.argmin(...)]`: the first file with minimal distance -/
def argminFirst (t : Nat) : List FileRec → Option FileRec
  | [] => none
  | f :: l =>
    match argminFirst t l with
    | none => some f
    | some g => if dist t f ≤ dist t g then some f else some g

/-- `filters=None` means no white- and no black-list -/
def filtersOf (filters : Option Filters) : Filters :=
  match filters with | some F => F | none => {}

/-- the search window as a `find` query, or the `OverflowError` -/
def window (cfg : Config) (t : Nat) (filters : Option Filters) : Except Err Query :=
  let F : Filters := filtersOf filters
  match subDirRes cfg.layout with
  | none => .ok { start := some 0, stop := some maxT, filters := F }
  | some r =>
    if t < r then .error .overflow
    else if t + r > maxT then .error .overflow
    else .ok { start := some (t - r), stop := some (t + r), filters := F }

/-- the file the short-cut returns, if it applies -/
def shortcut (cfg : Config) (filters : Option Filters) (exact : Option FileRec) : Option FileRec :=
  match filters, exact with
  | none, some f => if isExcluded cfg f then none else some f
  | _, _ => none

/-- `FileSet.find_closest(t, filters)` for a fileset whose path holds placeholders -/
def findClosest (cfg : Config) (pop : List FileRec) (t : Nat) (filters : Option Filters)
    (exact : Option FileRec) : Except Err FileRec :=
  match shortcut cfg filters exact with
  | some f => .ok f
  | none =>
    match window cfg t filters with
    | .error err => .error err
    | .ok q =>
      match findRaw cfg q pop with
      | .error err => .error err
      | .ok files =>
        if files.isEmpty then .error .noFiles
        else
          match files.find? (covers t) with
          | some f => .ok f
          | none =>
            match argminFirst t files with
            | some f => .ok f
            | none => .error .noFiles      -- unreachable: files is not empty

/-- single-file fileset (`file` = its path): the one file, whatever `t` and the filters are;
`ValueError` when it does not exist -/
def closestSingle {α : Type} (isfile : Bool) (file : α) (_t : Nat) (_filters : Option Filters) :
    Except Err α :=
  if isfile then .ok file else .error .valueError

end FS
