import Driver.Common
import Model.Closest
/-!
Line-protocol driver for C16 (`FileSet.find_closest`).  Shared ops: see `Driver/Common.lean`.

  closest T HASFILTERS WHITE BLACK EXACT
        T = µs; HASFILTERS = 0 (filters=None) | 1; WHITE/BLACK as for `find`;
        EXACT = id of the population file named `get_filename(T)` | `-`
        -> `ok id` | `err <class>`
  csingle ISFILE T        -> ok the-file | err valueError
-/
open FS TM

def step (s : St) (line : String) : St × String :=
  let ws := splitWords line
  match stepCommon s ws with
  | some r => r
  | none =>
  let pop := s.pop.reverse
  match ws with
  | ["closest", t, hf, w, bl, ex] =>
    match t.toNat?, parseFilter w, parseFilter bl, parseOptNat ex with
    | some t, some w, some bl, some ex =>
      let filters : Option Filters := if hf == "1" then some { white := w, black := bl } else none
      let exact := match ex with
        | some i => pop.find? (fun f => f.id == i)
        | none => none
      match findClosest s.cfg pop t filters exact with
      | .ok f => (s, s!"ok {f.id}")
      | .error e => (s, showErr e)
    | _, _, _, _ => (s, "bad-op")
  | ["csingle", isf, t] =>
    match t.toNat? with
    | some t =>
      match closestSingle (isf == "1") "the-file" t none with
      | .ok p => (s, s!"ok {p}")
      | .error e => (s, showErr e)
    | none => (s, "bad-op")
  | _ => (s, "bad-op")

def main : IO Unit := do
  let out ← IO.getStdout
  loopWith step (← IO.getStdin) out {}
  out.flush
