import Model.Find
/-!
Shared line-protocol parsing for the drivers of C01 and C16.

  layout C1 C2 …            chunk = `L` (literal) | `P:` | `P:year,month` …           -> ok sup=0|1
  xnames id id …            ids of the files in `exclude_files`                        -> ok
  xtimes lo hi lo hi …      excluded periods                                           -> ok
  clear                     forget the population                                      -> ok
  file id t0 t1 USERS LEVEL LEVEL …
        USERS = `-` | `name=value;name=value`
        LEVEL = `-` | `year=2018,month=1` | `year=2018;sat=A` | `;sat=A`               -> ok wp=0|1
-/
open FS TM

structure St where
  cfg : Config := { layout := [] }
  pop : List FileRec := []     -- reversed

def parseField : String → Option Field
  | "year" => some .year | "year2" => some .year2 | "month" => some .month
  | "day" => some .day | "doy" => some .doy | "hour" => some .hour | _ => none

def parseChunk (s : String) : Option Chunk :=
  if s == "L" then some { lit := true, fields := [] }
  else if s.startsWith "P:" then
    let rest := (s.drop 2).toString
    if rest.isEmpty then some { lit := false, fields := [] }
    else (rest.splitOn ",").mapM parseField |>.map fun fs => { lit := false, fields := fs }
  else none

def parseKV (s : String) : Option (String × String) :=
  match s.splitOn "=" with
  | [k, v] => some (k, v)
  | _ => none

def parseUsers (s : String) : Option (List (String × String)) :=
  if s == "-" || s.isEmpty then some [] else (s.splitOn ";").mapM parseKV

def setT (a : TAttr) (k : String) (v : Nat) : Option TAttr :=
  match k with
  | "year" => some { a with year := some v } | "year2" => some { a with year2 := some v }
  | "month" => some { a with month := some v } | "day" => some { a with day := some v }
  | "doy" => some { a with doy := some v } | "hour" => some { a with hour := some v }
  | _ => none

def parseTAttr (s : String) : Option TAttr :=
  if s.isEmpty then some {} else
  (s.splitOn ",").foldlM (fun a kv =>
    match parseKV kv with
    | some (k, v) => v.toNat? >>= setT a k
    | none => none) ({} : TAttr)

def parseLevel (s : String) : Option Level :=
  if s == "-" then some {} else
  match s.splitOn ";" with
  | [t] => parseTAttr t |>.map fun a => { t := a }
  | t :: us => do
    let a ← parseTAttr t
    let u ← us.mapM parseKV
    pure { t := a, users := u }
  | [] => none

def parseNats (ws : List String) : Option (List Nat) := ws.mapM String.toNat?

def natPairs : List Nat → Option (List (Nat × Nat))
  | [] => some []
  | a :: b :: rest => (natPairs rest).map ((a, b) :: ·)
  | _ => none

/-- `-` | `name=v1|v2;name=v` -/
def parseFilter (s : String) : Option (List (String × List String)) :=
  if s == "-" then some [] else
  (s.splitOn ";").mapM fun kv =>
    match kv.splitOn "=" with
    | [k, v] => some (k, v.splitOn "|")
    | _ => none

def parseOptNat (s : String) : Option (Option Nat) :=
  if s == "-" then some none else s.toNat?.map some

def parseBundle (s : String) : Option Bundle :=
  if s == "-" then some .none
  else if s.startsWith "c" then (s.drop 1).toString.toNat?.map .count
  else if s.startsWith "f" then (s.drop 1).toString.toNat?.map .freq
  else none

def showErr : Err → String
  | .valueError => "err valueError" | .noFiles => "err noFiles"
  | .overflow => "err overflow" | .other => "err other"

def showIds (l : List FileRec) : String := " ".intercalate (l.map fun f => toString f.id)

/-- values the model cannot interpret as the code would (see `Model/Find.lean`): with a
`doy` the code computes `datetime(year,1,1) + timedelta(doy-1)` outside its `try`, which
raises for `year = 0`, for `year = 1 ∧ doy = 0` and beyond year 9999 -/
def levelsSupported (f : FileRec) : Bool :=
  let acc := f.dirs.foldl (fun a v => a.merge v.t) ({} : TAttr)
  match acc.doy with
  | none => true
  | some n => (match acc.stdYear with
      | some y => 1 ≤ y && y ≤ 9998 && (n ≤ 367 || y ≤ 9990) && (1 ≤ n || 2 ≤ y)
      | none => false)

/-- ops shared by both drivers; `none` = not a shared op -/
def stepCommon (s : St) (ws : List String) : Option (St × String) :=
  match ws with
  | "layout" :: cs =>
    match cs.mapM parseChunk with
    | some l => some ({ s with cfg := { s.cfg with layout := l } },
        s!"ok sup={if layoutSupported [] l then 1 else 0}")
    | none => some (s, "bad-op")
  | "xnames" :: ids =>
    match parseNats ids with
    | some l => some ({ s with cfg := { s.cfg with exclNames := l } }, "ok")
    | none => some (s, "bad-op")
  | "xtimes" :: xs =>
    match parseNats xs >>= natPairs with
    | some l => some ({ s with cfg := { s.cfg with exclTimes := l } }, "ok")
    | none => some (s, "bad-op")
  | ["clear"] => some ({ s with pop := [] }, "ok")
  | "file" :: id :: t0 :: t1 :: users :: levels =>
    match id.toNat?, t0.toNat?, t1.toNat?, parseUsers users, levels.mapM parseLevel with
    | some id, some t0, some t1, some us, some lv =>
      let f : FileRec := { id := id, dirs := lv, users := us, t0 := t0, t1 := t1 }
      if !levelsSupported f || lv.length != s.cfg.layout.length then (some (s, "unsupported")) else
      some ({ s with pop := f :: s.pop }, s!"ok wp={if wellPlaced s.cfg f then 1 else 0}")
    | _, _, _, _, _ => some (s, "bad-op")
  | _ => none

def splitWords (line : String) : List String := (line.splitOn " ").filter (· ≠ "")

partial def loopWith (step : St → String → St × String) (h out : IO.FS.Stream) (s : St) : IO Unit := do
  let line ← h.getLine
  if line.isEmpty then return ()
  let (s', o) := step s (line.trimAscii.toString)
  out.putStrLn o
  loopWith step h out s'
