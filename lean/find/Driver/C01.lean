import Driver.Common
/-!
Line-protocol driver for C01 (`FileSet.find`).  Shared ops: see `Driver/Common.lean`.

  find START END SORT BUNDLE NFERR WHITE BLACK
        START/END = µs | `-`; SORT, NFERR = 0|1; BUNDLE = `-` | `c<n>` | `f<µs>`;
        WHITE/BLACK = `-` | `name=v1|v2;name=v`
        -> `ok id id …` | `ok id id / id / …` (bundles) | `err <class>`
  contains T | containsp A B  -> ok 0|1
  len                         -> ok N
  single ISFILE C0 C1 START END NFERR   -> ok N | err <class>
  cal T                       -> year month day doy hour minute second micro truncYear truncMonth truncDay truncHour
  mk Y M D H|-                -> T | none
-/
open FS TM

def showOut : Out → String
  | .flat l => "ok " ++ showIds l
  | .bundles bs => "ok " ++ " / ".intercalate (bs.map showIds)

def step (s : St) (line : String) : St × String :=
  let ws := splitWords line
  match stepCommon s ws with
  | some r => r
  | none =>
  let pop := s.pop.reverse
  match ws with
  | ["find", a, b, srt, bun, nf, w, bl] =>
    match parseOptNat a, parseOptNat b, parseBundle bun, parseFilter w, parseFilter bl with
    | some a, some b, some bun, some w, some bl =>
      let q : Query := { start := a, stop := b, filters := { white := w, black := bl } }
      match find s.cfg q (srt == "1") bun (nf == "1") pop with
      | .ok o => (s, showOut o)
      | .error e => (s, showErr e)
    | _, _, _, _, _ => (s, "bad-op")
  | ["contains", t] =>
    match t.toNat? with
    | some t => match containsT s.cfg pop t with
      | .ok b => (s, s!"ok {if b then 1 else 0}")
      | .error e => (s, showErr e)
    | none => (s, "bad-op")
  | ["containsp", a, b] =>
    match a.toNat?, b.toNat? with
    | some a, some b => match containsP s.cfg pop a b with
      | .ok r => (s, s!"ok {if r then 1 else 0}")
      | .error e => (s, showErr e)
    | _, _ => (s, "bad-op")
  | ["len"] =>
    match len s.cfg pop with
    | .ok n => (s, s!"ok {n}")
    | .error e => (s, showErr e)
  | ["single", isf, c0, c1, a, b, nf] =>
    match c0.toNat?, c1.toNat?, parseOptNat a, parseOptNat b with
    | some c0, some c1, some a, some b =>
      match findSingle (isf == "1") (c0, c1) { start := a, stop := b } (nf == "1") with
      | .ok l => (s, s!"ok {l.length}")
      | .error e => (s, showErr e)
    | _, _, _, _ => (s, "bad-op")
  | ["cal", t] =>
    match t.toNat? with
    | some t => (s, s!"{yearOf t} {monthOf t} {domOf t} {doyOf t} {hourOf t} {minuteOf t} {secondOf t} {microOf t} {truncTo .year t} {truncTo .month t} {truncTo .day t} {truncTo .hour t}")
    | none => (s, "bad-op")
  | ["mk", y, m, d, h] =>
    match y.toNat?, m.toNat?, d.toNat?, parseOptNat h with
    | some y, some m, some d, some h =>
      match mkDate y m d h with
      | some t => (s, toString t)
      | none => (s, "none")
    | _, _, _, _ => (s, "bad-op")
  | _ => (s, "bad-op")

def main : IO Unit := do
  let out ← IO.getStdout
  loopWith step (← IO.getStdin) out {}
  out.flush
