import Lean
/-!
`assert_axioms thm₁ thm₂ …` fails elaboration (hence `lake build`) when one of the
named constants depends on an axiom other than `propext`, `Classical.choice`,
`Quot.sound` — so `sorry` (`sorryAx`), `native_decide`/`bv_decide`
(`*._native.*`) and user axioms are build errors.  For every accepted constant it
logs a line `AUDIT <name> : <axioms>` which the harness parses.
-/
open Lean Elab Command

elab "assert_axioms " ids:ident+ : command => do
  for id in ids do
    let name ← liftCoreM <| realizeGlobalConstNoOverloadWithInfo id
    let axs ← liftCoreM <| Lean.collectAxioms name
    let allowed : List Name := [``propext, ``Classical.choice, ``Quot.sound]
    let bad := axs.toList.filter (fun a => !allowed.contains a)
    unless bad.isEmpty do
      throwError "AUDIT-FAIL {name} depends on disallowed axioms {bad}"
    logInfo m!"AUDIT {name} : {axs.toList}"
