import GenReal.Geodesy
import Proofs.Lemmas.Conv
import Mathlib.Tactic
import Mathlib.Analysis.SpecialFunctions.Trigonometric.Bounds
import Mathlib.Analysis.SpecialFunctions.Trigonometric.Arctan
import Mathlib.Analysis.Real.Pi.Bounds

/-!
# C07 — the latitude iteration of `cart2geodetic` is a contraction (`ctr_*`)

With `p = √(x²+y²)` the loop body maps the latitude `B` to
`G B = arctan (z / (p − e2 · c B))`, `c B = a cos B / √(1 − e2 sin² B)`.
No derivatives are used: `c` is Lipschitz by algebra (`sin`, `cos` are 1-Lipschitz), and
`arctan (z/u) − arctan (z/u') = arctan (z (u' − u) / (u u' + z²))` (`Real.arctan_add`).
Only `ctr_nf_body`, `ctr_nf_cond`, `ctr_nf_geodetic2cart`, `ctr_nf_general` unfold generated definitions.
-/

open TR

/-! ## pure algebra / analysis -/

/-- `|arctan t| ≤ |t|` -/
theorem ctr_abs_arctan_le (t : ℝ) : |Real.arctan t| ≤ |t| := by
  have key : ∀ s : ℝ, 0 ≤ s → Real.arctan s ≤ s := by
    intro s hs
    have h0 : 0 ≤ Real.arctan s := Real.arctan_nonneg.mpr hs
    have := Real.le_tan h0 (Real.arctan_lt_pi_div_two s)
    rwa [Real.tan_arctan] at this
  rcases le_total 0 t with h | h
  · rw [abs_of_nonneg (Real.arctan_nonneg.mpr h), abs_of_nonneg h]; exact key t h
  · have h' : 0 ≤ -t := by linarith
    have := key (-t) h'
    rw [Real.arctan_neg] at this
    have h0 : 0 ≤ -Real.arctan t := by rw [← Real.arctan_neg]; exact Real.arctan_nonneg.mpr h'
    rw [← abs_neg (Real.arctan t), abs_of_nonneg h0, abs_of_nonpos h]; exact this

/-- difference of two `arctan (z / ·)` with positive denominators -/
theorem ctr_arctan_div_sub (z u u' : ℝ) (hu : 0 < u) (hu' : 0 < u') :
    |Real.arctan (z / u) - Real.arctan (z / u')| ≤ |z| * |u - u'| / (u * u' + z ^ 2) := by
  have hD : 0 < u * u' + z ^ 2 := by positivity
  have hlt : z / u * (-(z / u')) < 1 := by
    have : z / u * (-(z / u')) = -(z ^ 2 / (u * u')) := by field_simp
    rw [this]
    have : 0 ≤ z ^ 2 / (u * u') := by positivity
    linarith
  have h := Real.arctan_add hlt
  rw [Real.arctan_neg, ← sub_eq_add_neg] at h
  rw [h]
  have e : (z / u + -(z / u')) / (1 - z / u * (-(z / u'))) = z * (u' - u) / (u * u' + z ^ 2) := by
    have e1 : z / u + -(z / u') = z * (u' - u) / (u * u') := by field_simp; ring
    have e2 : 1 - z / u * (-(z / u')) = (u * u' + z ^ 2) / (u * u') := by field_simp; ring
    rw [e1, e2, div_div_div_cancel_right₀ (mul_pos hu hu').ne']
  rw [e]
  refine (ctr_abs_arctan_le _).trans ?_
  rw [abs_div, abs_mul, abs_of_pos hD, abs_sub_comm u' u]

/-- algebra behind the Lipschitz bound of `W B = √(1 − e2 sin² B)` -/
theorem ctr_W_lip_alg (e2 w d S S' W W' : ℝ) (he0 : 0 ≤ e2) (hw : 0 < w)
    (hW : w ≤ W) (hW' : w ≤ W') (hW2 : W ^ 2 = 1 - e2 * S ^ 2) (hW'2 : W' ^ 2 = 1 - e2 * S' ^ 2)
    (hdS : |S - S'| ≤ d) (hS : |S| ≤ 1) (hS' : |S'| ≤ 1) :
    |W' - W| ≤ e2 * d / w := by
  have hd : 0 ≤ d := le_trans (abs_nonneg _) hdS
  have hsum : 0 < W + W' := by linarith
  have hWW : W' - W = e2 * ((S - S') * (S + S')) / (W + W') := by
    field_simp
    nlinarith [hW2, hW'2]
  have hSS : |S + S'| ≤ 2 := by
    have := abs_add_le S S'; linarith
  rw [hWW, abs_div, abs_mul, abs_mul, abs_of_nonneg he0, abs_of_pos hsum]
  rw [div_le_div_iff₀ hsum hw]
  have h1 : |S - S'| * |S + S'| ≤ d * 2 := mul_le_mul hdS hSS (abs_nonneg _) hd
  have h2 : e2 * (|S - S'| * |S + S'|) ≤ e2 * (d * 2) := mul_le_mul_of_nonneg_left h1 he0
  have h3 : e2 * (d * 2) * w ≤ e2 * d * (W + W') := by
    have : 2 * w ≤ W + W' := by linarith
    have hed : 0 ≤ e2 * d := mul_nonneg he0 hd
    nlinarith
  calc e2 * (|S - S'| * |S + S'|) * w ≤ e2 * (d * 2) * w := mul_le_mul_of_nonneg_right h2 hw.le
    _ ≤ e2 * d * (W + W') := h3

/-- … and of `N B = a / W B` -/
theorem ctr_N_lip_alg (a e2 w d S S' W W' : ℝ) (ha : 0 ≤ a) (he0 : 0 ≤ e2) (hw : 0 < w)
    (hW : w ≤ W) (hW' : w ≤ W') (hW2 : W ^ 2 = 1 - e2 * S ^ 2) (hW'2 : W' ^ 2 = 1 - e2 * S' ^ 2)
    (hdS : |S - S'| ≤ d) (hS : |S| ≤ 1) (hS' : |S'| ≤ 1) :
    |a / W - a / W'| ≤ a * (e2 / w ^ 3) * d := by
  have hWp : 0 < W := lt_of_lt_of_le hw hW
  have hW'p : 0 < W' := lt_of_lt_of_le hw hW'
  have hd : 0 ≤ d := le_trans (abs_nonneg _) hdS
  have hWW := ctr_W_lip_alg e2 w d S S' W W' he0 hw hW hW' hW2 hW'2 hdS hS hS'
  have e1 : a / W - a / W' = a * ((W' - W) / (W * W')) := by field_simp
  rw [e1, abs_mul, abs_of_nonneg ha, mul_assoc]
  apply mul_le_mul_of_nonneg_left _ ha
  rw [abs_div, abs_of_pos (mul_pos hWp hW'p), div_le_iff₀ (mul_pos hWp hW'p)]
  have h0 : 0 ≤ e2 * d / w := by positivity
  have hww : w * w ≤ W * W' := mul_le_mul hW hW' hw.le hWp.le
  have e2' : e2 / w ^ 3 * d * (W * W') = e2 * d / w * ((W * W') / (w * w)) := by field_simp
  rw [e2']
  have : 1 ≤ W * W' / (w * w) := by rw [le_div_iff₀ (mul_pos hw hw)]; linarith
  nlinarith

/-- … and of `c B = a cos B / W B` -/
theorem ctr_c_lip_alg (a e2 w d C C' S S' W W' : ℝ) (ha : 0 ≤ a) (he0 : 0 ≤ e2) (hw : 0 < w)
    (hW : w ≤ W) (hW' : w ≤ W') (hW2 : W ^ 2 = 1 - e2 * S ^ 2) (hW'2 : W' ^ 2 = 1 - e2 * S' ^ 2)
    (hC' : |C'| ≤ W') (hdC : |C - C'| ≤ d) (hdS : |S - S'| ≤ d) (hS : |S| ≤ 1) (hS' : |S'| ≤ 1) :
    |a / W * C - a / W' * C'| ≤ a * (1 / w + e2 / w ^ 2) * d := by
  have hWp : 0 < W := lt_of_lt_of_le hw hW
  have hW'p : 0 < W' := lt_of_lt_of_le hw hW'
  have hd : 0 ≤ d := le_trans (abs_nonneg _) hdC
  have hWW_abs := ctr_W_lip_alg e2 w d S S' W W' he0 hw hW hW' hW2 hW'2 hdS hS hS'
  have hsplit : a / W * C - a / W' * C' = a * ((C - C') / W + C' / W' * ((W' - W) / W)) := by
    field_simp
    ring
  rw [hsplit, abs_mul, abs_of_nonneg ha, mul_assoc]
  apply mul_le_mul_of_nonneg_left _ ha
  have t1 : |(C - C') / W| ≤ 1 / w * d := by
    rw [abs_div, abs_of_pos hWp, div_le_iff₀ hWp]
    have : d ≤ 1 / w * d * W := by
      have : 1 ≤ 1 / w * W := by rw [one_div, inv_mul_eq_div, le_div_iff₀ hw]; linarith
      nlinarith
    linarith
  have t2 : |C' / W' * ((W' - W) / W)| ≤ e2 / w ^ 2 * d := by
    rw [abs_mul, abs_div, abs_div, abs_of_pos hWp, abs_of_pos hW'p]
    have a1 : |C'| / W' ≤ 1 := (div_le_one hW'p).mpr hC'
    have a2 : |W' - W| / W ≤ e2 * d / w / w := by
      rw [div_le_div_iff₀ hWp hw]
      have h0 : 0 ≤ e2 * d / w := by positivity
      nlinarith [abs_nonneg (W' - W)]
    have a3 : e2 * d / w / w = e2 / w ^ 2 * d := by field_simp
    calc |C'| / W' * (|W' - W| / W) ≤ 1 * (e2 * d / w / w) :=
          mul_le_mul a1 a2 (by positivity) (by norm_num)
      _ = e2 / w ^ 2 * d := by rw [one_mul, a3]
  calc |(C - C') / W + C' / W' * ((W' - W) / W)| ≤ |(C - C') / W| + |C' / W' * ((W' - W) / W)| := abs_add_le _ _
    _ ≤ 1 / w * d + e2 / w ^ 2 * d := add_le_add t1 t2
    _ = (1 / w + e2 / w ^ 2) * d := by ring

/-! ## the functions `W`, `N`, `c` of the latitude -/

/-- `W B = √(1 − e2 sin² B)` lies in `[w, 1]` when `w² ≤ 1 − e2`, and dominates `|cos B|` -/
theorem ctr_W_facts (e2 w B : ℝ) (he0 : 0 ≤ e2) (hw2 : w ^ 2 ≤ 1 - e2) :
    w ≤ Real.sqrt (1 - e2 * Real.sin B ^ 2)
    ∧ Real.sqrt (1 - e2 * Real.sin B ^ 2) ≤ 1
    ∧ Real.sqrt (1 - e2 * Real.sin B ^ 2) ^ 2 = 1 - e2 * Real.sin B ^ 2
    ∧ |Real.cos B| ≤ Real.sqrt (1 - e2 * Real.sin B ^ 2) := by
  have hsc := Real.sin_sq_add_cos_sq B
  have hS1 : Real.sin B ^ 2 ≤ 1 := by nlinarith [sq_nonneg (Real.cos B)]
  have he1 : e2 ≤ 1 := by nlinarith [sq_nonneg w]
  have hrad : w ^ 2 ≤ 1 - e2 * Real.sin B ^ 2 := by nlinarith [sq_nonneg (Real.sin B)]
  have hrad0 : 0 ≤ 1 - e2 * Real.sin B ^ 2 := le_trans (sq_nonneg w) hrad
  refine ⟨Real.le_sqrt_of_sq_le hrad, ?_, Real.sq_sqrt hrad0, Real.abs_le_sqrt ?_⟩
  · rw [Real.sqrt_le_one]
    nlinarith [sq_nonneg (Real.sin B)]
  · nlinarith [sq_nonneg (Real.sin B)]

/-- `|c B| ≤ a` -/
theorem ctr_c_abs_le (a e2 w B : ℝ) (ha : 0 ≤ a) (he0 : 0 ≤ e2) (hw : 0 < w) (hw2 : w ^ 2 ≤ 1 - e2) :
    |a / Real.sqrt (1 - e2 * Real.sin B ^ 2) * Real.cos B| ≤ a := by
  obtain ⟨h1, _, _, h4⟩ := ctr_W_facts e2 w B he0 hw2
  have hWp : 0 < Real.sqrt (1 - e2 * Real.sin B ^ 2) := lt_of_lt_of_le hw h1
  rw [abs_mul, abs_div, abs_of_nonneg ha, abs_of_pos hWp, div_mul_eq_mul_div, div_le_iff₀ hWp]
  exact mul_le_mul_of_nonneg_left h4 ha

/-- `c` is Lipschitz with constant `a (1/w + e2/w²)` on all of ℝ -/
theorem ctr_c_lip (a e2 w B B' : ℝ) (ha : 0 ≤ a) (he0 : 0 ≤ e2) (hw : 0 < w) (hw2 : w ^ 2 ≤ 1 - e2) :
    |a / Real.sqrt (1 - e2 * Real.sin B ^ 2) * Real.cos B
        - a / Real.sqrt (1 - e2 * Real.sin B' ^ 2) * Real.cos B'|
      ≤ a * (1 / w + e2 / w ^ 2) * |B - B'| := by
  obtain ⟨h1, _, h3, _⟩ := ctr_W_facts e2 w B he0 hw2
  obtain ⟨h1', _, h3', h4'⟩ := ctr_W_facts e2 w B' he0 hw2
  exact ctr_c_lip_alg a e2 w |B - B'| _ _ _ _ _ _ ha he0 hw h1 h1' h3 h3' h4'
    (Real.abs_cos_sub_cos_le B B') (Real.abs_sin_sub_sin_le B B') (Real.abs_sin_le_one B) (Real.abs_sin_le_one B')

/-- `N = a / W` is Lipschitz with constant `a e2 / w³` -/
theorem ctr_N_lip (a e2 w B B' : ℝ) (ha : 0 ≤ a) (he0 : 0 ≤ e2) (hw : 0 < w) (hw2 : w ^ 2 ≤ 1 - e2) :
    |a / Real.sqrt (1 - e2 * Real.sin B ^ 2) - a / Real.sqrt (1 - e2 * Real.sin B' ^ 2)|
      ≤ a * (e2 / w ^ 3) * |B - B'| := by
  obtain ⟨h1, _, h3, _⟩ := ctr_W_facts e2 w B he0 hw2
  obtain ⟨h1', _, h3', _⟩ := ctr_W_facts e2 w B' he0 hw2
  exact ctr_N_lip_alg a e2 w |B - B'| _ _ _ _ ha he0 hw h1 h1' h3 h3'
    (Real.abs_sin_sub_sin_le B B') (Real.abs_sin_le_one B) (Real.abs_sin_le_one B')

/-! ## the iteration map `G` on latitudes -/

/-- the latitude update of the loop body, `p = √(x²+y²)` -/
noncomputable def ctr_G (p z a e2 : ℝ) (B : ℝ) : ℝ :=
  Real.arctan (z / (p - e2 * (a / Real.sqrt (1 - e2 * Real.sin B ^ 2) * Real.cos B)))

/-- the divisor `u = p − e2 c(B)` stays above `p − e2 a` -/
theorem ctr_u_ge (p a e2 w B : ℝ) (ha : 0 ≤ a) (he0 : 0 ≤ e2) (hw : 0 < w) (hw2 : w ^ 2 ≤ 1 - e2) :
    p - e2 * a ≤ p - e2 * (a / Real.sqrt (1 - e2 * Real.sin B ^ 2) * Real.cos B) := by
  have h := (abs_le.mp (ctr_c_abs_le a e2 w B ha he0 hw hw2)).2
  have := mul_le_mul_of_nonneg_left h he0
  linarith

/-- `G` contracts with constant `q` as soon as `e2·a·L·|z| ≤ q·((p − e2 a)² + z²)`, `L = 1/w + e2/w²` -/
theorem ctr_G_contract (p z a e2 w q B B' : ℝ) (ha : 0 ≤ a) (he0 : 0 ≤ e2) (hw : 0 < w) (hw2 : w ^ 2 ≤ 1 - e2)
    (hp : e2 * a < p) (hq0 : 0 ≤ q)
    (hq : e2 * (a * (1 / w + e2 / w ^ 2)) * |z| ≤ q * ((p - e2 * a) ^ 2 + z ^ 2)) :
    |ctr_G p z a e2 B - ctr_G p z a e2 B'| ≤ q * |B - B'| := by
  unfold ctr_G
  set c := a / Real.sqrt (1 - e2 * Real.sin B ^ 2) * Real.cos B with hc
  set c' := a / Real.sqrt (1 - e2 * Real.sin B' ^ 2) * Real.cos B' with hc'
  have hu0 : 0 < p - e2 * a := by linarith
  have hu : p - e2 * a ≤ p - e2 * c := ctr_u_ge p a e2 w B ha he0 hw hw2
  have hu' : p - e2 * a ≤ p - e2 * c' := ctr_u_ge p a e2 w B' ha he0 hw hw2
  have hup : 0 < p - e2 * c := lt_of_lt_of_le hu0 hu
  have hup' : 0 < p - e2 * c' := lt_of_lt_of_le hu0 hu'
  refine (ctr_arctan_div_sub z _ _ hup hup').trans ?_
  have hD : 0 < (p - e2 * c) * (p - e2 * c') + z ^ 2 := by positivity
  rw [div_le_iff₀ hD]
  have hlip := ctr_c_lip a e2 w B B' ha he0 hw hw2
  rw [← hc, ← hc'] at hlip
  have hdu : |p - e2 * c - (p - e2 * c')| ≤ e2 * (a * (1 / w + e2 / w ^ 2)) * |B - B'| := by
    have : p - e2 * c - (p - e2 * c') = -(e2 * (c - c')) := by ring
    rw [this, abs_neg, abs_mul, abs_of_nonneg he0, mul_assoc]
    exact mul_le_mul_of_nonneg_left hlip he0
  have hDD : (p - e2 * a) ^ 2 + z ^ 2 ≤ (p - e2 * c) * (p - e2 * c') + z ^ 2 := by
    have := mul_le_mul hu hu' hu0.le hup.le
    nlinarith
  have hd : 0 ≤ |B - B'| := abs_nonneg _
  calc |z| * |p - e2 * c - (p - e2 * c')|
      ≤ |z| * (e2 * (a * (1 / w + e2 / w ^ 2)) * |B - B'|) := mul_le_mul_of_nonneg_left hdu (abs_nonneg z)
    _ = (e2 * (a * (1 / w + e2 / w ^ 2)) * |z|) * |B - B'| := by ring
    _ ≤ (q * ((p - e2 * a) ^ 2 + z ^ 2)) * |B - B'| := mul_le_mul_of_nonneg_right hq hd
    _ ≤ (q * ((p - e2 * c) * (p - e2 * c') + z ^ 2)) * |B - B'| :=
        mul_le_mul_of_nonneg_right (mul_le_mul_of_nonneg_left hDD hq0) hd
    _ = q * |B - B'| * ((p - e2 * c) * (p - e2 * c') + z ^ 2) := by ring

/-- the premise of `ctr_G_contract` from a lower bound `R` of the geocentric distance `√(p²+z²)`:
it suffices that `K + 2 q δ ≤ q R`, `K = e2·a·L`, `δ = e2·a` -/
theorem ctr_q_of_radius (p z K δ q R : ℝ) (hδ : 0 ≤ δ) (hq0 : 0 ≤ q) (hK : 0 ≤ K)
    (hR : R ^ 2 ≤ p ^ 2 + z ^ 2) (hRK : K + 2 * q * δ ≤ q * R) :
    K * |z| ≤ q * ((p - δ) ^ 2 + z ^ 2) := by
  set ρ := Real.sqrt (p ^ 2 + z ^ 2) with hρ
  have hρ0 : 0 ≤ ρ := Real.sqrt_nonneg _
  have hρ2 : ρ ^ 2 = p ^ 2 + z ^ 2 := Real.sq_sqrt (by positivity)
  have hzρ : |z| ≤ ρ := Real.abs_le_sqrt (by nlinarith [sq_nonneg p])
  have hpρ : p ≤ ρ := (le_abs_self p).trans (Real.abs_le_sqrt (by nlinarith [sq_nonneg z]))
  have hRρ : R ≤ ρ := Real.le_sqrt_of_sq_le hR
  have h1 : K + 2 * q * δ ≤ q * ρ := hRK.trans (mul_le_mul_of_nonneg_left hRρ hq0)
  have h2 : K * |z| ≤ K * ρ := mul_le_mul_of_nonneg_left hzρ hK
  have h3 : (K + 2 * q * δ) * ρ ≤ q * ρ * ρ := mul_le_mul_of_nonneg_right h1 hρ0
  have h4 : q * δ * p ≤ q * δ * ρ := mul_le_mul_of_nonneg_left hpρ (mul_nonneg hq0 hδ)
  have h5 : 0 ≤ q * δ ^ 2 := by positivity
  nlinarith

/-! ## abstract contraction facts -/

/-- successive differences of the iterates of a `q`-contraction decay geometrically -/
theorem ctr_iter_step (G : ℝ → ℝ) (q : ℝ) (hG : ∀ B B', |G B - G B'| ≤ q * |B - B'|) (hq0 : 0 ≤ q)
    (B0 : ℝ) (k : ℕ) : |G^[k] B0 - G^[k + 1] B0| ≤ q ^ k * |B0 - G B0| := by
  induction k with
  | zero => simp
  | succ k ih =>
    rw [Function.iterate_succ_apply' G (k + 1), Function.iterate_succ_apply' G k, pow_succ, mul_assoc]
    refine (hG _ _).trans ?_
    rw [← Function.iterate_succ_apply' G k]
    rw [mul_comm (q ^ k), mul_assoc]
    exact mul_le_mul_of_nonneg_left (by rw [mul_comm]; exact ih) hq0

/-- … so they fall below any positive tolerance -/
theorem ctr_iter_small (G : ℝ → ℝ) (q : ℝ) (hG : ∀ B B', |G B - G B'| ≤ q * |B - B'|) (hq0 : 0 ≤ q)
    (hq1 : q < 1) (B0 tol : ℝ) (htol : 0 < tol) : ∃ k : ℕ, |G^[k] B0 - G^[k + 1] B0| ≤ tol := by
  have hM : 0 < |B0 - G B0| + 1 := by positivity
  obtain ⟨k, hk⟩ := exists_pow_lt_of_lt_one (div_pos htol hM) hq1
  refine ⟨k, (ctr_iter_step G q hG hq0 B0 k).trans ?_⟩
  rw [lt_div_iff₀ hM] at hk
  have : q ^ k * |B0 - G B0| ≤ q ^ k * (|B0 - G B0| + 1) :=
    mul_le_mul_of_nonneg_left (by linarith) (pow_nonneg hq0 k)
  linarith

/-- a-posteriori bound: a point that `G` moves by at most `tol` is within `tol / (1 − q)` of the fixed point -/
theorem ctr_aposteriori (G : ℝ → ℝ) (q : ℝ) (hG : ∀ B B', |G B - G B'| ≤ q * |B - B'|) (hq1 : q < 1)
    (φ B tol : ℝ) (hφ : G φ = φ) (hB : |B - G B| ≤ tol) : |B - φ| ≤ tol / (1 - q) := by
  have h1 : |B - φ| ≤ |B - G B| + |G B - G φ| := by
    have : B - φ = (B - G B) + (G B - G φ) := by rw [hφ]; ring
    rw [this]; exact abs_add_le _ _
  have h2 := hG B φ
  rw [le_div_iff₀ (by linarith)]
  nlinarith

/-! ## the loop body in terms of `G` -/

private theorem ctr_nf_body (x y z a e e2 N h Bp B : ℝ) :
    cart2geodetic_loop1_body x y z a e e2 (N, h, Bp, B)
      = (a / Real.sqrt (1 - e2 * Real.sin B ^ 2),
         Real.sqrt (x * x + y * y) / Real.cos B - a / Real.sqrt (1 - e2 * Real.sin B ^ 2),
         B,
         Real.arctan (z / Real.sqrt (x * x + y * y) *
           (1 / (1 - e2 * (a / Real.sqrt (1 - e2 * Real.sin B ^ 2)) /
              (a / Real.sqrt (1 - e2 * Real.sin B ^ 2) +
                (Real.sqrt (x * x + y * y) / Real.cos B - a / Real.sqrt (1 - e2 * Real.sin B ^ 2))))))) := by
  simp only [cart2geodetic_loop1_body, pow_one]
  <;> ring_nf

private theorem ctr_nf_cond (x y z a e e2 : ℝ) (s : ℝ × ℝ × ℝ × ℝ) :
    cart2geodetic_loop1_cond_any x y z a e e2 s ↔ |s.2.2.1 - s.2.2.2| > 1 / 1000000000000 := by
  simp only [cart2geodetic_loop1_cond_any]
  <;> ring_nf

/-- the argument of the `arctan` of the body, simplified (`N + h = ρ / cos B`); holds for every `c`, also `c = 0` -/
theorem ctr_arg_alg (ρ z n e2 c : ℝ) (hρ : ρ ≠ 0) :
    z / ρ * (1 / (1 - e2 * n / (n + (ρ / c - n)))) = z / (ρ - e2 * (n * c)) := by
  have hM : n + (ρ / c - n) = ρ / c := by ring
  rw [hM, div_div_eq_mul_div]
  have h1 : 1 - e2 * n * c / ρ = (ρ - e2 * (n * c)) / ρ := by field_simp
  rw [h1, one_div_div]
  by_cases hD : ρ - e2 * (n * c) = 0
  · rw [hD]; simp
  · field_simp

/-- the divisor `1 − e2 N/(N+h)` of the body equals `u / ρ` -/
theorem ctr_den_alg (ρ n e2 c : ℝ) (hρ : ρ ≠ 0) :
    1 - e2 * n / (n + (ρ / c - n)) = (ρ - e2 * (n * c)) / ρ := by
  have hM : n + (ρ / c - n) = ρ / c := by ring
  rw [hM, div_div_eq_mul_div]
  field_simp

/-- one pass of the body: `(·, ·, ·, B) ↦ (N B, ρ / cos B − N B, B, G B)` -/
theorem ctr_body_eq (x y z a e e2 N h Bp B : ℝ) (hρ : 0 < Real.sqrt (x * x + y * y)) :
    cart2geodetic_loop1_body x y z a e e2 (N, h, Bp, B)
      = (a / Real.sqrt (1 - e2 * Real.sin B ^ 2),
         Real.sqrt (x * x + y * y) / Real.cos B - a / Real.sqrt (1 - e2 * Real.sin B ^ 2),
         B,
         ctr_G (Real.sqrt (x * x + y * y)) z a e2 B) := by
  rw [ctr_nf_body, ctr_arg_alg _ _ _ _ _ hρ.ne']
  rfl

/-- `k + 1` passes from a start state with latitude `B0` -/
theorem ctr_iterate_eq (x y z a e e2 : ℝ) (hρ : 0 < Real.sqrt (x * x + y * y)) (N0 h0 Bp0 B0 : ℝ) (k : ℕ) :
    (cart2geodetic_loop1_body x y z a e e2)^[k + 1] (N0, h0, Bp0, B0)
      = (a / Real.sqrt (1 - e2 * Real.sin ((ctr_G (Real.sqrt (x * x + y * y)) z a e2)^[k] B0) ^ 2),
         Real.sqrt (x * x + y * y) / Real.cos ((ctr_G (Real.sqrt (x * x + y * y)) z a e2)^[k] B0)
           - a / Real.sqrt (1 - e2 * Real.sin ((ctr_G (Real.sqrt (x * x + y * y)) z a e2)^[k] B0) ^ 2),
         (ctr_G (Real.sqrt (x * x + y * y)) z a e2)^[k] B0,
         (ctr_G (Real.sqrt (x * x + y * y)) z a e2)^[k + 1] B0) := by
  induction k with
  | zero => simp only [zero_add, Function.iterate_one, Function.iterate_zero, id]; exact ctr_body_eq x y z a e e2 _ _ _ _ hρ
  | succ k ih =>
    rw [Function.iterate_succ_apply' _ (k + 1), ih, ctr_body_eq x y z a e e2 _ _ _ _ hρ,
      ← Function.iterate_succ_apply' (ctr_G (Real.sqrt (x * x + y * y)) z a e2) (k + 1)]

/-- the loop test on a state -/
theorem ctr_cond_iff (x y z a e e2 N h B B' : ℝ) :
    cart2geodetic_loop1_cond_any x y z a e e2 (N, h, B, B') ↔ |B - B'| > 1 / 1000000000000 :=
  ctr_nf_cond x y z a e e2 _

/-- the loop exits when `G` is a contraction -/
theorem ctr_loop_exits (x y z a e e2 q : ℝ) (hρ : 0 < Real.sqrt (x * x + y * y))
    (hG : ∀ B B', |ctr_G (Real.sqrt (x * x + y * y)) z a e2 B - ctr_G (Real.sqrt (x * x + y * y)) z a e2 B'|
      ≤ q * |B - B'|) (hq0 : 0 ≤ q) (hq1 : q < 1) (N0 h0 Bp0 B0 : ℝ) :
    ∃ n : ℕ, ¬ cart2geodetic_loop1_cond_any x y z a e e2
      ((cart2geodetic_loop1_body x y z a e e2)^[n] (N0, h0, Bp0, B0)) := by
  obtain ⟨k, hk⟩ := ctr_iter_small _ q hG hq0 hq1 B0 (1 / 1000000000000) (by norm_num)
  refine ⟨k + 1, ?_⟩
  rw [ctr_iterate_eq x y z a e e2 hρ, ctr_cond_iff]
  exact not_lt.mpr hk

/-- the exit state of the loop when `G` is a contraction: it is `(N B, ρ/cos B − N B, B, G B)` for an
iterate `B` (the latitude returned) which `G` moves by at most the tolerance -/
theorem ctr_exit_state (x y z a e e2 q : ℝ) (hρ : 0 < Real.sqrt (x * x + y * y))
    (hG : ∀ B B', |ctr_G (Real.sqrt (x * x + y * y)) z a e2 B - ctr_G (Real.sqrt (x * x + y * y)) z a e2 B'|
      ≤ q * |B - B'|) (hq0 : 0 ≤ q) (hq1 : q < 1) (B0 : ℝ) :
    ∃ B : ℝ, whileLoop (cart2geodetic_loop1_cond_any x y z a e e2) (cart2geodetic_loop1_body x y z a e e2)
        (0, 0, B0 + 1, B0)
      = (a / Real.sqrt (1 - e2 * Real.sin B ^ 2),
         Real.sqrt (x * x + y * y) / Real.cos B - a / Real.sqrt (1 - e2 * Real.sin B ^ 2),
         B, ctr_G (Real.sqrt (x * x + y * y)) z a e2 B)
      ∧ |B - ctr_G (Real.sqrt (x * x + y * y)) z a e2 B| ≤ 1 / 1000000000000 := by
  have hex := ctr_loop_exits x y z a e e2 q hρ hG hq0 hq1 0 0 (B0 + 1) B0
  obtain ⟨hstop, n, hsn, -⟩ := conv_loop_exit _ _ _ hex
  cases n with
  | zero =>
    exfalso
    rw [Function.iterate_zero, id] at hsn
    rw [hsn, ctr_cond_iff] at hstop
    apply hstop
    have : B0 + 1 - B0 = 1 := by ring
    rw [this]; norm_num
  | succ k =>
    rw [ctr_iterate_eq x y z a e e2 hρ] at hsn
    refine ⟨(ctr_G (Real.sqrt (x * x + y * y)) z a e2)^[k] B0, ?_, ?_⟩
    · rw [hsn, Function.iterate_succ_apply' _ k]
    · rw [hsn, ctr_cond_iff, Function.iterate_succ_apply' _ k] at hstop
      exact not_lt.mp hstop

/-! ## the input point `geodetic2cart h lat lon a e` of the domain -/

private theorem ctr_nf_geodetic2cart (h lat lon a e : ℝ) :
    geodetic2cart h lat lon a e
      = ((a / Real.sqrt (1 - e ^ 2 * Real.sin (lat * (Real.pi / 180)) ^ 2) + h)
            * Real.cos (lat * (Real.pi / 180)) * Real.cos (lon * (Real.pi / 180)),
         (a / Real.sqrt (1 - e ^ 2 * Real.sin (lat * (Real.pi / 180)) ^ 2) + h)
            * Real.cos (lat * (Real.pi / 180)) * Real.sin (lon * (Real.pi / 180)),
         (a / Real.sqrt (1 - e ^ 2 * Real.sin (lat * (Real.pi / 180)) ^ 2) * (1 - e ^ 2) + h)
            * Real.sin (lat * (Real.pi / 180))) := by
  simp only [geodetic2cart, sind, cosd, mul_one]
  <;> ring_nf

/-- `cos lat ≥ 1/45` for `|lat| ≤ 88°` (Jordan's inequality; the true value is 0.0349) -/
theorem ctr_cos_lb (lat : ℝ) (hlat : |lat| ≤ 88) : 1 / 45 ≤ Real.cos (lat * (Real.pi / 180)) := by
  have hp := Real.pi_pos
  rw [← Real.cos_abs, abs_mul, abs_of_pos (show 0 < Real.pi / 180 by positivity)]
  have ht0 : 0 ≤ |lat| * (Real.pi / 180) := by positivity
  have ht1 : |lat| * (Real.pi / 180) ≤ 88 * (Real.pi / 180) :=
    mul_le_mul_of_nonneg_right hlat (by positivity)
  generalize |lat| * (Real.pi / 180) = t at *
  rw [← Real.sin_pi_div_two_sub]
  have h := Real.mul_le_sin (x := Real.pi / 2 - t) (by nlinarith) (by linarith)
  refine le_trans ?_ h
  have e : 2 / Real.pi * (Real.pi / 2 - t) = 1 - 2 * t / Real.pi := by field_simp
  rw [e, le_sub_comm, div_le_iff₀ hp]
  nlinarith

/-- distance from the axis and `z` of the input point -/
theorem ctr_geodetic_polar (h lat lon a e : ℝ)
    (hM : 0 ≤ (a / Real.sqrt (1 - e ^ 2 * Real.sin (lat * (Real.pi / 180)) ^ 2) + h)
      * Real.cos (lat * (Real.pi / 180))) :
    let p := geodetic2cart h lat lon a e
    Real.sqrt (p.1 * p.1 + p.2.1 * p.2.1)
        = (a / Real.sqrt (1 - e ^ 2 * Real.sin (lat * (Real.pi / 180)) ^ 2) + h) * Real.cos (lat * (Real.pi / 180))
    ∧ p.2.2 = (a / Real.sqrt (1 - e ^ 2 * Real.sin (lat * (Real.pi / 180)) ^ 2) * (1 - e ^ 2) + h)
        * Real.sin (lat * (Real.pi / 180)) := by
  intro p
  have hp : p = _ := ctr_nf_geodetic2cart h lat lon a e
  have hl := Real.sin_sq_add_cos_sq (lon * (Real.pi / 180))
  rw [hp]
  refine ⟨?_, rfl⟩
  simp only []
  generalize (a / Real.sqrt (1 - e ^ 2 * Real.sin (lat * (Real.pi / 180)) ^ 2) + h)
    * Real.cos (lat * (Real.pi / 180)) = r at *
  have : r * Real.cos (lon * (Real.pi / 180)) * (r * Real.cos (lon * (Real.pi / 180)))
      + r * Real.sin (lon * (Real.pi / 180)) * (r * Real.sin (lon * (Real.pi / 180)))
      = r ^ 2 * (Real.sin (lon * (Real.pi / 180)) ^ 2 + Real.cos (lon * (Real.pi / 180)) ^ 2) := by ring
  rw [this, hl, mul_one, Real.sqrt_sq hM]

/-- the numerical heart: on the domain (e² ≤ 0.012, h ≥ −a/300, cos lat ≥ 1/45) the premises of
`ctr_G_contract` hold with `w = 99/100`, `q = 1/50` -/
theorem ctr_domain_alg (a e2 h n C S : ℝ) (ha : 0 < a) (he0 : 0 ≤ e2) (he2 : e2 ≤ 3 / 250)
    (hh : -(a / 300) ≤ h) (hn : a ≤ n) (hC : 1 / 45 ≤ C) (hsc : S ^ 2 + C ^ 2 = 1) :
    e2 * a < (n + h) * C
    ∧ e2 * (a * (1 / (99 / 100 : ℝ) + e2 / (99 / 100 : ℝ) ^ 2)) * |(n * (1 - e2) + h) * S|
        ≤ 1 / 50 * (((n + h) * C - e2 * a) ^ 2 + ((n * (1 - e2) + h) * S) ^ 2) := by
  have hMa : 299 / 300 * a ≤ n + h := by linarith
  have hMa0 : 0 < n + h := by nlinarith
  have hm : a * (1 - e2) + h ≤ n * (1 - e2) + h := by nlinarith
  have hR0 : 0 ≤ a * (1 - e2) + h := by nlinarith
  have hmM : n * (1 - e2) + h ≤ n + h := by nlinarith
  constructor
  · have h1 : 299 / 300 * a * (1 / 45) ≤ (n + h) * C :=
      mul_le_mul hMa hC (by norm_num) hMa0.le
    nlinarith
  · apply ctr_q_of_radius _ _ _ _ _ (a * (1 - e2) + h) (by positivity) (by norm_num) (by positivity)
    · -- R² ≤ p² + z²
      have hm0 : 0 ≤ n * (1 - e2) + h := le_trans hR0 hm
      have h1 : (a * (1 - e2) + h) ^ 2 ≤ (n * (1 - e2) + h) ^ 2 := pow_le_pow_left₀ hR0 hm 2
      have h2 : (n * (1 - e2) + h) ^ 2 ≤ (n + h) ^ 2 := pow_le_pow_left₀ hm0 hmM 2
      have h3 : ((n + h) * C) ^ 2 + ((n * (1 - e2) + h) * S) ^ 2
          = (n * (1 - e2) + h) ^ 2 + ((n + h) ^ 2 - (n * (1 - e2) + h) ^ 2) * C ^ 2 := by
        have : S ^ 2 = 1 - C ^ 2 := by linarith
        rw [mul_pow, mul_pow, this]; ring
      rw [h3]
      nlinarith [mul_nonneg (sub_nonneg.mpr h2) (sq_nonneg C)]
    · -- K + 2 q δ ≤ q R
      have key : e2 * (1 / (99 / 100 : ℝ) + e2 / (99 / 100 : ℝ) ^ 2) + 2 * (1 / 50) * e2
          ≤ 1 / 50 * ((1 - e2) - 1 / 300) := by
        norm_num
        nlinarith
      have := mul_le_mul_of_nonneg_left key ha.le
      nlinarith

/-- `e² ≤ 0.012`, `e ≥ 0` give `e < 1`; `h ≥ −a/300` is far above the `−a(1−e²)` of the `conv_*` lemmas -/
theorem ctr_domain_basic (a e h : ℝ) (ha : 0 < a) (he0 : 0 ≤ e) (he2 : e ^ 2 ≤ 3 / 250) (hh : -(a / 300) ≤ h) :
    e < 1 ∧ -(a * (1 - e ^ 2)) < h ∧ (99 / 100 : ℝ) ^ 2 ≤ 1 - e ^ 2 := by
  refine ⟨by nlinarith, by nlinarith, by norm_num; linarith⟩

theorem ctr_lat_lt (lat : ℝ) (hlat : |lat| ≤ 88) : |lat| < 90 := lt_of_le_of_lt hlat (by norm_num)

/-- the input point of the domain: `ρ = √(x²+y²) = (N+h) cos φ > e² a`, and `G` contracts with `q = 1/50` on ℝ -/
theorem ctr_geodetic_contract (h lat lon a e : ℝ) (ha : 0 < a) (he0 : 0 ≤ e) (he2 : e ^ 2 ≤ 3 / 250)
    (hlat : |lat| ≤ 88) (hh : -(a / 300) ≤ h) :
    let p := geodetic2cart h lat lon a e
    Real.sqrt (p.1 * p.1 + p.2.1 * p.2.1)
        = (a / Real.sqrt (1 - e ^ 2 * Real.sin (lat * (Real.pi / 180)) ^ 2) + h) * Real.cos (lat * (Real.pi / 180))
    ∧ e ^ 2 * a < Real.sqrt (p.1 * p.1 + p.2.1 * p.2.1)
    ∧ ∀ B B' : ℝ, |ctr_G (Real.sqrt (p.1 * p.1 + p.2.1 * p.2.1)) p.2.2 a (e ^ 2) B
          - ctr_G (Real.sqrt (p.1 * p.1 + p.2.1 * p.2.1)) p.2.2 a (e ^ 2) B'| ≤ 1 / 50 * |B - B'| := by
  intro p
  obtain ⟨he1, hh', hw2⟩ := ctr_domain_basic a e h ha he0 he2 hh
  have hC := ctr_cos_lb lat hlat
  have hsc := Real.sin_sq_add_cos_sq (lat * (Real.pi / 180))
  obtain ⟨-, hW1, -, -⟩ := ctr_W_facts (e ^ 2) (99 / 100) (lat * (Real.pi / 180)) (sq_nonneg e) hw2
  have hWp : 0 < Real.sqrt (1 - e ^ 2 * Real.sin (lat * (Real.pi / 180)) ^ 2) :=
    lt_of_lt_of_le (by norm_num) (ctr_W_facts (e ^ 2) (99 / 100) (lat * (Real.pi / 180)) (sq_nonneg e) hw2).1
  have hn : a ≤ a / Real.sqrt (1 - e ^ 2 * Real.sin (lat * (Real.pi / 180)) ^ 2) := by
    rw [le_div_iff₀ hWp]; nlinarith
  obtain ⟨hd1, hd2⟩ := ctr_domain_alg a (e ^ 2) h _ _ _ ha (sq_nonneg e) he2 hh hn hC hsc
  have hM : 0 ≤ (a / Real.sqrt (1 - e ^ 2 * Real.sin (lat * (Real.pi / 180)) ^ 2) + h)
      * Real.cos (lat * (Real.pi / 180)) := by
    have : 0 ≤ e ^ 2 * a := by positivity
    linarith
  obtain ⟨hρ, hz⟩ := ctr_geodetic_polar h lat lon a e hM
  refine ⟨hρ, by rw [hρ]; exact hd1, ?_⟩
  intro B B'
  apply ctr_G_contract _ _ a (e ^ 2) (99 / 100) (1 / 50) B B' ha.le (sq_nonneg e) (by norm_num) hw2
  · rw [hρ]; exact hd1
  · norm_num
  · rw [hρ, hz]; exact hd2

/-- the true latitude is a fixed point of `G`, and the height formula of the body returns `h` there -/
theorem ctr_geodetic_fixed (h lat lon a e : ℝ) (ha : 0 < a) (he0 : 0 < e) (he2 : e ^ 2 ≤ 3 / 250)
    (hlat : |lat| ≤ 88) (hh : -(a / 300) ≤ h) :
    let p := geodetic2cart h lat lon a e
    ctr_G (Real.sqrt (p.1 * p.1 + p.2.1 * p.2.1)) p.2.2 a (e ^ 2) (lat * (Real.pi / 180)) = lat * (Real.pi / 180)
    ∧ Real.sqrt (p.1 * p.1 + p.2.1 * p.2.1) / Real.cos (lat * (Real.pi / 180))
        - a / Real.sqrt (1 - e ^ 2 * Real.sin (lat * (Real.pi / 180)) ^ 2) = h := by
  intro p
  obtain ⟨he1, hh', -⟩ := ctr_domain_basic a e h ha he0.le he2 hh
  obtain ⟨-, hρ, -⟩ := ctr_geodetic_contract h lat lon a e ha he0.le he2 hlat hh
  have hρ0 : 0 < Real.sqrt (p.1 * p.1 + p.2.1 * p.2.1) :=
    lt_of_le_of_lt (by positivity) hρ
  have hfix := conv_geodetic_is_fixed_point h lat lon a e 0 0 0 ha he0 he1 (ctr_lat_lt lat hlat) hh'
  simp only [] at hfix
  rw [ctr_body_eq _ _ _ _ _ _ _ _ _ _ hρ0] at hfix
  exact ⟨hfix.2.2, hfix.1⟩

/-- height part of the error: `|M C / c − M| ≤ 46 M d` when `|C − c| ≤ d`, `C ≥ 1/45`, `d` small -/
theorem ctr_height_alg (M C c d : ℝ) (hM : 0 ≤ M) (hC : 1 / 45 ≤ C) (hd : |C - c| ≤ d) (hd1 : d ≤ 1 / 2070) :
    |M * C / c - M| ≤ 46 * M * d := by
  have hc : 1 / 46 ≤ c := by
    have := (abs_le.mp hd).2
    linarith
  have hc0 : 0 < c := lt_of_lt_of_le (by norm_num) hc
  have e : M * C / c - M = M * ((C - c) / c) := by field_simp
  rw [e, abs_mul, abs_of_nonneg hM, abs_div, abs_of_pos hc0, mul_assoc, mul_comm 46, mul_assoc]
  apply mul_le_mul_of_nonneg_left _ hM
  rw [div_le_iff₀ hc0]
  have hd0 : 0 ≤ d := le_trans (abs_nonneg _) hd
  nlinarith

/-- The loop of `cart2geodetic` on a point of the domain: it exits, and its exit state `s` carries a latitude
`s.2.2.1` within `(50/49)·1e-12` rad of the true one, a height `s.2.1` within `(a+h)·5e-11` of the true one,
and a non-zero divisor. -/
theorem ctr_geodetic_exit (h lat lon a e : ℝ) (ha : 0 < a) (he0 : 0 < e) (he2 : e ^ 2 ≤ 3 / 250)
    (hlat : |lat| ≤ 88) (hh : -(a / 300) ≤ h) :
    let p := geodetic2cart h lat lon a e
    let s := whileLoop (cart2geodetic_loop1_cond_any p.1 p.2.1 p.2.2 a e (e ^ 2))
      (cart2geodetic_loop1_body p.1 p.2.1 p.2.2 a e (e ^ 2))
      (0, 0, Complex.arg ⟨Real.sqrt (p.1 * p.1 + p.2.1 * p.2.1), p.2.2⟩ + 1,
        Complex.arg ⟨Real.sqrt (p.1 * p.1 + p.2.1 * p.2.1), p.2.2⟩)
    |s.2.2.1 - lat * (Real.pi / 180)| ≤ 50 / 49 * (1 / 1000000000000)
    ∧ |s.2.1 - h| ≤ (a + h) / 20000000000
    ∧ 1 - e ^ 2 * s.1 / (s.1 + s.2.1) ≠ 0 := by
  intro p s
  obtain ⟨he1, hh', hw2⟩ := ctr_domain_basic a e h ha he0.le he2 hh
  obtain ⟨hρeq, hρ, hG⟩ := ctr_geodetic_contract h lat lon a e ha he0.le he2 hlat hh
  obtain ⟨hfix, hhφ⟩ := ctr_geodetic_fixed h lat lon a e ha he0 he2 hlat hh
  have he20 : 0 ≤ e ^ 2 := sq_nonneg e
  have hρ0 : 0 < Real.sqrt (p.1 * p.1 + p.2.1 * p.2.1) := lt_of_le_of_lt (by positivity) hρ
  obtain ⟨B, hs, hB⟩ := ctr_exit_state p.1 p.2.1 p.2.2 a e (e ^ 2) (1 / 50) hρ0 hG (by norm_num) (by norm_num)
    (Complex.arg ⟨Real.sqrt (p.1 * p.1 + p.2.1 * p.2.1), p.2.2⟩)
  have hs' : s = _ := hs
  have hlaterr := ctr_aposteriori _ (1 / 50) hG (by norm_num) (lat * (Real.pi / 180)) B _ hfix hB
  have hq : (1 : ℝ) / 1000000000000 / (1 - 1 / 50) = 50 / 49 * (1 / 1000000000000) := by norm_num
  rw [hq] at hlaterr
  rw [hs']
  refine ⟨hlaterr, ?_, ?_⟩
  · -- height
    simp only []
    set φ := lat * (Real.pi / 180) with hφ
    set ρ := Real.sqrt (p.1 * p.1 + p.2.1 * p.2.1) with hρdef
    have hC := ctr_cos_lb lat hlat
    rw [← hφ] at hC
    obtain ⟨hWφ, -, -, -⟩ := ctr_W_facts (e ^ 2) (99 / 100) φ he20 hw2
    have hWφp : 0 < Real.sqrt (1 - e ^ 2 * Real.sin φ ^ 2) := lt_of_lt_of_le (by norm_num) hWφ
    have hnle : a / Real.sqrt (1 - e ^ 2 * Real.sin φ ^ 2) ≤ a / (99 / 100) :=
      div_le_div_of_nonneg_left ha.le (by norm_num) hWφ
    set n := a / Real.sqrt (1 - e ^ 2 * Real.sin φ ^ 2) with hn
    have hM0 : 0 ≤ n + h := by
      have h1 : 0 < (n + h) * Real.cos φ := by rw [← hρeq]; exact hρ0
      have hC0 : 0 < Real.cos φ := lt_of_lt_of_le (by norm_num) hC
      exact le_of_lt (pos_of_mul_pos_left h1 hC0.le)
    have hd1 : |Real.cos φ - Real.cos B| ≤ 50 / 49 * (1 / 1000000000000) := by
      refine (Real.abs_cos_sub_cos_le φ B).trans ?_
      rw [abs_sub_comm]; exact hlaterr
    have t1 := ctr_height_alg (n + h) (Real.cos φ) (Real.cos B) _ hM0 hC hd1 (by norm_num)
    have t2 := ctr_N_lip a (e ^ 2) (99 / 100) B φ ha.le he20 (by norm_num) hw2
    rw [← hn] at t2
    have hsplit : ρ / Real.cos B - a / Real.sqrt (1 - e ^ 2 * Real.sin B ^ 2) - h
        = ((n + h) * Real.cos φ / Real.cos B - (n + h))
          - (a / Real.sqrt (1 - e ^ 2 * Real.sin B ^ 2) - n) := by
      rw [hρeq]; ring
    rw [hsplit]
    refine (abs_sub _ _).trans ?_
    have t2' : |a / Real.sqrt (1 - e ^ 2 * Real.sin B ^ 2) - n|
        ≤ a * (e ^ 2 / (99 / 100) ^ 3) * (50 / 49 * (1 / 1000000000000)) :=
      t2.trans (mul_le_mul_of_nonneg_left hlaterr (by positivity))
    have t3 : a * (e ^ 2 / (99 / 100) ^ 3) ≤ a * (3 / 250 / (99 / 100) ^ 3) :=
      mul_le_mul_of_nonneg_left (div_le_div_of_nonneg_right he2 (by norm_num)) ha.le
    have t4 := mul_le_mul_of_nonneg_right t3 (show (0:ℝ) ≤ 50 / 49 * (1 / 1000000000000) by norm_num)
    norm_num at t1 t2' t4 hnle ⊢
    linarith
  · -- divisor
    simp only []
    rw [ctr_den_alg _ _ _ _ hρ0.ne']
    have hu := ctr_u_ge (Real.sqrt (p.1 * p.1 + p.2.1 * p.2.1)) a (e ^ 2) (99 / 100) B ha.le he20 (by norm_num) hw2
    exact (div_pos (by linarith) hρ0).ne'

/-- contraction, stated on the loop body itself -/
theorem ctr_body_contract (h lat lon a e N1 h1 Bp1 B1 N2 h2 Bp2 B2 : ℝ) (ha : 0 < a) (he0 : 0 ≤ e)
    (he2 : e ^ 2 ≤ 3 / 250) (hlat : |lat| ≤ 88) (hh : -(a / 300) ≤ h) :
    let p := geodetic2cart h lat lon a e
    |(cart2geodetic_loop1_body p.1 p.2.1 p.2.2 a e (e ^ 2) (N1, h1, Bp1, B1)).2.2.2
      - (cart2geodetic_loop1_body p.1 p.2.1 p.2.2 a e (e ^ 2) (N2, h2, Bp2, B2)).2.2.2|
      ≤ 1 / 50 * |B1 - B2| := by
  intro p
  obtain ⟨-, hρ, hG⟩ := ctr_geodetic_contract h lat lon a e ha he0 he2 hlat hh
  have hρ0 : 0 < Real.sqrt (p.1 * p.1 + p.2.1 * p.2.1) := lt_of_le_of_lt (by positivity) hρ
  rw [ctr_body_eq _ _ _ _ _ _ _ _ _ _ hρ0, ctr_body_eq _ _ _ _ _ _ _ _ _ _ hρ0]
  exact hG B1 B2

/-- the input point is off the axis -/
theorem ctr_geodetic_xy (h lat lon a e : ℝ) (ha : 0 < a) (he0 : 0 ≤ e) (he2 : e ^ 2 ≤ 3 / 250)
    (hlat : |lat| ≤ 88) (hh : -(a / 300) ≤ h) :
    let p := geodetic2cart h lat lon a e
    p.1 ≠ 0 ∨ p.2.1 ≠ 0 := by
  intro p
  obtain ⟨-, hρ, -⟩ := ctr_geodetic_contract h lat lon a e ha he0 he2 hlat hh
  have hρ0 : 0 < Real.sqrt (p.1 * p.1 + p.2.1 * p.2.1) := lt_of_le_of_lt (by positivity) hρ
  by_contra hcon
  rw [not_or, not_not, not_not] at hcon
  rw [hcon.1, hcon.2] at hρ0
  simp at hρ0

/-- the loop of `cart2geodetic` exits on the domain: exactly the hypothesis `hex` of
`conv_cart2geodetic_exit_inverse` / `C07_cart2geodetic_at_exit_partial` -/
theorem ctr_geodetic_loop_exits (h lat lon a e : ℝ) (ha : 0 < a) (he0 : 0 ≤ e) (he2 : e ^ 2 ≤ 3 / 250)
    (hlat : |lat| ≤ 88) (hh : -(a / 300) ≤ h) :
    let p := geodetic2cart h lat lon a e
    ∃ n : ℕ, ¬ cart2geodetic_loop1_cond_any p.1 p.2.1 p.2.2 a e (e ^ 2)
      ((cart2geodetic_loop1_body p.1 p.2.1 p.2.2 a e (e ^ 2))^[n]
        (0, 0, Complex.arg ⟨Real.sqrt (p.1 * p.1 + p.2.1 * p.2.1), p.2.2⟩ + 1,
          Complex.arg ⟨Real.sqrt (p.1 * p.1 + p.2.1 * p.2.1), p.2.2⟩)) := by
  intro p
  obtain ⟨-, hρ, hG⟩ := ctr_geodetic_contract h lat lon a e ha he0 he2 hlat hh
  have hρ0 : 0 < Real.sqrt (p.1 * p.1 + p.2.1 * p.2.1) := lt_of_le_of_lt (by positivity) hρ
  exact ctr_loop_exits p.1 p.2.1 p.2.2 a e (e ^ 2) (1 / 50) hρ0 hG (by norm_num) (by norm_num) _ _ _ _

/-- radians → degrees of the latitude error: `(50/49)·1e-12 rad ≤ 6e-11°` -/
theorem ctr_deg_err (B lat : ℝ) (hB : |B - lat * (Real.pi / 180)| ≤ 50 / 49 * (1 / 1000000000000)) :
    |B * (180 / Real.pi) - lat| ≤ 6 / 100000000000 := by
  have hp := Real.pi_pos
  have hp3 := Real.pi_gt_d2
  have e : B * (180 / Real.pi) - lat = (B - lat * (Real.pi / 180)) * (180 / Real.pi) := by
    field_simp
  rw [e, abs_mul, abs_of_pos (show 0 < 180 / Real.pi by positivity)]
  have h1 : (180 : ℝ) / Real.pi ≤ 180 / 3.14 := div_le_div_of_nonneg_left (by norm_num) (by norm_num) hp3.le
  calc |B - lat * (Real.pi / 180)| * (180 / Real.pi)
      ≤ 50 / 49 * (1 / 1000000000000) * (180 / 3.14) := mul_le_mul hB h1 (by positivity) (by norm_num)
    _ ≤ 6 / 100000000000 := by norm_num

/-- `cart2geodetic ∘ geodetic2cart` on the domain: height within `(a+h)·5e-11`, latitude within `6e-11°` -/
theorem ctr_geodetic_roundtrip (h lat lon a e : ℝ) (ha : 0 < a) (he0 : 0 < e) (he2 : e ^ 2 ≤ 3 / 250)
    (hlat : |lat| ≤ 88) (hh : -(a / 300) ≤ h) :
    let p := geodetic2cart h lat lon a e
    let g := cart2geodetic p.1 p.2.1 p.2.2 a e
    |g.1 - h| ≤ (a + h) / 20000000000 ∧ |g.2.1 - lat| ≤ 6 / 100000000000 := by
  intro p g
  have hxy := ctr_geodetic_xy h lat lon a e ha he0.le he2 hlat hh
  have hex := ctr_geodetic_loop_exits h lat lon a e ha he0.le he2 hlat hh
  obtain ⟨hB, hH, hden⟩ := ctr_geodetic_exit h lat lon a e ha he0 he2 hlat hh
  have hg := (conv_cart2geodetic_exit_inverse p.1 p.2.1 p.2.2 a e he0.ne' hxy hex hden).1
  have hg' : g = _ := hg
  rw [hg']
  exact ⟨hH, ctr_deg_err _ _ hB⟩

/-! ## how many passes -/

/-- the loop test fails after `k + 1` passes as soon as `q^k · D ≤ 1e-12`, `D` a bound of the first step -/
theorem ctr_loop_exits_at (x y z a e e2 q : ℝ) (hρ : 0 < Real.sqrt (x * x + y * y))
    (hG : ∀ B B', |ctr_G (Real.sqrt (x * x + y * y)) z a e2 B - ctr_G (Real.sqrt (x * x + y * y)) z a e2 B'|
      ≤ q * |B - B'|) (hq0 : 0 ≤ q) (N0 h0 Bp0 B0 D : ℝ) (k : ℕ)
    (hD : |B0 - ctr_G (Real.sqrt (x * x + y * y)) z a e2 B0| ≤ D) (hk : q ^ k * D ≤ 1 / 1000000000000) :
    ¬ cart2geodetic_loop1_cond_any x y z a e e2
      ((cart2geodetic_loop1_body x y z a e e2)^[k + 1] (N0, h0, Bp0, B0)) := by
  rw [ctr_iterate_eq x y z a e e2 hρ, ctr_cond_iff]
  apply not_lt.mpr
  refine (ctr_iter_step _ q hG hq0 B0 k).trans (le_trans ?_ hk)
  exact mul_le_mul_of_nonneg_left hD (pow_nonneg hq0 k)

/-- the first step is shorter than π: start latitude and every `G B` lie in (−π/2, π/2) -/
theorem ctr_first_step_le (ρ z a e2 : ℝ) (hρ : 0 < ρ) :
    |Complex.arg ⟨ρ, z⟩ - ctr_G ρ z a e2 (Complex.arg ⟨ρ, z⟩)| ≤ Real.pi := by
  have h1 : |Complex.arg ⟨ρ, z⟩| < Real.pi / 2 := Complex.abs_arg_lt_pi_div_two_iff.mpr (Or.inl hρ)
  obtain ⟨h1a, h1b⟩ := abs_lt.mp h1
  have h2a := Real.neg_pi_div_two_lt_arctan
    (z / (ρ - e2 * (a / Real.sqrt (1 - e2 * Real.sin (Complex.arg ⟨ρ, z⟩) ^ 2) * Real.cos (Complex.arg ⟨ρ, z⟩))))
  have h2b := Real.arctan_lt_pi_div_two
    (z / (ρ - e2 * (a / Real.sqrt (1 - e2 * Real.sin (Complex.arg ⟨ρ, z⟩) ^ 2) * Real.cos (Complex.arg ⟨ρ, z⟩))))
  unfold ctr_G
  rw [abs_le]
  constructor <;> linarith

/-- on the domain the loop of `cart2geodetic` exits after at most 9 passes: (1/50)⁸·π ≤ 1e-12 -/
theorem ctr_geodetic_loop_exits_within (h lat lon a e : ℝ) (ha : 0 < a) (he0 : 0 ≤ e) (he2 : e ^ 2 ≤ 3 / 250)
    (hlat : |lat| ≤ 88) (hh : -(a / 300) ≤ h) :
    let p := geodetic2cart h lat lon a e
    ∃ n : ℕ, n ≤ 9 ∧ ¬ cart2geodetic_loop1_cond_any p.1 p.2.1 p.2.2 a e (e ^ 2)
      ((cart2geodetic_loop1_body p.1 p.2.1 p.2.2 a e (e ^ 2))^[n]
        (0, 0, Complex.arg ⟨Real.sqrt (p.1 * p.1 + p.2.1 * p.2.1), p.2.2⟩ + 1,
          Complex.arg ⟨Real.sqrt (p.1 * p.1 + p.2.1 * p.2.1), p.2.2⟩)) := by
  intro p
  obtain ⟨-, hρ, hG⟩ := ctr_geodetic_contract h lat lon a e ha he0 he2 hlat hh
  have hρ0 : 0 < Real.sqrt (p.1 * p.1 + p.2.1 * p.2.1) := lt_of_le_of_lt (by positivity) hρ
  refine ⟨8 + 1, le_refl _, ?_⟩
  apply ctr_loop_exits_at p.1 p.2.1 p.2.2 a e (e ^ 2) (1 / 50) hρ0 hG (by norm_num) _ _ _ _ Real.pi 8
    (ctr_first_step_le _ _ _ _ hρ0)
  have := Real.pi_lt_d2
  have h8 : ((1 : ℝ) / 50) ^ 8 * 3.15 ≤ 1 / 1000000000000 := by norm_num
  have : ((1 : ℝ) / 50) ^ 8 * Real.pi ≤ (1 / 50) ^ 8 * 3.15 :=
    mul_le_mul_of_nonneg_left (by linarith) (by positivity)
  linarith

/-! ## the reverse composition `geodetic2cart ∘ cart2geodetic` -/

/-- more about the exit state on the domain: `a ≤ N ≤ a/0.99`, and the NEXT latitude `s.2.2.2` (whose cosine
divides the z-residual of `conv_cart2geodetic_exit_inverse`) has `cos ≥ 1/46` -/
theorem ctr_geodetic_exit_more (h lat lon a e : ℝ) (ha : 0 < a) (he0 : 0 < e) (he2 : e ^ 2 ≤ 3 / 250)
    (hlat : |lat| ≤ 88) (hh : -(a / 300) ≤ h) :
    let p := geodetic2cart h lat lon a e
    let s := whileLoop (cart2geodetic_loop1_cond_any p.1 p.2.1 p.2.2 a e (e ^ 2))
      (cart2geodetic_loop1_body p.1 p.2.1 p.2.2 a e (e ^ 2))
      (0, 0, Complex.arg ⟨Real.sqrt (p.1 * p.1 + p.2.1 * p.2.1), p.2.2⟩ + 1,
        Complex.arg ⟨Real.sqrt (p.1 * p.1 + p.2.1 * p.2.1), p.2.2⟩)
    a ≤ s.1 ∧ s.1 ≤ a / (99 / 100) ∧ 1 / 46 ≤ Real.cos s.2.2.2
    ∧ |s.2.2.1 - s.2.2.2| ≤ 1 / 1000000000000 := by
  intro p s
  obtain ⟨he1, hh', hw2⟩ := ctr_domain_basic a e h ha he0.le he2 hh
  obtain ⟨hρeq, hρ, hG⟩ := ctr_geodetic_contract h lat lon a e ha he0.le he2 hlat hh
  obtain ⟨hfix, -⟩ := ctr_geodetic_fixed h lat lon a e ha he0 he2 hlat hh
  have he20 : 0 ≤ e ^ 2 := sq_nonneg e
  have hρ0 : 0 < Real.sqrt (p.1 * p.1 + p.2.1 * p.2.1) := lt_of_le_of_lt (by positivity) hρ
  obtain ⟨B, hs, hB⟩ := ctr_exit_state p.1 p.2.1 p.2.2 a e (e ^ 2) (1 / 50) hρ0 hG (by norm_num) (by norm_num)
    (Complex.arg ⟨Real.sqrt (p.1 * p.1 + p.2.1 * p.2.1), p.2.2⟩)
  have hs' : s = _ := hs
  have hlaterr := ctr_aposteriori _ (1 / 50) hG (by norm_num) (lat * (Real.pi / 180)) B _ hfix hB
  have hq : (1 : ℝ) / 1000000000000 / (1 - 1 / 50) = 50 / 49 * (1 / 1000000000000) := by norm_num
  rw [hq] at hlaterr
  obtain ⟨hW, hW1, -, -⟩ := ctr_W_facts (e ^ 2) (99 / 100) B he20 hw2
  have hWp : 0 < Real.sqrt (1 - e ^ 2 * Real.sin B ^ 2) := lt_of_lt_of_le (by norm_num) hW
  rw [hs']
  refine ⟨?_, div_le_div_of_nonneg_left ha.le (by norm_num) hW, ?_, hB⟩
  · simp only []
    rw [le_div_iff₀ hWp]; nlinarith
  · simp only []
    have hC := ctr_cos_lb lat hlat
    have h1 := hG B (lat * (Real.pi / 180))
    rw [hfix] at h1
    have h2 := Real.abs_cos_sub_cos_le (lat * (Real.pi / 180))
      (ctr_G (Real.sqrt (p.1 * p.1 + p.2.1 * p.2.1)) p.2.2 a (e ^ 2) B)
    rw [abs_sub_comm (lat * (Real.pi / 180))] at h2
    have h3 := (abs_le.mp (h2.trans h1)).2
    norm_num at hlaterr h3 hC ⊢
    linarith

/-- `geodetic2cart ∘ cart2geodetic` on a point that is the image of a domain point: x and y are reproduced exactly,
z up to `(a + h)·5e-11` -/
theorem ctr_cart_roundtrip (h lat lon a e : ℝ) (ha : 0 < a) (he0 : 0 < e) (he2 : e ^ 2 ≤ 3 / 250)
    (hlat : |lat| ≤ 88) (hh : -(a / 300) ≤ h) :
    let q := geodetic2cart h lat lon a e
    let g := cart2geodetic q.1 q.2.1 q.2.2 a e
    let p := geodetic2cart g.1 g.2.1 g.2.2 a e
    p.1 = q.1 ∧ p.2.1 = q.2.1 ∧ |p.2.2 - q.2.2| ≤ (a + h) / 20000000000 := by
  intro q g p
  have hxy := ctr_geodetic_xy h lat lon a e ha he0.le he2 hlat hh
  have hex := ctr_geodetic_loop_exits h lat lon a e ha he0.le he2 hlat hh
  obtain ⟨-, hH, hden⟩ := ctr_geodetic_exit h lat lon a e ha he0 he2 hlat hh
  obtain ⟨hN1, hN2, hcos, htol⟩ := ctr_geodetic_exit_more h lat lon a e ha he0 he2 hlat hh
  obtain ⟨-, hx, hy, hz, -⟩ := conv_cart2geodetic_exit_inverse q.1 q.2.1 q.2.2 a e he0.ne' hxy hex hden
  refine ⟨hx, hy, ?_⟩
  rw [abs_sub_comm]
  generalize whileLoop _ _ _ = s at hH hN1 hN2 hcos htol hz
  have hz' : |q.2.2 - p.2.2| * Real.cos s.2.2.2 ≤ |s.1 * (1 - e ^ 2) + s.2.1| * |s.2.2.1 - s.2.2.2| := hz
  have hs0 : 0 < s.1 := lt_of_lt_of_le ha hN1
  have he20 : 0 ≤ e ^ 2 := sq_nonneg e
  obtain ⟨hH1, hH2⟩ := abs_le.mp hH
  have hv1 : s.1 * (1 - e ^ 2) ≤ s.1 := by nlinarith [mul_nonneg hs0.le he20]
  have hv2 : a * (247 / 250) ≤ s.1 * (1 - e ^ 2) := by
    have : s.1 * (247 / 250) ≤ s.1 * (1 - e ^ 2) := mul_le_mul_of_nonneg_left (by linarith) hs0.le
    nlinarith
  have hN2' : s.1 ≤ a * (100 / 99) := by rw [show a * (100 / 99 : ℝ) = a / (99 / 100) by ring]; exact hN2
  have hA : |s.1 * (1 - e ^ 2) + s.2.1| ≤ 103 / 100 * (a + h) := by
    rw [abs_le]; constructor <;> linarith
  have hD0 : 0 ≤ |q.2.2 - p.2.2| := abs_nonneg _
  have h1 : |q.2.2 - p.2.2| * (1 / 46) ≤ |q.2.2 - p.2.2| * Real.cos s.2.2.2 :=
    mul_le_mul_of_nonneg_left hcos hD0
  have h2 : |s.1 * (1 - e ^ 2) + s.2.1| * |s.2.2.1 - s.2.2.2| ≤ 103 / 100 * (a + h) * (1 / 1000000000000) :=
    mul_le_mul hA htol (abs_nonneg _) (by linarith)
  linarith
