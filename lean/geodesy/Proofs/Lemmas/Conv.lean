import GenReal.Geodesy
import Mathlib.Tactic
import Mathlib.Analysis.SpecialFunctions.Trigonometric.Complex
import Mathlib.Analysis.SpecialFunctions.Complex.Arg
import Mathlib.Analysis.SpecialFunctions.Trigonometric.Bounds

/-!
# C07 — coordinate conversions (`conv_*`)

Theorems about the regenerated real-number reading of `typhon/geodesy.py` (`TR.*`).  Only the normal
forms `nf_*` below unfold generated definitions; everything else uses the normal forms.

`conv_geodetic_fixed_point` differs from the skeleton: `ha he0 he1 hpos` are dropped (not needed) and
`hden` (the iteration's denominator `1 − e²N/(N+h)` is nonzero) is added; without it the statement is
false, see `conv_aux_fixed_point_needs_hden`.
-/

open TR

/-! normal forms -/
private theorem nf_geocentric2cart (r lat lon : ℝ) :
    geocentric2cart r lat lon
      = (r * Real.cos (lat * (Real.pi / 180)) * Real.cos (lon * (Real.pi / 180)),
         r * Real.cos (lat * (Real.pi / 180)) * Real.sin (lon * (Real.pi / 180)),
         r * Real.sin (lat * (Real.pi / 180))) := by
  simp only [geocentric2cart]
  <;> ring_nf

private theorem nf_cart2geocentric (x y z : ℝ) :
    cart2geocentric x y z
      = (Real.sqrt (x ^ 2 + y ^ 2 + z ^ 2),
         Real.arcsin (z / Real.sqrt (x ^ 2 + y ^ 2 + z ^ 2)) * (180 / Real.pi),
         Complex.arg ⟨x, y⟩ * (180 / Real.pi)) := by
  simp only [cart2geocentric]
  <;> ring_nf

private theorem nf_rejects (x y z : ℝ) :
    cart2geocentric_rejects x y z ↔ Real.sqrt (x ^ 2 + y ^ 2 + z ^ 2) = 0 := by
  simp only [cart2geocentric_rejects]
  <;> ring_nf

private theorem nf_geodetic2cart (h lat lon a e : ℝ) :
    geodetic2cart h lat lon a e
      = ((a / Real.sqrt (1 - e ^ 2 * Real.sin (lat * (Real.pi / 180)) ^ 2) + h)
            * Real.cos (lat * (Real.pi / 180)) * Real.cos (lon * (Real.pi / 180)),
         (a / Real.sqrt (1 - e ^ 2 * Real.sin (lat * (Real.pi / 180)) ^ 2) + h)
            * Real.cos (lat * (Real.pi / 180)) * Real.sin (lon * (Real.pi / 180)),
         (a / Real.sqrt (1 - e ^ 2 * Real.sin (lat * (Real.pi / 180)) ^ 2) * (1 - e ^ 2) + h)
            * Real.sin (lat * (Real.pi / 180))) := by
  simp only [geodetic2cart, sind, cosd, mul_one]
  <;> ring_nf

private theorem nf_body (x y z a e e2 N h Bp B : ℝ) :
    cart2geodetic_loop1_body x y z a e e2 (N, h, Bp, B)
      = (a / Real.sqrt (1 - e2 * Real.sin B ^ 2),
         Real.sqrt (x * x + y * y) / Real.cos B - a / Real.sqrt (1 - e2 * Real.sin B ^ 2),
         B,
         Real.arctan (z / Real.sqrt (x * x + y * y) *
           (1 / (1 - e2 * (a / Real.sqrt (1 - e2 * Real.sin B ^ 2)) /
              (a / Real.sqrt (1 - e2 * Real.sin B ^ 2) +
                (Real.sqrt (x * x + y * y) / Real.cos B - a / Real.sqrt (1 - e2 * Real.sin B ^ 2))))))) := by
  simp only [cart2geodetic_loop1_body, pow_one]
  <;> ring_nf

private theorem nf_r_geodetic (a e lat : ℝ) :
    ellipsoid_r_geodetic a e lat
      = if e = 0 then a else
          a * Real.sqrt ((1 - e ^ 2) ^ 2 * Real.sin (lat * (Real.pi / 180)) ^ 2
                + Real.cos (lat * (Real.pi / 180)) ^ 2)
            / Real.sqrt (1 - e ^ 2 * Real.sin (lat * (Real.pi / 180)) ^ 2) := by
  simp only [ellipsoid_r_geodetic, sind, cosd, one_mul]
  <;> ring_nf

private theorem nf_r_geocentric (a e lat : ℝ) :
    ellipsoid_r_geocentric a e lat
      = if e = 0 then a else
          a * Real.sqrt (1 - e ^ 2)
            / Real.sqrt ((1 - e ^ 2) * Real.cos (lat * (Real.pi / 180)) ^ 2
                + Real.sin (lat * (Real.pi / 180)) ^ 2) := by
  simp only [ellipsoid_r_geocentric, sind, cosd, one_mul]
  <;> ring_nf

theorem conv_table :
    (0 < ellipsoidmodels_SphericalEarth.1 ∧ 0 ≤ ellipsoidmodels_SphericalEarth.2 ∧ ellipsoidmodels_SphericalEarth.2 < 1) ∧
    (0 < ellipsoidmodels_WGS84.1 ∧ 0 ≤ ellipsoidmodels_WGS84.2 ∧ ellipsoidmodels_WGS84.2 < 1) ∧
    (0 < ellipsoidmodels_SphericalVenus.1 ∧ 0 ≤ ellipsoidmodels_SphericalVenus.2 ∧ ellipsoidmodels_SphericalVenus.2 < 1) ∧
    (0 < ellipsoidmodels_SphericalMars.1 ∧ 0 ≤ ellipsoidmodels_SphericalMars.2 ∧ ellipsoidmodels_SphericalMars.2 < 1) ∧
    (0 < ellipsoidmodels_EllipsoidMars.1 ∧ 0 ≤ ellipsoidmodels_EllipsoidMars.2 ∧ ellipsoidmodels_EllipsoidMars.2 < 1) ∧
    (0 < ellipsoidmodels_SphericalJupiter.1 ∧ 0 ≤ ellipsoidmodels_SphericalJupiter.2 ∧ ellipsoidmodels_SphericalJupiter.2 < 1) := by
  simp only [ellipsoidmodels_SphericalEarth, ellipsoidmodels_WGS84, ellipsoidmodels_SphericalVenus,
    ellipsoidmodels_SphericalMars, ellipsoidmodels_EllipsoidMars, ellipsoidmodels_SphericalJupiter,
    C.earth_radius]
  norm_num

theorem conv_composed_routes (h lat lon r a e : ℝ) :
    geodetic2geocentric h lat lon a e
        = cart2geocentric (geodetic2cart h lat lon a e).1 (geodetic2cart h lat lon a e).2.1 (geodetic2cart h lat lon a e).2.2
    ∧ geocentric2geodetic r lat lon a e
        = cart2geodetic (geocentric2cart r lat lon).1 (geocentric2cart r lat lon).2.1 (geocentric2cart r lat lon).2.2 a e := by
  constructor
  · simp only [geodetic2geocentric]
  · simp only [geocentric2geodetic]

theorem conv_spherical_shortcut (x y z a : ℝ) :
    cart2geodetic x y z a 0 = ((cart2geocentric x y z).1 - a, (cart2geocentric x y z).2.1, (cart2geocentric x y z).2.2) := by
  have h0 : ((0:ℝ) ^ 2 = 0) := by norm_num
  simp only [cart2geodetic, h0, if_true]

theorem conv_loop_exit {σ : Type} (c : σ → Prop) (f : σ → σ) (s : σ) (hex : ∃ n : ℕ, ¬ c (f^[n] s)) :
    ¬ c (whileLoop c f s) ∧ ∃ n : ℕ, whileLoop c f s = f^[n] s ∧ ∀ m < n, c (f^[m] s) := by
  unfold whileLoop
  rw [dif_pos hex]
  classical
  exact ⟨Nat.find_spec hex, _, rfl, fun m hm => not_not.mp (Nat.find_min hex hm)⟩

theorem conv_aux_arg_polar (ρ θ : ℝ) (hρ : 0 < ρ) :
    Complex.arg ⟨ρ * Real.cos θ, ρ * Real.sin θ⟩ - θ
      = 2 * Real.pi * ⌊(Real.pi - θ) / (2 * Real.pi)⌋ := by
  have e : (⟨ρ * Real.cos θ, ρ * Real.sin θ⟩ : ℂ)
      = (ρ : ℂ) * (Complex.cos θ + Complex.sin θ * Complex.I) := by
    apply Complex.ext
    · simp [← Complex.ofReal_cos, ← Complex.ofReal_sin]
    · simp [← Complex.ofReal_cos, ← Complex.ofReal_sin]
  rw [e]
  exact Complex.arg_mul_cos_add_sin_mul_I_sub hρ θ

theorem conv_aux_sphere (r φ l : ℝ) :
    (r * Real.cos φ * Real.cos l) ^ 2 + (r * Real.cos φ * Real.sin l) ^ 2 + (r * Real.sin φ) ^ 2
      = r ^ 2 := by
  have h1 := Real.sin_sq_add_cos_sq φ
  have h2 := Real.sin_sq_add_cos_sq l
  have : (r * Real.cos φ * Real.cos l) ^ 2 + (r * Real.cos φ * Real.sin l) ^ 2 + (r * Real.sin φ) ^ 2
      = r ^ 2 * (Real.cos φ ^ 2 * (Real.sin l ^ 2 + Real.cos l ^ 2) + Real.sin φ ^ 2) := by ring
  rw [this, h2, mul_one, add_comm, h1, mul_one]

theorem conv_aux_deg (t : ℝ) : t * (Real.pi / 180) * (180 / Real.pi) = t := by
  have := Real.pi_ne_zero
  field_simp

theorem conv_aux_latrange (lat : ℝ) (hlat : |lat| < 90) :
    -(Real.pi / 2) < lat * (Real.pi / 180) ∧ lat * (Real.pi / 180) < Real.pi / 2 := by
  have hp := Real.pi_pos
  obtain ⟨h1, h2⟩ := abs_lt.mp hlat
  constructor <;> nlinarith

/-- radius, latitude, and the longitude up to the explicit multiple of 360 -/
theorem conv_aux_geocentric (r lat lon : ℝ) (hr : 0 < r) (hlat : |lat| < 90) :
    let p := geocentric2cart r lat lon
    cart2geocentric p.1 p.2.1 p.2.2
      = (r, lat, lon + 360 * ⌊(Real.pi - lon * (Real.pi / 180)) / (2 * Real.pi)⌋) := by
  intro p
  obtain ⟨hl1, hl2⟩ := conv_aux_latrange lat hlat
  have hc : 0 < Real.cos (lat * (Real.pi / 180)) := Real.cos_pos_of_mem_Ioo ⟨hl1, hl2⟩
  have hp := Real.pi_ne_zero
  simp only [p, nf_geocentric2cart, nf_cart2geocentric, conv_aux_sphere, Real.sqrt_sq hr.le]
  refine Prod.ext rfl (Prod.ext ?_ ?_)
  · simp only []
    rw [mul_div_cancel_left₀ _ hr.ne', Real.arcsin_sin hl1.le hl2.le, conv_aux_deg]
  · simp only []
    have h := conv_aux_arg_polar (r * Real.cos (lat * (Real.pi / 180))) (lon * (Real.pi / 180))
      (mul_pos hr hc)
    rw [sub_eq_iff_eq_add] at h
    rw [h, add_mul, add_comm, conv_aux_deg]
    congr 1
    generalize ((⌊(Real.pi - lon * (Real.pi / 180)) / (2 * Real.pi)⌋ : ℤ) : ℝ) = k
    field_simp
    ring

theorem conv_geocentric_roundtrip (r lat lon : ℝ) (hr : 0 < r) (hlat : |lat| < 90)
    (hlon : -180 < lon ∧ lon ≤ 180) :
    let p := geocentric2cart r lat lon
    cart2geocentric p.1 p.2.1 p.2.2 = (r, lat, lon) := by
  intro p
  have h := conv_aux_geocentric r lat lon hr hlat
  simp only [] at h
  simp only [p]
  rw [h]
  have hp := Real.pi_pos
  have hf : ⌊(Real.pi - lon * (Real.pi / 180)) / (2 * Real.pi)⌋ = 0 := by
    rw [Int.floor_eq_zero_iff]
    constructor
    · apply div_nonneg _ (by positivity)
      nlinarith [hlon.2]
    · rw [div_lt_one (by positivity)]
      nlinarith [hlon.1]
  rw [hf]; simp

theorem conv_geocentric_roundtrip_mod (r lat lon : ℝ) (hr : 0 < r) (hlat : |lat| < 90) :
    let p := geocentric2cart r lat lon
    let q := cart2geocentric p.1 p.2.1 p.2.2
    q.1 = r ∧ q.2.1 = lat ∧ -180 < q.2.2 ∧ q.2.2 ≤ 180 ∧ ∃ k : ℤ, q.2.2 = lon + 360 * k := by
  intro p q
  have h := conv_aux_geocentric r lat lon hr hlat
  simp only [] at h
  have hp := Real.pi_pos
  have hq : q.2.2 = Complex.arg ⟨p.1, p.2.1⟩ * (180 / Real.pi) := by
    simp only [q, nf_cart2geocentric]
  refine ⟨?_, ?_, ?_, ?_, ?_⟩
  · simp only [q, p, h]
  · simp only [q, p, h]
  · rw [hq]
    have := Complex.neg_pi_lt_arg ⟨p.1, p.2.1⟩
    have e : -Real.pi * (180 / Real.pi) = -180 := by field_simp
    have := mul_lt_mul_of_pos_right this (show 0 < 180 / Real.pi by positivity)
    linarith
  · rw [hq]
    have := Complex.arg_le_pi ⟨p.1, p.2.1⟩
    have e : Real.pi * (180 / Real.pi) = 180 := by field_simp
    have := mul_le_mul_of_nonneg_right this (show 0 ≤ 180 / Real.pi by positivity)
    linarith
  · exact ⟨⌊(Real.pi - lon * (Real.pi / 180)) / (2 * Real.pi)⌋, by simp only [q, p, h]⟩

theorem conv_aux_deg' (t : ℝ) : t * (180 / Real.pi) * (Real.pi / 180) = t := by
  have := Real.pi_ne_zero
  field_simp

theorem conv_aux_polar_x (x y : ℝ) :
    Real.sqrt (x ^ 2 + y ^ 2) * Real.cos (Complex.arg ⟨x, y⟩) = x := by
  have h := Complex.norm_mul_cos_arg ⟨x, y⟩
  rwa [Complex.norm_eq_sqrt_sq_add_sq] at h

theorem conv_aux_polar_y (x y : ℝ) :
    Real.sqrt (x ^ 2 + y ^ 2) * Real.sin (Complex.arg ⟨x, y⟩) = y := by
  have h := Complex.norm_mul_sin_arg ⟨x, y⟩
  rwa [Complex.norm_eq_sqrt_sq_add_sq] at h

/-- with `r = √(x²+y²+z²) > 0`: `r · cos (arcsin (z / r)) = √(x²+y²)` and `r · sin (arcsin (z / r)) = z` -/
theorem conv_aux_lat (x y z : ℝ) (h0 : Real.sqrt (x ^ 2 + y ^ 2 + z ^ 2) ≠ 0) :
    Real.sqrt (x ^ 2 + y ^ 2 + z ^ 2) * Real.cos (Real.arcsin (z / Real.sqrt (x ^ 2 + y ^ 2 + z ^ 2)))
        = Real.sqrt (x ^ 2 + y ^ 2)
    ∧ Real.sqrt (x ^ 2 + y ^ 2 + z ^ 2) * Real.sin (Real.arcsin (z / Real.sqrt (x ^ 2 + y ^ 2 + z ^ 2)))
        = z := by
  set r := Real.sqrt (x ^ 2 + y ^ 2 + z ^ 2) with hrdef
  have hr : 0 < r := lt_of_le_of_ne (Real.sqrt_nonneg _) (Ne.symm h0)
  have hsum : 0 ≤ x ^ 2 + y ^ 2 + z ^ 2 := by positivity
  have hr2 : r ^ 2 = x ^ 2 + y ^ 2 + z ^ 2 := Real.sq_sqrt hsum
  have hz : |z| ≤ r := Real.abs_le_sqrt (by nlinarith [sq_nonneg x, sq_nonneg y])
  have hu : |z / r| ≤ 1 := by
    rw [abs_div, abs_of_pos hr]; exact (div_le_one hr).mpr hz
  obtain ⟨hu1, hu2⟩ := abs_le.mp hu
  constructor
  · rw [Real.cos_arcsin]
    have e : x ^ 2 + y ^ 2 = r ^ 2 * (1 - (z / r) ^ 2) := by
      field_simp
      linarith
    rw [e, Real.sqrt_mul (sq_nonneg r), Real.sqrt_sq hr.le]
  · rw [Real.sin_arcsin hu1 hu2]
    field_simp

theorem conv_cart_roundtrip (x y z : ℝ) (h0 : ¬ cart2geocentric_rejects x y z) :
    let q := cart2geocentric x y z
    geocentric2cart q.1 q.2.1 q.2.2 = (x, y, z) := by
  intro q
  rw [nf_rejects] at h0
  obtain ⟨hc, hs⟩ := conv_aux_lat x y z h0
  simp only [q, nf_cart2geocentric, nf_geocentric2cart, conv_aux_deg']
  rw [hc, hs, conv_aux_polar_x, conv_aux_polar_y]

/-- the point of the ellipsoid surface at geodetic latitude `lat` (h = 0), in closed form -/
theorem conv_aux_surface (a e lat lon : ℝ) (he0 : 0 ≤ e) (he1 : e < 1) :
    let p := geodetic2cart 0 lat lon a e
    let S := Real.sin (lat * (Real.pi / 180))
    let C := Real.cos (lat * (Real.pi / 180))
    let W := Real.sqrt (1 - e ^ 2 * S ^ 2)
    0 < W ∧ W ^ 2 = 1 - e ^ 2 * S ^ 2 ∧
    p.1 ^ 2 + p.2.1 ^ 2 = (a / W) ^ 2 * C ^ 2 ∧
    p.2.2 ^ 2 = (a / W) ^ 2 * ((1 - e ^ 2) ^ 2 * S ^ 2) := by
  intro p S C W
  have hS : S ^ 2 ≤ 1 := by
    have := Real.sin_sq_add_cos_sq (lat * (Real.pi / 180))
    nlinarith [sq_nonneg C]
  have he2 : e ^ 2 < 1 := by nlinarith
  have hrad : 0 < 1 - e ^ 2 * S ^ 2 := by nlinarith [sq_nonneg e, sq_nonneg S]
  refine ⟨Real.sqrt_pos.mpr hrad, Real.sq_sqrt hrad.le, ?_, ?_⟩
  · have hl := Real.sin_sq_add_cos_sq (lon * (Real.pi / 180))
    simp only [p, nf_geodetic2cart, add_zero]
    have : ∀ n c cl sl : ℝ, sl ^ 2 + cl ^ 2 = 1 → (n * c * cl) ^ 2 + (n * c * sl) ^ 2 = n ^ 2 * c ^ 2 := by
      intro n c cl sl h
      have : (n * c * cl) ^ 2 + (n * c * sl) ^ 2 = n ^ 2 * c ^ 2 * (sl ^ 2 + cl ^ 2) := by ring
      rw [this, h, mul_one]
    exact this _ _ _ _ hl
  · simp only [p, nf_geodetic2cart, add_zero]
    ring

theorem conv_surface_radius_geodetic (a e lat lon : ℝ) (ha : 0 < a) (he0 : 0 ≤ e) (he1 : e < 1) :
    let p := geodetic2cart 0 lat lon a e
    Real.sqrt (p.1 ^ 2 + p.2.1 ^ 2 + p.2.2 ^ 2) = ellipsoid_r_geodetic a e lat := by
  intro p
  obtain ⟨hW, hW2, hxy, hz⟩ := conv_aux_surface a e lat lon he0 he1
  have hsc := Real.sin_sq_add_cos_sq (lat * (Real.pi / 180))
  rw [show p.1 ^ 2 + p.2.1 ^ 2 + p.2.2 ^ 2 = p.1 ^ 2 + p.2.1 ^ 2 + p.2.2 ^ 2 from rfl]
  simp only [p] at *
  rw [hxy, hz, ← mul_add, Real.sqrt_mul (sq_nonneg _), Real.sqrt_sq (div_pos ha hW).le,
    nf_r_geodetic]
  split_ifs with h
  · subst h
    have e1 : (1 - (0:ℝ) ^ 2) ^ 2 * Real.sin (lat * (Real.pi / 180)) ^ 2
        = Real.sin (lat * (Real.pi / 180)) ^ 2 := by ring
    have e2 : (1 : ℝ) - 0 ^ 2 * Real.sin (lat * (Real.pi / 180)) ^ 2 = 1 := by ring
    rw [e1, e2, add_comm (Real.cos _ ^ 2), hsc]
    simp
  · rw [add_comm (Real.cos _ ^ 2)]
    ring

theorem conv_surface_radius_geocentric (a e lat lon : ℝ) (ha : 0 < a) (he0 : 0 ≤ e) (he1 : e < 1) :
    let q := geodetic2geocentric 0 lat lon a e
    q.1 = ellipsoid_r_geocentric a e q.2.1 := by
  intro q
  obtain ⟨hW, hW2, hxy, hz⟩ := conv_aux_surface a e lat lon he0 he1
  have hgd := conv_surface_radius_geodetic a e lat lon ha he0 he1
  simp only [] at hgd
  have hsc := Real.sin_sq_add_cos_sq (lat * (Real.pi / 180))
  have hq : q = cart2geocentric (geodetic2cart 0 lat lon a e).1 (geodetic2cart 0 lat lon a e).2.1
      (geodetic2cart 0 lat lon a e).2.2 := (conv_composed_routes 0 lat lon 0 a e).1
  generalize geodetic2cart 0 lat lon a e = p at *
  obtain ⟨x, y, z⟩ := p
  simp only [] at hxy hz hgd hq
  rw [hq, nf_cart2geocentric, nf_r_geocentric]
  simp only [conv_aux_deg']
  split_ifs with h
  · rw [hgd, nf_r_geodetic, if_pos h]
  · have he : 0 < e := lt_of_le_of_ne he0 (Ne.symm h)
    have he2 : 0 < 1 - e ^ 2 := by nlinarith
    set W := Real.sqrt (1 - e ^ 2 * Real.sin (lat * (Real.pi / 180)) ^ 2) with hWdef
    set S := Real.sin (lat * (Real.pi / 180)) with hSdef
    set C := Real.cos (lat * (Real.pi / 180)) with hCdef
    have hN : 0 < a / W := div_pos ha hW
    have hX : 0 < (1 - e ^ 2) ^ 2 * S ^ 2 + C ^ 2 := by
      have t0 : 0 < (1 - e ^ 2) ^ 2 := by positivity
      have t1 : (1 - e ^ 2) ^ 2 ≤ 1 := pow_le_one₀ he2.le (by nlinarith [sq_nonneg e])
      nlinarith [mul_nonneg (sub_nonneg.mpr t1) (sq_nonneg C)]
    have hsum : x ^ 2 + y ^ 2 + z ^ 2 = (a / W) ^ 2 * ((1 - e ^ 2) ^ 2 * S ^ 2 + C ^ 2) := by
      rw [hxy, hz]; ring
    have hr : 0 < Real.sqrt (x ^ 2 + y ^ 2 + z ^ 2) := by
      rw [hsum]; exact Real.sqrt_pos.mpr (by positivity)
    obtain ⟨hc, hs⟩ := conv_aux_lat x y z hr.ne'
    set r := Real.sqrt (x ^ 2 + y ^ 2 + z ^ 2) with hrdef
    set ψ := Real.arcsin (z / r) with hψ
    -- r * D = a * sqrt (1 - e^2)
    have hkey : r ^ 2 * ((1 - e ^ 2) * Real.cos ψ ^ 2 + Real.sin ψ ^ 2) = a ^ 2 * (1 - e ^ 2) := by
      have h1 : r ^ 2 * ((1 - e ^ 2) * Real.cos ψ ^ 2 + Real.sin ψ ^ 2)
          = (1 - e ^ 2) * (r * Real.cos ψ) ^ 2 + (r * Real.sin ψ) ^ 2 := by ring
      rw [h1, hc, hs, Real.sq_sqrt (by positivity), hxy, hz]
      have hC2 : C ^ 2 = 1 - S ^ 2 := by linarith
      have hWne : W ≠ 0 := hW.ne'
      rw [hC2]
      field_simp
      rw [hW2]
      ring
    have hD : r * Real.sqrt ((1 - e ^ 2) * Real.cos ψ ^ 2 + Real.sin ψ ^ 2) = a * Real.sqrt (1 - e ^ 2) := by
      rw [← Real.sqrt_sq hr.le, ← Real.sqrt_mul (sq_nonneg r), hkey, Real.sqrt_mul (sq_nonneg a),
        Real.sqrt_sq ha.le]
    have hDpos : 0 < Real.sqrt ((1 - e ^ 2) * Real.cos ψ ^ 2 + Real.sin ψ ^ 2) := by
      have : 0 < a * Real.sqrt (1 - e ^ 2) := mul_pos ha (Real.sqrt_pos.mpr he2)
      rw [← hD] at this
      exact (mul_pos_iff_of_pos_left hr).mp this
    rw [← hD]
    field_simp

theorem conv_aux_sqrt_mul_self (x y : ℝ) : Real.sqrt (x * x + y * y) = Real.sqrt (x ^ 2 + y ^ 2) := by
  rw [← sq, ← sq]

theorem conv_aux_rho_pos (x y : ℝ) (hxy : x ≠ 0 ∨ y ≠ 0) : 0 < Real.sqrt (x * x + y * y) := by
  apply Real.sqrt_pos.mpr
  rcases hxy with h | h
  · nlinarith [mul_self_pos.mpr h, mul_self_nonneg y]
  · nlinarith [mul_self_pos.mpr h, mul_self_nonneg x]

/-- algebra of a fixed point of the latitude iteration (ρ = distance from the axis, n = N(B)) -/
theorem conv_aux_fix_alg (ρ z n e2 B : ℝ) (hρ : 0 < ρ)
    (hfix : Real.arctan (z / ρ * (1 / (1 - e2 * n / (n + (ρ / Real.cos B - n))))) = B)
    (hden : 1 - e2 * n / (n + (ρ / Real.cos B - n)) ≠ 0) :
    (n + (ρ / Real.cos B - n)) * Real.cos B = ρ ∧
    (n * (1 - e2) + (ρ / Real.cos B - n)) * Real.sin B = z := by
  have hc : 0 < Real.cos B := by rw [← hfix]; exact Real.cos_arctan_pos _
  have ht := congrArg Real.tan hfix
  rw [Real.tan_arctan] at ht
  have hs : Real.sin B = Real.tan B * Real.cos B := (Real.tan_mul_cos hc.ne').symm
  rw [← ht] at hs
  have hM : n + (ρ / Real.cos B - n) = ρ / Real.cos B := by ring
  rw [hM] at hs hden ⊢
  generalize Real.cos B = c at *
  generalize Real.sin B = s at *
  have hd' : ρ - n * e2 * c ≠ 0 := by
    intro h0; apply hden; field_simp; linarith
  have e1 : 1 - e2 * n / (ρ / c) = (ρ - n * e2 * c) / ρ := by field_simp
  rw [e1] at hs
  constructor
  · field_simp
  · rw [hs]; field_simp; ring

/-- a fixed point `B` of the iteration map gives the exact inverse.  `hden`: the iteration's
denominator `1 − e²N/(N+h)` is not zero (otherwise Lean's `1 / 0 = 0` makes `B = 0` a spurious
fixed point for every `z`).  The skeleton's `hpos`, `ha`, `he0`, `he1` are not needed. -/
theorem conv_geodetic_fixed_point (x y z a e N h Bp B : ℝ)
    (hxy : x ≠ 0 ∨ y ≠ 0)
    (hfix : (cart2geodetic_loop1_body x y z a e (e ^ 2) (N, h, Bp, B)).2.2.2 = B)
    (hden : 1 - e ^ 2 * (cart2geodetic_loop1_body x y z a e (e ^ 2) (N, h, Bp, B)).1
              / ((cart2geodetic_loop1_body x y z a e (e ^ 2) (N, h, Bp, B)).1
                 + (cart2geodetic_loop1_body x y z a e (e ^ 2) (N, h, Bp, B)).2.1) ≠ 0) :
    let s := cart2geodetic_loop1_body x y z a e (e ^ 2) (N, h, Bp, B)
    geodetic2cart s.2.1 (s.2.2.1 * (180 / Real.pi)) (Complex.arg ⟨x, y⟩ * (180 / Real.pi)) a e = (x, y, z) := by
  intro s
  have hρ := conv_aux_rho_pos x y hxy
  simp only [nf_body] at hfix hden
  obtain ⟨h1, h2⟩ := conv_aux_fix_alg _ z _ _ B hρ hfix hden
  simp only [s, nf_body, nf_geodetic2cart, conv_aux_deg']
  rw [h1, h2, conv_aux_sqrt_mul_self, conv_aux_polar_x, conv_aux_polar_y]

/-- conversely the geodetic latitude of `geodetic2cart h lat lon` is a fixed point, with height `h` -/
theorem conv_geodetic_is_fixed_point (h lat lon a e N0 h0 B0 : ℝ) (ha : 0 < a) (he0 : 0 < e) (he1 : e < 1)
    (hlat : |lat| < 90) (hh : -(a * (1 - e ^ 2)) < h) :
    let p := geodetic2cart h lat lon a e
    let s := cart2geodetic_loop1_body p.1 p.2.1 p.2.2 a e (e ^ 2) (N0, h0, B0, lat * (Real.pi / 180))
    s.2.1 = h ∧ s.2.2.1 = lat * (Real.pi / 180) ∧ s.2.2.2 = lat * (Real.pi / 180) := by
  intro p s
  obtain ⟨hl1, hl2⟩ := conv_aux_latrange lat hlat
  have hC : 0 < Real.cos (lat * (Real.pi / 180)) := Real.cos_pos_of_mem_Ioo ⟨hl1, hl2⟩
  have hsc := Real.sin_sq_add_cos_sq (lat * (Real.pi / 180))
  have hl := Real.sin_sq_add_cos_sq (lon * (Real.pi / 180))
  have htan := Real.arctan_tan hl1 hl2
  rw [Real.tan_eq_sin_div_cos] at htan
  have he2 : 0 < 1 - e ^ 2 := by nlinarith
  have he2' : 0 < e ^ 2 := by positivity
  -- p in closed form
  have hp : p = _ := nf_geodetic2cart h lat lon a e
  simp only [s, nf_body, hp]
  set φ := lat * (Real.pi / 180) with hφ
  set S := Real.sin φ with hS
  set C := Real.cos φ with hCdef
  have hS1 : S ^ 2 ≤ 1 := by nlinarith [sq_nonneg C]
  have hrad : 0 < 1 - e ^ 2 * S ^ 2 := by nlinarith [sq_nonneg S]
  have hrad1 : 1 - e ^ 2 * S ^ 2 ≤ 1 := by nlinarith [sq_nonneg S]
  have hW : 0 < Real.sqrt (1 - e ^ 2 * S ^ 2) := Real.sqrt_pos.mpr hrad
  have hW1 : Real.sqrt (1 - e ^ 2 * S ^ 2) ≤ 1 := by
    have := Real.sqrt_le_sqrt hrad1
    rwa [Real.sqrt_one] at this
  set W := Real.sqrt (1 - e ^ 2 * S ^ 2) with hWdef
  have hNa : a ≤ a / W := by
    rw [le_div_iff₀ hW]; nlinarith
  set n := a / W with hn
  have hn0 : 0 < n := lt_of_lt_of_le ha hNa
  have hD : 0 < n * (1 - e ^ 2) + h := by nlinarith
  have hM : 0 < n + h := by nlinarith
  have hρ : Real.sqrt ((n + h) * C * Real.cos (lon * (Real.pi / 180)) * ((n + h) * C * Real.cos (lon * (Real.pi / 180)))
      + (n + h) * C * Real.sin (lon * (Real.pi / 180)) * ((n + h) * C * Real.sin (lon * (Real.pi / 180))))
      = (n + h) * C := by
    have : (n + h) * C * Real.cos (lon * (Real.pi / 180)) * ((n + h) * C * Real.cos (lon * (Real.pi / 180)))
      + (n + h) * C * Real.sin (lon * (Real.pi / 180)) * ((n + h) * C * Real.sin (lon * (Real.pi / 180)))
      = ((n + h) * C) ^ 2 * (Real.sin (lon * (Real.pi / 180)) ^ 2 + Real.cos (lon * (Real.pi / 180)) ^ 2) := by
      ring
    rw [this, hl, mul_one, Real.sqrt_sq (by positivity)]
  rw [hρ]
  have e1 : (n + h) * C / C - n = h := by field_simp; ring
  rw [e1]
  refine ⟨by trivial, by trivial, ?_⟩
  have hne : n + h - e ^ 2 * n ≠ 0 := by nlinarith
  have e2 : (n * (1 - e ^ 2) + h) * S / ((n + h) * C) * (1 / (1 - e ^ 2 * n / (n + h))) = S / C := by
    have : 1 - e ^ 2 * n / (n + h) = (n * (1 - e ^ 2) + h) / (n + h) := by field_simp; ring
    rw [this]
    field_simp
  rw [e2, htan]

/-- for e = 0 the general branch's iteration map is stationary at the geocentric latitude and gives h = r − a -/
theorem conv_spherical_fixed_point (x y z a N0 h0 B0 : ℝ) (hxy : x ≠ 0 ∨ y ≠ 0) :
    let q := cart2geocentric x y z
    let s := cart2geodetic_loop1_body x y z a 0 0 (N0, h0, B0, q.2.1 * (Real.pi / 180))
    s.2.1 = q.1 - a ∧ s.2.2.2 = q.2.1 * (Real.pi / 180) := by
  intro q s
  have hρ := conv_aux_rho_pos x y hxy
  rw [conv_aux_sqrt_mul_self] at hρ
  have hr : 0 < Real.sqrt (x ^ 2 + y ^ 2 + z ^ 2) := by
    apply Real.sqrt_pos.mpr
    have := Real.sqrt_pos.mp hρ
    nlinarith [sq_nonneg z]
  obtain ⟨hc, hs⟩ := conv_aux_lat x y z hr.ne'
  simp only [s, q, nf_body, nf_cart2geocentric, conv_aux_deg', conv_aux_sqrt_mul_self]
  set r := Real.sqrt (x ^ 2 + y ^ 2 + z ^ 2) with hrdef
  set ρ := Real.sqrt (x ^ 2 + y ^ 2) with hρdef
  set ψ := Real.arcsin (z / r) with hψ
  have hcos : 0 < Real.cos ψ := by
    have : 0 < r * Real.cos ψ := by rw [hc]; exact hρ
    exact (mul_pos_iff_of_pos_left hr).mp this
  have h1 : Real.sqrt (1 - 0 * Real.sin ψ ^ 2) = 1 := by simp
  rw [h1, div_one]
  constructor
  · rw [← hc]; field_simp
  · have e : z / ρ * (1 / (1 - 0 * a / (a + (ρ / Real.cos ψ - a)))) = z / ρ := by simp
    rw [e]
    have hψ1 : -(Real.pi / 2) < ψ := by
      rcases (Real.neg_pi_div_two_le_arcsin (z / r)).lt_or_eq with h | h
      · exact h
      · exfalso; rw [← hψ] at h; rw [← h] at hcos; simp at hcos
    have hψ2 : ψ < Real.pi / 2 := by
      rcases (Real.arcsin_le_pi_div_two (z / r)).lt_or_eq with h | h
      · exact h
      · exfalso; rw [← hψ] at h; rw [h] at hcos; simp at hcos
    apply Real.arctan_eq_of_tan_eq _ ⟨hψ1, hψ2⟩
    rw [Real.tan_eq_sin_div_cos, div_eq_div_iff hcos.ne' hρ.ne']
    calc Real.sin ψ * ρ = Real.sin ψ * (r * Real.cos ψ) := by rw [hc]
      _ = (r * Real.sin ψ) * Real.cos ψ := by ring
      _ = z * Real.cos ψ := by rw [hs]

/-- The skeleton's statement of `conv_geodetic_fixed_point` (with `hpos` in place of `hden`) is false:
at `x = e²a, y = 0, B = 0` the denominator `1 − e²N/(N+h)` vanishes, Lean's `1 / 0 = 0` makes `B = 0`
a fixed point whatever `z` is, and the reconstructed `z` is `0`. -/
theorem conv_aux_fixed_point_needs_hden :
    ¬ ∀ (x y z a e N h Bp B : ℝ), 0 < a → 0 < e → e < 1 → (x ≠ 0 ∨ y ≠ 0) →
      (cart2geodetic_loop1_body x y z a e (e ^ 2) (N, h, Bp, B)).2.2.2 = B →
      0 < (cart2geodetic_loop1_body x y z a e (e ^ 2) (N, h, Bp, B)).1
              + (cart2geodetic_loop1_body x y z a e (e ^ 2) (N, h, Bp, B)).2.1 →
      (let s := cart2geodetic_loop1_body x y z a e (e ^ 2) (N, h, Bp, B)
       geodetic2cart s.2.1 (s.2.2.1 * (180 / Real.pi)) (Complex.arg ⟨x, y⟩ * (180 / Real.pi)) a e
         = (x, y, z)) := by
  intro H
  have hs : Real.sqrt ((1 / 4 : ℝ) * (1 / 4) + 0 * 0) = 1 / 4 := by
    rw [mul_zero, add_zero, Real.sqrt_mul_self (by norm_num)]
  have hb : cart2geodetic_loop1_body (1 / 4) 0 1 1 (1 / 2) ((1 / 2) ^ 2) (0, 0, 0, 0)
      = (1, -3 / 4, 0, 0) := by
    rw [nf_body, hs]
    norm_num
  have := H (1 / 4) 0 1 1 (1 / 2) 0 0 0 0 (by norm_num) (by norm_num) (by norm_num)
    (Or.inl (by norm_num)) (by rw [hb]) (by rw [hb]; norm_num)
  simp only [hb, nf_geodetic2cart, zero_mul, Real.sin_zero, mul_zero, Prod.mk.injEq] at this
  norm_num at this

/-- with `n = a / √(1 − e² sin² φ)` (prime-vertical radius): `n ≥ a > 0`, `n(1−e²) + h > 0`, `n + h > 0` -/
theorem conv_aux_N_facts (a e φ h : ℝ) (ha : 0 < a) (he0 : 0 < e) (he1 : e < 1)
    (hh : -(a * (1 - e ^ 2)) < h) :
    0 < a / Real.sqrt (1 - e ^ 2 * Real.sin φ ^ 2) ∧
    0 < a / Real.sqrt (1 - e ^ 2 * Real.sin φ ^ 2) * (1 - e ^ 2) + h ∧
    0 < a / Real.sqrt (1 - e ^ 2 * Real.sin φ ^ 2) + h := by
  have hsc := Real.sin_sq_add_cos_sq φ
  have he2 : 0 < 1 - e ^ 2 := by nlinarith
  have he2' : 0 < e ^ 2 := by positivity
  have hS1 : Real.sin φ ^ 2 ≤ 1 := by nlinarith [sq_nonneg (Real.cos φ)]
  have hrad : 0 < 1 - e ^ 2 * Real.sin φ ^ 2 := by nlinarith [sq_nonneg (Real.sin φ)]
  have hrad1 : 1 - e ^ 2 * Real.sin φ ^ 2 ≤ 1 := by nlinarith [sq_nonneg (Real.sin φ)]
  have hW : 0 < Real.sqrt (1 - e ^ 2 * Real.sin φ ^ 2) := Real.sqrt_pos.mpr hrad
  have hW1 : Real.sqrt (1 - e ^ 2 * Real.sin φ ^ 2) ≤ 1 := by
    have := Real.sqrt_le_sqrt hrad1
    rwa [Real.sqrt_one] at this
  have hNa : a ≤ a / Real.sqrt (1 - e ^ 2 * Real.sin φ ^ 2) := by
    rw [le_div_iff₀ hW]; nlinarith
  generalize a / Real.sqrt (1 - e ^ 2 * Real.sin φ ^ 2) = n at *
  have hn0 : 0 < n := lt_of_lt_of_le ha hNa
  refine ⟨hn0, ?_, ?_⟩ <;> nlinarith

/-- the hypotheses `hxy`, `hden` of `conv_geodetic_fixed_point` hold at the point `geodetic2cart h lat lon`
with `B = lat·π/180` (so that theorem's hypotheses are jointly satisfiable) -/
theorem conv_geodetic_is_fixed_point_den (h lat lon a e N0 h0 B0 : ℝ) (ha : 0 < a) (he0 : 0 < e) (he1 : e < 1)
    (hlat : |lat| < 90) (hh : -(a * (1 - e ^ 2)) < h) :
    let p := geodetic2cart h lat lon a e
    let s := cart2geodetic_loop1_body p.1 p.2.1 p.2.2 a e (e ^ 2) (N0, h0, B0, lat * (Real.pi / 180))
    (p.1 ≠ 0 ∨ p.2.1 ≠ 0) ∧ 1 - e ^ 2 * s.1 / (s.1 + s.2.1) ≠ 0 := by
  intro p s
  obtain ⟨hl1, hl2⟩ := conv_aux_latrange lat hlat
  have hC : 0 < Real.cos (lat * (Real.pi / 180)) := Real.cos_pos_of_mem_Ioo ⟨hl1, hl2⟩
  have hl := Real.sin_sq_add_cos_sq (lon * (Real.pi / 180))
  obtain ⟨hn0, hD, hM⟩ := conv_aux_N_facts a e (lat * (Real.pi / 180)) h ha he0 he1 hh
  have hs2 : s.2.1 = h := (conv_geodetic_is_fixed_point h lat lon a e N0 h0 B0 ha he0 he1 hlat hh).1
  have hs1 : s.1 = a / Real.sqrt (1 - e ^ 2 * Real.sin (lat * (Real.pi / 180)) ^ 2) := by
    simp only [s, nf_body]
  have hp : p = _ := nf_geodetic2cart h lat lon a e
  constructor
  · by_contra hcon
    rw [not_or, not_not, not_not] at hcon
    obtain ⟨hx, hy⟩ := hcon
    simp only [hp] at hx hy
    have hMC : a / Real.sqrt (1 - e ^ 2 * Real.sin (lat * (Real.pi / 180)) ^ 2) + h ≠ 0 := hM.ne'
    have hx' : Real.cos (lon * (Real.pi / 180)) = 0 := by
      rcases mul_eq_zero.mp hx with h1 | h1
      · rcases mul_eq_zero.mp h1 with h2 | h2
        · exact absurd h2 hMC
        · exact absurd h2 hC.ne'
      · exact h1
    have hy' : Real.sin (lon * (Real.pi / 180)) = 0 := by
      rcases mul_eq_zero.mp hy with h1 | h1
      · rcases mul_eq_zero.mp h1 with h2 | h2
        · exact absurd h2 hMC
        · exact absurd h2 hC.ne'
      · exact h1
    rw [hx', hy'] at hl
    norm_num at hl
  · rw [hs1, hs2]
    generalize a / Real.sqrt (1 - e ^ 2 * Real.sin (lat * (Real.pi / 180)) ^ 2) = n at *
    have e1 : 1 - e ^ 2 * n / (n + h) = (n * (1 - e ^ 2) + h) / (n + h) := by field_simp; ring
    rw [e1]
    exact (div_pos hD hM).ne'

/-! ## second batch: the loop of `cart2geodetic` -/

private theorem nf_cond (x y z a e e2 : ℝ) (s : ℝ × ℝ × ℝ × ℝ) :
    cart2geodetic_loop1_cond_any x y z a e e2 s ↔ |s.2.2.1 - s.2.2.2| > 1 / 1000000000000 := by
  simp only [cart2geodetic_loop1_cond_any]
  <;> ring_nf

/-- the loop is always entered -/
theorem conv_loop_entered (x y z a e B0 : ℝ) : cart2geodetic_loop1_entered x y z a e (e ^ 2) (B0 + 1) B0 := by
  simp only [cart2geodetic_loop1_entered, nf_cond]
  have : B0 + 1 - B0 = 1 := by ring
  rw [this]
  norm_num

/-- the longitude returned by cart2geodetic does not depend on the branch / the loop -/
theorem conv_cart2geodetic_lon (x y z a e : ℝ) :
    (cart2geodetic x y z a e).2.2 = Complex.arg ⟨x, y⟩ * (180 / Real.pi) := by
  by_cases h : e ^ 2 = 0
  · simp only [cart2geodetic, h, if_true, nf_cart2geocentric]
  · simp only [cart2geodetic, h, if_false]

/-- the general branch returns the exit state's height and latitude -/
private theorem nf_cart2geodetic_general (x y z a e : ℝ) (he : e ≠ 0) :
    cart2geodetic x y z a e
      = ((whileLoop (cart2geodetic_loop1_cond_any x y z a e (e ^ 2)) (cart2geodetic_loop1_body x y z a e (e ^ 2))
            (0, 0, Complex.arg ⟨Real.sqrt (x * x + y * y), z⟩ + 1, Complex.arg ⟨Real.sqrt (x * x + y * y), z⟩)).2.1,
         (whileLoop (cart2geodetic_loop1_cond_any x y z a e (e ^ 2)) (cart2geodetic_loop1_body x y z a e (e ^ 2))
            (0, 0, Complex.arg ⟨Real.sqrt (x * x + y * y), z⟩ + 1, Complex.arg ⟨Real.sqrt (x * x + y * y), z⟩)).2.2.1
           * (180 / Real.pi),
         Complex.arg ⟨x, y⟩ * (180 / Real.pi)) := by
  simp only [cart2geodetic, if_neg (pow_ne_zero 2 he)]

theorem conv_composite_roundtrip (h lat lon a e : ℝ)
    (h0 : ¬ cart2geocentric_rejects (geodetic2cart h lat lon a e).1 (geodetic2cart h lat lon a e).2.1
            (geodetic2cart h lat lon a e).2.2) :
    let p := geodetic2cart h lat lon a e
    let q := geodetic2geocentric h lat lon a e
    geocentric2geodetic q.1 q.2.1 q.2.2 a e = cart2geodetic p.1 p.2.1 p.2.2 a e := by
  intro p q
  have h1 := conv_cart_roundtrip p.1 p.2.1 p.2.2 h0
  simp only [] at h1
  have hq : q = cart2geocentric p.1 p.2.1 p.2.2 := (conv_composed_routes h lat lon 0 a e).1
  rw [(conv_composed_routes 0 q.2.1 q.2.2 q.1 a e).2, hq, h1]

/-- `conv_aux_N_facts` for `0 ≤ e` (the sphere included) -/
theorem conv_aux_N_facts' (a e φ h : ℝ) (ha : 0 < a) (he0 : 0 ≤ e) (he1 : e < 1)
    (hh : -(a * (1 - e ^ 2)) < h) :
    0 < a / Real.sqrt (1 - e ^ 2 * Real.sin φ ^ 2) ∧
    0 < a / Real.sqrt (1 - e ^ 2 * Real.sin φ ^ 2) * (1 - e ^ 2) + h ∧
    0 < a / Real.sqrt (1 - e ^ 2 * Real.sin φ ^ 2) + h := by
  have hsc := Real.sin_sq_add_cos_sq φ
  have he2 : 0 < 1 - e ^ 2 := by nlinarith
  have he2' : 0 ≤ e ^ 2 := by positivity
  have hS1 : Real.sin φ ^ 2 ≤ 1 := by nlinarith [sq_nonneg (Real.cos φ)]
  have hrad : 0 < 1 - e ^ 2 * Real.sin φ ^ 2 := by nlinarith [sq_nonneg (Real.sin φ)]
  have hrad1 : 1 - e ^ 2 * Real.sin φ ^ 2 ≤ 1 := by nlinarith [sq_nonneg (Real.sin φ)]
  have hW : 0 < Real.sqrt (1 - e ^ 2 * Real.sin φ ^ 2) := Real.sqrt_pos.mpr hrad
  have hW1 : Real.sqrt (1 - e ^ 2 * Real.sin φ ^ 2) ≤ 1 := by
    have := Real.sqrt_le_sqrt hrad1
    rwa [Real.sqrt_one] at this
  have hNa : a ≤ a / Real.sqrt (1 - e ^ 2 * Real.sin φ ^ 2) := by
    rw [le_div_iff₀ hW]; nlinarith
  generalize a / Real.sqrt (1 - e ^ 2 * Real.sin φ ^ 2) = n at *
  have hn0 : 0 < n := lt_of_lt_of_le ha hNa
  have h1 : 0 < n * (1 - e ^ 2) + h := by nlinarith
  refine ⟨hn0, h1, ?_⟩
  nlinarith [mul_nonneg hn0.le he2']

/-- `atan2` recovers a longitude in (−180, 180] from a positive multiple of (cos, sin) -/
theorem conv_aux_arg_polar_deg (ρ lon : ℝ) (hρ : 0 < ρ) (hlon : -180 < lon ∧ lon ≤ 180) :
    Complex.arg ⟨ρ * Real.cos (lon * (Real.pi / 180)), ρ * Real.sin (lon * (Real.pi / 180))⟩
      * (180 / Real.pi) = lon := by
  have hp := Real.pi_pos
  have h := conv_aux_arg_polar ρ (lon * (Real.pi / 180)) hρ
  have hf : ⌊(Real.pi - lon * (Real.pi / 180)) / (2 * Real.pi)⌋ = 0 := by
    rw [Int.floor_eq_zero_iff]
    constructor
    · apply div_nonneg _ (by positivity)
      nlinarith [hlon.2]
    · rw [div_lt_one (by positivity)]
      nlinarith [hlon.1]
  rw [hf, Int.cast_zero, mul_zero, sub_eq_zero] at h
  rw [h, conv_aux_deg]

theorem conv_geodetic_lon_recovery (h lat lon a e : ℝ) (ha : 0 < a) (he0 : 0 ≤ e) (he1 : e < 1)
    (hlat : |lat| < 90) (hh : -(a * (1 - e ^ 2)) < h) (hlon : -180 < lon ∧ lon ≤ 180) :
    let p := geodetic2cart h lat lon a e
    (cart2geodetic p.1 p.2.1 p.2.2 a e).2.2 = lon := by
  intro p
  obtain ⟨hl1, hl2⟩ := conv_aux_latrange lat hlat
  have hC : 0 < Real.cos (lat * (Real.pi / 180)) := Real.cos_pos_of_mem_Ioo ⟨hl1, hl2⟩
  obtain ⟨_, _, hM⟩ := conv_aux_N_facts' a e (lat * (Real.pi / 180)) h ha he0 he1 hh
  rw [conv_cart2geodetic_lon]
  simp only [p, nf_geodetic2cart]
  exact conv_aux_arg_polar_deg _ lon (mul_pos hM hC) hlon

/-- algebra of one step of the latitude iteration from any `B` with `cos B > 0` -/
theorem conv_aux_step_alg (ρ z n e2 B : ℝ) (hρ : 0 < ρ) (hB : 0 < Real.cos B)
    (hden : 1 - e2 * n / (n + (ρ / Real.cos B - n)) ≠ 0) :
    (n + (ρ / Real.cos B - n)) * Real.cos B = ρ ∧
    (n * (1 - e2) + (ρ / Real.cos B - n)) * Real.sin B
      = z - (n * (1 - e2) + (ρ / Real.cos B - n))
          * Real.sin (Real.arctan (z / ρ * (1 / (1 - e2 * n / (n + (ρ / Real.cos B - n))))) - B)
          / Real.cos (Real.arctan (z / ρ * (1 / (1 - e2 * n / (n + (ρ / Real.cos B - n)))))) := by
  have hM : n + (ρ / Real.cos B - n) = ρ / Real.cos B := by ring
  rw [hM] at hden ⊢
  generalize hB' : Real.arctan (z / ρ * (1 / (1 - e2 * n / (ρ / Real.cos B)))) = B'
  have hc' : 0 < Real.cos B' := by rw [← hB']; exact Real.cos_arctan_pos _
  have ht : Real.tan B' = z / ρ * (1 / (1 - e2 * n / (ρ / Real.cos B))) := by
    rw [← hB', Real.tan_arctan]
  have hs' : Real.sin B' = Real.tan B' * Real.cos B' := (Real.tan_mul_cos hc'.ne').symm
  rw [ht] at hs'
  rw [Real.sin_sub, hs']
  generalize Real.cos B = c at *
  generalize Real.sin B = s at *
  generalize Real.cos B' = c' at *
  have hd' : ρ - n * e2 * c ≠ 0 := by
    intro h0; apply hden; field_simp; linarith
  have e1 : 1 - e2 * n / (ρ / c) = (ρ - n * e2 * c) / ρ := by field_simp
  rw [e1]
  constructor
  · field_simp
  · field_simp; ring

/-- one pass of the loop body from ANY latitude B with cos B > 0: the returned (h, B) reproduce x and y exactly
and z up to an explicit residual that vanishes at a fixed point -/
theorem conv_step_inverse (x y z a e N h Bp B : ℝ) (hxy : x ≠ 0 ∨ y ≠ 0) (hB : 0 < Real.cos B)
    (hden : 1 - e ^ 2 * (cart2geodetic_loop1_body x y z a e (e ^ 2) (N, h, Bp, B)).1
              / ((cart2geodetic_loop1_body x y z a e (e ^ 2) (N, h, Bp, B)).1
                 + (cart2geodetic_loop1_body x y z a e (e ^ 2) (N, h, Bp, B)).2.1) ≠ 0) :
    let s := cart2geodetic_loop1_body x y z a e (e ^ 2) (N, h, Bp, B)
    geodetic2cart s.2.1 (s.2.2.1 * (180 / Real.pi)) (Complex.arg ⟨x, y⟩ * (180 / Real.pi)) a e
      = (x, y, z - (s.1 * (1 - e ^ 2) + s.2.1) * Real.sin (s.2.2.2 - B) / Real.cos s.2.2.2) := by
  intro s
  have hρ := conv_aux_rho_pos x y hxy
  simp only [nf_body] at hden
  obtain ⟨h1, h2⟩ := conv_aux_step_alg _ z _ _ B hρ hB hden
  simp only [s, nf_body, nf_geodetic2cart, conv_aux_deg']
  rw [h1, h2, conv_aux_sqrt_mul_self, conv_aux_polar_x, conv_aux_polar_y]

theorem conv_step_residual_bound (x y z a e N h Bp B : ℝ) (hxy : x ≠ 0 ∨ y ≠ 0) (hB : 0 < Real.cos B)
    (hden : 1 - e ^ 2 * (cart2geodetic_loop1_body x y z a e (e ^ 2) (N, h, Bp, B)).1
              / ((cart2geodetic_loop1_body x y z a e (e ^ 2) (N, h, Bp, B)).1
                 + (cart2geodetic_loop1_body x y z a e (e ^ 2) (N, h, Bp, B)).2.1) ≠ 0) :
    let s := cart2geodetic_loop1_body x y z a e (e ^ 2) (N, h, Bp, B)
    let p := geodetic2cart s.2.1 (s.2.2.1 * (180 / Real.pi)) (Complex.arg ⟨x, y⟩ * (180 / Real.pi)) a e
    p.1 = x ∧ p.2.1 = y ∧
      |z - p.2.2| * Real.cos s.2.2.2 ≤ |s.1 * (1 - e ^ 2) + s.2.1| * |s.2.2.1 - s.2.2.2| := by
  intro s p
  have hp : p = _ := conv_step_inverse x y z a e N h Bp B hxy hB hden
  have hB1 : s.2.2.1 = B := by simp only [s, nf_body]
  have hc : 0 < Real.cos s.2.2.2 := by
    simp only [s, nf_body]; exact Real.cos_arctan_pos _
  rw [hp]
  refine ⟨rfl, rfl, ?_⟩
  simp only []
  rw [hB1, sub_sub_cancel, abs_div, abs_of_pos hc, div_mul_cancel₀ _ hc.ne', abs_mul, abs_sub_comm B]
  exact mul_le_mul_of_nonneg_left Real.abs_sin_le_abs (abs_nonneg _)

/-- every state produced by the loop body carries an `arctan` as next latitude, so its cosine is positive -/
theorem conv_aux_body_cos_pos (x y z a e e2 : ℝ) (u : ℝ × ℝ × ℝ × ℝ) :
    0 < Real.cos (cart2geodetic_loop1_body x y z a e e2 u).2.2.2 := by
  obtain ⟨N, h, Bp, B⟩ := u
  rw [nf_body]
  exact Real.cos_arctan_pos _

/-- the start latitude `atan2 z ρ` with `ρ > 0` has positive cosine -/
theorem conv_aux_start_cos_pos (ρ z : ℝ) (hρ : 0 < ρ) : 0 < Real.cos (Complex.arg ⟨ρ, z⟩) := by
  have h : |Complex.arg ⟨ρ, z⟩| < Real.pi / 2 :=
    Complex.abs_arg_lt_pi_div_two_iff.mpr (Or.inl hρ)
  obtain ⟨h1, h2⟩ := abs_lt.mp h
  exact Real.cos_pos_of_mem_Ioo ⟨h1, h2⟩

/-- the whole function: if the loop exits, the returned (h, lat, lon) reproduce x, y exactly and z up to the
residual of the last step; the exit state passes the stop test -/
theorem conv_cart2geodetic_exit_inverse (x y z a e : ℝ) (he : e ≠ 0) (hxy : x ≠ 0 ∨ y ≠ 0)
    (hex : ∃ n : ℕ, ¬ cart2geodetic_loop1_cond_any x y z a e (e ^ 2)
      ((cart2geodetic_loop1_body x y z a e (e ^ 2))^[n]
        (0, 0, Complex.arg ⟨Real.sqrt (x * x + y * y), z⟩ + 1, Complex.arg ⟨Real.sqrt (x * x + y * y), z⟩)))
    (hden : let s := whileLoop (cart2geodetic_loop1_cond_any x y z a e (e ^ 2)) (cart2geodetic_loop1_body x y z a e (e ^ 2))
              (0, 0, Complex.arg ⟨Real.sqrt (x * x + y * y), z⟩ + 1, Complex.arg ⟨Real.sqrt (x * x + y * y), z⟩)
            1 - e ^ 2 * s.1 / (s.1 + s.2.1) ≠ 0) :
    let s := whileLoop (cart2geodetic_loop1_cond_any x y z a e (e ^ 2)) (cart2geodetic_loop1_body x y z a e (e ^ 2))
      (0, 0, Complex.arg ⟨Real.sqrt (x * x + y * y), z⟩ + 1, Complex.arg ⟨Real.sqrt (x * x + y * y), z⟩)
    let g := cart2geodetic x y z a e
    let p := geodetic2cart g.1 g.2.1 g.2.2 a e
    g = (s.2.1, s.2.2.1 * (180 / Real.pi), Complex.arg ⟨x, y⟩ * (180 / Real.pi))
    ∧ p.1 = x ∧ p.2.1 = y
    ∧ |z - p.2.2| * Real.cos s.2.2.2 ≤ |s.1 * (1 - e ^ 2) + s.2.1| * |s.2.2.1 - s.2.2.2|
    ∧ ¬ cart2geodetic_loop1_cond_any x y z a e (e ^ 2) s := by
  intro s g p
  have hg : g = (s.2.1, s.2.2.1 * (180 / Real.pi), Complex.arg ⟨x, y⟩ * (180 / Real.pi)) :=
    nf_cart2geodetic_general x y z a e he
  have hρ := conv_aux_rho_pos x y hxy
  obtain ⟨hstop, n, hsn, hbefore⟩ := conv_loop_exit _ _ _ hex
  -- the loop is entered, so at least one pass was made
  have hent := conv_loop_entered x y z a e (Complex.arg ⟨Real.sqrt (x * x + y * y), z⟩)
  simp only [cart2geodetic_loop1_entered] at hent
  obtain ⟨k, rfl⟩ : ∃ k, n = k + 1 := by
    cases n with
    | zero => exact absurd hent (by rw [Function.iterate_zero, id] at hsn; rw [← hsn]; exact hstop)
    | succ k => exact ⟨k, rfl⟩
  rw [Function.iterate_succ_apply'] at hsn
  -- the state before the last pass has a latitude with positive cosine
  have hcos : 0 < Real.cos ((cart2geodetic_loop1_body x y z a e (e ^ 2))^[k]
      (0, 0, Complex.arg ⟨Real.sqrt (x * x + y * y), z⟩ + 1,
        Complex.arg ⟨Real.sqrt (x * x + y * y), z⟩)).2.2.2 := by
    cases k with
    | zero => rw [Function.iterate_zero, id]; exact conv_aux_start_cos_pos _ z hρ
    | succ j => rw [Function.iterate_succ_apply']; exact conv_aux_body_cos_pos _ _ _ _ _ _ _
  generalize (cart2geodetic_loop1_body x y z a e (e ^ 2))^[k]
      (0, 0, Complex.arg ⟨Real.sqrt (x * x + y * y), z⟩ + 1,
        Complex.arg ⟨Real.sqrt (x * x + y * y), z⟩) = t at hsn hcos
  obtain ⟨N, h, Bp, B⟩ := t
  have hs : s = cart2geodetic_loop1_body x y z a e (e ^ 2) (N, h, Bp, B) := hsn
  simp only [] at hden hcos
  have hden' : 1 - e ^ 2 * s.1 / (s.1 + s.2.1) ≠ 0 := hden
  rw [hs] at hden'
  have hb := conv_step_residual_bound x y z a e N h Bp B hxy hcos hden'
  simp only [] at hb
  rw [← hs] at hb
  have hp : p = geodetic2cart s.2.1 (s.2.2.1 * (180 / Real.pi)) (Complex.arg ⟨x, y⟩ * (180 / Real.pi)) a e := by
    simp only [p, hg]
  rw [hp]
  exact ⟨hg, hb.1, hb.2.1, hb.2.2, hstop⟩
