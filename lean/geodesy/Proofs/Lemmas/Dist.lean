import GenReal.Geodesy
import Mathlib.Tactic
import Mathlib.Analysis.SpecialFunctions.Trigonometric.Inverse
import Mathlib.Analysis.InnerProductSpace.PiL2
import Mathlib.Geometry.Euclidean.Angle.Unoriented.Basic
import Mathlib.Geometry.Euclidean.Angle.Unoriented.TriangleInequality

/-!
# Distances on the sphere: `great_circle_distance`, `great_circle_distance_r`, `tunnel_distance`

All theorems only use the normal forms `dist_aux_nf_*` of the regenerated definitions.
-/

open TR

local notation "R⊕" => C.earth_radius

/-- degrees → radians factor -/
private noncomputable abbrev kk : ℝ := Real.pi / 180

/-- the haversine argument `a` (angles in radians) -/
noncomputable def dist_aux_hav (φ1 l1 φ2 l2 : ℝ) : ℝ :=
  Real.sin ((φ2 - φ1) / 2) ^ 2 + Real.cos φ1 * Real.cos φ2 * Real.sin ((l2 - l1) / 2) ^ 2

/-- squared chord between two points of the unit sphere (angles in radians) -/
noncomputable def dist_aux_chord2 (φ1 l1 φ2 l2 : ℝ) : ℝ :=
  (Real.cos φ2 * Real.cos l2 - Real.cos φ1 * Real.cos l1) ^ 2
    + (Real.cos φ2 * Real.sin l2 - Real.cos φ1 * Real.sin l1) ^ 2
    + (Real.sin φ2 - Real.sin φ1) ^ 2

/-! ## Normal forms -/

theorem dist_aux_nf_gcd (lat1 lon1 lat2 lon2 : ℝ) :
    great_circle_distance lat1 lon1 lat2 lon2
      = 2 * Real.arcsin (Real.sqrt (dist_aux_hav (lat1 * kk) (lon1 * kk) (lat2 * kk) (lon2 * kk)))
          * (180 / Real.pi) := by
  simp only [great_circle_distance, dist_aux_hav, kk]
  <;> ring_nf

theorem dist_aux_nf_gcd_r (lat1 lon1 lat2 lon2 r : ℝ) :
    great_circle_distance_r lat1 lon1 lat2 lon2 r
      = r * (2 * Real.arcsin (Real.sqrt (dist_aux_hav (lat1 * kk) (lon1 * kk) (lat2 * kk) (lon2 * kk)))) := by
  simp only [great_circle_distance_r, dist_aux_hav, kk]
  <;> ring_nf

theorem dist_aux_nf_cart (r lat lon : ℝ) :
    geocentric2cart r lat lon
      = (r * (Real.cos (lat * kk) * Real.cos (lon * kk)),
         r * (Real.cos (lat * kk) * Real.sin (lon * kk)),
         r * Real.sin (lat * kk)) := by
  simp only [geocentric2cart, kk]
  refine Prod.ext ?_ (Prod.ext ?_ ?_) <;> dsimp only <;> ring

theorem dist_aux_nf_tunnel (lat1 lon1 lat2 lon2 : ℝ) :
    tunnel_distance lat1 lon1 lat2 lon2
      = Real.sqrt (R⊕ ^ 2 * dist_aux_chord2 (lat1 * kk) (lon1 * kk) (lat2 * kk) (lon2 * kk)) := by
  simp only [tunnel_distance, dist_aux_nf_cart, dist_aux_chord2]
  congr 1; ring

private theorem hR : (0 : ℝ) < R⊕ := by unfold C.earth_radius; norm_num

/-! ## Elementary facts about the haversine argument -/

theorem dist_aux_hav_symm (φ1 l1 φ2 l2 : ℝ) : dist_aux_hav φ1 l1 φ2 l2 = dist_aux_hav φ2 l2 φ1 l1 := by
  unfold dist_aux_hav
  have e1 : (φ1 - φ2) / 2 = -((φ2 - φ1) / 2) := by ring
  have e2 : (l1 - l2) / 2 = -((l2 - l1) / 2) := by ring
  rw [e1, e2, Real.sin_neg, Real.sin_neg, neg_sq, neg_sq]; ring

theorem dist_aux_hav_self (φ l : ℝ) : dist_aux_hav φ l φ l = 0 := by
  unfold dist_aux_hav; simp

theorem dist_aux_hav_shift (φ1 l1 φ2 l2 d : ℝ) :
    dist_aux_hav φ1 (l1 + d) φ2 (l2 + d) = dist_aux_hav φ1 l1 φ2 l2 := by
  unfold dist_aux_hav
  have e : (l2 + d - (l1 + d)) = l2 - l1 := by ring
  rw [e]

/-! ## Group 1 -/

theorem dist_gcd_symm (lat1 lon1 lat2 lon2 : ℝ) :
    great_circle_distance lat1 lon1 lat2 lon2 = great_circle_distance lat2 lon2 lat1 lon1 := by
  rw [dist_aux_nf_gcd, dist_aux_nf_gcd, dist_aux_hav_symm]

theorem dist_gcd_r_symm (lat1 lon1 lat2 lon2 r : ℝ) :
    great_circle_distance_r lat1 lon1 lat2 lon2 r = great_circle_distance_r lat2 lon2 lat1 lon1 r := by
  rw [dist_aux_nf_gcd_r, dist_aux_nf_gcd_r, dist_aux_hav_symm]

theorem dist_gcd_self_zero (lat lon : ℝ) : great_circle_distance lat lon lat lon = 0 := by
  rw [dist_aux_nf_gcd, dist_aux_hav_self]; simp

theorem dist_gcd_r_self_zero (lat lon r : ℝ) : great_circle_distance_r lat lon lat lon r = 0 := by
  rw [dist_aux_nf_gcd_r, dist_aux_hav_self]; simp

theorem dist_gcd_lon_shift (lat1 lon1 lat2 lon2 d : ℝ) :
    great_circle_distance lat1 (lon1 + d) lat2 (lon2 + d) = great_circle_distance lat1 lon1 lat2 lon2 := by
  rw [dist_aux_nf_gcd, dist_aux_nf_gcd, add_mul, add_mul, dist_aux_hav_shift]

theorem dist_gcd_r_lon_shift (lat1 lon1 lat2 lon2 d r : ℝ) :
    great_circle_distance_r lat1 (lon1 + d) lat2 (lon2 + d) r = great_circle_distance_r lat1 lon1 lat2 lon2 r := by
  rw [dist_aux_nf_gcd_r, dist_aux_nf_gcd_r, add_mul, add_mul, dist_aux_hav_shift]

/-- degrees form = arc length on the unit sphere in degrees -/
theorem dist_gcd_deg_eq (lat1 lon1 lat2 lon2 : ℝ) :
    great_circle_distance lat1 lon1 lat2 lon2 = great_circle_distance_r lat1 lon1 lat2 lon2 1 * (180 / Real.pi) := by
  rw [dist_aux_nf_gcd, dist_aux_nf_gcd_r, one_mul]

/-! ## The key identity: squared chord on the unit sphere = 4 · haversine argument -/

theorem dist_aux_sin_sq_half (x : ℝ) : Real.sin (x / 2) ^ 2 = (1 - Real.cos x) / 2 := by
  have h := Real.cos_sq (x / 2)
  have e : 2 * (x / 2) = x := by ring
  rw [e] at h
  rw [Real.sin_sq, h]; ring

theorem dist_aux_chord2_eq (φ1 l1 φ2 l2 : ℝ) :
    dist_aux_chord2 φ1 l1 φ2 l2 = 4 * dist_aux_hav φ1 l1 φ2 l2 := by
  unfold dist_aux_chord2 dist_aux_hav
  rw [dist_aux_sin_sq_half, dist_aux_sin_sq_half, Real.cos_sub, Real.cos_sub]
  have h1 := Real.sin_sq_add_cos_sq φ1
  have h2 := Real.sin_sq_add_cos_sq φ2
  have h3 := Real.sin_sq_add_cos_sq l1
  have h4 := Real.sin_sq_add_cos_sq l2
  linear_combination Real.cos φ2 ^ 2 * h4 + Real.cos φ1 ^ 2 * h3 + h2 + h1

theorem dist_aux_chord2_nonneg (φ1 l1 φ2 l2 : ℝ) : 0 ≤ dist_aux_chord2 φ1 l1 φ2 l2 := by
  unfold dist_aux_chord2; positivity

theorem dist_aux_chord2_le (φ1 l1 φ2 l2 : ℝ) : dist_aux_chord2 φ1 l1 φ2 l2 ≤ 4 := by
  have h1 := Real.sin_sq_add_cos_sq φ1
  have h2 := Real.sin_sq_add_cos_sq φ2
  have h3 := Real.sin_sq_add_cos_sq l1
  have h4 := Real.sin_sq_add_cos_sq l2
  have key : dist_aux_chord2 φ1 l1 φ2 l2
      + ((Real.cos φ2 * Real.cos l2 + Real.cos φ1 * Real.cos l1) ^ 2
        + (Real.cos φ2 * Real.sin l2 + Real.cos φ1 * Real.sin l1) ^ 2
        + (Real.sin φ2 + Real.sin φ1) ^ 2) = 4 := by
    unfold dist_aux_chord2
    linear_combination 2 * Real.cos φ2 ^ 2 * h4 + 2 * Real.cos φ1 ^ 2 * h3 + 2 * h2 + 2 * h1
  have : 0 ≤ (Real.cos φ2 * Real.cos l2 + Real.cos φ1 * Real.cos l1) ^ 2
        + (Real.cos φ2 * Real.sin l2 + Real.cos φ1 * Real.sin l1) ^ 2
        + (Real.sin φ2 + Real.sin φ1) ^ 2 := by positivity
  linarith

/-- `0 ≤ a` for all real arguments -/
theorem dist_aux_hav_nonneg (φ1 l1 φ2 l2 : ℝ) : 0 ≤ dist_aux_hav φ1 l1 φ2 l2 := by
  have := dist_aux_chord2_nonneg φ1 l1 φ2 l2
  rw [dist_aux_chord2_eq] at this; linarith

/-- `a ≤ 1` for all real arguments -/
theorem dist_aux_hav_le_one (φ1 l1 φ2 l2 : ℝ) : dist_aux_hav φ1 l1 φ2 l2 ≤ 1 := by
  have := dist_aux_chord2_le φ1 l1 φ2 l2
  rw [dist_aux_chord2_eq] at this; linarith

theorem dist_aux_sqrt_hav_le_one (φ1 l1 φ2 l2 : ℝ) : Real.sqrt (dist_aux_hav φ1 l1 φ2 l2) ≤ 1 := by
  rw [Real.sqrt_le_one]
  exact dist_aux_hav_le_one φ1 l1 φ2 l2

/-- chord length = 2 R √a -/
theorem dist_aux_tunnel_eq (lat1 lon1 lat2 lon2 : ℝ) :
    tunnel_distance lat1 lon1 lat2 lon2
      = 2 * R⊕ * Real.sqrt (dist_aux_hav (lat1 * kk) (lon1 * kk) (lat2 * kk) (lon2 * kk)) := by
  rw [dist_aux_nf_tunnel, dist_aux_chord2_eq]
  have e : R⊕ ^ 2 * (4 * dist_aux_hav (lat1 * kk) (lon1 * kk) (lat2 * kk) (lon2 * kk))
      = (2 * R⊕) ^ 2 * dist_aux_hav (lat1 * kk) (lon1 * kk) (lat2 * kk) (lon2 * kk) := by ring
  rw [e, Real.sqrt_mul (sq_nonneg _), Real.sqrt_sq (by have := hR; positivity)]

/-! ## Group 2: tunnel distance -/

theorem dist_tunnel_symm (lat1 lon1 lat2 lon2 : ℝ) :
    tunnel_distance lat1 lon1 lat2 lon2 = tunnel_distance lat2 lon2 lat1 lon1 := by
  rw [dist_aux_tunnel_eq, dist_aux_tunnel_eq, dist_aux_hav_symm]

theorem dist_tunnel_self_zero (lat lon : ℝ) : tunnel_distance lat lon lat lon = 0 := by
  rw [dist_aux_tunnel_eq, dist_aux_hav_self]; simp

theorem dist_tunnel_lon_shift (lat1 lon1 lat2 lon2 d : ℝ) :
    tunnel_distance lat1 (lon1 + d) lat2 (lon2 + d) = tunnel_distance lat1 lon1 lat2 lon2 := by
  rw [dist_aux_tunnel_eq, dist_aux_tunnel_eq, add_mul, add_mul, dist_aux_hav_shift]

theorem dist_tunnel_bounds (lat1 lon1 lat2 lon2 : ℝ) :
    0 ≤ tunnel_distance lat1 lon1 lat2 lon2 ∧ tunnel_distance lat1 lon1 lat2 lon2 ≤ 2 * R⊕ := by
  have := hR
  rw [dist_aux_tunnel_eq]
  constructor
  · positivity
  · have := dist_aux_sqrt_hav_le_one (lat1 * kk) (lon1 * kk) (lat2 * kk) (lon2 * kk)
    nlinarith

/-! ## Group 3: bounds and chord/arc relation -/

theorem dist_gcd_r_bounds (lat1 lon1 lat2 lon2 r : ℝ) (hr : 0 ≤ r) :
    0 ≤ great_circle_distance_r lat1 lon1 lat2 lon2 r ∧ great_circle_distance_r lat1 lon1 lat2 lon2 r ≤ Real.pi * r := by
  rw [dist_aux_nf_gcd_r]
  have h0 : 0 ≤ Real.arcsin (Real.sqrt (dist_aux_hav (lat1 * kk) (lon1 * kk) (lat2 * kk) (lon2 * kk))) :=
    Real.arcsin_nonneg.mpr (Real.sqrt_nonneg _)
  have h1 := Real.arcsin_le_pi_div_two (Real.sqrt (dist_aux_hav (lat1 * kk) (lon1 * kk) (lat2 * kk) (lon2 * kk)))
  constructor
  · positivity
  · nlinarith

theorem dist_gcd_bounds (lat1 lon1 lat2 lon2 : ℝ) :
    0 ≤ great_circle_distance lat1 lon1 lat2 lon2 ∧ great_circle_distance lat1 lon1 lat2 lon2 ≤ 180 := by
  rw [dist_aux_nf_gcd]
  have h0 : 0 ≤ Real.arcsin (Real.sqrt (dist_aux_hav (lat1 * kk) (lon1 * kk) (lat2 * kk) (lon2 * kk))) :=
    Real.arcsin_nonneg.mpr (Real.sqrt_nonneg _)
  have h1 := Real.arcsin_le_pi_div_two (Real.sqrt (dist_aux_hav (lat1 * kk) (lon1 * kk) (lat2 * kk) (lon2 * kk)))
  have hpi := Real.pi_pos
  constructor
  · positivity
  · rw [mul_div_assoc', div_le_iff₀ hpi]; nlinarith

/-- chord = 2 R sin(arc / 2R) -/
theorem dist_chord_arc (lat1 lon1 lat2 lon2 : ℝ) :
    tunnel_distance lat1 lon1 lat2 lon2
      = 2 * R⊕ * Real.sin (great_circle_distance_r lat1 lon1 lat2 lon2 R⊕ / (2 * R⊕)) := by
  have hR0 : R⊕ ≠ 0 := ne_of_gt hR
  rw [dist_aux_tunnel_eq, dist_aux_nf_gcd_r]
  have e : R⊕ * (2 * Real.arcsin (Real.sqrt (dist_aux_hav (lat1 * kk) (lon1 * kk) (lat2 * kk) (lon2 * kk)))) / (2 * R⊕)
      = Real.arcsin (Real.sqrt (dist_aux_hav (lat1 * kk) (lon1 * kk) (lat2 * kk) (lon2 * kk))) := by
    field_simp
  rw [e, Real.sin_arcsin (by linarith [Real.sqrt_nonneg (dist_aux_hav (lat1 * kk) (lon1 * kk) (lat2 * kk) (lon2 * kk))])
    (dist_aux_sqrt_hav_le_one _ _ _ _)]

theorem dist_chord_arc_deg (lat1 lon1 lat2 lon2 : ℝ) :
    tunnel_distance lat1 lon1 lat2 lon2
      = 2 * R⊕ * Real.sin (great_circle_distance lat1 lon1 lat2 lon2 * (Real.pi / 180) / 2) := by
  have hpi := Real.pi_ne_zero
  rw [dist_aux_tunnel_eq, dist_aux_nf_gcd]
  have e : 2 * Real.arcsin (Real.sqrt (dist_aux_hav (lat1 * kk) (lon1 * kk) (lat2 * kk) (lon2 * kk)))
        * (180 / Real.pi) * (Real.pi / 180) / 2
      = Real.arcsin (Real.sqrt (dist_aux_hav (lat1 * kk) (lon1 * kk) (lat2 * kk) (lon2 * kk))) := by
    field_simp
  rw [e, Real.sin_arcsin (by linarith [Real.sqrt_nonneg (dist_aux_hav (lat1 * kk) (lon1 * kk) (lat2 * kk) (lon2 * kk))])
    (dist_aux_sqrt_hav_le_one _ _ _ _)]

/-! ## Unit vectors in Euclidean 3-space -/

/-- the point of the unit sphere with latitude `φ` and longitude `l` (radians) -/
noncomputable def dist_aux_vec (φ l : ℝ) : EuclideanSpace ℝ (Fin 3) :=
  !₂[Real.cos φ * Real.cos l, Real.cos φ * Real.sin l, Real.sin φ]

theorem dist_aux_norm_vec (φ l : ℝ) : ‖dist_aux_vec φ l‖ = 1 := by
  rw [EuclideanSpace.norm_eq]
  have : ∑ i : Fin 3, ‖dist_aux_vec φ l i‖ ^ 2 = 1 := by
    simp only [Fin.sum_univ_three, dist_aux_vec, Real.norm_eq_abs, sq_abs]
    simp
    have h1 := Real.sin_sq_add_cos_sq φ
    have h3 := Real.sin_sq_add_cos_sq l
    linear_combination Real.cos φ ^ 2 * h3 + h1
  rw [this, Real.sqrt_one]

theorem dist_aux_norm_sub (φ1 l1 φ2 l2 : ℝ) :
    ‖dist_aux_vec φ2 l2 - dist_aux_vec φ1 l1‖ = Real.sqrt (dist_aux_chord2 φ1 l1 φ2 l2) := by
  rw [EuclideanSpace.norm_eq]
  congr 1
  simp only [Fin.sum_univ_three, dist_aux_vec, Real.norm_eq_abs, sq_abs, dist_aux_chord2]
  simp

theorem dist_aux_tunnel_norm (lat1 lon1 lat2 lon2 : ℝ) :
    tunnel_distance lat1 lon1 lat2 lon2
      = R⊕ * ‖dist_aux_vec (lat2 * kk) (lon2 * kk) - dist_aux_vec (lat1 * kk) (lon1 * kk)‖ := by
  rw [dist_aux_nf_tunnel, dist_aux_norm_sub, Real.sqrt_mul (sq_nonneg _), Real.sqrt_sq (le_of_lt hR)]

theorem dist_tunnel_triangle (lat1 lon1 lat2 lon2 lat3 lon3 : ℝ) :
    tunnel_distance lat1 lon1 lat3 lon3 ≤ tunnel_distance lat1 lon1 lat2 lon2 + tunnel_distance lat2 lon2 lat3 lon3 := by
  rw [dist_aux_tunnel_norm, dist_aux_tunnel_norm, dist_aux_tunnel_norm, ← mul_add]
  refine mul_le_mul_of_nonneg_left ?_ (le_of_lt hR)
  have e : dist_aux_vec (lat3 * kk) (lon3 * kk) - dist_aux_vec (lat1 * kk) (lon1 * kk)
      = (dist_aux_vec (lat2 * kk) (lon2 * kk) - dist_aux_vec (lat1 * kk) (lon1 * kk))
        + (dist_aux_vec (lat3 * kk) (lon3 * kk) - dist_aux_vec (lat2 * kk) (lon2 * kk)) := by abel
  rw [e]; exact norm_add_le _ _

/-! ## Group 4: the haversine angle is the angle between the unit vectors -/

theorem dist_aux_norm_sub_unit {V : Type*} [NormedAddCommGroup V] [InnerProductSpace ℝ V] (x y : V)
    (hx : ‖x‖ = 1) (hy : ‖y‖ = 1) :
    ‖x - y‖ = 2 * Real.sin (InnerProductGeometry.angle x y / 2) := by
  have h0 := InnerProductGeometry.angle_nonneg x y
  have hpi := InnerProductGeometry.angle_le_pi x y
  have hs : 0 ≤ Real.sin (InnerProductGeometry.angle x y / 2) :=
    Real.sin_nonneg_of_nonneg_of_le_pi (by linarith) (by linarith)
  have hc := InnerProductGeometry.cos_angle x y
  rw [hx, hy, mul_one, div_one] at hc
  have h2 : ‖x - y‖ ^ 2 = (2 * Real.sin (InnerProductGeometry.angle x y / 2)) ^ 2 := by
    rw [norm_sub_sq_real, hx, hy, mul_pow, dist_aux_sin_sq_half, hc]; ring
  exact (pow_left_inj₀ (norm_nonneg _) (by positivity) two_ne_zero).mp h2

theorem dist_aux_arc_eq_angle (φ1 l1 φ2 l2 : ℝ) :
    2 * Real.arcsin (Real.sqrt (dist_aux_hav φ1 l1 φ2 l2))
      = InnerProductGeometry.angle (dist_aux_vec φ1 l1) (dist_aux_vec φ2 l2) := by
  have h0 := InnerProductGeometry.angle_nonneg (dist_aux_vec φ1 l1) (dist_aux_vec φ2 l2)
  have hpi := InnerProductGeometry.angle_le_pi (dist_aux_vec φ1 l1) (dist_aux_vec φ2 l2)
  have h1 : Real.sqrt (dist_aux_hav φ1 l1 φ2 l2)
      = Real.sin (InnerProductGeometry.angle (dist_aux_vec φ1 l1) (dist_aux_vec φ2 l2) / 2) := by
    have hn := dist_aux_norm_sub_unit (dist_aux_vec φ1 l1) (dist_aux_vec φ2 l2)
      (dist_aux_norm_vec _ _) (dist_aux_norm_vec _ _)
    rw [norm_sub_rev, dist_aux_norm_sub, dist_aux_chord2_eq] at hn
    have e : (4 : ℝ) * dist_aux_hav φ1 l1 φ2 l2 = 2 ^ 2 * dist_aux_hav φ1 l1 φ2 l2 := by ring
    rw [e, Real.sqrt_mul (sq_nonneg _), Real.sqrt_sq (by norm_num)] at hn
    linarith
  rw [h1, Real.arcsin_sin (by linarith [Real.pi_pos]) (by linarith)]; ring

theorem dist_gcd_r_triangle (lat1 lon1 lat2 lon2 lat3 lon3 r : ℝ) (hr : 0 ≤ r) :
    great_circle_distance_r lat1 lon1 lat3 lon3 r
      ≤ great_circle_distance_r lat1 lon1 lat2 lon2 r + great_circle_distance_r lat2 lon2 lat3 lon3 r := by
  rw [dist_aux_nf_gcd_r, dist_aux_nf_gcd_r, dist_aux_nf_gcd_r, dist_aux_arc_eq_angle, dist_aux_arc_eq_angle,
    dist_aux_arc_eq_angle, ← mul_add]
  exact mul_le_mul_of_nonneg_left (InnerProductGeometry.angle_le_angle_add_angle _ _ _) hr

theorem dist_gcd_triangle (lat1 lon1 lat2 lon2 lat3 lon3 : ℝ) :
    great_circle_distance lat1 lon1 lat3 lon3
      ≤ great_circle_distance lat1 lon1 lat2 lon2 + great_circle_distance lat2 lon2 lat3 lon3 := by
  rw [dist_aux_nf_gcd, dist_aux_nf_gcd, dist_aux_nf_gcd, dist_aux_arc_eq_angle, dist_aux_arc_eq_angle,
    dist_aux_arc_eq_angle, ← add_mul]
  exact mul_le_mul_of_nonneg_right (InnerProductGeometry.angle_le_angle_add_angle _ _ _)
    (by have := Real.pi_pos; positivity)

/-! ## Group 5 -/

/-- the distance vanishes only for coincident points (same point of the sphere) -/
theorem dist_gcd_eq_zero_iff (lat1 lon1 lat2 lon2 : ℝ) :
    great_circle_distance lat1 lon1 lat2 lon2 = 0 ↔ geocentric2cart 1 lat1 lon1 = geocentric2cart 1 lat2 lon2 := by
  have hpi := Real.pi_pos
  have hn := dist_aux_hav_nonneg (lat1 * kk) (lon1 * kk) (lat2 * kk) (lon2 * kk)
  have hc := dist_aux_chord2_eq (lat1 * kk) (lon1 * kk) (lat2 * kk) (lon2 * kk)
  rw [dist_aux_nf_gcd, dist_aux_nf_cart, dist_aux_nf_cart]
  simp only [one_mul, Prod.mk.injEq]
  have step : 2 * Real.arcsin (Real.sqrt (dist_aux_hav (lat1 * kk) (lon1 * kk) (lat2 * kk) (lon2 * kk)))
      * (180 / Real.pi) = 0 ↔ dist_aux_chord2 (lat1 * kk) (lon1 * kk) (lat2 * kk) (lon2 * kk) = 0 := by
    have h180 : (180 / Real.pi) ≠ 0 := by positivity
    rw [mul_eq_zero, mul_eq_zero, Real.arcsin_eq_zero_iff, Real.sqrt_eq_zero hn, hc]
    constructor
    · rintro ((h | h) | h)
      · norm_num at h
      · rw [h]; ring
      · exact absurd h h180
    · intro h; left; right; linarith
  rw [step]
  unfold dist_aux_chord2
  constructor
  · intro h
    have a1 := sq_nonneg (Real.cos (lat2 * kk) * Real.cos (lon2 * kk) - Real.cos (lat1 * kk) * Real.cos (lon1 * kk))
    have a2 := sq_nonneg (Real.cos (lat2 * kk) * Real.sin (lon2 * kk) - Real.cos (lat1 * kk) * Real.sin (lon1 * kk))
    have a3 := sq_nonneg (Real.sin (lat2 * kk) - Real.sin (lat1 * kk))
    refine ⟨?_, ?_, ?_⟩
    · have : (Real.cos (lat2 * kk) * Real.cos (lon2 * kk) - Real.cos (lat1 * kk) * Real.cos (lon1 * kk)) ^ 2 = 0 := by
        linarith
      have := pow_eq_zero_iff (two_ne_zero) |>.mp this
      linarith
    · have : (Real.cos (lat2 * kk) * Real.sin (lon2 * kk) - Real.cos (lat1 * kk) * Real.sin (lon1 * kk)) ^ 2 = 0 := by
        linarith
      have := pow_eq_zero_iff (two_ne_zero) |>.mp this
      linarith
    · have : (Real.sin (lat2 * kk) - Real.sin (lat1 * kk)) ^ 2 = 0 := by
        linarith
      have := pow_eq_zero_iff (two_ne_zero) |>.mp this
      linarith
  · rintro ⟨h1, h2, h3⟩
    rw [h1, h2, h3]; ring
