import GenReal.Geodesy
import Mathlib.Tactic
import Mathlib.Analysis.SpecialFunctions.Trigonometric.Complex
import Mathlib.Analysis.SpecialFunctions.Complex.Arg

open TR

/-- normal form of `geocentricposlos2cart` away from the poles -/
private theorem nf_poslos2cart (r lat lon za aa : ℝ) (h : ¬ (|lat| > 90 - 1 / 100000000)) :
    TR.geocentricposlos2cart r lat lon za aa =
      (r * Real.cos (lat * (Real.pi / 180)) * Real.cos (lon * (Real.pi / 180)),
       r * Real.cos (lat * (Real.pi / 180)) * Real.sin (lon * (Real.pi / 180)),
       r * Real.sin (lat * (Real.pi / 180)),
       Real.cos (lat * (Real.pi / 180)) * Real.cos (lon * (Real.pi / 180)) * Real.cos (za * (Real.pi / 180))
         - Real.sin (lat * (Real.pi / 180)) * Real.cos (lon * (Real.pi / 180))
             * (Real.sin (za * (Real.pi / 180)) * Real.cos (aa * (Real.pi / 180)))
         - Real.cos (lat * (Real.pi / 180)) * Real.sin (lon * (Real.pi / 180))
             * (Real.sin (za * (Real.pi / 180)) * Real.sin (aa * (Real.pi / 180)) / Real.cos (lat * (Real.pi / 180))),
       Real.cos (lat * (Real.pi / 180)) * Real.sin (lon * (Real.pi / 180)) * Real.cos (za * (Real.pi / 180))
         - Real.sin (lat * (Real.pi / 180)) * Real.sin (lon * (Real.pi / 180))
             * (Real.sin (za * (Real.pi / 180)) * Real.cos (aa * (Real.pi / 180)))
         + Real.cos (lat * (Real.pi / 180)) * Real.cos (lon * (Real.pi / 180))
             * (Real.sin (za * (Real.pi / 180)) * Real.sin (aa * (Real.pi / 180)) / Real.cos (lat * (Real.pi / 180))),
       Real.sin (lat * (Real.pi / 180)) * Real.cos (za * (Real.pi / 180))
         + Real.cos (lat * (Real.pi / 180))
             * (Real.sin (za * (Real.pi / 180)) * Real.cos (aa * (Real.pi / 180)))) := by
  have e : ∀ t : ℝ, 1 * (Real.pi / 180) * t = t * (Real.pi / 180) := fun t => by ring
  simp only [TR.geocentricposlos2cart, if_neg h, if_pos h, e]
  <;> ring_nf

private theorem nf_geocentric2cart (r lat lon : ℝ) :
    TR.geocentric2cart r lat lon =
      (r * Real.cos (lat * (Real.pi / 180)) * Real.cos (lon * (Real.pi / 180)),
       r * Real.cos (lat * (Real.pi / 180)) * Real.sin (lon * (Real.pi / 180)),
       r * Real.sin (lat * (Real.pi / 180))) := by
  simp only [TR.geocentric2cart]
  <;> ring_nf

private theorem nf_cartposlos_pos (x y z dx dy dz r lat lon : ℝ)
    (h : TR.cart2geocentric x y z = (r, lat, lon)) :
    (TR.cartposlos2geocentric x y z dx dy dz).1 = r ∧
    (TR.cartposlos2geocentric x y z dx dy dz).2.1 = lat ∧
    (TR.cartposlos2geocentric x y z dx dy dz).2.2.1 = lon ∧
    (TR.cartposlos2geocentric x y z dx dy dz).2.2.2.1 =
      Real.arccos (min (max
        (Real.cos (lat * (Real.pi / 180)) * Real.cos (lon * (Real.pi / 180))
            * (dx / Real.sqrt (dx ^ 2 + dy ^ 2 + dz ^ 2))
          + Real.sin (lat * (Real.pi / 180)) * (dz / Real.sqrt (dx ^ 2 + dy ^ 2 + dz ^ 2))
          + Real.cos (lat * (Real.pi / 180)) * Real.sin (lon * (Real.pi / 180))
            * (dy / Real.sqrt (dx ^ 2 + dy ^ 2 + dz ^ 2))) (-1)) 1) * (180 / Real.pi) := by
  simp only [TR.cartposlos2geocentric, h]
  exact ⟨trivial, trivial, trivial, trivial⟩

/-- normal form of the azimuth of `cartposlos2geocentric` for a unit direction, away from the poles
and from zenith/nadir -/
private theorem nf_cartposlos_aa (x y z dx dy dz r lat lon za : ℝ)
    (h : TR.cart2geocentric x y z = (r, lat, lon))
    (hn : Real.sqrt (dx ^ 2 + dy ^ 2 + dz ^ 2) = 1)
    (hza : (TR.cartposlos2geocentric x y z dx dy dz).2.2.2.1 = za)
    (hnoz : ¬ (za < 1 / 1000000 ∨ za > 180 - 1 / 1000000))
    (hpol : ¬ (|lat| > 90 - 1 / 100000000)) :
    (TR.cartposlos2geocentric x y z dx dy dz).2.2.2.2 =
      if (-Real.sin (lon * (Real.pi / 180))) / Real.cos (lat * (Real.pi / 180)) / r * dx
          + Real.cos (lon * (Real.pi / 180)) / Real.cos (lat * (Real.pi / 180)) / r * dy < 0 then
        Real.arccos (r * ((-Real.sin (lat * (Real.pi / 180))) * Real.cos (lon * (Real.pi / 180)) / r * dx
          + Real.cos (lat * (Real.pi / 180)) / r * dz
          - Real.sin (lat * (Real.pi / 180)) * Real.sin (lon * (Real.pi / 180)) / r * dy)
          / Real.sin (za * (Real.pi / 180))) * (180 / Real.pi) * (-1)
      else
        Real.arccos (r * ((-Real.sin (lat * (Real.pi / 180))) * Real.cos (lon * (Real.pi / 180)) / r * dx
          + Real.cos (lat * (Real.pi / 180)) / r * dz
          - Real.sin (lat * (Real.pi / 180)) * Real.sin (lon * (Real.pi / 180)) / r * dy)
          / Real.sin (za * (Real.pi / 180))) * (180 / Real.pi) := by
  simp only [TR.cartposlos2geocentric, h, hn, div_one] at hza ⊢
  rw [hza]
  simp only [hnoz, hpol, not_false_eq_true, and_self, and_false, if_true, if_false,
    false_or, not_true_eq_false, false_and, true_and]

private theorem los_norm (cφ sφ cl sl cz sz ca sa : ℝ) (hφ : sφ ^ 2 + cφ ^ 2 = 1)
    (hl : sl ^ 2 + cl ^ 2 = 1) (hz : sz ^ 2 + cz ^ 2 = 1) (ha : sa ^ 2 + ca ^ 2 = 1) :
    (cφ * cl * cz - sφ * cl * (sz * ca) - sl * (sz * sa)) ^ 2
      + (cφ * sl * cz - sφ * sl * (sz * ca) + cl * (sz * sa)) ^ 2
      + (sφ * cz + cφ * (sz * ca)) ^ 2 = 1 := by
  linear_combination ((cφ * cz - sφ * sz * ca) ^ 2 + (sz * sa) ^ 2) * hl
    + (cz ^ 2 + sz ^ 2 * ca ^ 2) * hφ + sz ^ 2 * ha + hz

private theorem los_radial (cφ sφ cl sl cz sz ca sa : ℝ) (hφ : sφ ^ 2 + cφ ^ 2 = 1)
    (hl : sl ^ 2 + cl ^ 2 = 1) :
    cφ * cl * (cφ * cl * cz - sφ * cl * (sz * ca) - sl * (sz * sa))
      + sφ * (sφ * cz + cφ * (sz * ca))
      + cφ * sl * (cφ * sl * cz - sφ * sl * (sz * ca) + cl * (sz * sa)) = cz := by
  linear_combination (cφ ^ 2 * cz - cφ * sφ * sz * ca) * hl + cz * hφ

private theorem los_cos_lat_pos (lat : ℝ) (hlat : |lat| ≤ 90 - 1 / 100000000) :
    0 < Real.cos (lat * (Real.pi / 180)) := by
  have hpi := Real.pi_pos
  obtain ⟨h1, h2⟩ := abs_le.mp hlat
  apply Real.cos_pos_of_mem_Ioo
  constructor
  · have : -(Real.pi / 2) = (-90) * (Real.pi / 180) := by ring
    rw [this]
    have : (0:ℝ) < Real.pi / 180 := by positivity
    nlinarith
  · have : (Real.pi / 2) = (90) * (Real.pi / 180) := by ring
    rw [this]
    have : (0:ℝ) < Real.pi / 180 := by positivity
    nlinarith

private theorem los_arccos_deg (za : ℝ) (hza : 0 ≤ za ∧ za ≤ 180) :
    Real.arccos (Real.cos (za * (Real.pi / 180))) * (180 / Real.pi) = za := by
  have hpi := Real.pi_pos
  have h0 : 0 ≤ za * (Real.pi / 180) := by have := hza.1; positivity
  have h1 : za * (Real.pi / 180) ≤ Real.pi := by
    have : (0:ℝ) < Real.pi / 180 := by positivity
    nlinarith [hza.2]
  rw [Real.arccos_cos h0 h1]
  field_simp

theorem los_zenith (r lat lon za aa : ℝ) (hr : 0 < r) (hlat : |lat| ≤ 90 - 1 / 100000000)
    (hza : 0 ≤ za ∧ za ≤ 180)
    (hrt : let p := TR.geocentric2cart r lat lon
           TR.cart2geocentric p.1 p.2.1 p.2.2 = (r, lat, lon)) :
    let p := TR.geocentricposlos2cart r lat lon za aa
    let q := TR.cartposlos2geocentric p.1 p.2.1 p.2.2.1 p.2.2.2.1 p.2.2.2.2.1 p.2.2.2.2.2
    q.1 = r ∧ q.2.1 = lat ∧ q.2.2.1 = lon ∧ q.2.2.2.1 = za := by
  have _ := hr
  have hpole : ¬ (|lat| > 90 - 1 / 100000000) := not_lt.mpr hlat
  have hc := los_cos_lat_pos lat hlat
  rw [nf_geocentric2cart] at hrt
  simp only [] at hrt
  intro p q
  have hp : p = _ := nf_poslos2cart r lat lon za aa hpole
  have hq := nf_cartposlos_pos p.1 p.2.1 p.2.2.1 p.2.2.2.1 p.2.2.2.2.1 p.2.2.2.2.2 r lat lon
    (by rw [hp]; exact hrt)
  refine ⟨hq.1, hq.2.1, hq.2.2.1, ?_⟩
  show (TR.cartposlos2geocentric p.1 p.2.1 p.2.2.1 p.2.2.2.1 p.2.2.2.2.1 p.2.2.2.2.2).2.2.2.1 = za
  rw [hq.2.2.2, hp]
  simp only []
  set cφ := Real.cos (lat * (Real.pi / 180))
  set sφ := Real.sin (lat * (Real.pi / 180))
  set cl := Real.cos (lon * (Real.pi / 180))
  set sl := Real.sin (lon * (Real.pi / 180))
  set cz := Real.cos (za * (Real.pi / 180)) with hcz
  set sz := Real.sin (za * (Real.pi / 180))
  set ca := Real.cos (aa * (Real.pi / 180))
  set sa := Real.sin (aa * (Real.pi / 180))
  have e1 : cφ * sl * (sz * sa / cφ) = sl * (sz * sa) := by field_simp
  have e2 : cφ * cl * (sz * sa / cφ) = cl * (sz * sa) := by field_simp
  rw [e1, e2, los_norm cφ sφ cl sl cz sz ca sa (Real.sin_sq_add_cos_sq _) (Real.sin_sq_add_cos_sq _)
    (Real.sin_sq_add_cos_sq _) (Real.sin_sq_add_cos_sq _), Real.sqrt_one]
  simp only [div_one]
  rw [los_radial cφ sφ cl sl cz sz ca sa (Real.sin_sq_add_cos_sq _) (Real.sin_sq_add_cos_sq _),
    max_eq_left (Real.neg_one_le_cos _), min_eq_left (Real.cos_le_one _)]
  exact los_arccos_deg za hza

private theorem los_dlat (cφ sφ cl sl cz sz ca sa r : ℝ) (hr : r ≠ 0) (hφ : sφ ^ 2 + cφ ^ 2 = 1)
    (hl : sl ^ 2 + cl ^ 2 = 1) :
    r * ((-sφ) * cl / r * (cφ * cl * cz - sφ * cl * (sz * ca) - sl * (sz * sa))
      + cφ / r * (sφ * cz + cφ * (sz * ca))
      - sφ * sl / r * (cφ * sl * cz - sφ * sl * (sz * ca) + cl * (sz * sa))) = sz * ca := by
  field_simp
  linear_combination (-(sφ * cφ * cz) + sφ ^ 2 * sz * ca) * hl + (sz * ca) * hφ

private theorem los_dlon (cφ sφ cl sl cz sz ca sa r : ℝ) (hr : r ≠ 0) (hc : cφ ≠ 0)
    (hl : sl ^ 2 + cl ^ 2 = 1) :
    (-sl) / cφ / r * (cφ * cl * cz - sφ * cl * (sz * ca) - sl * (sz * sa))
      + cl / cφ / r * (cφ * sl * cz - sφ * sl * (sz * ca) + cl * (sz * sa)) = sz * sa / (cφ * r) := by
  field_simp
  linear_combination (sz * sa) * hl

private theorem los_arccos_deg_neg (aa : ℝ) (haa : -180 < aa ∧ aa ≤ 0) :
    Real.arccos (Real.cos (aa * (Real.pi / 180))) * (180 / Real.pi) * (-1) = aa := by
  have h := los_arccos_deg (-aa) ⟨by linarith [haa.2], by linarith [haa.1]⟩
  rw [neg_mul, Real.cos_neg] at h
  linarith

theorem los_azimuth (r lat lon za aa : ℝ) (hr : 0 < r) (hlat : |lat| ≤ 90 - 1 / 100000000)
    (hza : 1 / 1000000 < za ∧ za < 180 - 1 / 1000000) (haa : -180 < aa ∧ aa ≤ 180)
    (hrt : let p := TR.geocentric2cart r lat lon
           TR.cart2geocentric p.1 p.2.1 p.2.2 = (r, lat, lon)) :
    let p := TR.geocentricposlos2cart r lat lon za aa
    let q := TR.cartposlos2geocentric p.1 p.2.1 p.2.2.1 p.2.2.2.1 p.2.2.2.2.1 p.2.2.2.2.2
    q.2.2.2.2 = aa := by
  have hpi := Real.pi_pos
  have hd : (0:ℝ) < Real.pi / 180 := by positivity
  have hza' : 0 ≤ za ∧ za ≤ 180 := ⟨by linarith [hza.1], by linarith [hza.2]⟩
  have hz4 := (los_zenith r lat lon za aa hr hlat hza' hrt).2.2.2
  have hpole : ¬ (|lat| > 90 - 1 / 100000000) := not_lt.mpr hlat
  have hc := los_cos_lat_pos lat hlat
  rw [nf_geocentric2cart] at hrt
  simp only [] at hrt hz4
  intro p q
  have hp : p = _ := nf_poslos2cart r lat lon za aa hpole
  show (TR.cartposlos2geocentric p.1 p.2.1 p.2.2.1 p.2.2.2.1 p.2.2.2.2.1 p.2.2.2.2.2).2.2.2.2 = aa
  have hsz : 0 < Real.sin (za * (Real.pi / 180)) := by
    apply Real.sin_pos_of_pos_of_lt_pi
    · nlinarith [hza.1]
    · nlinarith [hza.2]
  have e1 : ∀ c s t : ℝ, c ≠ 0 → c * s * (t / c) = s * t := by
    intro c s t hc; field_simp
  have hn : Real.sqrt (p.2.2.2.1 ^ 2 + p.2.2.2.2.1 ^ 2 + p.2.2.2.2.2 ^ 2) = 1 := by
    rw [hp]; simp only []
    rw [e1 _ _ _ hc.ne', e1 _ _ _ hc.ne', los_norm _ _ _ _ _ _ _ _ (Real.sin_sq_add_cos_sq _)
      (Real.sin_sq_add_cos_sq _) (Real.sin_sq_add_cos_sq _) (Real.sin_sq_add_cos_sq _),
      Real.sqrt_one]
  rw [nf_cartposlos_aa p.1 p.2.1 p.2.2.1 p.2.2.2.1 p.2.2.2.2.1 p.2.2.2.2.2 r lat lon za
    (by rw [hp]; exact hrt) hn hz4 (by rintro (h | h) <;> linarith [hza.1, hza.2]) hpole]
  rw [hp]; simp only []
  rw [e1 _ _ _ hc.ne', e1 _ _ _ hc.ne',
    los_dlat _ _ _ _ _ _ _ _ r hr.ne' (Real.sin_sq_add_cos_sq _) (Real.sin_sq_add_cos_sq _),
    los_dlon _ _ _ _ _ _ _ _ r hr.ne' hc.ne' (Real.sin_sq_add_cos_sq _),
    mul_div_cancel_left₀ _ hsz.ne']
  have hcr : 0 < Real.cos (lat * (Real.pi / 180)) * r := mul_pos hc hr
  by_cases h0 : 0 ≤ aa
  · have hsa : 0 ≤ Real.sin (aa * (Real.pi / 180)) := by
      apply Real.sin_nonneg_of_nonneg_of_le_pi
      · positivity
      · nlinarith [haa.2]
    rw [if_neg (not_lt.mpr (div_nonneg (mul_nonneg hsz.le hsa) hcr.le))]
    exact los_arccos_deg aa ⟨h0, haa.2⟩
  · have h0 : aa < 0 := not_le.mp h0
    have hsa : Real.sin (aa * (Real.pi / 180)) < 0 := by
      apply Real.sin_neg_of_neg_of_neg_pi_lt
      · nlinarith
      · nlinarith [haa.1]
    rw [if_pos (div_neg_of_neg_of_pos (mul_neg_of_pos_of_neg hsz hsa) hcr)]
    exact los_arccos_deg_neg aa ⟨haa.1, h0.le⟩
