import GenReal.Geodesy
import Proofs.Lemmas.Dist
import Proofs.Lemmas.Conv
import Proofs.Lemmas.Los
import Proofs.Audit
import Mathlib.Tactic

/-!
# C07 — geodesy: coordinate conversions invert each other, distances are true metrics

Theorems about `TR.*`, the real-number reading of `typhon/geodesy.py` that `tools/py2lean`
regenerates from /repo on every run (`GenReal/Geodesy.lean`).  Angles are in degrees as in the
Python code; `np.arctan2 y x` is `Complex.arg ⟨x, y⟩`; an ellipsoid `(a, e)` is passed as two
scalars; the `while` loop of `cart2geodetic` is `whileLoop <stop test> <iteration map> <start>`.
The proofs live in `Proofs/Lemmas/{Dist,Conv,Los}.lean` and use only *normal forms* of the
generated definitions, so harmless rewrites of the Python source do not disturb them.

The convergence of the `cart2geodetic` iteration (contraction, termination, error at exit, 1 cm / 1e-7°
round trip over the reals) is proved in `Proofs/Props/C07Conv.lean`.  What is NOT proved (validated numerically by
the harness only, see notes/C07.md): floating-point accuracy.
-/

open TR

local notation "R⊕" => C.earth_radius

/-! ## Distances: `great_circle_distance` (degrees / arc length with `r`) and `tunnel_distance` -/

/-- symmetry (central angle in degrees, and arc length for a given radius) -/
theorem C07_gcd_symm (lat1 lon1 lat2 lon2 r : ℝ) :
    great_circle_distance lat1 lon1 lat2 lon2 = great_circle_distance lat2 lon2 lat1 lon1
    ∧ great_circle_distance_r lat1 lon1 lat2 lon2 r = great_circle_distance_r lat2 lon2 lat1 lon1 r :=
  ⟨dist_gcd_symm _ _ _ _, dist_gcd_r_symm _ _ _ _ _⟩

/-- zero for coincident points -/
theorem C07_gcd_self_zero (lat lon r : ℝ) :
    great_circle_distance lat lon lat lon = 0 ∧ great_circle_distance_r lat lon lat lon r = 0 :=
  ⟨dist_gcd_self_zero _ _, dist_gcd_r_self_zero _ _ _⟩

/-- … and only for coincident points (same point of the sphere) -/
theorem C07_gcd_eq_zero_iff (lat1 lon1 lat2 lon2 : ℝ) :
    great_circle_distance lat1 lon1 lat2 lon2 = 0 ↔ geocentric2cart 1 lat1 lon1 = geocentric2cart 1 lat2 lon2 :=
  dist_gcd_eq_zero_iff _ _ _ _

/-- invariance under a common shift in longitude -/
theorem C07_gcd_lon_shift (lat1 lon1 lat2 lon2 d r : ℝ) :
    great_circle_distance lat1 (lon1 + d) lat2 (lon2 + d) = great_circle_distance lat1 lon1 lat2 lon2
    ∧ great_circle_distance_r lat1 (lon1 + d) lat2 (lon2 + d) r = great_circle_distance_r lat1 lon1 lat2 lon2 r :=
  ⟨dist_gcd_lon_shift _ _ _ _ _, dist_gcd_r_lon_shift _ _ _ _ _ _⟩

/-- bounded by half the circumference: 180° resp. `π r` -/
theorem C07_gcd_le_half_circumference (lat1 lon1 lat2 lon2 r : ℝ) (hr : 0 ≤ r) :
    (0 ≤ great_circle_distance lat1 lon1 lat2 lon2 ∧ great_circle_distance lat1 lon1 lat2 lon2 ≤ 180)
    ∧ (0 ≤ great_circle_distance_r lat1 lon1 lat2 lon2 r ∧ great_circle_distance_r lat1 lon1 lat2 lon2 r ≤ Real.pi * r) :=
  ⟨dist_gcd_bounds _ _ _ _, dist_gcd_r_bounds _ _ _ _ _ hr⟩

/-- the two return conventions agree: degrees = arc on the unit sphere · 180/π -/
theorem C07_gcd_deg_eq (lat1 lon1 lat2 lon2 : ℝ) :
    great_circle_distance lat1 lon1 lat2 lon2 = great_circle_distance_r lat1 lon1 lat2 lon2 1 * (180 / Real.pi) :=
  dist_gcd_deg_eq _ _ _ _

/-- triangle inequality of the great-circle distance (via the angle between unit vectors) -/
theorem C07_gcd_triangle (lat1 lon1 lat2 lon2 lat3 lon3 r : ℝ) (hr : 0 ≤ r) :
    great_circle_distance lat1 lon1 lat3 lon3
        ≤ great_circle_distance lat1 lon1 lat2 lon2 + great_circle_distance lat2 lon2 lat3 lon3
    ∧ great_circle_distance_r lat1 lon1 lat3 lon3 r
        ≤ great_circle_distance_r lat1 lon1 lat2 lon2 r + great_circle_distance_r lat2 lon2 lat3 lon3 r :=
  ⟨dist_gcd_triangle _ _ _ _ _ _, dist_gcd_r_triangle _ _ _ _ _ _ _ hr⟩

theorem C07_tunnel_symm (lat1 lon1 lat2 lon2 : ℝ) :
    tunnel_distance lat1 lon1 lat2 lon2 = tunnel_distance lat2 lon2 lat1 lon1 := dist_tunnel_symm _ _ _ _

theorem C07_tunnel_self_zero (lat lon : ℝ) : tunnel_distance lat lon lat lon = 0 := dist_tunnel_self_zero _ _

theorem C07_tunnel_lon_shift (lat1 lon1 lat2 lon2 d : ℝ) :
    tunnel_distance lat1 (lon1 + d) lat2 (lon2 + d) = tunnel_distance lat1 lon1 lat2 lon2 :=
  dist_tunnel_lon_shift _ _ _ _ _

/-- bounded by the diameter -/
theorem C07_tunnel_le_diameter (lat1 lon1 lat2 lon2 : ℝ) :
    0 ≤ tunnel_distance lat1 lon1 lat2 lon2 ∧ tunnel_distance lat1 lon1 lat2 lon2 ≤ 2 * R⊕ := dist_tunnel_bounds _ _ _ _

/-- triangle inequality of the chord (Euclidean norm) -/
theorem C07_tunnel_triangle (lat1 lon1 lat2 lon2 lat3 lon3 : ℝ) :
    tunnel_distance lat1 lon1 lat3 lon3 ≤ tunnel_distance lat1 lon1 lat2 lon2 + tunnel_distance lat2 lon2 lat3 lon3 :=
  dist_tunnel_triangle _ _ _ _ _ _

/-- chord = 2 R sin(arc / 2R): the two distance functions are mutually consistent -/
theorem C07_chord_arc (lat1 lon1 lat2 lon2 : ℝ) :
    tunnel_distance lat1 lon1 lat2 lon2
        = 2 * R⊕ * Real.sin (great_circle_distance_r lat1 lon1 lat2 lon2 R⊕ / (2 * R⊕))
    ∧ tunnel_distance lat1 lon1 lat2 lon2
        = 2 * R⊕ * Real.sin (great_circle_distance lat1 lon1 lat2 lon2 * (Real.pi / 180) / 2) :=
  ⟨dist_chord_arc _ _ _ _, dist_chord_arc_deg _ _ _ _⟩

/-! ## Spherical ↔ cartesian -/

/-- `cart2geocentric ∘ geocentric2cart = id` for r > 0, |lat| < 90°, lon ∈ (−180°, 180°] -/
theorem C07_geocentric_roundtrip (r lat lon : ℝ) (hr : 0 < r) (hlat : |lat| < 90)
    (hlon : -180 < lon ∧ lon ≤ 180) :
    let p := geocentric2cart r lat lon
    cart2geocentric p.1 p.2.1 p.2.2 = (r, lat, lon) := conv_geocentric_roundtrip r lat lon hr hlat hlon

/-- any longitude: the recovered one is the representative of `lon` modulo 360° in (−180°, 180°] -/
theorem C07_geocentric_roundtrip_mod (r lat lon : ℝ) (hr : 0 < r) (hlat : |lat| < 90) :
    let p := geocentric2cart r lat lon
    let q := cart2geocentric p.1 p.2.1 p.2.2
    q.1 = r ∧ q.2.1 = lat ∧ -180 < q.2.2 ∧ q.2.2 ≤ 180 ∧ ∃ k : ℤ, q.2.2 = lon + 360 * k :=
  conv_geocentric_roundtrip_mod r lat lon hr hlat

/-- `geocentric2cart ∘ cart2geocentric = id` for every point the code does not reject (r ≠ 0) -/
theorem C07_cart_roundtrip (x y z : ℝ) (h0 : ¬ cart2geocentric_rejects x y z) :
    let q := cart2geocentric x y z
    geocentric2cart q.1 q.2.1 q.2.2 = (x, y, z) := conv_cart_roundtrip x y z h0

/-! ## Ellipsoid: table, surface radius, geodetic ↔ cartesian -/

/-- all six models of `ellipsoidmodels` have a > 0 and 0 ≤ e < 1 -/
theorem C07_ellipsoid_table :
    (0 < ellipsoidmodels_SphericalEarth.1 ∧ 0 ≤ ellipsoidmodels_SphericalEarth.2 ∧ ellipsoidmodels_SphericalEarth.2 < 1) ∧
    (0 < ellipsoidmodels_WGS84.1 ∧ 0 ≤ ellipsoidmodels_WGS84.2 ∧ ellipsoidmodels_WGS84.2 < 1) ∧
    (0 < ellipsoidmodels_SphericalVenus.1 ∧ 0 ≤ ellipsoidmodels_SphericalVenus.2 ∧ ellipsoidmodels_SphericalVenus.2 < 1) ∧
    (0 < ellipsoidmodels_SphericalMars.1 ∧ 0 ≤ ellipsoidmodels_SphericalMars.2 ∧ ellipsoidmodels_SphericalMars.2 < 1) ∧
    (0 < ellipsoidmodels_EllipsoidMars.1 ∧ 0 ≤ ellipsoidmodels_EllipsoidMars.2 ∧ ellipsoidmodels_EllipsoidMars.2 < 1) ∧
    (0 < ellipsoidmodels_SphericalJupiter.1 ∧ 0 ≤ ellipsoidmodels_SphericalJupiter.2 ∧ ellipsoidmodels_SphericalJupiter.2 < 1) :=
  conv_table

/-- points of height 0 have the radius `ellipsoid_r_geodetic` (by geodetic latitude) and
`ellipsoid_r_geocentric` (by their geocentric latitude) -/
theorem C07_surface_radius (a e lat lon : ℝ) (ha : 0 < a) (he0 : 0 ≤ e) (he1 : e < 1) :
    (let p := geodetic2cart 0 lat lon a e
     Real.sqrt (p.1 ^ 2 + p.2.1 ^ 2 + p.2.2 ^ 2) = ellipsoid_r_geodetic a e lat)
    ∧ (let q := geodetic2geocentric 0 lat lon a e
       q.1 = ellipsoid_r_geocentric a e q.2.1) :=
  ⟨conv_surface_radius_geodetic a e lat lon ha he0 he1, conv_surface_radius_geocentric a e lat lon ha he0 he1⟩

/-- A fixed point `B` of the iteration map of `cart2geodetic` gives the exact inverse of `geodetic2cart`:
with `s` = one pass of the loop body from latitude `B` (prime-vertical radius `s.1`, height `s.2.1`, returned
latitude `s.2.2.1 = B`, next latitude `s.2.2.2`), `s.2.2.2 = B` implies `geodetic2cart h B lon = (x, y, z)`.
Guard `hden`: the divisor `1 − e²N/(N+h)` of the Python expression is not zero (in Python a zero divisor gives
inf/nan; with Lean's `1/0 = 0` the latitude 0 would be a spurious fixed point for every `z`).  It fails only
~6 300 km below the surface (N(1−e²)+h = 0); `C07_geodetic_is_fixed_point` shows it holds for h > −a(1−e²). -/
theorem C07_geodetic_fixed_point (x y z a e N h Bp B : ℝ)
    (hxy : x ≠ 0 ∨ y ≠ 0)
    (hfix : (cart2geodetic_loop1_body x y z a e (e ^ 2) (N, h, Bp, B)).2.2.2 = B)
    (hden : 1 - e ^ 2 * (cart2geodetic_loop1_body x y z a e (e ^ 2) (N, h, Bp, B)).1
              / ((cart2geodetic_loop1_body x y z a e (e ^ 2) (N, h, Bp, B)).1
                 + (cart2geodetic_loop1_body x y z a e (e ^ 2) (N, h, Bp, B)).2.1) ≠ 0) :
    let s := cart2geodetic_loop1_body x y z a e (e ^ 2) (N, h, Bp, B)
    geodetic2cart s.2.1 (s.2.2.1 * (180 / Real.pi)) (Complex.arg ⟨x, y⟩ * (180 / Real.pi)) a e = (x, y, z) :=
  conv_geodetic_fixed_point x y z a e N h Bp B hxy hfix hden

/-- Conversely the geodetic latitude of `geodetic2cart h lat lon` is a fixed point of the iteration map, the height
computed there is `h`, and the point meets the guards `hxy`, `hden` of `C07_geodetic_fixed_point` (so fixed points
exist and that theorem is not vacuous) — for every height above −a(1−e²) (≈ −6 335 km for WGS84). -/
theorem C07_geodetic_is_fixed_point (h lat lon a e N0 h0 B0 : ℝ) (ha : 0 < a) (he0 : 0 < e) (he1 : e < 1)
    (hlat : |lat| < 90) (hh : -(a * (1 - e ^ 2)) < h) :
    let p := geodetic2cart h lat lon a e
    let s := cart2geodetic_loop1_body p.1 p.2.1 p.2.2 a e (e ^ 2) (N0, h0, B0, lat * (Real.pi / 180))
    (s.2.1 = h ∧ s.2.2.1 = lat * (Real.pi / 180) ∧ s.2.2.2 = lat * (Real.pi / 180))
    ∧ (p.1 ≠ 0 ∨ p.2.1 ≠ 0) ∧ 1 - e ^ 2 * s.1 / (s.1 + s.2.1) ≠ 0 :=
  ⟨conv_geodetic_is_fixed_point h lat lon a e N0 h0 B0 ha he0 he1 hlat hh,
   conv_geodetic_is_fixed_point_den h lat lon a e N0 h0 B0 ha he0 he1 hlat hh⟩

/-- e = 0: `cart2geodetic` takes the closed-form branch (geocentric coordinates, h = r − a) … -/
theorem C07_spherical_shortcut (x y z a : ℝ) :
    cart2geodetic x y z a 0
      = ((cart2geocentric x y z).1 - a, (cart2geocentric x y z).2.1, (cart2geocentric x y z).2.2) :=
  conv_spherical_shortcut x y z a

/-- … which is the fixed point the general branch's iteration map has for e = 0 -/
theorem C07_spherical_fixed_point (x y z a N0 h0 B0 : ℝ) (hxy : x ≠ 0 ∨ y ≠ 0) :
    let q := cart2geocentric x y z
    let s := cart2geodetic_loop1_body x y z a 0 0 (N0, h0, B0, q.2.1 * (Real.pi / 180))
    s.2.1 = q.1 - a ∧ s.2.2.2 = q.2.1 * (Real.pi / 180) := conv_spherical_fixed_point x y z a N0 h0 B0 hxy

/-- the composed conversions are the compositions -/
theorem C07_composed_routes_agree (h lat lon r a e : ℝ) :
    geodetic2geocentric h lat lon a e
        = cart2geocentric (geodetic2cart h lat lon a e).1 (geodetic2cart h lat lon a e).2.1 (geodetic2cart h lat lon a e).2.2
    ∧ geocentric2geodetic r lat lon a e
        = cart2geodetic (geocentric2cart r lat lon).1 (geocentric2cart r lat lon).2.1 (geocentric2cart r lat lon).2.2 a e :=
  conv_composed_routes h lat lon r a e

/-- semantics of the translated `while`: when the loop exits at all, its result is the first iterate that
fails the loop test -/
theorem C07_loop_exit {σ : Type} (c : σ → Prop) (f : σ → σ) (s : σ) (hex : ∃ n : ℕ, ¬ c (f^[n] s)) :
    ¬ c (whileLoop c f s) ∧ ∃ n : ℕ, whileLoop c f s = f^[n] s ∧ ∀ m < n, c (f^[m] s) := conv_loop_exit c f s hex

/-- obligation emitted by the translator (`N`, `h` are first assigned inside the loop): the loop test holds in the
start state `(·, ·, B₀ + 1, B₀)`, so the body always runs at least once (Python: no `UnboundLocalError`) -/
theorem C07_loop_entered (x y z a e B0 : ℝ) : cart2geodetic_loop1_entered x y z a e (e ^ 2) (B0 + 1) B0 :=
  conv_loop_entered x y z a e B0

/-- the longitude returned by `cart2geodetic` is `arctan2(y, x)` in both branches, whatever the loop does … -/
theorem C07_cart2geodetic_lon (x y z a e : ℝ) :
    (cart2geodetic x y z a e).2.2 = Complex.arg ⟨x, y⟩ * (180 / Real.pi) := conv_cart2geodetic_lon x y z a e

/-- … hence `cart2geodetic ∘ geodetic2cart` recovers the longitude exactly (spherical and eccentric models) -/
theorem C07_geodetic_lon_recovery (h lat lon a e : ℝ) (ha : 0 < a) (he0 : 0 ≤ e) (he1 : e < 1)
    (hlat : |lat| < 90) (hh : -(a * (1 - e ^ 2)) < h) (hlon : -180 < lon ∧ lon ≤ 180) :
    let p := geodetic2cart h lat lon a e
    (cart2geodetic p.1 p.2.1 p.2.2 a e).2.2 = lon := conv_geodetic_lon_recovery h lat lon a e ha he0 he1 hlat hh hlon

/-- composite route: geodetic → geocentric → geodetic equals geodetic → cartesian → geodetic -/
theorem C07_composite_roundtrip (h lat lon a e : ℝ)
    (h0 : ¬ cart2geocentric_rejects (geodetic2cart h lat lon a e).1 (geodetic2cart h lat lon a e).2.1
            (geodetic2cart h lat lon a e).2.2) :
    let p := geodetic2cart h lat lon a e
    let q := geodetic2geocentric h lat lon a e
    geocentric2geodetic q.1 q.2.1 q.2.2 a e = cart2geodetic p.1 p.2.1 p.2.2 a e :=
  conv_composite_roundtrip h lat lon a e h0

/-- One pass of the loop body from ANY latitude `B` with cos B > 0 (every iterate has that): the returned pair
(height `s.2.1`, latitude `s.2.2.1 = B`) reproduces x and y exactly, and z up to the explicit residual
`(N(1−e²)+h) · sin(B₀' − B) / cos B₀'`, which vanishes at a fixed point and is bounded by the last step `|B − B₀'|`. -/
theorem C07_step_residual (x y z a e N h Bp B : ℝ) (hxy : x ≠ 0 ∨ y ≠ 0) (hB : 0 < Real.cos B)
    (hden : 1 - e ^ 2 * (cart2geodetic_loop1_body x y z a e (e ^ 2) (N, h, Bp, B)).1
              / ((cart2geodetic_loop1_body x y z a e (e ^ 2) (N, h, Bp, B)).1
                 + (cart2geodetic_loop1_body x y z a e (e ^ 2) (N, h, Bp, B)).2.1) ≠ 0) :
    let s := cart2geodetic_loop1_body x y z a e (e ^ 2) (N, h, Bp, B)
    let p := geodetic2cart s.2.1 (s.2.2.1 * (180 / Real.pi)) (Complex.arg ⟨x, y⟩ * (180 / Real.pi)) a e
    p = (x, y, z - (s.1 * (1 - e ^ 2) + s.2.1) * Real.sin (s.2.2.2 - B) / Real.cos s.2.2.2)
    ∧ |z - p.2.2| * Real.cos s.2.2.2 ≤ |s.1 * (1 - e ^ 2) + s.2.1| * |s.2.2.1 - s.2.2.2| :=
  ⟨conv_step_inverse x y z a e N h Bp B hxy hB hden, (conv_step_residual_bound x y z a e N h Bp B hxy hB hden).2.2⟩

/-- The whole function on an eccentric ellipsoid, PROVIDED the loop exits: it returns height and latitude of the
exit state `s`, which passes the stop test (|B − B₀| ≤ the tolerance of the source); feeding the result back into
`geodetic2cart` reproduces x and y exactly and z up to `|N(1−e²)+h| · |B − B₀| / cos B₀`.
(`hden`: the divisor of the last pass is not zero, see `C07_geodetic_fixed_point`.)
-- (The hypotheses `hex`, `hden` are discharged on the domain in `Proofs/Props/C07Conv.lean`:
-- `C07_loop_terminates`, `C07_exit_latitude_error`, `C07_cart2geodetic_at_exit`.)  Formerly: NOT PROVED here — a
-- contraction estimate `C07_iteration_contracts` — and the resulting bound on the LATITUDE/HEIGHT error (the theorem
-- bounds the residual in z, i.e. the defect of the defining equations, not the distance to the true (h, lat));
-- both are validated numerically by the harness (mpmath inverse, 1 cm / 1e-7°). -/
theorem C07_cart2geodetic_at_exit_partial (x y z a e : ℝ) (he : e ≠ 0) (hxy : x ≠ 0 ∨ y ≠ 0)
    (hex : ∃ n : ℕ, ¬ cart2geodetic_loop1_cond_any x y z a e (e ^ 2)
      ((cart2geodetic_loop1_body x y z a e (e ^ 2))^[n]
        (0, 0, Complex.arg ⟨Real.sqrt (x * x + y * y), z⟩ + 1, Complex.arg ⟨Real.sqrt (x * x + y * y), z⟩)))
    (hden : let s := whileLoop (cart2geodetic_loop1_cond_any x y z a e (e ^ 2)) (cart2geodetic_loop1_body x y z a e (e ^ 2))
              (0, 0, Complex.arg ⟨Real.sqrt (x * x + y * y), z⟩ + 1, Complex.arg ⟨Real.sqrt (x * x + y * y), z⟩)
            1 - e ^ 2 * s.1 / (s.1 + s.2.1) ≠ 0) :
    let s := whileLoop (cart2geodetic_loop1_cond_any x y z a e (e ^ 2)) (cart2geodetic_loop1_body x y z a e (e ^ 2))
      (0, 0, Complex.arg ⟨Real.sqrt (x * x + y * y), z⟩ + 1, Complex.arg ⟨Real.sqrt (x * x + y * y), z⟩)
    let g := cart2geodetic x y z a e
    let p := geodetic2cart g.1 g.2.1 g.2.2 a e
    g = (s.2.1, s.2.2.1 * (180 / Real.pi), Complex.arg ⟨x, y⟩ * (180 / Real.pi))
    ∧ p.1 = x ∧ p.2.1 = y
    ∧ |z - p.2.2| * Real.cos s.2.2.2 ≤ |s.1 * (1 - e ^ 2) + s.2.1| * |s.2.2.1 - s.2.2.2|
    ∧ ¬ cart2geodetic_loop1_cond_any x y z a e (e ^ 2) s :=
  conv_cart2geodetic_exit_inverse x y z a e he hxy hex hden

/-! ## Position + line of sight -/

/-- `cartposlos2geocentric ∘ geocentricposlos2cart` returns position and zenith angle
(away from the poles: the non-singular branch) -/
theorem C07_los_zenith (r lat lon za aa : ℝ) (hr : 0 < r) (hlat : |lat| ≤ 90 - 1 / 100000000)
    (hlon : -180 < lon ∧ lon ≤ 180) (hza : 0 ≤ za ∧ za ≤ 180) :
    let p := geocentricposlos2cart r lat lon za aa
    let q := cartposlos2geocentric p.1 p.2.1 p.2.2.1 p.2.2.2.1 p.2.2.2.2.1 p.2.2.2.2.2
    q.1 = r ∧ q.2.1 = lat ∧ q.2.2.1 = lon ∧ q.2.2.2.1 = za :=
  los_zenith r lat lon za aa hr hlat hza
    (conv_geocentric_roundtrip r lat lon hr (by have := hlat; norm_num at this ⊢; linarith) hlon)

/-- … and the azimuth angle, away from zenith and nadir (the code's own 1e-6° margin) -/
theorem C07_los_azimuth (r lat lon za aa : ℝ) (hr : 0 < r) (hlat : |lat| ≤ 90 - 1 / 100000000)
    (hlon : -180 < lon ∧ lon ≤ 180) (hza : 1 / 1000000 < za ∧ za < 180 - 1 / 1000000)
    (haa : -180 < aa ∧ aa ≤ 180) :
    let p := geocentricposlos2cart r lat lon za aa
    let q := cartposlos2geocentric p.1 p.2.1 p.2.2.1 p.2.2.2.1 p.2.2.2.2.1 p.2.2.2.2.2
    q.2.2.2.2 = aa :=
  los_azimuth r lat lon za aa hr hlat hza haa
    (conv_geocentric_roundtrip r lat lon hr (by have := hlat; norm_num at this ⊢; linarith) hlon)

/-! ## Non-vacuity: the hypotheses of the implications above are satisfiable -/

example : ∃ r lat lon : ℝ, 0 < r ∧ |lat| < 90 ∧ (-180 < lon ∧ lon ≤ 180) :=
  ⟨6371000, 45, 180, by norm_num, by norm_num [abs_lt], by norm_num⟩

example : ¬ cart2geocentric_rejects 1 2 2 := by
  have h : Real.sqrt ((1 : ℝ) ^ 2 + 2 ^ 2 + 2 ^ 2) = 3 := by
    rw [show ((1 : ℝ) ^ 2 + 2 ^ 2 + 2 ^ 2) = 3 ^ 2 by norm_num]
    exact Real.sqrt_sq (by norm_num)
  simp only [cart2geocentric_rejects, h]
  norm_num

/-- WGS84 satisfies the hypotheses on (a, e) -/
example : 0 < ellipsoidmodels_WGS84.1 ∧ 0 < ellipsoidmodels_WGS84.2 ∧ ellipsoidmodels_WGS84.2 < 1 := by
  simp only [ellipsoidmodels_WGS84]; norm_num

/-- the three hypotheses of `C07_geodetic_fixed_point` hold together (height 1000 m, lat 45°, lon 0 on an ellipsoid
with a = 6378137, e = 0.08): the point `C07_geodetic_is_fixed_point` provides -/
example : ∃ x y z B : ℝ, (x ≠ 0 ∨ y ≠ 0)
    ∧ (cart2geodetic_loop1_body x y z 6378137 (2 / 25) ((2 / 25) ^ 2) (0, 0, 1, B)).2.2.2 = B
    ∧ 1 - (2 / 25 : ℝ) ^ 2 * (cart2geodetic_loop1_body x y z 6378137 (2 / 25) ((2 / 25) ^ 2) (0, 0, 1, B)).1
        / ((cart2geodetic_loop1_body x y z 6378137 (2 / 25) ((2 / 25) ^ 2) (0, 0, 1, B)).1
           + (cart2geodetic_loop1_body x y z 6378137 (2 / 25) ((2 / 25) ^ 2) (0, 0, 1, B)).2.1) ≠ 0 := by
  have h := C07_geodetic_is_fixed_point 1000 45 0 6378137 (2 / 25) 0 0 1 (by norm_num) (by norm_num) (by norm_num)
    (by norm_num [abs_lt]) (by norm_num)
  exact ⟨_, _, _, _, h.2.1, h.1.2.2, h.2.2⟩

/-- hypotheses of `C07_geodetic_lon_recovery` / `C07_step_residual` (cos B > 0) are satisfiable -/
example : ∃ h lat lon a e : ℝ, 0 < a ∧ 0 ≤ e ∧ e < 1 ∧ |lat| < 90 ∧ -(a * (1 - e ^ 2)) < h ∧ (-180 < lon ∧ lon ≤ 180) :=
  ⟨-10000, -88, 180, 6378137, 0, by norm_num, by norm_num, by norm_num, by norm_num [abs_lt], by norm_num, by norm_num⟩
example : ∃ B : ℝ, 0 < Real.cos B := ⟨0, by simp⟩

/-- a loop that exits: count to three -/
example : ∃ n : ℕ, ¬ (fun k : ℕ => k < 3) ((fun k => k + 1)^[n] 0) := ⟨3, by simp [Function.iterate_succ]⟩

example : ∃ r lat lon za aa : ℝ, 0 < r ∧ |lat| ≤ 90 - 1 / 100000000 ∧ (-180 < lon ∧ lon ≤ 180)
    ∧ (1 / 1000000 < za ∧ za < 180 - 1 / 1000000) ∧ (-180 < aa ∧ aa ≤ 180) :=
  ⟨7000000, -88, -179, 100, -135, by norm_num, by norm_num [abs_le], by norm_num, by norm_num, by norm_num⟩

assert_axioms C07_gcd_symm C07_gcd_self_zero C07_gcd_eq_zero_iff C07_gcd_lon_shift C07_gcd_le_half_circumference
  C07_gcd_deg_eq C07_gcd_triangle C07_tunnel_symm C07_tunnel_self_zero C07_tunnel_lon_shift C07_tunnel_le_diameter
  C07_tunnel_triangle C07_chord_arc C07_geocentric_roundtrip C07_geocentric_roundtrip_mod C07_cart_roundtrip
  C07_ellipsoid_table C07_surface_radius C07_geodetic_fixed_point C07_geodetic_is_fixed_point C07_spherical_shortcut
  C07_spherical_fixed_point C07_composed_routes_agree C07_loop_exit C07_loop_entered C07_cart2geodetic_lon
  C07_geodetic_lon_recovery C07_composite_roundtrip C07_step_residual C07_cart2geodetic_at_exit_partial
  C07_los_zenith C07_los_azimuth
