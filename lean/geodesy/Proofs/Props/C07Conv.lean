import GenReal.Geodesy
import Proofs.Lemmas.Conv
import Proofs.Lemmas.Contract
import Proofs.Props.C07
import Proofs.Audit
import Mathlib.Tactic

/-!
# C07 — convergence of the latitude iteration of `cart2geodetic`

`cart2geodetic` (general branch, e ≠ 0) iterates `B ← G B := arctan (z / (p − e²·c B))`,
`c B = a cos B / √(1 − e² sin² B)`, `p = √(x²+y²)`, until two successive latitudes differ by ≤ 1e-12 rad, and
returns the OLDER of the two together with the height computed from it.

Domain of the theorems (the input is a point `geodetic2cart h lat lon a e`):

    0 < a,   0 < e,   e² ≤ 0.012,   |lat| ≤ 88°,   h ≥ −a/300        (no upper bound on h is needed)

`e² ≤ 0.012` covers every eccentric model of `ellipsoidmodels` (WGS84 e² = 0.00669438, EllipsoidMars
e² = 0.01172889; the four spherical models have e = 0 and take the closed-form branch, `C07_spherical_shortcut`).
`h ≥ −a/300` contains h ≥ −10 km whenever a ≥ 3·10⁶ m (WGS84: a/300 = 21 260 m, EllipsoidMars: 11 320 m).

Proved here, with no convergence hypothesis left:
* (A) `C07_iteration_contracts` — `G` is a contraction ON ALL OF ℝ with constant q = 1/50;
* (B) `C07_fixed_point_is_true_latitude` — the true latitude is a fixed point, the height formula returns `h` there;
* (C) `C07_loop_terminates` — the loop exits (the former hypothesis `hex`), `C07_loop_pass_count`: after 1…9 passes; `C07_cart2geodetic_at_exit` is
  `C07_cart2geodetic_at_exit_partial` with `hex`, `hden`, `hxy`, `he` discharged on the domain;
* (D) `C07_exit_latitude_error` — at exit |B − φ| ≤ (50/49)·1e-12 rad, the divisor is non-zero;
  `C07_exit_height_error` — |h_exit − h| ≤ (a + h)·5e-11;
  `C07_geodetic_roundtrip` — `cart2geodetic ∘ geodetic2cart` is the identity up to (a+h)·5e-11 in height, 6e-11° in
  latitude, exactly in longitude; `…_1cm` / `…_wgs84` / `…_mars`: ≤ 1 cm and ≤ 1e-7° for −10 km ≤ h ≤ 1000 km;
  `C07_cart_roundtrip_geodetic` (`…_1cm`, `…_wgs84`, `…_mars`) — the reverse composition `geodetic2cart ∘ cart2geodetic`
  reproduces x, y exactly and z up to (a+h)·5e-11 (≤ 1 cm).

All of this is about the real-number reading of the code (exact arithmetic); floating-point rounding is validated
numerically by the harness only.

-- NOT PROVED (outside the stated domain): 88° < |lat| < 90° (there `p − e²·c(B) > 0` fails for latitudes `B` far from
--   the true one, so `G` is not a contraction on all of ℝ; one would have to restrict to a neighbourhood of the
--   iterates), heights below −a/300, eccentricities e² > 0.012 (the estimates reach e² ≈ 0.018 with q = 1/50).
-- NOT PROVED: anything about float64 rounding (the 1e-12 test, the final 1 cm / 1e-7° of the FLOAT code).
-/

open TR

/-- (A) On the domain, one pass of the loop body contracts latitudes by the factor 1/50 — for ANY two latitudes
`B1`, `B2` (not only those in [−π/2, π/2]); the other state components do not matter. -/
theorem C07_iteration_contracts (h lat lon a e N1 h1 Bp1 B1 N2 h2 Bp2 B2 : ℝ) (ha : 0 < a) (he0 : 0 ≤ e)
    (he2 : e ^ 2 ≤ 3 / 250) (hlat : |lat| ≤ 88) (hh : -(a / 300) ≤ h) :
    let p := geodetic2cart h lat lon a e
    |(cart2geodetic_loop1_body p.1 p.2.1 p.2.2 a e (e ^ 2) (N1, h1, Bp1, B1)).2.2.2
      - (cart2geodetic_loop1_body p.1 p.2.1 p.2.2 a e (e ^ 2) (N2, h2, Bp2, B2)).2.2.2|
      ≤ 1 / 50 * |B1 - B2| :=
  ctr_body_contract h lat lon a e N1 h1 Bp1 B1 N2 h2 Bp2 B2 ha he0 he2 hlat hh

/-- (B) The true geodetic latitude (in radians) is a fixed point of the loop body, and the height computed in that
pass is the true height. -/
theorem C07_fixed_point_is_true_latitude (h lat lon a e N0 h0 B0 : ℝ) (ha : 0 < a) (he0 : 0 < e)
    (he2 : e ^ 2 ≤ 3 / 250) (hlat : |lat| ≤ 88) (hh : -(a / 300) ≤ h) :
    let p := geodetic2cart h lat lon a e
    let s := cart2geodetic_loop1_body p.1 p.2.1 p.2.2 a e (e ^ 2) (N0, h0, B0, lat * (Real.pi / 180))
    s.2.2.2 = lat * (Real.pi / 180) ∧ s.2.2.1 = lat * (Real.pi / 180) ∧ s.2.1 = h := by
  intro p s
  obtain ⟨he1, hh', -⟩ := ctr_domain_basic a e h ha he0.le he2 hh
  have hfix := conv_geodetic_is_fixed_point h lat lon a e N0 h0 B0 ha he0 he1 (ctr_lat_lt lat hlat) hh'
  exact ⟨hfix.2.2, hfix.2.1, hfix.1⟩

/-- (C) The loop of `cart2geodetic` exits on the domain — literally the hypothesis `hex` of
`C07_cart2geodetic_at_exit_partial` for the point `geodetic2cart h lat lon a e`. -/
theorem C07_loop_terminates (h lat lon a e : ℝ) (ha : 0 < a) (he0 : 0 ≤ e) (he2 : e ^ 2 ≤ 3 / 250)
    (hlat : |lat| ≤ 88) (hh : -(a / 300) ≤ h) :
    let p := geodetic2cart h lat lon a e
    ∃ n : ℕ, ¬ cart2geodetic_loop1_cond_any p.1 p.2.1 p.2.2 a e (e ^ 2)
      ((cart2geodetic_loop1_body p.1 p.2.1 p.2.2 a e (e ^ 2))^[n]
        (0, 0, Complex.arg ⟨Real.sqrt (p.1 * p.1 + p.2.1 * p.2.1), p.2.2⟩ + 1,
          Complex.arg ⟨Real.sqrt (p.1 * p.1 + p.2.1 * p.2.1), p.2.2⟩)) :=
  ctr_geodetic_loop_exits h lat lon a e ha he0 he2 hlat hh

/-- (C, quantitative) … after at most 9 passes, because (1/50)⁸·π ≤ 1e-12 (the float code needs 5–6): the exit
state of the `while` is the state after `n` passes for some 1 ≤ n ≤ 9. -/
theorem C07_loop_pass_count (h lat lon a e : ℝ) (ha : 0 < a) (he0 : 0 ≤ e) (he2 : e ^ 2 ≤ 3 / 250)
    (hlat : |lat| ≤ 88) (hh : -(a / 300) ≤ h) :
    let p := geodetic2cart h lat lon a e
    ∃ n : ℕ, 1 ≤ n ∧ n ≤ 9 ∧
      whileLoop (cart2geodetic_loop1_cond_any p.1 p.2.1 p.2.2 a e (e ^ 2))
        (cart2geodetic_loop1_body p.1 p.2.1 p.2.2 a e (e ^ 2))
        (0, 0, Complex.arg ⟨Real.sqrt (p.1 * p.1 + p.2.1 * p.2.1), p.2.2⟩ + 1,
          Complex.arg ⟨Real.sqrt (p.1 * p.1 + p.2.1 * p.2.1), p.2.2⟩)
      = (cart2geodetic_loop1_body p.1 p.2.1 p.2.2 a e (e ^ 2))^[n]
        (0, 0, Complex.arg ⟨Real.sqrt (p.1 * p.1 + p.2.1 * p.2.1), p.2.2⟩ + 1,
          Complex.arg ⟨Real.sqrt (p.1 * p.1 + p.2.1 * p.2.1), p.2.2⟩) := by
  intro p
  obtain ⟨m, hm9, hm⟩ := ctr_geodetic_loop_exits_within h lat lon a e ha he0 he2 hlat hh
  obtain ⟨hstop, n, hsn, hmin⟩ := C07_loop_exit _ _ _ (C07_loop_terminates h lat lon a e ha he0 he2 hlat hh)
  refine ⟨n, ?_, ?_, hsn⟩
  · rcases Nat.eq_zero_or_pos n with h0 | h0
    · exfalso
      subst h0
      rw [Function.iterate_zero, id] at hsn
      rw [hsn] at hstop
      exact hstop (C07_loop_entered _ _ _ a e _)
    · exact h0
  · by_contra hcon
    exact hm (hmin m (by omega))

/-- (D) At loop exit the latitude that is returned (`s.2.2.1`, the older iterate) is within
`1e-12 / (1 − 1/50) = (50/49)·1e-12` rad of the true latitude, and the divisor `1 − e²N/(N+h)` of the last pass is
not zero (the former hypothesis `hden`). -/
theorem C07_exit_latitude_error (h lat lon a e : ℝ) (ha : 0 < a) (he0 : 0 < e) (he2 : e ^ 2 ≤ 3 / 250)
    (hlat : |lat| ≤ 88) (hh : -(a / 300) ≤ h) :
    let p := geodetic2cart h lat lon a e
    let s := whileLoop (cart2geodetic_loop1_cond_any p.1 p.2.1 p.2.2 a e (e ^ 2))
      (cart2geodetic_loop1_body p.1 p.2.1 p.2.2 a e (e ^ 2))
      (0, 0, Complex.arg ⟨Real.sqrt (p.1 * p.1 + p.2.1 * p.2.1), p.2.2⟩ + 1,
        Complex.arg ⟨Real.sqrt (p.1 * p.1 + p.2.1 * p.2.1), p.2.2⟩)
    |s.2.2.1 - lat * (Real.pi / 180)| ≤ 50 / 49 * (1 / 1000000000000)
    ∧ 1 - e ^ 2 * s.1 / (s.1 + s.2.1) ≠ 0 :=
  ⟨(ctr_geodetic_exit h lat lon a e ha he0 he2 hlat hh).1, (ctr_geodetic_exit h lat lon a e ha he0 he2 hlat hh).2.2⟩

/-- (D) … and the height that is returned is within `(a + h)·5e-11` of the true height
(≤ 0.4 mm for WGS84 and h ≤ 1000 km). -/
theorem C07_exit_height_error (h lat lon a e : ℝ) (ha : 0 < a) (he0 : 0 < e) (he2 : e ^ 2 ≤ 3 / 250)
    (hlat : |lat| ≤ 88) (hh : -(a / 300) ≤ h) :
    let p := geodetic2cart h lat lon a e
    let s := whileLoop (cart2geodetic_loop1_cond_any p.1 p.2.1 p.2.2 a e (e ^ 2))
      (cart2geodetic_loop1_body p.1 p.2.1 p.2.2 a e (e ^ 2))
      (0, 0, Complex.arg ⟨Real.sqrt (p.1 * p.1 + p.2.1 * p.2.1), p.2.2⟩ + 1,
        Complex.arg ⟨Real.sqrt (p.1 * p.1 + p.2.1 * p.2.1), p.2.2⟩)
    |s.2.1 - h| ≤ (a + h) / 20000000000 :=
  (ctr_geodetic_exit h lat lon a e ha he0 he2 hlat hh).2.1

/-- (C, corollary) `C07_cart2geodetic_at_exit_partial` on the domain with NO hypothesis about the loop: `he`, `hxy`,
`hex`, `hden` are all discharged. -/
theorem C07_cart2geodetic_at_exit (h lat lon a e : ℝ) (ha : 0 < a) (he0 : 0 < e) (he2 : e ^ 2 ≤ 3 / 250)
    (hlat : |lat| ≤ 88) (hh : -(a / 300) ≤ h) :
    let q := geodetic2cart h lat lon a e
    let s := whileLoop (cart2geodetic_loop1_cond_any q.1 q.2.1 q.2.2 a e (e ^ 2))
      (cart2geodetic_loop1_body q.1 q.2.1 q.2.2 a e (e ^ 2))
      (0, 0, Complex.arg ⟨Real.sqrt (q.1 * q.1 + q.2.1 * q.2.1), q.2.2⟩ + 1,
        Complex.arg ⟨Real.sqrt (q.1 * q.1 + q.2.1 * q.2.1), q.2.2⟩)
    let g := cart2geodetic q.1 q.2.1 q.2.2 a e
    let p := geodetic2cart g.1 g.2.1 g.2.2 a e
    g = (s.2.1, s.2.2.1 * (180 / Real.pi), Complex.arg ⟨q.1, q.2.1⟩ * (180 / Real.pi))
    ∧ p.1 = q.1 ∧ p.2.1 = q.2.1
    ∧ |q.2.2 - p.2.2| * Real.cos s.2.2.2 ≤ |s.1 * (1 - e ^ 2) + s.2.1| * |s.2.2.1 - s.2.2.2|
    ∧ ¬ cart2geodetic_loop1_cond_any q.1 q.2.1 q.2.2 a e (e ^ 2) s :=
  C07_cart2geodetic_at_exit_partial _ _ _ a e he0.ne'
    (ctr_geodetic_xy h lat lon a e ha he0.le he2 hlat hh)
    (C07_loop_terminates h lat lon a e ha he0.le he2 hlat hh)
    (C07_exit_latitude_error h lat lon a e ha he0 he2 hlat hh).2

/-- (D, whole function) `cart2geodetic ∘ geodetic2cart` on the domain: height within `(a + h)·5e-11`, latitude within
`6e-11°`, longitude exact (for lon ∈ (−180°, 180°]). -/
theorem C07_geodetic_roundtrip (h lat lon a e : ℝ) (ha : 0 < a) (he0 : 0 < e) (he2 : e ^ 2 ≤ 3 / 250)
    (hlat : |lat| ≤ 88) (hh : -(a / 300) ≤ h) (hlon : -180 < lon ∧ lon ≤ 180) :
    let p := geodetic2cart h lat lon a e
    let g := cart2geodetic p.1 p.2.1 p.2.2 a e
    |g.1 - h| ≤ (a + h) / 20000000000 ∧ |g.2.1 - lat| ≤ 6 / 100000000000 ∧ g.2.2 = lon := by
  intro p g
  obtain ⟨he1, hh', -⟩ := ctr_domain_basic a e h ha he0.le he2 hh
  obtain ⟨h1, h2⟩ := ctr_geodetic_roundtrip h lat lon a e ha he0 he2 hlat hh
  exact ⟨h1, h2, C07_geodetic_lon_recovery h lat lon a e ha he0.le he1 (ctr_lat_lt lat hlat) hh' hlon⟩

/-- … in the units of the requirement: 1 cm and 1e-7° for planet-sized ellipsoids (3·10⁶ m ≤ a ≤ 10⁸ m) and
−10 km ≤ h ≤ 1000 km. -/
theorem C07_geodetic_roundtrip_1cm (h lat lon a e : ℝ) (ha : 3000000 ≤ a ∧ a ≤ 100000000) (he0 : 0 < e)
    (he2 : e ^ 2 ≤ 3 / 250) (hlat : |lat| ≤ 88) (hh : -10000 ≤ h ∧ h ≤ 1000000) (hlon : -180 < lon ∧ lon ≤ 180) :
    let p := geodetic2cart h lat lon a e
    let g := cart2geodetic p.1 p.2.1 p.2.2 a e
    |g.1 - h| ≤ 1 / 100 ∧ |g.2.1 - lat| ≤ 1 / 10000000 ∧ g.2.2 = lon := by
  intro p g
  obtain ⟨h1, h2, h3⟩ := C07_geodetic_roundtrip h lat lon a e (by linarith [ha.1]) he0 he2 hlat
    (by linarith [ha.1, hh.1]) hlon
  refine ⟨h1.trans ?_, h2.trans (by norm_num), h3⟩
  linarith [ha.2, hh.2]

/-- the two eccentric models of `ellipsoidmodels` -/
theorem C07_geodetic_roundtrip_wgs84 (h lat lon : ℝ) (hlat : |lat| ≤ 88) (hh : -10000 ≤ h ∧ h ≤ 1000000)
    (hlon : -180 < lon ∧ lon ≤ 180) :
    let p := geodetic2cart h lat lon ellipsoidmodels_WGS84.1 ellipsoidmodels_WGS84.2
    let g := cart2geodetic p.1 p.2.1 p.2.2 ellipsoidmodels_WGS84.1 ellipsoidmodels_WGS84.2
    |g.1 - h| ≤ 1 / 100 ∧ |g.2.1 - lat| ≤ 1 / 10000000 ∧ g.2.2 = lon :=
  C07_geodetic_roundtrip_1cm h lat lon _ _ (by simp only [ellipsoidmodels_WGS84]; norm_num)
    (by simp only [ellipsoidmodels_WGS84]; norm_num) (by simp only [ellipsoidmodels_WGS84]; norm_num) hlat hh hlon

theorem C07_geodetic_roundtrip_mars (h lat lon : ℝ) (hlat : |lat| ≤ 88) (hh : -10000 ≤ h ∧ h ≤ 1000000)
    (hlon : -180 < lon ∧ lon ≤ 180) :
    let p := geodetic2cart h lat lon ellipsoidmodels_EllipsoidMars.1 ellipsoidmodels_EllipsoidMars.2
    let g := cart2geodetic p.1 p.2.1 p.2.2 ellipsoidmodels_EllipsoidMars.1 ellipsoidmodels_EllipsoidMars.2
    |g.1 - h| ≤ 1 / 100 ∧ |g.2.1 - lat| ≤ 1 / 10000000 ∧ g.2.2 = lon :=
  C07_geodetic_roundtrip_1cm h lat lon _ _ (by simp only [ellipsoidmodels_EllipsoidMars]; norm_num)
    (by simp only [ellipsoidmodels_EllipsoidMars]; norm_num) (by simp only [ellipsoidmodels_EllipsoidMars]; norm_num)
    hlat hh hlon

/-- (D, reverse composition) `geodetic2cart ∘ cart2geodetic` on a point (x, y, z) that is the image of a domain point:
x and y are reproduced exactly and z up to `(a + h)·5e-11` (the exit test gives |B − B₀| ≤ 1e-12, on the domain
cos B₀ ≥ 1/46 and |N(1−e²) + h_exit| ≤ 1.03 (a + h)). -/
theorem C07_cart_roundtrip_geodetic (h lat lon a e : ℝ) (ha : 0 < a) (he0 : 0 < e) (he2 : e ^ 2 ≤ 3 / 250)
    (hlat : |lat| ≤ 88) (hh : -(a / 300) ≤ h) :
    let q := geodetic2cart h lat lon a e
    let g := cart2geodetic q.1 q.2.1 q.2.2 a e
    let p := geodetic2cart g.1 g.2.1 g.2.2 a e
    p.1 = q.1 ∧ p.2.1 = q.2.1 ∧ |p.2.2 - q.2.2| ≤ (a + h) / 20000000000 :=
  ctr_cart_roundtrip h lat lon a e ha he0 he2 hlat hh

/-- … to better than 1 cm for planet-sized ellipsoids and −10 km ≤ h ≤ 1000 km: together with
`C07_geodetic_roundtrip_1cm` the two conversions are mutually inverse to better than 1 cm / 1e-7°. -/
theorem C07_cart_roundtrip_1cm (h lat lon a e : ℝ) (ha : 3000000 ≤ a ∧ a ≤ 100000000) (he0 : 0 < e)
    (he2 : e ^ 2 ≤ 3 / 250) (hlat : |lat| ≤ 88) (hh : -10000 ≤ h ∧ h ≤ 1000000) :
    let q := geodetic2cart h lat lon a e
    let g := cart2geodetic q.1 q.2.1 q.2.2 a e
    let p := geodetic2cart g.1 g.2.1 g.2.2 a e
    p.1 = q.1 ∧ p.2.1 = q.2.1 ∧ |p.2.2 - q.2.2| ≤ 1 / 100 := by
  intro q g p
  obtain ⟨h1, h2, h3⟩ := C07_cart_roundtrip_geodetic h lat lon a e (by linarith [ha.1]) he0 he2 hlat (by linarith [ha.1, hh.1])
  refine ⟨h1, h2, h3.trans ?_⟩
  linarith [ha.2, hh.2]

theorem C07_cart_roundtrip_wgs84 (h lat lon : ℝ) (hlat : |lat| ≤ 88) (hh : -10000 ≤ h ∧ h ≤ 1000000) :
    let q := geodetic2cart h lat lon ellipsoidmodels_WGS84.1 ellipsoidmodels_WGS84.2
    let g := cart2geodetic q.1 q.2.1 q.2.2 ellipsoidmodels_WGS84.1 ellipsoidmodels_WGS84.2
    let p := geodetic2cart g.1 g.2.1 g.2.2 ellipsoidmodels_WGS84.1 ellipsoidmodels_WGS84.2
    p.1 = q.1 ∧ p.2.1 = q.2.1 ∧ |p.2.2 - q.2.2| ≤ 1 / 100 :=
  C07_cart_roundtrip_1cm h lat lon _ _ (by simp only [ellipsoidmodels_WGS84]; norm_num)
    (by simp only [ellipsoidmodels_WGS84]; norm_num) (by simp only [ellipsoidmodels_WGS84]; norm_num) hlat hh

theorem C07_cart_roundtrip_mars (h lat lon : ℝ) (hlat : |lat| ≤ 88) (hh : -10000 ≤ h ∧ h ≤ 1000000) :
    let q := geodetic2cart h lat lon ellipsoidmodels_EllipsoidMars.1 ellipsoidmodels_EllipsoidMars.2
    let g := cart2geodetic q.1 q.2.1 q.2.2 ellipsoidmodels_EllipsoidMars.1 ellipsoidmodels_EllipsoidMars.2
    let p := geodetic2cart g.1 g.2.1 g.2.2 ellipsoidmodels_EllipsoidMars.1 ellipsoidmodels_EllipsoidMars.2
    p.1 = q.1 ∧ p.2.1 = q.2.1 ∧ |p.2.2 - q.2.2| ≤ 1 / 100 :=
  C07_cart_roundtrip_1cm h lat lon _ _ (by simp only [ellipsoidmodels_EllipsoidMars]; norm_num)
    (by simp only [ellipsoidmodels_EllipsoidMars]; norm_num) (by simp only [ellipsoidmodels_EllipsoidMars]; norm_num)
    hlat hh

/-! ## Non-vacuity: the domain hypotheses are satisfiable (corners of the domain, both eccentric models) -/

/-- WGS84, lat = −88°, h = −10 km, lon = 180° -/
example : ∃ h lat lon a e : ℝ, 0 < a ∧ 0 < e ∧ e ^ 2 ≤ 3 / 250 ∧ |lat| ≤ 88 ∧ -(a / 300) ≤ h ∧ (-180 < lon ∧ lon ≤ 180) :=
  ⟨-10000, -88, 180, ellipsoidmodels_WGS84.1, ellipsoidmodels_WGS84.2,
    by simp only [ellipsoidmodels_WGS84]; norm_num, by simp only [ellipsoidmodels_WGS84]; norm_num,
    by simp only [ellipsoidmodels_WGS84]; norm_num, by norm_num [abs_le],
    by simp only [ellipsoidmodels_WGS84]; norm_num, by norm_num⟩

/-- EllipsoidMars (the most eccentric model), lat = 88°, h = 1000 km -/
example : ∃ h lat lon a e : ℝ, 0 < a ∧ 0 < e ∧ e ^ 2 ≤ 3 / 250 ∧ |lat| ≤ 88 ∧ -(a / 300) ≤ h ∧ (-180 < lon ∧ lon ≤ 180) :=
  ⟨1000000, 88, -179, ellipsoidmodels_EllipsoidMars.1, ellipsoidmodels_EllipsoidMars.2,
    by simp only [ellipsoidmodels_EllipsoidMars]; norm_num, by simp only [ellipsoidmodels_EllipsoidMars]; norm_num,
    by simp only [ellipsoidmodels_EllipsoidMars]; norm_num, by norm_num [abs_le],
    by simp only [ellipsoidmodels_EllipsoidMars]; norm_num, by norm_num⟩

/-- hypotheses of `C07_geodetic_roundtrip_1cm` -/
example : ∃ h lat lon a e : ℝ, (3000000 ≤ a ∧ a ≤ 100000000) ∧ 0 < e ∧ e ^ 2 ≤ 3 / 250 ∧ |lat| ≤ 88
    ∧ (-10000 ≤ h ∧ h ≤ 1000000) ∧ (-180 < lon ∧ lon ≤ 180) :=
  ⟨-10000, 0, 0, 3396190, 1083 / 10000, by norm_num, by norm_num, by norm_num, by norm_num, by norm_num, by norm_num⟩

/-- `C07_iteration_contracts` at two concrete states (latitudes 0 and 1 rad) for the point (h, lat, lon) = (0, 45°, 0°)
of an ellipsoid with a = 6378137, e = 0.08: one pass brings them within 1/50 rad of each other -/
example :
    |(cart2geodetic_loop1_body (geodetic2cart 0 45 0 6378137 (2 / 25)).1 (geodetic2cart 0 45 0 6378137 (2 / 25)).2.1
        (geodetic2cart 0 45 0 6378137 (2 / 25)).2.2 6378137 (2 / 25) ((2 / 25) ^ 2) (0, 0, 0, 0)).2.2.2
      - (cart2geodetic_loop1_body (geodetic2cart 0 45 0 6378137 (2 / 25)).1 (geodetic2cart 0 45 0 6378137 (2 / 25)).2.1
        (geodetic2cart 0 45 0 6378137 (2 / 25)).2.2 6378137 (2 / 25) ((2 / 25) ^ 2) (0, 0, 0, 1)).2.2.2| ≤ 1 / 50 := by
  have h := C07_iteration_contracts 0 45 0 6378137 (2 / 25) 0 0 0 0 0 0 0 1 (by norm_num) (by norm_num) (by norm_num)
    (by norm_num [abs_le]) (by norm_num)
  simp only [zero_sub, abs_neg, abs_one, mul_one] at h
  exact h

/-- the conclusion of `C07_loop_terminates` is used with a concrete point: the loop exits for the WGS84 point
(h, lat, lon) = (0, 45°, 0°) -/
example : ∃ n : ℕ, ¬ cart2geodetic_loop1_cond_any (geodetic2cart 0 45 0 6378137 (2 / 25)).1
    (geodetic2cart 0 45 0 6378137 (2 / 25)).2.1 (geodetic2cart 0 45 0 6378137 (2 / 25)).2.2 6378137 (2 / 25) ((2 / 25) ^ 2)
    ((cart2geodetic_loop1_body (geodetic2cart 0 45 0 6378137 (2 / 25)).1 (geodetic2cart 0 45 0 6378137 (2 / 25)).2.1
        (geodetic2cart 0 45 0 6378137 (2 / 25)).2.2 6378137 (2 / 25) ((2 / 25) ^ 2))^[n]
      (0, 0, Complex.arg ⟨Real.sqrt ((geodetic2cart 0 45 0 6378137 (2 / 25)).1 * (geodetic2cart 0 45 0 6378137 (2 / 25)).1
          + (geodetic2cart 0 45 0 6378137 (2 / 25)).2.1 * (geodetic2cart 0 45 0 6378137 (2 / 25)).2.1),
          (geodetic2cart 0 45 0 6378137 (2 / 25)).2.2⟩ + 1,
        Complex.arg ⟨Real.sqrt ((geodetic2cart 0 45 0 6378137 (2 / 25)).1 * (geodetic2cart 0 45 0 6378137 (2 / 25)).1
          + (geodetic2cart 0 45 0 6378137 (2 / 25)).2.1 * (geodetic2cart 0 45 0 6378137 (2 / 25)).2.1),
          (geodetic2cart 0 45 0 6378137 (2 / 25)).2.2⟩)) :=
  C07_loop_terminates 0 45 0 6378137 (2 / 25) (by norm_num) (by norm_num) (by norm_num) (by norm_num [abs_le])
    (by norm_num)

assert_axioms C07_iteration_contracts C07_fixed_point_is_true_latitude C07_loop_terminates C07_loop_pass_count
  C07_exit_latitude_error
  C07_exit_height_error C07_cart2geodetic_at_exit C07_geodetic_roundtrip C07_geodetic_roundtrip_1cm
  C07_geodetic_roundtrip_wgs84 C07_geodetic_roundtrip_mars C07_cart_roundtrip_geodetic C07_cart_roundtrip_1cm
  C07_cart_roundtrip_wgs84 C07_cart_roundtrip_mars
