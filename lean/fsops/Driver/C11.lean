import Model.FsOps
/-!
Line-protocol driver for C11 (write / find / read / move / copy / delete through filesets).

The naming functions are parameters of the model; the harness fills them with the names the real
`get_filename` generated (`name` lines).  Keys are tokens `S_E_ATTR` (start µs, end µs, attribute text without
blanks); data are opaque tokens; contents are printed as `r:TOKEN` (handler output) wrapped in `z:` per
compression layer.

  fileset ID Z P WTAG RTAG            -> ok     (Z: 1 / 11 = compression suffix, compress and decompress; 10 = compress only; 01 = decompress only
                                                 [FileSet(compress=…, decompress=…)]; 0 / 00 = none; P = 1: post_reader "P.";
                                                 WTAG / RTAG: the fileset's write_args / read_args, visible in what the
                                                 handler writes ("W<tag>.") and returns ("R<tag>."))
  name ID KEY PATHHEX                 -> ok     (ID.nameOf KEY = PATH, ID.parse PATH = KEY)
  alias ID KEY PATHHEX                -> ok     (ID.nameOf KEY = PATH only: the name the template generates from a key
                                                 of another fileset, when it keeps less / other information)
  write ID KEY DATA WTAG|-            -> ok | no-name       (WTAG: per-call write_args override)
  read ID PATHHEX RTAG|-              -> DATA | raise       (RTAG: per-call read_args override)
  find ID QS QE                       -> PATHHEX:KEY ... (sorted) | -
  move SRC DST COPY CONV WT QS QE     -> ok | raise    (CONV 0: plain, 1: convert=True, 2: convert=g, g d = "G." ++ d;
                                                        WT: write tag of the destination object, "-" = DST's own)
  movefiles SRC DST COPY CONV WT PATHHEX*   -> ok | raise    (selection = explicit file list, possibly empty)
  delete ID DRY QS QE                 -> ok
  deletefiles ID DRY PATHHEX*         -> ok
  ls                                  -> PATHHEX=CONTENT ... (sorted) | -
-/
open FsOps FSModel

inductive C where
  | raw (tok : String)
  | gz (c : C)
  deriving BEq, Inhabited

def C.show : C → String
  | .raw t => "r:" ++ t
  | .gz c => "z:" ++ c.show

structure FSet where
  id : String
  z : Bool                                 -- compress on write (suffix + FileSet.compress)
  zr : Bool := true                        -- decompress on read (suffix + FileSet.decompress)
  post : Bool
  wtag : String := "w0"
  rtag : String := "r0"
  names : List (String × String) := []     -- key ↦ path (also the parse table)
  aliases : List (String × String) := []   -- foreign key ↦ path (nameOf only)

structure St where
  sets : List FSet := []
  fs : FS C := FS.empty
  paths : List String := []                 -- every path ever named (candidates of find / ls)

def FSet.model (s : FSet) : FileSetM String String C where
  nameOf k := match s.aliases.find? (·.1 == k) with
    | some e => e.2
    | none => match s.names.find? (·.1 == k) with | some e => e.2 | none => "?unnamed:" ++ s.id ++ ":" ++ k
  parse p := (s.names.find? (·.2 == p)).map (·.1)
  hwrite d := .raw ("W" ++ s.wtag ++ "." ++ d)
  hread c := match c with | .raw d => some ("R" ++ s.rtag ++ "." ++ d) | .gz _ => none
  post d := if s.post then "P." ++ d else d
  enc c := if s.z then .gz c else c
  dec c := if s.zr then (match c with | .gz c' => some c' | .raw _ => none) else some c

def keyTimes (k : String) : Option (Int × Int) :=
  match k.splitOn "_" with
  | s :: e :: _ => match s.toInt?, e.toInt? with
    | some a, some b => some (a, b)
    | _, _ => none
  | _ => none

def overlapQ (qs qe : Int) (k : String) : Bool :=
  match keyTimes k with
  | some (a, b) => decide (a ≤ qe ∧ qs ≤ b)
  | none => false

def insertSorted (x : String) : List String → List String
  | [] => [x]
  | y :: r => if x < y then x :: y :: r else if x = y then y :: r else y :: insertSorted x r

def hexStr (s : String) : String :=
  let hd (n : Nat) : Char := if n < 10 then Char.ofNat (48 + n) else Char.ofNat (87 + n)
  let bs := s.toUTF8.toList
  if bs.isEmpty then "-" else String.ofList (bs.flatMap (fun x => [hd (x.toNat / 16), hd (x.toNat % 16)]))

def hexVal (c : Char) : Option Nat :=
  if '0' ≤ c ∧ c ≤ '9' then some (c.toNat - 48)
  else if 'a' ≤ c ∧ c ≤ 'f' then some (c.toNat - 87) else none

def unhexL : List Char → Option (List UInt8)
  | [] => some []
  | a :: b :: r => do
    let x ← hexVal a
    let y ← hexVal b
    let t ← unhexL r
    pure (UInt8.ofNat (16 * x + y) :: t)
  | _ => none

def unhexStr (s : String) : Option String := do
  let b ← if s = "-" then some [] else unhexL s.toList
  String.fromUTF8? ⟨b.toArray⟩

def getSet (st : St) (id : String) : Option FSet := st.sets.find? (·.id == id)

def convOf (cv : String) : Option (String → String) :=
  if cv == "0" then none else if cv == "1" then some id else some (fun d => "G." ++ d)

def selOfPaths (s : FSet) (st : St) (phs : List String) : Option (List (String × String)) :=
  phs.mapM (fun ph => do
    let p ← unhexStr ph
    let k ← s.model.parse p
    pure (p, k))

def step (st : St) (line : String) : St × String :=
  match (line.splitOn " ").filter (· ≠ "") with
  | ["fileset", id, z, p, wt, rt] =>
    ({ st with sets := { id := id, z := z == "1" || z == "11" || z == "10", zr := z == "1" || z == "11" || z == "01", post := p == "1", wtag := wt, rtag := rt } :: st.sets.filter (·.id != id) }, "ok")
  | ["name", id, key, ph] =>
    match getSet st id, unhexStr ph with
    | some s, some path =>
      let s' := { s with names := (key, path) :: s.names.filter (fun e => e.1 != key && e.2 != path) }
      ({ st with sets := s' :: st.sets.filter (·.id != id), paths := insertSorted path st.paths }, "ok")
    | _, _ => (st, "bad-op")
  | ["alias", id, key, ph] =>
    match getSet st id, unhexStr ph with
    | some s, some path =>
      let s' := { s with aliases := (key, path) :: s.aliases.filter (fun e => e.1 != key) }
      ({ st with sets := s' :: st.sets.filter (·.id != id), paths := insertSorted path st.paths }, "ok")
    | _, _ => (st, "bad-op")
  | ["write", id, key, data, wt] =>
    match getSet st id with
    | some s =>
      if (s.names.find? (·.1 == key)).isNone then (st, "no-name")
      else
        let s' := if wt == "-" then s else { s with wtag := wt }
        ({ st with fs := write s'.model st.fs key data }, "ok")
    | none => (st, "bad-op")
  | ["read", id, ph, rt] =>
    match getSet st id, unhexStr ph with
    | some s, some path =>
      let s' := if rt == "-" then s else { s with rtag := rt }
      (st, match read s'.model st.fs path with | some d => d | none => "raise")
    | _, _ => (st, "bad-op")
  | ["find", id, qs, qe] =>
    match getSet st id, qs.toInt?, qe.toInt? with
    | some s, some qs, some qe =>
      let r := findKeys s.model st.fs st.paths (overlapQ qs qe)
      (st, if r.isEmpty then "-" else " ".intercalate (r.map (fun f => hexStr f.1 ++ ":" ++ f.2)))
    | _, _, _ => (st, "bad-op")
  | ["move", src, dst, cp, cv, wt, qs, qe] =>
    match getSet st src, getSet st dst, qs.toInt?, qe.toInt? with
    | some s, some t, some qs, some qe =>
      let sel := findKeys s.model st.fs st.paths (overlapQ qs qe)
      let t' := if wt == "-" then t else { t with wtag := wt }
      match moveAll s.model t'.model (cp == "1") (convOf cv) st.fs sel with
      | some fs' => ({ st with fs := fs' }, "ok")
      | none => (st, "raise")
    | _, _, _, _ => (st, "bad-op")
  | "movefiles" :: src :: dst :: cp :: cv :: wt :: phs =>
    match getSet st src, getSet st dst with
    | some s, some t =>
      match selOfPaths s st phs with
      | some sel =>
        let t' := if wt == "-" then t else { t with wtag := wt }
        match moveAll s.model t'.model (cp == "1") (convOf cv) st.fs sel with
        | some fs' => ({ st with fs := fs' }, "ok")
        | none => (st, "raise")
      | none => (st, "bad-op")
    | _, _ => (st, "bad-op")
  | ["delete", id, dry, qs, qe] =>
    match getSet st id, qs.toInt?, qe.toInt? with
    | some s, some qs, some qe =>
      let sel := findKeys s.model st.fs st.paths (overlapQ qs qe)
      ({ st with fs := deleteAll (dry == "1") st.fs (sel.map (·.1)) }, "ok")
    | _, _, _ => (st, "bad-op")
  | "deletefiles" :: id :: dry :: phs =>
    match getSet st id with
    | some s =>
      match selOfPaths s st phs with
      | some sel => ({ st with fs := deleteAll (dry == "1") st.fs (sel.map (·.1)) }, "ok")
      | none => (st, "bad-op")
    | none => (st, "bad-op")
  | ["ls"] =>
    let r := st.paths.filterMap (fun p => (st.fs p).map (fun c => hexStr p ++ "=" ++ c.show))
    (st, if r.isEmpty then "-" else " ".intercalate r)
  | _ => (st, "bad-op")

partial def loop (h : IO.FS.Stream) (out : IO.FS.Stream) (s : St) : IO Unit := do
  let line ← h.getLine
  if line.isEmpty then return ()
  let (s', o) := step s (line.trimAscii.toString)
  out.putStrLn o
  loop h out s'

def main : IO Unit := do
  let out ← IO.getStdout
  loop (← IO.getStdin) out {}
  out.flush
