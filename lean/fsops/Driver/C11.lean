import Model.FsOps
/-!
Line-protocol driver for C11 (write / find / read / move / copy / delete through filesets).

The naming functions are parameters of the model; the harness fills them with the names the real
`get_filename` generated (`name` lines).  Keys are tokens `S_E_ATTR` (start µs, end µs, attribute text without
blanks); data are opaque tokens; contents are printed as `r:TOKEN` (handler output) wrapped in `z:` per
compression layer.

  fileset ID Z P                      -> ok     (Z = 1: names end in a compression suffix; P = 1: post_reader "P.")
  name ID KEY PATHHEX                 -> ok     (ID.nameOf KEY = PATH, ID.parse PATH = KEY)
  write ID KEY DATA                   -> ok | no-name
  read ID PATHHEX                     -> DATA | raise
  find ID QS QE                       -> PATHHEX:KEY ... (sorted) | -
  move SRC DST COPY CONV QS QE        -> ok | raise    (CONV 0: plain, 1: convert=True, 2: convert=g, g d = "G." ++ d)
  delete ID DRY QS QE                 -> ok
  ls                                  -> PATHHEX=CONTENT ... (sorted) | -
-/
open FsOps FSModel

inductive C where
  | raw (tok : String)
  | gz (c : C)
  deriving BEq, Inhabited

def C.show : C → String
  | .raw t => "r:" ++ t
  | .gz c => "z:" ++ c.show

structure FSet where
  id : String
  z : Bool
  post : Bool
  names : List (String × String) := []     -- key ↦ path

structure St where
  sets : List FSet := []
  fs : FS C := FS.empty
  paths : List String := []                 -- every path ever named (candidates of find / ls)

def FSet.model (s : FSet) : FileSetM String String C where
  nameOf k := match s.names.find? (·.1 == k) with | some e => e.2 | none => "?unnamed:" ++ s.id ++ ":" ++ k
  parse p := (s.names.find? (·.2 == p)).map (·.1)
  hwrite d := .raw d
  hread c := match c with | .raw d => some d | .gz _ => none
  post d := if s.post then "P." ++ d else d
  enc c := if s.z then .gz c else c
  dec c := if s.z then (match c with | .gz c' => some c' | .raw _ => none) else some c

def keyTimes (k : String) : Option (Int × Int) :=
  match k.splitOn "_" with
  | s :: e :: _ => match s.toInt?, e.toInt? with
    | some a, some b => some (a, b)
    | _, _ => none
  | _ => none

def overlapQ (qs qe : Int) (k : String) : Bool :=
  match keyTimes k with
  | some (a, b) => decide (a ≤ qe ∧ qs ≤ b)
  | none => false

def insertSorted (x : String) : List String → List String
  | [] => [x]
  | y :: r => if x < y then x :: y :: r else if x = y then y :: r else y :: insertSorted x r

def hexStr (s : String) : String :=
  let hd (n : Nat) : Char := if n < 10 then Char.ofNat (48 + n) else Char.ofNat (87 + n)
  let bs := s.toUTF8.toList
  if bs.isEmpty then "-" else String.ofList (bs.flatMap (fun x => [hd (x.toNat / 16), hd (x.toNat % 16)]))

def hexVal (c : Char) : Option Nat :=
  if '0' ≤ c ∧ c ≤ '9' then some (c.toNat - 48)
  else if 'a' ≤ c ∧ c ≤ 'f' then some (c.toNat - 87) else none

def unhexL : List Char → Option (List UInt8)
  | [] => some []
  | a :: b :: r => do
    let x ← hexVal a
    let y ← hexVal b
    let t ← unhexL r
    pure (UInt8.ofNat (16 * x + y) :: t)
  | _ => none

def unhexStr (s : String) : Option String := do
  let b ← if s = "-" then some [] else unhexL s.toList
  String.fromUTF8? ⟨b.toArray⟩

def getSet (st : St) (id : String) : Option FSet := st.sets.find? (·.id == id)

def step (st : St) (line : String) : St × String :=
  match (line.splitOn " ").filter (· ≠ "") with
  | ["fileset", id, z, p] =>
    ({ st with sets := { id := id, z := z == "1", post := p == "1" } :: st.sets.filter (·.id != id) }, "ok")
  | ["name", id, key, ph] =>
    match getSet st id, unhexStr ph with
    | some s, some path =>
      let s' := { s with names := (key, path) :: s.names.filter (fun e => e.1 != key) }
      ({ st with sets := s' :: st.sets.filter (·.id != id), paths := insertSorted path st.paths }, "ok")
    | _, _ => (st, "bad-op")
  | ["write", id, key, data] =>
    match getSet st id with
    | some s =>
      if (s.names.find? (·.1 == key)).isNone then (st, "no-name")
      else ({ st with fs := write s.model st.fs key data }, "ok")
    | none => (st, "bad-op")
  | ["read", id, ph] =>
    match getSet st id, unhexStr ph with
    | some s, some path => (st, match read s.model st.fs path with | some d => d | none => "raise")
    | _, _ => (st, "bad-op")
  | ["find", id, qs, qe] =>
    match getSet st id, qs.toInt?, qe.toInt? with
    | some s, some qs, some qe =>
      let r := findKeys s.model st.fs st.paths (overlapQ qs qe)
      (st, if r.isEmpty then "-" else " ".intercalate (r.map (fun f => hexStr f.1 ++ ":" ++ f.2)))
    | _, _, _ => (st, "bad-op")
  | ["move", src, dst, cp, cv, qs, qe] =>
    match getSet st src, getSet st dst, qs.toInt?, qe.toInt? with
    | some s, some t, some qs, some qe =>
      let sel := findKeys s.model st.fs st.paths (overlapQ qs qe)
      let conv : Option (String → String) :=
        if cv == "0" then none else if cv == "1" then some id else some (fun d => "G." ++ d)
      match moveAll s.model t.model (cp == "1") conv st.fs sel with
      | some fs' => ({ st with fs := fs' }, "ok")
      | none => (st, "raise")
    | _, _, _, _ => (st, "bad-op")
  | ["delete", id, dry, qs, qe] =>
    match getSet st id, qs.toInt?, qe.toInt? with
    | some s, some qs, some qe =>
      let sel := findKeys s.model st.fs st.paths (overlapQ qs qe)
      ({ st with fs := deleteAll (dry == "1") st.fs (sel.map (·.1)) }, "ok")
    | _, _, _ => (st, "bad-op")
  | ["ls"] =>
    let r := st.paths.filterMap (fun p => (st.fs p).map (fun c => hexStr p ++ "=" ++ c.show))
    (st, if r.isEmpty then "-" else " ".intercalate r)
  | _ => (st, "bad-op")

partial def loop (h : IO.FS.Stream) (out : IO.FS.Stream) (s : St) : IO Unit := do
  let line ← h.getLine
  if line.isEmpty then return ()
  let (s', o) := step s (line.trimAscii.toString)
  out.putStrLn o
  loop h out s'

def main : IO Unit := do
  let out ← IO.getStdout
  loop (← IO.getStdin) out {}
  out.flush
