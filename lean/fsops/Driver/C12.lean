import Model.Compress
/-!
Line-protocol driver for C12 (compress / decompress).  Every line is one self-contained scenario on an empty
state; names and contents are hex-encoded UTF-8 / bytes ("-" = empty).

  names NAME FMT|-                 -> fmt=HEX known=true|false memberC=HEX memberD=HEX base=HEX ext=HEX
  compress NAME FMT|- FAULT|- BODY CONTENT OLD
        FAULT ∈ mkTmpDir openSrc openTarget ctor copy;  BODY ∈ write idle writeraise idleraise
        OLD (target before) ∈ absent dir HEX
     -> ok|raised target=absent|dir|partial|old|enc:FMT:MEMBERHEX:CONTENTHEX tmpclean=true|false yielded=temp|name
  decompress NAME FAULT|- BODY ARCHIVE
        FAULT ∈ mkTmpFile ctor copy;  BODY ∈ read raise
        ARCHIVE ∈ absent dir corrupt enc:FMT:MEMBERHEX:CONTENTHEX
     -> ok|raised seen=HEX|none tmpclean=true|false yielded=temp|name
  decompressto NAME FAULT|- BODY ARCHIVE        (decompress with target="out/explicit.tmp")
     -> ok|raised seen=HEX|none tmpclean=true|false yielded=target|name target=absent|present

The codec parameter is instantiated by a tagging codec: `enc f m b` = tag of f, length-prefixed member name, b.
-/
open Compress FSModel

def hexVal (c : Char) : Option Nat :=
  if '0' ≤ c ∧ c ≤ '9' then some (c.toNat - 48)
  else if 'a' ≤ c ∧ c ≤ 'f' then some (c.toNat - 87) else none

def unhexL : List Char → Option (List UInt8)
  | [] => some []
  | a :: b :: r => do
    let x ← hexVal a
    let y ← hexVal b
    let t ← unhexL r
    pure (UInt8.ofNat (16 * x + y) :: t)
  | _ => none

def unhex (s : String) : Option (List UInt8) := if s = "-" then some [] else unhexL s.toList

def hexDigit (n : Nat) : Char := if n < 10 then Char.ofNat (48 + n) else Char.ofNat (87 + n)

def hex (b : List UInt8) : String :=
  if b.isEmpty then "-" else
    String.ofList (b.flatMap (fun x => [hexDigit (x.toNat / 16), hexDigit (x.toNat % 16)]))

def unhexStr (s : String) : Option String := do
  let b ← unhex s
  String.fromUTF8? ⟨b.toArray⟩

def hexStr (s : String) : String := hex s.toUTF8.toList

def tagOf : Fmt → UInt8
  | .gz => 1 | .bz2 => 2 | .zip => 3 | .xz => 4

/-- tagging codec: [tag, len(member) (2 bytes), member bytes, content]; only zip records the member name -/
def tagCodec : Codec where
  enc f m b :=
    let mb := if f == .zip then m.toUTF8.toList else []
    tagOf f :: UInt8.ofNat (mb.length / 256) :: UInt8.ofNat (mb.length % 256) :: (mb ++ b)
  dec f m a :=
    match a with
    | t :: h :: l :: rest =>
      let n := h.toNat * 256 + l.toNat
      let mb := if f == .zip then m.toUTF8.toList else []
      if t == tagOf f ∧ rest.take n == mb ∧ n == mb.length then some (rest.drop n) else none
    | _ => none

def showEnc (a : Bytes) : String :=
  match a with
  | t :: h :: l :: rest =>
    let n := h.toNat * 256 + l.toNat
    let f := if t == 1 then "gz" else if t == 2 then "bz2" else if t == 3 then "zip" else if t == 4 then "xz" else "?"
    s!"enc:{f}:{hex (rest.take n)}:{hex (rest.drop n)}"
  | _ => "enc:?"

def parseEnc (s : String) : Option Bytes :=
  match s.splitOn ":" with
  | ["enc", f, m, c] => do
    let f ← Fmt.ofString? f
    let mb ← unhex m
    let cb ← unhex c
    pure (tagOf f :: UInt8.ofNat (mb.length / 256) :: UInt8.ofNat (mb.length % 256) :: (mb ++ cb))
  | _ => none

def cstep? (s : String) : Option (Option CStep) :=
  match s with
  | "-" => some none
  | "mkTmpDir" => some (some .mkTmpDir)
  | "openSrc" => some (some .openSrc)
  | "openTarget" => some (some .openTarget)
  | "ctor" => some (some .ctor)
  | "copy" => some (some .copy)
  | _ => none

def dstep? (s : String) : Option (Option DStep) :=
  match s with
  | "-" => some none
  | "mkTmpFile" => some (some .mkTmpFile)
  | "ctor" => some (some .ctor)
  | "copy" => some (some .copy)
  | _ => none

def st0 : St := { user := FS.empty, tmp := FS.empty, next := 0 }

/-- all temporary names a scenario can touch -/
def tmpClean (st : St) : Bool :=
  ["t0", "t0/temp", "t1", "t1/temp"].all (fun q => st.tmp q == none)

def step (line : String) : String :=
  match (line.splitOn " ").filter (· ≠ "") with
  | ["names", nm, fm] =>
    match unhexStr nm, (if fm = "-" then some none else (unhexStr fm).map some) with
    | some name, some fmtArg =>
      let fmtS := (fmtArg : Option String).getD (fmtOfName name)
      let sp := splitext name.toList
      s!"fmt={hexStr fmtS} known={isFmt fmtS} memberC={hexStr (memberC name fmtS)} memberD={hexStr (memberD name)} " ++
        s!"base={hexStr (String.ofList sp.1)} ext={hexStr (String.ofList sp.2)}"
    | _, _ => "bad-op"
  | ["compress", nm, fm, fl, bd, ct, old] =>
    match unhexStr nm, (if fm = "-" then some none else (unhexStr fm).map some), cstep? fl, unhex ct with
    | some name, some fmtArg, some fault, some content =>
      let oldU : Option (Option UFile) :=
        if old = "absent" then some none else if old = "dir" then some (some .dir)
        else (unhex old).map (fun b => some (.data b))
      match oldU with
      | none => "bad-op"
      | some oldU =>
        let st : St := { st0 with user := match oldU with | some u => st0.user.set name u | none => st0.user }
        let known := isFmt ((fmtArg : Option String).getD (fmtOfName name))
        let raises := bd = "writeraise" ∨ bd = "idleraise"
        let writes := bd = "write" ∨ bd = "writeraise"
        let body : Body :=
          if !writes then idleBody raises
          else if known then writeBody content raises
          else fun p s => ({ s with user := s.user.set p (.data content) }, raises)      -- pass-through: a user file
        let r := compress tagCodec name fmtArg fault body st
        let tgt := match r.1.user name with
          | none => "absent"
          | some .dir => "dir"
          | some .partialOut => "partial"
          | some (.data a) => if some (UFile.data a) == oldU then "old" else if known then showEnc a else "raw:" ++ hex a
        let o := if r.2 == .ok then "ok" else "raised"
        s!"{o} target={tgt} tmpclean={tmpClean r.1} yielded={if known then "temp" else "name"}"
    | _, _, _, _ => "bad-op"
  | ["decompressto", nm, fl, bd, ar] =>
    -- decompress(name, target="out/explicit.tmp")
    match unhexStr nm, dstep? fl with
    | some name, some fault =>
      let arch : Option (Option UFile) :=
        if ar = "absent" then some none else if ar = "dir" then some (some .dir)
        else if ar = "corrupt" then some (some .partialOut)
        else if ar.startsWith "raw:" then (unhex (ar.drop 4).toString).map (fun b => some (.data b))
        else (parseEnc ar).map (fun b => some (.data b))
      match arch with
      | none => "bad-op"
      | some arch =>
        let tgt := "out/explicit.tmp"
        let st : St := { st0 with user := match arch with | some u => st0.user.set name u | none => st0.user }
        let known := isFmt (fmtOfName name)
        let raises := bd = "raise"
        let body : Body := fun p s =>
          let got : Option Bytes := match s.user p with | some (.data b) => some b | _ => none
          ({ s with user := match got with | some b => s.user.set "\x00seen" (.data b) | none => s.user }, raises)
        let r := decompressTo tagCodec name tgt fault body st
        let seen := match r.1.user "\x00seen" with | some (.data b) => hex b | _ => "none"
        let o := if r.2 == .ok then "ok" else "raised"
        let t := if (r.1.user tgt).isSome then "present" else "absent"
        s!"{o} seen={seen} tmpclean={tmpClean r.1} yielded={if known then "target" else "name"} target={t}"
    | _, _ => "bad-op"
  | ["decompress", nm, fl, bd, ar] =>
    match unhexStr nm, dstep? fl with
    | some name, some fault =>
      let arch : Option (Option UFile) :=
        if ar = "absent" then some none else if ar = "dir" then some (some .dir)
        else if ar = "corrupt" then some (some .partialOut)
        else if ar.startsWith "raw:" then (unhex (ar.drop 4).toString).map (fun b => some (.data b))
        else (parseEnc ar).map (fun b => some (.data b))
      match arch with
      | none => "bad-op"
      | some arch =>
        let st : St := { st0 with user := match arch with | some u => st0.user.set name u | none => st0.user }
        let known := isFmt (fmtOfName name)
        -- the body records what it reads at the yielded path in the reserved user file "\x00seen"
        let raises := bd = "raise"
        let body : Body := fun p s =>
          let got : Option Bytes :=
            if known then (match s.tmp p with | some (.file b) => some b | _ => none)
            else (match s.user p with | some (.data b) => some b | _ => none)
          ({ s with user := match got with | some b => s.user.set "\x00seen" (.data b) | none => s.user }, raises)
        let r := decompress tagCodec name fault body st
        let seen := match r.1.user "\x00seen" with | some (.data b) => hex b | _ => "none"
        let o := if r.2 == .ok then "ok" else "raised"
        s!"{o} seen={seen} tmpclean={tmpClean r.1} yielded={if known then "temp" else "name"}"
    | _, _ => "bad-op"
  | _ => "bad-op"

partial def loop (h : IO.FS.Stream) (out : IO.FS.Stream) : IO Unit := do
  let line ← h.getLine
  if line.isEmpty then return ()
  out.putStrLn (step (line.trimAscii.toString))
  loop h out

def main : IO Unit := do
  let out ← IO.getStdout
  loop (← IO.getStdin) out
  out.flush
