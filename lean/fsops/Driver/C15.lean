import Lean.Data.Json
import Model.Cache
/-!
Line-protocol driver for C15 (file-info cache).  One output line per input line.
JSON is used as the *protocol* syntax for structured values (parsed with Lean's own parser); the model's
`decode` parameter is a table the harness fills with what the real `json.load` returned for a byte string.

  fmt y mo d h mi s us            -> time text | invalid
  parse HEX                       -> "y mo d h mi s us" | err            (HEX = utf-8 text, "-" = empty)
  new                             -> ok        (empty disk, empty cache, empty decode table)
  file NAME absent|dir|HEX|-      -> ok        (set / remove a disk node)
  dec HEX|- fail                  -> ok        (json.load raises on these bytes)
  dec HEX|- JSON                  -> ok        (json.load returns JSON)
  cacheset JSON                   -> ok        (JSON = [[key, t0, t1, attr], ...], t = [7 ints])
  save NAME N HEX*                -> doc=JSON cache=STATE backup=STATE
        N = -1: complete save; N ≥ 0: an exception after N events of (open, write₁ … write_k)
        (N = 0 the open fails, N = k+1 all writes done and the rename fails)
  load NAME | init NAME           -> warn|ok CACHEJSON
  getinfo KEYJSON INFOJSON|raise  -> INFOJSON | raise      (INFOJSON = [key, t0, t1, attr]: what get_info computes)
  reset                           -> ok
  dump                            -> CACHEJSON
-/
open Lean Cache FSModel

structure St where
  disk : Disk := { files := FS.empty, bufs := FS.empty }
  cache : CacheMap := []
  dec : List (Bytes × Option J) := []

partial def ofJson : Json → J
  | .null => .null
  | .bool b => .bool b
  | .num n => .num n.toString
  | .str s => .str s
  | .arr xs => .arr (xs.toList.map ofJson)
  | .obj kvs => .obj (kvs.toList.map (fun kv => (kv.1, ofJson kv.2)))

partial def toJson' : J → Json
  | .null => .null
  | .bool b => .bool b
  | .num l => match Json.parse l with | .ok j => j | .error _ => .str ("?num:" ++ l)
  | .str s => .str s
  | .arr xs => .arr (xs.map toJson').toArray
  | .obj kvs => Json.mkObj (kvs.map (fun kv => (kv.1, toJson' kv.2)))

def hexVal (c : Char) : Option Nat :=
  if '0' ≤ c ∧ c ≤ '9' then some (c.toNat - 48)
  else if 'a' ≤ c ∧ c ≤ 'f' then some (c.toNat - 87) else none

def unhexL : List Char → Option (List UInt8)
  | [] => some []
  | a :: b :: r => do
    let x ← hexVal a
    let y ← hexVal b
    let t ← unhexL r
    pure (UInt8.ofNat (16 * x + y) :: t)
  | _ => none

def unhex (s : String) : Option (List UInt8) := if s = "-" then some [] else unhexL s.toList

def hexDigit (n : Nat) : Char := if n < 10 then Char.ofNat (48 + n) else Char.ofNat (87 + n)

def hex (b : List UInt8) : String :=
  if b.isEmpty then "-" else
    String.ofList (b.flatMap (fun x => [hexDigit (x.toNat / 16), hexDigit (x.toNat % 16)]))

def showNode : Option Node → String
  | none => "absent"
  | some .dir => "dir"
  | some (.file b) => hex b

def slotJson (t : DateTime) : Json :=
  .arr #[t.y, t.mo, t.d, t.h, t.mi, t.s, t.us]

def infoJson (i : Info) : Json :=
  .arr #[toJson' i.path.toJ, slotJson i.t0, slotJson i.t1, toJson' i.attr]

def cacheJson (c : CacheMap) : String :=
  (Json.arr (c.map (fun kv => infoJson kv.2)).toArray).compress

def slotOf : Json → Option DateTime
  | .arr xs =>
    match xs.toList.mapM (fun j => j.getNat?.toOption) with
    | some [y, mo, d, h, mi, s, us] => some ⟨y, mo, d, h, mi, s, us⟩
    | _ => none
  | _ => none

def infoOf : Json → Option Info
  | .arr xs =>
    match xs.toList with
    | [k, a, b, attr] => do
      let k ← (ofJson k).toKey?
      let a ← slotOf a
      let b ← slotOf b
      pure { path := k, t0 := a, t1 := b, attr := ofJson attr }
    | _ => none
  | _ => none

def decodeTab (tab : List (Bytes × Option J)) (b : Bytes) : Option J :=
  match tab.find? (fun e => e.1 == b) with
  | some e => e.2
  | none => none

def restOf (line : String) (n : Nat) : String :=
  -- the text after the first n blank-separated words
  let rec go (cs : List Char) (k : Nat) : List Char :=
    match k with
    | 0 => cs
    | k + 1 => go ((cs.dropWhile (· ≠ ' ')).dropWhile (· = ' ')) k
  String.ofList (go line.toList n)

def step' (s : St) (line : String) : St × String :=
  let ws := (line.splitOn " ").filter (· ≠ "")
  match ws with
  | ["fmt", y, mo, d, h, mi, sec, us] =>
    match [y, mo, d, h, mi, sec, us].mapM String.toNat? with
    | some [y, mo, d, h, mi, sec, us] =>
      let t : DateTime := ⟨y, mo, d, h, mi, sec, us⟩
      if t.valid then (s, String.ofList (fmtTime t)) else (s, "invalid")
    | _ => (s, "bad-op")
  | ["parse", hx] =>
    match unhex hx >>= (fun b => String.fromUTF8? ⟨b.toArray⟩) with
    | some txt =>
      match parseTime txt.toList with
      | some t => (s, s!"{t.y} {t.mo} {t.d} {t.h} {t.mi} {t.s} {t.us}")
      | none => (s, "err")
    | none => (s, "bad-op")
  | ["new"] => ({}, "ok")
  | ["file", name, what] =>
    if what = "absent" then ({ s with disk := { s.disk with files := s.disk.files.del name } }, "ok")
    else if what = "dir" then ({ s with disk := { s.disk with files := s.disk.files.set name .dir } }, "ok")
    else match unhex what with
      | some b => ({ s with disk := { s.disk with files := s.disk.files.set name (.file b) } }, "ok")
      | none => (s, "bad-op")
  | "dec" :: hx :: _ =>
    match unhex hx with
    | none => (s, "bad-op")
    | some b =>
      let r := restOf line 2
      if r = "fail" then ({ s with dec := (b, none) :: s.dec }, "ok")
      else match Json.parse r with
        | .ok j => ({ s with dec := (b, some (ofJson j)) :: s.dec }, "ok")
        | .error _ => (s, "bad-op")
  | "cacheset" :: _ =>
    match Json.parse (restOf line 1) with
    | .ok (.arr xs) =>
      match xs.toList.mapM infoOf with
      | some infos => ({ s with cache := infos.map (fun i => (i.path, i)) }, "ok")
      | none => (s, "bad-op")
    | _ => (s, "bad-op")
  | "save" :: name :: n :: chunks =>
    match n.toInt?, chunks.mapM unhex with
    | some n, some cs =>
      let fin (d : Disk) (doc : String) : St × String :=
        ({ s with disk := { d with bufs := FS.empty } },
         s!"doc={doc} cache={showNode (d.files name)} backup={showNode (d.files (backupOf name))}")
      let evs := saveEvents name cs []
      let docs := (toJson' (cacheDoc s.cache)).compress
      if n < 0 then fin (run s.disk evs) docs
      else fin (crashExc s.disk name evs n.toNat) docs
    | _, _ => (s, "bad-op")
  | [op, name] =>
    if op = "load" ∨ op = "init" then
      let c0 := if op = "init" then [] else s.cache
      let r := load (decodeTab s.dec) s.disk name c0
      ({ s with cache := r.cache }, (if r.warned then "warn " else "ok ") ++ cacheJson r.cache)
    else (s, "bad-op")
  | "getinfo" :: _ =>
    -- KEYJSON has no blanks (the harness guarantees it); the rest is the computed info
    match ws with
    | _ :: k :: _ =>
      match Json.parse k with
      | .ok kj =>
        match (ofJson kj).toKey? with
        | some key =>
          let r := restOf line 2
          let comp : Option Info := if r = "raise" then none else
            match Json.parse r with | .ok j => infoOf j | .error _ => none
          let (ans, c') := getInfo (fun _ => comp) s.cache key
          ({ s with cache := c' }, match ans with | some i => (infoJson i).compress | none => "raise")
        | none => (s, "bad-op")
      | .error _ => (s, "bad-op")
    | _ => (s, "bad-op")
  | ["reset"] => ({ s with cache := resetCache s.cache }, "ok")
  | ["dump"] => (s, cacheJson s.cache)
  | _ => (s, "bad-op")

partial def loop (h : IO.FS.Stream) (out : IO.FS.Stream) (s : St) : IO Unit := do
  let line ← h.getLine
  if line.isEmpty then return ()
  let (s', o) := step' s (line.trimAscii.toString)
  out.putStrLn o
  loop h out s'

def main : IO Unit := do
  let out ← IO.getStdout
  loop (← IO.getStdin) out {}
  out.flush
