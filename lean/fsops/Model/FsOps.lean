import Model.FS
/-!
# C11 — model of writing / reading / moving / copying / deleting files through a FileSet

Modelled code (typhon/files/fileset.py after `fix:` 0e4e007): `__setitem__` / `write` (`write`), `find` on the
candidates (`findKeys`), `__getitem__` / `read` (`read`), `move` + `_move_single_file` (`moveOne`, `moveAll`),
`delete` + `_delete_single_file` / `_dry_delete` (`deleteAll`).

Parameters with contracts (hypotheses of the theorems, never axioms):
* the naming of a fileset: `nameOf` (= `get_filename(times, fill=attr)`) and `parse` (= `get_info` via the file
  name); contract `parse (nameOf k) = some k` (that is property C02);
* the handler: `hwrite : Data → Content`, `hread : Content → Option Data`, `post` (post_reader);
  contract `hread (hwrite d) = some d`;
* transparent compression chosen by the fileset's suffix: `enc`, `dec`; contract `dec (enc c) = some c`
  (property C12).
The file system is `path ⇀ Content` (directories are created on demand by `make_dirs`, so they carry no
information).  `none` results model a raised exception.
-/
namespace FsOps
open FSModel

structure FileSetM (Key Data Content : Type) where
  nameOf : Key → String
  parse : String → Option Key
  hwrite : Data → Content
  hread : Content → Option Data
  post : Data → Data
  enc : Content → Content
  dec : Content → Option Content

variable {Key Data Content : Type}

/-- what `write` stores: handler output, compressed when the suffix says so -/
def FileSetM.encode (S : FileSetM Key Data Content) (d : Data) : Content := S.enc (S.hwrite d)

/-- what `read` returns for stored bytes: decompress, handler, post_reader -/
def FileSetM.decode (S : FileSetM Key Data Content) (c : Content) : Option Data :=
  match S.dec c with
  | none => none
  | some u => match S.hread u with
    | none => none
    | some d => some (S.post d)

/-- `fileset[s:e, fill] = d` / `fileset.write(d, fileset.get_filename((s, e), fill))` -/
def write (S : FileSetM Key Data Content) (fs : FS Content) (k : Key) (d : Data) : FS Content :=
  fs.set (S.nameOf k) (S.encode d)

/-- `find` restricted to a list of candidate paths: existing files whose name parses and whose key passes the
selection `q` (period overlap, filters) -/
def findKeys (S : FileSetM Key Data Content) (fs : FS Content) (cands : List String) (q : Key → Bool) :
    List (String × Key) :=
  cands.filterMap (fun p =>
    match fs p, S.parse p with
    | some _, some k => if q k then some (p, k) else none
    | _, _ => none)

/-- `fileset.read(path)` -/
def read (S : FileSetM Key Data Content) (fs : FS Content) (p : String) : Option Data :=
  match fs p with
  | none => none
  | some c => S.decode c

/-- `_move_single_file(file_info, fileset, destination, convert, copy)`; `conv = none`: plain move / copy of the
bytes; `conv = some g`: read with the source handler, apply `g`, write with the destination handler -/
def moveOne (S T : FileSetM Key Data Content) (copy : Bool) (conv : Option (Data → Data)) (fs : FS Content)
    (f : String × Key) : Option (FS Content) :=
  let tgt := T.nameOf f.2
  match fs f.1 with
  | none => none                                      -- FileNotFoundError
  | some c =>
    match conv with
    | none => some (if copy then fs.set tgt c else (fs.set tgt c).del f.1)
    | some g =>
      match S.decode c with
      | none => none                                  -- the source handler raises
      | some d =>
        let fs1 := fs.set tgt (T.encode (g d))
        some (if copy then fs1 else fs1.del f.1)

/-- `move`: the selected files one after the other (the pool's order does not matter under the hypotheses of
`C11_move_spec`) -/
def moveAll (S T : FileSetM Key Data Content) (copy : Bool) (conv : Option (Data → Data)) :
    FS Content → List (String × Key) → Option (FS Content)
  | fs, [] => some fs
  | fs, f :: r =>
    match moveOne S T copy conv fs f with
    | none => none
    | some fs' => moveAll S T copy conv fs' r

/-- content a moved file must have at its new name -/
def newContent (S T : FileSetM Key Data Content) (conv : Option (Data → Data)) (c : Content) : Option Content :=
  match conv with
  | none => some c
  | some g => match S.decode c with
    | none => none
    | some d => some (T.encode (g d))

/-- `delete(dry_run)` on the selected paths -/
def deleteAll (dry : Bool) (fs : FS Content) (paths : List String) : FS Content :=
  if dry then fs else paths.foldl (fun acc p => acc.del p) fs

/-! ## histories over two filesets (content level)

The two filesets may carry different information in their names: `S` is keyed by `KS`, `T` by `KT`, and
`ρ : KS → KT` says what of a source key the target template retains (identity for templates with the same fields,
a projection for a coarser target, an embedding when the target has more fields than the source).  Two source
files with the same `ρ`-image collide in `T` — concretely (the later one overwrites) and abstractly alike. -/

inductive Op (KS KT Content : Type) where
  | writeS (k : KS) (c : Content)
  | writeT (k : KT) (c : Content)
  | move (ks : List KS) (copy : Bool)          -- S → T, plain
  | deleteS (ks : List KS) (dry : Bool)
  | deleteT (ks : List KT) (dry : Bool)

variable {KS KT : Type}

/-- plain move of one key on the concrete file system (no-op when the source is missing) -/
def mvKey (S : FileSetM KS Data Content) (T : FileSetM KT Data Content) (ρ : KS → KT) (copy : Bool)
    (fs : FS Content) (k : KS) : FS Content :=
  match fs (S.nameOf k) with
  | none => fs
  | some c => if copy then fs.set (T.nameOf (ρ k)) c else (fs.set (T.nameOf (ρ k)) c).del (S.nameOf k)

def stepC (S : FileSetM KS Data Content) (T : FileSetM KT Data Content) (ρ : KS → KT) (fs : FS Content) :
    Op KS KT Content → FS Content
  | .writeS k c => fs.set (S.nameOf k) c
  | .writeT k c => fs.set (T.nameOf k) c
  | .move ks copy => ks.foldl (mvKey S T ρ copy) fs
  | .deleteS ks dry => deleteAll dry fs (ks.map S.nameOf)
  | .deleteT ks dry => deleteAll dry fs (ks.map T.nameOf)

def runC (S : FileSetM KS Data Content) (T : FileSetM KT Data Content) (ρ : KS → KT) (fs : FS Content)
    (ops : List (Op KS KT Content)) : FS Content :=
  ops.foldl (stepC S T ρ) fs

/-- the abstract state: what each fileset holds under each key of its own -/
structure Abs (KS KT Content : Type) where
  s : KS → Option Content
  t : KT → Option Content

def upd {K : Type} [DecidableEq K] (m : K → Option Content) (k : K) (v : Option Content) : K → Option Content :=
  fun k' => if k' = k then v else m k'

def mvKeyA [DecidableEq KS] [DecidableEq KT] (ρ : KS → KT) (copy : Bool) (a : Abs KS KT Content) (k : KS) :
    Abs KS KT Content :=
  match a.s k with
  | none => a
  | some c => { s := if copy then a.s else upd a.s k none, t := upd a.t (ρ k) (some c) }

def stepA [DecidableEq KS] [DecidableEq KT] (ρ : KS → KT) (a : Abs KS KT Content) :
    Op KS KT Content → Abs KS KT Content
  | .writeS k c => { a with s := upd a.s k (some c) }
  | .writeT k c => { a with t := upd a.t k (some c) }
  | .move ks copy => ks.foldl (mvKeyA ρ copy) a
  | .deleteS ks dry => if dry then a else { a with s := ks.foldl (fun m k => upd m k none) a.s }
  | .deleteT ks dry => if dry then a else { a with t := ks.foldl (fun m k => upd m k none) a.t }

def runA [DecidableEq KS] [DecidableEq KT] (ρ : KS → KT) (a : Abs KS KT Content) (ops : List (Op KS KT Content)) :
    Abs KS KT Content :=
  ops.foldl (stepA ρ) a

/-- abstraction function: look every key up under its generated name -/
def absOf (S : FileSetM KS Data Content) (T : FileSetM KT Data Content) (fs : FS Content) : Abs KS KT Content :=
  { s := fun k => fs (S.nameOf k), t := fun k => fs (T.nameOf k) }

end FsOps
