import Model.FS
/-!
# C15 — model of the FileSet information cache (typhon/files/fileset.py, handlers/common.py)

Modelled code (after the `fix:` commits 6930570 and ace221c):

* `FileInfo.to_json_dict`   — `toJsonDict`  (times via `datetime.isoformat(timespec="microseconds")` = `fmtTime`)
* `FileInfo.from_json_dict` — `fromJsonDict` (times via `strptime(.., "%Y-%m-%dT%H:%M:%S.%f")` = `parseTime`)
* `FileSet.save_cache`      — `saveEvents` / `save`: open `<file>.backup` for writing (truncates), convert all
                              infos, `json.dump` writes chunk after chunk, close, `shutil.move(backup, file)`
* `FileSet.load_cache`      — `load`: exists? open, `json.load`, dict comprehension, `update`; catch-all → warning
* `FileSet.__init__`        — `init`: empty cache, `load`
* `FileSet.get_info`        — `getInfo`: cache look-up before anything else, result stored in the cache
* `FileSet.reset_cache`     — `resetCache`

The JSON *text* layer (`json.dump` / `json.load`) is a parameter (`decode`, chunk lists): its contract is a
hypothesis of the theorems.  The JSON *value* layer (what `json.load` returns) is the type `J`.
The disk keeps durable file contents and, separately, the unflushed buffer of an open writer, so that both a
Python exception in the middle of `json.dump` (the `with` block still closes the file) and a hard kill (buffers
lost) are prefixes of the same event sequence.
-/
namespace Cache
open FSModel

/-! ## time text -/

structure DateTime where
  y : Nat
  mo : Nat
  d : Nat
  h : Nat
  mi : Nat
  s : Nat
  us : Nat
  deriving DecidableEq, Repr, Inhabited

def isLeap (y : Nat) : Bool := y % 4 == 0 && (y % 100 != 0 || y % 400 == 0)

def daysIn (y mo : Nat) : Nat :=
  if mo = 2 then (if isLeap y then 29 else 28)
  else if mo = 4 ∨ mo = 6 ∨ mo = 9 ∨ mo = 11 then 30 else 31

/-- what `datetime.datetime(y, mo, d, h, mi, s, us)` accepts -/
def DateTime.valid (t : DateTime) : Bool :=
  decide (1 ≤ t.y ∧ t.y ≤ 9999 ∧ 1 ≤ t.mo ∧ t.mo ≤ 12 ∧ 1 ≤ t.d ∧ t.d ≤ daysIn t.y t.mo ∧
          t.h < 24 ∧ t.mi < 60 ∧ t.s < 60 ∧ t.us < 1000000)

def digit (n : Nat) : Char := Char.ofNat (48 + n % 10)

def pad2 (n : Nat) : List Char := [digit (n / 10), digit n]
def pad4 (n : Nat) : List Char := [digit (n / 1000), digit (n / 100), digit (n / 10), digit n]
def pad6 (n : Nat) : List Char :=
  [digit (n / 100000), digit (n / 10000), digit (n / 1000), digit (n / 100), digit (n / 10), digit n]

/-- `datetime.isoformat(timespec="microseconds")` of a naive datetime -/
def fmtTime (t : DateTime) : List Char :=
  pad4 t.y ++ '-' :: pad2 t.mo ++ '-' :: pad2 t.d ++ 'T' :: pad2 t.h ++ ':' :: pad2 t.mi ++ ':' ::
    pad2 t.s ++ '.' :: pad6 t.us

def isDig (c : Char) : Bool := decide (48 ≤ c.toNat ∧ c.toNat ≤ 57)
def digitVal (c : Char) : Nat := c.toNat - 48

/-- maximal prefix of ASCII digits, and the rest -/
def spanDigits : List Char → List Char × List Char
  | [] => ([], [])
  | c :: r => if isDig c then ((spanDigits r).1.cons c, (spanDigits r).2) else ([], c :: r)

def numOf (ds : List Char) : Nat := ds.foldl (fun a c => 10 * a + digitVal c) 0

/-- One numeric directive of `_strptime`'s regular expression followed by a non-digit literal (or the end):
the alternatives (`1[0-2]|0[1-9]|[1-9]` …) accept exactly the digit runs of `minW..maxW` characters whose value
lies in `lo..hi`; a longer run makes the following literal fail. -/
def numField (minW maxW lo hi : Nat) (s : List Char) : Option (Nat × List Char) :=
  let ds := (spanDigits s).1
  if minW ≤ ds.length ∧ ds.length ≤ maxW ∧ lo ≤ numOf ds ∧ numOf ds ≤ hi then
    some (numOf ds, (spanDigits s).2) else none

/-- `%d` = `3[0-1]|[1-2]\d|0[1-9]|[1-9]| [1-9]` -/
def dayField (s : List Char) : Option (Nat × List Char) :=
  match s with
  | ' ' :: c :: r =>
    if isDig c ∧ digitVal c ≠ 0 ∧ (spanDigits r).1 = [] then some (digitVal c, r) else none
  | _ => numField 1 2 1 31 s

def expect (c : Char) : List Char → Option (List Char)
  | x :: r => if x = c then some r else none
  | [] => none

/-- the regex is compiled with `re.IGNORECASE`: the literal `T` also matches `t` -/
def expectT : List Char → Option (List Char)
  | x :: r => if x = 'T' ∨ x = 't' then some r else none
  | [] => none

/-- `datetime.strptime(s, "%Y-%m-%dT%H:%M:%S.%f")` on ASCII text; `none` = ValueError -/
def parseTime (s : List Char) : Option DateTime := do
  let (y, s) ← numField 4 4 0 9999 s
  let s ← expect '-' s
  let (mo, s) ← numField 1 2 1 12 s
  let s ← expect '-' s
  let (d, s) ← dayField s
  let s ← expectT s
  let (h, s) ← numField 1 2 0 23 s
  let s ← expect ':' s
  let (mi, s) ← numField 1 2 0 59 s
  let s ← expect ':' s
  let (sec, s) ← numField 1 2 0 61 s
  let s ← expect '.' s
  let fr := (spanDigits s).1
  if 1 ≤ fr.length ∧ fr.length ≤ 6 ∧ (spanDigits s).2 = [] then
    let t : DateTime := ⟨y, mo, d, h, mi, sec, numOf fr * 10 ^ (6 - fr.length)⟩
    if t.valid then some t else none
  else none

/-! ## JSON values and FileInfo -/

/-- what `json.load` returns; a number keeps its literal text -/
inductive J where
  | null
  | bool (b : Bool)
  | num (lit : String)
  | str (s : String)
  | arr (xs : List J)
  | obj (kvs : List (String × J))
  deriving Inhabited

/-- hashable JSON values (usable as keys of the `info_cache` dictionary) -/
inductive Key where
  | null
  | bool (b : Bool)
  | num (lit : String)
  | str (s : String)
  deriving DecidableEq, Repr, Inhabited

def J.toKey? : J → Option Key
  | .null => some .null
  | .bool b => some (.bool b)
  | .num l => some (.num l)
  | .str s => some (.str s)
  | _ => none                 -- list / dict: `TypeError: unhashable type`

def Key.toJ : Key → J
  | .null => .null
  | .bool b => .bool b
  | .num l => .num l
  | .str s => .str s

structure Info where
  path : Key
  t0 : DateTime
  t1 : DateTime
  attr : J
  deriving Inhabited

def jget (kvs : List (String × J)) (k : String) : Option J :=
  match kvs with
  | [] => none
  | (k', v) :: r => match jget r k with      -- the last duplicate wins, as in `json.load`
    | some w => some w
    | none => if k' = k then some v else none

def timeSlot : J → Option DateTime
  | .str s => parseTime s.toList
  | _ => none       -- null: ValueError "time coverage is missing" (fix ace221c); other types: TypeError in strptime

/-- `json_dict["times"][0]`, `json_dict["times"][1]` -/
def timesOf : J → Option (DateTime × DateTime)
  | .arr (a :: b :: _) =>
    match timeSlot a, timeSlot b with
    | some x, some y => some (x, y)
    | _, _ => none
  | _ => none        -- short list: IndexError; str: ValueError/IndexError; dict: KeyError; scalar: TypeError

/-- `FileInfo.from_json_dict(json_dict)` together with the key expression `json_dict["path"]` of the dict
comprehension in `load_cache`; `none` = some exception (KeyError, TypeError, ValueError, IndexError) -/
def fromJsonDict : J → Option Info
  | .obj kvs =>
    match jget kvs "path", jget kvs "times", jget kvs "attr" with
    | some p, some ts, some a =>
      match p.toKey?, timesOf ts with
      | some k, some (x, y) =>
        some { path := k, t0 := x, t1 := y,
               attr := match a with | .null => .obj [] | a => a }   -- `if attr is None: self.attr = {}`
      | _, _ => none
    | _, _, _ => none
  | _ => none                                  -- `json_dict["path"]` on a non-dict: TypeError

/-- `info.to_json_dict()` -/
def toJsonDict (i : Info) : J :=
  .obj [("path", i.path.toJ),
        ("times", .arr [.str (String.ofList (fmtTime i.t0)), .str (String.ofList (fmtTime i.t1))]),
        ("attr", i.attr)]

/-! ## the in-memory cache: an insertion-ordered dictionary -/

abbrev CacheMap := List (Key × Info)

def CacheMap.get? (c : CacheMap) (k : Key) : Option Info :=
  match c with
  | [] => none
  | (k', v) :: r => if k' = k then some v else CacheMap.get? r k

/-- `d[k] = v`: replace in place or append -/
def CacheMap.put (c : CacheMap) (k : Key) (v : Info) : CacheMap :=
  match c with
  | [] => [(k, v)]
  | (k', v') :: r => if k' = k then (k, v) :: r else (k', v') :: CacheMap.put r k v

/-- `d.update(other)` -/
def CacheMap.update (c : CacheMap) (other : CacheMap) : CacheMap :=
  other.foldl (fun acc kv => acc.put kv.1 kv.2) c

/-- what iterating over the loaded JSON value yields (`for json_dict in json_info_cache`) -/
def entriesOf : J → Option (List J)
  | .arr xs => some xs
  | .obj kvs => some (kvs.map (fun kv => .str kv.1))               -- a dict iterates over its keys
  | .str s => some (s.toList.map (fun c => .str (String.singleton c)))
  | _ => none                                                        -- TypeError: not iterable

/-- the dict comprehension of `load_cache`; `none` when any entry raises -/
def docToMap (j : J) : Option CacheMap :=
  match entriesOf j with
  | none => none
  | some es =>
    match es.mapM fromJsonDict with
    | none => none
    | some infos => some (infos.foldl (fun acc i => acc.put i.path i) [])

/-! ## disk with write buffers -/

abbrev Bytes := List UInt8

inductive Node where
  | file (b : Bytes)
  | dir
  deriving DecidableEq, Repr, Inhabited

structure Disk where
  files : FS Node          -- durable contents
  bufs : FS Bytes          -- unflushed data of the (single) open writer of a path

inductive Ev where
  | openW (p : String)
  | write (p : String) (c : Bytes)
  | flush (p : String) (k : Nat)        -- the OS / the buffered writer persists the first `k` buffered bytes
  | close (p : String)
  | rename (src dst : String)
  deriving Repr

def flushN (d : Disk) (p : String) (k : Nat) : Disk :=
  match d.files p, d.bufs p with
  | some (.file b), some buf =>
    { files := d.files.set p (.file (b ++ buf.take k)), bufs := d.bufs.set p (buf.drop k) }
  | _, _ => d

def step (d : Disk) : Ev → Disk
  | .openW p => { files := d.files.set p (.file []), bufs := d.bufs.set p [] }
  | .write p c =>
    match d.bufs p with
    | some buf => { d with bufs := d.bufs.set p (buf ++ c) }
    | none => d
  | .flush p k => flushN d p k
  | .close p =>
    match d.bufs p with
    | some buf => let d' := flushN d p buf.length; { d' with bufs := d'.bufs.del p }
    | none => d
  | .rename s t =>
    match d.files s with
    | some n => { d with files := (d.files.set t n).del s }      -- atomic replace
    | none => d

def run (d : Disk) (evs : List Ev) : Disk := evs.foldl step d

def backupOf (file : String) : String := file ++ ".backup"

/-- the write/flush events of `json.dump`: chunk `i` is written, then `ks[i]` buffered bytes reach the disk -/
def bodyEvents (p : String) : List Bytes → List Nat → List Ev
  | [], _ => []
  | c :: cs, [] => .write p c :: bodyEvents p cs []
  | c :: cs, k :: ks => .write p c :: .flush p k :: bodyEvents p cs ks

/-- I/O events of `save_cache(filename)` for the chunk list produced by `json.dump` -/
def saveEvents (file : String) (chunks : List Bytes) (flushes : List Nat) : List Ev :=
  .openW (backupOf file) :: bodyEvents (backupOf file) chunks flushes ++
    [.close (backupOf file), .rename (backupOf file) file]

/-- a hard crash (kill, power loss) after `n` events: buffers are lost -/
def crashHard (d : Disk) (evs : List Ev) (n : Nat) : Disk :=
  { files := (run d (evs.take n)).files, bufs := FS.empty }

/-- an exception raised inside the `with open(backup)` block after `n` events (n ≤ length - 2):
the block's exit still closes (flushes) the backup file, the rename is skipped -/
def crashExc (d : Disk) (file : String) (evs : List Ev) (n : Nat) : Disk :=
  step (run d (evs.take n)) (.close (backupOf file))

/-! ## save / load / init / get_info -/

/-- the list handed to `json.dump` -/
def cacheDoc (c : CacheMap) : J :=
  .arr (c.map (fun kv => toJsonDict kv.2))

structure LoadResult where
  cache : CacheMap
  warned : Bool

/-- `load_cache(filename)`.  `decode` = `json.load` on the file's bytes (`none` = any exception, including
undecodable bytes); an existing directory cannot be opened. -/
def load (decode : Bytes → Option J) (d : Disk) (file : String) (c : CacheMap) : LoadResult :=
  match d.files file with
  | none => ⟨c, false⟩                          -- `os.path.exists` is false: silently nothing
  | some .dir => ⟨c, true⟩                      -- open() raises → caught → warning
  | some (.file b) =>
    match decode b with
    | none => ⟨c, true⟩
    | some j =>
      match docToMap j with
      | none => ⟨c, true⟩
      | some m => ⟨c.update m, false⟩

/-- `FileSet(..., info_cache=file)` -/
def init (decode : Bytes → Option J) (d : Disk) (file : String) : LoadResult :=
  load decode d file []

/-- `get_info`: `compute` stands for everything after the look-up (parsing the name, the handler);
`none` = it raised.  Returns the answer and the new cache. -/
def getInfo (compute : Key → Option Info) (c : CacheMap) (p : Key) : Option Info × CacheMap :=
  match c.get? p with
  | some i => (some i, c)
  | none =>
    match compute p with
    | some i => (some i, c.put i.path i)
    | none => (none, c)

/-- the look-ups of one `find()`: `get_info` for every candidate file, in order -/
def getInfos (compute : Key → Option Info) (c : CacheMap) : List Key → List (Option Info) × CacheMap
  | [] => ([], c)
  | p :: ps =>
    let r := getInfo compute c p
    let rs := getInfos compute r.2 ps
    (r.1 :: rs.1, rs.2)

def resetCache (_ : CacheMap) : CacheMap := []

end Cache
