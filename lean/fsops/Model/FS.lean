/-!
# Abstract file system shared by the C15 / C12 / C11 models

A file system is a partial map from path names to contents.  Functions (not
association lists) keep the theorems extensional: "path `p` is untouched" is
`fs' p = fs p`.  Drivers enumerate the finitely many paths they mentioned.
-/
namespace FSModel

abbrev FS (β : Type) := String → Option β

def FS.empty {β} : FS β := fun _ => none

/-- create / overwrite `p` with content `b` -/
def FS.set {β} (fs : FS β) (p : String) (b : β) : FS β :=
  fun q => if q = p then some b else fs q

/-- remove `p` (no-op when absent) -/
def FS.del {β} (fs : FS β) (p : String) : FS β :=
  fun q => if q = p then none else fs q

@[simp] theorem FS.set_same {β} (fs : FS β) (p : String) (b : β) : (fs.set p b) p = some b := by
  simp [FS.set]

@[simp] theorem FS.set_other {β} (fs : FS β) (p q : String) (b : β) (h : q ≠ p) :
    (fs.set p b) q = fs q := by
  simp [FS.set, h]

@[simp] theorem FS.del_same {β} (fs : FS β) (p : String) : (fs.del p) p = none := by
  simp [FS.del]

@[simp] theorem FS.del_other {β} (fs : FS β) (p q : String) (h : q ≠ p) :
    (fs.del p) q = fs q := by
  simp [FS.del, h]

end FSModel
