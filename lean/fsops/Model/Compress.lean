import Model.FS
/-!
# C12 — model of `typhon.files.utils.compress / compress_as / decompress`

Control-flow model of the two context managers over an abstract file system with a separate temporary
namespace.  Modelled code (after `fix:` 252f58c, which registers lzma under `'xz'`):

* `is_compression_format`, `get_compressor`, `_known_compressions`  — `isFmt`, `Fmt.ofString?`
* `os.path.splitext`, `os.path.basename`                            — `splitext`, `basename` (on character lists)
* `compress`     — `compress`: `TemporaryDirectory` → yield `<tdir>/temp` → body → `compress_as` → cleanup
* `compress_as`  — `compressAs`: per format order of open-source / open-target / construct compressor / copy
* `decompress`   — `decompress`: `NamedTemporaryFile(delete=False)` (or `target`) → copy → close → yield → `unlink` in `finally`

The codecs (gzip, bz2, zipfile, lzma) are a parameter `Codec` with the contract `dec f m (enc f m b) = some b`
stated as a hypothesis of the theorems.  A fault is the step that raises; the caller's block is a parameter
`body` returning the new state and whether it raised.
-/
namespace Compress
open FSModel

abbrev Bytes := List UInt8

/-! ## names -/

def lastIndexOf (c : Char) (s : List Char) : Option Nat :=
  let rec go (s : List Char) (i : Nat) (acc : Option Nat) : Option Nat :=
    match s with
    | [] => acc
    | x :: r => go r (i + 1) (if x = c then some i else acc)
  go s 0 none

/-- `os.path.basename` (POSIX) -/
def basename (s : List Char) : List Char :=
  match lastIndexOf '/' s with
  | some i => s.drop (i + 1)
  | none => s

/-- `os.path.splitext` (POSIX): the extension starts at the last dot of the last path component, unless only
dots precede it in that component -/
def splitext (s : List Char) : List Char × List Char :=
  let sep : Int := match lastIndexOf '/' s with | some i => i | none => -1
  match lastIndexOf '.' s with
  | none => (s, [])
  | some dot =>
    if (dot : Int) > sep then
      let start := (sep + 1).toNat
      -- is there a non-dot character in s[start:dot] ?
      if ((s.take dot).drop start).any (· ≠ '.') then (s.take dot, s.drop dot) else (s, [])
    else (s, [])

/-- `str.lstrip(".")` -/
def lstripDots : List Char → List Char
  | '.' :: r => lstripDots r
  | s => s

inductive Fmt where
  | gz | bz2 | zip | xz
  deriving DecidableEq, Repr, Inhabited

/-- the keys of `_known_compressions` -/
def Fmt.ofString? (s : String) : Option Fmt :=
  if s = "gz" then some .gz else if s = "bz2" then some .bz2 else if s = "zip" then some .zip
  else if s = "xz" then some .xz else none

def Fmt.toString : Fmt → String
  | .gz => "gz" | .bz2 => "bz2" | .zip => "zip" | .xz => "xz"

/-- `is_compression_format(fmt)` -/
def isFmt (s : String) : Bool := (Fmt.ofString? s).isSome

/-- the format `compress` / `decompress` derive from a file name -/
def fmtOfName (name : String) : String :=
  String.ofList (lstripDots (splitext name.toList).2)

/-- member name used by `compress_as` inside a zip archive -/
def memberC (target : String) (fmt : String) : String :=
  let tf := basename target.toList
  let (tb, ext) := splitext tf
  if fmt.toList.isSuffixOf ext then String.ofList tb else String.ofList tf

/-- member name `decompress` asks the zip archive for -/
def memberD (name : String) : String :=
  String.ofList (basename (splitext name.toList).1)

/-! ## state -/

/-- a user-visible file: complete content, or whatever an interrupted `compress_as` left in the target -/
inductive UFile where
  | data (b : Bytes)
  | partialOut
  | dir
  deriving DecidableEq, Repr, Inhabited

inductive TNode where
  | dir
  | file (b : Bytes)
  deriving DecidableEq, Repr, Inhabited

structure St where
  user : FS UFile          -- everything outside the temporary directory
  tmp : FS TNode           -- the temporary namespace (`tmpdir`)
  next : Nat               -- supply of unused temporary names

/-- name handed out by `tempfile` -/
def tmpName (n : Nat) : String := "t" ++ toString n

def under (d q : String) : Bool := (d.toList ++ ['/']).isPrefixOf q.toList

/-- `TemporaryDirectory.cleanup()` = `shutil.rmtree(d)` -/
def rmTmpDir (tmp : FS TNode) (d : String) : FS TNode :=
  fun q => if q = d ∨ under d q then none else tmp q

structure Codec where
  enc : Fmt → String → Bytes → Bytes               -- format, member name (zip only), content
  dec : Fmt → String → Bytes → Option Bytes        -- `none`: not an archive of that format / member missing

inductive Outcome where
  | ok
  | raised
  deriving DecidableEq, Repr

/-- steps of `compress` / `compress_as` that can be made to raise -/
inductive CStep where
  | mkTmpDir        -- `TemporaryDirectory(dir=tmpdir)`
  | openSrc         -- `open(filename, 'rb')` / `ZipFile.write` reading the source
  | openTarget      -- `open(target, 'wb')` (gz only; for the others the constructor opens the target)
  | ctor            -- calling the entry of `_known_compressions`
  | copy            -- `shutil.copyfileobj` / `ZipFile.write`
  deriving DecidableEq, Repr

/-- the caller's with-block: gets the yielded path, returns the new state and whether it raised -/
abbrev Body := String → St → St × Bool

/-- `compress_as(tfile, fmt, target, keep=True)` when `fmt` is a known format -/
def compressAs (C : Codec) (tfile : String) (f : Fmt) (fmtS : String) (target : String) (fault : Option CStep)
    (st : St) : St × Outcome :=
  let setT (u : UFile) : St := { st with user := st.user.set target u }
  let member := memberC target fmtS
  let src : Option Bytes := match st.tmp tfile with | some (.file b) => some b | _ => none
  let targetIsDir : Bool := st.user target == some .dir
  match f with
  | .zip =>
    -- ZipFile(target, 'w') first, then the source is read
    if fault = some .ctor ∨ targetIsDir then (st, .raised)
    else match src with
      | none => (setT .partialOut, .raised)                       -- FileNotFoundError inside the with-block
      | some b =>
        if fault = some .openSrc ∨ fault = some .copy then (setT .partialOut, .raised)
        else (setT (.data (C.enc .zip member b)), .ok)
  | .gz =>
    match src with
    | none => (st, .raised)                                       -- open(filename, 'rb') fails first
    | some b =>
      if fault = some .openSrc then (st, .raised)
      else if fault = some .openTarget ∨ targetIsDir then (st, .raised)
      else if fault = some .ctor ∨ fault = some .copy then (setT .partialOut, .raised)
      else (setT (.data (C.enc .gz member b)), .ok)
  | f =>                                                          -- bz2, xz
    match src with
    | none => (st, .raised)
    | some b =>
      if fault = some .openSrc then (st, .raised)
      else if fault = some .ctor ∨ fault = some .openTarget ∨ targetIsDir then (st, .raised)
      else if fault = some .copy then (setT .partialOut, .raised)
      else (setT (.data (C.enc f member b)), .ok)

/-- `with compress(filename, fmt=fmtArg, tmpdir=…) as p: body(p)` -/
def compress (C : Codec) (filename : String) (fmtArg : Option String) (fault : Option CStep) (body : Body)
    (st : St) : St × Outcome :=
  let fmtS := fmtArg.getD (fmtOfName filename)
  match Fmt.ofString? fmtS with
  | none =>
    let r := body filename st                                     -- pass-through: `yield filename; return`
    (r.1, if r.2 then .raised else .ok)
  | some f =>
    if fault = some .mkTmpDir then (st, .raised)
    else
      let d := tmpName st.next
      let st1 : St := { st with tmp := st.tmp.set d .dir, next := st.next + 1 }
      let r := body (d ++ "/temp") st1
      if r.2 then ({ r.1 with tmp := rmTmpDir r.1.tmp d }, .raised)
      else
        let r2 := compressAs C (d ++ "/temp") f fmtS filename fault r.1
        ({ r2.1 with tmp := rmTmpDir r2.1.tmp d }, r2.2)

/-- steps of `decompress` that can be made to raise -/
inductive DStep where
  | mkTmpFile       -- `NamedTemporaryFile(dir=tmpdir, delete=False)` / `open(target, "wb")`
  | ctor            -- opening the archive
  | copy            -- `shutil.copyfileobj`
  deriving DecidableEq, Repr

/-- `with decompress(filename, tmpdir=…) as p: body(p)` (without `target=`) -/
def decompress (C : Codec) (filename : String) (fault : Option DStep) (body : Body) (st : St) : St × Outcome :=
  match Fmt.ofString? (fmtOfName filename) with
  | none =>
    let r := body filename st
    (r.1, if r.2 then .raised else .ok)
  | some f =>
    if fault = some .mkTmpFile then (st, .raised)
    else
      let t := tmpName st.next
      let st1 : St := { st with tmp := st.tmp.set t (.file []), next := st.next + 1 }
      let unlink (s : St) : St := { s with tmp := s.tmp.del t }            -- the `finally:` clause
      let content : Option Bytes :=
        match st.user filename with
        | some (.data a) => C.dec f (memberD filename) a
        | some .partialOut => none
        | _ => none                                                         -- missing / directory
      if fault = some .ctor ∨ fault = some .copy then (unlink st1, .raised)
      else match content with
        | none => (unlink st1, .raised)                                     -- corrupt / truncated / missing
        | some b =>
          let st2 : St := { st1 with tmp := st1.tmp.set t (.file b) }
          let r := body t st2
          (unlink r.1, if r.2 then .raised else .ok)

/-- `decompress(filename, target=tgt)`: the named file is overwritten and deleted afterwards -/
def decompressTo (C : Codec) (filename tgt : String) (fault : Option DStep) (body : Body) (st : St) : St × Outcome :=
  match Fmt.ofString? (fmtOfName filename) with
  | none =>
    let r := body filename st
    (r.1, if r.2 then .raised else .ok)
  | some f =>
    if fault = some .mkTmpFile then (st, .raised)
    else
      let st1 : St := { st with user := st.user.set tgt (.data []) }
      let unlink (s : St) : St := { s with user := s.user.del tgt }
      let content : Option Bytes :=
        match st.user filename with
        | some (.data a) => C.dec f (memberD filename) a
        | _ => none
      if fault = some .ctor ∨ fault = some .copy then (unlink st1, .raised)
      else match content with
        | none => (unlink st1, .raised)
        | some b =>
          let st2 : St := { st1 with user := st1.user.set tgt (.data b) }
          let r := body tgt st2
          (unlink r.1, if r.2 then .raised else .ok)

/-! ## typical bodies -/

/-- the caller writes `b` to the yielded path (a temporary file) and optionally raises afterwards -/
def writeBody (b : Bytes) (raises : Bool) : Body :=
  fun p st => ({ st with tmp := st.tmp.set p (.file b) }, raises)

/-- the caller writes nothing -/
def idleBody (raises : Bool) : Body := fun _ st => (st, raises)

end Compress
