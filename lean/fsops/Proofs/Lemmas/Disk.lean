import Model.Cache
import Mathlib.Tactic

/-! Helper lemmas for C15: the disk event semantics of `save_cache`. -/
namespace Cache
open FSModel

theorem backupOf_ne (f : String) : backupOf f ≠ f := by
  intro h
  have := congrArg String.length h
  simp [backupOf, String.length_append] at this

/-- the event only touches path `b` -/
def Ev.onlyOn (b : String) : Ev → Prop
  | .openW p => p = b
  | .write p _ => p = b
  | .flush p _ => p = b
  | .close p => p = b
  | .rename _ _ => False

theorem flushN_files_other (d : Disk) (p q : String) (k : Nat) (h : q ≠ p) :
    (flushN d p k).files q = d.files q := by
  unfold flushN
  split <;> simp [FS.set, h]

theorem step_files_other (d : Disk) (e : Ev) (b q : String) (he : e.onlyOn b) (h : q ≠ b) :
    (step d e).files q = d.files q := by
  cases e with
  | openW p => simp only [Ev.onlyOn] at he; subst he; simp [step, FS.set, h]
  | write p c => simp only [Ev.onlyOn] at he; subst he; simp only [step]; split <;> rfl
  | flush p k => simp only [Ev.onlyOn] at he; subst he; exact flushN_files_other d p q k h
  | close p =>
    simp only [Ev.onlyOn] at he; subst he; simp only [step]
    split
    · exact flushN_files_other d p q _ h
    · rfl
  | rename s t => exact absurd he (by simp [Ev.onlyOn])

theorem run_files_other (evs : List Ev) (d : Disk) (b q : String) (he : ∀ e ∈ evs, e.onlyOn b) (h : q ≠ b) :
    (run d evs).files q = d.files q := by
  induction evs generalizing d with
  | nil => rfl
  | cons e es ih =>
    simp only [run, List.foldl_cons]
    have := ih (step d e) (fun e' he' => he e' (List.mem_cons_of_mem _ he'))
    simp only [run] at this
    rw [this, step_files_other d e b q (he e List.mem_cons_self) h]

theorem bodyEvents_onlyOn (b : String) (cs : List Bytes) (ks : List Nat) :
    ∀ e ∈ bodyEvents b cs ks, e.onlyOn b := by
  induction cs generalizing ks with
  | nil => intro e he; simp [bodyEvents] at he
  | cons c cs ih =>
    cases ks with
    | nil =>
      intro e he
      simp only [bodyEvents, List.mem_cons] at he
      rcases he with rfl | he
      · simp [Ev.onlyOn]
      · exact ih [] e he
    | cons k ks =>
      intro e he
      simp only [bodyEvents, List.mem_cons] at he
      rcases he with rfl | rfl | he
      · simp [Ev.onlyOn]
      · simp [Ev.onlyOn]
      · exact ih ks e he

/-- state of the backup file while it is being written: durable part `fl`, buffered part `buf` -/
def Writing (d : Disk) (b : String) (fl buf : Bytes) : Prop :=
  d.files b = some (.file fl) ∧ d.bufs b = some buf

theorem writing_write {d : Disk} {b : String} {fl buf : Bytes} (h : Writing d b fl buf) (c : Bytes) :
    Writing (step d (.write b c)) b fl (buf ++ c) := by
  obtain ⟨h1, h2⟩ := h
  simp [step, h2, Writing, h1]

theorem writing_flush {d : Disk} {b : String} {fl buf : Bytes} (h : Writing d b fl buf) (k : Nat) :
    Writing (step d (.flush b k)) b (fl ++ buf.take k) (buf.drop k) := by
  obtain ⟨h1, h2⟩ := h
  simp [step, flushN, h1, h2, Writing]

theorem writing_close {d : Disk} {b : String} {fl buf : Bytes} (h : Writing d b fl buf) :
    (step d (.close b)).files b = some (.file (fl ++ buf)) ∧ (step d (.close b)).bufs b = none := by
  obtain ⟨h1, h2⟩ := h
  simp [step, flushN, h1, h2]

/-- after any prefix of the write/flush events the durable and buffered parts together are the
chunks written so far -/
theorem body_prefix (b : String) (cs : List Bytes) :
    ∀ (ks : List Nat) (m : Nat) (d : Disk) (fl buf : Bytes), Writing d b fl buf →
      ∃ fl' buf' j, Writing (run d ((bodyEvents b cs ks).take m)) b fl' buf' ∧
        fl' ++ buf' = fl ++ buf ++ (cs.take j).flatten ∧
        ((bodyEvents b cs ks).length ≤ m → cs.take j = cs) := by
  induction cs with
  | nil =>
    intro ks m d fl buf h
    exact ⟨fl, buf, 0, by simpa [bodyEvents, run] using h, by simp, by simp⟩
  | cons c cs ih =>
    intro ks m d fl buf h
    cases m with
    | zero =>
      refine ⟨fl, buf, 0, by simpa [run] using h, by simp, ?_⟩
      cases ks <;> simp [bodyEvents]
    | succ m =>
      cases ks with
      | nil =>
        have hw := writing_write h c
        obtain ⟨fl', buf', j, h1, h2, h3⟩ := ih [] m _ _ _ hw
        refine ⟨fl', buf', j + 1, ?_, ?_, ?_⟩
        · simpa [bodyEvents, run] using h1
        · simp [h2, List.append_assoc]
        · intro hl
          simp only [bodyEvents, List.length_cons, Nat.add_le_add_iff_right] at hl
          simp [h3 hl]
      | cons k ks =>
        have hw := writing_write h c
        cases m with
        | zero =>
          refine ⟨fl, buf ++ c, 1, ?_, ?_, ?_⟩
          · simpa [bodyEvents, run] using hw
          · simp [List.append_assoc]
          · intro hl; simp [bodyEvents] at hl
        | succ m =>
          have hf := writing_flush hw k
          obtain ⟨fl', buf', j, h1, h2, h3⟩ := ih ks m _ _ _ hf
          refine ⟨fl', buf', j + 1, ?_, ?_, ?_⟩
          · simpa [bodyEvents, run] using h1
          · rw [h2]
            simp only [List.take_succ_cons, List.flatten_cons, List.append_assoc]
            congr 1
            rw [← List.append_assoc, List.take_append_drop]
            simp [List.append_assoc]
          · intro hl
            simp only [bodyEvents, List.length_cons, Nat.add_le_add_iff_right] at hl
            simp [h3 hl]

end Cache
