import Model.Cache
import Mathlib.Tactic

/-! Helper lemmas for C15: digit lists and the fields of the time text. -/
set_option linter.unusedSimpArgs false
namespace Cache

theorem isDig_digit (n : Nat) : isDig (digit n) = true := by
  unfold digit
  have h : n % 10 < 10 := Nat.mod_lt _ (by norm_num)
  generalize n % 10 = k at h
  interval_cases k <;> decide

theorem digitVal_digit (n : Nat) : digitVal (digit n) = n % 10 := by
  unfold digit
  have h : n % 10 < 10 := Nat.mod_lt _ (by norm_num)
  generalize n % 10 = k at h
  interval_cases k <;> decide

theorem spanDigits_digit (n : Nat) (r : List Char) :
    spanDigits (digit n :: r) = (digit n :: (spanDigits r).1, (spanDigits r).2) := by
  simp [spanDigits, isDig_digit]

theorem spanDigits_stop (c : Char) (r : List Char) (h : isDig c = false) :
    spanDigits (c :: r) = ([], c :: r) := by
  simp [spanDigits, h]

theorem numField_pad2 (lo hi n : Nat) (c : Char) (r : List Char) (hc : isDig c = false)
    (hn : n < 100) (hlo : lo ≤ n) (hhi : n ≤ hi) :
    numField 1 2 lo hi (pad2 n ++ c :: r) = some (n, c :: r) := by
  have e : numOf [digit (n / 10), digit n] = n := by
    simp only [numOf, List.foldl, digitVal_digit]; omega
  simp only [numField, pad2, List.cons_append, List.nil_append, spanDigits_digit, spanDigits_stop c r hc, e]
  simp [hlo, hhi]

theorem numField_pad4 (n : Nat) (c : Char) (r : List Char) (hc : isDig c = false) (hn : n ≤ 9999) :
    numField 4 4 0 9999 (pad4 n ++ c :: r) = some (n, c :: r) := by
  have e : numOf [digit (n / 1000), digit (n / 100), digit (n / 10), digit n] = n := by
    simp only [numOf, List.foldl, digitVal_digit]; omega
  simp only [numField, pad4, List.cons_append, List.nil_append, spanDigits_digit, spanDigits_stop c r hc, e]
  simp [hn]

theorem span_pad6 (n : Nat) : spanDigits (pad6 n) = (pad6 n, []) := by
  have e : spanDigits [] = ([], []) := rfl
  simp only [pad6, spanDigits_digit, e]

theorem numOf_pad6 (n : Nat) (hn : n < 1000000) : numOf (pad6 n) = n := by
  simp only [pad6, numOf, List.foldl, digitVal_digit]; omega


theorem dayField_pad2 (n : Nat) (c : Char) (r : List Char) (hc : isDig c = false)
    (hlo : 1 ≤ n) (hhi : n ≤ 31) :
    dayField (pad2 n ++ c :: r) = some (n, c :: r) := by
  have hne : digit (n / 10) ≠ ' ' := by
    intro h
    have := isDig_digit (n / 10)
    rw [h] at this
    exact absurd this (by decide)
  have : dayField (pad2 n ++ c :: r) = numField 1 2 1 31 (pad2 n ++ c :: r) := by
    simp only [pad2, List.cons_append, List.nil_append, dayField]
    split
    · rename_i heq
      simp only [List.cons.injEq] at heq
      exact absurd heq.1 hne
    · rfl
  rw [this]
  exact numField_pad2 1 31 n c r hc (by omega) hlo hhi

/-- `strptime(isoformat(t)) = t` for every valid naive datetime (years 1..9999, to the microsecond) -/
theorem parse_fmt (t : DateTime) (h : t.valid = true) : parseTime (fmtTime t) = some t := by
  obtain ⟨y, mo, d, hh, mi, s, us⟩ := t
  simp only [DateTime.valid, decide_eq_true_eq] at h
  obtain ⟨h1, h2, h3, h4, h5, h6, h7, h8, h9, h10⟩ := h
  have hd31 : d ≤ 31 := by
    have : daysIn y mo ≤ 31 := by unfold daysIn; split_ifs <;> omega
    omega
  simp only [fmtTime, parseTime, List.append_assoc, List.cons_append]
  rw [numField_pad4 y '-' _ (by decide) h2]
  simp only [Option.bind_eq_bind, Option.bind_some, expect, if_true]
  rw [numField_pad2 1 12 mo '-' _ (by decide) (by omega) h3 h4]
  simp only [Option.bind_some, expect, if_true]
  rw [dayField_pad2 d 'T' _ (by decide) h5 hd31]
  simp only [Option.bind_some, expectT, true_or, if_true]
  rw [numField_pad2 0 23 hh ':' _ (by decide) (by omega) (by omega) (by omega)]
  simp only [Option.bind_some, expect, if_true]
  rw [numField_pad2 0 59 mi ':' _ (by decide) (by omega) (by omega) (by omega)]
  simp only [Option.bind_some, expect, if_true]
  rw [numField_pad2 0 61 s '.' _ (by decide) (by omega) (by omega) (by omega)]
  simp only [Option.bind_some, expect, if_true]
  rw [span_pad6, numOf_pad6 us h10]
  have hv : (DateTime.mk y mo d hh mi s us).valid = true := by
    simp only [DateTime.valid, decide_eq_true_eq]
    exact ⟨h1, h2, h3, h4, h5, h6, h7, h8, h9, h10⟩
  simp [pad6, hv]

end Cache
