import Model.Compress
import Mathlib.Tactic
set_option linter.unusedSimpArgs false

/-! Helper lemmas for C12: `splitext` / `basename` on names `dir/base.ext`. -/
namespace Compress

theorem go_not_mem (c : Char) (s : List Char) (i : Nat) (acc : Option Nat) (h : c ∉ s) :
    lastIndexOf.go c s i acc = acc := by
  induction s generalizing i acc with
  | nil => rfl
  | cons x r ih =>
    simp only [List.mem_cons, not_or] at h
    simp only [lastIndexOf.go]
    rw [ih _ _ h.2]
    simp [Ne.symm h.1]

theorem go_last (c : Char) (a z : List Char) (i : Nat) (acc : Option Nat) (h : c ∉ z) :
    lastIndexOf.go c (a ++ c :: z) i acc = some (i + a.length) := by
  induction a generalizing i acc with
  | nil =>
    simp only [List.nil_append, lastIndexOf.go, if_true, List.length_nil, Nat.add_zero]
    exact go_not_mem c z _ _ h
  | cons x r ih =>
    simp only [List.cons_append, lastIndexOf.go, List.length_cons]
    rw [ih]
    congr 1; omega

theorem lastIndexOf_none (c : Char) (s : List Char) (h : c ∉ s) : lastIndexOf c s = none :=
  go_not_mem c s 0 none h

theorem lastIndexOf_last (c : Char) (a z : List Char) (h : c ∉ z) :
    lastIndexOf c (a ++ c :: z) = some a.length := by
  unfold lastIndexOf
  rw [go_last c a z 0 none h]; simp

/-- `splitext (base ++ "." ++ ext)` for a flat name whose base has a non-dot character -/
theorem splitext_flat (base ext : List Char) (hs : '/' ∉ base) (hse : '/' ∉ ext) (hd : '.' ∉ ext)
    (hb : base.any (· ≠ '.') = true) :
    splitext (base ++ '.' :: ext) = (base, '.' :: ext) := by
  have hsl : '/' ∉ base ++ '.' :: ext := by
    simp only [List.mem_append, List.mem_cons, not_or]
    exact ⟨hs, by decide, hse⟩
  unfold splitext
  rw [lastIndexOf_none '/' _ hsl, lastIndexOf_last '.' base ext hd]
  have hb' : ∃ x ∈ base, ¬ x = '.' := by simpa using hb
  have hpos : (-1 : Int) < (base.length : Int) := by omega
  simp [hb', hpos]

theorem basename_flat (s : List Char) (hs : '/' ∉ s) : basename s = s := by
  unfold basename
  rw [lastIndexOf_none '/' s hs]

/-- `splitext (dir ++ "/" ++ base ++ "." ++ ext)` -/
theorem splitext_dir (dir base ext : List Char) (hs : '/' ∉ base) (hse : '/' ∉ ext) (hd : '.' ∉ ext)
    (hb : base.any (· ≠ '.') = true) :
    splitext (dir ++ '/' :: (base ++ '.' :: ext)) = (dir ++ '/' :: base, '.' :: ext) := by
  have hsl : '/' ∉ base ++ '.' :: ext := by
    simp only [List.mem_append, List.mem_cons, not_or]
    exact ⟨hs, by decide, hse⟩
  have e : dir ++ '/' :: (base ++ '.' :: ext) = (dir ++ '/' :: base) ++ '.' :: ext := by simp
  unfold splitext
  rw [lastIndexOf_last '/' dir _ hsl]
  rw [e, lastIndexOf_last '.' (dir ++ '/' :: base) ext hd]
  have hlen : ((dir ++ '/' :: base).length : Int) > (dir.length : Int) := by
    simp only [List.length_append, List.length_cons]; push_cast; omega
  simp only [hlen, if_true]
  have h1 : ((dir.length : Int) + 1).toNat = dir.length + 1 := by omega
  rw [h1, List.take_left']
  · have h2 : List.drop (dir.length + 1) (dir ++ '/' :: base) = base := by
      have : dir ++ '/' :: base = (dir ++ ['/']) ++ base := by simp
      rw [this, List.drop_left']; simp
    rw [h2, hb]
    simp [List.drop_left']
  · rfl

theorem basename_dir (dir rest : List Char) (hs : '/' ∉ rest) : basename (dir ++ '/' :: rest) = rest := by
  unfold basename
  rw [lastIndexOf_last '/' dir rest hs]
  have : dir ++ '/' :: rest = (dir ++ ['/']) ++ rest := by simp
  show List.drop (dir.length + 1) (dir ++ '/' :: rest) = rest
  rw [this, List.drop_left']; simp

end Compress
