import Proofs.Lemmas.TimeText
set_option linter.unusedSimpArgs false

/-! Helper lemmas for C15: the insertion-ordered dictionary and the JSON dictionary of a FileInfo. -/
namespace Cache

theorem get?_put (c : CacheMap) (k k' : Key) (v : Info) :
    (c.put k v).get? k' = if k = k' then some v else c.get? k' := by
  induction c with
  | nil => simp [CacheMap.put, CacheMap.get?]
  | cons kv r ih =>
    obtain ⟨k0, v0⟩ := kv
    simp only [CacheMap.put]
    by_cases h : k0 = k
    · subst h
      simp only [if_true, CacheMap.get?]
      split <;> rfl
    · simp only [h, if_false, CacheMap.get?, ih]
      by_cases h2 : k0 = k'
      · subst h2; simp [h, Ne.symm h]
      · simp [h2]

theorem put_new (c : CacheMap) (k : Key) (v : Info) (h : c.get? k = none) :
    c.put k v = c ++ [(k, v)] := by
  induction c with
  | nil => rfl
  | cons kv r ih =>
    obtain ⟨k0, v0⟩ := kv
    simp only [CacheMap.get?] at h
    by_cases h0 : k0 = k
    · simp [h0] at h
    · simp only [h0, if_false] at h
      simp [CacheMap.put, h0, ih h]

theorem get?_none_of_not_mem (c : CacheMap) (k : Key) (h : k ∉ c.map Prod.fst) : c.get? k = none := by
  induction c with
  | nil => rfl
  | cons kv r ih =>
    obtain ⟨k0, v0⟩ := kv
    simp only [List.map_cons, List.mem_cons, not_or] at h
    simp [CacheMap.get?, Ne.symm h.1, ih h.2]

theorem get?_mem (c : CacheMap) (k : Key) (i : Info) (h : c.get? k = some i) : (k, i) ∈ c := by
  induction c with
  | nil => simp [CacheMap.get?] at h
  | cons kv r ih =>
    obtain ⟨k0, v0⟩ := kv
    simp only [CacheMap.get?] at h
    by_cases h0 : k0 = k
    · simp only [h0, if_true, Option.some.injEq] at h
      simp [h0, h]
    · simp only [h0, if_false] at h
      exact List.mem_cons_of_mem _ (ih h)

/-- inserting entries with fresh, pairwise different keys appends them in order -/
theorem foldl_put_fresh (l : List Info) (acc : CacheMap)
    (hnd : (acc.map Prod.fst ++ l.map (·.path)).Nodup) :
    l.foldl (fun a i => a.put i.path i) acc = acc ++ l.map (fun i => (i.path, i)) := by
  induction l generalizing acc with
  | nil => simp
  | cons i r ih =>
    simp only [List.foldl_cons, List.map_cons]
    have hfresh : i.path ∉ acc.map Prod.fst := by
      intro hm
      rw [List.nodup_append] at hnd
      exact hnd.2.2 _ hm _ (by simp) rfl
    rw [put_new acc i.path i (get?_none_of_not_mem acc _ hfresh)]
    rw [ih]
    · simp
    · simpa [List.append_assoc] using hnd

theorem key_roundtrip (k : Key) : k.toJ.toKey? = some k := by
  cases k <;> rfl

/-- a FileInfo as typhon creates it: two valid datetimes, attributes not `None` -/
def GoodInfo (i : Info) : Prop :=
  i.t0.valid = true ∧ i.t1.valid = true ∧ i.attr ≠ .null

theorem from_to_json (i : Info) (h : GoodInfo i) : fromJsonDict (toJsonDict i) = some i := by
  obtain ⟨p, a, b, attr⟩ := i
  obtain ⟨hav, hbv, hattr⟩ := h
  simp only at hav hbv hattr
  have e1 : jget [("path", p.toJ), ("times", J.arr [J.str (String.ofList (fmtTime a)), J.str (String.ofList (fmtTime b))]),
      ("attr", attr)] "path" = some p.toJ := by
    simp [jget]
  have e2 : jget [("path", p.toJ), ("times", J.arr [J.str (String.ofList (fmtTime a)), J.str (String.ofList (fmtTime b))]),
      ("attr", attr)] "times" = some (J.arr [J.str (String.ofList (fmtTime a)), J.str (String.ofList (fmtTime b))]) := by
    simp [jget]
  have e3 : jget [("path", p.toJ), ("times", J.arr [J.str (String.ofList (fmtTime a)), J.str (String.ofList (fmtTime b))]),
      ("attr", attr)] "attr" = some attr := by
    simp [jget]
  simp only [toJsonDict, fromJsonDict, e1, e2, e3, key_roundtrip, timesOf, timeSlot, String.toList_ofList,
    parse_fmt a hav, parse_fmt b hbv]

end Cache

namespace Cache

theorem mem_put (c : CacheMap) (k : Key) (v : Info) (x : Key × Info) (h : x ∈ c.put k v) :
    x ∈ c ∨ x = (k, v) := by
  induction c with
  | nil => simp only [CacheMap.put, List.mem_singleton] at h; exact Or.inr h
  | cons kv r ih =>
    obtain ⟨k0, v0⟩ := kv
    simp only [CacheMap.put] at h
    split at h
    · simp only [List.mem_cons] at h
      rcases h with h | h
      · exact Or.inr h
      · exact Or.inl (List.mem_cons_of_mem _ h)
    · simp only [List.mem_cons] at h
      rcases h with h | h
      · exact Or.inl (by simp [h])
      · rcases ih h with h | h
        · exact Or.inl (List.mem_cons_of_mem _ h)
        · exact Or.inr h

theorem mem_foldl_put (infos : List Info) (acc : CacheMap) (x : Key × Info)
    (h : x ∈ infos.foldl (fun a i => a.put i.path i) acc) :
    x ∈ acc ∨ (x.2 ∈ infos ∧ x.2.path = x.1) := by
  induction infos generalizing acc with
  | nil => exact Or.inl h
  | cons i r ih =>
    simp only [List.foldl_cons] at h
    rcases ih _ h with h | h
    · rcases mem_put _ _ _ _ h with h | h
      · exact Or.inl h
      · subst h; exact Or.inr ⟨by simp, rfl⟩
    · exact Or.inr ⟨List.mem_cons_of_mem _ h.1, h.2⟩

theorem get?_update (m c : CacheMap) (k : Key) (i : Info)
    (h : (c.update m).get? k = some i) : c.get? k = some i ∨ (k, i) ∈ m := by
  unfold CacheMap.update at h
  induction m generalizing c with
  | nil => exact Or.inl h
  | cons kv r ih =>
    simp only [List.foldl_cons] at h
    rcases ih _ h with h2 | h2
    · rw [get?_put] at h2
      split at h2
      · rename_i hk
        simp only [Option.some.injEq] at h2
        obtain ⟨k0, v0⟩ := kv
        simp only at hk h2
        subst hk; subst h2
        exact Or.inr (by simp)
      · exact Or.inl h2
    · exact Or.inr (List.mem_cons_of_mem _ h2)

theorem mapM_mem {α β : Type} (f : α → Option β) (l : List α) (r : List β) (h : l.mapM f = some r)
    (y : β) (hy : y ∈ r) : ∃ x ∈ l, f x = some y := by
  induction l generalizing r with
  | nil => simp at h; subst h; simp at hy
  | cons a l ih =>
    simp only [List.mapM_cons] at h
    cases hfa : f a with
    | none => simp [hfa] at h
    | some b =>
      cases hl : l.mapM f with
      | none => simp [hfa, hl] at h
      | some bs =>
        simp [hfa, hl] at h
        subst h
        simp only [List.mem_cons] at hy
        rcases hy with rfl | hy
        · exact ⟨a, by simp, hfa⟩
        · obtain ⟨x, hx, hfx⟩ := ih bs hl hy
          exact ⟨x, List.mem_cons_of_mem _ hx, hfx⟩

/-- a cache as typhon builds it: keys are the infos' own paths, pairwise different, infos well formed -/
def WFCache (c : CacheMap) : Prop :=
  (c.map Prod.fst).Nodup ∧ ∀ kv ∈ c, kv.1 = kv.2.path ∧ GoodInfo kv.2

theorem cacheDoc_roundtrip (c : CacheMap) (h : ∀ kv ∈ c, GoodInfo kv.2) :
    (c.map (fun kv => toJsonDict kv.2)).mapM fromJsonDict = some (c.map Prod.snd) := by
  induction c with
  | nil => rfl
  | cons kv r ih =>
    have h2 := ih (fun kv' h' => h kv' (List.mem_cons_of_mem _ h'))
    have hj := from_to_json kv.2 (h kv (by simp))
    simp [List.mapM_cons, hj, h2]

theorem docToMap_cacheDoc (c : CacheMap) (h : WFCache c) : docToMap (cacheDoc c) = some c := by
  have h2 := cacheDoc_roundtrip c (fun kv hkv => (h.2 kv hkv).2)
  simp only [docToMap, cacheDoc, entriesOf, h2]
  rw [foldl_put_fresh]
  · simp only [List.nil_append, List.map_map]
    congr 1
    conv_rhs => rw [← List.map_id c]
    apply List.map_congr_left
    intro kv hkv
    obtain ⟨k, v⟩ := kv
    have := (h.2 _ hkv).1
    simp only at this
    simp [this]
  · simp only [List.map_nil, List.nil_append, List.map_map]
    have : (c.map ((fun i : Info => i.path) ∘ Prod.snd)) = c.map Prod.fst := by
      apply List.map_congr_left
      intro kv hkv
      exact ((h.2 _ hkv).1).symm
    rw [this]; exact h.1

end Cache
