import Proofs.Lemmas.Disk
import Proofs.Lemmas.CacheMap
import Proofs.Audit
set_option linter.unusedSimpArgs false

/-!
# C15 — the file-info cache survives restarts and interrupted saves

Property theorems only (helper lemmas: `Proofs/Lemmas/{TimeText,Disk,CacheMap}.lean`) about the model
`Model/Cache.lean`.  The JSON text layer is a parameter: `decode` (= `json.load`), `encode`, the chunk list
written by `json.dump`; its contract appears as hypotheses (`decode (encode j) = some j`, strict prefixes of an
encoding do not decode), never as an axiom.
-/
namespace Cache
open FSModel

/-! ## time text -/

/-- **C15_time_text_roundtrip** — `strptime(isoformat(t, "microseconds"), "%Y-%m-%dT%H:%M:%S.%f") = t` for every
valid naive datetime: year 1..9999 (zero padded), every month/day incl. leap days, to the microsecond. -/
theorem C15_time_text_roundtrip (t : DateTime) (h : t.valid = true) :
    parseTime (fmtTime t) = some t := parse_fmt t h

/-- consequently different valid times never share a text -/
theorem C15_time_text_injective (a b : DateTime) (ha : a.valid = true) (hb : b.valid = true)
    (h : fmtTime a = fmtTime b) : a = b := by
  have := C15_time_text_roundtrip a ha
  rw [h, C15_time_text_roundtrip b hb] at this
  exact (Option.some.inj this).symm

-- non-vacuity and boundary cases: datetime.min, datetime.max, a leap day; rejections
#guard parseTime (fmtTime ⟨1, 1, 1, 0, 0, 0, 0⟩) == some ⟨1, 1, 1, 0, 0, 0, 0⟩
#guard String.ofList (fmtTime ⟨1, 1, 1, 0, 0, 0, 0⟩) == "0001-01-01T00:00:00.000000"
#guard parseTime (fmtTime ⟨9999, 12, 31, 23, 59, 59, 999999⟩) == some ⟨9999, 12, 31, 23, 59, 59, 999999⟩
#guard (DateTime.valid ⟨2024, 2, 29, 12, 0, 0, 5⟩) && !(DateTime.valid ⟨2023, 2, 29, 12, 0, 0, 5⟩)
#guard parseTime "1-01-01T00:00:00.000000".toList == none          -- the text written before fix 6930570
#guard parseTime "2020-1-1T1:1:1.5".toList == some ⟨2020, 1, 1, 1, 1, 1, 500000⟩
#guard parseTime "2020-02-30T00:00:00.0".toList == none
#guard parseTime "2020-01-05T00:00:60.0".toList == none

/-! ## crash consistency of `save_cache` -/

private theorem save_split (file : String) (chunks : List Bytes) (flushes : List Nat) :
    saveEvents file chunks flushes =
      (.openW (backupOf file) :: bodyEvents (backupOf file) chunks flushes ++ [.close (backupOf file)]) ++
        [.rename (backupOf file) file] := by
  simp [saveEvents]

private theorem pre_onlyOn (file : String) (chunks : List Bytes) (flushes : List Nat) :
    ∀ e ∈ (Ev.openW (backupOf file) :: bodyEvents (backupOf file) chunks flushes ++ [Ev.close (backupOf file)]),
      e.onlyOn (backupOf file) := by
  intro e he
  simp only [List.cons_append, List.mem_cons, List.mem_append, List.mem_singleton, List.not_mem_nil, or_false] at he
  rcases he with rfl | he | rfl
  · simp [Ev.onlyOn]
  · exact bodyEvents_onlyOn _ _ _ e he
  · simp [Ev.onlyOn]

private theorem run_append (d : Disk) (a b : List Ev) : run d (a ++ b) = run (run d a) b := by
  simp [run, List.foldl_append]

private theorem writing_open (d : Disk) (b : String) : Writing (step d (.openW b)) b [] [] := by
  simp [step, Writing]

private theorem step_rename (d : Disk) (s t : String) (n : Node) (h : d.files s = some n) (hne : s ≠ t) :
    (step d (.rename s t)).files t = some n ∧ (step d (.rename s t)).files s = none := by
  simp [step, h, FS.set, FS.del, hne.symm]

/-- the disk after the complete event sequence -/
private theorem run_full (d : Disk) (file : String) (chunks : List Bytes) (flushes : List Nat) :
    (run d (saveEvents file chunks flushes)).files file = some (.file chunks.flatten) ∧
    (run d (saveEvents file chunks flushes)).files (backupOf file) = none := by
  have hne := backupOf_ne file
  obtain ⟨fl, buf, j, hw, hsum, hall⟩ :=
    body_prefix (backupOf file) chunks flushes (bodyEvents (backupOf file) chunks flushes).length _ [] []
      (writing_open d (backupOf file))
  rw [List.take_length] at hw
  have hj := hall (le_refl _)
  rw [hj] at hsum
  simp only [List.append_nil, List.nil_append] at hsum
  obtain ⟨hc1, _⟩ := writing_close hw
  have hrun : run d (saveEvents file chunks flushes) =
      step (step (run (step d (.openW (backupOf file))) (bodyEvents (backupOf file) chunks flushes))
        (.close (backupOf file))) (.rename (backupOf file) file) := by
    simp [saveEvents, run, List.foldl_append]
  rw [hrun, ← hsum]
  exact step_rename _ _ _ _ hc1 hne

/-- **C15_crash_consistent** — for every disk state (old cache document, stale backup, anything else), every new
document, every chunking of its text by `json.dump`, every write-back schedule of the buffered data and every
crash point `n` (hard crash: buffers lost):
* before the final rename has happened the cache file is *exactly* what it was (old document, or absent),
* after it the cache file is *exactly* the complete new text and the backup is gone,
* only the backup may be partial: untouched, or a prefix of the new text,
* no other path changes. -/
theorem C15_crash_consistent (d : Disk) (file : String) (chunks : List Bytes) (flushes : List Nat) (n : Nat) :
    let evs := saveEvents file chunks flushes
    let d' := crashHard d evs n
    (n < evs.length → d'.files file = d.files file) ∧
    (evs.length ≤ n → d'.files file = some (.file chunks.flatten) ∧ d'.files (backupOf file) = none) ∧
    (n < evs.length → d'.files (backupOf file) = d.files (backupOf file) ∨
        ∃ pre, pre <+: chunks.flatten ∧ d'.files (backupOf file) = some (.file pre)) ∧
    (∀ q, q ≠ file → q ≠ backupOf file → d'.files q = d.files q) := by
  intro evs d'
  have hne := backupOf_ne file
  have hlen : evs.length = (bodyEvents (backupOf file) chunks flushes).length + 3 := by
    simp [evs, saveEvents]
  have hpre := pre_onlyOn file chunks flushes
  have htake : n < evs.length → evs.take n =
      (Ev.openW (backupOf file) :: bodyEvents (backupOf file) chunks flushes ++ [Ev.close (backupOf file)]).take n := by
    intro hn
    simp only [evs]
    rw [save_split, List.take_append_of_le_length]
    simp only [List.cons_append, List.length_cons, List.length_append, List.length_nil]
    omega
  refine ⟨?_, ?_, ?_, ?_⟩
  · intro hn
    simp only [d', crashHard]
    rw [htake hn]
    exact run_files_other _ d (backupOf file) file
      (fun e he => hpre e (List.mem_of_mem_take he)) hne.symm
  · intro hn
    simp only [d', crashHard]
    rw [List.take_of_length_le hn]
    exact run_full d file chunks flushes
  · intro hn
    simp only [d', crashHard]
    rw [htake hn]
    rcases Nat.eq_zero_or_pos n with h0 | hpos
    · subst h0; left; simp [run]
    · right
      obtain ⟨m, rfl⟩ : ∃ m, n = m + 1 := ⟨n - 1, by omega⟩
      simp only [List.cons_append, List.take_succ_cons, run, List.foldl_cons]
      obtain ⟨fl, buf, j, hw, hsum, hall⟩ :=
        body_prefix (backupOf file) chunks flushes m _ [] [] (writing_open d (backupOf file))
      simp only [List.append_nil, List.nil_append] at hsum
      have hpfx : (chunks.take j).flatten <+: chunks.flatten := by
        conv_rhs => rw [← List.take_append_drop j chunks, List.flatten_append]
        exact List.prefix_append _ _
      by_cases hm : m ≤ (bodyEvents (backupOf file) chunks flushes).length
      · rw [List.take_append_of_le_length hm]
        refine ⟨fl, ?_, hw.1⟩
        exact (List.prefix_append fl buf).trans (hsum ▸ hpfx)
      · have hm' : m = (bodyEvents (backupOf file) chunks flushes).length + 1 := by omega
        have hge : (bodyEvents (backupOf file) chunks flushes).length ≤ m := by omega
        rw [List.take_of_length_le (by simp; omega), List.foldl_append]
        rw [List.take_of_length_le hge] at hw
        obtain ⟨hc1, _⟩ := writing_close hw
        refine ⟨fl ++ buf, hsum ▸ hpfx, ?_⟩
        simpa [run] using hc1
  · intro q hq1 hq2
    simp only [d', crashHard]
    by_cases hn : n < evs.length
    · rw [htake hn]
      exact run_files_other _ d (backupOf file) q (fun e he => hpre e (List.mem_of_mem_take he)) hq2
    · rw [List.take_of_length_le (by omega)]
      simp only [evs]
      rw [save_split, run_append]
      have h1 := run_files_other _ d (backupOf file) q hpre hq2
      simp only [run, List.foldl_cons, List.foldl_nil] at h1 ⊢
      simp only [step]
      split
      · simpa [FS.set, FS.del, hq1, hq2] using h1
      · exact h1

/-- **C15_crash_exception** — a Python exception raised inside the `with open(backup)` block (at `open`, in
`to_json_dict`, at any `write` call of `json.dump`): the block closes the backup, the rename is skipped.  The cache
file is untouched; the backup holds exactly the chunks written before the exception. -/
theorem C15_crash_exception (d : Disk) (file : String) (chunks : List Bytes) (flushes : List Nat) (n : Nat)
    (hn : n ≤ (bodyEvents (backupOf file) chunks flushes).length + 1) :
    let d' := crashExc d file (saveEvents file chunks flushes) n
    d'.files file = d.files file ∧
    (1 ≤ n → ∃ j, d'.files (backupOf file) = some (.file (chunks.take j).flatten) ∧
        d'.bufs (backupOf file) = none) := by
  intro d'
  have hne := backupOf_ne file
  have hpre := pre_onlyOn file chunks flushes
  have htake : (saveEvents file chunks flushes).take n =
      (Ev.openW (backupOf file) :: bodyEvents (backupOf file) chunks flushes).take n := by
    have : saveEvents file chunks flushes = (Ev.openW (backupOf file) :: bodyEvents (backupOf file) chunks flushes) ++
        [.close (backupOf file), .rename (backupOf file) file] := by simp [saveEvents]
    rw [this, List.take_append_of_le_length (by simpa using hn)]
  constructor
  · simp only [d', crashExc]
    rw [step_files_other _ _ (backupOf file) file (by simp [Ev.onlyOn]) hne.symm, htake]
    apply run_files_other _ d (backupOf file) file _ hne.symm
    intro e he
    have := List.mem_of_mem_take he
    exact hpre e (by simp only [List.cons_append, List.mem_cons, List.mem_append] at this ⊢; tauto)
  · intro hpos
    obtain ⟨m, rfl⟩ : ∃ m, n = m + 1 := ⟨n - 1, by omega⟩
    simp only [d', crashExc]
    rw [htake]
    simp only [List.take_succ_cons, run, List.foldl_cons]
    obtain ⟨fl, buf, j, hw, hsum, _⟩ :=
      body_prefix (backupOf file) chunks flushes m _ [] [] (writing_open d (backupOf file))
    simp only [List.append_nil, List.nil_append] at hsum
    obtain ⟨hc1, hc2⟩ := writing_close hw
    exact ⟨j, by simpa [run, hsum] using hc1, by simpa [run] using hc2⟩

/-! ## load / save round trip -/

/-- `load` looks at the cache file only -/
private theorem load_congr (decode : Bytes → Option J) (d d' : Disk) (file : String) (c : CacheMap)
    (h : d'.files file = d.files file) : load decode d' file c = load decode d file c := by
  simp [load, h]

/-- **C15_crash_old_or_new** — whatever the crash point, a restart reads either what it would have read before
the save began, or what it reads after the complete save: never a mixture, never a truncated document. -/
theorem C15_crash_old_or_new (decode : Bytes → Option J) (d : Disk) (file : String) (chunks : List Bytes)
    (flushes : List Nat) (n : Nat) (c : CacheMap) :
    let evs := saveEvents file chunks flushes
    load decode (crashHard d evs n) file c = load decode d file c ∨
    load decode (crashHard d evs n) file c = load decode (run d evs) file c := by
  intro evs
  obtain ⟨h1, h2, _, _⟩ := C15_crash_consistent d file chunks flushes n
  by_cases hn : n < evs.length
  · exact Or.inl (load_congr decode _ _ file c (h1 hn))
  · right
    apply load_congr
    rw [(h2 (Nat.le_of_not_lt hn)).1, (run_full d file chunks flushes).1]

private theorem update_nil (c : CacheMap) (h : (c.map Prod.fst).Nodup) :
    CacheMap.update [] c = c := by
  unfold CacheMap.update
  have := foldl_put_fresh (c.map Prod.snd) []
  -- direct induction is simpler
  clear this
  suffices ∀ acc : CacheMap, ((acc.map Prod.fst) ++ c.map Prod.fst).Nodup →
      c.foldl (fun a kv => a.put kv.1 kv.2) acc = acc ++ c by
    simpa using this [] (by simpa using h)
  intro acc
  induction c generalizing acc with
  | nil => simp
  | cons kv r ih =>
    intro hnd
    simp only [List.foldl_cons]
    have hfresh : kv.1 ∉ acc.map Prod.fst := by
      intro hm
      rw [List.nodup_append] at hnd
      exact hnd.2.2 _ hm _ (by simp) rfl
    rw [put_new acc kv.1 kv.2 (get?_none_of_not_mem acc _ hfresh)]
    rw [ih (List.nodup_cons.mp h).2]
    · simp
    · simpa [List.append_assoc] using hnd

/-- **C15_save_load_roundtrip** — `save_cache` followed by a restart (`FileSet(info_cache=file)`), on any disk.
The JSON layer enters only through *this* document: `text` is what `json.dump` wrote for `cacheDoc c` (the chunks
spell it) and `json.load` reads that text back as the same document (`hrt`; no claim about other JSON values).
Then the restarted FileSet holds exactly the saved cache — same paths, same order, times to the microsecond from
datetime.min to datetime.max, same attributes — and no warning is issued. -/
theorem C15_save_load_roundtrip (decode : Bytes → Option J) (text : Bytes)
    (d : Disk) (file : String) (c : CacheMap) (hc : WFCache c) (chunks : List Bytes) (flushes : List Nat)
    (hch : chunks.flatten = text) (hrt : decode text = some (cacheDoc c)) :
    init decode (run d (saveEvents file chunks flushes)) file = ⟨c, false⟩ := by
  simp only [init, load, (run_full d file chunks flushes).1, hch, hrt, docToMap_cacheDoc c hc]
  rw [update_nil c hc.1]

/-- the same with a non-empty cache at load time: `load_cache` is a dictionary update -/
theorem C15_save_load_update (decode : Bytes → Option J) (text : Bytes)
    (d : Disk) (file : String) (c c0 : CacheMap) (hc : WFCache c) (chunks : List Bytes) (flushes : List Nat)
    (hch : chunks.flatten = text) (hrt : decode text = some (cacheDoc c)) :
    load decode (run d (saveEvents file chunks flushes)) file c0 = ⟨c0.update c, false⟩ := by
  simp only [load, (run_full d file chunks flushes).1, hch, hrt, docToMap_cacheDoc c hc]

/-- **C15_load_total** — `load_cache` never raises (the model function is total and every failure path ends in
the warning branch) and:
* a warning leaves the cache exactly as it was;
* an unreadable file (directory), undecodable text or a document with any malformed entry ⇒ warning;
* a missing file ⇒ nothing happens;
* no invented information: every entry present afterwards was there before or is `from_json_dict` of an entry
  of the decoded document, stored under that entry's own path. -/
theorem C15_load_total (decode : Bytes → Option J) (d : Disk) (file : String) (c : CacheMap) :
    let r := load decode d file c
    (r.warned = true → r.cache = c) ∧
    ((d.files file = some .dir ∨ ∃ b, d.files file = some (.file b) ∧
        (decode b = none ∨ ∃ j, decode b = some j ∧ docToMap j = none)) → r.warned = true ∧ r.cache = c) ∧
    (d.files file = none → r.warned = false ∧ r.cache = c) ∧
    (∀ k i, r.cache.get? k = some i → c.get? k = some i ∨
        ∃ b j es e, d.files file = some (.file b) ∧ decode b = some j ∧ entriesOf j = some es ∧ e ∈ es ∧
          fromJsonDict e = some i ∧ i.path = k) := by
  intro r
  refine ⟨?_, ?_, ?_, ?_⟩
  · simp only [r, load]
    split <;> try simp
    split <;> try simp
    split <;> simp
  · rintro (h | ⟨b, hb, h | ⟨j, hj, hm⟩⟩)
    · simp [r, load, h]
    · simp [r, load, hb, h]
    · simp [r, load, hb, hj, hm]
  · intro h; simp [r, load, h]
  · intro k i hki
    simp only [r, load] at hki
    split at hki
    · exact Or.inl hki
    · exact Or.inl hki
    · rename_i b hb
      split at hki
      · exact Or.inl hki
      · rename_i j hj
        split at hki
        · exact Or.inl hki
        · rename_i m hm
          rcases get?_update m c k i hki with h | h
          · exact Or.inl h
          · right
            simp only [docToMap] at hm
            split at hm
            · exact absurd hm (by simp)
            · rename_i es hes
              split at hm
              · exact absurd hm (by simp)
              · rename_i infos hinfos
                simp only [Option.some.injEq] at hm
                subst hm
                rcases mem_foldl_put infos [] (k, i) h with h' | ⟨h1, h2⟩
                · simp at h'
                · obtain ⟨e, he, hfe⟩ := mapM_mem fromJsonDict es infos hinfos i h1
                  exact ⟨b, j, es, e, hb, hj, hes, he, hfe, h2⟩

private theorem mapM_none_of_mem {α β : Type} (f : α → Option β) (l : List α) (x : α) (hx : x ∈ l)
    (hf : f x = none) : l.mapM f = none := by
  induction l with
  | nil => simp at hx
  | cons a r ih =>
    simp only [List.mapM_cons]
    simp only [List.mem_cons] at hx
    rcases hx with rfl | hx
    · simp [hf]
    · cases f a <;> simp [ih hx]

/-- **C15_null_time_rejected** (behaviour since `fix:` ace221c) — a document in which some entry has a JSON `null`
(or any non-string) as start or end time is malformed as a whole: warning, cache unchanged — no entry of that
document, not even a well-formed one, reaches the cache. -/
theorem C15_null_time_rejected (decode : Bytes → Option J) (d : Disk) (file : String) (c : CacheMap)
    (b : Bytes) (j : J) (es : List J) (kvs : List (String × J)) (t0 t1 : J) (rest : List J)
    (hf : d.files file = some (.file b)) (hj : decode b = some j) (hes : entriesOf j = some es)
    (he : J.obj kvs ∈ es) (ht : jget kvs "times" = some (.arr (t0 :: t1 :: rest)))
    (hnull : t0 = .null ∨ t1 = .null) :
    (load decode d file c).warned = true ∧ (load decode d file c).cache = c := by
  apply (C15_load_total decode d file c).2.1
  refine Or.inr ⟨b, hf, Or.inr ⟨j, hj, ?_⟩⟩
  have hts : timeSlot .null = none := rfl
  have htimes : timesOf (.arr (t0 :: t1 :: rest)) = none := by
    rcases hnull with h | h <;> subst h
    · simp [timesOf, hts]
    · simp only [timesOf, hts]
      cases timeSlot t0 <;> rfl
  have hnone : fromJsonDict (J.obj kvs) = none := by
    unfold fromJsonDict
    simp only [ht]
    split
    · rename_i p ts a h1 h2 h3
      simp only [Option.some.injEq] at h2
      subst h2
      rw [htimes]
      cases p.toKey? <;> rfl
    · rfl
  simp [docToMap, hes, mapM_none_of_mem fromJsonDict es _ he hnone]

/-- **C15_truncated_warns** — let `text` be the saved text of one document and assume that `json.load` rejects
every strict prefix of *this* text (true for the text of a JSON list, which ends with its only top-level `]`).
Then a cache file cut at any byte produces the warning and leaves the cache unchanged. -/
theorem C15_truncated_warns (decode : Bytes → Option J) (text : Bytes)
    (hpre : ∀ n, n < text.length → decode (text.take n) = none)
    (d : Disk) (file : String) (c : CacheMap) (n : Nat) (hn : n < text.length)
    (hf : d.files file = some (.file (text.take n))) :
    (load decode d file c).warned = true ∧ (load decode d file c).cache = c :=
  (C15_load_total decode d file c).2.1 (Or.inr ⟨_, hf, Or.inl (hpre n hn)⟩)

/-! ## look-ups with a pre-filled cache -/

/-- the cache only holds what `get_info` would compute itself -/
def Consistent (compute : Key → Option Info) (c : CacheMap) : Prop :=
  ∀ k i, c.get? k = some i → compute k = some i

/-- **C15_find_same_with_cache** — when every cached entry equals what `get_info` would compute for that path
(e.g. a cache restored by `load_cache` from an earlier run on unchanged files), the sequence of look-ups of a
`find()` returns the same infos as with an empty cache, and the cache stays consistent. -/
theorem C15_find_same_with_cache (compute : Key → Option Info)
    (hpath : ∀ k i, compute k = some i → i.path = k)
    (c : CacheMap) (hc : Consistent compute c) (ps : List Key) :
    (getInfos compute c ps).1 = ps.map compute ∧
    (getInfos compute c ps).1 = (getInfos compute [] ps).1 ∧
    Consistent compute (getInfos compute c ps).2 := by
  have key : ∀ (ps : List Key) (c : CacheMap), Consistent compute c →
      (getInfos compute c ps).1 = ps.map compute ∧ Consistent compute (getInfos compute c ps).2 := by
    intro ps
    induction ps with
    | nil => intro c hc; exact ⟨rfl, hc⟩
    | cons p ps ih =>
      intro c hc
      simp only [getInfos, List.map_cons]
      have h1 : (getInfo compute c p).1 = compute p ∧ Consistent compute (getInfo compute c p).2 := by
        unfold getInfo
        cases hget : c.get? p with
        | some i => exact ⟨(hc p i hget).symm, hc⟩
        | none =>
          cases hcp : compute p with
          | none => exact ⟨rfl, hc⟩
          | some i =>
            refine ⟨rfl, ?_⟩
            intro k i' hk
            simp only at hk
            rw [get?_put] at hk
            split at hk
            · rename_i hik
              simp only [Option.some.injEq] at hk
              rw [← hik, hpath p i hcp, ← hk]; exact hcp
            · exact hc k i' hk
      obtain ⟨h2, h3⟩ := ih _ h1.2
      exact ⟨by rw [h1.1, h2], h3⟩
  have hnil : Consistent compute [] := by intro k i h; simp [CacheMap.get?] at h
  exact ⟨(key ps c hc).1, by rw [(key ps c hc).1, (key ps [] hnil).1], (key ps c hc).2⟩

/-- after `reset_cache` (also done by the `time_coverage` setter) every look-up is computed afresh -/
theorem C15_reset_recomputes (compute : Key → Option Info) (c : CacheMap) (p : Key) :
    (getInfo compute (resetCache c) p).1 = compute p := by
  simp only [resetCache, getInfo, CacheMap.get?]
  cases compute p <;> rfl

/-! ## non-vacuity: concrete states satisfying the hypotheses -/

private def exInfo : Info :=
  { path := .str "/d/2018/a.nc", t0 := ⟨1, 1, 1, 0, 0, 0, 0⟩, t1 := ⟨9999, 12, 31, 23, 59, 59, 999999⟩,
    attr := .obj [("sat", .str "A")] }

example : WFCache [(exInfo.path, exInfo)] := by
  refine ⟨by simp, ?_⟩
  intro kv hkv
  simp only [List.mem_singleton] at hkv
  subst hkv
  exact ⟨rfl, by decide, by decide, by simp [exInfo]⟩

example : Consistent (fun k => if k = exInfo.path then some exInfo else none) [(exInfo.path, exInfo)] := by
  intro k i h
  simp only [CacheMap.get?] at h
  split at h
  · rename_i hk; simp only [Option.some.injEq] at h; simp [← hk, h]
  · simp at h

/-- a codec satisfying the JSON hypotheses for the concrete cache above: the text `[1, 2, 3]` decodes to its
document, nothing else decodes (in particular no strict prefix) -/
private def exText : Bytes := [1, 2, 3]
private def exDecode (b : Bytes) : Option J := if b = exText then some (cacheDoc [(exInfo.path, exInfo)]) else none

example : exDecode exText = some (cacheDoc [(exInfo.path, exInfo)]) := by simp [exDecode]

example : ∀ n, n < exText.length → exDecode (exText.take n) = none := by
  intro n hn
  have : n = 0 ∨ n = 1 ∨ n = 2 := by simp [exText] at hn; omega
  rcases this with rfl | rfl | rfl <;> simp [exDecode, exText]

/-- the round-trip theorem instantiated with that codec (hypotheses are jointly satisfiable) -/
example (d : Disk) (hwf : WFCache [(exInfo.path, exInfo)]) :
    init exDecode (run d (saveEvents "c.json" [[1], [2, 3]] [1])) "c.json" = ⟨[(exInfo.path, exInfo)], false⟩ :=
  C15_save_load_roundtrip exDecode exText d "c.json" _ hwf [[1], [2, 3]] [1] (by simp [exText]) (by simp [exDecode])

-- executable sanity tests of the model (a crash in the middle keeps the old file; the full run replaces it)
private def d0 : Disk := { files := (FS.empty.set "c" (.file [1, 2, 3])), bufs := FS.empty }
#guard (crashHard d0 (saveEvents "c" [[7], [8, 9]] [1]) 3).files "c" == some (.file [1, 2, 3])
#guard (crashHard d0 (saveEvents "c" [[7], [8, 9]] [1]) 3).files "c.backup" == some (.file [7])
#guard (crashExc d0 "c" (saveEvents "c" [[7], [8, 9]] [1]) 3).files "c.backup" == some (.file [7])
#guard (crashHard d0 (saveEvents "c" [[7], [8, 9]] [1]) 6).files "c" == some (.file [7, 8, 9])
#guard (crashHard d0 (saveEvents "c" [[7], [8, 9]] [1]) 6).files "c.backup" == none
#guard (crashHard d0 (saveEvents "c" [[7], [8, 9]] [1]) 5).files "c" == some (.file [1, 2, 3])
-- a null time makes the entry (hence the whole document) malformed since fix ace221c
#guard (fromJsonDict (.obj [("path", .str "p"), ("times", .arr [.null, .null]), ("attr", .null)])).isNone
#guard (fromJsonDict (.obj [("path", .str "p"), ("times", .arr [.str "2020-01-01T00:00:00.000000", .null]), ("attr", .null)])).isNone
#guard (fromJsonDict (.obj [("path", .str "p"), ("times", .arr [.str "2020-01-01T00:00:00.000000", .str "2020-01-01T00:00:00.5"]), ("attr", .null)])).isSome
#guard (docToMap (.arr [.obj [("path", .str "p"), ("times", .arr [.null, .null]), ("attr", .obj [])]])).isNone
#guard (fromJsonDict (.obj [("path", .str "p"), ("times", .arr [.str "x", .null]), ("attr", .null)])).isNone
#guard (fromJsonDict (.obj [("path", .arr []), ("times", .arr [.null, .null]), ("attr", .null)])).isNone
#guard (fromJsonDict (.obj [("path", .str "p"), ("attr", .null)])).isNone
#guard (docToMap (.obj [])).isSome && (docToMap (.obj [("a", .null)])).isNone && (docToMap (.num "3")).isNone

assert_axioms C15_time_text_roundtrip C15_time_text_injective C15_crash_consistent C15_crash_exception
  C15_crash_old_or_new C15_save_load_roundtrip C15_save_load_update C15_load_total C15_null_time_rejected C15_truncated_warns
  C15_find_same_with_cache C15_reset_recomputes

end Cache
