import Model.Compress
import Proofs.Lemmas.Names
import Mathlib.Tactic
import Proofs.Audit
set_option linter.unusedSimpArgs false
set_option linter.unusedVariables false

/-!
# C12 — compress / decompress round-trip any content and leave no debris

Property theorems about `Model/Compress.lean`.  The codecs are the parameter `C : Codec` with the contract
`C.dec f m (C.enc f m b) = some b` as a hypothesis.  "Debris" = anything in the temporary namespace
(`St.tmp`: the temporary directory of `compress`, the decompressed copy of `decompress`).
-/
namespace Compress
open FSModel

/-- `tempfile` hands out a name that does not exist (and, being absent, has no children) -/
def Fresh (st : St) : Prop :=
  st.tmp (tmpName st.next) = none ∧ ∀ q, under (tmpName st.next) q = true → st.tmp q = none

/-- the caller's block writes temporary data only inside the directory / file it was given -/
def ConfinedTo (d : String) (body : Body) : Prop :=
  ∀ s q, q ≠ d → under d q = false → (body (d ++ "/temp") s).1.tmp q = s.tmp q

theorem under_temp (d : String) : under d (d ++ "/temp") = true := by
  unfold under
  rw [String.toList_append, List.isPrefixOf_iff_prefix]
  exact ⟨"temp".toList, by simp [List.append_assoc]⟩

/-! ## format table -/

/-- **C12_format_table** — the four advertised formats, and only they, are compression formats; suffixes select
them, also in names with several dots; near misses pass through. -/
theorem C12_format_table :
    Fmt.ofString? "gz" = some .gz ∧ Fmt.ofString? "bz2" = some .bz2 ∧ Fmt.ofString? "zip" = some .zip ∧
    Fmt.ofString? "xz" = some .xz ∧
    isFmt ".xz" = false ∧ isFmt "" = false ∧ isFmt "gzip" = false ∧ isFmt "GZ" = false ∧ isFmt "lzma" = false ∧
    isFmt "tar" = false ∧
    fmtOfName "dir.d/a.b.tar.gz" = "gz" ∧ fmtOfName "x.bz2" = "bz2" ∧ fmtOfName "/a/b.c/x.y.zip" = "zip" ∧
    fmtOfName "data.nc.xz" = "xz" ∧ fmtOfName "a..gz" = "gz" ∧
    fmtOfName ".gz" = "" ∧ fmtOfName "a.gz." = "" ∧ fmtOfName "dir.gz/file" = "" ∧ fmtOfName "...gz" = "" ∧
    fmtOfName "a.gz/.xz" = "" := by
  decide +kernel

theorem C12_format_names (f : Fmt) : Fmt.ofString? f.toString = some f := by
  cases f <;> decide +kernel

theorem C12_format_iff (s : String) : isFmt s = true ↔ s = "gz" ∨ s = "bz2" ∨ s = "zip" ∨ s = "xz" := by
  unfold isFmt Fmt.ofString?
  constructor
  · intro h
    by_contra hne
    push Not at hne
    simp [hne.1, hne.2.1, hne.2.2.1, hne.2.2.2] at h
  · rintro (h | h | h | h) <;> subst h <;> decide +kernel

/-! ## pass-through -/

/-- **C12_passthrough** — a name without compression suffix (and no `fmt=`) is yielded untouched and the only
state change is the caller's own; likewise for `decompress`.  No temporary name is consumed. -/
theorem C12_passthrough (C : Codec) (name : String) (h : Fmt.ofString? (fmtOfName name) = none)
    (cf : Option CStep) (df : Option DStep) (body : Body) (st : St) :
    compress C name none cf body st = ((body name st).1, if (body name st).2 then .raised else .ok) ∧
    decompress C name df body st = ((body name st).1, if (body name st).2 then .raised else .ok) := by
  simp [compress, decompress, h]

/-! ## no debris -/

private theorem rm_fresh (tmp : FS TNode) (d : String) (tmp0 : FS TNode)
    (h0 : tmp0 d = none) (hch : ∀ q, under d q = true → tmp0 q = none)
    (h : ∀ q, q ≠ d → under d q = false → tmp q = tmp0 q) : rmTmpDir tmp d = tmp0 := by
  funext q
  unfold rmTmpDir
  by_cases hq : q = d
  · simp [hq, h0]
  · by_cases hu : under d q = true
    · simp [hu, hch q hu]
    · simp only [Bool.not_eq_true] at hu
      simp [hq, hu, h q hq hu]

private theorem compressAs_tmp (C : Codec) (tfile : String) (f : Fmt) (fmtS target : String)
    (fault : Option CStep) (st : St) : (compressAs C tfile f fmtS target fault st).1.tmp = st.tmp := by
  unfold compressAs
  cases f <;> simp only <;> (repeat' split) <;> rfl

/-- **C12_no_debris (compress)** — for every fault position (`none`, `mkTmpDir`, `openSrc`, `openTarget`, `ctor`,
`copy`), every caller block (raising or not, writing whatever it likes below the yielded directory and anywhere in
the user file system), every format, given by suffix or by `fmt=`: after the block the temporary namespace is
exactly what it was before. -/
theorem C12_no_debris_compress (C : Codec) (name : String) (fmtArg : Option String) (f : Fmt)
    (hf : Fmt.ofString? (fmtArg.getD (fmtOfName name)) = some f)
    (fault : Option CStep) (body : Body) (st : St) (hfresh : Fresh st)
    (hbody : ConfinedTo (tmpName st.next) body) :
    (compress C name fmtArg fault body st).1.tmp = st.tmp := by
  unfold compress
  simp only [hf]
  obtain ⟨h0, hch⟩ := hfresh
  have key : ∀ s : St, (∀ q, q ≠ tmpName st.next → under (tmpName st.next) q = false →
      s.tmp q = (st.tmp.set (tmpName st.next) TNode.dir) q) → rmTmpDir s.tmp (tmpName st.next) = st.tmp := by
    intro s hs
    apply rm_fresh _ _ _ h0 hch
    intro q hq hu
    rw [hs q hq hu, FS.set_other _ _ _ _ hq]
  split
  · rfl
  · split
    · simp only
      apply key
      intro q hq hu
      exact hbody _ q hq hu
    · simp only
      apply key
      intro q hq hu
      rw [compressAs_tmp]
      exact hbody _ q hq hu

/-- **C12_no_debris (decompress)** — for every fault position (`none`, `mkTmpFile`, `ctor`, `copy`), corrupt,
truncated or missing archives (`C.dec … = none`), raising or returning caller blocks: the decompressed copy is gone
and the temporary namespace is exactly what it was. -/
theorem C12_no_debris_decompress (C : Codec) (name : String) (f : Fmt)
    (hf : Fmt.ofString? (fmtOfName name) = some f)
    (fault : Option DStep) (body : Body) (st : St) (hfresh : Fresh st)
    (hbody : ∀ p s q, q ≠ tmpName st.next → (body p s).1.tmp q = s.tmp q) :
    (decompress C name fault body st).1.tmp = st.tmp ∧
    (decompress C name fault body st).1.tmp (tmpName st.next) = none := by
  have h0 := hfresh.1
  have key : ∀ s : FS TNode, (∀ q, q ≠ tmpName st.next → s q = st.tmp q) →
      s.del (tmpName st.next) = st.tmp := by
    intro s hs
    funext q
    by_cases hq : q = tmpName st.next
    · simp [hq, h0]
    · rw [FS.del_other _ _ _ hq, hs q hq]
  have main : (decompress C name fault body st).1.tmp = st.tmp := by
    unfold decompress
    simp only [hf]
    split
    · rfl
    · split
      · simp only
        apply key
        intro q hq
        simp [FS.set, hq]
      · split
        · simp only
          apply key
          intro q hq
          simp [FS.set, hq]
        · simp only
          apply key
          intro q hq
          rw [hbody _ _ q hq]
          simp [FS.set, hq]
  exact ⟨main, by rw [main]; exact h0⟩

/-- **C12_no_debris_decompress_target** — `decompress(name, target=tgt)`: for every fault position, archive state
and caller block (raising or not) the explicitly named copy `tgt` does not exist afterwards (unless opening it
failed in the first place, then nothing changed at all), and the call itself adds nothing to the temporary
namespace. -/
theorem C12_no_debris_decompress_target (C : Codec) (name tgt : String) (f : Fmt)
    (hf : Fmt.ofString? (fmtOfName name) = some f)
    (fault : Option DStep) (body : Body) (st : St)
    (hbody : ∀ p s, (body p s).1.tmp = s.tmp) :
    (decompressTo C name tgt fault body st).1.tmp = st.tmp ∧
    (fault ≠ some .mkTmpFile → (decompressTo C name tgt fault body st).1.user tgt = none) ∧
    (fault = some .mkTmpFile → (decompressTo C name tgt fault body st).1.user = st.user) := by
  unfold decompressTo
  simp only [hf]
  refine ⟨?_, ?_, ?_⟩
  · split
    · rfl
    · split
      · rfl
      · split
        · rfl
        · simp only [hbody]
  · intro hne
    simp only [hne, if_false]
    split
    · simp [FS.del]
    · split <;> simp [FS.del]
  · intro h
    simp [h]

/-! ## an exception in the caller's block -/

/-- **C12_body_exception_preserves_target** — when the block inside `compress` raises, `compress_as` is never
reached: the user-visible file system is exactly what the block itself left (so a block that does not touch the
target leaves it absent or byte-identical), the exception propagates, and the temporary directory is removed. -/
theorem C12_body_exception_preserves_target (C : Codec) (name : String) (fmtArg : Option String) (f : Fmt)
    (hf : Fmt.ofString? (fmtArg.getD (fmtOfName name)) = some f)
    (fault : Option CStep) (body : Body) (st : St)
    (hraise : ∀ p s, (body p s).2 = true)
    (htarget : ∀ p s, (body p s).1.user name = s.user name) :
    (compress C name fmtArg fault body st).2 = .raised ∧
    (compress C name fmtArg fault body st).1.user name = st.user name := by
  unfold compress
  simp only [hf]
  split
  · exact ⟨rfl, rfl⟩
  · simp only [hraise, if_true]
    exact ⟨trivial, htarget _ _⟩

/-! ## round trip -/

/-- **C12_roundtrip** — for each of the four formats, any content `b` and any name whose suffix selects the format
(also when `fmt=` repeats it): after `with compress(name) as p: write b to p`, the target holds `enc b` (a genuine
archive of that format by the codec contract), and `with decompress(name) as q` yields a temporary file holding
exactly `b`; afterwards that copy is deleted.  Hypotheses: the codec contract, a fresh temporary name, the target is
not a directory, and the archive member names agree (`memberC = memberD`, only relevant for zip; see
`C12_member_examples`). -/
theorem C12_roundtrip (C : Codec) (hcodec : ∀ f m b, C.dec f m (C.enc f m b) = some b)
    (name : String) (fmtArg : Option String) (f : Fmt)
    (hf : Fmt.ofString? (fmtOfName name) = some f)
    (harg : fmtArg.getD (fmtOfName name) = fmtOfName name)
    (hmember : memberC name (fmtOfName name) = memberD name)
    (b : Bytes) (st : St) (hfresh : Fresh st) (hnodir : st.user name ≠ some .dir)
    (body' : Body) :
    let r1 := compress C name fmtArg none (writeBody b false) st
    r1.2 = .ok ∧
    r1.1.user name = some (.data (C.enc f (memberD name) b)) ∧
    r1.1.tmp = st.tmp ∧
    (∀ q, q ≠ name → r1.1.user q = st.user q) ∧
    ∃ s2 : St, s2.tmp (tmpName r1.1.next) = some (.file b) ∧ s2.user = r1.1.user ∧
      decompress C name none body' r1.1 =
        ({ (body' (tmpName r1.1.next) s2).1 with tmp := (body' (tmpName r1.1.next) s2).1.tmp.del (tmpName r1.1.next) },
         if (body' (tmpName r1.1.next) s2).2 then .raised else .ok) := by
  intro r1
  have hsrc : ((writeBody b false) (tmpName st.next ++ "/temp")
      { st with tmp := st.tmp.set (tmpName st.next) .dir, next := st.next + 1 }).1.tmp (tmpName st.next ++ "/temp")
      = some (.file b) := by simp [writeBody]
  have hdir : (st.user name == some UFile.dir) = false := by
    simp only [beq_eq_false_iff_ne]; exact hnodir
  -- evaluate compress
  have hr1 : r1 = ({ user := st.user.set name (.data (C.enc f (memberD name) b)),
                     tmp := rmTmpDir ((st.tmp.set (tmpName st.next) .dir).set (tmpName st.next ++ "/temp") (.file b)) (tmpName st.next),
                     next := st.next + 1 }, .ok) := by
    simp only [r1, compress, harg, hf, writeBody, Bool.false_eq_true, if_false]
    cases f <;>
      simp [compressAs, hdir, hmember, FS.set_same, harg]
  have htmp : r1.1.tmp = st.tmp := by
    rw [hr1]
    apply rm_fresh _ _ _ hfresh.1 hfresh.2
    intro q hq hu
    have hne : q ≠ tmpName st.next ++ "/temp" := by
      intro h; rw [h, under_temp] at hu; exact absurd hu (by simp)
    simp [FS.set, hq, hne]
  refine ⟨by rw [hr1], by rw [hr1]; simp, htmp, ?_, ?_⟩
  · intro q hq; rw [hr1]; simp [FS.set, hq]
  · refine ⟨{ user := r1.1.user,
              tmp := (r1.1.tmp.set (tmpName r1.1.next) (.file [])).set (tmpName r1.1.next) (.file b),
              next := r1.1.next + 1 }, by simp, rfl, ?_⟩
    have huser : r1.1.user name = some (.data (C.enc f (memberD name) b)) := by rw [hr1]; simp
    simp only [decompress, hf, huser, hcodec]
    simp

/-! ## archive member names -/

private theorem lstripDots_noDot (ext : List Char) (hd : '.' ∉ ext) : lstripDots ('.' :: ext) = ext := by
  cases ext with
  | nil => simp [lstripDots]
  | cons x r =>
    have hx : x ≠ '.' := by
      intro h; subst h; exact hd (by simp)
    rw [lstripDots]
    unfold lstripDots
    split
    · rename_i heq
      simp only [List.cons.injEq] at heq
      exact absurd heq.1 hx
    · rfl

/-- **C12_member_names** — for every name of the form `base.ext` or `dir/base.ext` (any directory part, also with
dots and further slashes; `base` without `/` and with at least one non-dot character; `ext` without `.` and `/` —
in particular the four formats): the suffix is `ext`, and the zip member name written by `compress_as` equals the
member name `decompress` asks for, namely `base` (which may itself contain dots: `a.b.c.zip ↦ a.b.c`).
This discharges the hypothesis `hmember` of `C12_roundtrip` for all such names (`C12_roundtrip_names`). -/
theorem C12_member_names (pre base ext : List Char) (hpre : pre = [] ∨ ∃ dir, pre = dir ++ ['/'])
    (hs : '/' ∉ base) (hse : '/' ∉ ext) (hd : '.' ∉ ext) (hb : base.any (· ≠ '.') = true) :
    let name := String.ofList (pre ++ (base ++ '.' :: ext))
    fmtOfName name = String.ofList ext ∧
    memberC name (String.ofList ext) = String.ofList base ∧
    memberD name = String.ofList base := by
  intro name
  have hsl : '/' ∉ base ++ '.' :: ext := by
    simp only [List.mem_append, List.mem_cons, not_or]
    exact ⟨hs, by decide, hse⟩
  have hsplit : splitext (pre ++ (base ++ '.' :: ext)) = (pre ++ base, '.' :: ext) := by
    rcases hpre with rfl | ⟨dir, rfl⟩
    · simpa using splitext_flat base ext hs hse hd hb
    · have := splitext_dir dir base ext hs hse hd hb
      simpa [List.append_assoc] using this
  have hbase : basename (pre ++ (base ++ '.' :: ext)) = base ++ '.' :: ext := by
    rcases hpre with rfl | ⟨dir, rfl⟩
    · simpa using basename_flat _ hsl
    · have := basename_dir dir (base ++ '.' :: ext) hsl
      simpa [List.append_assoc] using this
  have hbase2 : basename (pre ++ base) = base := by
    rcases hpre with rfl | ⟨dir, rfl⟩
    · simpa using basename_flat _ hs
    · have := basename_dir dir base hs
      simpa [List.append_assoc] using this
  have hsuf : ext.isSuffixOf ('.' :: ext) = true := by
    rw [List.isSuffixOf_iff_suffix]
    exact List.suffix_cons _ _
  refine ⟨?_, ?_, ?_⟩
  · simp only [fmtOfName, name, String.toList_ofList, hsplit, lstripDots_noDot ext hd]
  · simp only [memberC, name, String.toList_ofList, hbase, splitext_flat base ext hs hse hd hb, hsuf, if_true]
  · simp only [memberD, name, String.toList_ofList, hsplit, hbase2]

/-- `C12_roundtrip` without the member-name hypothesis for all names `base.ext` / `dir/base.ext` -/
theorem C12_roundtrip_names (C : Codec) (hcodec : ∀ f m b, C.dec f m (C.enc f m b) = some b)
    (pre base ext : List Char) (hpre : pre = [] ∨ ∃ dir, pre = dir ++ ['/'])
    (hs : '/' ∉ base) (hse : '/' ∉ ext) (hd : '.' ∉ ext) (hb : base.any (· ≠ '.') = true)
    (f : Fmt) (hf : Fmt.ofString? (String.ofList ext) = some f)
    (b : Bytes) (st : St) (hfresh : Fresh st)
    (hnodir : st.user (String.ofList (pre ++ (base ++ '.' :: ext))) ≠ some .dir) (body' : Body) :
    let name := String.ofList (pre ++ (base ++ '.' :: ext))
    let r1 := compress C name none none (writeBody b false) st
    r1.2 = .ok ∧ r1.1.user name = some (.data (C.enc f (String.ofList base) b)) ∧ r1.1.tmp = st.tmp ∧
    ∃ s2 : St, s2.tmp (tmpName r1.1.next) = some (.file b) ∧
      decompress C name none body' r1.1 =
        ({ (body' (tmpName r1.1.next) s2).1 with tmp := (body' (tmpName r1.1.next) s2).1.tmp.del (tmpName r1.1.next) },
         if (body' (tmpName r1.1.next) s2).2 then .raised else .ok) := by
  intro name r1
  obtain ⟨h1, h2, h3⟩ := C12_member_names pre base ext hpre hs hse hd hb
  have hf' : Fmt.ofString? (fmtOfName name) = some f := by rw [h1]; exact hf
  have hm : memberC name (fmtOfName name) = memberD name := by rw [h1, h2, h3]
  obtain ⟨a1, a2, a3, _, s2, a5, _, a7⟩ := C12_roundtrip C hcodec name none f hf' rfl hm b st hfresh hnodir body'
  exact ⟨a1, by rw [← h3]; exact a2, a3, s2, a5, a7⟩

/-
Remaining gap (not proved): names outside the shape `[dir/]base.ext` above — e.g. a base consisting only of dots
(then there is no suffix and the name passes through) — and `fmt=` given with a name whose suffix differs
(then `memberC` keeps the full file name and `decompress` cannot find the format from the name at all).
-/

/-! ## non-vacuity and executable sanity tests -/

/-- the member names agree on suffix-selected zip names (checked by evaluation; also compared with the real
`ZipFile.namelist()` by the harness) -/
theorem C12_member_examples :
    memberC "a.zip" "zip" = memberD "a.zip" ∧ memberC "/x/y.d/a.b.c.zip" "zip" = memberD "/x/y.d/a.b.c.zip" ∧
    memberC "d/..a.zip" "zip" = memberD "d/..a.zip" ∧ memberC "a b.tar.zip" "zip" = memberD "a b.tar.zip" ∧
    memberC "data.bin" "zip" = "data.bin" ∧ memberC "x.gz" "gz" = "x" := by
  decide +kernel

private def idCodec : Codec := { enc := fun _ _ b => b, dec := fun _ _ b => some b }
private def st0 : St := { user := FS.empty, tmp := FS.empty, next := 0 }

example : Fresh st0 := ⟨rfl, fun _ _ => rfl⟩

example (b : Bytes) (r : Bool) (d : String) : ConfinedTo d (writeBody b r) := by
  intro s q hq hu
  have hne : q ≠ d ++ "/temp" := by
    intro h; rw [h, under_temp] at hu; exact absurd hu (by simp)
  simp [writeBody, FS.set, hne]

example (r : Bool) (d : String) : ConfinedTo d (idleBody r) := fun _ _ _ _ => rfl

example : ∀ f m b, idCodec.dec f m (idCodec.enc f m b) = some b := fun _ _ _ => rfl

-- round trip, debris and fault behaviour on a concrete state
#guard (compress idCodec "out/x.nc.gz" none none (writeBody [1, 2, 3] false) st0).2 == .ok
#guard (compress idCodec "out/x.nc.gz" none none (writeBody [1, 2, 3] false) st0).1.user "out/x.nc.gz" == some (.data [1, 2, 3])
#guard (compress idCodec "out/x.nc.gz" none none (writeBody [1, 2, 3] false) st0).1.tmp "t0/temp" == none
#guard (compress idCodec "out/x.nc.gz" none none (writeBody [1, 2, 3] false) st0).1.tmp "t0" == none
#guard (compress idCodec "out/x.nc.gz" none none (writeBody [1, 2, 3] true) st0).1.user "out/x.nc.gz" == none
#guard (compress idCodec "out/x.nc.gz" none (some .copy) (writeBody [1, 2, 3] false) st0).1.user "out/x.nc.gz" == some .partialOut
#guard (compress idCodec "out/x.nc.gz" none (some .copy) (writeBody [1, 2, 3] false) st0).1.tmp "t0/temp" == none
#guard (compress idCodec "out/x.nc.gz" none none (idleBody false) st0).2 == .raised          -- nothing written: FileNotFoundError
#guard (compress idCodec "out/x.nc.gz" none none (idleBody false) st0).1.user "out/x.nc.gz" == none
#guard (compress idCodec "out/x.zip" none none (idleBody false) st0).1.user "out/x.zip" == some .partialOut
#guard (compress idCodec "plain.txt" (some "bz2") none (writeBody [9] false) st0).1.user "plain.txt" == some (.data [9])
#guard (decompress idCodec "nothing.gz" none (idleBody false) st0).2 == .raised
#guard (decompress idCodec "nothing.gz" none (idleBody false) st0).1.tmp "t0" == none

assert_axioms C12_format_table C12_format_names C12_format_iff C12_passthrough C12_no_debris_compress
  C12_no_debris_decompress C12_no_debris_decompress_target C12_body_exception_preserves_target C12_roundtrip C12_member_names C12_roundtrip_names C12_member_examples under_temp

end Compress
