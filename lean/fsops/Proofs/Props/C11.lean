import Model.FsOps
import Mathlib.Tactic
import Proofs.Audit
set_option linter.unusedSimpArgs false
set_option linter.unusedVariables false
set_option linter.unusedSectionVars false

/-!
# C11 — files written, moved, copied or deleted through a FileSet are conserved

Property theorems about `Model/FsOps.lean`.  Naming, handler and codec are parameters; their contracts are
hypotheses:  `parse (nameOf k) = some k` (C02), `hread (hwrite d) = some d`, `dec (enc c) = some c` (C12).
-/
namespace FsOps
open FSModel

variable {Key Data Content : Type}

/-- handler + codec contract of one fileset -/
structure Lawful (S : FileSetM Key Data Content) : Prop where
  names : ∀ k, S.parse (S.nameOf k) = some k
  handler : ∀ d, S.hread (S.hwrite d) = some d
  codec : ∀ c, S.dec (S.enc c) = some c

theorem Lawful.decode_encode {S : FileSetM Key Data Content} (h : Lawful S) (d : Data) :
    S.decode (S.encode d) = some (S.post d) := by
  simp [FileSetM.decode, FileSetM.encode, h.codec, h.handler]

theorem Lawful.name_inj {S : FileSetM Key Data Content} (h : Lawful S) {k k' : Key}
    (e : S.nameOf k = S.nameOf k') : k = k' := by
  have := h.names k
  rw [e, h.names k'] at this
  exact (Option.some.inj this).symm

/-! ## write → find → read -/

/-- **C11_write_find_read** — after `fileset[k] = d` (k = period and placeholder values):
(1) reading the generated name returns `post_reader d` — through the handler and the (de)compression;
(2) the file is found exactly when its own key passes the selection (period overlap / filters), under exactly
    that key;
(3) every other candidate is found exactly as before, and reads as before. -/
theorem C11_write_find_read (S : FileSetM Key Data Content) (hS : Lawful S) (fs : FS Content) (k : Key) (d : Data)
    (cands : List String) (hc : S.nameOf k ∈ cands) (q : Key → Bool) :
    let fs' := write S fs k d
    read S fs' (S.nameOf k) = some (S.post d) ∧
    (∀ k', (S.nameOf k, k') ∈ findKeys S fs' cands q ↔ (k' = k ∧ q k = true)) ∧
    (∀ p k', p ≠ S.nameOf k → ((p, k') ∈ findKeys S fs' cands q ↔ (p, k') ∈ findKeys S fs cands q)) ∧
    (∀ p, p ≠ S.nameOf k → read S fs' p = read S fs p) := by
  intro fs'
  refine ⟨?_, ?_, ?_, ?_⟩
  · simp [fs', read, write, hS.decode_encode]
  · intro k'
    simp only [findKeys, List.mem_filterMap]
    constructor
    · rintro ⟨p, hp, h⟩
      split at h
      · rename_i c kk hfs hparse
        split at h
        · rename_i hq
          simp only [Option.some.injEq, Prod.mk.injEq] at h
          obtain ⟨rfl, rfl⟩ := h
          rw [hS.names k] at hparse
          simp only [Option.some.injEq] at hparse
          subst hparse
          exact ⟨rfl, hq⟩
        · simp at h
      · simp at h
    · rintro ⟨rfl, hq⟩
      refine ⟨S.nameOf k', hc, ?_⟩
      simp [fs', write, hS.names, hq]
  · intro p k' hp
    simp only [findKeys, List.mem_filterMap]
    constructor
    · rintro ⟨p', hp', h⟩
      refine ⟨p', hp', ?_⟩
      by_cases e : p' = S.nameOf k
      · subst e
        split at h
        · split at h
          · simp only [Option.some.injEq, Prod.mk.injEq] at h; exact absurd h.1.symm hp
          · simp at h
        · simp at h
      · simpa [fs', write, FS.set, e] using h
    · rintro ⟨p', hp', h⟩
      refine ⟨p', hp', ?_⟩
      by_cases e : p' = S.nameOf k
      · subst e
        split at h
        · split at h
          · simp only [Option.some.injEq, Prod.mk.injEq] at h; exact absurd h.1.symm hp
          · simp at h
        · simp at h
      · simpa [fs', write, FS.set, e] using h
  · intro p hp
    simp [fs', read, write, FS.set, hp]

/-! ## move / copy -/

private theorem moveOne_spec (S T : FileSetM Key Data Content) (copy : Bool) (conv : Option (Data → Data))
    (fs : FS Content) (f : String × Key) (c nc : Content) (hsrc : fs f.1 = some c)
    (hnew : newContent S T conv c = some nc) (hne : T.nameOf f.2 ≠ f.1) :
    ∃ fs', moveOne S T copy conv fs f = some fs' ∧ fs' (T.nameOf f.2) = some nc ∧
      fs' f.1 = (if copy then some c else none) ∧
      ∀ p, p ≠ f.1 → p ≠ T.nameOf f.2 → fs' p = fs p := by
  unfold moveOne
  simp only [hsrc]
  cases conv with
  | none =>
    simp only [newContent, Option.some.injEq] at hnew
    subst hnew
    cases copy
    · exact ⟨_, rfl, by simp [FS.set, FS.del, hne], by simp [FS.del], fun p h1 h2 => by simp [FS.set, FS.del, h1, h2]⟩
    · exact ⟨_, rfl, by simp [FS.set], by simp [FS.set, hne.symm, hsrc], fun p h1 h2 => by simp [FS.set, h2]⟩
  | some g =>
    simp only [newContent] at hnew
    cases hd : S.decode c with
    | none => simp [hd] at hnew
    | some d =>
      simp only [hd, Option.some.injEq] at hnew
      subst hnew
      cases copy
      · exact ⟨_, rfl, by simp [FS.set, FS.del, hne], by simp [FS.del], fun p h1 h2 => by simp [FS.set, FS.del, h1, h2]⟩
      · exact ⟨_, rfl, by simp [FS.set], by simp [FS.set, hne.symm, hsrc], fun p h1 h2 => by simp [FS.set, h2]⟩

/-- **C11_move_spec** — `move(target, copy, convert)` on a selection `sel` of existing files with pairwise
different paths, when the target template gives the selected files pairwise different names that are not
themselves selected sources (`InjectiveOn targetName sel`, disjointness):
the call succeeds and in the new file system
* every selected file's content is found under the name generated by the *target* template from the file's own
  key — byte-identical, or converted through both handlers (`T.encode (g (S.decode c))`) when `convert` is set;
* the originals are gone iff `copy` is false;
* every path that is neither a selected source nor a generated target is untouched.
Consequently the list (multiset) of contents is conserved (`C11_move_conserves`). -/
theorem C11_move_spec (S T : FileSetM Key Data Content) (copy : Bool) (conv : Option (Data → Data))
    (sel : List (String × Key)) (fs : FS Content)
    (hnd : (sel.map Prod.fst).Nodup)
    (hinj : (sel.map (fun f => T.nameOf f.2)).Nodup)
    (hdisj : ∀ f ∈ sel, ∀ g ∈ sel, T.nameOf f.2 ≠ g.1)
    (hsrc : ∀ f ∈ sel, ∃ c nc, fs f.1 = some c ∧ newContent S T conv c = some nc) :
    ∃ fs', moveAll S T copy conv fs sel = some fs' ∧
      (∀ f ∈ sel, ∀ c, fs f.1 = some c → fs' (T.nameOf f.2) = newContent S T conv c) ∧
      (∀ f ∈ sel, fs' f.1 = if copy then fs f.1 else none) ∧
      (∀ p, (∀ f ∈ sel, p ≠ f.1 ∧ p ≠ T.nameOf f.2) → fs' p = fs p) := by
  induction sel generalizing fs with
  | nil => exact ⟨fs, rfl, by simp, by simp, fun _ _ => rfl⟩
  | cons f r ih =>
    simp only [List.map_cons, List.nodup_cons, List.mem_map, not_exists, not_and] at hnd hinj
    obtain ⟨c, nc, hc, hnc⟩ := hsrc f (by simp)
    have hne : T.nameOf f.2 ≠ f.1 := hdisj f (by simp) f (by simp)
    obtain ⟨fs1, h1, h1t, h1s, h1o⟩ := moveOne_spec S T copy conv fs f c nc hc hnc hne
    -- the remaining sources are untouched by the first step
    have hrest : ∀ g ∈ r, fs1 g.1 = fs g.1 := by
      intro g hg
      apply h1o
      · intro e; exact hnd.1 g hg e
      · intro e; exact hdisj f (by simp) g (by simp [hg]) e.symm
    obtain ⟨fs', h2, h2t, h2s, h2o⟩ := ih fs1 hnd.2 hinj.2
      (fun a ha b hb => hdisj a (by simp [ha]) b (by simp [hb]))
      (fun g hg => by
        obtain ⟨c', nc', hc', hnc'⟩ := hsrc g (by simp [hg])
        exact ⟨c', nc', by rw [hrest g hg]; exact hc', hnc'⟩)
    refine ⟨fs', by simp [moveAll, h1, h2], ?_, ?_, ?_⟩
    · intro g hg c' hc'
      simp only [List.mem_cons] at hg
      rcases hg with rfl | hg
      · -- the first file's target is not touched later
        rw [h2o]
        · rw [hc] at hc'; cases hc'; rw [h1t, hnc]
        · intro a ha
          exact ⟨fun e => hdisj g (by simp) a (by simp [ha]) e, fun e => hinj.1 a ha e.symm⟩
      · exact h2t g hg c' (by rw [hrest g hg]; exact hc')
    · intro g hg
      simp only [List.mem_cons] at hg
      rcases hg with rfl | hg
      · rw [h2o]
        · rw [h1s, hc]
        · intro a ha
          exact ⟨fun e => hnd.1 a ha e.symm, fun e => hdisj a (by simp [ha]) g (by simp) e.symm⟩
      · rw [h2s g hg, hrest g hg]
    · intro p hp
      rw [h2o p (fun a ha => hp a (by simp [ha]))]
      exact h1o p (hp f (by simp)).1 (hp f (by simp)).2

/-- conservation: for a plain move / copy the contents found at the new names are, file by file, the contents the
selected files had — nothing lost, nothing duplicated, nothing altered -/
theorem C11_move_conserves (S T : FileSetM Key Data Content) (copy : Bool)
    (sel : List (String × Key)) (fs : FS Content)
    (hnd : (sel.map Prod.fst).Nodup) (hinj : (sel.map (fun f => T.nameOf f.2)).Nodup)
    (hdisj : ∀ f ∈ sel, ∀ g ∈ sel, T.nameOf f.2 ≠ g.1)
    (hsrc : ∀ f ∈ sel, ∃ c, fs f.1 = some c) :
    ∃ fs', moveAll S T copy none fs sel = some fs' ∧
      sel.map (fun f => fs' (T.nameOf f.2)) = sel.map (fun f => fs f.1) := by
  obtain ⟨fs', h, ht, _, _⟩ := C11_move_spec S T copy none sel fs hnd hinj hdisj
    (fun f hf => by obtain ⟨c, hc⟩ := hsrc f hf; exact ⟨c, c, hc, rfl⟩)
  refine ⟨fs', h, ?_⟩
  apply List.map_congr_left
  intro f hf
  obtain ⟨c, hc⟩ := hsrc f hf
  rw [ht f hf c hc, hc]; rfl

/-! ## delete -/

private theorem foldl_del (paths : List String) (fs : FS Content) (p : String) :
    (paths.foldl (fun acc q => acc.del q) fs) p = if p ∈ paths then none else fs p := by
  induction paths generalizing fs with
  | nil => simp
  | cons a r ih =>
    simp only [List.foldl_cons, ih, List.mem_cons]
    by_cases h : p ∈ r
    · simp [h]
    · by_cases e : p = a
      · simp [e, FS.del]
      · simp [h, e, FS.del]

/-- **C11_delete_spec** — `delete()` removes exactly the selected files: they are gone, everything else is as
before. -/
theorem C11_delete_spec (fs : FS Content) (paths : List String) (p : String) :
    (deleteAll false fs paths) p = if p ∈ paths then none else fs p := by
  simp [deleteAll, foldl_del]

/-- **C11_dry_run_noop** — `delete(dry_run=True)` removes nothing. -/
theorem C11_dry_run_noop (fs : FS Content) (paths : List String) : deleteAll true fs paths = fs := by
  simp [deleteAll]

/-! ## histories -/

section history
variable {KS KT : Type} [DecidableEq KS] [DecidableEq KT]

private theorem abs_set_S (S : FileSetM KS Data Content) (T : FileSetM KT Data Content)
    (hS : ∀ k k', S.nameOf k = S.nameOf k' → k = k')
    (hST : ∀ k k', S.nameOf k ≠ T.nameOf k') (fs : FS Content) (k : KS) (c : Content) :
    absOf S T (fs.set (S.nameOf k) c) = { absOf S T fs with s := upd (absOf S T fs).s k (some c) } := by
  simp only [absOf, Abs.mk.injEq]
  constructor
  · funext k'
    by_cases e : k' = k
    · simp [e, FS.set, upd]
    · have : S.nameOf k' ≠ S.nameOf k := fun h => e (hS _ _ h)
      simp [e, FS.set, this, upd]
  · funext k'
    simp [FS.set, (hST k k').symm]

private theorem abs_set_T (S : FileSetM KS Data Content) (T : FileSetM KT Data Content)
    (hT : ∀ k k', T.nameOf k = T.nameOf k' → k = k')
    (hST : ∀ k k', S.nameOf k ≠ T.nameOf k') (fs : FS Content) (k : KT) (c : Content) :
    absOf S T (fs.set (T.nameOf k) c) = { absOf S T fs with t := upd (absOf S T fs).t k (some c) } := by
  simp only [absOf, Abs.mk.injEq]
  constructor
  · funext k'
    simp [FS.set, hST k' k]
  · funext k'
    by_cases e : k' = k
    · simp [e, FS.set, upd]
    · have : T.nameOf k' ≠ T.nameOf k := fun h => e (hT _ _ h)
      simp [e, FS.set, this, upd]

private theorem abs_del_S (S : FileSetM KS Data Content) (T : FileSetM KT Data Content)
    (hS : ∀ k k', S.nameOf k = S.nameOf k' → k = k')
    (hST : ∀ k k', S.nameOf k ≠ T.nameOf k') (fs : FS Content) (k : KS) :
    absOf S T (fs.del (S.nameOf k)) = { absOf S T fs with s := upd (absOf S T fs).s k none } := by
  simp only [absOf, Abs.mk.injEq]
  constructor
  · funext k'
    by_cases e : k' = k
    · simp [e, FS.del, upd]
    · have : S.nameOf k' ≠ S.nameOf k := fun h => e (hS _ _ h)
      simp [e, FS.del, this, upd]
  · funext k'
    simp [FS.del, (hST k k').symm]

private theorem abs_del_T (S : FileSetM KS Data Content) (T : FileSetM KT Data Content)
    (hT : ∀ k k', T.nameOf k = T.nameOf k' → k = k')
    (hST : ∀ k k', S.nameOf k ≠ T.nameOf k') (fs : FS Content) (k : KT) :
    absOf S T (fs.del (T.nameOf k)) = { absOf S T fs with t := upd (absOf S T fs).t k none } := by
  simp only [absOf, Abs.mk.injEq]
  constructor
  · funext k'
    simp [FS.del, hST k' k]
  · funext k'
    by_cases e : k' = k
    · simp [e, FS.del, upd]
    · have : T.nameOf k' ≠ T.nameOf k := fun h => e (hT _ _ h)
      simp [e, FS.del, this, upd]

private theorem abs_mvKey (S : FileSetM KS Data Content) (T : FileSetM KT Data Content) (ρ : KS → KT)
    (hS : ∀ k k', S.nameOf k = S.nameOf k' → k = k') (hT : ∀ k k', T.nameOf k = T.nameOf k' → k = k')
    (hST : ∀ k k', S.nameOf k ≠ T.nameOf k') (copy : Bool) (fs : FS Content) (k : KS) :
    absOf S T (mvKey S T ρ copy fs k) = mvKeyA ρ copy (absOf S T fs) k := by
  unfold mvKey mvKeyA
  have hs : (absOf S T fs).s k = fs (S.nameOf k) := rfl
  rw [hs]
  cases h : fs (S.nameOf k) with
  | none => rfl
  | some c =>
    cases copy
    · simp only [Bool.false_eq_true, if_false]
      rw [abs_del_S S T hS hST, abs_set_T S T hT hST]
    · simp only [if_true]
      rw [abs_set_T S T hT hST]

private theorem abs_step (S : FileSetM KS Data Content) (T : FileSetM KT Data Content) (ρ : KS → KT)
    (hS : ∀ k k', S.nameOf k = S.nameOf k' → k = k') (hT : ∀ k k', T.nameOf k = T.nameOf k' → k = k')
    (hST : ∀ k k', S.nameOf k ≠ T.nameOf k') (fs : FS Content) (op : Op KS KT Content) :
    absOf S T (stepC S T ρ fs op) = stepA ρ (absOf S T fs) op := by
  cases op with
  | writeS k c => exact abs_set_S S T hS hST fs k c
  | writeT k c => exact abs_set_T S T hT hST fs k c
  | move ks copy =>
    simp only [stepC, stepA]
    induction ks generalizing fs with
    | nil => rfl
    | cons k r ih => simp only [List.foldl_cons]; rw [ih, abs_mvKey S T ρ hS hT hST]
  | deleteS ks dry =>
    cases dry
    · simp only [stepC, stepA, deleteAll, Bool.false_eq_true, if_false, List.foldl_map]
      induction ks generalizing fs with
      | nil => rfl
      | cons k r ih =>
        simp only [List.foldl_cons]
        rw [ih, abs_del_S S T hS hST]
    · simp [stepC, stepA, deleteAll]
  | deleteT ks dry =>
    cases dry
    · simp only [stepC, stepA, deleteAll, Bool.false_eq_true, if_false, List.foldl_map]
      induction ks generalizing fs with
      | nil => rfl
      | cons k r ih =>
        simp only [List.foldl_cons]
        rw [ih, abs_del_T S T hT hST]
    · simp [stepC, stepA, deleteAll]

/-- **C11_history** — refinement.  `S` and `T` may be keyed differently (`KS`, `KT`: templates carrying different
information) with `ρ : KS → KT` the part of a source key the target template keeps.  Hypotheses: each template is
injective on *its own* keys (different keys give different names — no parsing, no bijection, no common key type
is required) and the two name spaces are disjoint (different directories / suffixes).  Then *any* sequence of
write / overwrite / move / copy / delete / dry-run on the concrete file system, viewed through the names
(`absOf`), is exactly the same sequence executed on the abstract pair of maps `key ⇀ content`, where a move
stores the content under `ρ k`.  So after every history each fileset holds, under each key, precisely what the
abstract history says — nothing lost, duplicated or attributed to another key; two sources with the same
`ρ`-image overwrite each other in both worlds alike. -/
theorem C11_history (S : FileSetM KS Data Content) (T : FileSetM KT Data Content) (ρ : KS → KT)
    (hS : ∀ k k', S.nameOf k = S.nameOf k' → k = k') (hT : ∀ k k', T.nameOf k = T.nameOf k' → k = k')
    (hST : ∀ k k', S.nameOf k ≠ T.nameOf k') (fs : FS Content) (ops : List (Op KS KT Content)) :
    absOf S T (runC S T ρ fs ops) = runA ρ (absOf S T fs) ops := by
  induction ops generalizing fs with
  | nil => rfl
  | cons op r ih =>
    simp only [runC, runA, List.foldl_cons] at ih ⊢
    rw [ih, abs_step S T ρ hS hT hST]

/-- the special case of two lawful filesets over one key type (`ρ = id`) -/
theorem C11_history_same_keys {Key : Type} [DecidableEq Key] (S T : FileSetM Key Data Content)
    (hS : Lawful S) (hT : Lawful T) (hST : ∀ k k', S.nameOf k ≠ T.nameOf k') (fs : FS Content)
    (ops : List (Op Key Key Content)) :
    absOf S T (runC S T id fs ops) = runA id (absOf S T fs) ops :=
  C11_history S T id (fun _ _ h => hS.name_inj h) (fun _ _ h => hT.name_inj h) hST fs ops

end history

/-! ## non-vacuity -/

/-- a concrete lawful fileset: keys are numbers, names `dir/<n>.dat`, identity handler and codec -/
private def exS (dir : String) : FileSetM Nat Nat Nat where
  nameOf k := dir ++ "/" ++ toString k
  parse p := if p.startsWith (dir ++ "/") then (p.drop (dir.length + 1)).toString.toNat? else none
  hwrite d := d + 1
  hread c := if c = 0 then none else some (c - 1)
  post d := d
  enc c := 2 * c
  dec c := if c % 2 = 0 then some (c / 2) else none

example : ∀ d, (exS "a").hread ((exS "a").hwrite d) = some d := by intro d; simp [exS]
example : ∀ c, (exS "a").dec ((exS "a").enc c) = some c := by intro c; simp [exS]

#guard (exS "a").parse ((exS "a").nameOf 17) == some 17
#guard (exS "a").nameOf 3 != (exS "b").nameOf 3
#guard read (exS "a") (write (exS "a") FS.empty 5 42) "a/5" == some 42
#guard (findKeys (exS "a") (write (exS "a") FS.empty 5 42) ["a/5", "a/6", "b/5"] (fun k => k ≥ 5)) == [("a/5", 5)]
#guard ((moveAll (exS "a") (exS "b") false none (write (exS "a") FS.empty 5 42) [("a/5", 5)]).map (fun fs => (fs "a/5", fs "b/5")))
        == some (none, some 86)
#guard ((moveAll (exS "a") (exS "b") true (some (· + 1)) (write (exS "a") FS.empty 5 42) [("a/5", 5)]).map (fun fs => (fs "a/5", fs "b/5")))
        == some (some 86, some 88)
#guard (moveAll (exS "a") (exS "b") false none FS.empty [("a/5", 5)]).isNone
#guard (deleteAll false (write (exS "a") FS.empty 5 42) ["a/5"]) "a/5" == none
#guard (deleteAll true (write (exS "a") FS.empty 5 42) ["a/5"]) "a/5" == some 86

-- a coarser target (ρ forgets the last digit): two sources collide, concretely and abstractly alike
#guard (runC (exS "a") (exS "b") (· / 10) FS.empty [.writeS 51 1, .writeS 52 2, .move [51, 52] false]) "b/5" == some 2
#guard (runA (· / 10) (absOf (exS "a") (exS "b") (FS.empty : FS Nat)) [Op.writeS 51 1, .writeS 52 2, .move [51, 52] false]).t 5 == some 2

assert_axioms C11_write_find_read C11_move_spec C11_move_conserves C11_delete_spec C11_dry_run_noop C11_history C11_history_same_keys

end FsOps
