import Model.Bmci
/-!
Line-protocol driver for C18 (BMCI bookkeeping).  Numbers are exact rationals written
`num/den` (or `num`); the harness sends the doubles of the real code as
`fractions.Fraction(float)`.

  rows  p1 x1 c1 w1 p2 x2 c2 w2 ...        -> "ok n"   database in ORIGINAL order; the model sorts (`mk`)
  load  n p1 x1 c1 w1 ... i1 ... in       -> "ok" | "invalid"   arrays of the real object
                                              (pc1_proj, x, chi2, w in ITS order; x_sorted_inds), checked by `validB`
  window  r sl su                          -> "il iu"            (r = 1 iff x2_max >= 0)
  windowbin r sl su                        -> "il iu"            (same with numpy's bisection)
  predict r sl su                          -> "nan" | "val mean var"
  cdf     r sl su                          -> "index-error" | "nan k xs.." | "val k xs.. cum.."
  quant   r sl su t1 t2 ...                -> "index-error" | "value-error" | "nan" | "val q1 q2 .."
  excl    r sl su thr                      -> number of entries outside the window with chi2 <= thr
  xinds                                    -> the current x_sorted_inds
Anything else -> "bad-op".
-/
open Bmci

def parseRat (s : String) : Option Rat :=
  match s.splitOn "/" with
  | [a] => a.toInt?.map (fun n => (n : Rat))
  | [a, b] =>
    match a.toInt?, b.toNat? with
    | some n, some d => if d = 0 then none else some (mkRat n d)
    | _, _ => none
  | _ => none

def showRat (r : Rat) : String :=
  if r.den = 1 then toString r.num else toString r.num ++ "/" ++ toString r.den

def showRats (l : List Rat) : String := " ".intercalate (l.map showRat)

def rowsOf : List Rat → Option (List (Row Rat))
  | [] => some []
  | p :: x :: c :: w :: rest => (rowsOf rest).map (⟨p, x, c, w⟩ :: ·)
  | _ => none

def queryOf (r sl su : String) : Option (Query Rat) :=
  match r, parseRat sl, parseRat su with
  | "0", some a, some b => some ⟨false, a, b⟩
  | "1", some a, some b => some ⟨true, a, b⟩
  | _, _, _ => none

def step (db : Db Rat) (line : String) : Db Rat × String :=
  match (line.splitOn " ").filter (· ≠ "") with
  | "rows" :: rest =>
    match rest.mapM parseRat >>= rowsOf with
    | some rows => let d := mk rows; (d, s!"ok {d.rows.length}")
    | none => (db, "bad-op")
  | "load" :: n :: rest =>
    match n.toNat? with
    | some n =>
      match (rest.take (4 * n)).mapM parseRat >>= rowsOf, (rest.drop (4 * n)).mapM String.toNat? with
      | some rows, some xi =>
        let d : Db Rat := ⟨rows, xi⟩
        if rows.length = n ∧ d.validB then (d, "ok") else (d, "invalid")
      | _, _ => (db, "bad-op")
    | none => (db, "bad-op")
  | ["window", r, sl, su] =>
    match queryOf r sl su with
    | some q => let b := bounds db q; (db, s!"{b.1} {b.2}")
    | none => (db, "bad-op")
  | ["windowbin", r, sl, su] =>
    match queryOf r sl su with
    | some q => let b := boundsBin db q; (db, s!"{b.1} {b.2}")
    | none => (db, "bad-op")
  | ["predict", r, sl, su] =>
    match queryOf r sl su with
    | some q =>
      match predict db q with
      | .nan => (db, "nan")
      | .val m v => (db, s!"val {showRat m} {showRat v}")
    | none => (db, "bad-op")
  | ["cdf", r, sl, su] =>
    match queryOf r sl su with
    | some q =>
      match cdf db q with
      | .indexError => (db, "index-error")
      | .nan xs => (db, s!"nan {xs.length} {showRats xs}")
      | .val xs cum => (db, s!"val {xs.length} {showRats xs} {showRats cum}")
    | none => (db, "bad-op")
  | "quant" :: r :: sl :: su :: taus =>
    match queryOf r sl su, taus.mapM parseRat with
    | some q, some ts =>
      match predictQuantiles db q ts with
      | .indexError => (db, "index-error")
      | .valueError => (db, "value-error")
      | .nan => (db, "nan")
      | .val qs => (db, s!"val {showRats qs}")
    | _, _ => (db, "bad-op")
  | ["excl", r, sl, su, thr] =>
    match queryOf r sl su, parseRat thr with
    | some q, some thr =>
      let b := bounds db q
      let out := db.rows.take b.1 ++ db.rows.drop b.2
      (db, toString (out.countP (fun row => decide (row.chi2 ≤ thr))))
    | _, _ => (db, "bad-op")
  | ["xinds"] => (db, " ".intercalate (db.xinds.map toString))
  | _ => (db, "bad-op")

partial def loop (h : IO.FS.Stream) (out : IO.FS.Stream) (db : Db Rat) : IO Unit := do
  let line ← h.getLine
  if line.isEmpty then return ()
  let (db', o) := step db (line.trimAscii.toString)
  out.putStrLn o
  loop h out db'

def main : IO Unit := do
  let out ← IO.getStdout
  loop (← IO.getStdin) out ⟨[], []⟩
  out.flush
