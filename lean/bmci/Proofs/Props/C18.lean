import Proofs.Lemmas.Interp
import Proofs.Lemmas.Ecdf
import Proofs.Lemmas.Spectral
import Proofs.Lemmas.VarShift
import Proofs.Lemmas.Bisect
import Proofs.Audit
import Mathlib.Analysis.SpecialFunctions.Exp
import Mathlib.Data.Real.StarOrdered

/-!
# C18 — BMCI estimates are the importance-weighted statistics of its database

Property theorems only (helper lemmas: `Proofs/Lemmas/{ListAux,Window,Stats,Interp,Ecdf,Spectral,VarShift,Bisect}.lean`).
The model is `Model/Bmci.lean`.  All statements hold for an arbitrary linearly ordered
field `α` (ℚ is what the driver runs, ℝ with `w = exp (-χ²/2)` is the real reading), for
databases of any size, with duplicates, ties in the projection and in `x`, constant `x`.

Conventions: a `Row` carries `(proj, x, chi2, w)` of one database entry for the observation
at hand; `mk rows` is the constructor (sort along the projection, argsort of `x`);
`Db.Valid` is the invariant the constructor establishes and which every bookkeeping
theorem assumes — it is the *contract of `np.argsort`* (a sorting permutation, stable or
not), proved for `mk` (`mk_valid`) and checked on the real arrays by the driver
(`Db.validB`, `Db.valid_of_validB`).  A `Query` is `(restricted, s_l, s_u)` =
`(x2_max ≥ 0, bounds handed to searchsorted)`.
-/

set_option linter.unusedSectionVars false
set_option linter.unusedSimpArgs false

open Bmci Matrix

variable {α : Type} [Field α] [LinearOrder α] [IsStrictOrderedRing α]

/-! ## predict = the importance-weighted mean and variance -/

/-- **C18_predict_formula_window** — whatever the window is, `predict` returns
`(Σ w x / Σ w, Σ w (x - mean)² / Σ w)` over the window (the real code takes the square
root of the second component), and NaN exactly when the window carries no weight. -/
theorem C18_predict_formula_window (db : Db α) (q : Query α) :
    let win := window db q
    let W := (win.map (·.w)).sum
    let mean := (win.map (fun r => r.w * r.x)).sum / W
    (0 < W → predict db q = Est.val mean ((win.map (fun r => r.w * (r.x - mean) ^ 2)).sum / W)) ∧
    (¬ 0 < W → predict db q = Est.nan) := by
  intro win W mean
  have h := predict_eq db q
  constructor
  · intro hW
    rw [h, if_pos (show 0 < wsum (window db q) from hW)]
    rfl
  · intro hW
    rw [h, if_neg (show ¬ 0 < wsum (window db q) from hW)]

/-- **C18_predict_formula** — unrestricted mode (`x2_max < 0`), database given in ANY
order: `predict` returns the weighted mean and variance over the WHOLE database,
`Σᵢ wᵢ xᵢ / Σᵢ wᵢ` and `Σᵢ wᵢ (xᵢ - mean)² / Σᵢ wᵢ`. -/
theorem C18_predict_formula (rows : List (Row α)) (q : Query α) (hq : q.restricted = false)
    (hW : 0 < (rows.map (·.w)).sum) :
    let W := (rows.map (·.w)).sum
    let mean := (rows.map (fun r => r.w * r.x)).sum / W
    predict (mk rows) q = Est.val mean ((rows.map (fun r => r.w * (r.x - mean) ^ 2)).sum / W) := by
  intro W mean
  have hp : (window (mk rows) q).Perm rows := by
    rw [window_unrestricted _ _ hq]; exact mk_rows_perm rows
  rw [predict_eq, wsum_perm hp, wxsum_perm hp, wdev_perm hp, if_pos (show 0 < wsum rows from hW)]
  rfl

/-- **C18_predict_formula_exp** — the same over ℝ with the Gaussian weights
`wᵢ = exp (-χ²ᵢ / 2)`: a non-empty database always has weight, and `predict` is the
importance-weighted mean / variance of the property statement. -/
theorem C18_predict_formula_exp (rows : List (Row ℝ)) (hne : rows ≠ []) (q : Query ℝ)
    (hq : q.restricted = false) (hw : ∀ r ∈ rows, r.w = Real.exp (-r.chi2 / 2)) :
    let W := (rows.map (fun r => Real.exp (-r.chi2 / 2))).sum
    let mean := (rows.map (fun r => Real.exp (-r.chi2 / 2) * r.x)).sum / W
    0 < W ∧
    predict (mk rows) q
      = Est.val mean ((rows.map (fun r => Real.exp (-r.chi2 / 2) * (r.x - mean) ^ 2)).sum / W) := by
  intro W mean
  have e1 : rows.map (fun r => Real.exp (-r.chi2 / 2)) = rows.map (·.w) :=
    List.map_congr_left (fun r hr => (hw r hr).symm)
  have e2 : ∀ c : ℝ, rows.map (fun r => Real.exp (-r.chi2 / 2) * (r.x - c) ^ 2)
      = rows.map (fun r => r.w * (r.x - c) ^ 2) :=
    fun c => List.map_congr_left (fun r hr => by rw [hw r hr])
  have e3 : rows.map (fun r => Real.exp (-r.chi2 / 2) * r.x) = rows.map (fun r => r.w * r.x) :=
    List.map_congr_left (fun r hr => by rw [hw r hr])
  have hpos : 0 < (rows.map (·.w)).sum := by
    obtain ⟨r, hr⟩ := List.exists_mem_of_ne_nil rows hne
    exact wsum_pos_of_mem rows (fun r hr => by rw [hw r hr]; exact (Real.exp_pos _).le) r hr
      (by rw [hw r hr]; exact Real.exp_pos _)
  have := C18_predict_formula rows q hq hpos
  simp only [W, mean, e1, e2, e3]
  exact ⟨hpos, this⟩

/-! ## order independence -/

/-- **C18_perm_invariant** — permuting the database entries changes neither the window (as a
multiset), nor `predict` (mean and variance), nor the weighted distribution function
`cdfAt` (the cdf as a function of `x`), in restricted and unrestricted mode alike. -/
theorem C18_perm_invariant (rows₁ rows₂ : List (Row α)) (h : rows₁.Perm rows₂) (q : Query α) :
    (window (mk rows₁) q).Perm (window (mk rows₂) q) ∧
    predict (mk rows₁) q = predict (mk rows₂) q ∧
    ∀ t, cdfAt (mk rows₁) q t = cdfAt (mk rows₂) q t := by
  have hrows : (mk rows₁).rows.Perm (mk rows₂).rows :=
    (mk_rows_perm rows₁).trans (h.trans (mk_rows_perm rows₂).symm)
  have hwin : (window (mk rows₁) q).Perm (window (mk rows₂) q) := by
    cases hq : q.restricted
    · rw [window_unrestricted _ _ hq, window_unrestricted _ _ hq]; exact hrows
    · rw [window_eq_filter _ (mk_valid rows₁).projSorted _ hq,
        window_eq_filter _ (mk_valid rows₂).projSorted _ hq]
      exact hrows.filter _
  refine ⟨hwin, predict_congr _ _ _ _ hwin, fun t => ?_⟩
  unfold cdfAt
  rw [((hwin.filter _).map _).sum_eq, (hwin.map _).sum_eq]

/-! ## the search window -/

/-- **C18_window_spec** — on the sorted projections the two `searchsorted` calls select
exactly the entries with `s_l ≤ proj ≤ s_u` (both bounds inclusive): by position, and as a
list; without restriction the window is the whole database. -/
theorem C18_window_spec (db : Db α) (hv : db.Valid) (q : Query α) :
    (q.restricted = true →
      (∀ k (hk : k < db.rows.length),
        ((bounds db q).1 ≤ k ∧ k < (bounds db q).2) ↔ (q.sl ≤ db.rows[k].proj ∧ db.rows[k].proj ≤ q.su)) ∧
      window db q = db.rows.filter (fun r => decide (q.sl ≤ r.proj) && decide (r.proj ≤ q.su))) ∧
    (q.restricted = false → bounds db q = (0, db.rows.length) ∧ window db q = db.rows) ∧
    (bounds db q).1 ≤ db.rows.length ∧ (bounds db q).2 ≤ db.rows.length := by
  refine ⟨fun hq => ⟨fun k hk => mem_bounds_iff db hv.projSorted q hq k hk,
      window_eq_filter db hv.projSorted q hq⟩, fun hq => ⟨?_, window_unrestricted db q hq⟩,
    bounds_le_length db q⟩
  simp [bounds, hq]

/-- **C18_searchsorted_bisect** — numpy's bisection (`bisect`, as `npy_binsearch` does it) on a
non-decreasing array returns exactly the counts `#{a < v}` / `#{a ≤ v}` that the model uses as
the meaning of `searchsorted(…, "left"/"right")`; hence the window bounds agree. -/
theorem C18_searchsorted_bisect :
    (∀ (a : List α) (v : α), a.Pairwise (· ≤ ·) →
      ssLeftBin a v = ssLeft a v ∧ ssRightBin a v = ssRight a v) ∧
    (∀ (db : Db α) (q : Query α), db.Valid → boundsBin db q = bounds db q) := by
  have key : ∀ (a : List α) (v : α), a.Pairwise (· ≤ ·) →
      ssLeftBin a v = ssLeft a v ∧ ssRightBin a v = ssRight a v := by
    intro a v ha
    constructor
    · have hd : DownClosed (fun p : α => decide (p < v)) a :=
        ha.imp (fun {x y} hxy hy => by simp only [decide_eq_true_eq] at *; exact lt_of_le_of_lt hxy hy)
      exact bisect_eq_countP _ a hd a.length 0 a.length (Nat.zero_le _) List.countP_le_length le_rfl (by omega)
    · have hd : DownClosed (fun p : α => decide (p ≤ v)) a :=
        ha.imp (fun {x y} hxy hy => by simp only [decide_eq_true_eq] at *; exact le_trans hxy hy)
      exact bisect_eq_countP _ a hd a.length 0 a.length (Nat.zero_le _) List.countP_le_length le_rfl (by omega)
  refine ⟨key, fun db q hv => ?_⟩
  have hs : (db.rows.map (·.proj)).Pairwise (· ≤ ·) := List.pairwise_map.mpr hv.projSorted
  unfold boundsBin bounds
  rw [(key _ q.sl hs).1, (key _ q.su hs).2]

/-- **C18_window_sound** — pruning is sound.  Hypotheses: the bounds have the form of
`__find_hits`, `s_l = y_proj - rad - tol`, `s_u = y_proj + rad + tol`, with a radius at least
the documented one, `rad ≥ 0`, `pc1_e · rad² ≥ 2 x2_max` (the code: `rad = sqrt (2 x2_max / pc1_e)`;
any wider window is covered too) and a rounding allowance `tol ≥ 0`; and the **spectral
inequality** `χ²ᵢ ≥ pc1_e · (projᵢ - y_proj)²` (proved from the eigen-decomposition in
`C18_spectral_inequality`, composed in `C18_x2max_only_leaves_out_large_chi2`).
Then every entry left out has `χ² > 2·x2_max ≥ x2_max`. -/
theorem C18_window_sound (db : Db α) (hv : db.Valid) (q : Query α) (hq : q.restricted = true)
    (yproj rad tol pc1e x2max : α)
    (hsl : q.sl = yproj - rad - tol) (hsu : q.su = yproj + rad + tol)
    (hrad : 0 ≤ rad) (htol : 0 ≤ tol) (hx2 : 0 ≤ x2max) (hrad2 : 2 * x2max ≤ pc1e * rad ^ 2)
    (hpc : 0 < pc1e)
    (spectral : ∀ r ∈ db.rows, pc1e * (r.proj - yproj) ^ 2 ≤ r.chi2) :
    ∀ k (hk : k < db.rows.length), ¬ ((bounds db q).1 ≤ k ∧ k < (bounds db q).2) →
      2 * x2max < db.rows[k].chi2 ∧ x2max ≤ 2 * x2max := by
  intro k hk hout
  rw [mem_bounds_iff db hv.projSorted q hq k hk, hsl, hsu] at hout
  have hs := spectral db.rows[k] (List.getElem_mem hk)
  refine ⟨?_, by linarith⟩
  set p := db.rows[k].proj
  have hd : rad ^ 2 < (p - yproj) ^ 2 := by
    by_cases h1 : yproj - rad - tol ≤ p
    · have h2 : ¬ p ≤ yproj + rad + tol := fun h2 => hout ⟨h1, h2⟩
      have : rad < p - yproj := by linarith [not_le.mp h2]
      nlinarith
    · have : rad < yproj - p := by linarith [not_le.mp h1]
      nlinarith
  calc 2 * x2max ≤ pc1e * rad ^ 2 := hrad2
    _ < pc1e * (p - yproj) ^ 2 := mul_lt_mul_of_pos_left hd hpc
    _ ≤ db.rows[k].chi2 := hs

/-- **C18_spectral_inequality** — the named hypothesis of `C18_window_sound`, derived for the
real-valued setting of the code: `S` symmetric positive definite, `v` a unit eigenvector
(`S v = λ v`; *any* eigenpair will do, the smallest `λ` only makes the window narrowest),
`pc1_e = 1/λ`, projections `v·(yᵢ - ȳ)` and `v·(y_obs - ȳ)`, `χ²ᵢ = (yᵢ - y_obs)ᵀ S⁻¹ (yᵢ - y_obs)`.
Then `pc1_e > 0` and `pc1_e · (projᵢ - y_proj)² ≤ χ²ᵢ`.  (That `np.linalg.eig` returns
such a pair, and `np.linalg.inv` the inverse, stays trusted.) -/
theorem C18_spectral_inequality {m : Type} [Fintype m] [DecidableEq m]
    (S : Matrix m m ℝ) (hS : S.PosDef) (v : m → ℝ) (lam : ℝ)
    (hv : S.mulVec v = lam • v) (hunit : v ⬝ᵥ v = 1) (ybar yobs yi : m → ℝ) :
    0 < 1 / lam ∧
    (1 / lam) * (v ⬝ᵥ (yi - ybar) - v ⬝ᵥ (yobs - ybar)) ^ 2
      ≤ (yi - yobs) ⬝ᵥ (S⁻¹.mulVec (yi - yobs)) := by
  have h := spectral_inequality S hS v lam hv hunit (yi - yobs)
  have e : v ⬝ᵥ (yi - ybar) - v ⬝ᵥ (yobs - ybar) = v ⬝ᵥ (yi - yobs) := by
    simp only [dotProduct_sub]; ring
  rw [e]
  exact ⟨one_div_pos.mpr h.1, h.2⟩

/-- **C18_excluded_weight_small** — consequence for the weights: when the weight is an
anti-monotone function `g` of `χ²` (`g = fun c => exp (-c/2)` in the real code), every entry
left out by the window weighs at most `g (2·x2_max)`. -/
theorem C18_excluded_weight_small (db : Db α) (hv : db.Valid) (q : Query α) (hq : q.restricted = true)
    (yproj rad tol pc1e x2max : α)
    (hsl : q.sl = yproj - rad - tol) (hsu : q.su = yproj + rad + tol)
    (hrad : 0 ≤ rad) (htol : 0 ≤ tol) (hx2 : 0 ≤ x2max) (hrad2 : 2 * x2max ≤ pc1e * rad ^ 2)
    (hpc : 0 < pc1e)
    (spectral : ∀ r ∈ db.rows, pc1e * (r.proj - yproj) ^ 2 ≤ r.chi2)
    (g : α → α) (hg : Antitone g) (hwg : ∀ r ∈ db.rows, r.w = g r.chi2) :
    ∀ k (hk : k < db.rows.length), ¬ ((bounds db q).1 ≤ k ∧ k < (bounds db q).2) →
      db.rows[k].w ≤ g (2 * x2max) := by
  intro k hk hout
  have := (C18_window_sound db hv q hq yproj rad tol pc1e x2max hsl hsu hrad htol hx2 hrad2 hpc
    spectral k hk hout).1
  rw [hwg _ (List.getElem_mem hk)]
  exact hg this.le

/-- the `Row` the real code works with for database entry `e = (yᵢ, xᵢ)` and observation
`y_obs`: projection on `v` of the centred measurement, `χ²ᵢ = (yᵢ - y_obs)ᵀ S⁻¹ (yᵢ - y_obs)`,
weight `exp (-χ²ᵢ / 2)` — nothing is a free field any more -/
noncomputable def spdRow {m : Type} [Fintype m] [DecidableEq m] (S : Matrix m m ℝ)
    (v ybar yobs : m → ℝ) (e : (m → ℝ) × ℝ) : Row ℝ :=
  { proj := v ⬝ᵥ (e.1 - ybar)
    x := e.2
    chi2 := (e.1 - yobs) ⬝ᵥ (S⁻¹.mulVec (e.1 - yobs))
    w := Real.exp (-((e.1 - yobs) ⬝ᵥ (S⁻¹.mulVec (e.1 - yobs))) / 2) }

/-- **C18_x2max_only_leaves_out_large_chi2** — the property sentence, end to end over ℝ:
for ANY database `data` of measurements `yᵢ` and values `xᵢ` (any order), positive definite
`S`, unit eigenpair `(v, λ)` of `S` (the code: smallest `λ`, `pc1_e = 1/λ`), observation
`y_obs`, `x2_max ≥ 0`, and a search window `[y_proj - rad - tol, y_proj + rad + tol]` whose
radius is at least the code's (`rad² / λ ≥ 2·x2_max`, `tol ≥ 0`), with `χ²ᵢ` and the weights
DEFINED from the quadratic form (`spdRow`):
every database entry that the window leaves out has `χ² > x2_max` (even `> 2·x2_max`) and
weight `< exp (-x2_max)`; nothing else about `np.linalg.eig` is used than `S v = λ v`, `v·v = 1`. -/
theorem C18_x2max_only_leaves_out_large_chi2 {m : Type} [Fintype m] [DecidableEq m]
    (S : Matrix m m ℝ) (hS : S.PosDef) (v : m → ℝ) (lam : ℝ)
    (hv : S.mulVec v = lam • v) (hunit : v ⬝ᵥ v = 1)
    (ybar yobs : m → ℝ) (data : List ((m → ℝ) × ℝ))
    (x2max rad tol : ℝ) (hx2 : 0 ≤ x2max) (hrad : 0 ≤ rad) (htol : 0 ≤ tol)
    (hrad2 : 2 * x2max ≤ (1 / lam) * rad ^ 2) :
    let db := mk (data.map (spdRow S v ybar yobs))
    let yproj := v ⬝ᵥ (yobs - ybar)
    let q : Query ℝ := ⟨true, yproj - rad - tol, yproj + rad + tol⟩
    (∀ r ∈ db.rows, ∃ e ∈ data, r = spdRow S v ybar yobs e) ∧
    ∀ r ∈ db.rows, r ∉ window db q →
      x2max < r.chi2 ∧ 2 * x2max < r.chi2 ∧ r.w < Real.exp (-x2max) := by
  intro db yproj q
  have hvalid : db.Valid := mk_valid _
  have hmem : ∀ r ∈ db.rows, ∃ e ∈ data, r = spdRow S v ybar yobs e := by
    intro r hr
    have := (mk_rows_perm (data.map (spdRow S v ybar yobs))).mem_iff.mp hr
    obtain ⟨e, he, rfl⟩ := List.mem_map.mp this
    exact ⟨e, he, rfl⟩
  refine ⟨hmem, fun r hr hout => ?_⟩
  obtain ⟨k, hk, rfl⟩ := List.getElem_of_mem hr
  have hspec : ∀ r ∈ db.rows, (1 / lam) * (r.proj - yproj) ^ 2 ≤ r.chi2 := by
    intro r hr
    obtain ⟨e, _, rfl⟩ := hmem r hr
    exact (C18_spectral_inequality S hS v lam hv hunit ybar yobs e.1).2
  have hpc : 0 < 1 / lam := (C18_spectral_inequality S hS v lam hv hunit ybar yobs ybar).1
  have hnot : ¬ ((bounds db q).1 ≤ k ∧ k < (bounds db q).2) := by
    intro hin
    apply hout
    rw [window_eq_filter db hvalid.projSorted q rfl, List.mem_filter]
    refine ⟨List.getElem_mem hk, ?_⟩
    have := (mem_bounds_iff db hvalid.projSorted q rfl k hk).mp hin
    simpa using this
  have h := (C18_window_sound db hvalid q rfl yproj rad tol (1 / lam) x2max rfl rfl hrad htol hx2
    hrad2 hpc hspec k hk hnot).1
  have hx : x2max < db.rows[k].chi2 := by linarith
  refine ⟨hx, h, ?_⟩
  obtain ⟨e, _, he⟩ := hmem _ (List.getElem_mem hk)
  have hw : db.rows[k].w = Real.exp (-db.rows[k].chi2 / 2) := by rw [he]; rfl
  rw [hw]
  apply Real.exp_lt_exp.mpr
  linarith

/-- **C18_pruned_estimate_bound** — with non-negative weights the estimates over the window
differ from the estimates over the whole database by at most the excluded entries' share of
the total weight, scaled by the range of `x`:
`|mean_pruned - mean_all| ≤ share · (hi - lo)` and
`|var_pruned - var_all| ≤ 2 · share · (hi - lo)²`, `share = Σ_excluded w / Σ_all w`.
(With `C18_window_sound` / `C18_excluded_weight_small` every excluded weight is below the
weight at `χ² = 2·x2_max`.)  `var` is the square of the standard deviation `predict` returns. -/
theorem C18_pruned_estimate_bound (db : Db α) (hv : db.Valid) (q : Query α) (hq : q.restricted = true)
    (lo hi : α) (hrows : ∀ r ∈ db.rows, 0 ≤ r.w ∧ lo ≤ r.x ∧ r.x ≤ hi)
    (hW : 0 < ((window db q).map (·.w)).sum) :
    let qu : Query α := { q with restricted := false }
    let excluded := db.rows.filter (fun r => !(decide (q.sl ≤ r.proj) && decide (r.proj ≤ q.su)))
    let share := (excluded.map (·.w)).sum / (db.rows.map (·.w)).sum
    ∃ m v m' v', predict db q = Est.val m v ∧ predict db qu = Est.val m' v' ∧
      |m - m'| ≤ share * (hi - lo) ∧ |v - v'| ≤ 2 * share * (hi - lo) ^ 2 ∧
      0 ≤ v ∧ 0 ≤ v' ∧ 0 ≤ share ∧ lo ≤ hi := by
  intro qu excluded share
  set P : Row α → Bool := fun r => decide (q.sl ≤ r.proj) && decide (r.proj ≤ q.su) with hP
  have hwin : window db q = db.rows.filter P := window_eq_filter db hv.projSorted q hq
  have hall : window db qu = db.rows := window_unrestricted db qu rfl
  have hperm : (db.rows.filter P ++ excluded).Perm db.rows := List.filter_append_perm P db.rows
  have hA : 0 < wsum (db.rows.filter P) := by rw [← hwin]; exact hW
  have hin : ∀ r ∈ db.rows.filter P, 0 ≤ r.w ∧ lo ≤ r.x ∧ r.x ≤ hi :=
    fun r hr => hrows r (List.mem_of_mem_filter hr)
  have hout : ∀ r ∈ excluded, 0 ≤ r.w ∧ lo ≤ r.x ∧ r.x ≤ hi :=
    fun r hr => hrows r (List.mem_of_mem_filter hr)
  have hB : 0 ≤ wsum excluded := wsum_nonneg excluded (fun r hr => (hout r hr).1)
  have hsum : wsum db.rows = wsum (db.rows.filter P) + wsum excluded := by
    rw [← wsum_append, wsum_perm hperm]
  have hxsum : wxsum db.rows = wxsum (db.rows.filter P) + wxsum excluded := by
    rw [← wxsum_append, wxsum_perm hperm]
  have hdev : ∀ c, wdev db.rows c = wdev (db.rows.filter P) c + wdev excluded c := by
    intro c; rw [← wdev_append, wdev_perm hperm]
  have hall_pos : 0 < wsum db.rows := by rw [hsum]; linarith
  have h1 : predict db q = Est.val (wxsum (db.rows.filter P) / wsum (db.rows.filter P))
      (wdev (db.rows.filter P) (wxsum (db.rows.filter P) / wsum (db.rows.filter P)) / wsum (db.rows.filter P)) := by
    rw [predict_eq, hwin, if_pos hA]
  have h2 : predict db qu = Est.val (wxsum db.rows / wsum db.rows)
      (wdev db.rows (wxsum db.rows / wsum db.rows) / wsum db.rows) := by
    rw [predict_eq, hall, if_pos hall_pos]
  have h3 := mean_shift_bound (db.rows.filter P) excluded lo hi hin hout hA
  have h4 := var_shift_bound (db.rows.filter P) excluded lo hi hin hout hA
  simp only at h4
  rw [← hsum, ← hxsum] at h3
  rw [← hsum, ← hxsum, ← hdev] at h4
  have hv1 : 0 ≤ wdev (db.rows.filter P) (wxsum (db.rows.filter P) / wsum (db.rows.filter P)) /
      wsum (db.rows.filter P) := div_nonneg (wdev_nonneg _ _ (fun r hr => (hin r hr).1)) hA.le
  have hv2 : 0 ≤ wdev db.rows (wxsum db.rows / wsum db.rows) / wsum db.rows :=
    div_nonneg (wdev_nonneg _ _ (fun r hr => (hrows r hr).1)) hall_pos.le
  have hshare : 0 ≤ wsum excluded / wsum db.rows := div_nonneg hB hall_pos.le
  have hlohi : lo ≤ hi := by
    have hne : db.rows.filter P ≠ [] := by
      intro h; rw [h] at hA; simp [wsum] at hA
    obtain ⟨r, hr⟩ := List.exists_mem_of_ne_nil _ hne
    exact le_trans (hin r hr).2.1 (hin r hr).2.2
  exact ⟨_, _, _, _, h1, h2, h3, h4, hv1, hv2, hshare, hlohi⟩

/-- `|√a - √b| ≤ √|a - b|` for non-negative reals -/
private theorem abs_sqrt_sub_sqrt_le {a b : ℝ} (ha : 0 ≤ a) (hb : 0 ≤ b) :
    |Real.sqrt a - Real.sqrt b| ≤ Real.sqrt |a - b| := by
  have key : ∀ {a b : ℝ}, 0 ≤ b → b ≤ a → Real.sqrt a - Real.sqrt b ≤ Real.sqrt (a - b) := by
    intro a b hb hab
    have hd : 0 ≤ a - b := by linarith
    have h : Real.sqrt a ≤ Real.sqrt b + Real.sqrt (a - b) := by
      apply Real.sqrt_le_iff.mpr
      refine ⟨by positivity, ?_⟩
      nlinarith [Real.sq_sqrt hb, Real.sq_sqrt hd, mul_nonneg (Real.sqrt_nonneg b) (Real.sqrt_nonneg (a - b))]
    linarith
  rcases le_total b a with hab | hab
  · have h1 := key hb hab
    have h2 : Real.sqrt b ≤ Real.sqrt a := Real.sqrt_le_sqrt hab
    rw [abs_of_nonneg (by linarith), abs_of_nonneg (by linarith)]
    exact h1
  · have h1 := key ha hab
    have h2 : Real.sqrt a ≤ Real.sqrt b := Real.sqrt_le_sqrt hab
    rw [abs_of_nonpos (by linarith), abs_of_nonpos (by linarith)]
    simpa using h1

/-- **C18_pruned_std_bound** — the standard deviations themselves (what `predict` returns,
`σ = √var`, over ℝ): `|σ_pruned - σ_all| ≤ √(2·share) · (hi - lo)`; it follows from the
variance bound of `C18_pruned_estimate_bound` by `|√a - √b| ≤ √|a - b|`.  (A bound linear in
`share` does not hold for σ itself: when all kept entries share one `x`, `σ_pruned = 0`
while `σ_all` is of order `√share · R`.) -/
theorem C18_pruned_std_bound (db : Db ℝ) (hv : db.Valid) (q : Query ℝ) (hq : q.restricted = true)
    (lo hi : ℝ) (hrows : ∀ r ∈ db.rows, 0 ≤ r.w ∧ lo ≤ r.x ∧ r.x ≤ hi)
    (hW : 0 < ((window db q).map (·.w)).sum) :
    let qu : Query ℝ := { q with restricted := false }
    let excluded := db.rows.filter (fun r => !(decide (q.sl ≤ r.proj) && decide (r.proj ≤ q.su)))
    let share := (excluded.map (·.w)).sum / (db.rows.map (·.w)).sum
    ∃ m v m' v', predict db q = Est.val m v ∧ predict db qu = Est.val m' v' ∧
      |Real.sqrt v - Real.sqrt v'| ≤ Real.sqrt (2 * share) * (hi - lo) := by
  intro qu excluded share
  obtain ⟨m, v, m', v', h1, h2, _, h4, hv1, hv2, hs, hlohi⟩ :=
    C18_pruned_estimate_bound db hv q hq lo hi hrows hW
  refine ⟨m, v, m', v', h1, h2, ?_⟩
  have hR : 0 ≤ hi - lo := by linarith
  calc |Real.sqrt v - Real.sqrt v'| ≤ Real.sqrt |v - v'| := abs_sqrt_sub_sqrt_le hv1 hv2
    _ ≤ Real.sqrt (2 * share * (hi - lo) ^ 2) := Real.sqrt_le_sqrt h4
    _ = Real.sqrt (2 * share) * (hi - lo) := by
        rw [Real.sqrt_mul (by positivity), Real.sqrt_sq hR]

/-! ## the x-sorted view of the window, cdf and quantiles -/

/-- **C18_xsort_window** — the two-sort-order bookkeeping: filtering `x_sorted_inds` to
`[i_l, i_u)`, shifting by `i_l` and indexing the window never indexes out of range and
yields the window itself, re-ordered by non-decreasing `x` (a permutation: nothing lost,
nothing duplicated). -/
theorem C18_xsort_window (db : Db α) (hv : db.Valid) (q : Query α) :
    ∃ v, xsWindow db q = some v ∧ v.Perm (window db q) ∧ v.Pairwise (fun a b => a.x ≤ b.x) :=
  xsWindow_spec db hv q

/-- **C18_cdf_monotone_ends_one** — with non-negative weights and some weight in the
window, `cdf` returns abscissae `xs` = the window's `x` values in non-decreasing order
(so it starts at the smallest `x`) and ordinates that are non-decreasing, lie in `[0, 1]`
and end at exactly 1; there is one ordinate per abscissa. -/
theorem C18_cdf_monotone_ends_one (db : Db α) (hv : db.Valid) (q : Query α)
    (hw : ∀ r ∈ window db q, 0 ≤ r.w) (hW : 0 < ((window db q).map (·.w)).sum) :
    ∃ xs cum, cdf db q = CdfOut.val xs cum ∧
      xs.Perm ((window db q).map (·.x)) ∧ xs.Pairwise (· ≤ ·) ∧
      cum.length = xs.length ∧ cum.Pairwise (· ≤ ·) ∧ (∀ c ∈ cum, 0 ≤ c ∧ c ≤ 1) ∧
      cum.getLast? = some 1 := by
  obtain ⟨v, hv1, hv2, hv3⟩ := xsWindow_spec db hv q
  have hWv : 0 < wsum v := by rw [wsum_perm hv2]; exact hW
  have hwv : ∀ a ∈ v.map (·.w), 0 ≤ a := by
    intro a ha
    obtain ⟨r, hr, rfl⟩ := List.mem_map.mp ha
    exact hw r (hv2.mem_iff.mp hr)
  have hne : v.map (·.w) ≠ [] := by
    intro h
    have : wsum v = 0 := by simp [wsum, h]
    linarith
  refine ⟨v.map (·.x), (cumsum (v.map (·.w))).map (· / wsum v), ?_, hv2.map _, ?_, ?_, ?_, ?_, ?_⟩
  · rw [cdf_of_xsWindow db q v hv1, if_pos hWv]
  · exact List.pairwise_map.mpr hv3
  · simp [cumsum, cumsumFrom_length]
  · rw [List.pairwise_map]
    exact (cumsumFrom_pairwise 0 _ hwv).imp (fun {a b} hab => div_le_div_of_nonneg_right hab hWv.le)
  · intro c hc
    obtain ⟨a, ha, rfl⟩ := List.mem_map.mp hc
    have h0 := cumsumFrom_ge 0 _ hwv a ha
    have h1 := cumsumFrom_le_total 0 _ hwv a ha
    rw [zero_add] at h1
    exact ⟨div_nonneg h0 hWv.le, by rw [div_le_one hWv]; exact h1⟩
  · rw [List.getLast?_map, cumsum, cumsumFrom_getLast? 0 _ hne, zero_add]
    simp only [Option.map_some]
    congr 1
    exact div_self hWv.ne'

/-- **C18_cdf_is_weighted_ecdf** — the ordinates are the weighted empirical distribution
function of the window: at every abscissa that is the last of its group of equal `x`
(in particular wherever `x` has no ties) `cum[k] = Σ_{x_i ≤ xs[k]} w_i / Σ w_i = cdfAt xs[k]`.
Together with `C18_perm_invariant` (invariance of `cdfAt`): the cdf as a function of `x`
does not depend on the order of the database nor on how `argsort` breaks ties. -/
theorem C18_cdf_is_weighted_ecdf (db : Db α) (hv : db.Valid) (q : Query α)
    (xs cum : List α) (hcdf : cdf db q = CdfOut.val xs cum) (k : Nat) (a c : α)
    (hx : xs[k]? = some a) (hc : cum[k]? = some c) (hlast : ∀ b, xs[k + 1]? = some b → a < b) :
    c = cdfAt db q a := by
  obtain ⟨v, hv1, hv2, hv3⟩ := xsWindow_spec db hv q
  rw [cdf_of_xsWindow db q v hv1] at hcdf
  by_cases hWv : 0 < wsum v
  · rw [if_pos hWv] at hcdf
    injection hcdf with hxs hcum
    subst hxs hcum
    have hk : k < v.length := by
      have := (List.getElem?_eq_some_iff.mp hx).1
      simpa using this
    have ha : a = v[k].x := by
      rw [List.getElem?_map, List.getElem?_eq_getElem hk] at hx
      simpa using hx.symm
    have hlast' : ∀ h1 : k + 1 < v.length, v[k].x < v[k + 1].x := by
      intro h1
      have := hlast v[k + 1].x (by rw [List.getElem?_map, List.getElem?_eq_getElem h1]; rfl)
      rwa [ha] at this
    have hcv : c = wsum (v.take (k + 1)) / wsum v := by
      rw [List.getElem?_map, cumsum, cumsumFrom_getElem? 0 _ k (by simpa using hk), zero_add,
        ← List.map_take] at hc
      simpa [wsum] using hc.symm
    rw [hcv, cdfAt_eq_of_perm db q v hv2 a, ha, filter_le_eq_take v hv3 k hk hlast']
  · rw [if_neg hWv] at hcdf
    cases hcdf

/-- **C18_quantiles_monotone_in_range** — under the same hypotheses `predict_quantiles`
returns, for quantile levels `taus ⊆ [0,1]` given in non-decreasing order, values that are
non-decreasing and lie within `[lo, hi]` for any bounds `lo ≤ x ≤ hi` of the window's `x`
(in particular within `[min x, max x]`). -/
theorem C18_quantiles_monotone_in_range (db : Db α) (hv : db.Valid) (q : Query α)
    (hw : ∀ r ∈ window db q, 0 ≤ r.w) (hW : 0 < ((window db q).map (·.w)).sum)
    (taus : List α) (ht : ∀ t ∈ taus, 0 ≤ t ∧ t ≤ 1) (hsorted : taus.Pairwise (· ≤ ·))
    (lo hi : α) (hx : ∀ r ∈ window db q, lo ≤ r.x ∧ r.x ≤ hi) :
    ∃ qs, predictQuantiles db q taus = QOut.val qs ∧ qs.length = taus.length ∧
      qs.Pairwise (· ≤ ·) ∧ ∀ v ∈ qs, lo ≤ v ∧ v ≤ hi := by
  obtain ⟨xs, cum, hcdf, hxs, hxsort, hlen, hcsort, _, hlast⟩ :=
    C18_cdf_monotone_ends_one db hv q hw hW
  have hany : taus.any (fun t => decide (t < 0) || decide (1 < t)) = false := by
    rw [List.any_eq_false]
    intro t htm
    have := ht t htm
    simp only [Bool.or_eq_true, decide_eq_true_eq, not_or, not_lt]
    exact this
  have hm : Mono2 (cum.zip xs) := mono2_zip cum xs hlen hcsort hxsort
  have hb : ∀ pt ∈ cum.zip xs, lo ≤ pt.2 ∧ pt.2 ≤ hi := by
    intro pt hpt
    have : pt.2 ∈ xs := (List.of_mem_zip hpt).2
    have := hxs.mem_iff.mp this
    obtain ⟨r, hr, hrx⟩ := List.mem_map.mp this
    rw [← hrx]; exact hx r hr
  unfold predictQuantiles
  rw [hany, hcdf]
  simp only [Bool.false_eq_true, if_false]
  cases hz : cum.zip xs with
  | nil =>
    exfalso
    have : cum = [] ∨ xs = [] := List.zip_eq_nil_iff.mp hz
    have hc : cum = [] := by
      rcases this with h | h
      · exact h
      · rw [h] at hlen; exact List.length_eq_zero_iff.mp hlen
    rw [hc] at hlast; simp at hlast
  | cons p rest =>
    rw [hz] at hm hb
    refine ⟨_, rfl, by simp, ?_, ?_⟩
    · rw [List.pairwise_map]
      exact hsorted.imp (fun {a b} hab => interpAt_mono p rest hm a b hab)
    · intro v hvm
      obtain ⟨t, _, rfl⟩ := List.mem_map.mp hvm
      exact interpAt_bounds p rest hm lo hi t hb

/-- **C18_nan_when_no_weight** — when the window is empty or all its weights are zero, the
model takes the NaN branch in `predict`, `cdf` and `predict_quantiles` (no exception, no
arbitrary number; `cdf` still reports the abscissae); conversely with non-negative weights
and one positive weight in the window `predict` is a number. -/
theorem C18_nan_when_no_weight (db : Db α) (hv : db.Valid) (q : Query α) :
    ((∀ r ∈ window db q, r.w = 0) →
      predict db q = Est.nan ∧ (∃ xs, cdf db q = CdfOut.nan xs) ∧
      ∀ taus : List α, (∀ t ∈ taus, 0 ≤ t ∧ t ≤ 1) → predictQuantiles db q taus = QOut.nan) ∧
    ((∀ r ∈ window db q, 0 ≤ r.w) → (∃ r ∈ window db q, 0 < r.w) → ∃ m v, predict db q = Est.val m v) := by
  constructor
  · intro h0
    have hz : wsum (window db q) = 0 := wsum_eq_zero_of_all_zero _ h0
    obtain ⟨v, hv1, hv2, _⟩ := xsWindow_spec db hv q
    have hzv : ¬ 0 < wsum v := by rw [wsum_perm hv2, hz]; exact lt_irrefl 0
    have hcdf : cdf db q = CdfOut.nan (v.map (·.x)) := by
      rw [cdf_of_xsWindow db q v hv1, if_neg hzv]
    refine ⟨?_, ⟨_, hcdf⟩, ?_⟩
    · rw [predict_eq, if_neg (by rw [hz]; exact lt_irrefl 0)]
    · intro taus ht
      have hany : taus.any (fun t => decide (t < 0) || decide (1 < t)) = false := by
        rw [List.any_eq_false]
        intro t htm
        have := ht t htm
        simp only [Bool.or_eq_true, decide_eq_true_eq, not_or, not_lt]
        exact this
      unfold predictQuantiles
      rw [hany, hcdf]
      simp
  · intro hnn ⟨r, hr, hpos⟩
    have := wsum_pos_of_mem (window db q) hnn r hr hpos
    exact ⟨_, _, by rw [predict_eq, if_pos this]⟩

/-! ## non-vacuity: the hypotheses are satisfiable by concrete, non-trivial states -/

section examples

/-- five entries (unsorted, a tie in the projection, a tie in x, chi2 = (proj - 2)^2, weights
`w = max 0 (9 - chi2)`: an anti-monotone function of chi2, non-negative, one of them zero) -/
private def ex_rows : List (Row ℚ) :=
  [⟨3, 10, 1, 8⟩, ⟨1, 30, 1, 8⟩, ⟨2, 20, 0, 9⟩, ⟨2, 10, 0, 9⟩, ⟨5, 7, 9, 0⟩]

/-- the state `mk ex_rows` (checked by `#guard` below): rows sorted along the projection,
`x_sorted_inds` -/
private def ex_db : Db ℚ :=
  ⟨[⟨1, 30, 1, 8⟩, ⟨2, 20, 0, 9⟩, ⟨2, 10, 0, 9⟩, ⟨3, 10, 1, 8⟩, ⟨5, 7, 9, 0⟩], [4, 2, 3, 1, 0]⟩

private def ex_q : Query ℚ := ⟨true, 1, 3⟩      -- y_proj = 2, rad = 1, tol = 0: pc1_e = 1, x2_max = 1/2

#guard (mk ex_rows).rows == ex_db.rows && (mk ex_rows).xinds == ex_db.xinds

example : (mk ex_rows).Valid := mk_valid _
example : ex_db.Valid := Db.valid_of_validB _ (by decide +kernel)
example : bounds ex_db ex_q = (0, 4) := by decide +kernel
example : ((window ex_db ex_q).map (·.w)).sum = 34 := by decide +kernel
example : (0 : ℚ) < ((window ex_db ex_q).map (·.w)).sum := by decide +kernel
-- hypotheses of C18_window_sound hold for this state, and an entry is really left out
example : ∀ r ∈ ex_db.rows, (1 : ℚ) * (r.proj - 2) ^ 2 ≤ r.chi2 := by decide +kernel
example : ex_q.sl = (2 : ℚ) - 1 - 0 ∧ ex_q.su = (2 : ℚ) + 1 + 0 ∧ 2 * (1 / 2) ≤ (1 : ℚ) * 1 ^ 2 := by
  decide +kernel
example : ¬ ((bounds ex_db ex_q).1 ≤ 4 ∧ 4 < (bounds ex_db ex_q).2) := by decide +kernel
-- hypotheses of the cdf / quantile / pruning theorems
example : ∀ r ∈ ex_db.rows, (0 : ℚ) ≤ r.w ∧ (7 : ℚ) ≤ r.x ∧ r.x ≤ 30 := by decide +kernel
example : ∀ r ∈ window ex_db ex_q, (0 : ℚ) ≤ r.w := by decide +kernel
example : ([0, 1 / 4, 1 / 2, 1] : List ℚ).Pairwise (· ≤ ·) := by decide +kernel
example : ∀ t ∈ ([0, 1 / 4, 1 / 2, 1] : List ℚ), 0 ≤ t ∧ t ≤ 1 := by decide +kernel
-- the NaN branch is reachable: empty window, and a non-empty window whose weights are all zero
example : (window ex_db ⟨true, 6, 9⟩).length = 0 := by decide +kernel
example : ∀ r ∈ window ex_db ⟨true, 4, 9⟩, r.w = 0 := by decide +kernel
example : (window ex_db ⟨true, 4, 9⟩).length = 1 := by decide +kernel
-- permutation: a different order of the same entries
example : ex_rows.reverse.Perm ex_rows := List.reverse_perm _
-- the conclusions evaluated on this state (executable model)
#guard (match predict ex_db ex_q with | .val m _ => m == (240 + 180 + 90 + 80) / 34 | _ => false)
#guard (match cdf ex_db ex_q with
  | .val xs cum => xs == [10, 10, 20, 30] && cum == [9/34, 17/34, 26/34, 1] | _ => false)
#guard (match predictQuantiles ex_db ex_q [0, 1/4, 1/2, 9/10, 1] with
  | .val qs => qs == [10, 10, 10, 103/4, 30] | _ => false)
#guard (match predict ex_db ⟨true, 4, 9⟩ with | .nan => true | _ => false)
-- C18_cdf_is_weighted_ecdf: k = 1 is the last index of the group x = 10 (xs[2] = 20 > 10)
#guard cdfAt ex_db ex_q 10 == 1 / 2 && cdfAt ex_db ex_q 20 == 13 / 17 && cdfAt ex_db ex_q 30 == 1
-- C18_spectral_inequality: S = 1 (2x2) is positive definite with unit eigenvector (1, 0), λ = 1
example : (1 : Matrix (Fin 2) (Fin 2) ℝ).PosDef := Matrix.PosDef.one
example : (1 : Matrix (Fin 2) (Fin 2) ℝ).mulVec ![1, 0] = (1 : ℝ) • ![1, 0] ∧ (![1, 0] : Fin 2 → ℝ) ⬝ᵥ ![1, 0] = 1 := by
  constructor
  · simp
  · simp [dotProduct, Fin.sum_univ_two]
-- C18_excluded_weight_small: on this state the weights ARE an anti-monotone function of chi2
example : Antitone (fun c : ℚ => max 0 (9 - c)) := fun a b h => by
  simp only; exact max_le_max le_rfl (by linarith)
example : ∀ r ∈ ex_db.rows, r.w = (fun c : ℚ => max 0 (9 - c)) r.chi2 := by decide +kernel
-- and the entry left out (k = 4, chi2 = 9 > 2 x2_max = 1) indeed weighs 0 <= g 1 = 8
-- C18_x2max_only_leaves_out_large_chi2 / C18_pruned_std_bound: hypotheses as above (S = 1, v = e_1, λ = 1,
-- rad = 1, x2_max = 1/2: 2 * (1/2) ≤ (1/1) * 1^2)
example : 2 * (1 / 2 : ℝ) ≤ (1 / 1) * 1 ^ 2 := by norm_num

end examples

assert_axioms C18_predict_formula_window C18_predict_formula C18_predict_formula_exp
  C18_perm_invariant C18_window_spec C18_searchsorted_bisect C18_window_sound C18_spectral_inequality
  C18_excluded_weight_small C18_x2max_only_leaves_out_large_chi2 C18_pruned_std_bound
  C18_pruned_estimate_bound C18_xsort_window C18_cdf_monotone_ends_one C18_cdf_is_weighted_ecdf C18_quantiles_monotone_in_range C18_nan_when_no_weight
