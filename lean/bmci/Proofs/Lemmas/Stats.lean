import Proofs.Lemmas.Window

/-!
Weighted sums: the closed form of `predict`, its invariance under permutations of the
window, the bound on the effect of pruning, running sums (`cumsum`) and the cdf.
-/

set_option linter.unusedSectionVars false

namespace Bmci

variable {α : Type} [Field α] [LinearOrder α] [IsStrictOrderedRing α]

/-- total weight of a list of entries -/
def wsum (l : List (Row α)) : α := (l.map (·.w)).sum
/-- `Σ w·x` -/
def wxsum (l : List (Row α)) : α := (l.map (fun r => r.w * r.x)).sum
/-- `Σ w·(x - c)²` -/
def wdev (l : List (Row α)) (c : α) : α := (l.map (fun r => r.w * (r.x - c) ^ 2)).sum

theorem sum_map_div (l : List (Row α)) (f : Row α → α) (c : α) :
    (l.map (fun r => f r / c)).sum = (l.map f).sum / c := by
  induction l with
  | nil => simp
  | cons a t ih => simp only [List.map_cons, List.sum_cons, ih, add_div]

theorem wsum_perm {l₁ l₂ : List (Row α)} (h : l₁.Perm l₂) : wsum l₁ = wsum l₂ := (h.map _).sum_eq
theorem wxsum_perm {l₁ l₂ : List (Row α)} (h : l₁.Perm l₂) : wxsum l₁ = wxsum l₂ := (h.map _).sum_eq
theorem wdev_perm {l₁ l₂ : List (Row α)} (h : l₁.Perm l₂) (c : α) : wdev l₁ c = wdev l₂ c :=
  (h.map _).sum_eq

theorem wsum_append (a b : List (Row α)) : wsum (a ++ b) = wsum a + wsum b := by simp [wsum]
theorem wxsum_append (a b : List (Row α)) : wxsum (a ++ b) = wxsum a + wxsum b := by simp [wxsum]

theorem wsum_nonneg (l : List (Row α)) (h : ∀ r ∈ l, 0 ≤ r.w) : 0 ≤ wsum l := by
  unfold wsum
  apply List.sum_nonneg
  intro a ha
  obtain ⟨r, hr, rfl⟩ := List.mem_map.mp ha
  exact h r hr

theorem wsum_eq_zero_of_all_zero (l : List (Row α)) (h : ∀ r ∈ l, r.w = 0) : wsum l = 0 := by
  induction l with
  | nil => simp [wsum]
  | cons a t ih =>
    have := ih (fun r hr => h r (by simp [hr]))
    simp only [wsum, List.map_cons, List.sum_cons] at this ⊢
    rw [this, h a (by simp)]; simp

theorem wsum_pos_of_mem (l : List (Row α)) (h : ∀ r ∈ l, 0 ≤ r.w) (r : Row α) (hr : r ∈ l)
    (hpos : 0 < r.w) : 0 < wsum l := by
  induction l with
  | nil => simp at hr
  | cons a t ih =>
    have ht : 0 ≤ wsum t := wsum_nonneg t (fun r hr => h r (by simp [hr]))
    have ha : 0 ≤ a.w := h a (by simp)
    have e : wsum (a :: t) = a.w + wsum t := by simp [wsum]
    rw [e]
    rcases List.mem_cons.mp hr with rfl | hr'
    · linarith
    · have := ih (fun r hr => h r (by simp [hr])) hr'
      linarith

theorem wxsum_le (l : List (Row α)) (hi : α) (h : ∀ r ∈ l, 0 ≤ r.w ∧ r.x ≤ hi) :
    wxsum l ≤ hi * wsum l := by
  induction l with
  | nil => simp [wxsum, wsum]
  | cons a t ih =>
    have := ih (fun r hr => h r (by simp [hr]))
    obtain ⟨ha, hx⟩ := h a (by simp)
    simp only [wxsum, wsum, List.map_cons, List.sum_cons] at this ⊢
    nlinarith [mul_le_mul_of_nonneg_left hx ha]

theorem le_wxsum (l : List (Row α)) (lo : α) (h : ∀ r ∈ l, 0 ≤ r.w ∧ lo ≤ r.x) :
    lo * wsum l ≤ wxsum l := by
  induction l with
  | nil => simp [wxsum, wsum]
  | cons a t ih =>
    have := ih (fun r hr => h r (by simp [hr]))
    obtain ⟨ha, hx⟩ := h a (by simp)
    simp only [wxsum, wsum, List.map_cons, List.sum_cons] at this ⊢
    nlinarith [mul_le_mul_of_nonneg_left hx ha]

/-! ### `predict` -/

/-- `predict` only looks at the window, through three sums -/
theorem predict_eq (db : Db α) (q : Query α) :
    predict db q =
      if 0 < wsum (window db q) then
        Est.val (wxsum (window db q) / wsum (window db q))
          (wdev (window db q) (wxsum (window db q) / wsum (window db q)) / wsum (window db q))
      else Est.nan := by
  unfold predict
  have hw : ((window db q).map (·.w)).sum = wsum (window db q) := rfl
  simp only [hw]
  by_cases h : 0 < wsum (window db q)
  · rw [if_pos h, if_pos h]
    have e1 : ((window db q).map (fun r => r.x * r.w / wsum (window db q))).sum
        = wxsum (window db q) / wsum (window db q) := by
      rw [sum_map_div (window db q) (fun r => r.x * r.w)]
      simp only [wxsum, mul_comm]
    rw [e1]
    congr 1
    rw [sum_map_div (window db q)
      (fun r => (r.x - wxsum (window db q) / wsum (window db q)) *
        (r.x - wxsum (window db q) / wsum (window db q)) * r.w)]
    simp only [wdev]
    congr 2
    apply List.map_congr_left
    intro r _; ring
  · rw [if_neg h, if_neg h]

theorem predict_congr (db₁ db₂ : Db α) (q₁ q₂ : Query α)
    (h : (window db₁ q₁).Perm (window db₂ q₂)) : predict db₁ q₁ = predict db₂ q₂ := by
  rw [predict_eq, predict_eq, wsum_perm h, wxsum_perm h, wdev_perm h]

/-- the effect of leaving entries out: `inn` kept, `out` left out -/
theorem mean_shift_bound (inn out : List (Row α)) (lo hi : α)
    (hin : ∀ r ∈ inn, 0 ≤ r.w ∧ lo ≤ r.x ∧ r.x ≤ hi) (hout : ∀ r ∈ out, 0 ≤ r.w ∧ lo ≤ r.x ∧ r.x ≤ hi)
    (hA : 0 < wsum inn) :
    |wxsum inn / wsum inn - (wxsum inn + wxsum out) / (wsum inn + wsum out)|
      ≤ wsum out / (wsum inn + wsum out) * (hi - lo) := by
  have hB : 0 ≤ wsum out := wsum_nonneg out (fun r hr => (hout r hr).1)
  have hAB : 0 < wsum inn + wsum out := by linarith
  have a1 := wxsum_le inn hi (fun r hr => ⟨(hin r hr).1, (hin r hr).2.2⟩)
  have a2 := le_wxsum inn lo (fun r hr => ⟨(hin r hr).1, (hin r hr).2.1⟩)
  have b1 := wxsum_le out hi (fun r hr => ⟨(hout r hr).1, (hout r hr).2.2⟩)
  have b2 := le_wxsum out lo (fun r hr => ⟨(hout r hr).1, (hout r hr).2.1⟩)
  set A := wsum inn
  set B := wsum out
  set a := wxsum inn
  set b := wxsum out
  have e : a / A - (a + b) / (A + B) = (a * B - A * b) / (A * (A + B)) := by
    field_simp; ring
  have e2 : B / (A + B) * (hi - lo) = (A * B * (hi - lo)) / (A * (A + B)) := by
    field_simp
  rw [e, e2, abs_le]
  have hden : 0 < A * (A + B) := mul_pos hA hAB
  constructor
  · rw [neg_le, ← neg_div]
    apply div_le_div_of_nonneg_right _ hden.le
    nlinarith [mul_le_mul_of_nonneg_left b1 hA.le, mul_le_mul_of_nonneg_right a2 hB]
  · apply div_le_div_of_nonneg_right _ hden.le
    nlinarith [mul_le_mul_of_nonneg_left b2 hA.le, mul_le_mul_of_nonneg_right a1 hB]

/-! ### running sums -/

theorem cumsumFrom_length (acc : α) (l : List α) : (cumsumFrom acc l).length = l.length := by
  induction l generalizing acc with
  | nil => rfl
  | cons a t ih => simp [cumsumFrom, ih]

theorem cumsumFrom_ge (acc : α) (l : List α) (h : ∀ a ∈ l, 0 ≤ a) :
    ∀ c ∈ cumsumFrom acc l, acc ≤ c := by
  induction l generalizing acc with
  | nil => intro c hc; simp [cumsumFrom] at hc
  | cons a t ih =>
    intro c hc
    have ha : 0 ≤ a := h a (by simp)
    simp only [cumsumFrom, List.mem_cons] at hc
    rcases hc with rfl | hc
    · linarith
    · have := ih (acc + a) (fun b hb => h b (by simp [hb])) c hc
      linarith

theorem cumsumFrom_pairwise (acc : α) (l : List α) (h : ∀ a ∈ l, 0 ≤ a) :
    (cumsumFrom acc l).Pairwise (· ≤ ·) := by
  induction l generalizing acc with
  | nil => simp [cumsumFrom]
  | cons a t ih =>
    simp only [cumsumFrom, List.pairwise_cons]
    exact ⟨cumsumFrom_ge (acc + a) t (fun b hb => h b (by simp [hb])),
      ih (acc + a) (fun b hb => h b (by simp [hb]))⟩

theorem cumsumFrom_getLast? (acc : α) (l : List α) (hne : l ≠ []) :
    (cumsumFrom acc l).getLast? = some (acc + l.sum) := by
  induction l generalizing acc with
  | nil => exact absurd rfl hne
  | cons a t ih =>
    cases t with
    | nil => simp [cumsumFrom]
    | cons b t' =>
      have := ih (acc + a) (by simp)
      simp only [cumsumFrom] at this ⊢
      rw [List.getLast?_cons_cons, this]
      simp [add_assoc]

theorem cumsumFrom_le_total (acc : α) (l : List α) (h : ∀ a ∈ l, 0 ≤ a) :
    ∀ c ∈ cumsumFrom acc l, c ≤ acc + l.sum := by
  induction l generalizing acc with
  | nil => intro c hc; simp [cumsumFrom] at hc
  | cons a t ih =>
    intro c hc
    have ht : 0 ≤ t.sum := List.sum_nonneg (fun b hb => h b (by simp [hb]))
    simp only [cumsumFrom, List.mem_cons] at hc
    rcases hc with rfl | hc
    · simp only [List.sum_cons]; linarith
    · have := ih (acc + a) (fun b hb => h b (by simp [hb])) c hc
      simp only [List.sum_cons]; linarith

/-- shape of the result of `cdf` in terms of the x-sorted window `v` -/
theorem cdf_of_xsWindow (db : Db α) (q : Query α) (v : List (Row α)) (hv : xsWindow db q = some v) :
    cdf db q =
      if 0 < wsum v then CdfOut.val (v.map (·.x)) ((cumsum (v.map (·.w))).map (· / wsum v))
      else CdfOut.nan (v.map (·.x)) := by
  unfold cdf
  simp only [hv]
  have hw : (v.map (·.w)).sum = wsum v := rfl
  by_cases hne : v = []
  · subst hne; simp [cumsum, cumsumFrom, wsum]
  · have hne' : v.map (·.w) ≠ [] := by simpa using hne
    have := cumsumFrom_getLast? (0 : α) (v.map (·.w)) hne'
    rw [zero_add, hw] at this
    simp only [cumsum, this]

end Bmci
