import Mathlib.Tactic
import Model.Bmci

/-!
Generic list lemmas behind the BMCI bookkeeping: fancy indexing (`gather`), the adjacent
sortedness test, `searchsorted` (= `countP`) on sorted lists, slices of `range`.
-/

namespace Bmci

variable {β : Type}

theorem gather_eq_some_of_lt (l : List β) (js : List Nat) (h : ∀ j ∈ js, j < l.length) :
    gather l js = some (js.filterMap (fun j => l[j]?)) := by
  induction js with
  | nil => rfl
  | cons j js ih =>
    have hj : j < l.length := h j (by simp)
    have ih' := ih (fun k hk => h k (by simp [hk]))
    simp [gather, ih', List.getElem?_eq_getElem hj]

theorem gather_eq_none_of_ge (l : List β) (js : List Nat) (j : Nat) (hj : j ∈ js)
    (hge : l.length ≤ j) : gather l js = none := by
  induction js with
  | nil => simp at hj
  | cons i js ih =>
    rcases List.mem_cons.mp hj with rfl | h
    · simp [gather, List.getElem?_eq_none hge]
    · have := ih h
      simp only [gather, this]
      cases l[i]? <;> rfl

theorem filterMap_getElem?_range (l : List β) :
    (List.range l.length).filterMap (fun j => l[j]?) = l := by
  induction l with
  | nil => rfl
  | cons a t ih =>
    rw [List.length_cons, List.range_succ_eq_map, List.filterMap_cons]
    simp only [List.getElem?_cons_zero, List.filterMap_map]
    congr 1

/-- `(range' s k).filterMap (l[·]?)` is the slice `l[s : s+k]` when it fits -/
theorem filterMap_getElem?_range' (l : List β) (s k : Nat) (h : s + k ≤ l.length) :
    (List.range' s k).filterMap (fun j => l[j]?) = slice l s (s + k) := by
  have hlen : (slice l s (s + k)).length = k := by
    simp only [slice, List.length_take, List.length_drop]; omega
  rw [List.range'_eq_map_range, List.filterMap_map]
  conv_rhs => rw [← filterMap_getElem?_range (slice l s (s + k)), hlen]
  apply List.filterMap_congr
  intro j hj
  have hj' : j < k := List.mem_range.mp hj
  simp only [Function.comp, slice, Nat.add_sub_cancel_left]
  rw [List.getElem?_take_of_lt hj', List.getElem?_drop]

theorem slice_length (l : List β) (il iu : Nat) (h : iu ≤ l.length) :
    (slice l il iu).length = iu - il := by
  simp only [slice, List.length_take, List.length_drop]; omega

theorem slice_getElem? (l : List β) (il iu i : Nat) (h1 : il ≤ i) (h2 : i < iu) :
    (slice l il iu)[i - il]? = l[i]? := by
  simp only [slice]
  rw [List.getElem?_take_of_lt (by omega), List.getElem?_drop]
  congr 1; omega

theorem slice_zero_length (l : List β) : slice l 0 l.length = l := by
  simp [slice]

/-- the indices of `range n` inside `[il, iu)` -/
theorem filter_range_Ico (n il iu : Nat) (h : iu ≤ n) :
    (List.range n).filter (fun i => decide (il ≤ i) && decide (i < iu)) = List.range' il (iu - il) := by
  rcases Nat.lt_or_ge iu il with hlt | hle
  · have : iu - il = 0 := by omega
    rw [this, List.range'_zero, List.filter_eq_nil_iff]
    intro i _; simp; omega
  · have e : List.range n = List.range' 0 il ++ (List.range' il (iu - il) ++ List.range' iu (n - iu)) := by
      rw [List.range_eq_range']
      have h1 : List.range' il (iu - il) ++ List.range' iu (n - iu) = List.range' il (n - il) := by
        have := List.range'_append_1 (s := il) (m := iu - il) (n := n - iu)
        rw [show il + (iu - il) = iu by omega, show iu - il + (n - iu) = n - il by omega] at this
        exact this
      rw [h1]
      have := List.range'_append_1 (s := 0) (m := il) (n := n - il)
      rw [show 0 + il = il by omega, show il + (n - il) = n by omega] at this
      exact this.symm
    rw [e, List.filter_append, List.filter_append]
    have f1 : (List.range' 0 il).filter (fun i => decide (il ≤ i) && decide (i < iu)) = [] := by
      rw [List.filter_eq_nil_iff]; intro i hi
      have := List.mem_range'_1.mp hi; simp; omega
    have f3 : (List.range' iu (n - iu)).filter (fun i => decide (il ≤ i) && decide (i < iu)) = [] := by
      rw [List.filter_eq_nil_iff]; intro i hi
      have := List.mem_range'_1.mp hi; simp; omega
    have f2 : (List.range' il (iu - il)).filter (fun i => decide (il ≤ i) && decide (i < iu))
        = List.range' il (iu - il) := by
      rw [List.filter_eq_self]; intro i hi
      have := List.mem_range'_1.mp hi; simp; omega
    rw [f1, f2, f3]; simp

section order
variable {α : Type} [LinearOrder α]

theorem sortedB_iff (l : List α) : sortedB l = true ↔ l.Pairwise (· ≤ ·) := by
  induction l with
  | nil => simp [sortedB]
  | cons a t ih =>
    cases t with
    | nil => simp [sortedB]
    | cons b t =>
      simp only [sortedB, Bool.and_eq_true, decide_eq_true_eq, ih]
      constructor
      · rintro ⟨hab, hp⟩
        refine List.pairwise_cons.mpr ⟨?_, hp⟩
        intro c hc
        rcases List.mem_cons.mp hc with rfl | hc
        · exact hab
        · exact le_trans hab ((List.pairwise_cons.mp hp).1 c hc)
      · intro hp
        have := List.pairwise_cons.mp hp
        exact ⟨this.1 b (by simp), this.2⟩

end order

section countP
variable {γ : Type}

/-- `p` is downward closed along `l`: once it fails it fails for everything later -/
def DownClosed (p : γ → Bool) (l : List γ) : Prop := l.Pairwise (fun a b => p b = true → p a = true)

theorem DownClosed.tail {p : γ → Bool} {a : γ} {l : List γ} (h : DownClosed p (a :: l)) :
    DownClosed p l := (List.pairwise_cons.mp h).2

theorem countP_eq_zero_of_head_false {p : γ → Bool} {a : γ} {l : List γ} (h : DownClosed p (a :: l))
    (ha : p a = false) : l.countP p = 0 := by
  rw [List.countP_eq_zero]
  intro b hb hpb
  have := (List.pairwise_cons.mp h).1 b hb hpb
  simp [ha] at this

theorem lt_countP_iff {p : γ → Bool} (l : List γ) (h : DownClosed p l) (k : Nat) (hk : k < l.length) :
    k < l.countP p ↔ p l[k] = true := by
  induction l generalizing k with
  | nil => simp at hk
  | cons a t ih =>
    by_cases ha : p a = true
    · rw [List.countP_cons_of_pos ha]
      cases k with
      | zero => simp [ha]
      | succ k =>
        simp only [List.getElem_cons_succ]
        rw [← ih h.tail k (by simpa using hk)]
        omega
    · have ha' : p a = false := by simpa using ha
      rw [List.countP_cons_of_neg (by simp [ha']), countP_eq_zero_of_head_false h ha']
      constructor
      · intro h0; omega
      · intro hp
        exfalso
        cases k with
        | zero => simp [ha'] at hp
        | succ k =>
          simp only [List.getElem_cons_succ] at hp
          have hk' : k < t.length := by simpa using hk
          have := (List.pairwise_cons.mp h).1 (t[k]'hk') (List.getElem_mem _) hp
          simp [ha'] at this

theorem take_countP {p : γ → Bool} (l : List γ) (h : DownClosed p l) :
    l.take (l.countP p) = l.filter p := by
  induction l with
  | nil => rfl
  | cons a t ih =>
    by_cases ha : p a = true
    · rw [List.countP_cons_of_pos ha, List.take_succ_cons, ih h.tail, List.filter_cons_of_pos ha]
    · have ha' : p a = false := by simpa using ha
      have hz := countP_eq_zero_of_head_false h ha'
      rw [List.countP_cons_of_neg (by simp [ha']), hz, List.take_zero,
        List.filter_cons_of_neg (by simp [ha'])]
      symm; rw [List.filter_eq_nil_iff]
      intro b hb; exact List.countP_eq_zero.mp hz b hb

theorem drop_countP {p : γ → Bool} (l : List γ) (h : DownClosed p l) :
    l.drop (l.countP p) = l.filter (fun a => !p a) := by
  induction l with
  | nil => rfl
  | cons a t ih =>
    by_cases ha : p a = true
    · rw [List.countP_cons_of_pos ha, List.drop_succ_cons, ih h.tail,
        List.filter_cons_of_neg (by simp [ha])]
    · have ha' : p a = false := by simpa using ha
      have hz := countP_eq_zero_of_head_false h ha'
      rw [List.countP_cons_of_neg (by simp [ha']), hz, List.drop_zero]
      symm; rw [List.filter_eq_self]
      intro b hb
      rcases List.mem_cons.mp hb with rfl | hb
      · simp [ha']
      · have := List.countP_eq_zero.mp hz b hb
        simpa using this

theorem DownClosed.filter {p : γ → Bool} {l : List γ} (h : DownClosed p l) (q : γ → Bool) :
    DownClosed p (l.filter q) := List.Pairwise.sublist List.filter_sublist h

end countP

end Bmci
