import Proofs.Lemmas.ListAux

/-!
numpy's bisection returns the number of elements satisfying a predicate that is downward
closed along the (sorted) array.
-/

namespace Bmci

variable {β : Type}

theorem bisect_eq_countP (p : β → Bool) (a : List β) (h : DownClosed p a) (fuel lo hi : Nat)
    (hlo : lo ≤ a.countP p) (hhi : a.countP p ≤ hi) (hn : hi ≤ a.length) (hf : hi - lo ≤ fuel) :
    bisect p a fuel lo hi = a.countP p := by
  induction fuel generalizing lo hi with
  | zero => simp only [bisect]; omega
  | succ fuel ih =>
    unfold bisect
    by_cases hlt : lo < hi
    · rw [if_pos hlt]
      have hmid : lo + (hi - lo) / 2 < a.length := by omega
      simp only [List.getElem?_eq_getElem hmid]
      by_cases hp : p a[lo + (hi - lo) / 2] = true
      · rw [if_pos hp]
        have := (lt_countP_iff a h _ hmid).mpr hp
        exact ih _ _ (by omega) hhi hn (by omega)
      · rw [if_neg hp]
        have : ¬ lo + (hi - lo) / 2 < a.countP p := fun hh => hp ((lt_countP_iff a h _ hmid).mp hh)
        exact ih _ _ hlo (by omega) (by omega) (by omega)
    · rw [if_neg hlt]; omega

end Bmci
