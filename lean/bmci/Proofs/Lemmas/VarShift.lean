import Proofs.Lemmas.Stats

/-!
Effect of pruning on the variance: with `inn` kept and `out` left out,
`|var_all - var_inn| ≤ 2 · (W_out / W_all) · (hi - lo)²`.
-/

set_option linter.unusedSectionVars false

namespace Bmci

variable {α : Type} [Field α] [LinearOrder α] [IsStrictOrderedRing α]

/-- `Σ w·x²` -/
def wx2sum (l : List (Row α)) : α := (l.map (fun r => r.w * r.x ^ 2)).sum

theorem wdev_expand (l : List (Row α)) (c : α) :
    wdev l c = wx2sum l - 2 * c * wxsum l + c ^ 2 * wsum l := by
  induction l with
  | nil => simp [wdev, wx2sum, wxsum, wsum]
  | cons a t ih =>
    simp only [wdev, wx2sum, wxsum, wsum, List.map_cons, List.sum_cons] at ih ⊢
    rw [ih]; ring

theorem wdev_append (a b : List (Row α)) (c : α) : wdev (a ++ b) c = wdev a c + wdev b c := by
  simp [wdev]

theorem wdev_nonneg (l : List (Row α)) (c : α) (h : ∀ r ∈ l, 0 ≤ r.w) : 0 ≤ wdev l c := by
  unfold wdev
  apply List.sum_nonneg
  intro a ha
  obtain ⟨r, hr, rfl⟩ := List.mem_map.mp ha
  exact mul_nonneg (h r hr) (sq_nonneg _)

theorem wdev_le (l : List (Row α)) (c lo hi : α) (hc : lo ≤ c ∧ c ≤ hi)
    (h : ∀ r ∈ l, 0 ≤ r.w ∧ lo ≤ r.x ∧ r.x ≤ hi) : wdev l c ≤ (hi - lo) ^ 2 * wsum l := by
  induction l with
  | nil => simp [wdev, wsum]
  | cons a t ih =>
    have := ih (fun r hr => h r (by simp [hr]))
    obtain ⟨ha, hx1, hx2⟩ := h a (by simp)
    simp only [wdev, wsum, List.map_cons, List.sum_cons] at this ⊢
    have hsq : (a.x - c) ^ 2 ≤ (hi - lo) ^ 2 := by
      apply sq_le_sq'
      · linarith [hc.1, hc.2]
      · linarith [hc.1, hc.2]
    nlinarith [mul_le_mul_of_nonneg_left hsq ha]

/-- parallel-axis identity: deviations about `c` vs about the own mean -/
theorem wdev_shift (l : List (Row α)) (c : α) (hA : wsum l ≠ 0) :
    wdev l c = wdev l (wxsum l / wsum l) + wsum l * (wxsum l / wsum l - c) ^ 2 := by
  rw [wdev_expand l c, wdev_expand l (wxsum l / wsum l)]
  field_simp
  ring

theorem mean_mem_range (l : List (Row α)) (lo hi : α) (h : ∀ r ∈ l, 0 ≤ r.w ∧ lo ≤ r.x ∧ r.x ≤ hi)
    (hA : 0 < wsum l) : lo ≤ wxsum l / wsum l ∧ wxsum l / wsum l ≤ hi := by
  have a1 := wxsum_le l hi (fun r hr => ⟨(h r hr).1, (h r hr).2.2⟩)
  have a2 := le_wxsum l lo (fun r hr => ⟨(h r hr).1, (h r hr).2.1⟩)
  exact ⟨by rw [le_div_iff₀ hA]; exact a2, by rw [div_le_iff₀ hA]; exact a1⟩

theorem var_shift_bound (inn out : List (Row α)) (lo hi : α)
    (hin : ∀ r ∈ inn, 0 ≤ r.w ∧ lo ≤ r.x ∧ r.x ≤ hi) (hout : ∀ r ∈ out, 0 ≤ r.w ∧ lo ≤ r.x ∧ r.x ≤ hi)
    (hA : 0 < wsum inn) :
    let mA := wxsum inn / wsum inn
    let m := (wxsum inn + wxsum out) / (wsum inn + wsum out)
    |wdev inn mA / wsum inn - (wdev inn m + wdev out m) / (wsum inn + wsum out)|
      ≤ 2 * (wsum out / (wsum inn + wsum out)) * (hi - lo) ^ 2 := by
  intro mA m
  have hB : 0 ≤ wsum out := wsum_nonneg out (fun r hr => (hout r hr).1)
  have hW : 0 < wsum inn + wsum out := by linarith
  have hmA := mean_mem_range inn lo hi hin hA
  -- the overall mean lies in [lo, hi]
  have hm : lo ≤ m ∧ m ≤ hi := by
    have hall : ∀ r ∈ inn ++ out, 0 ≤ r.w ∧ lo ≤ r.x ∧ r.x ≤ hi := by
      intro r hr
      rcases List.mem_append.mp hr with h | h
      · exact hin r h
      · exact hout r h
    have := mean_mem_range (inn ++ out) lo hi hall (by rw [wsum_append]; exact hW)
    rwa [wsum_append, wxsum_append] at this
  have hshift := mean_shift_bound inn out lo hi hin hout hA
  have hR : 0 ≤ hi - lo := by linarith [hmA.1, hmA.2]
  set A := wsum inn
  set B := wsum out
  set R := hi - lo
  set D := wdev inn mA with hD
  set E := wdev out m with hE
  have hD0 : 0 ≤ D := wdev_nonneg inn mA (fun r hr => (hin r hr).1)
  have hD1 : D ≤ R ^ 2 * A := wdev_le inn mA lo hi hmA hin
  have hE0 : 0 ≤ E := wdev_nonneg out m (fun r hr => (hout r hr).1)
  have hE1 : E ≤ R ^ 2 * B := wdev_le out m lo hi hm hout
  have hpar : wdev inn m = D + A * (mA - m) ^ 2 := wdev_shift inn m hA.ne'
  -- (mA - m)² ≤ (B/W)² R²
  set s := B / (A + B) with hs
  have hs0 : 0 ≤ s := div_nonneg hB hW.le
  have hs1 : s ≤ 1 := by rw [hs, div_le_one hW]; linarith
  have hd2 : (mA - m) ^ 2 ≤ (s * R) ^ 2 := by
    apply sq_le_sq'
    · have := (abs_le.mp hshift).1; linarith
    · exact (abs_le.mp hshift).2
  have hBs : B = s * (A + B) := by rw [hs]; field_simp
  rw [hpar]
  have e : D / A - (D + A * (mA - m) ^ 2 + E) / (A + B)
      = (D * B - A * (A * (mA - m) ^ 2 + E)) / (A * (A + B)) := by
    field_simp; ring
  have e2 : 2 * s * R ^ 2 = (2 * B * R ^ 2 * A) / (A * (A + B)) := by
    rw [hs]; field_simp
  rw [e, e2, abs_le]
  have hden : 0 < A * (A + B) := mul_pos hA hW
  have hq : A * (mA - m) ^ 2 ≤ B * R ^ 2 := by
    -- A (mA-m)² ≤ A s² R² ≤ A s R² ≤ (A+B) s R² = B R²
    have h1 : (s * R) ^ 2 ≤ s * R ^ 2 := by
      have : s ^ 2 ≤ s := by nlinarith
      nlinarith [sq_nonneg R]
    have h2 : A * (mA - m) ^ 2 ≤ A * (s * R ^ 2) :=
      mul_le_mul_of_nonneg_left (le_trans hd2 h1) hA.le
    have h3 : A * (s * R ^ 2) ≤ (A + B) * (s * R ^ 2) :=
      mul_le_mul_of_nonneg_right (by linarith) (mul_nonneg hs0 (sq_nonneg R))
    calc A * (mA - m) ^ 2 ≤ (A + B) * (s * R ^ 2) := le_trans h2 h3
      _ = B * R ^ 2 := by rw [show (A + B) * (s * R ^ 2) = (s * (A + B)) * R ^ 2 by ring, ← hBs]
  have hq0 : 0 ≤ A * (mA - m) ^ 2 := mul_nonneg hA.le (sq_nonneg _)
  constructor
  · rw [neg_le, ← neg_div]
    apply div_le_div_of_nonneg_right _ hden.le
    -- A (A δ² + E) - D B ≤ A (B R² + B R²)
    have f1 := mul_nonneg hD0 hB
    have f2 := mul_le_mul_of_nonneg_left hq hA.le
    have f3 := mul_le_mul_of_nonneg_left hE1 hA.le
    linarith
  · apply div_le_div_of_nonneg_right _ hden.le
    -- D B - A(...) ≤ D B ≤ R² A B
    have f1 := mul_le_mul_of_nonneg_right hD1 hB
    have f2 := mul_nonneg hA.le hq0
    have f3 := mul_nonneg hA.le hE0
    have f4 := mul_nonneg (mul_nonneg hB (sq_nonneg R)) hA.le
    linarith

end Bmci
