import Mathlib.LinearAlgebra.Matrix.PosDef

/-!
The spectral inequality behind the BMCI search window: for a symmetric positive definite
`S`, a unit eigenvector `v` with `S v = λ v` and any `d`,
`(1/λ) (v·d)² ≤ dᵀ S⁻¹ d`  (the Rayleigh quotient of `S⁻¹` is at least its value along `v`).
-/

open Matrix

namespace Bmci

variable {m : Type} [Fintype m] [DecidableEq m]

theorem spectral_inequality (S : Matrix m m ℝ) (hS : S.PosDef) (v : m → ℝ) (lam : ℝ)
    (hv : S *ᵥ v = lam • v) (hunit : v ⬝ᵥ v = 1) (d : m → ℝ) :
    0 < lam ∧ (1 / lam) * (v ⬝ᵥ d) ^ 2 ≤ d ⬝ᵥ (S⁻¹ *ᵥ d) := by
  have hsym : Sᵀ = S := by
    rw [← Matrix.conjTranspose_eq_transpose_of_trivial]; exact hS.isHermitian.eq
  have hv0 : v ≠ 0 := by
    intro h; rw [h] at hunit; simp at hunit
  -- λ = vᵀ S v > 0
  have hlam : 0 < lam := by
    have h1 : 0 < star v ⬝ᵥ (S *ᵥ v) := hS.dotProduct_mulVec_pos hv0
    rw [hv] at h1
    simpa [dotProduct_smul, hunit] using h1
  refine ⟨hlam, ?_⟩
  have hdet : IsUnit S.det := (Matrix.isUnit_iff_isUnit_det S).mp hS.isUnit
  set u := S⁻¹ *ᵥ d with hu
  have hSu : S *ᵥ u = d := by
    rw [hu, Matrix.mulVec_mulVec, Matrix.mul_nonsing_inv S hdet, Matrix.one_mulVec]
  -- symmetric: a · (S b) = (S a) · b
  have hsymm : ∀ a b : m → ℝ, a ⬝ᵥ (S *ᵥ b) = (S *ᵥ a) ⬝ᵥ b := by
    intro a b
    rw [Matrix.dotProduct_mulVec, ← Matrix.mulVec_transpose, hsym]
  set c := v ⬝ᵥ u with hc
  have hvd : v ⬝ᵥ d = lam * c := by
    rw [← hSu, hsymm, hv, smul_dotProduct, smul_eq_mul]
  set r := u - c • v with hr
  have hvr : v ⬝ᵥ r = 0 := by
    rw [hr, dotProduct_sub, dotProduct_smul, hunit, smul_eq_mul, mul_one, ← hc, sub_self]
  have hSr_v : (S *ᵥ r) ⬝ᵥ v = 0 := by
    rw [← hsymm, hv, dotProduct_smul, dotProduct_comm, hvr, smul_zero]
  have hrr : 0 ≤ r ⬝ᵥ (S *ᵥ r) := by
    have := hS.posSemidef.dotProduct_mulVec_nonneg r
    simpa using this
  have hu_eq : u = c • v + r := by rw [hr]; abel
  have hquad : u ⬝ᵥ (S *ᵥ u) = lam * c ^ 2 + r ⬝ᵥ (S *ᵥ r) := by
    have e1 : S *ᵥ u = c • (lam • v) + S *ᵥ r := by
      have : S *ᵥ (c • v + r) = c • (lam • v) + S *ᵥ r := by
        rw [Matrix.mulVec_add, Matrix.mulVec_smul, hv]
      rwa [← hu_eq] at this
    have h1 : v ⬝ᵥ (S *ᵥ r) = 0 := by rw [hsymm, hv, smul_dotProduct, hvr, smul_zero]
    have h2 : r ⬝ᵥ v = 0 := by rw [dotProduct_comm]; exact hvr
    have hA : u ⬝ᵥ (S *ᵥ u) = (c • v + r) ⬝ᵥ (c • (lam • v) + S *ᵥ r) := by rw [← e1, ← hu_eq]
    rw [hA]
    simp only [add_dotProduct, dotProduct_add, smul_dotProduct, dotProduct_smul, hunit, h1, h2,
      smul_eq_mul]
    ring
  have hchi : d ⬝ᵥ (S⁻¹ *ᵥ d) = u ⬝ᵥ (S *ᵥ u) := by
    rw [hSu, dotProduct_comm]
  rw [hchi, hquad, hvd]
  have : 1 / lam * (lam * c) ^ 2 = lam * c ^ 2 := by field_simp
  rw [this]; linarith

end Bmci
