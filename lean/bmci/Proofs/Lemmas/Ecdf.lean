import Proofs.Lemmas.Stats

/-!
The ordinates `cdf` returns are the weighted empirical distribution function `cdfAt` of the
window, evaluated at the abscissae (at the last entry of each group of equal `x`).
-/

set_option linter.unusedSectionVars false

namespace Bmci

variable {α : Type} [Field α] [LinearOrder α] [IsStrictOrderedRing α]

theorem cumsumFrom_getElem? (acc : α) (l : List α) (k : Nat) (hk : k < l.length) :
    (cumsumFrom acc l)[k]? = some (acc + (l.take (k + 1)).sum) := by
  induction l generalizing acc k with
  | nil => simp at hk
  | cons a t ih =>
    cases k with
    | zero => simp [cumsumFrom]
    | succ k =>
      have hk' : k < t.length := by simpa using hk
      rw [cumsumFrom, List.getElem?_cons_succ, ih (acc + a) k hk',
        show k + 1 + 1 = (k + 1) + 1 from rfl, List.take_succ_cons, List.sum_cons, add_assoc]

theorem downClosed_x_le (v : List (Row α)) (h : v.Pairwise (fun a b => a.x ≤ b.x)) (t : α) :
    DownClosed (fun r : Row α => decide (r.x ≤ t)) v :=
  h.imp (fun {a b} hab hb => by simp only [decide_eq_true_eq] at *; exact le_trans hab hb)

/-- in an x-sorted list, the entries with `x ≤ v[k].x` are the first `k+1` ones when `k` is
the last index of its group of equal `x` -/
theorem filter_le_eq_take (v : List (Row α)) (h : v.Pairwise (fun a b => a.x ≤ b.x)) (k : Nat)
    (hk : k < v.length) (hlast : ∀ h1 : k + 1 < v.length, v[k].x < v[k + 1].x) :
    v.filter (fun r => decide (r.x ≤ v[k].x)) = v.take (k + 1) := by
  have hd := downClosed_x_le v h v[k].x
  rw [← take_countP v hd]
  congr 1
  have h1 : k < v.countP (fun r => decide (r.x ≤ v[k].x)) := by
    rw [lt_countP_iff v hd k hk]; simp
  have h2 : ¬ k + 1 < v.countP (fun r => decide (r.x ≤ v[k].x)) := by
    intro hlt
    have hlen : k + 1 < v.length := lt_of_lt_of_le hlt List.countP_le_length
    have := (lt_countP_iff v hd (k + 1) hlen).mp hlt
    simp only [decide_eq_true_eq] at this
    exact absurd (hlast hlen) (not_lt.mpr this)
  omega

theorem cdfAt_eq_of_perm (db : Db α) (q : Query α) (v : List (Row α)) (hp : v.Perm (window db q)) (t : α) :
    cdfAt db q t = wsum (v.filter (fun r => decide (r.x ≤ t))) / wsum v := by
  unfold cdfAt wsum
  rw [((hp.filter _).map _).sum_eq, (hp.map _).sum_eq]

end Bmci
