import Proofs.Lemmas.ListAux

/-!
The constructor invariant, the `searchsorted` window and the x-sorted view of the window.
-/

namespace Bmci

variable {α : Type} [LinearOrder α]

/-- what `BMCI.__init__` establishes: rows ordered along the projection; `x_sorted_inds`
a permutation of `0..n-1` that orders `x` (the contract of `np.argsort`, stable or not) -/
structure Db.Valid (db : Db α) : Prop where
  projSorted : db.rows.Pairwise (fun a b => a.proj ≤ b.proj)
  xindsPerm : db.xinds.Perm (List.range db.rows.length)
  xSorted : (db.xinds.filterMap (fun i => db.rows[i]?)).Pairwise (fun a b => a.x ≤ b.x)

/-- the executable test the driver runs on the arrays of the real object implies `Valid` -/
theorem Db.valid_of_validB (db : Db α) (h : db.validB = true) : db.Valid := by
  simp only [Db.validB, Bool.and_eq_true, beq_iff_eq, List.all_eq_true, decide_eq_true_eq] at h
  obtain ⟨⟨⟨⟨h1, h2⟩, h3⟩, h4⟩, h5⟩ := h
  refine ⟨?_, ?_, ?_⟩
  · have := (sortedB_iff _).mp h1
    exact List.pairwise_map.mp this
  · have hsub : db.xinds ⊆ List.range db.rows.length := fun i hi => List.mem_range.mpr (h3 i hi)
    have hsp : db.xinds.Subperm (List.range db.rows.length) := List.subperm_of_subset h4 hsub
    exact hsp.perm_of_length_le (by simp [h2])
  · have := (sortedB_iff _).mp h5
    exact List.pairwise_map.mp this

/-- the model's own constructor (stable merge sorts) establishes the invariant -/
theorem mk_valid (rows : List (Row α)) : (mk rows).Valid := by
  set sorted := rows.mergeSort (fun a b => decide (a.proj ≤ b.proj)) with hs
  refine ⟨?_, ?_, ?_⟩
  · have := List.pairwise_mergeSort (le := fun (a b : Row α) => decide (a.proj ≤ b.proj))
      (fun a b c hab hbc => by simp only [decide_eq_true_eq] at *; exact le_trans hab hbc)
      (fun a b => by simp only [Bool.or_eq_true, decide_eq_true_eq]; exact le_total _ _) rows
    simpa [mk] using this
  · show ((sorted.zipIdx.mergeSort _).map (·.2)).Perm (List.range sorted.length)
    have hp := (List.mergeSort_perm sorted.zipIdx (fun a b => decide (a.1.x ≤ b.1.x))).map (·.2)
    refine hp.trans ?_
    rw [List.zipIdx_map_snd, List.range_eq_range']
  · show (((sorted.zipIdx.mergeSort (fun a b => decide (a.1.x ≤ b.1.x))).map (·.2)).filterMap
        (fun i => sorted[i]?)).Pairwise (fun a b => a.x ≤ b.x)
    set S := sorted.zipIdx.mergeSort (fun a b => decide (a.1.x ≤ b.1.x)) with hS
    have hmem : ∀ p ∈ S, sorted[p.2]? = some p.1 := by
      intro p hp
      have hp' : p ∈ sorted.zipIdx := (List.mergeSort_perm _ _).mem_iff.mp hp
      have := List.mem_zipIdx_iff_getElem?.mp hp'
      simpa using this
    have e : (S.map (·.2)).filterMap (fun i => sorted[i]?) = S.map (·.1) := by
      rw [List.filterMap_map, ← List.filterMap_eq_map]
      apply List.filterMap_congr
      intro p hp; simpa using hmem p hp
    rw [e, List.pairwise_map]
    have := List.pairwise_mergeSort (le := fun (a b : Row α × Nat) => decide (a.1.x ≤ b.1.x))
      (fun a b c hab hbc => by simp only [decide_eq_true_eq] at *; exact le_trans hab hbc)
      (fun a b => by simp only [Bool.or_eq_true, decide_eq_true_eq]; exact le_total _ _) sorted.zipIdx
    simpa using this

theorem mk_rows_perm (rows : List (Row α)) : (mk rows).rows.Perm rows :=
  List.mergeSort_perm _ _

/-! ### the window -/

theorem downClosed_lt (rows : List (Row α)) (h : rows.Pairwise (fun a b => a.proj ≤ b.proj)) (v : α) :
    DownClosed (fun r : Row α => decide (r.proj < v)) rows :=
  h.imp (fun {a b} hab hb => by simp only [decide_eq_true_eq] at *; exact lt_of_le_of_lt hab hb)

theorem downClosed_le (rows : List (Row α)) (h : rows.Pairwise (fun a b => a.proj ≤ b.proj)) (v : α) :
    DownClosed (fun r : Row α => decide (r.proj ≤ v)) rows :=
  h.imp (fun {a b} hab hb => by simp only [decide_eq_true_eq] at *; exact le_trans hab hb)

theorem ssLeft_rows (rows : List (Row α)) (v : α) :
    ssLeft (rows.map (·.proj)) v = rows.countP (fun r => decide (r.proj < v)) := by
  simp [ssLeft, List.countP_map, Function.comp_def]

theorem ssRight_rows (rows : List (Row α)) (v : α) :
    ssRight (rows.map (·.proj)) v = rows.countP (fun r => decide (r.proj ≤ v)) := by
  simp [ssRight, List.countP_map, Function.comp_def]

theorem bounds_le_length (db : Db α) (q : Query α) :
    (bounds db q).1 ≤ db.rows.length ∧ (bounds db q).2 ≤ db.rows.length := by
  unfold bounds
  split
  · simp only [ssLeft_rows, ssRight_rows]
    exact ⟨List.countP_le_length, List.countP_le_length⟩
  · simp

/-- index form: position `k` of the sorted database is inside `[i_l, i_u)` iff its projection
lies in the closed interval `[s_l, s_u]` -/
theorem mem_bounds_iff (db : Db α) (hv : db.rows.Pairwise (fun a b => a.proj ≤ b.proj))
    (q : Query α) (hq : q.restricted = true) (k : Nat) (hk : k < db.rows.length) :
    ((bounds db q).1 ≤ k ∧ k < (bounds db q).2) ↔ (q.sl ≤ db.rows[k].proj ∧ db.rows[k].proj ≤ q.su) := by
  simp only [bounds, hq, if_true, ssLeft_rows, ssRight_rows]
  have h1 := lt_countP_iff db.rows (downClosed_lt db.rows hv q.sl) k hk
  have h2 := lt_countP_iff db.rows (downClosed_le db.rows hv q.su) k hk
  simp only [decide_eq_true_eq] at h1 h2
  rw [h2, ← not_lt, h1, not_lt]

/-- list form: the window is the sub-list of entries with `s_l ≤ proj ≤ s_u` -/
theorem window_eq_filter (db : Db α) (hv : db.rows.Pairwise (fun a b => a.proj ≤ b.proj))
    (q : Query α) (hq : q.restricted = true) :
    window db q = db.rows.filter (fun r => decide (q.sl ≤ r.proj) && decide (r.proj ≤ q.su)) := by
  simp only [window, bounds, hq, if_true, ssLeft_rows, ssRight_rows, slice]
  set pl : Row α → Bool := fun r => decide (r.proj < q.sl)
  set pu : Row α → Bool := fun r => decide (r.proj ≤ q.su)
  rw [← List.drop_take]
  rw [take_countP db.rows (downClosed_le db.rows hv q.su)]
  by_cases hle : q.sl ≤ q.su
  · have hc : db.rows.countP pl = (db.rows.filter pu).countP pl := by
      rw [List.countP_filter]
      apply List.countP_congr
      intro r _
      simp only [pl, pu, Bool.and_eq_true, decide_eq_true_eq]
      constructor
      · intro h; exact ⟨h, le_trans (le_of_lt h) hle⟩
      · intro h; exact h.1
    rw [hc, drop_countP _ ((downClosed_lt db.rows hv q.sl).filter pu), List.filter_filter]
    apply List.filter_congr
    intro r _
    have : (!decide (r.proj < q.sl)) = decide (q.sl ≤ r.proj) := by
      rw [← decide_not, decide_eq_decide]; exact not_lt
    simp only [pl, pu, this]
  · have hlt : q.su < q.sl := not_le.mp hle
    have e1 : db.rows.filter (fun r => decide (q.sl ≤ r.proj) && decide (r.proj ≤ q.su)) = [] := by
      rw [List.filter_eq_nil_iff]
      intro r _
      simp only [Bool.and_eq_true, decide_eq_true_eq, not_and, not_le]
      intro h; exact lt_of_lt_of_le hlt h
    rw [e1, List.drop_eq_nil_iff, ← List.countP_eq_length_filter]
    apply List.countP_mono_left
    intro r _
    simp only [pl, decide_eq_true_eq]
    intro h; exact lt_of_le_of_lt h hlt

theorem window_unrestricted (db : Db α) (q : Query α) (hq : q.restricted = false) :
    window db q = db.rows := by
  simp [window, bounds, hq, slice]

/-- restricted or not, the window is a sub-list of the database -/
theorem window_sublist (db : Db α) (q : Query α) : (window db q).Sublist db.rows := by
  unfold window slice
  exact (List.take_sublist _ _).trans (List.drop_sublist _ _)

/-! ### the x-sorted view restricted to the window -/

theorem xsWindow_spec (db : Db α) (hv : db.Valid) (q : Query α) :
    ∃ v, xsWindow db q = some v ∧ v.Perm (window db q) ∧ v.Pairwise (fun a b => a.x ≤ b.x) := by
  obtain ⟨hil, hiu⟩ := bounds_le_length db q
  set il := (bounds db q).1 with hil'
  set iu := (bounds db q).2 with hiu'
  set P : Nat → Bool := fun i => decide (il ≤ i) && decide (i < iu) with hP
  have hwin : window db q = slice db.rows il iu := rfl
  have hlen : (slice db.rows il iu).length = iu - il := slice_length _ _ _ hiu
  -- all indices of the view are inside the window
  have hin : ∀ j ∈ xview db il iu, j < (window db q).length := by
    intro j hj
    simp only [xview, List.mem_map, List.mem_filter, Bool.and_eq_true, decide_eq_true_eq] at hj
    obtain ⟨i, ⟨_, h1, h2⟩, rfl⟩ := hj
    rw [hwin, hlen]; omega
  have hg := gather_eq_some_of_lt (window db q) (xview db il iu) hin
  -- the gathered rows, expressed through the database
  have e1 : (xview db il iu).filterMap (fun j => (window db q)[j]?)
      = (db.xinds.filter P).filterMap (fun i => db.rows[i]?) := by
    simp only [xview, List.filterMap_map]
    apply List.filterMap_congr
    intro i hi
    simp only [List.mem_filter, Bool.and_eq_true, decide_eq_true_eq] at hi
    simp only [Function.comp, hwin]
    exact slice_getElem? db.rows il iu i hi.2.1 hi.2.2
  refine ⟨_, hg, ?_, ?_⟩
  · rw [e1]
    have hp : ((db.xinds.filter P).filterMap (fun i => db.rows[i]?)).Perm
        (((List.range db.rows.length).filter P).filterMap (fun i => db.rows[i]?)) :=
      (hv.xindsPerm.filter P).filterMap _
    refine hp.trans ?_
    rw [hwin, hP, filter_range_Ico _ il iu hiu]
    rcases Nat.lt_or_ge iu il with hlt | hle
    · have h0 : iu - il = 0 := by omega
      have : slice db.rows il iu = [] := by simp [slice, h0]
      rw [h0, this]; simp
    · rw [filterMap_getElem?_range' db.rows il (iu - il) (by omega)]
      rw [show il + (iu - il) = iu by omega]
  · rw [e1]
    exact List.Pairwise.sublist (List.filter_sublist.filterMap _) hv.xSorted

end Bmci
