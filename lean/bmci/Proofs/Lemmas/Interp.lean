import Proofs.Lemmas.Stats

/-!
`np.interp` on non-decreasing abscissae with non-decreasing ordinates: the interpolant is
non-decreasing and stays between the first and the last ordinate.
-/

set_option linter.unusedSectionVars false

namespace Bmci

variable {α : Type} [Field α] [LinearOrder α] [IsStrictOrderedRing α]

/-- both coordinates non-decreasing along the list of points -/
def Mono2 (pts : List (α × α)) : Prop :=
  pts.Pairwise (fun a b => a.1 ≤ b.1) ∧ pts.Pairwise (fun a b => a.2 ≤ b.2)

theorem Mono2.tail {p : α × α} {l : List (α × α)} (h : Mono2 (p :: l)) : Mono2 l :=
  ⟨(List.pairwise_cons.mp h.1).2, (List.pairwise_cons.mp h.2).2⟩

theorem Mono2.head_le {p p1 : α × α} {l : List (α × α)} (h : Mono2 (p :: p1 :: l)) :
    p.1 ≤ p1.1 ∧ p.2 ≤ p1.2 :=
  ⟨(List.pairwise_cons.mp h.1).1 p1 (by simp), (List.pairwise_cons.mp h.2).1 p1 (by simp)⟩

/-- value on one segment, `x0 ≤ t < x1`, `f0 ≤ f1` -/
theorem seg_bounds {x0 f0 x1 f1 t : α} (h0 : x0 ≤ t) (h1 : t < x1) (hf : f0 ≤ f1) :
    f0 ≤ (f1 - f0) / (x1 - x0) * (t - x0) + f0 ∧ (f1 - f0) / (x1 - x0) * (t - x0) + f0 ≤ f1 := by
  have hd : 0 < x1 - x0 := by linarith
  have e : (f1 - f0) / (x1 - x0) * (t - x0) = (f1 - f0) * ((t - x0) / (x1 - x0)) := by
    field_simp
  have hr0 : 0 ≤ (t - x0) / (x1 - x0) := div_nonneg (by linarith) hd.le
  have hr1 : (t - x0) / (x1 - x0) ≤ 1 := by rw [div_le_one hd]; linarith
  rw [e]
  constructor
  · nlinarith [mul_nonneg (sub_nonneg.mpr hf) hr0]
  · nlinarith [mul_le_mul_of_nonneg_left hr1 (sub_nonneg.mpr hf)]

theorem seg_mono {x0 f0 x1 f1 t t' : α} (h0 : x0 ≤ t) (htt : t ≤ t') (h1 : t' < x1) (hf : f0 ≤ f1) :
    (f1 - f0) / (x1 - x0) * (t - x0) + f0 ≤ (f1 - f0) / (x1 - x0) * (t' - x0) + f0 := by
  have hd : 0 < x1 - x0 := by linarith
  have hs : 0 ≤ (f1 - f0) / (x1 - x0) := div_nonneg (sub_nonneg.mpr hf) hd.le
  nlinarith [mul_le_mul_of_nonneg_left (sub_le_sub_right htt x0) hs]

/-- the value taken in the segment branch (with numpy's short cut on an abscissa) equals the
linear formula -/
theorem seg_branch {x0 f0 x1 f1 t : α} :
    (if x0 = t then f0 else (f1 - f0) / (x1 - x0) * (t - x0) + f0)
      = (f1 - f0) / (x1 - x0) * (t - x0) + f0 := by
  split
  · next h => subst h; simp
  · rfl

theorem interpFrom_ge (p : α × α) (rest : List (α × α)) (t : α) (hm : Mono2 (p :: rest)) (ht : p.1 ≤ t) :
    p.2 ≤ interpFrom p rest t := by
  induction rest generalizing p with
  | nil => simp [interpFrom]
  | cons p1 rest ih =>
    obtain ⟨hx, hf⟩ := hm.head_le
    unfold interpFrom
    by_cases h1 : p1.1 ≤ t
    · rw [if_pos h1]
      exact le_trans hf (ih p1 hm.tail h1)
    · rw [if_neg h1, seg_branch]
      exact (seg_bounds ht (not_le.mp h1) hf).1

theorem interpFrom_le (p : α × α) (rest : List (α × α)) (t hi : α) (hm : Mono2 (p :: rest)) (ht : p.1 ≤ t)
    (hhi : ∀ pt ∈ p :: rest, pt.2 ≤ hi) : interpFrom p rest t ≤ hi := by
  induction rest generalizing p with
  | nil => simpa [interpFrom] using hhi p (by simp)
  | cons p1 rest ih =>
    obtain ⟨hx, hf⟩ := hm.head_le
    unfold interpFrom
    by_cases h1 : p1.1 ≤ t
    · rw [if_pos h1]
      exact ih p1 hm.tail h1 (fun pt hpt => hhi pt (by simp [List.mem_cons.mp hpt]))
    · rw [if_neg h1, seg_branch]
      exact le_trans (seg_bounds ht (not_le.mp h1) hf).2 (hhi p1 (by simp))

theorem interpFrom_mono (p : α × α) (rest : List (α × α)) (t t' : α) (hm : Mono2 (p :: rest))
    (ht : p.1 ≤ t) (htt : t ≤ t') : interpFrom p rest t ≤ interpFrom p rest t' := by
  induction rest generalizing p with
  | nil => simp [interpFrom]
  | cons p1 rest ih =>
    obtain ⟨hx, hf⟩ := hm.head_le
    by_cases h1 : p1.1 ≤ t
    · have h1' : p1.1 ≤ t' := le_trans h1 htt
      rw [interpFrom, if_pos h1, interpFrom, if_pos h1']
      exact ih p1 hm.tail h1
    · by_cases h1' : p1.1 ≤ t'
      · rw [interpFrom, if_neg h1, seg_branch, interpFrom, if_pos h1']
        exact le_trans (seg_bounds ht (not_le.mp h1) hf).2 (interpFrom_ge p1 rest t' hm.tail h1')
      · rw [interpFrom, if_neg h1, seg_branch, interpFrom, if_neg h1', seg_branch]
        exact seg_mono ht htt (not_le.mp h1') hf

/-- the complete `np.interp` for one `t` (clamped on the left) -/
def interpAt (p : α × α) (rest : List (α × α)) (t : α) : α :=
  if t < p.1 then p.2 else interpFrom p rest t

theorem interpAt_mono (p : α × α) (rest : List (α × α)) (hm : Mono2 (p :: rest)) (t t' : α) (htt : t ≤ t') :
    interpAt p rest t ≤ interpAt p rest t' := by
  unfold interpAt
  by_cases h : t < p.1
  · rw [if_pos h]
    by_cases h' : t' < p.1
    · rw [if_pos h']
    · rw [if_neg h']; exact interpFrom_ge p rest t' hm (not_lt.mp h')
  · have h' : ¬ t' < p.1 := fun hh => h (lt_of_le_of_lt htt hh)
    rw [if_neg h, if_neg h']
    exact interpFrom_mono p rest t t' hm (not_lt.mp h) htt

theorem interpAt_bounds (p : α × α) (rest : List (α × α)) (hm : Mono2 (p :: rest)) (lo hi t : α)
    (hb : ∀ pt ∈ p :: rest, lo ≤ pt.2 ∧ pt.2 ≤ hi) : lo ≤ interpAt p rest t ∧ interpAt p rest t ≤ hi := by
  unfold interpAt
  by_cases h : t < p.1
  · rw [if_pos h]; exact hb p (by simp)
  · rw [if_neg h]
    exact ⟨le_trans (hb p (by simp)).1 (interpFrom_ge p rest t hm (not_lt.mp h)),
      interpFrom_le p rest t hi hm (not_lt.mp h) (fun pt hpt => (hb pt hpt).2)⟩

/-- points built by zipping a non-decreasing `cum` with a non-decreasing `xs` -/
theorem mono2_zip (cum xs : List α) (hlen : cum.length = xs.length) (hc : cum.Pairwise (· ≤ ·))
    (hx : xs.Pairwise (· ≤ ·)) : Mono2 (cum.zip xs) := by
  constructor
  · have : (cum.zip xs).map Prod.fst = cum := List.map_fst_zip (by omega)
    rw [← this] at hc
    exact List.pairwise_map.mp hc
  · have : (cum.zip xs).map Prod.snd = xs := List.map_snd_zip (by omega)
    rw [← this] at hx
    exact List.pairwise_map.mp hx

end Bmci
