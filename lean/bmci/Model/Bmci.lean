/-
Model of `typhon/retrieval/bmci/bmci.py :: BMCI` — the *bookkeeping* of the Bayesian
Monte Carlo integration: the database sorted along the projection on the eigenvector of
the smallest eigenvalue of `S_o`, the search window found with `searchsorted`, the
weights restricted to the window, mean / variance, the x-sorted view restricted to the
window, the cdf and the interpolated quantiles, and the NaN branches.  Core Lean only.

Python (after the four `fix:` commits eb2814b, 388f0ec, 1798c6b, 7dcb5e2):

    __init__:   pc1_proj = dot(y - y_mean, pc1);  indices = argsort(pc1_proj)
                pc1_proj, x, y = pc1_proj[indices], x[indices], y[indices]
                x_sorted_inds = argsort(x)
    __find_hits:  tol = 4 m eps sum|pc1 * dy|                    (rounding allowance, >= 0)
                  s_l = y_proj - sqrt(2 x2_max / pc1_e) - tol;  s_u = y_proj + sqrt(...) + tol
                  i_l = searchsorted(pc1_proj, s_l, "left")
                  i_u = searchsorted(pc1_proj, s_u, "right")
    weights:    x2_max < 0 -> (0, n, gauss(y));  else (i_l, i_u, gauss(y[i_l:i_u]))
    predict:    c = ws.sum();  if c > 0: mean = sum(x[i_l:i_u] * ws / c)
                                         sigma = sqrt(sum((x[i_l:i_u] - mean)**2 * ws / c))
                               else NaN, NaN
    cdf:        inds = where((i_l <= x_sorted_inds) * (x_sorted_inds < i_u))
                inds = x_sorted_inds[inds] - i_l
                ws = ws[inds]; xs = x[i_l:i_u][inds]; ws_cum = ws.cumsum()
                if ws_cum.size > 0 and ws_cum[-1] > 0: ws_cum /= ws_cum[-1]  else NaN
    predict_quantiles:  (same view)  np.interp(taus, ws_cum, xs)  else NaN

What is a parameter of the model (supplied by the harness as exact rationals of the
doubles the real code produced): per database entry its projection, its `x`, its
chi-square and its weight `exp(-chi2/2)`; per query the bounds `s_l`, `s_u`.  `exp`,
`sqrt`, `dot`, `eig` never run inside the model.

numpy primitives are modelled by their contract on the inputs they get here:
* `argsort` — *some* permutation that sorts (numpy's default sort is not stable).  The
  model's own constructor `mk` uses a stable merge sort; every statement about the
  bookkeeping is made for an arbitrary database satisfying `Db.validB` (sorted
  projections, `xinds` a permutation of `0..n-1` that sorts `x`), which the driver
  *checks* on the arrays of the real object.
* `searchsorted(a, v, "left"/"right")` on a sorted `a` — number of elements `< v` / `≤ v`
  (`ssLeft/ssRight`); numpy's bisection is modelled too (`bisect`, `ssLeftBin/ssRightBin`) and
  proved equal to that count on sorted input (`C18_searchsorted_bisect`).
* `np.interp` on non-decreasing abscissae — the segment is found by walking instead of
  by bisection; same `j` (last index with `xp[j] ≤ t`), same formula, same clamping.

The model is generic in the number type (the driver uses `Rat`, the theorems any
linearly ordered field).
-/

namespace Bmci

/-- one database entry as seen by one query: projection on `pc1`, retrieval quantity,
chi-square w.r.t. the observation, weight (`exp (-chi2/2)` in the real code) -/
structure Row (α : Type) where
  proj : α
  x : α
  chi2 : α
  w : α
deriving Repr, BEq

/-- the state of a `BMCI` object after `__init__` (with the weights of the observation at
hand attached to the rows): `rows` in the order of `self.pc1_proj / self.x / self.y`,
`xinds = self.x_sorted_inds` -/
structure Db (α : Type) where
  rows : List (Row α)
  xinds : List Nat
deriving Repr

/-- a query as `weights()` sees it: `restricted = (x2_max >= 0)`, and the bounds
`s_l`, `s_u` of `__find_hits` -/
structure Query (α : Type) where
  restricted : Bool
  sl : α
  su : α
deriving Repr

/-- Python slice `l[il:iu]` for `0 ≤ il`, `0 ≤ iu` -/
def slice {β : Type} (l : List β) (il iu : Nat) : List β := (l.drop il).take (iu - il)

/-- fancy indexing `l[idx]`; `none` models numpy's `IndexError` -/
def gather {β : Type} (l : List β) : List Nat → Option (List β)
  | [] => some []
  | j :: js =>
    match l[j]?, gather l js with
    | some a, some as => some (a :: as)
    | _, _ => none

section order
variable {α : Type} [LT α] [LE α] [DecidableLT α] [DecidableLE α]

/-- `np.searchsorted(a, v, side="left")` for sorted `a` -/
def ssLeft (a : List α) (v : α) : Nat := a.countP (fun p => decide (p < v))

/-- `np.searchsorted(a, v, side="right")` for sorted `a` -/
def ssRight (a : List α) (v : α) : Nat := a.countP (fun p => decide (p ≤ v))

/-- numpy's `npy_binsearch`: `lo = 0; hi = n; while lo < hi: mid = lo + (hi - lo) / 2;
if p a[mid] then lo = mid + 1 else hi = mid`; returns `lo`.  `p x = (x < v)` for side "left",
`p x = (x ≤ v)` for side "right".  Fuel = `hi - lo` always suffices (`bisect_eq_countP`). -/
def bisect {β : Type} (p : β → Bool) (a : List β) : Nat → Nat → Nat → Nat
  | 0, lo, _ => lo
  | fuel + 1, lo, hi =>
    if lo < hi then
      let mid := lo + (hi - lo) / 2
      match a[mid]? with
      | some x => if p x then bisect p a fuel (mid + 1) hi else bisect p a fuel lo mid
      | none => lo
    else lo

/-- `np.searchsorted(a, v, side="left")` as numpy computes it (bisection) -/
def ssLeftBin (a : List α) (v : α) : Nat := bisect (fun p => decide (p < v)) a a.length 0 a.length

/-- `np.searchsorted(a, v, side="right")` as numpy computes it (bisection) -/
def ssRightBin (a : List α) (v : α) : Nat := bisect (fun p => decide (p ≤ v)) a a.length 0 a.length

/-- non-decreasing (adjacent check, linear time) -/
def sortedB : List α → Bool
  | [] => true
  | [_] => true
  | a :: b :: t => decide (a ≤ b) && sortedB (b :: t)

/-- `BMCI.__init__` with a stable sort for both `argsort`s -/
def mk (rows : List (Row α)) : Db α :=
  let sorted := rows.mergeSort (fun a b => decide (a.proj ≤ b.proj))
  { rows := sorted
    xinds := (sorted.zipIdx.mergeSort (fun a b => decide (a.1.x ≤ b.1.x))).map (·.2) }

/-- the invariant `__init__` establishes, in executable form -/
def Db.validB (db : Db α) : Bool :=
  sortedB (db.rows.map (·.proj))
    && db.xinds.length == db.rows.length
    && db.xinds.all (fun i => decide (i < db.rows.length))
    && decide db.xinds.Nodup
    && sortedB ((db.xinds.filterMap (fun i => db.rows[i]?)).map (·.x))

/-- `(i_l, i_u)` of `weights()` -/
def bounds (db : Db α) (q : Query α) : Nat × Nat :=
  if q.restricted then
    (ssLeft (db.rows.map (·.proj)) q.sl, ssRight (db.rows.map (·.proj)) q.su)
  else (0, db.rows.length)

/-- `(i_l, i_u)` with the bisection of numpy instead of its specification -/
def boundsBin (db : Db α) (q : Query α) : Nat × Nat :=
  if q.restricted then
    (ssLeftBin (db.rows.map (·.proj)) q.sl, ssRightBin (db.rows.map (·.proj)) q.su)
  else (0, db.rows.length)

/-- the entries whose weights are computed: `self.y[i_l:i_u]`, `self.x[i_l:i_u]` -/
def window (db : Db α) (q : Query α) : List (Row α) :=
  slice db.rows (bounds db q).1 (bounds db q).2

/-- `inds = x_sorted_inds[where((i_l <= x_sorted_inds) * (x_sorted_inds < i_u))] - i_l` -/
def xview (db : Db α) (il iu : Nat) : List Nat :=
  (db.xinds.filter (fun i => decide (il ≤ i) && decide (i < iu))).map (· - il)

/-- the window in the order of the x-sorted view (`ws[inds]`, `x[i_l:i_u][inds]`) -/
def xsWindow (db : Db α) (q : Query α) : Option (List (Row α)) :=
  gather (window db q) (xview db (bounds db q).1 (bounds db q).2)

end order

section arith
variable {α : Type} [Zero α] [Add α] [Sub α] [Mul α] [Div α]

/-- `np.cumsum` -/
def cumsumFrom (acc : α) : List α → List α
  | [] => []
  | a :: t => (acc + a) :: cumsumFrom (acc + a) t

def cumsum (l : List α) : List α := cumsumFrom 0 l

variable [LT α] [LE α] [DecidableLT α] [DecidableLE α]

/-- result of `predict` for one observation: `(mean, variance)`; the real code returns
`sqrt variance` (applied by the harness) -/
inductive Est (α : Type) where
  | nan : Est α
  | val (mean var : α) : Est α
deriving Repr

def predict (db : Db α) (q : Query α) : Est α :=
  let win := window db q
  let c := (win.map (·.w)).sum
  if 0 < c then
    let mean := (win.map (fun r => r.x * r.w / c)).sum
    .val mean (win.map (fun r => (r.x - mean) * (r.x - mean) * r.w / c)).sum
  else .nan

inductive CdfOut (α : Type) where
  | indexError : CdfOut α
  | nan (xs : List α) : CdfOut α
  | val (xs cum : List α) : CdfOut α
deriving Repr

def cdf (db : Db α) (q : Query α) : CdfOut α :=
  match xsWindow db q with
  | none => .indexError
  | some v =>
    let xs := v.map (·.x)
    let cum := cumsum (v.map (·.w))
    match cum.getLast? with
    | some tot => if 0 < tot then .val xs (cum.map (· / tot)) else .nan xs
    | none => .nan xs

/-- `np.interp(t, xp, fp)` once `t ≥ xp[j]` for the current point `(x0, f0) = (xp[j], fp[j])`:
advance while the next abscissa is `≤ t` (so `j` becomes the last index with `xp[j] ≤ t`);
at the last point return `fp[-1]`; on an abscissa return the ordinate; else interpolate. -/
def interpFrom [DecidableEq α] : α × α → List (α × α) → α → α
  | p, [], _ => p.2
  | p, p1 :: rest, t =>
    if p1.1 ≤ t then interpFrom p1 rest t
    else if p.1 = t then p.2
    else (p1.2 - p.2) / (p1.1 - p.1) * (t - p.1) + p.2

/-- `np.interp(t, xp, fp)` with `pts = zip xp fp`, `left = fp[0]`, `right = fp[-1]` -/
def interp [DecidableEq α] (pts : List (α × α)) (t : α) : Option α :=
  match pts with
  | [] => none
  | p :: rest => if t < p.1 then some p.2 else some (interpFrom p rest t)

inductive QOut (α : Type) where
  | indexError : QOut α
  | valueError : QOut α
  | nan : QOut α
  | val (qs : List α) : QOut α
deriving Repr

def predictQuantiles [DecidableEq α] [One α] (db : Db α) (q : Query α) (taus : List α) : QOut α :=
  if taus.any (fun t => decide (t < 0) || decide (1 < t)) then .valueError else
  match cdf db q with
  | .indexError => .indexError
  | .nan _ => .nan
  | .val xs cum =>
    match (cum.zip xs) with
    | [] => .nan
    | p :: rest => .val (taus.map (fun t => if t < p.1 then p.2 else interpFrom p rest t))

/-- the weighted empirical distribution function of the window,
`F(t) = Σ_{x_i ≤ t} w_i / Σ w_i` (specification side; not computed by the real code) -/
def cdfAt (db : Db α) (q : Query α) (t : α) : α :=
  (((window db q).filter (fun r => decide (r.x ≤ t))).map (·.w)).sum / ((window db q).map (·.w)).sum

end arith

/-! Executable sanity tests (run at build time). -/
section tests
private def r (p x w : Rat) : Row Rat := ⟨p, x, 0, w⟩
private def db0 : Db Rat := mk [r 3 10 1, r 1 30 2, r 2 20 1, r 2 5 4, r 5 7 1]
-- sorted: (1,30) (2,20) (2,5) (3,10) (5,7) ; x order: 5@2, 7@4, 10@3, 20@1, 30@0
#guard db0.rows.map (·.proj) == [1, 2, 2, 3, 5]
#guard db0.xinds == [2, 4, 3, 1, 0]
#guard db0.validB
#guard bounds db0 ⟨true, 2, 3⟩ == (1, 4)        -- upper bound inclusive
#guard bounds db0 ⟨true, 2, 2⟩ == (1, 3)
#guard bounds db0 ⟨true, 6, 9⟩ == (5, 5)
#guard bounds db0 ⟨false, 6, 9⟩ == (0, 5)
#guard boundsBin db0 ⟨true, 2, 3⟩ == (1, 4) && boundsBin db0 ⟨true, 2, 2⟩ == (1, 3)
#guard boundsBin db0 ⟨true, 6, 9⟩ == (5, 5) && boundsBin db0 ⟨true, 0, 1⟩ == (0, 1)
#guard xview db0 1 4 == [1, 2, 0]
#guard (xsWindow db0 ⟨true, 2, 3⟩).map (·.map (·.x)) == some [5, 10, 20]
#guard (match predict db0 ⟨true, 2, 3⟩ with | .val m _ => m == (20 + 20 + 10) / 6 | _ => false)
#guard (match predict db0 ⟨true, 6, 9⟩ with | .nan => true | _ => false)
#guard (match cdf db0 ⟨true, 2, 3⟩ with
  | .val xs cum => xs == [5, 10, 20] && cum == [4/6, 5/6, 1] | _ => false)
#guard (match cdf db0 ⟨true, 6, 9⟩ with | .nan xs => xs == [] | _ => false)
#guard interp [((1:Rat)/2, (5:Rat)), (1, 9)] (3/4) == some 7
#guard interp [((1:Rat)/2, (5:Rat)), (1, 9)] 0 == some 5
#guard interp [((1:Rat)/2, (5:Rat)), (1, 9)] 1 == some 9
#guard interp [((1:Rat)/2, (5:Rat)), (1/2, 6), (1, 9)] (1/2) == some 6
#guard (match predictQuantiles db0 ⟨true, 2, 3⟩ [0, 3/4, 1] with
  | .val qs => qs == [5, 15/2, 20] | _ => false)
#guard (match predictQuantiles db0 ⟨true, 2, 3⟩ [2] with | .valueError => true | _ => false)
#guard cdfAt db0 ⟨true, 2, 3⟩ 10 == 5/6
#guard !(Db.validB (⟨[r 2 1 1, r 1 2 1], [0, 1]⟩ : Db Rat))
#guard !(Db.validB (⟨[r 1 1 1, r 2 2 1], [0, 0]⟩ : Db Rat))
#guard !(Db.validB (⟨[r 1 3 1, r 2 2 1], [0, 1]⟩ : Db Rat))
#guard gather [1, 2, 3] [2, 0] == some [3, 1]
#guard gather [1, 2, 3] [3] == none
end tests

end Bmci
