/-
Model of `typhon/geographical.py :: to_kilometers, GeoIndex.__init__, GeoIndex.query`
and `typhon/utils/common.py :: split_units` (after the `fix:` commits be2111b, 32e5cb2, 0f512db,
8cd8847).  Core Lean only (no Mathlib) so that the driver links.

Python:

    UNITS_CONVERSION_FACTORS = [[{"cm","centimeter","centimeters"}, 1e-5], [{"m",..}, 1e-3],
        [{"km",..}, 1], [{"mi","mile","miles"}, 1.609344], [{"yd","yds","yard","yards"}, 0.9144e-3],
        [{"ft","foot","feet"}, 0.3048e-3]]

    def split_units(value):
        units = ""; number = 0
        while value:
            try: number = float(value); break
            except ValueError: units = value[-1:] + units; value = value[:-1]
        return number, units.strip()

    def to_kilometers(distance):
        if isinstance(distance, Number): return distance
        elif not isinstance(distance, str): raise ValueError
        length, unit = split_units(distance)
        if length == 0: raise ValueError
        if not unit: return length
        for units, factor in UNITS_CONVERSION_FACTORS:
            if unit in units: return length * factor
        raise ValueError

    GeoIndex.__init__(lat, lon, metric, tree_class, shuffle, **kw):
        points = self._to_metric(lat, lon)            # ValueError for an unknown metric
        if shuffle: self.shuffler = arange(n); np.random.shuffle(self.shuffler); points = points[self.shuffler]
        else:       self.shuffler = None
        self.tree = tree_class(points, **kw, metric=self.metric)

    GeoIndex.query(lat, lon, r, return_distance=True):
        points = self._to_metric(lat, lon)
        r = to_kilometers(r)
        if minkowski: r *= 1000.          elif haversine: r *= 1000. / earth_radius
        results = self.tree.query_radius(points, r, return_distance=return_distance)
        pairs = np.array([[b, q] for q, bs in enumerate(jagged_pairs) for b in bs]).T
        if not return_distance:
            if pairs.size and self.shuffler is not None: pairs[0, :] = self.shuffler[pairs[0, :]]
            return pairs
        if not pairs.size: return pairs, pairs
        distances = np.hstack(jagged_distances)
        if haversine: distances *= earth_radius
        distances /= 1000.
        if self.shuffler is None: return pairs, distances
        pairs[0, :] = self.shuffler[pairs[0, :]]
        return pairs, distances

What is a parameter of the model (never an axiom): the converted points `P`
(`_to_metric` output rows), the tree `T` (scikit-learn), the permutation drawn by
`np.random.shuffle`, the number type `α` of distances (`Float` in the driver, any
ordered field in the theorems).
-/

namespace Geo

inductive Err where
  | valueError    -- ValueError of to_kilometers / _to_metric
  | indexError    -- numpy IndexError (index out of bounds)
  | nonFinite     -- not an error in Python: the result is inf/nan (outside the property)
deriving DecidableEq, Repr

/-! ## `float(str)` on ASCII strings -/

/-- ASCII characters removed by `str.strip()`: \t \n \v \f \r, \x1c–\x1f and blank -/
def isWs (c : Char) : Bool :=
  let n := c.toNat
  (9 ≤ n && n ≤ 13) || (28 ≤ n && n ≤ 32)

/-- ASCII characters skipped by `float()` around the literal (`Py_ISSPACE`): \t \n \v
\f \r and blank — *not* \x1c–\x1f (observed: `float("\x1c5")` raises) -/
def isWsFloat (c : Char) : Bool :=
  let n := c.toNat
  (9 ≤ n && n ≤ 13) || n == 32

def stripBy (f : Char → Bool) (s : List Char) : List Char :=
  (((s.dropWhile f).reverse).dropWhile f).reverse
def strip (s : List Char) : List Char := stripBy isWs s

def digitVal? (c : Char) : Option Nat :=
  if '0' ≤ c ∧ c ≤ '9' then some (c.toNat - '0'.toNat) else none

/-- continuation of a digit part after a digit was read: more digits, or an underscore
that is followed by a digit -/
def moreDigits : List Char → List Nat × List Char
  | [] => ([], [])
  | c :: rest =>
    match digitVal? c with
    | some d => let r := moreDigits rest; (d :: r.1, r.2)
    | none =>
      if c == '_' && (match rest with
                      | c2 :: _ => (digitVal? c2).isSome
                      | [] => false) then moreDigits rest
      else ([], c :: rest)

/-- `digit (["_"] digit)*` read greedily; returns the digits (most significant first)
and the unread rest.  An underscore is consumed only between two digits. -/
def takeDigits : List Char → List Nat × List Char
  | [] => ([], [])
  | c :: rest =>
    match digitVal? c with
    | none => ([], c :: rest)
    | some d => let r := moreDigits rest; (d :: r.1, r.2)

def digitsToNat (ds : List Nat) : Nat := ds.foldl (fun acc d => 10 * acc + d) 0

/-- value of a parsed literal -/
inductive PF where
  | fin (q : Rat)
  | special          -- inf / infinity / nan (any case, optional sign)
deriving Repr

def takeSign : List Char → Bool × List Char
  | '-' :: r => (true, r)
  | '+' :: r => (false, r)
  | r => (false, r)

def lower (s : List Char) : List Char := s.map Char.toLower

/-- optional exponent `(e|E) [sign] digitpart`; `none` = malformed -/
def parseExp : List Char → Option Int
  | [] => some 0
  | c :: rest =>
    if c == 'e' || c == 'E' then
      let (neg, r) := takeSign rest
      let (ds, r2) := takeDigits r
      if ds.isEmpty || !r2.isEmpty then none
      else some (if neg then - (digitsToNat ds : Int) else (digitsToNat ds : Int))
    else none

def pow10 (e : Int) : Rat := (10 : Rat) ^ e

/-- `float(s)` for ASCII `s`: `some v` when Python accepts the string, `none` when it
raises ValueError.  The value is the exact decimal (Python rounds it to a double). -/
def parseFloat (s : List Char) : Option PF :=
  let t := stripBy isWsFloat s
  let (neg, u) := takeSign t
  let lu := lower u
  if lu == "inf".toList || lu == "infinity".toList || lu == "nan".toList then some .special
  else
    let (ip, r1) := takeDigits u
    let (fp, r2) :=
      match r1 with
      | '.' :: r => takeDigits r
      | r => ([], r)
    -- at least one digit in the mantissa; "5." and ".5" are fine, "." is not
    if ip.isEmpty && fp.isEmpty then none
    else
      match parseExp r2 with
      | none => none
      | some e =>
        let m : Rat := (digitsToNat (ip ++ fp) : Nat)
        let v := m * pow10 (e - fp.length)
        some (.fin (if neg then -v else v))

/-- `split_units`: the number is `float` of the longest non-empty prefix that parses,
the unit the stripped remainder; `(0, strip s)` when no prefix parses. `k` counts the
prefix length downwards exactly as the `while` loop shortens `value`. -/
def splitUnitsFrom (s : List Char) : Nat → PF × List Char
  | 0 => (.fin 0, strip s)
  | k + 1 =>
    match parseFloat (s.take (k + 1)) with
    | some v => (v, strip (s.drop (k + 1)))
    | none => splitUnitsFrom s k

def splitUnits (s : List Char) : PF × List Char := splitUnitsFrom s s.length

/-! ## `to_kilometers` -/

/-- `UNITS_CONVERSION_FACTORS` with the Python float literals read as exact decimals -/
def unitTable : List (List String × Rat) :=
  [ (["cm", "centimeter", "centimeters"], (1 : Rat) / 100000),
    (["m", "meter", "meters"], (1 : Rat) / 1000),
    (["km", "kilometer", "kilometers"], 1),
    (["mi", "mile", "miles"], (1609344 : Rat) / 1000000),
    (["yd", "yds", "yard", "yards"], (9144 : Rat) / 10000000),
    (["ft", "foot", "feet"], (3048 : Rat) / 10000000) ]

def lookupUnit (unit : String) : List (List String × Rat) → Option Rat
  | [] => none
  | (names, f) :: rest => if names.contains unit then some f else lookupUnit unit rest

/-- the argument `distance` of `to_kilometers` -/
inductive Dist where
  | num (x : Rat)        -- isinstance(distance, Number)
  | str (s : String)
  | other                -- anything else: ValueError
deriving Repr

def toKilometersStr (s : String) : Except Err Rat :=
  let (len, unit) := splitUnits s.toList
  let u := String.ofList unit
  match len with
  | .fin l =>
    if l == 0 then .error .valueError
    else if unit.isEmpty then .ok l
    else match lookupUnit u unitTable with
      | some f => .ok (l * f)
      | none => .error .valueError
  | .special =>
    if unit.isEmpty then .error .nonFinite
    else match lookupUnit u unitTable with
      | some _ => .error .nonFinite
      | none => .error .valueError

def toKilometers : Dist → Except Err Rat
  | .num x => .ok x
  | .str s => toKilometersStr s
  | .other => .error .valueError

/-! ## GeoIndex -/

inductive Metric where
  | minkowski | haversine | unknown
deriving DecidableEq, Repr

/-- `typhon.constants.earth_radius = 6.3781e6` (metres; a whole number) -/
def earthRadius : Nat := 6378100

section Num
variable {α : Type} [NatCast α] [Mul α] [Div α]

/-- radius handed to the tree: metres for the chord metric, radians for haversine -/
def scaleRadius (m : Metric) (r : α) : α :=
  match m with
  | .minkowski => r * ((1000 : Nat) : α)
  | .haversine => r * (((1000 : Nat) : α) / ((earthRadius : Nat) : α))
  | .unknown => r

/-- tree distance → kilometres (`distances *= earth_radius` only for haversine; `/= 1000.`) -/
def scaleDist (m : Metric) (d : α) : α :=
  match m with
  | .minkowski => d / ((1000 : Nat) : α)
  | .haversine => d * ((earthRadius : Nat) : α) / ((1000 : Nat) : α)
  | .unknown => d / ((1000 : Nat) : α)
end Num

/-- the part of a GeoIndex object the query uses -/
structure Index (P : Type) where
  metric : Metric
  shuffler : Option (List Nat)
  treePoints : List P          -- the rows the tree was built from (`points[self.shuffler]`)
  origPoints : List P          -- `self.lat, self.lon` (what the Collocator's cache test compares)

/-- `GeoIndex.__init__`.  `shuffle = some σ` is the state of `self.shuffler` after
`np.random.shuffle` (any list; the theorems quantify over all permutations of `range n`);
`points[σ]` raises IndexError when an entry is out of range. -/
def Index.build {P : Type} (metric : Metric) (pts : List P) (shuffle : Option (List Nat)) :
    Except Err (Index P) :=
  if metric == .unknown then .error .valueError else
  match shuffle with
  | none => .ok ⟨metric, none, pts, pts⟩
  | some σ =>
    if σ.all (· < pts.length) then .ok ⟨metric, some σ, σ.filterMap (pts[·]?), pts⟩
    else .error .indexError

/-- the nested comprehension `[[b, q] for q, bs in enumerate(jagged) for b in bs]` -/
def pairsOf (jagged : List (List Nat)) : List (Nat × Nat) :=
  jagged.zipIdx.flatMap (fun bq => bq.1.map (fun b => (b, bq.2)))

/-- `pairs[0, :] = shuffler[pairs[0, :]]` -/
def translate (σ : List Nat) (pairs : List (Nat × Nat)) : Except Err (List (Nat × Nat)) :=
  if pairs.all (fun p => p.1 < σ.length) then .ok (pairs.map (fun p => (σ.getD p.1 0, p.2)))
  else .error .indexError

/-- answer of `tree.query_radius(points, r, return_distance=True)`: per query point the
positions (in the tree's own numbering) and the tree distances -/
abbrev TreeFn (P α : Type) := List P → List P → α → List (List Nat) × List (List α)

/-- `GeoIndex.query(..., return_distance=True)` with `r` already in kilometres -/
def query {P α : Type} [NatCast α] [Mul α] [Div α] (T : TreeFn P α) (ix : Index P)
    (qs : List P) (r : α) : Except Err (List (Nat × Nat) × List α) :=
  let rt := scaleRadius ix.metric r
  let res := T ix.treePoints qs rt
  let pairs := pairsOf res.1
  if pairs.isEmpty then .ok ([], [])            -- `return pairs, pairs` (both empty)
  else
    let ds := res.2.flatten.map (scaleDist ix.metric)
    match ix.shuffler with
    | none => .ok (pairs, ds)
    | some σ => (translate σ pairs).map (fun p => (p, ds))

/-- `GeoIndex.query(..., return_distance=False)` -/
def queryNoDist {P α : Type} [NatCast α] [Mul α] [Div α] (T : TreeFn P α) (ix : Index P)
    (qs : List P) (r : α) : Except Err (List (Nat × Nat)) :=
  let rt := scaleRadius ix.metric r
  let pairs := pairsOf (T ix.treePoints qs rt).1
  match ix.shuffler with
  | none => .ok pairs
  | some σ => if pairs.isEmpty then .ok pairs else translate σ pairs

/-- `query` with the radius as the user writes it (`to_kilometers` first); `cast` embeds
the exact rational into the number type -/
def queryArg {P α : Type} [NatCast α] [Mul α] [Div α] (cast : Rat → α) (T : TreeFn P α)
    (ix : Index P) (qs : List P) (r : Dist) : Except Err (List (Nat × Nat) × List α) :=
  match toKilometers r with
  | .error e => .error e
  | .ok km => query T ix qs (cast km)

end Geo
