import Model.GeoIndex
/-
Model of `typhon/collocations/collocator.py :: Collocator.collocate` and its helpers
(`_prepare_data`, `_get_common_time_period`, `_flat_to_main_coord`, `_get_not_nans`,
`_to_original`, `spatial_search`, `_build_spatial_index`, `_spatial_is_cached`,
`_choose_points_to_build_index`, `spatial_search_with_temporal_binning`, `_bin_pairs`,
`_spatial_search_bin`, `_temporal_check`, `_get_intervals`, `_create_return`) after the
`fix:` commits 8557ac8 (`.size` instead of `.any()`), 894c28f (`np.array_equal` cache
test), cef9727 (untruncated |Δt| in the comparison), 3e8ea1e (window bounds keep ns) and
0287e21 (None when one side has no valid point), d3a4109 (gridded result), 3262c37 (None for
an empty dataset).  Core Lean only.

`collocate` models the call with both criteria (`max_interval` and `max_distance`),
`collocateSpatial` the call with `max_interval=None`; times are integers (ns);
`Pos` is an opaque position with decidable equality (= equality of the lat/lon doubles);
a point with NaN latitude or longitude has `pos = none`.

    collocate(primary, secondary, max_interval, max_distance, bin_factor, magnitude_factor, start, end, leaf_size):
        primary, secondary = _prepare_data(...)          # common window, sort by time, flatten
        if primary is None: return None
        not_nans1/2; lat1, lon1, time1, ... = values[not_nans]; original_indices = arange[not_nans]
        if not time1.size or not time2.size: return None
        if time1.size * time2.size > 100_0000: pairs, distances = spatial_search_with_temporal_binning(...)
        else:                                  pairs, distances = spatial_search(lat1, lon1, lat2, lon2, max_distance)
        if not pairs.size: return None
        passed, intervals = _temporal_check(time1[pairs[0]], time2[pairs[1]], max_interval)
        return _create_return(..., _to_original(pairs[:, passed], original_indices), intervals, distances[passed], ...)

What is a parameter of the model: the tree `T` (scikit-learn), the permutation drawn at
each GeoIndex construction (`shuf k pts`, `k` = number of earlier constructions), the
cut of the time-sorted primaries into labelled bins (pandas `Grouper`), the number type.
-/

namespace Colloc
open Geo

/-- one cell of a scan line (linear data: one cell per line) -/
structure Cell (Pos : Type) where
  pos : Option Pos        -- none = NaN latitude or longitude
  id : Nat                -- carried variable identifying the original data point

/-- one entry of the shared (uniquely labelled) dimension -/
structure Line (Pos : Type) where
  label : Nat             -- its coordinate
  time : Int              -- ns
  cells : List (Cell Pos)

/-- a point of the flattened dataset -/
structure Pt (Pos : Type) where
  time : Int
  pos : Option Pos
  id : Nat
  line : Nat              -- label of its scan line
  cell : Nat              -- scan position

/-- a point without NaN -/
structure NPt (Pos : Type) where
  pos : Pos
  time : Int

/-! ## `_get_common_time_period`, `_prepare_data`, `_flat_to_main_coord` -/

def minList : List Int → Option Int
  | [] => none
  | x :: xs => some (xs.foldl min x)

def maxList : List Int → Option Int
  | [] => none
  | x :: xs => some (xs.foldl max x)

def optMax (a : Option Int) (b : Int) : Int := match a with | none => b | some a => max a b
def optMin (a : Option Int) (b : Int) : Int := match a with | none => b | some a => min a b

/-- bounds `[common_start, common_end]` at full (ns) resolution (fix 3e8ea1e); `start`/`end` = `none`
is the default (`datetime.min`/`max`).  `none` when a dataset is empty (numpy raises). -/
def commonWindow {Pos : Type} (p s : List (Line Pos)) (mi : Int) (start stop : Option Int) :
    Option (Int × Int) :=
  match minList (p.map (·.time)), minList (s.map (·.time)), maxList (p.map (·.time)),
        maxList (s.map (·.time)) with
  | some pmin, some smin, some pmax, some smax =>
    some (optMax start (max (pmin - mi) (smin - mi)),
          optMin stop (min (pmax + mi) (smax + mi)))
  | _, _, _, _ => none

def inWindow (lo hi t : Int) : Bool := decide (lo ≤ t) && decide (t ≤ hi)

/-- `time.where(in window).dropna()`, `sortby` (stable), `sel` by the unique labels -/
def selectLines {Pos : Type} (d : List (Line Pos)) (lo hi : Int) : List (Line Pos) :=
  (d.filter (fun l => inWindow lo hi l.time)).mergeSort (fun a b => decide (a.time ≤ b.time))

/-- `_flat_to_main_coord`: row-major stacking of (line, scan position); the time of a
line is broadcast to its cells -/
def flatten {Pos : Type} (d : List (Line Pos)) : List (Pt Pos) :=
  d.flatMap (fun l => l.cells.zipIdx.map (fun cj => ⟨l.time, cj.1.pos, cj.1.id, l.label, cj.2⟩))

/-- `_prepare_data`: `ok none` = an empty input dataset (fix 3262c37) or nothing left in the
window (the `Except` is kept for uniformity; this step no longer raises) -/
def prepare {Pos : Type} (p s : List (Line Pos)) (mi : Int) (start stop : Option Int) :
    Except Err (Option (List (Pt Pos) × List (Pt Pos))) :=
  match commonWindow p s mi start stop with
  | none => .ok none
  | some (lo, hi) =>
    let p' := selectLines p lo hi
    let s' := selectLines s lo hi
    if p'.isEmpty || s'.isEmpty then .ok none else .ok (some (flatten p', flatten s'))

/-! ## NaN filter -/

/-- `np.arange(n)[not_nans]` -/
def notNanIdx {Pos : Type} (pts : List (Pt Pos)) : List Nat :=
  (pts.zipIdx.filter (fun pi => pi.1.pos.isSome)).map (·.2)

/-- `lat.values[not_nans], lon.values[not_nans], time.values[not_nans]` -/
def dropNan {Pos : Type} (pts : List (Pt Pos)) : List (NPt Pos) :=
  pts.filterMap (fun p => p.pos.map (fun x => ⟨x, p.time⟩))

/-! ## spatial search with the cached index -/

/-- `Collocator.index`, `Collocator.index_with_primary`, and the number of GeoIndex
objects constructed so far (selects the permutation the next one draws) -/
structure SState (Pos : Type) where
  index : Option (Index Pos) := none
  iwp : Bool := false
  built : Nat := 0

section Search
variable {Pos α : Type} [BEq Pos] [NatCast α] [Mul α] [Div α]

/-- `_spatial_is_cached`: `np.array_equal` of the coordinates -/
def isCached (st : SState Pos) (pts : List Pos) : Bool :=
  match st.index with
  | none => false
  | some ix => ix.origPoints == pts

/-- `_choose_points_to_build_index` -/
def chooseBuild (st : SState Pos) (mf : Nat) (p1 p2 : List Pos) : Bool :=
  if p1.length > p2.length * mf then true
  else if p2.length > p1.length * mf then false
  else if st.iwp && isCached st p1 then true
  else if !st.iwp && isCached st p2 then false
  else decide (p1.length > p2.length)

def swapRows (l : List (Nat × Nat)) : List (Nat × Nat) := l.map (fun p => (p.2, p.1))

/-- `_build_spatial_index` followed by the assignment `self.index = …`: the cached
object when the coordinates are equal, else a new GeoIndex (which draws the next
permutation); an empty array is scikit-learn's ValueError -/
def buildIndex (shuf : Nat → List Pos → List Nat) (st : SState Pos) (bp : List Pos) :
    Except Err (SState Pos × Index Pos) :=
  match (if isCached st bp then st.index else none) with
  | some ix => .ok (st, ix)
  | none =>
    if bp.isEmpty then .error .valueError
    else match Index.build .minkowski bp (some (shuf st.built bp)) with
      | .error e => .error e
      | .ok ix => .ok ({ st with index := some ix, built := st.built + 1 }, ix)

/-- `spatial_search`.  The object state is updated even when the call raises (returned
in the first component).  An empty build or query array is scikit-learn's ValueError. -/
def spatialSearch (T : TreeFn Pos α) (shuf : Nat → List Pos → List Nat) (mf : Nat)
    (st : SState Pos) (p1 p2 : List Pos) (r : α) :
    SState Pos × Except Err (List (Nat × Nat) × List α) :=
  let iwp := chooseBuild st mf p1 p2
  let st1 := { st with iwp := iwp }
  let bp := if iwp then p1 else p2
  let qp := if iwp then p2 else p1
  match buildIndex shuf st1 bp with
  | .error e => (st1, .error e)
  | .ok (st2, ix) =>
    if qp.isEmpty then (st2, .error .valueError)
    else match query T ix qp r with
      | .error e => (st2, .error e)
      | .ok (pairs, ds) =>
        if pairs.isEmpty then (st2, .ok ([], []))
        else (st2, .ok (if iwp then pairs else swapRows pairs, ds))

/-! ## temporal binning -/

/-- `index.searchsorted(x)` (side left) on a sorted index: first position with `t ≥ x` -/
def searchsortedLeft (ts : List Int) (x : Int) : Nat := (ts.takeWhile (· < x)).length

/-- `secondary.loc[lo:hi]` on a sorted index, given `offset = searchsorted(lo)`: the
contiguous block starting there with `t ≤ hi` -/
def locSlice (s : List (NPt Pos)) (offset : Nat) (hi : Int) : List (NPt Pos) :=
  (s.drop offset).takeWhile (fun x => decide (x.time ≤ hi))

def shiftPairs (o1 o2 : Nat) (l : List (Nat × Nat)) : List (Nat × Nat) :=
  l.map (fun p => (p.1 + o1, p.2 + o2))

/-- one group: `_bin_pairs` + `_spatial_search_bin`.  `pos` is the row at which the group
starts (content of `chunk1`), while `offset1` is recomputed from the label by
`searchsorted` exactly as `_bin_pairs` does. -/
def binStep (T : TreeFn Pos α) (shuf : Nat → List Pos → List Nat) (mf : Nat) (mi : Int) (r : α)
    (P S : List (NPt Pos)) (label : Int) (len pos : Nat) (st : SState Pos) :
    SState Pos × Except Err (List (Nat × Nat) × List α) :=
  let chunk1 := (P.drop pos).take len
  let offset1 := searchsortedLeft (P.map (·.time)) label
  let offset2 := searchsortedLeft (S.map (·.time)) (label - mi)
  match maxList (chunk1.map (·.time)) with
  | none => (st, .ok ([], []))                       -- data1.empty
  | some tmax =>
    let chunk2 := locSlice S offset2 (tmax + mi)
    if chunk2.isEmpty then (st, .ok ([], []))        -- data2.empty
    else
      match spatialSearch T shuf mf st (chunk1.map (·.pos)) (chunk2.map (·.pos)) r with
      | (st', .error e) => (st', .error e)
      | (st', .ok (pairs, ds)) => (st', .ok (shiftPairs offset1 offset2 pairs, ds))

/-- the loop over the groups of `primary.groupby(pd.Grouper(freq=bin_duration))`:
`cut` lists `(label, number of rows)` of the consecutive groups -/
def binLoop (T : TreeFn Pos α) (shuf : Nat → List Pos → List Nat) (mf : Nat) (mi : Int) (r : α)
    (P S : List (NPt Pos)) :
    List (Int × Nat) → Nat → SState Pos → SState Pos × Except Err (List (Nat × Nat) × List α)
  | [], _, st => (st, .ok ([], []))
  | (label, len) :: rest, pos, st =>
    match binStep T shuf mf mi r P S label len pos st with
    | (st', .error e) => (st', .error e)
    | (st', .ok (pairs, ds)) =>
      match binLoop T shuf mf mi r P S rest (pos + len) st' with
      | (st'', .error e) => (st'', .error e)
      | (st'', .ok (pairs', ds')) => (st'', .ok (pairs ++ pairs', ds ++ ds'))

/-- `spatial_search_with_temporal_binning`: the larger dataset is binned -/
def binnedSearch (T : TreeFn Pos α) (shuf : Nat → List Pos → List Nat) (mf : Nat) (mi : Int)
    (r : α) (st : SState Pos) (prim sec : List (NPt Pos)) (cut : List (Int × Nat)) :
    SState Pos × Except Err (List (Nat × Nat) × List α) :=
  let swapped := decide (sec.length > prim.length)
  let P := if swapped then sec else prim
  let S := if swapped then prim else sec
  match binLoop T shuf mf mi r P S cut 0 st with
  | (st', .error e) => (st', .error e)
  | (st', .ok (pairs, ds)) =>
    if pairs.isEmpty then (st', .ok ([], []))
    else (st', .ok (if swapped then swapRows pairs else pairs, ds))

end Search

/-! ## temporal check, compaction -/

/-- `_temporal_check` on the candidates: keeps `(pair, ⌊|Δt|⌋ in whole seconds, distance)`
of those with `|Δt| < max_interval` (compared at full resolution); an index outside the
arrays is numpy's IndexError -/
def temporalCheck {Pos α : Type} (A B : List (NPt Pos)) (mi : Int) (pairs : List (Nat × Nat))
    (ds : List α) : Except Err (List ((Nat × Nat) × Int × α)) :=
  if pairs.all (fun p => p.1 < A.length && p.2 < B.length) then
    .ok ((pairs.zip ds).filterMap (fun pd =>
      match A[pd.1.1]?, B[pd.1.2]? with
      | some a, some b =>
        let dt := (a.time - b.time).natAbs
        if (dt : Int) < mi then some (pd.1, (dt / 1000000000 : Nat), pd.2) else none
      | _, _ => none))
  else .error .indexError

/-- `pd.unique`: distinct values in order of first occurrence -/
def uniqueFirstAux (seen : List Nat) : List Nat → List Nat
  | [] => []
  | x :: xs => if seen.contains x then uniqueFirstAux seen xs else x :: uniqueFirstAux (x :: seen) xs

def uniqueFirst (xs : List Nat) : List Nat := uniqueFirstAux [] xs

/-- what `collocate` returns (the compact dataset) -/
structure Result (Pos α : Type) where
  primary : List (Pt Pos)            -- `<primary>/…` variables
  secondary : List (Pt Pos)
  pairs : List (Nat × Nat)           -- `Collocations/pairs` (columns)
  intervals : List Int               -- `Collocations/interval` in whole seconds
  distances : List α                 -- `Collocations/distance` in km

/-- `_create_return` after `_to_original`: `orig` are pairs of indices into the selected,
flattened datasets `p`, `s` -/
def createReturn {Pos α : Type} (p s : List (Pt Pos)) (orig : List (Nat × Nat)) (ivs : List Int)
    (ds : List α) : Except Err (Option (Result Pos α)) :=
  if orig.isEmpty then .ok none
  else if orig.all (fun o => o.1 < p.length && o.2 < s.length) then
    let u1 := uniqueFirst (orig.map (·.1))
    let u2 := uniqueFirst (orig.map (·.2))
    .ok (some { primary := u1.filterMap (p[·]?), secondary := u2.filterMap (s[·]?),
                pairs := orig.map (fun o => (u1.idxOf o.1, u2.idxOf o.2)),
                intervals := ivs, distances := ds })
  else .error .indexError

/-- `_to_original` -/
def toOriginal (nn1 nn2 : List Nat) (pairs : List (Nat × Nat)) : Except Err (List (Nat × Nat)) :=
  if pairs.all (fun p => p.1 < nn1.length && p.2 < nn2.length) then
    .ok (pairs.map (fun p => (nn1.getD p.1 0, nn2.getD p.2 0)))
  else .error .indexError

/-! ## `collocate` -/

/-- tuning parameters: `magnitude_factor`, the candidate-pair threshold above which the
temporal pre-binning is used (100_0000 in the code), and the cut produced by
`pd.Grouper(freq=bin_factor*max_interval)` for the data at hand (used only then) -/
structure Tuning where
  mf : Nat := 10
  thr : Nat := 1000000
  cut : List (Int × Nat) := []

section Collocate
variable {Pos α : Type} [BEq Pos] [NatCast α] [Mul α] [Div α]

/-- `Collocator.collocate(primary, secondary, max_interval=mi, max_distance=r, …)` on a
Collocator in state `st`.  Returns the new object state and the outcome:
`error` = exception, `ok none` = `None`, `ok (some res)` = compact dataset. -/
def collocate (T : TreeFn Pos α) (shuf : Nat → List Pos → List Nat) (tn : Tuning)
    (st : SState Pos) (p s : List (Line Pos)) (mi : Int) (r : α) (start stop : Option Int) :
    SState Pos × Except Err (Option (Result Pos α)) :=
  match prepare p s mi start stop with
  | .error e => (st, .error e)
  | .ok none => (st, .ok none)
  | .ok (some (fp, fs)) =>
    let A := dropNan fp
    let B := dropNan fs
    let nn1 := notNanIdx fp
    let nn2 := notNanIdx fs
    if A.isEmpty || B.isEmpty then (st, .ok none) else     -- no valid point left on one side
    let found :=
      if A.length * B.length > tn.thr then binnedSearch T shuf tn.mf mi r st A B tn.cut
      else spatialSearch T shuf tn.mf st (A.map (·.pos)) (B.map (·.pos)) r
    match found with
    | (st', .error e) => (st', .error e)
    | (st', .ok (pairs, ds)) =>
      if pairs.isEmpty then (st', .ok none)
      else
        match temporalCheck A B mi pairs ds with
        | .error e => (st', .error e)
        | .ok kept =>
          match toOriginal nn1 nn2 (kept.map (·.1)) with
          | .error e => (st', .error e)
          | .ok orig => (st', createReturn fp fs orig (kept.map (·.2.1)) (kept.map (·.2.2)))

/-- `_get_intervals(time1[pairs[0]], time2[pairs[1]])` for the spatial-only search -/
def intervalsOf {Pos : Type} (A B : List (NPt Pos)) (pairs : List (Nat × Nat)) : Except Err (List Int) :=
  if pairs.all (fun p => p.1 < A.length && p.2 < B.length) then
    .ok (pairs.filterMap (fun p =>
      match A[p.1]?, B[p.2]? with
      | some a, some b => some (((a.time - b.time).natAbs / 1000000000 : Nat) : Int)
      | _, _ => none))
  else .error .indexError

/-- `Collocator.collocate(primary, secondary, max_distance=r)` with `max_interval=None`:
spatial search only — no time window, no sorting (`start`/`end` are not used), always
the direct search; every spatial pair is reported with its `⌊|Δt|⌋` seconds. -/
def collocateSpatial (T : TreeFn Pos α) (shuf : Nat → List Pos → List Nat) (tn : Tuning)
    (st : SState Pos) (p s : List (Line Pos)) (r : α) :
    SState Pos × Except Err (Option (Result Pos α)) :=
  if p.isEmpty || s.isEmpty then (st, .ok none) else
  let fp := flatten p
  let fs := flatten s
  let A := dropNan fp
  let B := dropNan fs
  if A.isEmpty || B.isEmpty then (st, .ok none) else
  match spatialSearch T shuf tn.mf st (A.map (·.pos)) (B.map (·.pos)) r with
  | (st', .error e) => (st', .error e)
  | (st', .ok (pairs, ds)) =>
    match intervalsOf A B pairs with
    | .error e => (st', .error e)
    | .ok ivs =>
      match toOriginal (notNanIdx fp) (notNanIdx fs) pairs with
      | .error e => (st', .error e)
      | .ok orig => (st', createReturn fp fs orig ivs ds)

/-- the collocations of a result, identified by the carried ids, with stored interval
and distance -/
def Result.idPairs (res : Result Pos α) : List ((Nat × Nat) × Int × α) :=
  ((res.pairs.zip res.intervals).zip res.distances).filterMap (fun x =>
    match res.primary[x.1.1.1]?, res.secondary[x.1.1.2]? with
    | some a, some b => some ((a.id, b.id), x.1.2, x.2)
    | _, _ => none)

/-- a sequence of calls on one Collocator object (exceptions do not stop the history) -/
def runHistory (T : TreeFn Pos α) (shuf : Nat → List Pos → List Nat) (st : SState Pos) :
    List (Tuning × List (Line Pos) × List (Line Pos) × Int × α × Option Int × Option Int) →
    SState Pos
  | [] => st
  | (tn, p, s, mi, r, a, b) :: rest =>
    runHistory T shuf (collocate T shuf tn st p s mi r a b).1 rest

end Collocate

/-! ## grid index arithmetic -/

/-- flat (row-major) index of scan line `l`, scan position `c` in a grid with `npos`
positions per line, and back -/
def flatIndex (npos l c : Nat) : Nat := l * npos + c
def unflatIndex (npos k : Nat) : Nat × Nat := (k / npos, k % npos)

end Colloc
