import Proofs.Lemmas.Collocate

set_option linter.unusedSectionVars false

/-!
Temporal pre-binning (`spatial_search_with_temporal_binning`): for every cut of the
primaries into consecutive labelled runs the union of the per-bin searches, shifted by
the offsets, contains every pair with `|Δt| < max_interval` and contains each pair once.
-/

namespace Colloc
open Geo

/-! ### takeWhile / searchsorted -/

theorem takeWhile_index {β : Type} (p : β → Bool) (l : List β) :
    (∀ i x, i < (l.takeWhile p).length → l[i]? = some x → p x = true) ∧
    (∀ x, l[(l.takeWhile p).length]? = some x → p x = false) ∧
    (l.takeWhile p).length ≤ l.length ∧
    (∀ i, i < (l.takeWhile p).length → (l.takeWhile p)[i]? = l[i]?) := by
  induction l with
  | nil => simp
  | cons a rest ih =>
    obtain ⟨ih1, ih2, ih3, ih4⟩ := ih
    by_cases ha : p a = true
    · simp only [List.takeWhile_cons, ha, if_true, List.length_cons]
      refine ⟨?_, ?_, by omega, ?_⟩
      · intro i x hi hx
        cases i with
        | zero => simp at hx; subst hx; exact ha
        | succ i => exact ih1 i x (by omega) (by simpa using hx)
      · intro x hx
        exact ih2 x (by simpa using hx)
      · intro i hi
        cases i with
        | zero => simp
        | succ i => simpa using ih4 i (by omega)
    · have ha' : p a = false := by simpa using ha
      simp only [List.takeWhile_cons, ha', Bool.false_eq_true, if_false, List.length_nil]
      refine ⟨by intro i x hi; omega, ?_, by omega, by intro i hi; omega⟩
      intro x hx
      simp at hx; subst hx; exact ha'

theorem sorted_getElem?_le (l : List Int) (h : l.Pairwise (· ≤ ·)) (i j : Nat) (hij : i ≤ j)
    (x y : Int) (hx : l[i]? = some x) (hy : l[j]? = some y) : x ≤ y := by
  rcases Nat.eq_or_lt_of_le hij with rfl | hlt
  · rw [hx] at hy; cases hy; exact le_refl _
  · obtain ⟨h1, rfl⟩ := List.getElem?_eq_some_iff.mp hx
    obtain ⟨h2, rfl⟩ := List.getElem?_eq_some_iff.mp hy
    exact (List.pairwise_iff_getElem.mp h) i j h1 h2 hlt

theorem searchsortedLeft_lt (ts : List Int) (x : Int) (b : Nat) (t : Int)
    (hb : b < searchsortedLeft ts x) (ht : ts[b]? = some t) : t < x := by
  have := (takeWhile_index (fun t => decide (t < x)) ts).1 b t hb ht
  simpa using this

theorem searchsortedLeft_ge (ts : List Int) (hs : ts.Pairwise (· ≤ ·)) (x : Int) (b : Nat) (t : Int)
    (hb : searchsortedLeft ts x ≤ b) (ht : ts[b]? = some t) : x ≤ t := by
  obtain ⟨_, h2, h3, _⟩ := takeWhile_index (fun t => decide (t < x)) ts
  have hblt : b < ts.length := (List.getElem?_eq_some_iff.mp ht).1
  have hk : searchsortedLeft ts x < ts.length := lt_of_le_of_lt hb hblt
  have := h2 (ts[searchsortedLeft ts x]) (by
    unfold searchsortedLeft at hk ⊢
    exact List.getElem?_eq_getElem hk)
  have h0 : x ≤ ts[searchsortedLeft ts x] := by simpa using this
  exact le_trans h0 (sorted_getElem?_le ts hs _ b hb _ t (List.getElem?_eq_getElem hk) ht)

theorem searchsortedLeft_le_length (ts : List Int) (x : Int) : searchsortedLeft ts x ≤ ts.length :=
  (takeWhile_index (fun t => decide (t < x)) ts).2.2.1

/-- the offset computed from the label is the row at which the run starts -/
theorem searchsortedLeft_eq (ts : List Int) (x : Int) (pos : Nat)
    (h1 : ∀ a t, a < pos → ts[a]? = some t → t < x)
    (h2 : ∀ a t, pos ≤ a → ts[a]? = some t → x ≤ t) (hp : pos ≤ ts.length) :
    searchsortedLeft ts x = pos := by
  obtain ⟨g1, g2, g3, _⟩ := takeWhile_index (fun t => decide (t < x)) ts
  rcases Nat.lt_trichotomy (searchsortedLeft ts x) pos with hlt | heq | hgt
  · exfalso
    have hk : searchsortedLeft ts x < ts.length := by omega
    have := g2 (ts[searchsortedLeft ts x]) (List.getElem?_eq_getElem hk)
    have h0 : x ≤ ts[searchsortedLeft ts x] := by simpa using this
    have := h1 _ _ hlt (List.getElem?_eq_getElem hk)
    omega
  · exact heq
  · exfalso
    have hk : pos < ts.length := by
      have := searchsortedLeft_le_length ts x; omega
    have := searchsortedLeft_lt ts x pos _ hgt (List.getElem?_eq_getElem hk)
    have := h2 pos _ (le_refl _) (List.getElem?_eq_getElem hk)
    omega

theorem maxList_ge (l : List Int) (m : Int) (h : maxList l = some m) : ∀ x ∈ l, x ≤ m := by
  cases l with
  | nil => simp [maxList] at h
  | cons a rest =>
    simp only [maxList, Option.some.injEq] at h
    subst h
    have key : ∀ (l : List Int) (acc : Int), acc ≤ l.foldl max acc ∧ ∀ x ∈ l, x ≤ l.foldl max acc := by
      intro l
      induction l with
      | nil => intro acc; simp
      | cons b l ih =>
        intro acc
        obtain ⟨h1, h2⟩ := ih (max acc b)
        simp only [List.foldl_cons]
        refine ⟨le_trans (le_max_left _ _) h1, ?_⟩
        intro x hx
        rcases List.mem_cons.mp hx with rfl | hx
        · exact le_trans (le_max_right _ _) h1
        · exact h2 x hx
    intro x hx
    rcases List.mem_cons.mp hx with rfl | hx
    · exact (key rest x).1
    · exact (key rest a).2 x hx

theorem maxList_none (l : List Int) (h : maxList l = none) : l = [] := by
  cases l <;> simp_all [maxList]

section Slice
variable {Pos : Type}

/-- rows of `secondary.loc[lo:hi]` computed from the offset: row `j` of the slice is row
`offset + j` of the data, and (for time-sorted data) a row at or after the offset belongs
to the slice iff its time is `≤ hi` -/
theorem locSlice_getElem? (S : List (NPt Pos)) (o : Nat) (hi : Int) (j : Nat)
    (hj : j < (locSlice S o hi).length) : (locSlice S o hi)[j]? = S[o + j]? := by
  unfold locSlice at hj ⊢
  rw [(takeWhile_index _ _).2.2.2 j hj, List.getElem?_drop]

theorem locSlice_mem_iff (S : List (NPt Pos)) (hs : (S.map (·.time)).Pairwise (· ≤ ·)) (o : Nat)
    (hi : Int) (b : Nat) (y : NPt Pos) (hb : o ≤ b) (hy : S[b]? = some y) :
    b < o + (locSlice S o hi).length ↔ y.time ≤ hi := by
  obtain ⟨g1, g2, g3, _⟩ := takeWhile_index (fun x : NPt Pos => decide (x.time ≤ hi)) (S.drop o)
  constructor
  · intro hlt
    have := g1 (b - o) y (by unfold locSlice at hlt; omega) (by
      rw [List.getElem?_drop]; rw [show o + (b - o) = b by omega]; exact hy)
    simpa using this
  · intro hle
    by_contra hnot
    have hge : o + (locSlice S o hi).length ≤ b := by omega
    have hblt : b < S.length := (List.getElem?_eq_some_iff.mp hy).1
    have hk : o + (locSlice S o hi).length < S.length := by omega
    have hz := g2 (S[o + (locSlice S o hi).length]) (by
      unfold locSlice
      rw [List.getElem?_drop]
      unfold locSlice at hk
      exact List.getElem?_eq_getElem hk)
    have hz' : hi < (S[o + (locSlice S o hi).length]).time := by simpa using hz
    have hmono := sorted_getElem?_le (S.map (·.time)) hs _ b hge
      (S[o + (locSlice S o hi).length]).time y.time
      (by simp [List.getElem?_map, List.getElem?_eq_getElem hk]) (by simp [List.getElem?_map, hy])
    omega

end Slice

/-! ### one bin, all bins -/

section Bin
variable {Pos α : Type} [DecidableEq Pos] [Field α] [LinearOrder α] [IsStrictOrderedRing α]

/-- "within max_distance" -/
def near (dist : Pos → Pos → α) (r : α) (a b : Pos) : Prop := distKm .minkowski dist a b ≤ r

/-- "time difference smaller than max_interval" -/
def closeT (mi : Int) (t1 t2 : Int) : Prop := t1 - t2 < mi ∧ t2 - t1 < mi

/-- what the candidate pairs found for the primaries in rows `lo ≤ a < hi` must satisfy -/
structure BinSpec (dist : Pos → Pos → α) (r : α) (mi : Int) (P S : List (NPt Pos)) (lo hi : Nat)
    (pairs : List (Nat × Nat)) (ds : List α) : Prop where
  sound : ∀ a b, (a, b) ∈ pairs → lo ≤ a ∧ a < hi ∧
    ∃ x y, P[a]? = some x ∧ S[b]? = some y ∧ near dist r x.pos y.pos
  complete : ∀ a b x y, lo ≤ a → a < hi → P[a]? = some x → S[b]? = some y →
    near dist r x.pos y.pos → closeT mi x.time y.time → (a, b) ∈ pairs
  nodup : pairs.Nodup
  dists : List.Forall₂ (fun pr d => ∃ x y, P[pr.1]? = some x ∧ S[pr.2]? = some y ∧
    d = distKm .minkowski dist x.pos y.pos) pairs ds

theorem chunk1_get (P : List (NPt Pos)) (pos len i : Nat) :
    ((P.drop pos).take len)[i]? = if i < len then P[pos + i]? else none := by
  simp [List.getElem?_take, List.getElem?_drop]

theorem binSpec_empty (dist : Pos → Pos → α) (r : α) (mi : Int) (P S : List (NPt Pos)) (lo hi : Nat)
    (h : ∀ (a b : Nat) (x y : NPt Pos), lo ≤ a → a < hi → P[a]? = some x → S[b]? = some y →
      closeT mi x.time y.time → False) :
    BinSpec dist r mi P S lo hi [] [] :=
  ⟨by simp, fun a b x y h1 h2 h3 h4 _ h6 => (h a b x y h1 h2 h3 h4 h6).elim, List.nodup_nil,
   List.Forall₂.nil⟩

/-- **one group of the temporal binning** -/
theorem binStep_spec (dist : Pos → Pos → α) (hsym : ∀ a b, dist a b = dist b a)
    (T : TreeFn Pos α) (hT : TreeOK dist T) (shuf : Nat → List Pos → List Nat)
    (hshuf : ValidShuf shuf) (mf : Nat) (mi : Int) (r : α) (P S : List (NPt Pos))
    (hS : (S.map (·.time)).Pairwise (· ≤ ·)) (label : Int) (len pos : Nat) (st : SState Pos)
    (hinv : Inv st)
    (h1 : ∀ a t, a < pos → (P.map (·.time))[a]? = some t → t < label)
    (h2 : ∀ a t, pos ≤ a → (P.map (·.time))[a]? = some t → label ≤ t)
    (hlen : pos + len ≤ P.length) :
    ∃ st' pairs ds, binStep T shuf mf mi r P S label len pos st = (st', .ok (pairs, ds)) ∧
      Inv st' ∧ BinSpec dist r mi P S pos (pos + len) pairs ds := by
  unfold binStep
  have hoff1 : searchsortedLeft (P.map (·.time)) label = pos :=
    searchsortedLeft_eq _ _ _ h1 h2 (by simpa using (by omega : pos ≤ P.length))
  set o2 := searchsortedLeft (S.map (·.time)) (label - mi) with ho2
  -- facts about a row of the run and a secondary close in time
  have hrun : ∀ a x, pos ≤ a → P[a]? = some x → label ≤ x.time := fun a x ha hx =>
    h2 a x.time ha (by simp [List.getElem?_map, hx])
  have hb_ge : ∀ b y, S[b]? = some y → label - mi ≤ y.time → o2 ≤ b := by
    intro b y hy hle
    by_contra hlt
    have := searchsortedLeft_lt (S.map (·.time)) (label - mi) b y.time (by omega)
      (by simp [List.getElem?_map, hy])
    omega
  cases hmax : maxList (((P.drop pos).take len).map (·.time)) with
  | none =>
    have hnil := maxList_none _ hmax
    have hl : len = 0 := by
      have : ((P.drop pos).take len).length = 0 := by
        simpa using congrArg List.length hnil
      simp only [List.length_take, List.length_drop] at this
      omega
    subst hl
    simp only [hmax]
    exact ⟨st, [], [], rfl, hinv, binSpec_empty dist r mi P S pos (pos + 0)
      (fun a b x y h1 h2 => by omega)⟩
  | some tmax =>
    simp only [hmax]
    have hmaxge : ∀ a x, pos ≤ a → a < pos + len → P[a]? = some x → x.time ≤ tmax := by
      intro a x ha1 ha2 hx
      apply maxList_ge _ _ hmax
      rw [List.mem_map]
      refine ⟨x, ?_, rfl⟩
      apply List.mem_of_getElem? (i := a - pos)
      rw [chunk1_get]; simp [show a - pos < len by omega, show pos + (a - pos) = a by omega, hx]
    set chunk2 := locSlice S o2 (tmax + mi) with hc2
    -- a secondary close in time to a row of the run lies in the slice
    have hin : ∀ a b x y, pos ≤ a → a < pos + len → P[a]? = some x → S[b]? = some y →
        closeT mi x.time y.time → o2 ≤ b ∧ b < o2 + chunk2.length := by
      intro a b x y ha1 ha2 hx hy hc
      have t1 := hrun a x ha1 hx
      have t2 := hmaxge a x ha1 ha2 hx
      obtain ⟨c1, c2⟩ := hc
      have hge := hb_ge b y hy (by omega)
      exact ⟨hge, (locSlice_mem_iff S hS o2 (tmax + mi) b y hge hy).mpr (by omega)⟩
    by_cases hempty : chunk2.isEmpty = true
    · have hz : chunk2.length = 0 := by simpa using hempty
      simp only [hempty, if_true]
      exact ⟨st, [], [], rfl, hinv, binSpec_empty dist r mi P S pos (pos + len)
        (fun a b x y ha1 ha2 hx hy hc => by
          have := hin a b x y ha1 ha2 hx hy hc; omega)⟩
    · have hne2 : chunk2 ≠ [] := by simpa using hempty
      have hne1 : (P.drop pos).take len ≠ [] := by
        intro h; rw [h] at hmax; simp [maxList] at hmax
      simp only [hempty, Bool.false_eq_true, if_false]
      obtain ⟨st', pairs, ds, hsearch, hinv', hspec⟩ :=
        spatialSearch_spec dist hsym T hT shuf hshuf mf st hinv
          (((P.drop pos).take len).map (·.pos)) (chunk2.map (·.pos))
          (by simpa using hne1) (by simpa using hne2) r
      rw [hsearch]
      simp only [hoff1]
      obtain ⟨q1, q2, q3⟩ := hspec
      -- translate positions inside the chunks to rows of P and S
      have hp1 : ∀ i bb, (((P.drop pos).take len).map (·.pos))[i]? = some bb ↔
          i < len ∧ ∃ x, P[pos + i]? = some x ∧ x.pos = bb := by
        intro i bb
        rw [List.getElem?_map, chunk1_get]
        by_cases hi : i < len
        · simp [hi]
        · simp [hi]
      have hp2 : ∀ j pp, (chunk2.map (·.pos))[j]? = some pp ↔
          j < chunk2.length ∧ ∃ y, S[o2 + j]? = some y ∧ y.pos = pp := by
        intro j pp
        rw [List.getElem?_map]
        by_cases hj : j < chunk2.length
        · have e : chunk2[j]? = S[o2 + j]? := locSlice_getElem? S o2 _ j hj
          rw [e]
          simp [hj, Option.map_eq_some_iff]
        · have e : chunk2[j]? = none := List.getElem?_eq_none (by omega)
          rw [e]
          simp [hj]
      refine ⟨st', shiftPairs pos o2 pairs, ds, rfl, hinv', ?_, ?_, ?_, ?_⟩
      · intro a b hab
        simp only [shiftPairs, List.mem_map, Prod.mk.injEq, Prod.exists] at hab
        obtain ⟨i, j, hij, rfl, rfl⟩ := hab
        obtain ⟨bb, pp, hb, hp, hd⟩ := (q1 i j).mp hij
        obtain ⟨hi, x, hx, rfl⟩ := (hp1 i bb).mp hb
        obtain ⟨hj, y, hy, rfl⟩ := (hp2 j pp).mp hp
        refine ⟨by omega, by omega, x, y, by rw [Nat.add_comm]; exact hx,
          by rw [Nat.add_comm]; exact hy, hd⟩
      · intro a b x y ha1 ha2 hx hy hnear hc
        obtain ⟨hb1, hb2⟩ := hin a b x y ha1 ha2 hx hy hc
        simp only [shiftPairs, List.mem_map, Prod.mk.injEq, Prod.exists]
        refine ⟨a - pos, b - o2, (q1 _ _).mpr ⟨x.pos, y.pos, ?_, ?_, hnear⟩, by omega, by omega⟩
        · exact (hp1 _ _).mpr ⟨by omega, x, by rw [show pos + (a - pos) = a by omega]; exact hx, rfl⟩
        · exact (hp2 _ _).mpr ⟨by omega, y, by rw [show o2 + (b - o2) = b by omega]; exact hy, rfl⟩
      · exact q2.map (fun a b hab => by
          simp only [Prod.mk.injEq] at hab
          exact Prod.ext (by omega) (by omega))
      · unfold shiftPairs
        rw [List.forall₂_map_left_iff]
        refine q3.imp ?_
        rintro ⟨i, j⟩ d ⟨bb, pp, hb, hp, hd⟩
        obtain ⟨hi, x, hx, rfl⟩ := (hp1 i bb).mp hb
        obtain ⟨hj, y, hy, rfl⟩ := (hp2 j pp).mp hp
        exact ⟨x, y, by simpa [Nat.add_comm] using hx, by simpa [Nat.add_comm] using hy, hd⟩

/-- a cut of the time-sorted primaries into consecutive labelled runs (the groups of
`groupby(pd.Grouper(freq=…))`): the runs cover all rows in order; every label is above all
earlier times and at most the times from its own run on.  Nothing else about the labels
(anchoring, width) is assumed — empty runs are allowed. -/
def ValidCut (tP : List Int) : List (Int × Nat) → Nat → Prop
  | [], pos => pos = tP.length
  | (label, len) :: rest, pos =>
    (∀ a t, a < pos → tP[a]? = some t → t < label) ∧
    (∀ a t, pos ≤ a → tP[a]? = some t → label ≤ t) ∧
    pos + len ≤ tP.length ∧ ValidCut tP rest (pos + len)

theorem binSpec_append (dist : Pos → Pos → α) (r : α) (mi : Int) (P S : List (NPt Pos))
    (lo mid hi : Nat) (hlm : lo ≤ mid) (hmh : mid ≤ hi) (p1 p2 : List (Nat × Nat)) (d1 d2 : List α)
    (h1 : BinSpec dist r mi P S lo mid p1 d1) (h2 : BinSpec dist r mi P S mid hi p2 d2) :
    BinSpec dist r mi P S lo hi (p1 ++ p2) (d1 ++ d2) := by
  refine ⟨?_, ?_, ?_, ?_⟩
  · intro a b hab
    rcases List.mem_append.mp hab with h | h
    · obtain ⟨x1, x2, x3⟩ := h1.sound a b h
      exact ⟨x1, by omega, x3⟩
    · obtain ⟨x1, x2, x3⟩ := h2.sound a b h
      exact ⟨by omega, x2, x3⟩
  · intro a b x y ha1 ha2 hx hy hn hc
    by_cases ham : a < mid
    · exact List.mem_append_left _ (h1.complete a b x y ha1 ham hx hy hn hc)
    · exact List.mem_append_right _ (h2.complete a b x y (by omega) ha2 hx hy hn hc)
  · refine List.Nodup.append h1.nodup h2.nodup ?_
    rintro ⟨a, b⟩ hp1 hp2
    have := (h1.sound a b hp1).2.1
    have := (h2.sound a b hp2).1
    omega
  · exact List.rel_append h1.dists h2.dists

/-- **all groups**: for every valid cut the concatenated, shifted bin results are sound,
complete for pairs with `|Δt| < max_interval`, and free of duplicates -/
theorem binLoop_spec (dist : Pos → Pos → α) (hsym : ∀ a b, dist a b = dist b a)
    (T : TreeFn Pos α) (hT : TreeOK dist T) (shuf : Nat → List Pos → List Nat)
    (hshuf : ValidShuf shuf) (mf : Nat) (mi : Int) (r : α) (P S : List (NPt Pos))
    (hS : (S.map (·.time)).Pairwise (· ≤ ·)) (cut : List (Int × Nat)) (pos : Nat)
    (st : SState Pos) (hinv : Inv st) (hcut : ValidCut (P.map (·.time)) cut pos) :
    ∃ st' pairs ds, binLoop T shuf mf mi r P S cut pos st = (st', .ok (pairs, ds)) ∧
      Inv st' ∧ BinSpec dist r mi P S pos P.length pairs ds := by
  induction cut generalizing pos st with
  | nil =>
    have hp : pos = P.length := by simpa [ValidCut] using hcut
    exact ⟨st, [], [], rfl, hinv, binSpec_empty dist r mi P S pos P.length
      (fun a b x y h1 h2 => by omega)⟩
  | cons c rest ih =>
    obtain ⟨label, len⟩ := c
    obtain ⟨c1, c2, c3, c4⟩ := hcut
    have hlen : pos + len ≤ P.length := by simpa using c3
    obtain ⟨st1, p1, d1, e1, hinv1, s1⟩ :=
      binStep_spec dist hsym T hT shuf hshuf mf mi r P S hS label len pos st hinv c1 c2 hlen
    obtain ⟨st2, p2, d2, e2, hinv2, s2⟩ := ih (pos + len) st1 hinv1 c4
    refine ⟨st2, p1 ++ p2, d1 ++ d2, ?_, hinv2,
      binSpec_append dist r mi P S pos (pos + len) P.length (by omega) hlen p1 p2 d1 d2 s1 s2⟩
    simp only [binLoop, e1, e2]

/-- what the candidate list handed to the temporal check must satisfy (indices into the
NaN-free, time-sorted arrays): only pairs within the distance, all pairs within distance
and interval, no pair twice, distances aligned -/
structure CandSpec (dist : Pos → Pos → α) (r : α) (mi : Int) (A B : List (NPt Pos))
    (pairs : List (Nat × Nat)) (ds : List α) : Prop where
  sound : ∀ a b, (a, b) ∈ pairs → ∃ x y, A[a]? = some x ∧ B[b]? = some y ∧ near dist r x.pos y.pos
  complete : ∀ a b x y, A[a]? = some x → B[b]? = some y →
    near dist r x.pos y.pos → closeT mi x.time y.time → (a, b) ∈ pairs
  nodup : pairs.Nodup
  dists : List.Forall₂ (fun pr d => ∃ x y, A[pr.1]? = some x ∧ B[pr.2]? = some y ∧
    d = distKm .minkowski dist x.pos y.pos) pairs ds

theorem near_symm (dist : Pos → Pos → α) (hsym : ∀ a b, dist a b = dist b a) (r : α) (a b : Pos) :
    near dist r a b ↔ near dist r b a := by
  unfold near distKm; rw [hsym a b]

theorem candSpec_of_binSpec (dist : Pos → Pos → α) (r : α) (mi : Int) (A B : List (NPt Pos))
    (pairs : List (Nat × Nat)) (ds : List α) (h : BinSpec dist r mi A B 0 A.length pairs ds) :
    CandSpec dist r mi A B pairs ds :=
  ⟨fun a b hab => (h.sound a b hab).2.2,
   fun a b x y hx hy hn hc => h.complete a b x y (Nat.zero_le _)
     (List.getElem?_eq_some_iff.mp hx).1 hx hy hn hc,
   h.nodup, h.dists⟩

theorem candSpec_swap (dist : Pos → Pos → α) (hsym : ∀ a b, dist a b = dist b a) (r : α) (mi : Int)
    (A B : List (NPt Pos)) (pairs : List (Nat × Nat)) (ds : List α)
    (h : CandSpec dist r mi B A pairs ds) : CandSpec dist r mi A B (swapRows pairs) ds := by
  refine ⟨?_, ?_, ?_, ?_⟩
  · intro a b hab
    simp only [swapRows, List.mem_map, Prod.mk.injEq, Prod.exists] at hab
    obtain ⟨i, j, hij, rfl, rfl⟩ := hab
    obtain ⟨x, y, hx, hy, hn⟩ := h.sound i j hij
    exact ⟨y, x, hy, hx, (near_symm dist hsym r _ _).mp hn⟩
  · intro a b x y hx hy hn hc
    simp only [swapRows, List.mem_map, Prod.mk.injEq, Prod.exists]
    exact ⟨b, a, h.complete b a y x hy hx ((near_symm dist hsym r _ _).mp hn) ⟨hc.2, hc.1⟩, rfl, rfl⟩
  · exact h.nodup.map (fun a b hab => by
      simp only [Prod.mk.injEq] at hab
      exact Prod.ext hab.2 hab.1)
  · unfold swapRows
    rw [List.forall₂_map_left_iff]
    refine h.dists.imp ?_
    rintro ⟨a, b⟩ d ⟨x, y, hx, hy, hd⟩
    exact ⟨y, x, hy, hx, by simp [hd, distKm, hsym x.pos y.pos]⟩

theorem candSpec_nil_ds (dist : Pos → Pos → α) (r : α) (mi : Int) (A B : List (NPt Pos)) (ds : List α)
    (h : CandSpec dist r mi A B [] ds) : ds = [] := by
  cases h.dists; rfl

/-- **C04_binning_complete_nodup (core)** — `spatial_search_with_temporal_binning`, for
every valid cut of the larger dataset, either size ordering, every object state -/
theorem binnedSearch_spec (dist : Pos → Pos → α) (hsym : ∀ a b, dist a b = dist b a)
    (T : TreeFn Pos α) (hT : TreeOK dist T) (shuf : Nat → List Pos → List Nat)
    (hshuf : ValidShuf shuf) (mf : Nat) (mi : Int) (r : α) (st : SState Pos) (hinv : Inv st)
    (prim sec : List (NPt Pos))
    (hP : (prim.map (·.time)).Pairwise (· ≤ ·)) (hS : (sec.map (·.time)).Pairwise (· ≤ ·))
    (cut : List (Int × Nat))
    (hcut : ValidCut ((if sec.length > prim.length then sec else prim).map (·.time)) cut 0) :
    ∃ st' pairs ds, binnedSearch T shuf mf mi r st prim sec cut = (st', .ok (pairs, ds)) ∧
      Inv st' ∧ CandSpec dist r mi prim sec pairs ds := by
  unfold binnedSearch
  by_cases hsw : sec.length > prim.length
  · simp only [hsw, decide_true, if_true] at hcut ⊢
    obtain ⟨st', pairs, ds, e, hinv', hs⟩ :=
      binLoop_spec dist hsym T hT shuf hshuf mf mi r sec prim hP cut 0 st hinv hcut
    have hc := candSpec_swap dist hsym r mi prim sec pairs ds (candSpec_of_binSpec dist r mi _ _ _ _ hs)
    simp only [e]
    by_cases he : pairs.isEmpty
    · have : pairs = [] := by simpa using he
      subst this
      have := candSpec_nil_ds dist r mi _ _ ds (candSpec_of_binSpec dist r mi _ _ _ _ hs)
      subst this
      exact ⟨st', [], [], by simp, hinv', by simpa [swapRows] using hc⟩
    · exact ⟨st', swapRows pairs, ds, by simp [he], hinv', hc⟩
  · simp only [hsw, decide_false, Bool.false_eq_true, if_false] at hcut ⊢
    obtain ⟨st', pairs, ds, e, hinv', hs⟩ :=
      binLoop_spec dist hsym T hT shuf hshuf mf mi r prim sec hS cut 0 st hinv hcut
    have hc := candSpec_of_binSpec dist r mi _ _ _ _ hs
    simp only [e]
    by_cases he : pairs.isEmpty
    · have : pairs = [] := by simpa using he
      subst this
      have := candSpec_nil_ds dist r mi _ _ ds hc
      subst this
      exact ⟨st', [], [], by simp, hinv', hc⟩
    · exact ⟨st', pairs, ds, by simp [he], hinv', hc⟩

/-- the direct search also yields a valid candidate list -/
theorem candSpec_of_querySpec (dist : Pos → Pos → α) (r : α) (mi : Int) (A B : List (NPt Pos))
    (pairs : List (Nat × Nat)) (ds : List α)
    (h : QuerySpec .minkowski dist (A.map (·.pos)) (B.map (·.pos)) r pairs ds) :
    CandSpec dist r mi A B pairs ds := by
  obtain ⟨q1, q2, q3⟩ := h
  have conv : ∀ (L : List (NPt Pos)) (i : Nat) (bb : Pos), (L.map (·.pos))[i]? = some bb ↔
      ∃ x : NPt Pos, L[i]? = some x ∧ x.pos = bb := by
    intro L i bb; simp [List.getElem?_map, Option.map_eq_some_iff]
  refine ⟨?_, ?_, q2, ?_⟩
  · intro a b hab
    obtain ⟨bb, pp, hb, hp, hd⟩ := (q1 a b).mp hab
    obtain ⟨x, hx, rfl⟩ := (conv A a bb).mp hb
    obtain ⟨y, hy, rfl⟩ := (conv B b pp).mp hp
    exact ⟨x, y, hx, hy, hd⟩
  · intro a b x y hx hy hn _
    exact (q1 a b).mpr ⟨x.pos, y.pos, (conv A a _).mpr ⟨x, hx, rfl⟩, (conv B b _).mpr ⟨y, hy, rfl⟩, hn⟩
  · refine q3.imp ?_
    rintro ⟨a, b⟩ d ⟨bb, pp, hb, hp, hd⟩
    obtain ⟨x, hx, rfl⟩ := (conv A a bb).mp hb
    obtain ⟨y, hy, rfl⟩ := (conv B b pp).mp hp
    exact ⟨x, y, hx, hy, hd⟩

end Bin

end Colloc
