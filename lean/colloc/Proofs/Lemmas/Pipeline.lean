import Proofs.Lemmas.Assemble

set_option linter.unusedSectionVars false
set_option linter.unusedVariables false

/-!
From the candidate list to the returned dataset: temporal check, `_to_original`,
`_create_return`, and the collocations of the result identified by the carried ids.
-/

namespace Colloc
open Geo

section Pipe
variable {Pos α : Type} [DecidableEq Pos] [Field α] [LinearOrder α] [IsStrictOrderedRing α]

/-- the stored interval: `|Δt|` truncated to whole seconds -/
def ivOf (t1 t2 : Int) : Int := ((t1 - t2).natAbs / 1000000000 : Nat)

theorem closeT_iff_natAbs (mi t1 t2 : Int) : ((t1 - t2).natAbs : Int) < mi ↔ closeT mi t1 t2 := by
  unfold closeT; omega

theorem forall₂_mem_zip {β γ : Type} {R : β → γ → Prop} {l₁ : List β} {l₂ : List γ}
    (h : List.Forall₂ R l₁ l₂) : ∀ a ∈ l₁, ∃ b, (a, b) ∈ l₁.zip l₂ := by
  induction h with
  | nil => simp
  | cons hab _ ih =>
    intro a ha
    rcases List.mem_cons.mp ha with rfl | ha
    · exact ⟨_, List.mem_cons_self⟩
    · obtain ⟨b, hb⟩ := ih a ha
      exact ⟨b, by simp [hb]⟩

theorem filterMap_fst_sublist {β γ δ : Type} (g : β × γ → Option (β × δ))
    (hg : ∀ pd k, g pd = some k → k.1 = pd.1) (l : List (β × γ)) :
    ((l.filterMap g).map Prod.fst).Sublist (l.map Prod.fst) := by
  induction l with
  | nil => simp
  | cons a rest ih =>
    rw [List.filterMap_cons]
    cases h : g a with
    | none => simpa using ih.trans (List.sublist_cons_self _ _)
    | some k =>
      simp only [List.map_cons]
      rw [hg a k h]
      exact ih.cons_cons _

/-- what is kept after the temporal check -/
def KeptSpec (dist : Pos → Pos → α) (r : α) (mi : Int) (A B : List (NPt Pos))
    (kept : List ((Nat × Nat) × Int × α)) : Prop :=
  (kept.map (·.1)).Nodup ∧
  ∀ a b iv d, ((a, b), iv, d) ∈ kept ↔
    ∃ x y, A[a]? = some x ∧ B[b]? = some y ∧ near dist r x.pos y.pos ∧ closeT mi x.time y.time ∧
      iv = ivOf x.time y.time ∧ d = distKm .minkowski dist x.pos y.pos

/-- **temporal check**: from a valid candidate list exactly the pairs within distance
*and* interval survive, each once, with `⌊|Δt|⌋` seconds and the distance of that pair -/
theorem temporalCheck_spec (dist : Pos → Pos → α) (r : α) (mi : Int) (A B : List (NPt Pos))
    (pairs : List (Nat × Nat)) (ds : List α) (h : CandSpec dist r mi A B pairs ds) :
    ∃ kept, temporalCheck A B mi pairs ds = .ok kept ∧ KeptSpec dist r mi A B kept := by
  have hguard : (pairs.all fun p => decide (p.1 < A.length) && decide (p.2 < B.length)) = true := by
    rw [List.all_eq_true]
    rintro ⟨a, b⟩ hab
    obtain ⟨x, y, hx, hy, _⟩ := h.sound a b hab
    simp [(List.getElem?_eq_some_iff.mp hx).1, (List.getElem?_eq_some_iff.mp hy).1]
  unfold temporalCheck
  simp only [hguard, if_true]
  refine ⟨_, rfl, ?_, ?_⟩
  · have hsub := filterMap_fst_sublist (fun pd : (Nat × Nat) × α =>
        match A[pd.1.1]?, B[pd.1.2]? with
        | some a, some b =>
          if ((a.time - b.time).natAbs : Int) < mi then
            some (pd.1, (((a.time - b.time).natAbs / 1000000000 : Nat) : Int), pd.2) else none
        | _, _ => none) (by
          intro pd k hk
          split at hk
          · split at hk
            · cases hk; rfl
            · cases hk
          · cases hk) (pairs.zip ds)
    rw [List.map_fst_zip (by rw [h.dists.length_eq])] at hsub
    exact h.nodup.sublist hsub
  · intro a b iv d
    rw [List.mem_filterMap]
    constructor
    · rintro ⟨⟨⟨a', b'⟩, d'⟩, hz, hg⟩
      obtain ⟨x, y, hx, hy, hd⟩ := (List.forall₂_iff_zip.mp h.dists).2 hz
      simp only at hx hy hd
      simp only [hx, hy] at hg
      split at hg
      · rename_i hlt
        simp only [Option.some.injEq, Prod.mk.injEq] at hg
        obtain ⟨⟨rfl, rfl⟩, rfl, rfl⟩ := hg
        obtain ⟨x', y', hx', hy', hn⟩ := h.sound a' b' (List.of_mem_zip hz).1
        rw [hx] at hx'; rw [hy] at hy'; cases hx'; cases hy'
        exact ⟨x, y, hx, hy, hn, (closeT_iff_natAbs _ _ _).mp hlt, rfl, hd⟩
      · cases hg
    · rintro ⟨x, y, hx, hy, hn, hc, rfl, rfl⟩
      have hmem := h.complete a b x y hx hy hn hc
      obtain ⟨d', hz⟩ := forall₂_mem_zip h.dists (a, b) hmem
      obtain ⟨x', y', hx', hy', hd⟩ := (List.forall₂_iff_zip.mp h.dists).2 hz
      simp only at hx' hy' hd
      rw [hx] at hx'; rw [hy] at hy'; cases hx'; cases hy'
      refine ⟨((a, b), d'), hz, ?_⟩
      simp only [hx, hy, (closeT_iff_natAbs _ _ _).mpr hc, if_true, hd, ivOf]

end Pipe

end Colloc
