import Proofs.Lemmas.Assemble

set_option linter.unusedSectionVars false
set_option linter.unusedVariables false

/-!
From the candidate list to the returned dataset: temporal check, `_to_original`,
`_create_return`, and the collocations of the result identified by the carried ids.
-/

namespace Colloc
open Geo

section Pipe
variable {Pos α : Type} [DecidableEq Pos] [Field α] [LinearOrder α] [IsStrictOrderedRing α]

/-- the stored interval: `|Δt|` truncated to whole seconds -/
def ivOf (t1 t2 : Int) : Int := ((t1 - t2).natAbs / 1000000000 : Nat)

theorem closeT_iff_natAbs (mi t1 t2 : Int) : ((t1 - t2).natAbs : Int) < mi ↔ closeT mi t1 t2 := by
  unfold closeT; omega

theorem forall₂_mem_zip {β γ : Type} {R : β → γ → Prop} {l₁ : List β} {l₂ : List γ}
    (h : List.Forall₂ R l₁ l₂) : ∀ a ∈ l₁, ∃ b, (a, b) ∈ l₁.zip l₂ := by
  induction h with
  | nil => simp
  | cons hab _ ih =>
    intro a ha
    rcases List.mem_cons.mp ha with rfl | ha
    · exact ⟨_, List.mem_cons_self⟩
    · obtain ⟨b, hb⟩ := ih a ha
      exact ⟨b, by simp [hb]⟩

theorem filterMap_fst_sublist {β γ δ : Type} (g : β × γ → Option (β × δ))
    (hg : ∀ pd k, g pd = some k → k.1 = pd.1) (l : List (β × γ)) :
    ((l.filterMap g).map Prod.fst).Sublist (l.map Prod.fst) := by
  induction l with
  | nil => simp
  | cons a rest ih =>
    rw [List.filterMap_cons]
    cases h : g a with
    | none => simpa using ih.trans (List.sublist_cons_self _ _)
    | some k =>
      simp only [List.map_cons]
      rw [hg a k h]
      exact ih.cons_cons _

/-- what is kept after the temporal check -/
def KeptSpec (dist : Pos → Pos → α) (r : α) (mi : Int) (A B : List (NPt Pos))
    (kept : List ((Nat × Nat) × Int × α)) : Prop :=
  (kept.map (·.1)).Nodup ∧
  ∀ a b iv d, ((a, b), iv, d) ∈ kept ↔
    ∃ x y, A[a]? = some x ∧ B[b]? = some y ∧ near dist r x.pos y.pos ∧ closeT mi x.time y.time ∧
      iv = ivOf x.time y.time ∧ d = distKm .minkowski dist x.pos y.pos

/-- **temporal check**: from a valid candidate list exactly the pairs within distance
*and* interval survive, each once, with `⌊|Δt|⌋` seconds and the distance of that pair -/
theorem temporalCheck_spec (dist : Pos → Pos → α) (r : α) (mi : Int) (A B : List (NPt Pos))
    (pairs : List (Nat × Nat)) (ds : List α) (h : CandSpec dist r mi A B pairs ds) :
    ∃ kept, temporalCheck A B mi pairs ds = .ok kept ∧ KeptSpec dist r mi A B kept := by
  have hguard : (pairs.all fun p => decide (p.1 < A.length) && decide (p.2 < B.length)) = true := by
    rw [List.all_eq_true]
    rintro ⟨a, b⟩ hab
    obtain ⟨x, y, hx, hy, _⟩ := h.sound a b hab
    simp [(List.getElem?_eq_some_iff.mp hx).1, (List.getElem?_eq_some_iff.mp hy).1]
  unfold temporalCheck
  simp only [hguard, if_true]
  refine ⟨_, rfl, ?_, ?_⟩
  · have hsub := filterMap_fst_sublist (fun pd : (Nat × Nat) × α =>
        match A[pd.1.1]?, B[pd.1.2]? with
        | some a, some b =>
          if ((a.time - b.time).natAbs : Int) < mi then
            some (pd.1, (((a.time - b.time).natAbs / 1000000000 : Nat) : Int), pd.2) else none
        | _, _ => none) (by
          intro pd k hk
          split at hk
          · split at hk
            · cases hk; rfl
            · cases hk
          · cases hk) (pairs.zip ds)
    rw [List.map_fst_zip (by rw [h.dists.length_eq])] at hsub
    exact h.nodup.sublist hsub
  · intro a b iv d
    rw [List.mem_filterMap]
    constructor
    · rintro ⟨⟨⟨a', b'⟩, d'⟩, hz, hg⟩
      obtain ⟨x, y, hx, hy, hd⟩ := (List.forall₂_iff_zip.mp h.dists).2 hz
      simp only at hx hy hd
      simp only [hx, hy] at hg
      split at hg
      · rename_i hlt
        simp only [Option.some.injEq, Prod.mk.injEq] at hg
        obtain ⟨⟨rfl, rfl⟩, rfl, rfl⟩ := hg
        obtain ⟨x', y', hx', hy', hn⟩ := h.sound a' b' (List.of_mem_zip hz).1
        rw [hx] at hx'; rw [hy] at hy'; cases hx'; cases hy'
        exact ⟨x, y, hx, hy, hn, (closeT_iff_natAbs _ _ _).mp hlt, rfl, hd⟩
      · cases hg
    · rintro ⟨x, y, hx, hy, hn, hc, rfl, rfl⟩
      have hmem := h.complete a b x y hx hy hn hc
      obtain ⟨d', hz⟩ := forall₂_mem_zip h.dists (a, b) hmem
      obtain ⟨x', y', hx', hy', hd⟩ := (List.forall₂_iff_zip.mp h.dists).2 hz
      simp only at hx' hy' hd
      rw [hx] at hx'; rw [hy] at hy'; cases hx'; cases hy'
      refine ⟨((a, b), d'), hz, ?_⟩
      simp only [hx, hy, (closeT_iff_natAbs _ _ _).mpr hc, if_true, hd, ivOf]

/-! ### `_to_original`, `_create_return` -/

/-- id pair, interval and distance of an entry whose indices refer to the selected,
flattened datasets -/
def idOf (fp fs : List (Pt Pos)) (k : (Nat × Nat) × Int × α) : Option ((Nat × Nat) × Int × α) :=
  match fp[k.1.1]?, fs[k.1.2]? with
  | some a, some b => some ((a.id, b.id), k.2.1, k.2.2)
  | _, _ => none

theorem compact_get (fp : List (Pt Pos)) (xs : List Nat) (hx : ∀ x ∈ xs, x < fp.length) (x : Nat)
    (hmem : x ∈ xs) :
    ((uniqueFirst xs).filterMap (fp[·]?))[(uniqueFirst xs).idxOf x]? = fp[x]? := by
  have hu : ∀ i ∈ uniqueFirst xs, i < fp.length := fun i hi => hx i ((mem_uniqueFirst xs i).mp hi)
  rw [getElem?_filterMap_getElem? fp (uniqueFirst xs) hu,
    List.getElem?_idxOf ((mem_uniqueFirst xs x).mpr hmem)]
  rfl

/-- **compaction**: the compact dataset built by `_create_return` carries, for the k-th
collocation, exactly the data points the k-th original index pair refers to -/
theorem createReturn_idPairs (fp fs : List (Pt Pos)) (K : List ((Nat × Nat) × Int × α))
    (hr : ∀ k ∈ K, k.1.1 < fp.length ∧ k.1.2 < fs.length) :
    (K = [] → createReturn fp fs (K.map (·.1)) (K.map (·.2.1)) (K.map (·.2.2)) = .ok none) ∧
    (K ≠ [] → ∃ res, createReturn fp fs (K.map (·.1)) (K.map (·.2.1)) (K.map (·.2.2)) =
        .ok (some res) ∧ res.idPairs = K.filterMap (idOf fp fs)) := by
  constructor
  · intro h; subst h; simp [createReturn]
  · intro hne
    have he : (K.map (·.1)).isEmpty = false := by cases K <;> simp_all
    have hguard : ((K.map (·.1)).all fun o => decide (o.1 < fp.length) && decide (o.2 < fs.length))
        = true := by
      rw [List.all_eq_true]
      intro o ho
      obtain ⟨k, hk, rfl⟩ := List.mem_map.mp ho
      simp [(hr k hk).1, (hr k hk).2]
    unfold createReturn
    simp only [he, Bool.false_eq_true, if_false, hguard, if_true]
    refine ⟨_, rfl, ?_⟩
    unfold Result.idPairs
    simp only [List.map_map]
    rw [List.zip_map', List.zip_map', List.filterMap_map]
    apply List.filterMap_congr
    intro k hk
    have e1 := compact_get fp ((K.map (·.1)).map (·.1)) (by
      intro x hx
      obtain ⟨o, ho, rfl⟩ := List.mem_map.mp hx
      obtain ⟨k', hk', rfl⟩ := List.mem_map.mp ho
      exact (hr k' hk').1) k.1.1 (List.mem_map.mpr ⟨k.1, List.mem_map.mpr ⟨k, hk, rfl⟩, rfl⟩)
    have e2 := compact_get fs ((K.map (·.1)).map (·.2)) (by
      intro x hx
      obtain ⟨o, ho, rfl⟩ := List.mem_map.mp hx
      obtain ⟨k', hk', rfl⟩ := List.mem_map.mp ho
      exact (hr k' hk').2) k.1.2 (List.mem_map.mpr ⟨k.1, List.mem_map.mpr ⟨k, hk, rfl⟩, rfl⟩)
    simp only [Function.comp, List.map_map] at e1 e2 ⊢
    rw [e1, e2]
    rfl

theorem toOriginal_ok (nn1 nn2 : List Nat) (pairs : List (Nat × Nat))
    (h : ∀ p ∈ pairs, p.1 < nn1.length ∧ p.2 < nn2.length) :
    toOriginal nn1 nn2 pairs = .ok (pairs.map (fun p => (nn1.getD p.1 0, nn2.getD p.2 0))) := by
  unfold toOriginal
  have : (pairs.all fun p => decide (p.1 < nn1.length) && decide (p.2 < nn2.length)) = true := by
    rw [List.all_eq_true]; intro p hp; simp [(h p hp).1, (h p hp).2]
  simp [this]

/-! ### collocations by carried id -/

/-- `(i, j, iv, d)` is a collocation of the selected, flattened datasets: two points
with these ids, both with valid position, within distance and interval; `iv` is their
`⌊|Δt|⌋` in seconds and `d` their distance in km -/
def CollocatedSel (dist : Pos → Pos → α) (r : α) (mi : Int) (fp fs : List (Pt Pos))
    (i j : Nat) (iv : Int) (d : α) : Prop :=
  ∃ x ∈ fp, ∃ y ∈ fs, x.id = i ∧ y.id = j ∧ ∃ px py, x.pos = some px ∧ y.pos = some py ∧
    near dist r px py ∧ closeT mi x.time y.time ∧
    iv = ivOf x.time y.time ∧ d = distKm .minkowski dist px py

/-- entries of `kept` re-indexed by `_to_original` -/
def reindex (nn1 nn2 : List Nat) (kept : List ((Nat × Nat) × Int × α)) :
    List ((Nat × Nat) × Int × α) :=
  kept.map (fun k => ((nn1.getD k.1.1 0, nn2.getD k.1.2 0), k.2.1, k.2.2))

theorem kept_range (dist : Pos → Pos → α) (r : α) (mi : Int) (A B : List (NPt Pos))
    (kept : List ((Nat × Nat) × Int × α)) (hk : KeptSpec dist r mi A B kept) :
    ∀ k ∈ kept, k.1.1 < A.length ∧ k.1.2 < B.length := by
  rintro ⟨⟨a, b⟩, iv, d⟩ hmem
  obtain ⟨x, y, hx, hy, _⟩ := (hk.2 a b iv d).mp hmem
  exact ⟨(List.getElem?_eq_some_iff.mp hx).1, (List.getElem?_eq_some_iff.mp hy).1⟩

theorem getD_of_getElem? (l : List Nat) (a i : Nat) (h : l[a]? = some i) : l.getD a 0 = i := by
  simp [List.getD_eq_getElem?_getD, h]

theorem reindex_range (dist : Pos → Pos → α) (r : α) (mi : Int) (fp fs : List (Pt Pos))
    (kept : List ((Nat × Nat) × Int × α))
    (hk : KeptSpec dist r mi (dropNan fp) (dropNan fs) kept) :
    ∀ k ∈ reindex (notNanIdx fp) (notNanIdx fs) kept, k.1.1 < fp.length ∧ k.1.2 < fs.length := by
  intro k hk'
  obtain ⟨⟨⟨a, b⟩, iv, d⟩, hmem, rfl⟩ := List.mem_map.mp hk'
  obtain ⟨x, y, hx, hy, _⟩ := (hk.2 a b iv d).mp hmem
  obtain ⟨i, p, hi, hp, _⟩ := nn_row fp a x hx
  obtain ⟨j, q, hj, hq, _⟩ := nn_row fs b y hy
  simp only [getD_of_getElem? _ _ _ hi, getD_of_getElem? _ _ _ hj]
  exact ⟨(List.getElem?_eq_some_iff.mp hp).1, (List.getElem?_eq_some_iff.mp hq).1⟩

/-- the id pairs read off the re-indexed entries are exactly the collocations -/
theorem mem_idPairs_iff (dist : Pos → Pos → α) (r : α) (mi : Int) (fp fs : List (Pt Pos))
    (kept : List ((Nat × Nat) × Int × α))
    (hk : KeptSpec dist r mi (dropNan fp) (dropNan fs) kept) (i j : Nat) (iv : Int) (d : α) :
    ((i, j), iv, d) ∈ (reindex (notNanIdx fp) (notNanIdx fs) kept).filterMap (idOf fp fs) ↔
      CollocatedSel dist r mi fp fs i j iv d := by
  rw [List.mem_filterMap]
  constructor
  · rintro ⟨k, hk', hid⟩
    obtain ⟨⟨⟨a, b⟩, iv', d'⟩, hmem, rfl⟩ := List.mem_map.mp hk'
    obtain ⟨x, y, hx, hy, hn, hc, rfl, rfl⟩ := (hk.2 a b iv' d').mp hmem
    obtain ⟨i0, p, hi, hp, hp1, hp2⟩ := nn_row fp a x hx
    obtain ⟨j0, q, hj, hq, hq1, hq2⟩ := nn_row fs b y hy
    simp only [idOf, getD_of_getElem? _ _ _ hi, getD_of_getElem? _ _ _ hj, hp, hq,
      Option.some.injEq, Prod.mk.injEq] at hid
    obtain ⟨⟨rfl, rfl⟩, rfl, rfl⟩ := hid
    exact ⟨p, List.mem_of_getElem? hp, q, List.mem_of_getElem? hq, rfl, rfl, x.pos, y.pos, hp1, hq1,
      hn, by rw [hp2, hq2]; exact hc, by rw [hp2, hq2], rfl⟩
  · rintro ⟨p, hp, q, hq, rfl, rfl, px, py, hp1, hq1, hn, hc, rfl, rfl⟩
    obtain ⟨a, i0, ha, hi, hpi⟩ := nn_row_of_mem fp p hp px hp1
    obtain ⟨b, j0, hb, hj, hqj⟩ := nn_row_of_mem fs q hq py hq1
    have hmem : ((a, b), ivOf p.time q.time, distKm .minkowski dist px py) ∈ kept :=
      (hk.2 a b _ _).mpr ⟨_, _, ha, hb, hn, hc, rfl, rfl⟩
    refine ⟨_, List.mem_map.mpr ⟨_, hmem, rfl⟩, ?_⟩
    simp only [idOf, getD_of_getElem? _ _ _ hi, getD_of_getElem? _ _ _ hj, hpi, hqj]

theorem reindex_fst_nodup (dist : Pos → Pos → α) (r : α) (mi : Int) (fp fs : List (Pt Pos))
    (kept : List ((Nat × Nat) × Int × α))
    (hk : KeptSpec dist r mi (dropNan fp) (dropNan fs) kept) :
    ((reindex (notNanIdx fp) (notNanIdx fs) kept).map (·.1)).Nodup := by
  unfold reindex
  rw [List.map_map]
  have : ((fun k : (Nat × Nat) × Int × α => k.1) ∘
      fun k : (Nat × Nat) × Int × α => (((notNanIdx fp).getD k.1.1 0, (notNanIdx fs).getD k.1.2 0), k.2.1, k.2.2))
      = (fun o : Nat × Nat => ((notNanIdx fp).getD o.1 0, (notNanIdx fs).getD o.2 0)) ∘ (·.1) := by
    funext k; rfl
  rw [this, ← List.map_map]
  refine List.Nodup.map_on ?_ hk.1
  rintro ⟨a, b⟩ hx ⟨a', b'⟩ hy hxy
  obtain ⟨k, hk1, hk2⟩ := List.mem_map.mp hx
  obtain ⟨k', hk1', hk2'⟩ := List.mem_map.mp hy
  have r1 := kept_range dist r mi _ _ kept hk k hk1
  have r2 := kept_range dist r mi _ _ kept hk k' hk1'
  rw [hk2] at r1; rw [hk2'] at r2
  simp only [Prod.mk.injEq] at hxy
  simp only at r1 r2
  rw [← length_notNanIdx, ← length_notNanIdx] at r1 r2
  have inj : ∀ (l : List Nat), l.Nodup → ∀ u v, u < l.length → v < l.length →
      l.getD u 0 = l.getD v 0 → u = v := by
    intro l hl u v hu hv h
    simp only [List.getD_eq_getElem?_getD, List.getElem?_eq_getElem hu, List.getElem?_eq_getElem hv,
      Option.getD_some] at h
    exact (hl.getElem_inj_iff).mp h
  rw [inj _ (notNanIdx_nodup fp) a a' r1.1 r2.1 hxy.1, inj _ (notNanIdx_nodup fs) b b' r1.2 r2.2 hxy.2]

/-- with unique ids, no id pair is reported twice -/
theorem idPairs_nodup (dist : Pos → Pos → α) (r : α) (mi : Int) (fp fs : List (Pt Pos))
    (kept : List ((Nat × Nat) × Int × α))
    (hk : KeptSpec dist r mi (dropNan fp) (dropNan fs) kept)
    (hid1 : (fp.map (·.id)).Nodup) (hid2 : (fs.map (·.id)).Nodup) :
    (((reindex (notNanIdx fp) (notNanIdx fs) kept).filterMap (idOf fp fs)).map (·.1)).Nodup := by
  have hnd := reindex_fst_nodup dist r mi fp fs kept hk
  rw [List.Nodup, List.pairwise_map] at hnd ⊢
  refine List.Pairwise.filterMap _ ?_ hnd
  intro k k' hne b hb b' hb' heq
  apply hne
  unfold idOf at hb hb'
  cases h1 : fp[k.1.1]? with
  | none => simp [h1] at hb
  | some x =>
  cases h2 : fs[k.1.2]? with
  | none => simp [h1, h2] at hb
  | some y =>
  cases h3 : fp[k'.1.1]? with
  | none => simp [h3] at hb'
  | some x' =>
  cases h4 : fs[k'.1.2]? with
  | none => simp [h3, h4] at hb'
  | some y' =>
  simp only [h1, h2, h3, h4, Option.some.injEq] at hb hb'
  subst hb; subst hb'
  simp only [Prod.mk.injEq] at heq
  have injid : ∀ (l : List (Pt Pos)), (l.map (·.id)).Nodup → ∀ (u v : Nat) (a b : Pt Pos),
      l[u]? = some a → l[v]? = some b → a.id = b.id → u = v := by
    intro l hl u v a b hu hv hab
    obtain ⟨hu', rfl⟩ := List.getElem?_eq_some_iff.mp hu
    obtain ⟨hv', rfl⟩ := List.getElem?_eq_some_iff.mp hv
    have := (hl.getElem_inj_iff (i := u) (j := v) (hi := by simpa using hu') (hj := by simpa using hv')).mp
      (by simpa using hab)
    exact this
  exact Prod.ext (injid fp hid1 _ _ _ _ h1 h3 heq.1) (injid fs hid2 _ _ _ _ h2 h4 heq.2)

end Pipe

end Colloc
