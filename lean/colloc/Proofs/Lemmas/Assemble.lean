import Proofs.Lemmas.Binning

set_option linter.unusedSectionVars false
set_option linter.unusedVariables false

/-!
Bookkeeping around the search: time window, sort, flattening, NaN filter with index maps,
temporal check, `_to_original`, compaction (`_create_return`).
-/

namespace Colloc
open Geo

variable {Pos : Type}

/-! ### min / max -/

theorem minList_le (l : List Int) (m : Int) (h : minList l = some m) : ∀ x ∈ l, m ≤ x := by
  cases l with
  | nil => simp [minList] at h
  | cons a rest =>
    simp only [minList, Option.some.injEq] at h
    subst h
    have key : ∀ (l : List Int) (acc : Int), l.foldl min acc ≤ acc ∧ ∀ x ∈ l, l.foldl min acc ≤ x := by
      intro l
      induction l with
      | nil => intro acc; simp
      | cons b l ih =>
        intro acc
        obtain ⟨h1, h2⟩ := ih (min acc b)
        simp only [List.foldl_cons]
        refine ⟨le_trans h1 (min_le_left _ _), ?_⟩
        intro x hx
        rcases List.mem_cons.mp hx with rfl | hx
        · exact le_trans h1 (min_le_right _ _)
        · exact h2 x hx
    intro x hx
    rcases List.mem_cons.mp hx with rfl | hx
    · exact (key rest x).1
    · exact (key rest a).2 x hx

theorem minList_isSome (l : List Int) (h : l ≠ []) : ∃ m, minList l = some m := by
  cases l with
  | nil => exact absurd rfl h
  | cons a rest => exact ⟨_, rfl⟩

theorem maxList_isSome (l : List Int) (h : l ≠ []) : ∃ m, maxList l = some m := by
  cases l with
  | nil => exact absurd rfl h
  | cons a rest => exact ⟨_, rfl⟩

/-! ### window, sort, flatten -/

/-- the user's `[start, end]` -/
def inUser (start stop : Option Int) (t : Int) : Prop :=
  (∀ a, start = some a → a ≤ t) ∧ (∀ b, stop = some b → t ≤ b)

theorem mem_flatten (d : List (Line Pos)) (x : Pt Pos) :
    x ∈ flatten d ↔ ∃ l ∈ d, ∃ c j, l.cells[j]? = some c ∧ x = ⟨l.time, c.pos, c.id, l.label, j⟩ := by
  unfold flatten
  simp only [List.mem_flatMap, List.mem_map, Prod.exists]
  constructor
  · rintro ⟨l, hl, c, j, hm, rfl⟩
    exact ⟨l, hl, c, j, List.mem_zipIdx_iff_getElem?.mp hm, rfl⟩
  · rintro ⟨l, hl, c, j, hm, rfl⟩
    exact ⟨l, hl, c, j, List.mem_zipIdx_iff_getElem?.mpr hm, rfl⟩

theorem mem_selectLines (d : List (Line Pos)) (lo hi : Int) (l : Line Pos) :
    l ∈ selectLines d lo hi ↔ l ∈ d ∧ lo ≤ l.time ∧ l.time ≤ hi := by
  unfold selectLines
  rw [(List.mergeSort_perm _ _).mem_iff, List.mem_filter]
  simp [inWindow]

/-- the selected, flattened dataset contains exactly the points of the window -/
theorem mem_flatten_select (d : List (Line Pos)) (lo hi : Int) (x : Pt Pos) :
    x ∈ flatten (selectLines d lo hi) ↔ x ∈ flatten d ∧ lo ≤ x.time ∧ x.time ≤ hi := by
  simp only [mem_flatten, mem_selectLines]
  constructor
  · rintro ⟨l, ⟨hl, h1, h2⟩, c, j, hc, rfl⟩
    exact ⟨⟨l, hl, c, j, hc, rfl⟩, h1, h2⟩
  · rintro ⟨⟨l, hl, c, j, hc, rfl⟩, h1, h2⟩
    exact ⟨l, ⟨hl, h1, h2⟩, c, j, hc, rfl⟩

theorem time_mem_of_mem_flatten (d : List (Line Pos)) (x : Pt Pos) (h : x ∈ flatten d) :
    x.time ∈ d.map (·.time) := by
  obtain ⟨l, hl, c, j, _, rfl⟩ := (mem_flatten d x).mp h
  exact List.mem_map.mpr ⟨l, hl, rfl⟩

/-- the flattened selection is sorted by time -/
theorem flatten_select_sorted (d : List (Line Pos)) (lo hi : Int) :
    (flatten (selectLines d lo hi)).Pairwise (fun a b => a.time ≤ b.time) := by
  have hs : (selectLines d lo hi).Pairwise (fun a b => a.time ≤ b.time) := by
    have := List.pairwise_mergeSort (le := fun a b : Line Pos => decide (a.time ≤ b.time))
      (by intro a b c; simp; exact le_trans) (by intro a b; simp; exact le_total _ _)
      (d.filter (fun l => inWindow lo hi l.time))
    exact this.imp (by simp)
  unfold flatten
  rw [List.pairwise_flatMap]
  refine ⟨?_, ?_⟩
  · intro l _
    rw [List.pairwise_map]
    exact List.pairwise_of_forall (fun _ _ => le_refl _)
  · refine hs.imp ?_
    intro a b hab x hx y hy
    obtain ⟨_, _, rfl⟩ := List.mem_map.mp hx
    obtain ⟨_, _, rfl⟩ := List.mem_map.mp hy
    exact hab

theorem dropNan_sorted (pts : List (Pt Pos)) (h : pts.Pairwise (fun a b => a.time ≤ b.time)) :
    ((dropNan pts).map (·.time)).Pairwise (· ≤ ·) := by
  rw [List.pairwise_map]
  unfold dropNan
  refine List.Pairwise.filterMap _ ?_ h
  intro a a' haa b hb b' hb'
  cases ha : a.pos with
  | none => simp [ha] at hb
  | some x =>
    cases ha' : a'.pos with
    | none => simp [ha'] at hb'
    | some x' =>
      simp only [ha, ha', Option.map_some, Option.some.injEq] at hb hb'
      subst hb; subst hb'; exact haa

/-- pairs that are close in time and inside the user's window lie inside the common
window: restricting the search to it loses nothing -/
theorem window_complete (p s : List (Line Pos)) (mi : Int) (start stop : Option Int) (lo hi : Int)
    (hw : commonWindow p s mi start stop = some (lo, hi)) (x y : Pt Pos)
    (hx : x ∈ flatten p) (hy : y ∈ flatten s) (hc : closeT mi x.time y.time)
    (ux : inUser start stop x.time) (uy : inUser start stop y.time) :
    (lo ≤ x.time ∧ x.time ≤ hi) ∧ (lo ≤ y.time ∧ y.time ≤ hi) := by
  unfold commonWindow at hw
  cases h1 : minList (p.map (·.time)) with
  | none => simp [h1] at hw
  | some pmin =>
  cases h2 : minList (s.map (·.time)) with
  | none => simp [h1, h2] at hw
  | some smin =>
  cases h3 : maxList (p.map (·.time)) with
  | none => simp [h1, h2, h3] at hw
  | some pmax =>
  cases h4 : maxList (s.map (·.time)) with
  | none => simp [h1, h2, h3, h4] at hw
  | some smax =>
  simp only [h1, h2, h3, h4, Option.some.injEq, Prod.mk.injEq] at hw
  obtain ⟨rfl, rfl⟩ := hw
  have a1 := minList_le _ _ h1 _ (time_mem_of_mem_flatten p x hx)
  have a2 := minList_le _ _ h2 _ (time_mem_of_mem_flatten s y hy)
  have a3 := maxList_ge _ _ h3 _ (time_mem_of_mem_flatten p x hx)
  have a4 := maxList_ge _ _ h4 _ (time_mem_of_mem_flatten s y hy)
  obtain ⟨c1, c2⟩ := hc
  obtain ⟨ux1, ux2⟩ := ux
  obtain ⟨uy1, uy2⟩ := uy
  have hlo : ∀ t : Int, pmin - mi ≤ t → smin - mi ≤ t → (∀ a, start = some a → a ≤ t) →
      optMax start (max (pmin - mi) (smin - mi)) ≤ t := by
    intro t t1 t2 t3
    cases start with
    | none => simp only [optMax]; exact max_le t1 t2
    | some a => simp only [optMax]; exact max_le (t3 a rfl) (max_le t1 t2)
  have hhi : ∀ t : Int, t ≤ pmax + mi → t ≤ smax + mi → (∀ b, stop = some b → t ≤ b) →
      t ≤ optMin stop (min (pmax + mi) (smax + mi)) := by
    intro t t1 t2 t3
    cases stop with
    | none => simp only [optMin]; exact le_min t1 t2
    | some b => simp only [optMin]; exact le_min (t3 b rfl) (le_min t1 t2)
  exact ⟨⟨hlo _ (by omega) (by omega) ux1, hhi _ (by omega) (by omega) ux2⟩,
         ⟨hlo _ (by omega) (by omega) uy1, hhi _ (by omega) (by omega) uy2⟩⟩

/-- points of the common window are inside the user's window -/
theorem window_sound (p s : List (Line Pos)) (mi : Int) (start stop : Option Int) (lo hi : Int)
    (hw : commonWindow p s mi start stop = some (lo, hi)) (t : Int) (h1 : lo ≤ t) (h2 : t ≤ hi) :
    inUser start stop t := by
  unfold commonWindow at hw
  cases e1 : minList (p.map (·.time)) with
  | none => simp [e1] at hw
  | some pmin =>
  cases e2 : minList (s.map (·.time)) with
  | none => simp [e1, e2] at hw
  | some smin =>
  cases e3 : maxList (p.map (·.time)) with
  | none => simp [e1, e2, e3] at hw
  | some pmax =>
  cases e4 : maxList (s.map (·.time)) with
  | none => simp [e1, e2, e3, e4] at hw
  | some smax =>
  simp only [e1, e2, e3, e4, Option.some.injEq, Prod.mk.injEq] at hw
  obtain ⟨rfl, rfl⟩ := hw
  constructor
  · intro a ha; subst ha
    simp only [optMax] at h1
    exact le_trans (le_max_left _ _) h1
  · intro b hb; subst hb
    simp only [optMin] at h2
    exact le_trans h2 (min_le_left _ _)

theorem commonWindow_isSome (p s : List (Line Pos)) (mi : Int) (start stop : Option Int)
    (hp : p ≠ []) (hs : s ≠ []) : ∃ lo hi, commonWindow p s mi start stop = some (lo, hi) := by
  obtain ⟨a, ha⟩ := minList_isSome (p.map (·.time)) (by simpa using hp)
  obtain ⟨b, hb⟩ := minList_isSome (s.map (·.time)) (by simpa using hs)
  obtain ⟨c, hc⟩ := maxList_isSome (p.map (·.time)) (by simpa using hp)
  obtain ⟨e, he⟩ := maxList_isSome (s.map (·.time)) (by simpa using hs)
  simp only [commonWindow, ha, hb, hc, he]
  exact ⟨_, _, rfl⟩

/-! ### NaN filter with its index map -/

/-- joint view of `np.arange(n)[not_nans]` and `values[not_nans]` -/
def nnJoint (pts : List (Pt Pos)) : List (Nat × NPt Pos) :=
  pts.zipIdx.filterMap (fun pi => pi.1.pos.map (fun x => (pi.2, (⟨x, pi.1.time⟩ : NPt Pos))))

theorem notNanIdx_eq (pts : List (Pt Pos)) : notNanIdx pts = (nnJoint pts).map Prod.fst := by
  unfold notNanIdx nnJoint
  generalize pts.zipIdx = L
  induction L with
  | nil => rfl
  | cons a rest ih =>
    cases h : a.1.pos with
    | none => simp [List.filter_cons, List.filterMap_cons, h, ih]
    | some x => simp [List.filter_cons, List.filterMap_cons, h, ih]

theorem dropNan_eq (pts : List (Pt Pos)) : dropNan pts = (nnJoint pts).map Prod.snd := by
  unfold dropNan nnJoint
  have key : ∀ (l : List (Pt Pos)) (k : Nat),
      l.filterMap (fun p => p.pos.map (fun x => (⟨x, p.time⟩ : NPt Pos))) =
      ((l.zipIdx k).filterMap (fun pi => pi.1.pos.map
        (fun x => (pi.2, (⟨x, pi.1.time⟩ : NPt Pos))))).map Prod.snd := by
    intro l
    induction l with
    | nil => intro k; rfl
    | cons a rest ih =>
      intro k
      cases h : a.pos with
      | none => simp [List.filterMap_cons, List.zipIdx_cons, h, ih (k + 1)]
      | some x => simp [List.filterMap_cons, List.zipIdx_cons, h, ih (k + 1)]
  exact key pts 0

theorem mem_nnJoint (pts : List (Pt Pos)) (i : Nat) (x : NPt Pos) :
    (i, x) ∈ nnJoint pts ↔ ∃ p, pts[i]? = some p ∧ p.pos = some x.pos ∧ p.time = x.time := by
  unfold nnJoint
  simp only [List.mem_filterMap, Prod.exists, Option.map_eq_some_iff, Prod.mk.injEq]
  constructor
  · rintro ⟨p, j, hm, px, hpx, rfl, rfl⟩
    exact ⟨p, List.mem_zipIdx_iff_getElem?.mp hm, hpx, rfl⟩
  · rintro ⟨p, hp, hpos, htime⟩
    refine ⟨p, i, List.mem_zipIdx_iff_getElem?.mpr hp, x.pos, hpos, rfl, ?_⟩
    cases x; simp_all

theorem notNanIdx_nodup (pts : List (Pt Pos)) : (notNanIdx pts).Nodup := by
  unfold notNanIdx
  have h : (pts.zipIdx.map Prod.snd).Nodup := by
    rw [List.zipIdx_map_snd]; exact List.nodup_range' ..
  exact List.Nodup.sublist ((List.filter_sublist).map _) h

/-- row `a` of the NaN-free arrays is row `nn[a]` of the flattened dataset -/
theorem nn_row (pts : List (Pt Pos)) (a : Nat) (x : NPt Pos) (hx : (dropNan pts)[a]? = some x) :
    ∃ i p, (notNanIdx pts)[a]? = some i ∧ pts[i]? = some p ∧ p.pos = some x.pos ∧ p.time = x.time := by
  rw [dropNan_eq, List.getElem?_map] at hx
  cases hj : (nnJoint pts)[a]? with
  | none => simp [hj] at hx
  | some ix =>
    obtain ⟨i, x'⟩ := ix
    simp only [hj, Option.map_some, Option.some.injEq] at hx
    subst hx
    obtain ⟨p, hp, h1, h2⟩ := (mem_nnJoint pts i x').mp (List.mem_of_getElem? hj)
    exact ⟨i, p, by simp [notNanIdx_eq, List.getElem?_map, hj], hp, h1, h2⟩

/-- every non-NaN point of the flattened dataset is a row of the NaN-free arrays -/
theorem nn_row_of_mem (pts : List (Pt Pos)) (p : Pt Pos) (hp : p ∈ pts) (px : Pos)
    (hpos : p.pos = some px) :
    ∃ a i : Nat, (dropNan pts)[a]? = some (⟨px, p.time⟩ : NPt Pos) ∧ (notNanIdx pts)[a]? = some i ∧
      pts[i]? = some p := by
  obtain ⟨i, hi⟩ := List.mem_iff_getElem?.mp hp
  have hm : (i, (⟨px, p.time⟩ : NPt Pos)) ∈ nnJoint pts :=
    (mem_nnJoint pts i _).mpr ⟨p, hi, hpos, rfl⟩
  obtain ⟨a, ha⟩ := List.mem_iff_getElem?.mp hm
  exact ⟨a, i, by simp [dropNan_eq, List.getElem?_map, ha],
    by simp [notNanIdx_eq, List.getElem?_map, ha], hi⟩

theorem length_notNanIdx (pts : List (Pt Pos)) : (notNanIdx pts).length = (dropNan pts).length := by
  rw [notNanIdx_eq, dropNan_eq]; simp

/-! ### `pd.unique` -/

theorem mem_uniqueFirstAux (seen xs : List Nat) (x : Nat) :
    x ∈ uniqueFirstAux seen xs ↔ x ∈ xs ∧ x ∉ seen := by
  induction xs generalizing seen with
  | nil => simp [uniqueFirstAux]
  | cons y ys ih =>
    unfold uniqueFirstAux
    by_cases hy : seen.contains y = true
    · simp only [hy, if_true, ih, List.mem_cons]
      have : y ∈ seen := by simpa using hy
      constructor
      · rintro ⟨h1, h2⟩; exact ⟨Or.inr h1, h2⟩
      · rintro ⟨h1 | h1, h2⟩
        · subst h1; exact absurd this h2
        · exact ⟨h1, h2⟩
    · have hy' : y ∉ seen := by simpa using hy
      simp only [hy, Bool.false_eq_true, if_false, List.mem_cons, ih]
      constructor
      · rintro (rfl | ⟨h1, h2⟩)
        · exact ⟨Or.inl rfl, hy'⟩
        · exact ⟨Or.inr h1, fun h => h2 (Or.inr h)⟩
      · rintro ⟨h1 | h1, h2⟩
        · exact Or.inl h1
        · by_cases hxy : x = y
          · exact Or.inl hxy
          · exact Or.inr ⟨h1, by rintro (h | h); exact hxy h; exact h2 h⟩

theorem mem_uniqueFirst (xs : List Nat) (x : Nat) : x ∈ uniqueFirst xs ↔ x ∈ xs := by
  simp [uniqueFirst, mem_uniqueFirstAux]

end Colloc
