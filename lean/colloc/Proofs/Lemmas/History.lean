import Proofs.Lemmas.Main

set_option linter.unusedSectionVars false
set_option linter.unusedVariables false

/-!
The invariant `Inv` of the Collocator object survives **every** call of `collocate` —
successful or raising, with any data, thresholds, tuning and (even invalid) cut —
so it holds after any history of calls on a fresh object.
-/

namespace Colloc
open Geo

section Hist
variable {Pos α : Type} [DecidableEq Pos] [Field α] [LinearOrder α] [IsStrictOrderedRing α]

theorem buildIndex_inv (shuf : Nat → List Pos → List Nat) (hshuf : ValidShuf shuf)
    (st : SState Pos) (hinv : Inv st) (bp : List Pos) :
    ∀ st2 ix, buildIndex shuf st bp = .ok (st2, ix) → Inv st2 := by
  intro st2 ix h
  by_cases hbp : bp = []
  · subst hbp
    unfold buildIndex at h
    by_cases hc : isCached st [] = true
    · obtain ⟨ix', hix', _⟩ := (isCached_iff st []).mp hc
      simp only [hc, if_true, hix'] at h
      cases h; exact hinv
    · simp [hc] at h
  · obtain ⟨st2', ix', h', hinv', _⟩ := buildIndex_spec shuf hshuf st hinv bp hbp
    rw [h'] at h; cases h; exact hinv'

theorem spatialSearch_inv (T : TreeFn Pos α) (shuf : Nat → List Pos → List Nat)
    (hshuf : ValidShuf shuf) (mf : Nat) (st : SState Pos) (hinv : Inv st) (p1 p2 : List Pos) (r : α) :
    Inv (spatialSearch T shuf mf st p1 p2 r).1 := by
  unfold spatialSearch
  simp only
  split
  · exact inv_set_iwp st hinv _
  · rename_i st2 ix hb
    have hinv2 := buildIndex_inv shuf hshuf _ (inv_set_iwp st hinv _) _ st2 ix hb
    repeat' split
    all_goals exact hinv2

theorem binStep_inv (T : TreeFn Pos α) (shuf : Nat → List Pos → List Nat) (hshuf : ValidShuf shuf)
    (mf : Nat) (mi : Int) (r : α) (P S : List (NPt Pos)) (label : Int) (len pos : Nat)
    (st : SState Pos) (hinv : Inv st) : Inv (binStep T shuf mf mi r P S label len pos st).1 := by
  unfold binStep
  simp only
  split
  · exact hinv
  · rename_i tmax _
    split
    · exact hinv
    · have := spatialSearch_inv T shuf hshuf mf st hinv
        (((P.drop pos).take len).map (·.pos))
        ((locSlice S (searchsortedLeft (S.map (·.time)) (label - mi)) (tmax + mi)).map (·.pos)) r
      split <;> (rename_i h; rw [h] at this; exact this)

theorem binLoop_inv (T : TreeFn Pos α) (shuf : Nat → List Pos → List Nat) (hshuf : ValidShuf shuf)
    (mf : Nat) (mi : Int) (r : α) (P S : List (NPt Pos)) (cut : List (Int × Nat)) (pos : Nat)
    (st : SState Pos) (hinv : Inv st) : Inv (binLoop T shuf mf mi r P S cut pos st).1 := by
  induction cut generalizing pos st with
  | nil => exact hinv
  | cons c rest ih =>
    obtain ⟨label, len⟩ := c
    unfold binLoop
    have h1 := binStep_inv T shuf hshuf mf mi r P S label len pos st hinv
    split
    · rename_i h; rw [h] at h1; exact h1
    · rename_i st' pairs ds h
      rw [h] at h1
      have h2 := ih (pos + len) st' h1
      split <;> (rename_i h'; rw [h'] at h2; exact h2)

theorem binnedSearch_inv (T : TreeFn Pos α) (shuf : Nat → List Pos → List Nat)
    (hshuf : ValidShuf shuf) (mf : Nat) (mi : Int) (r : α) (st : SState Pos) (hinv : Inv st)
    (prim sec : List (NPt Pos)) (cut : List (Int × Nat)) :
    Inv (binnedSearch T shuf mf mi r st prim sec cut).1 := by
  unfold binnedSearch
  simp only
  have h := binLoop_inv T shuf hshuf mf mi r
    (if decide (sec.length > prim.length) = true then sec else prim)
    (if decide (sec.length > prim.length) = true then prim else sec) cut 0 st hinv
  split
  · rename_i h'; rw [h'] at h; exact h
  · rename_i h'; rw [h'] at h
    split <;> exact h

/-- **every call keeps the invariant** -/
theorem collocate_inv (T : TreeFn Pos α) (shuf : Nat → List Pos → List Nat)
    (hshuf : ValidShuf shuf) (tn : Tuning) (st : SState Pos) (hinv : Inv st)
    (p s : List (Line Pos)) (mi : Int) (r : α) (start stop : Option Int) :
    Inv (collocate T shuf tn st p s mi r start stop).1 := by
  unfold collocate
  split
  · exact hinv
  · exact hinv
  · rename_i fp fs _
    simp only
    split
    · exact hinv
    · have hf : Inv (if (dropNan fp).length * (dropNan fs).length > tn.thr then
          binnedSearch T shuf tn.mf mi r st (dropNan fp) (dropNan fs) tn.cut
        else spatialSearch T shuf tn.mf st ((dropNan fp).map (·.pos)) ((dropNan fs).map (·.pos)) r).1 := by
        split
        · exact binnedSearch_inv T shuf hshuf tn.mf mi r st hinv _ _ _
        · exact spatialSearch_inv T shuf hshuf tn.mf st hinv _ _ r
      split
      · rename_i h; rw [h] at hf; exact hf
      · rename_i h; rw [h] at hf
        split
        · exact hf
        · split
          · exact hf
          · split <;> exact hf

/-- after any history of calls on a fresh Collocator the invariant holds -/
theorem runHistory_inv (T : TreeFn Pos α) (shuf : Nat → List Pos → List Nat)
    (hshuf : ValidShuf shuf) (st : SState Pos) (hinv : Inv st)
    (h : List (Tuning × List (Line Pos) × List (Line Pos) × Int × α × Option Int × Option Int)) :
    Inv (runHistory T shuf st h) := by
  induction h generalizing st with
  | nil => exact hinv
  | cons c rest ih =>
    obtain ⟨tn, p, s, mi, r, a, b⟩ := c
    exact ih _ (collocate_inv T shuf hshuf tn st hinv p s mi r a b)

end Hist

end Colloc
