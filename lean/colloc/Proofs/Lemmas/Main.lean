import Proofs.Lemmas.Pipeline

set_option linter.unusedSectionVars false
set_option linter.unusedVariables false

/-!
`collocate` end to end (after `_prepare_data`): for every object state satisfying `Inv`,
every contract-abiding tree, every permutation family, every tuning and every valid cut.
-/

namespace Colloc
open Geo

section Main
variable {Pos α : Type} [DecidableEq Pos] [Field α] [LinearOrder α] [IsStrictOrderedRing α]

/-- the collocations of an outcome (`None` = no collocation) -/
def outPairs : Option (Result Pos α) → List ((Nat × Nat) × Int × α)
  | none => []
  | some res => res.idPairs

/-- hypothesis on the tuning for the data at hand: when the pre-binned path is taken
(more than `thr` candidate pairs) the supplied cut is a valid cut of the larger array -/
def CutOK (tn : Tuning) (A B : List (NPt Pos)) : Prop :=
  A.length * B.length > tn.thr →
    ValidCut ((if B.length > A.length then B else A).map (·.time)) tn.cut 0

/-- the candidate search of `collocate` (direct or pre-binned) yields a valid candidate
list and keeps the invariant -/
theorem found_spec (dist : Pos → Pos → α) (hsym : ∀ a b, dist a b = dist b a)
    (T : TreeFn Pos α) (hT : TreeOK dist T) (shuf : Nat → List Pos → List Nat)
    (hshuf : ValidShuf shuf) (tn : Tuning) (st : SState Pos) (hinv : Inv st) (mi : Int) (r : α)
    (A B : List (NPt Pos)) (hA : A ≠ []) (hB : B ≠ [])
    (hsA : (A.map (·.time)).Pairwise (· ≤ ·)) (hsB : (B.map (·.time)).Pairwise (· ≤ ·))
    (hcut : CutOK tn A B) :
    ∃ st' pairs ds,
      (if A.length * B.length > tn.thr then binnedSearch T shuf tn.mf mi r st A B tn.cut
       else spatialSearch T shuf tn.mf st (A.map (·.pos)) (B.map (·.pos)) r) = (st', .ok (pairs, ds)) ∧
      Inv st' ∧ CandSpec dist r mi A B pairs ds := by
  by_cases hbig : A.length * B.length > tn.thr
  · simp only [hbig, if_true]
    exact binnedSearch_spec dist hsym T hT shuf hshuf tn.mf mi r st hinv A B hsA hsB tn.cut (hcut hbig)
  · simp only [hbig, if_false]
    obtain ⟨st', pairs, ds, e, hinv', hq⟩ := spatialSearch_spec dist hsym T hT shuf hshuf tn.mf st hinv
      (A.map (·.pos)) (B.map (·.pos)) (by simpa using hA) (by simpa using hB) r
    exact ⟨st', pairs, ds, e, hinv', candSpec_of_querySpec dist r mi A B pairs ds hq⟩

theorem dropNan_ne_nil_of_collocated (fp : List (Pt Pos)) (x : Pt Pos) (hx : x ∈ fp) (px : Pos)
    (hp : x.pos = some px) : dropNan fp ≠ [] := by
  obtain ⟨a, i, ha, _, _⟩ := nn_row_of_mem fp x hx px hp
  intro h; rw [h] at ha; simp at ha

/-- **collocate after `_prepare_data`** -/
theorem collocate_sel_spec (dist : Pos → Pos → α) (hsym : ∀ a b, dist a b = dist b a)
    (T : TreeFn Pos α) (hT : TreeOK dist T) (shuf : Nat → List Pos → List Nat)
    (hshuf : ValidShuf shuf) (tn : Tuning) (st : SState Pos) (hinv : Inv st)
    (p s : List (Line Pos)) (mi : Int) (r : α) (start stop : Option Int) (fp fs : List (Pt Pos))
    (hprep : prepare p s mi start stop = .ok (some (fp, fs)))
    (hsP : fp.Pairwise (fun a b => a.time ≤ b.time)) (hsS : fs.Pairwise (fun a b => a.time ≤ b.time))
    (hcut : CutOK tn (dropNan fp) (dropNan fs)) :
    ∃ st' out, collocate T shuf tn st p s mi r start stop = (st', .ok out) ∧ Inv st' ∧
      (∀ i j iv d, ((i, j), iv, d) ∈ outPairs out ↔ CollocatedSel dist r mi fp fs i j iv d) ∧
      (out = none ↔ ∀ i j iv d, ¬ CollocatedSel dist r mi fp fs i j iv d) ∧
      ((fp.map (·.id)).Nodup → (fs.map (·.id)).Nodup → ((outPairs out).map (·.1)).Nodup) := by
  unfold collocate
  simp only [hprep]
  set A := dropNan fp with hA
  set B := dropNan fs with hB
  by_cases hAB : (A.isEmpty || B.isEmpty) = true
  · have hno : ∀ i j iv d, ¬ CollocatedSel dist r mi fp fs i j iv d := by
      rintro i j iv d ⟨x, hx, y, hy, _, _, px, py, hpx, hpy, _⟩
      have h1 := dropNan_ne_nil_of_collocated fp x hx px hpx
      have h2 := dropNan_ne_nil_of_collocated fs y hy py hpy
      rcases Bool.or_eq_true _ _ |>.mp hAB with h | h
      · exact h1 (by simpa using h)
      · exact h2 (by simpa using h)
    simp only [hAB, if_true]
    exact ⟨st, none, rfl, hinv, fun i j iv d => by simp [outPairs, hno i j iv d],
      ⟨fun _ => hno, fun _ => rfl⟩, fun _ _ => by simp [outPairs]⟩
  · have hAne : A ≠ [] := by
      intro h; apply hAB; simp [h]
    have hBne : B ≠ [] := by
      intro h; apply hAB; simp [h]
    simp only [hAB, Bool.false_eq_true, if_false]
    obtain ⟨st', pairs, ds, hfound, hinv', hcand⟩ := found_spec dist hsym T hT shuf hshuf tn st hinv mi r
      A B hAne hBne (dropNan_sorted fp hsP) (dropNan_sorted fs hsS) hcut
    rw [hfound]
    simp only
    by_cases hpe : pairs.isEmpty = true
    · have hpn : pairs = [] := by simpa using hpe
      have hno : ∀ i j iv d, ¬ CollocatedSel dist r mi fp fs i j iv d := by
        rintro i j iv d ⟨x, hx, y, hy, _, _, px, py, hpx, hpy, hn, hc, _⟩
        obtain ⟨a, _, ha, _, _⟩ := nn_row_of_mem fp x hx px hpx
        obtain ⟨b, _, hb, _, _⟩ := nn_row_of_mem fs y hy py hpy
        have := hcand.complete a b _ _ ha hb hn hc
        rw [hpn] at this; simp at this
      simp only [hpe, if_true]
      exact ⟨st', none, rfl, hinv', fun i j iv d => by simp [outPairs, hno i j iv d],
        ⟨fun _ => hno, fun _ => rfl⟩, fun _ _ => by simp [outPairs]⟩
    · simp only [hpe, Bool.false_eq_true, if_false]
      obtain ⟨kept, hkept, hk⟩ := temporalCheck_spec dist r mi A B pairs ds hcand
      rw [hkept]
      simp only
      have hrange := kept_range dist r mi A B kept hk
      have hto := toOriginal_ok (notNanIdx fp) (notNanIdx fs) (kept.map (·.1)) (by
        intro o ho
        obtain ⟨k, hk', rfl⟩ := List.mem_map.mp ho
        rw [length_notNanIdx, length_notNanIdx]
        exact hrange k hk')
      rw [hto]
      simp only
      set K := reindex (notNanIdx fp) (notNanIdx fs) kept with hK
      have e1 : (kept.map (·.1)).map (fun p => ((notNanIdx fp).getD p.1 0, (notNanIdx fs).getD p.2 0))
          = K.map (·.1) := by simp [hK, reindex, List.map_map, Function.comp]
      have e2 : kept.map (·.2.1) = K.map (·.2.1) := by simp [hK, reindex, List.map_map, Function.comp]
      have e3 : kept.map (·.2.2) = K.map (·.2.2) := by simp [hK, reindex, List.map_map, Function.comp]
      rw [e1, e2, e3]
      obtain ⟨c1, c2⟩ := createReturn_idPairs fp fs K (reindex_range dist r mi fp fs kept hk)
      have hmem := mem_idPairs_iff dist r mi fp fs kept hk
      by_cases hKe : K = []
      · have hno : ∀ i j iv d, ¬ CollocatedSel dist r mi fp fs i j iv d := by
          intro i j iv d hc
          have := (hmem i j iv d).mpr hc
          rw [← hK, hKe] at this; simp at this
        rw [c1 hKe]
        exact ⟨st', none, rfl, hinv', fun i j iv d => by simp [outPairs, hno i j iv d],
          ⟨fun _ => hno, fun _ => rfl⟩, fun _ _ => by simp [outPairs]⟩
      · obtain ⟨res, hres, hid⟩ := c2 hKe
        rw [hres]
        refine ⟨st', some res, rfl, hinv', ?_, ?_, ?_⟩
        · intro i j iv d
          simp only [outPairs, hid]
          exact hmem i j iv d
        · constructor
          · intro h; cases h
          · intro hno
            exfalso
            obtain ⟨k, hk'⟩ := List.exists_mem_of_ne_nil K hKe
            obtain ⟨⟨⟨a, b⟩, iv, d⟩, hkm, rfl⟩ := List.mem_map.mp hk'
            obtain ⟨x, y, hx, hy, hn, hc, rfl, rfl⟩ := (hk.2 a b iv d).mp hkm
            obtain ⟨i0, pp, hi, hp, hp1, hp2⟩ := nn_row fp a x hx
            obtain ⟨j0, q, hj, hq, hq1, hq2⟩ := nn_row fs b y hy
            exact hno pp.id q.id _ _ ⟨pp, List.mem_of_getElem? hp, q, List.mem_of_getElem? hq, rfl, rfl,
              x.pos, y.pos, hp1, hq1, hn, by rw [hp2, hq2]; exact hc, by rw [hp2, hq2], rfl⟩
        · intro h1 h2
          simp only [outPairs, hid]
          exact idPairs_nodup dist r mi fp fs kept hk h1 h2

/-- `(i, j, iv, d)` is a collocation of the two input datasets: data points with ids `i`
and `j`, both with valid position, at most `r` km apart, `|Δt| < mi`, both times inside the
user's `[start, end]`; `iv = ⌊|Δt|⌋` s and `d` = their distance in km -/
def Collocated (dist : Pos → Pos → α) (r : α) (mi : Int) (start stop : Option Int)
    (p s : List (Line Pos)) (i j : Nat) (iv : Int) (d : α) : Prop :=
  ∃ x ∈ flatten p, ∃ y ∈ flatten s, x.id = i ∧ y.id = j ∧ ∃ px py, x.pos = some px ∧ y.pos = some py ∧
    near dist r px py ∧ closeT mi x.time y.time ∧
    inUser start stop x.time ∧ inUser start stop y.time ∧
    iv = ivOf x.time y.time ∧ d = distKm .minkowski dist px py

theorem collocatedSel_iff (dist : Pos → Pos → α) (r : α) (mi : Int) (start stop : Option Int)
    (p s : List (Line Pos)) (lo hi : Int) (hw : commonWindow p s mi start stop = some (lo, hi))
    (i j : Nat) (iv : Int) (d : α) :
    CollocatedSel dist r mi (flatten (selectLines p lo hi)) (flatten (selectLines s lo hi)) i j iv d ↔
      Collocated dist r mi start stop p s i j iv d := by
  constructor
  · rintro ⟨x, hx, y, hy, h1, h2, px, py, h3, h4, h5, h6, h7, h8⟩
    obtain ⟨hx1, hx2, hx3⟩ := (mem_flatten_select p lo hi x).mp hx
    obtain ⟨hy1, hy2, hy3⟩ := (mem_flatten_select s lo hi y).mp hy
    exact ⟨x, hx1, y, hy1, h1, h2, px, py, h3, h4, h5, h6,
      window_sound p s mi start stop lo hi hw _ hx2 hx3,
      window_sound p s mi start stop lo hi hw _ hy2 hy3, h7, h8⟩
  · rintro ⟨x, hx, y, hy, h1, h2, px, py, h3, h4, h5, h6, u1, u2, h7, h8⟩
    obtain ⟨⟨a1, a2⟩, ⟨b1, b2⟩⟩ := window_complete p s mi start stop lo hi hw x y hx hy h6 u1 u2
    exact ⟨x, (mem_flatten_select p lo hi x).mpr ⟨hx, a1, a2⟩, y,
      (mem_flatten_select s lo hi y).mpr ⟨hy, b1, b2⟩, h1, h2, px, py, h3, h4, h5, h6, h7, h8⟩

theorem ids_nodup_select (d : List (Line Pos)) (lo hi : Int)
    (h : ((flatten d).map (·.id)).Nodup) : ((flatten (selectLines d lo hi)).map (·.id)).Nodup := by
  have hperm : (flatten (selectLines d lo hi)).Perm
      (flatten (d.filter (fun l => inWindow lo hi l.time))) := by
    unfold flatten selectLines
    exact List.Perm.flatMap_right _ (List.mergeSort_perm _ _)
  have hsub : (flatten (d.filter (fun l => inWindow lo hi l.time))).Sublist (flatten d) := by
    unfold flatten
    exact List.Sublist.flatMap List.filter_sublist _
  exact (hperm.map _).nodup_iff.mpr (h.sublist (hsub.map _))

/-- **collocate, end to end** -/
theorem collocate_spec (dist : Pos → Pos → α) (hsym : ∀ a b, dist a b = dist b a)
    (T : TreeFn Pos α) (hT : TreeOK dist T) (shuf : Nat → List Pos → List Nat)
    (hshuf : ValidShuf shuf) (tn : Tuning) (st : SState Pos) (hinv : Inv st)
    (p s : List (Line Pos)) (mi : Int) (r : α) (start stop : Option Int)
    (hcut : ∀ lo hi, commonWindow p s mi start stop = some (lo, hi) →
      CutOK tn (dropNan (flatten (selectLines p lo hi))) (dropNan (flatten (selectLines s lo hi)))) :
    ∃ st' out, collocate T shuf tn st p s mi r start stop = (st', .ok out) ∧ Inv st' ∧
      (∀ i j iv d, ((i, j), iv, d) ∈ outPairs out ↔ Collocated dist r mi start stop p s i j iv d) ∧
      (out = none ↔ ∀ i j iv d, ¬ Collocated dist r mi start stop p s i j iv d) ∧
      (((flatten p).map (·.id)).Nodup → ((flatten s).map (·.id)).Nodup →
        ((outPairs out).map (·.1)).Nodup) := by
  by_cases hps : p = [] ∨ s = []
  · -- an empty dataset: `_prepare_data` returns (None, None)
    have hw : commonWindow p s mi start stop = none := by
      rcases hps with h | h <;> subst h <;> simp [commonWindow, minList]
    have hno : ∀ i j iv d, ¬ Collocated dist r mi start stop p s i j iv d := by
      rintro i j iv d ⟨x, hx, y, hy, _⟩
      rcases hps with h | h
      · subst h; simp [flatten] at hx
      · subst h; simp [flatten] at hy
    refine ⟨st, none, ?_, hinv, fun i j iv d => by simp [outPairs, hno i j iv d],
      ⟨fun _ => hno, fun _ => rfl⟩, fun _ _ => by simp [outPairs]⟩
    unfold collocate prepare
    simp only [hw]
  have hp : p ≠ [] := fun h => hps (Or.inl h)
  have hs : s ≠ [] := fun h => hps (Or.inr h)
  obtain ⟨lo, hi, hw⟩ := commonWindow_isSome p s mi start stop hp hs
  by_cases hempty : ((selectLines p lo hi).isEmpty || (selectLines s lo hi).isEmpty) = true
  · have hno : ∀ i j iv d, ¬ Collocated dist r mi start stop p s i j iv d := by
      intro i j iv d hc
      obtain ⟨x, hx, y, hy, _⟩ := (collocatedSel_iff dist r mi start stop p s lo hi hw i j iv d).mpr hc
      obtain ⟨l, hl, _⟩ := (mem_flatten _ x).mp hx
      obtain ⟨l', hl', _⟩ := (mem_flatten _ y).mp hy
      rcases Bool.or_eq_true _ _ |>.mp hempty with h | h
      · have : selectLines p lo hi = [] := by simpa using h
        rw [this] at hl; simp at hl
      · have : selectLines s lo hi = [] := by simpa using h
        rw [this] at hl'; simp at hl'
    refine ⟨st, none, ?_, hinv, fun i j iv d => by simp [outPairs, hno i j iv d],
      ⟨fun _ => hno, fun _ => rfl⟩, fun _ _ => by simp [outPairs]⟩
    unfold collocate prepare
    simp only [hw, hempty, if_true]
  · have hprep : prepare p s mi start stop =
        .ok (some (flatten (selectLines p lo hi), flatten (selectLines s lo hi))) := by
      unfold prepare
      simp only [hw, hempty, Bool.false_eq_true, if_false]
    obtain ⟨st', out, h1, h2, h3, h4, h5⟩ := collocate_sel_spec dist hsym T hT shuf hshuf tn st hinv
      p s mi r start stop _ _ hprep (flatten_select_sorted p lo hi) (flatten_select_sorted s lo hi)
      (hcut lo hi hw)
    refine ⟨st', out, h1, h2, ?_, ?_, ?_⟩
    · intro i j iv d
      rw [h3, collocatedSel_iff dist r mi start stop p s lo hi hw]
    · rw [h4]
      constructor
      · intro h i j iv d hc
        exact h i j iv d ((collocatedSel_iff dist r mi start stop p s lo hi hw i j iv d).mpr hc)
      · intro h i j iv d hc
        exact h i j iv d ((collocatedSel_iff dist r mi start stop p s lo hi hw i j iv d).mp hc)
    · intro n1 n2
      exact h5 (ids_nodup_select p lo hi n1) (ids_nodup_select s lo hi n2)

end Main

end Colloc
