import Proofs.Lemmas.History

set_option linter.unusedSectionVars false
set_option linter.unusedVariables false

/-!
`collocate(..., max_interval=None)` — the spatial-only search: specification for every
object state satisfying `Inv`, and preservation of `Inv` (so histories may mix both kinds
of calls).  The proof re-uses the pipeline lemmas through a time bound `M` that every
pair of points satisfies.
-/

namespace Colloc
open Geo

section Sp
variable {Pos α : Type} [DecidableEq Pos] [Field α] [LinearOrder α] [IsStrictOrderedRing α]

theorem exists_time_bound (l : List (NPt Pos)) : ∃ K : Int, ∀ x ∈ l, -K ≤ x.time ∧ x.time ≤ K := by
  induction l with
  | nil => exact ⟨0, by simp⟩
  | cons a rest ih =>
    obtain ⟨K, hK⟩ := ih
    refine ⟨max K |a.time|, ?_⟩
    intro x hx
    rcases List.mem_cons.mp hx with rfl | hx
    · have := abs_le.mp (le_refl |x.time|)
      constructor
      · have := this.1; have h2 := le_max_right K |x.time|; omega
      · exact le_trans this.2 (le_max_right _ _)
    · obtain ⟨h1, h2⟩ := hK x hx
      have h3 := le_max_left K |a.time|
      constructor <;> omega

/-- the interval `_get_intervals` stores for a pair of row numbers -/
def ivAt (A B : List (NPt Pos)) (p : Nat × Nat) : Int :=
  match A[p.1]?, B[p.2]? with
  | some a, some b => (((a.time - b.time).natAbs / 1000000000 : Nat) : Int)
  | _, _ => 0

/-- with a bound `M` that all time differences satisfy, the temporal check keeps every
candidate, and its three columns are the pairs, `_get_intervals` of the pairs and the
distances -/
theorem temporalCheck_all (A B : List (NPt Pos)) (M : Int) (pairs : List (Nat × Nat)) (ds : List α)
    (hlen : pairs.length = ds.length)
    (hrange : ∀ p ∈ pairs, p.1 < A.length ∧ p.2 < B.length)
    (hM : ∀ (a b : Nat) (x y : NPt Pos), A[a]? = some x → B[b]? = some y → closeT M x.time y.time) :
    ∃ kept, temporalCheck A B M pairs ds = .ok kept ∧ intervalsOf A B pairs = .ok (kept.map (·.2.1)) ∧
      kept.map (·.1) = pairs ∧ kept.map (·.2.2) = ds := by
  have hguard : (pairs.all fun p => decide (p.1 < A.length) && decide (p.2 < B.length)) = true := by
    rw [List.all_eq_true]; intro p hp; simp [(hrange p hp).1, (hrange p hp).2]
  refine ⟨(pairs.zip ds).map (fun pd => (pd.1, ivAt A B pd.1, pd.2)), ?_, ?_, ?_, ?_⟩
  · unfold temporalCheck
    simp only [hguard, if_true]
    congr 1
    rw [← List.filterMap_eq_map]
    apply List.filterMap_congr
    intro pd hpd
    obtain ⟨h1, h2⟩ := hrange pd.1 (List.of_mem_zip hpd).1
    have e1 : A[pd.1.1]? = some A[pd.1.1] := List.getElem?_eq_getElem h1
    have e2 : B[pd.1.2]? = some B[pd.1.2] := List.getElem?_eq_getElem h2
    have hc := (closeT_iff_natAbs M _ _).mpr (hM _ _ _ _ e1 e2)
    simp only [e1, e2, hc, if_true, ivAt, Function.comp]
  · unfold intervalsOf
    simp only [hguard, if_true]
    congr 1
    rw [List.map_map]
    have : ((fun k : (Nat × Nat) × Int × α => k.2.1) ∘ fun pd : (Nat × Nat) × α => (pd.1, ivAt A B pd.1, pd.2))
        = (ivAt A B) ∘ Prod.fst := by funext pd; rfl
    rw [this, ← List.map_map, List.map_fst_zip (by omega), ← List.filterMap_eq_map]
    apply List.filterMap_congr
    intro p hp
    obtain ⟨h1, h2⟩ := hrange p hp
    simp only [List.getElem?_eq_getElem h1, List.getElem?_eq_getElem h2, ivAt, Function.comp]
  · rw [List.map_map]
    have : ((fun k : (Nat × Nat) × Int × α => k.1) ∘ fun pd : (Nat × Nat) × α => (pd.1, ivAt A B pd.1, pd.2))
        = Prod.fst := by funext pd; rfl
    rw [this, List.map_fst_zip (by omega)]
  · rw [List.map_map]
    have : ((fun k : (Nat × Nat) × Int × α => k.2.2) ∘ fun pd : (Nat × Nat) × α => (pd.1, ivAt A B pd.1, pd.2))
        = Prod.snd := by funext pd; rfl
    rw [this, List.map_snd_zip (by omega)]

/-- a collocation of the spatial-only search: ids of two points with valid positions at
most `r` km apart (whatever their times), with `⌊|Δt|⌋` s and the distance in km -/
def CollocatedSp (dist : Pos → Pos → α) (r : α) (p s : List (Line Pos)) (i j : Nat) (iv : Int) (d : α) :
    Prop :=
  ∃ x ∈ flatten p, ∃ y ∈ flatten s, x.id = i ∧ y.id = j ∧ ∃ px py, x.pos = some px ∧ y.pos = some py ∧
    near dist r px py ∧ iv = ivOf x.time y.time ∧ d = distKm .minkowski dist px py

theorem collocateSpatial_inv (T : TreeFn Pos α) (shuf : Nat → List Pos → List Nat)
    (hshuf : ValidShuf shuf) (tn : Tuning) (st : SState Pos) (hinv : Inv st)
    (p s : List (Line Pos)) (r : α) : Inv (collocateSpatial T shuf tn st p s r).1 := by
  unfold collocateSpatial
  split
  · exact hinv
  · simp only
    split
    · exact hinv
    · have hf := spatialSearch_inv T shuf hshuf tn.mf st hinv
        ((dropNan (flatten p)).map (·.pos)) ((dropNan (flatten s)).map (·.pos)) r
      split
      · rename_i h; rw [h] at hf; exact hf
      · rename_i h; rw [h] at hf
        repeat' split
        all_goals exact hf

/-- **spatial-only collocate** -/
theorem collocateSpatial_spec (dist : Pos → Pos → α) (hsym : ∀ a b, dist a b = dist b a)
    (T : TreeFn Pos α) (hT : TreeOK dist T) (shuf : Nat → List Pos → List Nat)
    (hshuf : ValidShuf shuf) (tn : Tuning) (st : SState Pos) (hinv : Inv st)
    (p s : List (Line Pos)) (r : α) :
    ∃ st' out, collocateSpatial T shuf tn st p s r = (st', .ok out) ∧ Inv st' ∧
      (∀ i j iv d, ((i, j), iv, d) ∈ outPairs out ↔ CollocatedSp dist r p s i j iv d) ∧
      (out = none ↔ ∀ i j iv d, ¬ CollocatedSp dist r p s i j iv d) ∧
      (((flatten p).map (·.id)).Nodup → ((flatten s).map (·.id)).Nodup →
        ((outPairs out).map (·.1)).Nodup) := by
  unfold collocateSpatial
  by_cases hps : (p.isEmpty || s.isEmpty) = true
  · have hno : ∀ i j iv d, ¬ CollocatedSp dist r p s i j iv d := by
      rintro i j iv d ⟨x, hx, y, hy, _⟩
      rcases Bool.or_eq_true _ _ |>.mp hps with h | h
      · have : p = [] := by simpa using h
        subst this; simp [flatten] at hx
      · have : s = [] := by simpa using h
        subst this; simp [flatten] at hy
    simp only [hps, if_true]
    exact ⟨st, none, rfl, hinv, fun i j iv d => by simp [outPairs, hno i j iv d],
      ⟨fun _ => hno, fun _ => rfl⟩, fun _ _ => by simp [outPairs]⟩
  simp only [hps, Bool.false_eq_true, if_false]
  set fp := flatten p with hfp
  set fs := flatten s with hfs
  set A := dropNan fp with hA
  set B := dropNan fs with hB
  by_cases hAB : (A.isEmpty || B.isEmpty) = true
  · have hno : ∀ i j iv d, ¬ CollocatedSp dist r p s i j iv d := by
      rintro i j iv d ⟨x, hx, y, hy, _, _, px, py, hpx, hpy, _⟩
      have h1 := dropNan_ne_nil_of_collocated fp x hx px hpx
      have h2 := dropNan_ne_nil_of_collocated fs y hy py hpy
      rcases Bool.or_eq_true _ _ |>.mp hAB with h | h
      · exact h1 (by simpa using h)
      · exact h2 (by simpa using h)
    simp only [hAB, if_true]
    exact ⟨st, none, rfl, hinv, fun i j iv d => by simp [outPairs, hno i j iv d],
      ⟨fun _ => hno, fun _ => rfl⟩, fun _ _ => by simp [outPairs]⟩
  have hAne : A ≠ [] := by intro h; apply hAB; simp [h]
  have hBne : B ≠ [] := by intro h; apply hAB; simp [h]
  simp only [hAB, Bool.false_eq_true, if_false]
  obtain ⟨st', pairs, ds, hsearch, hinv', hq⟩ := spatialSearch_spec dist hsym T hT shuf hshuf tn.mf st hinv
    (A.map (·.pos)) (B.map (·.pos)) (by simpa using hAne) (by simpa using hBne) r
  rw [hsearch]
  simp only
  -- a bound on all time differences
  obtain ⟨KA, hKA⟩ := exists_time_bound A
  obtain ⟨KB, hKB⟩ := exists_time_bound B
  set M : Int := KA + KB + 1 with hMdef
  have hM : ∀ (a b : Nat) (x y : NPt Pos), A[a]? = some x → B[b]? = some y → closeT M x.time y.time := by
    intro a b x y hx hy
    obtain ⟨a1, a2⟩ := hKA x (List.mem_of_getElem? hx)
    obtain ⟨b1, b2⟩ := hKB y (List.mem_of_getElem? hy)
    constructor <;> omega
  have hcand := candSpec_of_querySpec dist r M A B pairs ds hq
  have hrange : ∀ pr ∈ pairs, pr.1 < A.length ∧ pr.2 < B.length := by
    rintro ⟨a, b⟩ hab
    obtain ⟨x, y, hx, hy, _⟩ := hcand.sound a b hab
    exact ⟨(List.getElem?_eq_some_iff.mp hx).1, (List.getElem?_eq_some_iff.mp hy).1⟩
  obtain ⟨kept, hkept, hiv, hk1, hk3⟩ := temporalCheck_all A B M pairs ds hcand.dists.length_eq hrange hM
  obtain ⟨kept', hkept', hk⟩ := temporalCheck_spec dist r M A B pairs ds hcand
  rw [hkept] at hkept'; cases hkept'
  rw [hiv]
  simp only
  have hto := toOriginal_ok (notNanIdx fp) (notNanIdx fs) pairs (by
    intro o ho
    rw [length_notNanIdx, length_notNanIdx]
    exact hrange o ho)
  rw [hto]
  simp only
  set K := reindex (notNanIdx fp) (notNanIdx fs) kept with hK
  have e1 : pairs.map (fun p => ((notNanIdx fp).getD p.1 0, (notNanIdx fs).getD p.2 0)) = K.map (·.1) := by
    rw [← hk1]; simp [hK, reindex, List.map_map, Function.comp]
  have e2 : kept.map (·.2.1) = K.map (·.2.1) := by simp [hK, reindex, List.map_map, Function.comp]
  have e3 : ds = K.map (·.2.2) := by
    rw [← hk3]; simp [hK, reindex, List.map_map, Function.comp]
  rw [e1, e2]
  conv => enter [1, st', 1, out, 1, 1, 2, 5]; rw [e3]
  obtain ⟨c1, c2⟩ := createReturn_idPairs fp fs K (reindex_range dist r M fp fs kept hk)
  have hmem := mem_idPairs_iff dist r M fp fs kept hk
  -- with the bound, "close in time" is no restriction
  have hsel : ∀ i j iv d, CollocatedSel dist r M fp fs i j iv d ↔ CollocatedSp dist r p s i j iv d := by
    intro i j iv d
    constructor
    · rintro ⟨x, hx, y, hy, h1, h2, px, py, h3, h4, h5, _, h7, h8⟩
      exact ⟨x, hx, y, hy, h1, h2, px, py, h3, h4, h5, h7, h8⟩
    · rintro ⟨x, hx, y, hy, h1, h2, px, py, h3, h4, h5, h7, h8⟩
      obtain ⟨a, _, ha, _, _⟩ := nn_row_of_mem fp x hx px h3
      obtain ⟨b, _, hb, _, _⟩ := nn_row_of_mem fs y hy py h4
      exact ⟨x, hx, y, hy, h1, h2, px, py, h3, h4, h5, hM a b _ _ ha hb, h7, h8⟩
  by_cases hKe : K = []
  · have hno : ∀ i j iv d, ¬ CollocatedSp dist r p s i j iv d := by
      intro i j iv d hc
      have := (hmem i j iv d).mpr ((hsel i j iv d).mpr hc)
      rw [← hK, hKe] at this; simp at this
    rw [c1 hKe]
    exact ⟨st', none, rfl, hinv', fun i j iv d => by simp [outPairs, hno i j iv d],
      ⟨fun _ => hno, fun _ => rfl⟩, fun _ _ => by simp [outPairs]⟩
  · obtain ⟨res, hres, hid⟩ := c2 hKe
    rw [hres]
    refine ⟨st', some res, rfl, hinv', ?_, ?_, ?_⟩
    · intro i j iv d
      simp only [outPairs, hid]
      rw [hmem i j iv d, hsel]
    · constructor
      · intro h; cases h
      · intro hno
        exfalso
        obtain ⟨k, hk'⟩ := List.exists_mem_of_ne_nil K hKe
        obtain ⟨⟨⟨a, b⟩, iv, d⟩, hkm, rfl⟩ := List.mem_map.mp hk'
        obtain ⟨x, y, hx, hy, hn, hc, rfl, rfl⟩ := (hk.2 a b iv d).mp hkm
        obtain ⟨i0, pp, hi, hp, hp1, hp2⟩ := nn_row fp a x hx
        obtain ⟨j0, q, hj, hq, hq1, hq2⟩ := nn_row fs b y hy
        exact hno pp.id q.id _ _ ⟨pp, List.mem_of_getElem? hp, q, List.mem_of_getElem? hq, rfl, rfl,
          x.pos, y.pos, hp1, hq1, hn, by rw [hp2, hq2], rfl⟩
    · intro h1 h2
      simp only [outPairs, hid]
      exact idPairs_nodup dist r M fp fs kept hk h1 h2

end Sp

end Colloc
