import Model.GeoIndex
import Mathlib.Tactic

namespace Geo

theorem lookupUnit_km : lookupUnit "km" unitTable = some 1 := by decide +kernel

end Geo
