import Model.GeoIndex
import Mathlib.Tactic

/-!
Helper lemmas for C06 (and the spatial part of C04): the tree contract, the pair
list of a jagged answer, index translation through a permutation.
-/

namespace Geo

variable {P α : Type}

section Contract
variable [LE α] [DecidableRel (α := α) (· ≤ ·)]

/-- what a correct radius query reports for one query point: the positions of the
build points within `rt` (in build order here; the tree may use any order) with their
tree distances -/
def specRow (dist : P → P → α) (build : List P) (q : P) (rt : α) : List (Nat × α) :=
  (build.zipIdx.filter (fun bj => decide (dist bj.1 q ≤ rt))).map (fun bj => (bj.2, dist bj.1 q))

/-- **Contract of the scikit-learn tree** (a hypothesis of the theorems, never an axiom):
`tree_class(build, …).query_radius(qs, rt, return_distance=True)` returns two jagged
arrays of equal shapes, one row per query point; row `q` lists, in any order, exactly
the build positions within `rt` of `qs[q]`, each once, and next to each its distance.
Nothing else about the tree (class, leaf size, internal order) is assumed. -/
def TreeOK (dist : P → P → α) (T : TreeFn P α) : Prop :=
  ∀ build qs rt, ∃ ans : List (List (Nat × α)),
    (T build qs rt).1 = ans.map (·.map Prod.fst) ∧
    (T build qs rt).2 = ans.map (·.map Prod.snd) ∧
    List.Forall₂ (fun a q => a.Perm (specRow dist build q rt)) ans qs

theorem mem_specRow (dist : P → P → α) (build : List P) (q : P) (rt : α) (j : Nat) (d : α) :
    (j, d) ∈ specRow dist build q rt ↔ ∃ b, build[j]? = some b ∧ dist b q ≤ rt ∧ d = dist b q := by
  unfold specRow
  simp only [List.mem_map, List.mem_filter, decide_eq_true_eq, Prod.mk.injEq, Prod.exists]
  constructor
  · rintro ⟨b, j', ⟨hm, hle⟩, rfl, rfl⟩
    exact ⟨b, (List.mem_zipIdx_iff_getElem?).mp hm, hle, rfl⟩
  · rintro ⟨b, hb, hle, rfl⟩
    exact ⟨b, j, ⟨(List.mem_zipIdx_iff_getElem?).mpr hb, hle⟩, rfl, rfl⟩

theorem specRow_fst_nodup (dist : P → P → α) (build : List P) (q : P) (rt : α) :
    ((specRow dist build q rt).map Prod.fst).Nodup := by
  unfold specRow
  rw [List.map_map]
  have h : (build.zipIdx.map Prod.snd).Nodup := by
    rw [List.zipIdx_map_snd]; exact List.nodup_range' ..
  exact List.Nodup.sublist ((List.filter_sublist).map _) h

end Contract

/-! ### jagged answer → tagged list -/

/-- `pairsOf` with the query counter starting at `k` -/
def pairsOfFrom (k : Nat) (J : List (List Nat)) : List (Nat × Nat) :=
  (J.zipIdx k).flatMap (fun bq => bq.1.map (fun b => (b, bq.2)))

theorem pairsOf_eq (J : List (List Nat)) : pairsOf J = pairsOfFrom 0 J := rfl

/-- all entries of a jagged answer, each tagged with its query position -/
def tagged (k : Nat) (ans : List (List (Nat × α))) : List ((Nat × Nat) × α) :=
  (ans.zipIdx k).flatMap (fun aq => aq.1.map (fun jd => ((jd.1, aq.2), jd.2)))

theorem pairsOfFrom_map_fst (k : Nat) (ans : List (List (Nat × α))) :
    pairsOfFrom k (ans.map (·.map Prod.fst)) = (tagged k ans).map Prod.fst := by
  induction ans generalizing k with
  | nil => rfl
  | cons a rest ih =>
    have := ih (k + 1)
    simp only [pairsOfFrom, tagged, List.map_cons, List.zipIdx_cons, List.flatMap_cons,
      List.map_append, List.map_map] at this ⊢
    rw [this]
    rfl

theorem flatten_map_snd (k : Nat) (ans : List (List (Nat × α))) :
    (ans.map (·.map Prod.snd)).flatten = (tagged k ans).map Prod.snd := by
  induction ans generalizing k with
  | nil => rfl
  | cons a rest ih =>
    have := ih (k + 1)
    simp only [tagged, List.map_cons, List.zipIdx_cons, List.flatMap_cons, List.flatten_cons,
      List.map_append, List.map_map] at this ⊢
    rw [this]
    rfl

theorem tagged_perm {β : Type} (f : β → List (Nat × α)) (k : Nat) (ans : List (List (Nat × α)))
    (qs : List β) (h : List.Forall₂ (fun a q => a.Perm (f q)) ans qs) :
    (tagged k ans).Perm (tagged k (qs.map f)) := by
  induction h generalizing k with
  | nil => exact List.Perm.refl _
  | cons hp _ ih =>
    simp only [tagged, List.map_cons, List.zipIdx_cons, List.flatMap_cons]
    exact List.Perm.append (hp.map _) (ih (k + 1))

theorem mem_tagged (k : Nat) (ans : List (List (Nat × α))) (j q : Nat) (d : α) :
    ((j, q), d) ∈ tagged k ans ↔ ∃ row, k ≤ q ∧ ans[q - k]? = some row ∧ (j, d) ∈ row := by
  induction ans generalizing k with
  | nil => simp [tagged]
  | cons a rest ih =>
    simp only [tagged, List.zipIdx_cons, List.flatMap_cons, List.mem_append, List.mem_map,
      Prod.mk.injEq, Prod.exists] at ih ⊢
    rw [ih (k + 1)]
    constructor
    · rintro (⟨j', d', hm, ⟨rfl, rfl⟩, rfl⟩ | ⟨row, hk, hrow, hm⟩)
      · exact ⟨a, le_refl _, by simp, hm⟩
      · refine ⟨row, by omega, ?_, hm⟩
        have : q - k = (q - (k + 1)) + 1 := by omega
        rw [this]; simpa using hrow
    · rintro ⟨row, hk, hrow, hm⟩
      by_cases hq : q = k
      · subst hq
        simp only [Nat.sub_self, List.getElem?_cons_zero, Option.some.injEq] at hrow
        subst hrow
        exact Or.inl ⟨j, d, hm, ⟨rfl, rfl⟩, rfl⟩
      · right
        have : q - k = (q - (k + 1)) + 1 := by omega
        rw [this] at hrow
        exact ⟨row, by omega, by simpa using hrow, hm⟩

theorem mem_pairsOfFrom_ge (k : Nat) (J : List (List Nat)) (p : Nat × Nat)
    (h : p ∈ pairsOfFrom k J) : k ≤ p.2 := by
  induction J generalizing k with
  | nil => simp [pairsOfFrom] at h
  | cons r rest ih =>
    simp only [pairsOfFrom, List.zipIdx_cons, List.flatMap_cons, List.mem_append,
      List.mem_map] at h
    rcases h with ⟨b, _, rfl⟩ | h
    · exact le_refl _
    · exact Nat.le_of_succ_le (ih (k + 1) h)

theorem pairsOfFrom_nodup (k : Nat) (J : List (List Nat)) (h : ∀ r ∈ J, r.Nodup) :
    (pairsOfFrom k J).Nodup := by
  induction J generalizing k with
  | nil => simp [pairsOfFrom]
  | cons r rest ih =>
    have hrest := ih (k + 1) (fun r' hr' => h r' (List.mem_cons_of_mem _ hr'))
    simp only [pairsOfFrom, List.zipIdx_cons, List.flatMap_cons] at hrest ⊢
    refine List.Nodup.append ?_ hrest ?_
    · exact (h r List.mem_cons_self).map (fun a b hab => by simpa using hab)
    · intro p hp1 hp2
      have hge := mem_pairsOfFrom_ge (k + 1) rest p hp2
      simp only [List.mem_map] at hp1
      obtain ⟨b, _, rfl⟩ := hp1
      simp at hge

/-! ### the answer of a contract-abiding tree -/

theorem forall₂_exists_of_mem {β γ : Type} {R : β → γ → Prop} {l₁ : List β} {l₂ : List γ}
    (h : List.Forall₂ R l₁ l₂) : ∀ a ∈ l₁, ∃ b ∈ l₂, R a b := by
  induction h with
  | nil => simp
  | cons hab _ ih =>
    intro a ha
    rcases List.mem_cons.mp ha with rfl | ha
    · exact ⟨_, List.mem_cons_self, hab⟩
    · obtain ⟨b, hb, hr⟩ := ih a ha
      exact ⟨b, List.mem_cons_of_mem _ hb, hr⟩

section Core
variable [LE α] [DecidableRel (α := α) (· ≤ ·)]

/-- everything the model needs to know about the raw answer of a tree that satisfies
the contract: it is the (order-free) list `Z` of tagged entries -/
theorem tree_answer (dist : P → P → α) (T : TreeFn P α) (hT : TreeOK dist T) (tp qs : List P)
    (rt : α) :
    ∃ Z : List ((Nat × Nat) × α),
      pairsOf (T tp qs rt).1 = Z.map Prod.fst ∧ (T tp qs rt).2.flatten = Z.map Prod.snd ∧
      (∀ j q d, ((j, q), d) ∈ Z ↔
        ∃ b p, tp[j]? = some b ∧ qs[q]? = some p ∧ dist b p ≤ rt ∧ d = dist b p) ∧
      (Z.map Prod.fst).Nodup := by
  obtain ⟨ans, h1, h2, h3⟩ := hT tp qs rt
  refine ⟨tagged 0 ans, ?_, ?_, ?_, ?_⟩
  · rw [h1, pairsOf_eq, pairsOfFrom_map_fst]
  · rw [h2, flatten_map_snd 0]
  · intro j q d
    rw [(tagged_perm (fun q => specRow dist tp q rt) 0 ans qs h3).mem_iff, mem_tagged]
    simp only [Nat.zero_le, Nat.sub_zero, true_and, List.getElem?_map]
    constructor
    · rintro ⟨row, hrow, hm⟩
      cases hq : qs[q]? with
      | none => simp [hq] at hrow
      | some p =>
        simp only [hq, Option.map_some, Option.some.injEq] at hrow
        subst hrow
        obtain ⟨b, hb, hle, hd⟩ := (mem_specRow dist tp p rt j d).mp hm
        exact ⟨b, p, hb, rfl, hle, hd⟩
    · rintro ⟨b, p, hb, hp, hle, hd⟩
      exact ⟨specRow dist tp p rt, by simp [hp], (mem_specRow dist tp p rt j d).mpr ⟨b, hb, hle, hd⟩⟩
  · rw [← pairsOfFrom_map_fst]
    apply pairsOfFrom_nodup
    intro r hr
    obtain ⟨a, ha, rfl⟩ := List.mem_map.mp hr
    obtain ⟨q, _, hperm⟩ := forall₂_exists_of_mem h3 a ha
    exact (hperm.map Prod.fst).nodup_iff.mpr (specRow_fst_nodup dist tp q rt)

end Core

/-! ### the permutation -/

theorem getElem?_filterMap_getElem? (pts : List P) (σ : List Nat) (h : ∀ i ∈ σ, i < pts.length)
    (j : Nat) : (σ.filterMap (pts[·]?))[j]? = σ[j]?.bind (pts[·]?) := by
  induction σ generalizing j with
  | nil => simp
  | cons i rest ih =>
    have hi : i < pts.length := h i List.mem_cons_self
    have hrest : ∀ i ∈ rest, i < pts.length := fun i hi => h i (List.mem_cons_of_mem _ hi)
    rw [List.filterMap_cons]
    simp only [List.getElem?_eq_getElem hi]
    cases j with
    | zero => simp [List.getElem?_eq_getElem hi]
    | succ j => simpa using ih hrest j

theorem length_filterMap_getElem? (pts : List P) (σ : List Nat) (h : ∀ i ∈ σ, i < pts.length) :
    (σ.filterMap (pts[·]?)).length = σ.length := by
  induction σ with
  | nil => rfl
  | cons i rest ih =>
    have hi : i < pts.length := h i List.mem_cons_self
    rw [List.filterMap_cons]
    simp only [List.getElem?_eq_getElem hi, List.length_cons]
    rw [ih (fun i hi => h i (List.mem_cons_of_mem _ hi))]

/-! ### kilometres ↔ tree units -/

section Field
variable [Field α] [LinearOrder α] [IsStrictOrderedRing α]

theorem earthRadius_pos : (0 : α) < ((earthRadius : Nat) : α) := by
  unfold earthRadius; positivity

/-- the comparison done by the tree (metres resp. radians against the scaled radius)
is the comparison of kilometres against the user's radius -/
theorem le_scaleRadius_iff (m : Metric) (d r : α) :
    d ≤ scaleRadius m r ↔ (m = .unknown ∧ d ≤ r) ∨ (m ≠ .unknown ∧ scaleDist m d ≤ r) := by
  have hR : (0 : α) < ((earthRadius : Nat) : α) := earthRadius_pos
  have hK : (0 : α) < ((1000 : Nat) : α) := by positivity
  cases m with
  | minkowski =>
    simp only [scaleRadius, scaleDist, reduceCtorEq, false_and, ne_eq, not_false_eq_true, true_and,
      false_or]
    rw [div_le_iff₀ hK]
  | haversine =>
    simp only [scaleRadius, scaleDist, reduceCtorEq, false_and, ne_eq, not_false_eq_true, true_and,
      false_or]
    rw [div_le_iff₀ hK, ← mul_div_assoc, le_div_iff₀ hR]
  | unknown => simp [scaleRadius]

end Field


/-! ### the query theorem (stated again as `C06_query_spec` in Props/C06.lean) -/

section Query
variable {P α : Type} [Field α] [LinearOrder α] [IsStrictOrderedRing α]

/-- distance of two points in kilometres, as `query` reports it -/
def distKm (m : Metric) (dist : P → P → α) (a b : P) : α := scaleDist m (dist a b)

/-- outcome of `np.random.shuffle(arange(n))` (any permutation), or `shuffle=False` -/
def ValidShuffle (n : Nat) : Option (List Nat) → Prop
  | none => True
  | some σ => σ.Perm (List.range n)

/-- what the property demands of `(pairs, distances)`: the pairs are exactly the
(build index, query index) combinations — indices into the arrays *as passed in* — whose
distance is at most `r` km, each once, and `distances[k]` is the distance of `pairs[k]`. -/
def QuerySpec (m : Metric) (dist : P → P → α) (pts qs : List P) (r : α)
    (pairs : List (Nat × Nat)) (ds : List α) : Prop :=
  (∀ i q, (i, q) ∈ pairs ↔ ∃ b p, pts[i]? = some b ∧ qs[q]? = some p ∧ distKm m dist b p ≤ r) ∧
  pairs.Nodup ∧
  List.Forall₂ (fun pr d => ∃ b p, pts[pr.1]? = some b ∧ qs[pr.2]? = some p ∧
    d = distKm m dist b p) pairs ds

theorem spec_of_Z (m : Metric) (hm : m ≠ .unknown) (dist : P → P → α) (pts qs tp : List P)
    (r : α) (Z : List ((Nat × Nat) × α)) (tr : Nat → Nat)
    (hZ : ∀ j q d, ((j, q), d) ∈ Z ↔
      ∃ b p, tp[j]? = some b ∧ qs[q]? = some p ∧ dist b p ≤ scaleRadius m r ∧ d = dist b p)
    (hnd : (Z.map Prod.fst).Nodup)
    (htr : ∀ j b, tp[j]? = some b → pts[tr j]? = some b)
    (hsurj : ∀ i b, pts[i]? = some b → ∃ j, tr j = i ∧ tp[j]? = some b)
    (hinj : ∀ j j', j < tp.length → j' < tp.length → tr j = tr j' → j = j') :
    QuerySpec m dist pts qs r ((Z.map Prod.fst).map (fun p => (tr p.1, p.2)))
      ((Z.map Prod.snd).map (scaleDist m)) := by
  have hle : ∀ d : α, d ≤ scaleRadius m r ↔ scaleDist m d ≤ r := fun d => by
    rw [le_scaleRadius_iff]; simp [hm]
  refine ⟨?_, ?_, ?_⟩
  · intro i q
    simp only [List.mem_map, Prod.mk.injEq, Prod.exists, exists_and_right, exists_eq_right]
    constructor
    · rintro ⟨j, q', ⟨d, hmem⟩, rfl, rfl⟩
      obtain ⟨b, p, hb, hp, hd, _⟩ := (hZ j q' d).mp hmem
      exact ⟨b, p, htr j b hb, hp, (hle _).mp hd⟩
    · rintro ⟨b, p, hb, hp, hd⟩
      obtain ⟨j, rfl, hj⟩ := hsurj i b hb
      exact ⟨j, q, ⟨dist b p, (hZ j q _).mpr ⟨b, p, hj, hp, (hle _).mpr hd, rfl⟩⟩, rfl, rfl⟩
  · refine List.Nodup.map_on ?_ hnd
    rintro ⟨j, q⟩ hx ⟨j', q'⟩ hy hxy
    simp only [Prod.mk.injEq] at hxy
    obtain ⟨⟨⟨_, _⟩, d⟩, hmx, hx'⟩ := List.mem_map.mp hx
    obtain ⟨⟨⟨_, _⟩, d'⟩, hmy, hy'⟩ := List.mem_map.mp hy
    simp only [Prod.mk.injEq] at hx' hy'
    obtain ⟨⟨rfl, rfl⟩⟩ := hx'
    obtain ⟨⟨rfl, rfl⟩⟩ := hy'
    obtain ⟨b, _, hb, _⟩ := (hZ _ _ d).mp hmx
    obtain ⟨b', _, hb', _⟩ := (hZ _ _ d').mp hmy
    have h1 := (List.getElem?_eq_some_iff.mp hb).1
    have h2 := (List.getElem?_eq_some_iff.mp hb').1
    rw [hinj _ _ h1 h2 hxy.1, hxy.2]
  · rw [List.map_map, List.map_map, List.forall₂_map_left_iff, List.forall₂_map_right_iff,
      List.forall₂_same]
    rintro ⟨⟨j, q⟩, d⟩ hmem
    obtain ⟨b, p, hb, hp, _, hd⟩ := (hZ j q d).mp hmem
    exact ⟨b, p, htr j b hb, hp, by simp [distKm, hd]⟩

/-- core of **C06_query_spec** — for every point set, every radius, both metrics, every tree
obeying the contract and **every** permutation the shuffle may draw, `GeoIndex(pts,
shuffle).query(qs, r)` succeeds and returns exactly the pairs within `r` km with original
indices, each once, with the distances aligned. -/
theorem query_spec (dist : P → P → α) (T : TreeFn P α) (hT : TreeOK dist T) (m : Metric)
    (hm : m ≠ .unknown) (pts qs : List P) (r : α) (shuffle : Option (List Nat))
    (hσ : ValidShuffle pts.length shuffle) :
    ∃ ix pairs ds, Index.build m pts shuffle = .ok ix ∧ query T ix qs r = .ok (pairs, ds) ∧
      QuerySpec m dist pts qs r pairs ds := by
  have hmb : (m == Metric.unknown) = false := by
    cases m <;> simp_all
  cases shuffle with
  | none =>
    obtain ⟨Z, h1, h2, hZ, hnd⟩ := tree_answer dist T hT pts qs (scaleRadius m r)
    have hspec := spec_of_Z m hm dist pts qs pts r Z id hZ hnd (fun _ _ h => h)
      (fun i b h => ⟨i, rfl, h⟩) (fun _ _ _ _ h => h)
    refine ⟨⟨m, none, pts, pts⟩, (Z.map Prod.fst), (Z.map Prod.snd).map (scaleDist m), ?_, ?_, ?_⟩
    · simp [Index.build, hmb]
    · simp only [query, h1, h2]
      by_cases he : (Z.map Prod.fst).isEmpty
      · have : Z = [] := by simpa using he
        subst this; simp
      · simp [he]
    · have e : (Z.map Prod.fst).map (fun p : Nat × Nat => (id p.1, p.2)) = Z.map Prod.fst := by
        simp
      rw [e] at hspec; exact hspec
  | some σ =>
    have hperm : σ.Perm (List.range pts.length) := hσ
    have hlt : ∀ i ∈ σ, i < pts.length := fun i hi => List.mem_range.mp (hperm.mem_iff.mp hi)
    have hall : σ.all (· < pts.length) = true := by
      simpa [List.all_eq_true] using hlt
    set tp := σ.filterMap (pts[·]?) with htp
    have hget : ∀ j, tp[j]? = σ[j]?.bind (pts[·]?) := getElem?_filterMap_getElem? pts σ hlt
    have hlen : tp.length = σ.length := length_filterMap_getElem? pts σ hlt
    obtain ⟨Z, h1, h2, hZ, hnd⟩ := tree_answer dist T hT tp qs (scaleRadius m r)
    have hσnd : σ.Nodup := hperm.nodup_iff.mpr List.nodup_range
    have htr : ∀ j b, tp[j]? = some b → pts[σ.getD j 0]? = some b := by
      intro j b hb
      rw [hget] at hb
      cases hj : σ[j]? with
      | none => simp [hj] at hb
      | some i =>
        simp only [hj, Option.bind_some] at hb
        simpa [List.getD_eq_getElem?_getD, hj] using hb
    have hsurj : ∀ i b, pts[i]? = some b → ∃ j, σ.getD j 0 = i ∧ tp[j]? = some b := by
      intro i b hb
      have hi : i < pts.length := (List.getElem?_eq_some_iff.mp hb).1
      have : i ∈ σ := hperm.mem_iff.mpr (List.mem_range.mpr hi)
      obtain ⟨j, hj⟩ := List.mem_iff_getElem?.mp this
      exact ⟨j, by simp [List.getD_eq_getElem?_getD, hj], by rw [hget, hj]; simpa using hb⟩
    have hinj : ∀ j j', j < tp.length → j' < tp.length → σ.getD j 0 = σ.getD j' 0 → j = j' := by
      intro j j' h1 h2 h
      rw [hlen] at h1 h2
      simp only [List.getD_eq_getElem?_getD, List.getElem?_eq_getElem h1,
        List.getElem?_eq_getElem h2, Option.getD_some] at h
      exact (hσnd.getElem_inj_iff).mp h
    have hspec := spec_of_Z m hm dist pts qs tp r Z (fun j => σ.getD j 0) hZ hnd htr hsurj hinj
    have hguard : ((Z.map Prod.fst).all fun p => decide (p.1 < σ.length)) = true := by
      rw [List.all_eq_true]
      rintro ⟨j, q⟩ hx
      obtain ⟨⟨⟨_, _⟩, d⟩, hmx, hx'⟩ := List.mem_map.mp hx
      simp only [Prod.mk.injEq] at hx'
      obtain ⟨rfl, rfl⟩ := hx'
      obtain ⟨b, _, hb, _⟩ := (hZ _ _ d).mp hmx
      simpa [hlen] using (List.getElem?_eq_some_iff.mp hb).1
    refine ⟨⟨m, some σ, tp, pts⟩, (Z.map Prod.fst).map (fun p => (σ.getD p.1 0, p.2)),
      (Z.map Prod.snd).map (scaleDist m), ?_, ?_, hspec⟩
    · simp [Index.build, hmb, hall, htp]
    · simp only [query, h1, h2]
      by_cases he : (Z.map Prod.fst).isEmpty
      · have : Z = [] := by simpa using he
        subst this; simp
      · simp [he, translate, hguard, Except.map]


end Query

/-! ### non-vacuity of the contract -/

/-- a brute-force "tree" — it satisfies the contract, so `TreeOK` is not vacuous -/
def bruteTree {P α : Type} [LE α] [DecidableRel (α := α) (· ≤ ·)] (dist : P → P → α) :
    TreeFn P α := fun build qs rt =>
  let ans := qs.map (fun q => specRow dist build q rt)
  (ans.map (·.map Prod.fst), ans.map (·.map Prod.snd))

theorem bruteTree_ok {P α : Type} [LE α] [DecidableRel (α := α) (· ≤ ·)] (dist : P → P → α) :
    TreeOK dist (bruteTree dist) := by
  intro build qs rt
  refine ⟨qs.map (fun q => specRow dist build q rt), rfl, rfl, ?_⟩
  rw [List.forall₂_map_left_iff, List.forall₂_same]
  intro q _
  exact List.Perm.refl _


end Geo
