import Model.Collocate
import Proofs.Lemmas.GeoIndex

namespace Colloc

theorem unflat_flat (npos l c : Nat) (hc : c < npos) : unflatIndex npos (flatIndex npos l c) = (l, c) := by
  unfold unflatIndex flatIndex
  have hn : 0 < npos := by omega
  rw [Nat.mul_comm, Nat.mul_add_div hn, Nat.mul_add_mod, Nat.div_eq_of_lt hc, Nat.mod_eq_of_lt hc]
  simp

end Colloc
