import Model.Collocate
import Proofs.Lemmas.GeoIndex

set_option linter.unusedSectionVars false

/-!
Helper lemmas for C04: the spatial search with the cached index (for every object
state satisfying the invariant `Inv`), the temporal binning, the index bookkeeping.
-/

namespace Colloc
open Geo

theorem unflat_flat (npos l c : Nat) (hc : c < npos) :
    unflatIndex npos (flatIndex npos l c) = (l, c) := by
  unfold unflatIndex flatIndex
  have hn : 0 < npos := by omega
  rw [Nat.mul_comm, Nat.mul_add_div hn, Nat.mul_add_mod, Nat.div_eq_of_lt hc, Nat.mod_eq_of_lt hc]
  simp

theorem flat_unflat (npos k : Nat) :
    flatIndex npos (unflatIndex npos k).1 (unflatIndex npos k).2 = k := by
  unfold unflatIndex flatIndex
  simp only
  rw [Nat.mul_comm]; exact Nat.div_add_mod k npos

section Spatial
variable {Pos α : Type} [DecidableEq Pos] [Field α] [LinearOrder α] [IsStrictOrderedRing α]

/-- invariant of the object state: a cached index is a GeoIndex built (with some
permutation) from the coordinates it remembers -/
def Inv (st : SState Pos) : Prop :=
  ∀ ix, st.index = some ix →
    ∃ σ, σ.Perm (List.range ix.origPoints.length) ∧
      Index.build .minkowski ix.origPoints (some σ) = .ok ix

theorem inv_init : Inv ({} : SState Pos) := by
  intro ix h; simp at h

/-- every permutation function draws permutations -/
def ValidShuf (shuf : Nat → List Pos → List Nat) : Prop :=
  ∀ k pts, (shuf k pts).Perm (List.range pts.length)

/-- swapping the rows of an answer for (build = p2, query = p1) gives an answer for
(p1, p2) when the distance is symmetric -/
theorem querySpec_swap (dist : Pos → Pos → α) (hsym : ∀ a b, dist a b = dist b a)
    (p1 p2 : List Pos) (r : α) (pairs : List (Nat × Nat)) (ds : List α)
    (h : QuerySpec .minkowski dist p2 p1 r pairs ds) :
    QuerySpec .minkowski dist p1 p2 r (swapRows pairs) ds := by
  obtain ⟨h1, h2, h3⟩ := h
  refine ⟨?_, ?_, ?_⟩
  · intro i q
    simp only [swapRows, List.mem_map, Prod.mk.injEq, Prod.exists]
    constructor
    · rintro ⟨a, b, hm, rfl, rfl⟩
      obtain ⟨x, y, hx, hy, hd⟩ := (h1 a b).mp hm
      exact ⟨y, x, hy, hx, by simpa [distKm, hsym y x] using hd⟩
    · rintro ⟨x, y, hx, hy, hd⟩
      exact ⟨q, i, (h1 q i).mpr ⟨y, x, hy, hx, by simpa [distKm, hsym y x] using hd⟩, rfl, rfl⟩
  · exact h2.map (fun a b hab => by
      simp only [Prod.mk.injEq] at hab
      exact Prod.ext hab.2 hab.1)
  · unfold swapRows
    rw [List.forall₂_map_left_iff]
    refine h3.imp ?_
    rintro ⟨a, b⟩ d ⟨x, y, hx, hy, hd⟩
    exact ⟨y, x, hy, hx, by simp [hd, distKm, hsym x y]⟩

theorem querySpec_nil_ds (m : Metric) (dist : Pos → Pos → α) (p1 p2 : List Pos) (r : α) (ds : List α)
    (h : QuerySpec m dist p1 p2 r [] ds) : ds = [] := by
  cases h.2.2; rfl

theorem isCached_iff (st : SState Pos) (pts : List Pos) :
    isCached st pts = true ↔ ∃ ix, st.index = some ix ∧ ix.origPoints = pts := by
  unfold isCached
  cases st.index with
  | none => simp
  | some ix => simp

theorem build_origPoints (pts : List Pos) (sh : Option (List Nat)) (ix : Index Pos)
    (h : Index.build .minkowski pts sh = .ok ix) : ix.origPoints = pts := by
  unfold Index.build at h
  simp only [show (Metric.minkowski == Metric.unknown) = false from rfl, Bool.false_eq_true,
    if_false] at h
  cases sh with
  | none => cases h; rfl
  | some σ =>
    simp only at h
    split at h
    · cases h; rfl
    · cases h

theorem build_ok (pts : List Pos) (σ : List Nat) (hσ : σ.Perm (List.range pts.length)) :
    Index.build .minkowski pts (some σ) =
      .ok ⟨.minkowski, some σ, σ.filterMap (pts[·]?), pts⟩ := by
  have hall : σ.all (· < pts.length) = true := by
    rw [List.all_eq_true]; intro i hi
    simpa using List.mem_range.mp (hσ.mem_iff.mp hi)
  simp [Index.build, hall]

/-- `_build_spatial_index`: succeeds on a non-empty array, keeps the invariant, and the
index it returns is a GeoIndex of exactly the requested coordinates -/
theorem buildIndex_spec (shuf : Nat → List Pos → List Nat) (hshuf : ValidShuf shuf)
    (st : SState Pos) (hinv : Inv st) (bp : List Pos) (hbp : bp ≠ []) :
    ∃ st2 ix, buildIndex shuf st bp = .ok (st2, ix) ∧ Inv st2 ∧ st2.iwp = st.iwp ∧
      ∃ σ, σ.Perm (List.range bp.length) ∧ Index.build .minkowski bp (some σ) = .ok ix := by
  unfold buildIndex
  by_cases hc : isCached st bp = true
  · obtain ⟨ix, hix, horig⟩ := (isCached_iff st bp).mp hc
    obtain ⟨σ, hσ, hb⟩ := hinv ix hix
    rw [horig] at hσ hb
    refine ⟨st, ix, by simp [hc, hix], hinv, rfl, σ, hσ, hb⟩
  · have hc' : isCached st bp = false := by simpa using hc
    have hne : bp.isEmpty = false := by cases bp <;> simp_all
    have hb := build_ok bp (shuf st.built bp) (hshuf _ _)
    let ix0 : Index Pos := ⟨.minkowski, some (shuf st.built bp),
      (shuf st.built bp).filterMap (bp[·]?), bp⟩
    refine ⟨{ st with index := some ix0, built := st.built + 1 }, ix0, ?_, ?_, rfl,
      shuf st.built bp, hshuf _ _, hb⟩
    · simp [hc', hne, hb, ix0]
    · intro ix hix
      simp only [Option.some.injEq] at hix
      subst hix
      exact ⟨shuf st.built bp, hshuf _ _, hb⟩

theorem inv_set_iwp (st : SState Pos) (h : Inv st) (b : Bool) : Inv { st with iwp := b } := h

/-- **spatial search, any object state**: for every Collocator state satisfying `Inv`
(i.e. after any history), every tree obeying the contract, every permutation family and
every `magnitude_factor`, `spatial_search` succeeds on non-empty arrays, keeps `Inv`, and
reports exactly the pairs (index into p1, index into p2) within the radius, each once,
with aligned distances — whichever side it builds the index from, cached or fresh. -/
theorem spatialSearch_spec (dist : Pos → Pos → α) (hsym : ∀ a b, dist a b = dist b a)
    (T : TreeFn Pos α) (hT : TreeOK dist T) (shuf : Nat → List Pos → List Nat)
    (hshuf : ValidShuf shuf) (mf : Nat) (st : SState Pos) (hinv : Inv st)
    (p1 p2 : List Pos) (h1 : p1 ≠ []) (h2 : p2 ≠ []) (r : α) :
    ∃ st' pairs ds, spatialSearch T shuf mf st p1 p2 r = (st', .ok (pairs, ds)) ∧ Inv st' ∧
      QuerySpec .minkowski dist p1 p2 r pairs ds := by
  unfold spatialSearch
  have e1 : p1.isEmpty = false := by cases p1 <;> simp_all
  have e2 : p2.isEmpty = false := by cases p2 <;> simp_all
  cases hi : chooseBuild st mf p1 p2 with
  | true =>
    simp only [if_true]
    obtain ⟨st2, ix, hb, hinv2, _, σ, hσ, hbuild⟩ :=
      buildIndex_spec shuf hshuf { st with iwp := true } (inv_set_iwp st hinv true) p1 h1
    obtain ⟨ix', pairs, ds, hb', hq, hspec⟩ :=
      query_spec dist T hT .minkowski (by decide) p1 p2 r (some σ) hσ
    rw [hbuild] at hb'; cases hb'
    simp only [hb, e2, Bool.false_eq_true, if_false, hq]
    by_cases he : pairs.isEmpty
    · have : pairs = [] := by simpa using he
      subst this
      have := querySpec_nil_ds _ dist p1 p2 r ds hspec
      subst this
      exact ⟨st2, [], [], by simp, hinv2, hspec⟩
    · exact ⟨st2, pairs, ds, by simp [he], hinv2, hspec⟩
  | false =>
    simp only [Bool.false_eq_true, if_false]
    obtain ⟨st2, ix, hb, hinv2, _, σ, hσ, hbuild⟩ :=
      buildIndex_spec shuf hshuf { st with iwp := false } (inv_set_iwp st hinv false) p2 h2
    obtain ⟨ix', pairs, ds, hb', hq, hspec⟩ :=
      query_spec dist T hT .minkowski (by decide) p2 p1 r (some σ) hσ
    rw [hbuild] at hb'; cases hb'
    simp only [hb, e1, Bool.false_eq_true, if_false, hq]
    by_cases he : pairs.isEmpty
    · have : pairs = [] := by simpa using he
      subst this
      have := querySpec_nil_ds _ dist p2 p1 r ds hspec
      subst this
      exact ⟨st2, [], [], by simp, hinv2, by simpa [swapRows] using querySpec_swap dist hsym p1 p2 r [] [] hspec⟩
    · exact ⟨st2, swapRows pairs, ds, by simp [he], hinv2, querySpec_swap dist hsym p1 p2 r pairs ds hspec⟩

end Spatial

end Colloc
