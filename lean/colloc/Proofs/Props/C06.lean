import Proofs.Lemmas.GeoIndex
import Proofs.Audit

/-!
# C06 — `GeoIndex.query` returns exactly the points within the radius

Property theorems only (helper lemmas: `Proofs/Lemmas/GeoIndex.lean`).

Setting.  `P` is the type of converted points (`_to_metric` rows), `dist : P → P → α` the
tree's metric (metres of chord for minkowski, radians of arc for haversine) in an
arbitrary linearly ordered field `α`; `T` is *any* tree satisfying the contract
`TreeOK dist T` ("`query_radius` returns, per query point, exactly the build positions
within the radius, in any order, with their distances") — a hypothesis, not an axiom; the
shuffle is *any* permutation of `range n` (or no shuffle).  Nothing is assumed about tree
class, leaf size or the internal order of the answers.
-/

open Geo

deriving instance DecidableEq for Except

section Query
variable {P α : Type} [Field α] [LinearOrder α] [IsStrictOrderedRing α]

/-- **C06_query_spec** — for every point set, every radius, both metrics, every tree
obeying the contract and **every** permutation the shuffle may draw, `GeoIndex(pts,
shuffle).query(qs, r)` succeeds and returns exactly the pairs within `r` km with original
indices, each once, with the distances aligned (`QuerySpec`, `distKm`, `ValidShuffle`
are defined in `Proofs/Lemmas/GeoIndex.lean`). -/
theorem C06_query_spec (dist : P → P → α) (T : TreeFn P α) (hT : TreeOK dist T) (m : Metric)
    (hm : m ≠ .unknown) (pts qs : List P) (r : α) (shuffle : Option (List Nat))
    (hσ : ValidShuffle pts.length shuffle) :
    ∃ ix pairs ds, Index.build m pts shuffle = .ok ix ∧ query T ix qs r = .ok (pairs, ds) ∧
      QuerySpec m dist pts qs r pairs ds :=
  query_spec dist T hT m hm pts qs r shuffle hσ

omit [IsStrictOrderedRing α] in
/-- two answers meeting the same specification list the same pairs (up to order) and
attach the same distance to each pair -/
private theorem spec_unique (m : Metric) (dist : P → P → α) (pts qs : List P) (r : α)
    (pairs pairs' : List (Nat × Nat)) (ds ds' : List α)
    (h : QuerySpec m dist pts qs r pairs ds) (h' : QuerySpec m dist pts qs r pairs' ds') :
    pairs.Perm pairs' ∧
      ∀ pr d d', (pr, d) ∈ pairs.zip ds → (pr, d') ∈ pairs'.zip ds' → d = d' := by
  refine ⟨(List.perm_ext_iff_of_nodup h.2.1 h'.2.1).mpr ?_, ?_⟩
  · rintro ⟨i, q⟩
    rw [h.1 i q, h'.1 i q]
  · intro pr d d' hz hz'
    obtain ⟨b, p, hb, hp, rfl⟩ := (List.forall₂_iff_zip.mp h.2.2).2 hz
    obtain ⟨b', p', hb', hp', rfl⟩ := (List.forall₂_iff_zip.mp h'.2.2).2 hz'
    rw [hb] at hb'; rw [hp] at hp'
    cases hb'; cases hp'; rfl

/-- **C06_config_invariant** — the answer does not depend on the configuration: any two
contract-abiding trees (Ball / KD, any leaf size) and any two shuffles (none, or any
permutation) give the same set of pairs with the same distances. -/
theorem C06_config_invariant (dist : P → P → α) (T T' : TreeFn P α) (hT : TreeOK dist T)
    (hT' : TreeOK dist T') (m : Metric) (hm : m ≠ .unknown) (pts qs : List P) (r : α)
    (sh sh' : Option (List Nat)) (hσ : ValidShuffle pts.length sh)
    (hσ' : ValidShuffle pts.length sh') :
    ∃ ix ix' pairs ds pairs' ds', Index.build m pts sh = .ok ix ∧ Index.build m pts sh' = .ok ix' ∧
      query T ix qs r = .ok (pairs, ds) ∧ query T' ix' qs r = .ok (pairs', ds') ∧
      pairs.Perm pairs' ∧
      ∀ pr d d', (pr, d) ∈ pairs.zip ds → (pr, d') ∈ pairs'.zip ds' → d = d' := by
  obtain ⟨ix, pairs, ds, h1, h2, h3⟩ := C06_query_spec dist T hT m hm pts qs r sh hσ
  obtain ⟨ix', pairs', ds', h1', h2', h3'⟩ := C06_query_spec dist T' hT' m hm pts qs r sh' hσ'
  exact ⟨ix, ix', pairs, ds, pairs', ds', h1, h1', h2, h2',
    spec_unique m dist pts qs r pairs pairs' ds ds' h3 h3'⟩

/-- **C06_shuffle_invariant** — same tree, any two outcomes of the random shuffle
(including `shuffle=False`): same pairs, same distances. -/
theorem C06_shuffle_invariant (dist : P → P → α) (T : TreeFn P α) (hT : TreeOK dist T)
    (m : Metric) (hm : m ≠ .unknown) (pts qs : List P) (r : α)
    (sh sh' : Option (List Nat)) (hσ : ValidShuffle pts.length sh)
    (hσ' : ValidShuffle pts.length sh') :
    ∃ ix ix' pairs ds pairs' ds', Index.build m pts sh = .ok ix ∧ Index.build m pts sh' = .ok ix' ∧
      query T ix qs r = .ok (pairs, ds) ∧ query T ix' qs r = .ok (pairs', ds') ∧
      pairs.Perm pairs' ∧
      ∀ pr d d', (pr, d) ∈ pairs.zip ds → (pr, d') ∈ pairs'.zip ds' → d = d' :=
  C06_config_invariant dist T T hT hT m hm pts qs r sh sh' hσ hσ'

/-- **C06_tree_class_invariant** — `T`, `T'` stand for `BallTree(points, …)` and
`KDTree(points, …)`: the contract does not mention the class, so the answers agree. -/
theorem C06_tree_class_invariant (dist : P → P → α) (ball kd : TreeFn P α)
    (hB : TreeOK dist ball) (hK : TreeOK dist kd) (m : Metric) (hm : m ≠ .unknown)
    (pts qs : List P) (r : α) (sh : Option (List Nat)) (hσ : ValidShuffle pts.length sh) :
    ∃ ix pairs ds pairs' ds', Index.build m pts sh = .ok ix ∧
      query ball ix qs r = .ok (pairs, ds) ∧ query kd ix qs r = .ok (pairs', ds') ∧
      pairs.Perm pairs' ∧
      ∀ pr d d', (pr, d) ∈ pairs.zip ds → (pr, d') ∈ pairs'.zip ds' → d = d' := by
  obtain ⟨ix, ix', pairs, ds, pairs', ds', h1, h1', h2, h2', h3⟩ :=
    C06_config_invariant dist ball kd hB hK m hm pts qs r sh sh hσ hσ
  rw [h1] at h1'; cases h1'
  exact ⟨ix, pairs, ds, pairs', ds', h1, h2, h2', h3⟩

/-- **C06_leaf_invariant** — a family of trees indexed by `leaf_size`, each obeying the
contract: the answer is the same for every two leaf sizes. -/
theorem C06_leaf_invariant (dist : P → P → α) (tree : Nat → TreeFn P α)
    (hT : ∀ leaf, TreeOK dist (tree leaf)) (leaf leaf' : Nat) (m : Metric) (hm : m ≠ .unknown)
    (pts qs : List P) (r : α) (sh : Option (List Nat)) (hσ : ValidShuffle pts.length sh) :
    ∃ ix pairs ds pairs' ds', Index.build m pts sh = .ok ix ∧
      query (tree leaf) ix qs r = .ok (pairs, ds) ∧ query (tree leaf') ix qs r = .ok (pairs', ds') ∧
      pairs.Perm pairs' ∧
      ∀ pr d d', (pr, d) ∈ pairs.zip ds → (pr, d') ∈ pairs'.zip ds' → d = d' :=
  C06_tree_class_invariant dist (tree leaf) (tree leaf') (hT leaf) (hT leaf') m hm pts qs r sh hσ

end Query

/-- **C06_nodist_eq** — `query(..., return_distance=False)` returns the first component
of `query(..., return_distance=True)` (after fix 8cd8847: translated indices), for every
index object and tree, contract or not. -/
theorem C06_nodist_eq {P α : Type} [NatCast α] [Mul α] [Div α] (T : TreeFn P α) (ix : Index P)
    (qs : List P) (r : α) :
    queryNoDist T ix qs r = (query T ix qs r).map Prod.fst := by
  unfold queryNoDist query
  cases hs : ix.shuffler with
  | none =>
    by_cases he : (pairsOf (T ix.treePoints qs (scaleRadius ix.metric r)).1).isEmpty
    · simp only [he, if_true, Except.map]
      simpa using he
    · simp [he, Except.map]
  | some σ =>
    by_cases he : (pairsOf (T ix.treePoints qs (scaleRadius ix.metric r)).1).isEmpty
    · simp only [he, if_true, Except.map]
      simpa using he
    · simp only [he, Bool.false_eq_true, if_false, Except.map]
      cases translate σ (pairsOf (T ix.treePoints qs (scaleRadius ix.metric r)).1) <;> rfl

/-! ## Units -/

/-- **C06_units_table** — every spelling of `UNITS_CONVERSION_FACTORS` is found with
its own factor (no spelling is shadowed by an earlier row). -/
theorem C06_units_table :
    ∀ e ∈ unitTable, ∀ n ∈ e.1, lookupUnit n unitTable = some e.2 := by decide +kernel

/-- **C06_units** — for **every** length: whenever `split_units` reads the string as
length `l ≠ 0` and a unit spelled as in the table (factor `f`), `to_kilometers` returns
exactly `l × f` (over ℚ); without unit it returns `l`; an unknown unit or a length of 0
is a ValueError. -/
theorem C06_units (s : String) (l : Rat) (u : List Char) (hs : splitUnits s.toList = (.fin l, u)) :
    (l = 0 → toKilometers (.str s) = .error .valueError) ∧
    (l ≠ 0 → u = [] → toKilometers (.str s) = .ok l) ∧
    (l ≠ 0 → u ≠ [] → ∀ f, lookupUnit (String.ofList u) unitTable = some f →
        toKilometers (.str s) = .ok (l * f)) ∧
    (l ≠ 0 → u ≠ [] → lookupUnit (String.ofList u) unitTable = none →
        toKilometers (.str s) = .error .valueError) := by
  refine ⟨?_, ?_, ?_, ?_⟩
  · intro h0; simp [toKilometers, toKilometersStr, hs, h0]
  · intro h0 hu; simp [toKilometers, toKilometersStr, hs, h0, hu]
  · intro h0 hu f hf
    have : u.isEmpty = false := by cases u <;> simp_all
    simp [toKilometers, toKilometersStr, hs, h0, this, hf]
  · intro h0 hu hf
    have : u.isEmpty = false := by cases u <;> simp_all
    simp [toKilometers, toKilometersStr, hs, h0, this, hf]

/-- **C06_units_scan** — the scanner on every spelling of the table, in three layouts
(`"5 u"`, `"2.5e3u"`, `" 1_000.25  u "`): the result is `length × factor` exactly. -/
theorem C06_units_scan :
    ∀ e ∈ unitTable, ∀ n ∈ e.1,
      toKilometers (.str ("5 " ++ n)) = .ok (5 * e.2) ∧
      toKilometers (.str ("2.5e3" ++ n)) = .ok (2500 * e.2) ∧
      toKilometers (.str (" 1_000.25  " ++ n ++ " ")) = .ok ((100025 : Rat) / 100 * e.2) := by
  decide +kernel

/-- **C06_units_agree** — the same length written in different units gives exactly the
same radius over ℚ: `'5 km'`, `'5000 m'`, `'500000 cm'`; miles go through the statute
factor 1.609344 exactly; and in general `x km = 1000·x m = 100000·x cm` for every `x`. -/
theorem C06_units_agree :
    toKilometers (.str "5 km") = .ok 5 ∧ toKilometers (.str "5000 m") = .ok 5 ∧
    toKilometers (.str "500000 cm") = .ok 5 ∧ toKilometers (.str "5") = .ok 5 ∧
    toKilometers (.str "3.1 miles") = .ok ((31 : Rat) / 10 * ((1609344 : Rat) / 1000000)) ∧
    toKilometers (.str "0 km") = .error .valueError ∧
    toKilometers (.str "5 parsec") = .error .valueError ∧
    toKilometers (.str "") = .error .valueError ∧
    toKilometers .other = .error .valueError ∧
    (∀ x : Rat, toKilometers (.num x) = .ok x) ∧
    (∀ x : Rat, (1000 * x) * ((1 : Rat) / 1000) = x * 1 ∧ (100000 * x) * ((1 : Rat) / 100000) = x * 1) := by
  refine ⟨by decide +kernel, by decide +kernel, by decide +kernel, by decide +kernel,
    by decide +kernel, by decide +kernel, by decide +kernel, by decide +kernel, rfl,
    fun x => rfl, fun x => ⟨by ring, by ring⟩⟩

/-- **C06_query_unit_invariant** — the result of `query` does not depend on the unit in
which the radius is written: two radius arguments (numbers or strings) that
`to_kilometers` maps to the same value — or rejects with the same error — give the same
outcome of `GeoIndex.query`, for every index, tree and query points. -/
theorem C06_query_unit_invariant {P α : Type} [NatCast α] [Mul α] [Div α] (cast : Rat → α)
    (T : TreeFn P α) (ix : Index P) (qs : List P) (r1 r2 : Dist)
    (h : toKilometers r1 = toKilometers r2) :
    queryArg cast T ix qs r1 = queryArg cast T ix qs r2 := by
  unfold queryArg; rw [h]

/-- … in particular `'5 km'`, `'5000 m'`, `'500000 cm'`, `'5'` and the number 5 give the
same pairs and distances, namely those of radius 5 km; `'0 km'` and an unknown unit raise. -/
theorem C06_query_unit_examples {P α : Type} [NatCast α] [Mul α] [Div α] (cast : Rat → α)
    (T : TreeFn P α) (ix : Index P) (qs : List P) :
    queryArg cast T ix qs (.str "5 km") = query T ix qs (cast 5) ∧
    queryArg cast T ix qs (.str "5000 m") = query T ix qs (cast 5) ∧
    queryArg cast T ix qs (.str "500000 cm") = query T ix qs (cast 5) ∧
    queryArg cast T ix qs (.str "5") = query T ix qs (cast 5) ∧
    queryArg cast T ix qs (.num 5) = query T ix qs (cast 5) ∧
    queryArg cast T ix qs (.str "0 km") = .error .valueError ∧
    queryArg cast T ix qs (.str "5 parsec") = .error .valueError := by
  obtain ⟨h1, h2, h3, h4, _, h6, h7, _⟩ := C06_units_agree
  refine ⟨?_, ?_, ?_, ?_, rfl, ?_, ?_⟩ <;> simp only [queryArg, h1, h2, h3, h4, h6, h7]

/-- **C06_queryArg_spec** — `query` with the radius as the user writes it: when
`to_kilometers` accepts it as `km`, the answer meets `QuerySpec` for `km` kilometres (for
every permutation, tree obeying the contract, both metrics). -/
theorem C06_queryArg_spec {P α : Type} [Field α] [LinearOrder α] [IsStrictOrderedRing α]
    (cast : Rat → α) (dist : P → P → α) (T : TreeFn P α) (hT : TreeOK dist T) (m : Metric)
    (hm : m ≠ .unknown) (pts qs : List P) (r : Dist) (km : Rat) (hr : toKilometers r = .ok km)
    (shuffle : Option (List Nat)) (hσ : ValidShuffle pts.length shuffle) :
    ∃ ix pairs ds, Index.build m pts shuffle = .ok ix ∧
      queryArg cast T ix qs r = .ok (pairs, ds) ∧ QuerySpec m dist pts qs (cast km) pairs ds := by
  obtain ⟨ix, pairs, ds, h1, h2, h3⟩ := query_spec dist T hT m hm pts qs (cast km) shuffle hσ
  exact ⟨ix, pairs, ds, h1, by simp only [queryArg, hr, h2], h3⟩

/-! ## Non-vacuity: the contract is satisfiable, the theorems apply to concrete data -/

-- `bruteTree` and `bruteTree_ok : TreeOK dist (bruteTree dist)` (Proofs/Lemmas/GeoIndex.lean): a brute-force
-- "tree" satisfies the contract, so `TreeOK` is not vacuous

example : ValidShuffle 4 (some [2, 0, 3, 1]) := by
  show [2, 0, 3, 1].Perm (List.range 4); decide
example : ValidShuffle 4 none := trivial

-- executable sanity tests of the model (tests, not theorems): points on a line, metres
#guard (do let ix ← Index.build .minkowski ([0, 900, 1100, 5000] : List Rat) (some [2, 0, 3, 1])
           query (bruteTree (fun a b => |a - b|)) ix [0, 5100] (1 : Rat))
        == .ok ([(0, 0), (1, 0), (3, 1)], [0, 9/10, 1/10])
#guard (do let ix ← Index.build .minkowski ([0, 900, 1100, 5000] : List Rat) none
           query (bruteTree (fun a b => |a - b|)) ix [0, 5100] (1 : Rat))
        == .ok ([(0, 0), (1, 0), (3, 1)], [0, 9/10, 1/10])
#guard (do let ix ← Index.build .minkowski ([0, 900] : List Rat) (some [1, 2])
           query (bruteTree (fun a b => |a - b|)) ix [0] (1 : Rat)) == .error .indexError
#guard (Index.build .unknown ([0] : List Rat) none).toOption.isNone

assert_axioms C06_query_spec C06_config_invariant C06_shuffle_invariant C06_tree_class_invariant
  C06_leaf_invariant C06_nodist_eq C06_units_table C06_units C06_units_scan C06_units_agree
  C06_query_unit_invariant C06_query_unit_examples C06_queryArg_spec
  bruteTree_ok
