import Proofs.Lemmas.GeoIndex
import Proofs.Audit

open Geo
deriving instance DecidableEq for Except

theorem C06_units_km_m : toKilometers (.str "5 km") = toKilometers (.str "5000 m") := by decide +kernel

assert_axioms C06_units_km_m
