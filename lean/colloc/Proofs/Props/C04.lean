import Proofs.Lemmas.Spatial
import Proofs.Audit

/-!
# C04 — `Collocator.collocate` finds exactly the point pairs within distance and interval

Property theorems only.  Helper lemmas: `Proofs/Lemmas/{GeoIndex,Collocate,Binning,
Assemble,Pipeline,Main,History}.lean`; model: `Model/Collocate.lean`, `Model/GeoIndex.lean`.

Setting (all universally quantified): positions `Pos` with decidable equality and a
symmetric tree distance `dist : Pos → Pos → α` into a linearly ordered field (`near` =
"distance in km ≤ max_distance"); any tree `T` obeying the contract `TreeOK dist T`
(hypothesis); any family of permutations `shuf` (`ValidShuf`: what the shuffles of the
GeoIndex constructions may draw); any tuning (`magnitude_factor`, the threshold of the
pre-binned path, and — when that path is taken — any *valid cut* `ValidCut` of the
time-sorted larger dataset into consecutive labelled runs, which abstracts pandas'
`Grouper` for every `bin_factor`); any object state satisfying `Inv` (shown to hold after
every history of calls).  Datasets are lists of labelled lines with cells (linear data =
one cell per line; NaN position = `none`), times are integer ns, `mi` integer ns.
-/

open Geo Colloc

section C04
variable {Pos α : Type} [DecidableEq Pos] [Field α] [LinearOrder α] [IsStrictOrderedRing α]

/-- **C04_binning_complete_nodup** — `spatial_search_with_temporal_binning`: for
time-sorted data, **every** valid cut of the larger dataset into labelled runs (hence every
`bin_factor`), either size ordering (dataset swap), every object state: the concatenation
over the bins of (bin primaries × sliced secondaries), shifted by the `searchsorted`
offsets, contains only pairs within the distance, contains **every** pair within distance
with `|Δt| < max_interval`, contains no pair twice, and the distances are aligned. -/
theorem C04_binning_complete_nodup (dist : Pos → Pos → α) (hsym : ∀ a b, dist a b = dist b a)
    (T : TreeFn Pos α) (hT : TreeOK dist T) (shuf : Nat → List Pos → List Nat)
    (hshuf : ValidShuf shuf) (mf : Nat) (mi : Int) (r : α) (st : SState Pos) (hinv : Inv st)
    (prim sec : List (NPt Pos))
    (hP : (prim.map (·.time)).Pairwise (· ≤ ·)) (hS : (sec.map (·.time)).Pairwise (· ≤ ·))
    (cut : List (Int × Nat))
    (hcut : ValidCut ((if sec.length > prim.length then sec else prim).map (·.time)) cut 0) :
    ∃ st' pairs ds, binnedSearch T shuf mf mi r st prim sec cut = (st', .ok (pairs, ds)) ∧
      Inv st' ∧ CandSpec dist r mi prim sec pairs ds :=
  binnedSearch_spec dist hsym T hT shuf hshuf mf mi r st hinv prim sec hP hS cut hcut

/-- **C04_pairs_spec** — `collocate(primary, secondary, max_interval, max_distance,
start, end, …)` returns (never raises; an empty dataset gives `None`), keeps the object
invariant, and the collocations of the outcome, identified by the carried ids, are
**exactly** `{(i, j) | both positions valid ∧ distance ≤ max_distance ∧ |tᵢ − tⱼ| <
max_interval ∧ both times in [start, end]}` with `⌊|Δt|⌋` seconds and the pair's distance
stored alongside; the outcome is `None` iff that set is empty; with unique ids no pair is
reported twice.  Covers the direct and the pre-binned path, the cached-index state
machine, NaN filtering, sorting, compaction. -/
theorem C04_pairs_spec (dist : Pos → Pos → α) (hsym : ∀ a b, dist a b = dist b a)
    (T : TreeFn Pos α) (hT : TreeOK dist T) (shuf : Nat → List Pos → List Nat)
    (hshuf : ValidShuf shuf) (tn : Tuning) (st : SState Pos) (hinv : Inv st)
    (p s : List (Line Pos)) (mi : Int) (r : α) (start stop : Option Int)
    (hcut : ∀ lo hi, commonWindow p s mi start stop = some (lo, hi) →
      CutOK tn (dropNan (flatten (selectLines p lo hi))) (dropNan (flatten (selectLines s lo hi)))) :
    ∃ st' out, collocate T shuf tn st p s mi r start stop = (st', .ok out) ∧ Inv st' ∧
      (∀ i j iv d, ((i, j), iv, d) ∈ outPairs out ↔ Collocated dist r mi start stop p s i j iv d) ∧
      (out = none ↔ ∀ i j iv d, ¬ Collocated dist r mi start stop p s i j iv d) ∧
      (((flatten p).map (·.id)).Nodup → ((flatten s).map (·.id)).Nodup →
        ((outPairs out).map (·.1)).Nodup) :=
  collocate_spec dist hsym T hT shuf hshuf tn st hinv p s mi r start stop hcut

theorem ivOf_comm (t1 t2 : Int) : ivOf t1 t2 = ivOf t2 t1 := by
  unfold ivOf
  have : (t1 - t2).natAbs = (t2 - t1).natAbs := by omega
  rw [this]

theorem collocated_swap (dist : Pos → Pos → α) (hsym : ∀ a b, dist a b = dist b a) (r : α)
    (mi : Int) (start stop : Option Int) (p s : List (Line Pos)) (i j : Nat) (iv : Int) (d : α) :
    Collocated dist r mi start stop p s i j iv d ↔ Collocated dist r mi start stop s p j i iv d := by
  constructor
  · rintro ⟨x, hx, y, hy, h1, h2, px, py, h3, h4, h5, h6, u1, u2, h7, h8⟩
    exact ⟨y, hy, x, hx, h2, h1, py, px, h4, h3, (near_symm dist hsym r _ _).mp h5, ⟨h6.2, h6.1⟩,
      u2, u1, by rw [h7, ivOf_comm], by rw [h8]; simp [distKm, hsym px py]⟩
  · rintro ⟨x, hx, y, hy, h1, h2, px, py, h3, h4, h5, h6, u1, u2, h7, h8⟩
    exact ⟨y, hy, x, hx, h2, h1, py, px, h4, h3, (near_symm dist hsym r _ _).mp h5, ⟨h6.2, h6.1⟩,
      u2, u1, by rw [h7, ivOf_comm], by rw [h8]; simp [distKm, hsym px py]⟩

/-- **C04_swap_transpose** — swapping primary and secondary transposes the result (same
intervals and distances), for any two object states, tunings, trees and permutations. -/
theorem C04_swap_transpose (dist : Pos → Pos → α) (hsym : ∀ a b, dist a b = dist b a)
    (T T' : TreeFn Pos α) (hT : TreeOK dist T) (hT' : TreeOK dist T')
    (shuf shuf' : Nat → List Pos → List Nat) (hshuf : ValidShuf shuf) (hshuf' : ValidShuf shuf')
    (tn tn' : Tuning) (st st' : SState Pos) (hinv : Inv st) (hinv' : Inv st')
    (p s : List (Line Pos)) (mi : Int) (r : α) (start stop : Option Int)
    (hcut : ∀ lo hi, commonWindow p s mi start stop = some (lo, hi) →
      CutOK tn (dropNan (flatten (selectLines p lo hi))) (dropNan (flatten (selectLines s lo hi))))
    (hcut' : ∀ lo hi, commonWindow s p mi start stop = some (lo, hi) →
      CutOK tn' (dropNan (flatten (selectLines s lo hi))) (dropNan (flatten (selectLines p lo hi)))) :
    ∃ s1 out s2 out', collocate T shuf tn st p s mi r start stop = (s1, .ok out) ∧
      collocate T' shuf' tn' st' s p mi r start stop = (s2, .ok out') ∧
      (∀ i j iv d, ((i, j), iv, d) ∈ outPairs out ↔ ((j, i), iv, d) ∈ outPairs out') ∧
      (out = none ↔ out' = none) := by
  obtain ⟨s1, out, e1, _, m1, n1, _⟩ :=
    collocate_spec dist hsym T hT shuf hshuf tn st hinv p s mi r start stop hcut
  obtain ⟨s2, out', e2, _, m2, n2, _⟩ :=
    collocate_spec dist hsym T' hT' shuf' hshuf' tn' st' hinv' s p mi r start stop hcut'
  refine ⟨s1, out, s2, out', e1, e2, ?_, ?_⟩
  · intro i j iv d
    rw [m1, m2, collocated_swap dist hsym]
  · rw [n1, n2]
    constructor
    · intro h i j iv d hc; exact h j i iv d ((collocated_swap dist hsym r mi start stop p s j i iv d).mpr hc)
    · intro h i j iv d hc; exact h j i iv d ((collocated_swap dist hsym r mi start stop p s i j iv d).mp hc)

/-- **C04_tuning_invariant** — the set of collocations (with intervals and distances)
and the `None`-ness are the same for every two configurations: `magnitude_factor`, the
direct/pre-binned threshold, the cut (`bin_factor`), the tree (`leaf_size`, class), the
permutations, and the object state. -/
theorem C04_tuning_invariant (dist : Pos → Pos → α) (hsym : ∀ a b, dist a b = dist b a)
    (T T' : TreeFn Pos α) (hT : TreeOK dist T) (hT' : TreeOK dist T')
    (shuf shuf' : Nat → List Pos → List Nat) (hshuf : ValidShuf shuf) (hshuf' : ValidShuf shuf')
    (tn tn' : Tuning) (st st' : SState Pos) (hinv : Inv st) (hinv' : Inv st')
    (p s : List (Line Pos)) (mi : Int) (r : α) (start stop : Option Int)
    (hcut : ∀ lo hi, commonWindow p s mi start stop = some (lo, hi) →
      CutOK tn (dropNan (flatten (selectLines p lo hi))) (dropNan (flatten (selectLines s lo hi))))
    (hcut' : ∀ lo hi, commonWindow p s mi start stop = some (lo, hi) →
      CutOK tn' (dropNan (flatten (selectLines p lo hi))) (dropNan (flatten (selectLines s lo hi)))) :
    ∃ s1 out s2 out', collocate T shuf tn st p s mi r start stop = (s1, .ok out) ∧
      collocate T' shuf' tn' st' p s mi r start stop = (s2, .ok out') ∧
      (∀ x, x ∈ outPairs out ↔ x ∈ outPairs out') ∧ (out = none ↔ out' = none) := by
  obtain ⟨s1, out, e1, _, m1, n1, _⟩ :=
    collocate_spec dist hsym T hT shuf hshuf tn st hinv p s mi r start stop hcut
  obtain ⟨s2, out', e2, _, m2, n2, _⟩ :=
    collocate_spec dist hsym T' hT' shuf' hshuf' tn' st' hinv' p s mi r start stop hcut'
  refine ⟨s1, out, s2, out', e1, e2, ?_, by rw [n1, n2]⟩
  rintro ⟨⟨i, j⟩, iv, d⟩
  rw [m1, m2]

/-- **C04_history_independent** — a Collocator reused after **any** sequence of earlier
calls (any data, thresholds, tunings, cuts — valid or not — succeeding, returning `None`
or raising) answers like a fresh one: same collocations, same `None`-ness.  The cache is
valid exactly when the coordinates are equal (`isCached`), which is what `Inv` needs. -/
theorem C04_history_independent (dist : Pos → Pos → α) (hsym : ∀ a b, dist a b = dist b a)
    (T : TreeFn Pos α) (hT : TreeOK dist T) (shuf : Nat → List Pos → List Nat)
    (hshuf : ValidShuf shuf)
    (history : List (Tuning × List (Line Pos) × List (Line Pos) × Int × α × Option Int × Option Int))
    (tn : Tuning) (p s : List (Line Pos)) (mi : Int) (r : α)
    (start stop : Option Int)
    (hcut : ∀ lo hi, commonWindow p s mi start stop = some (lo, hi) →
      CutOK tn (dropNan (flatten (selectLines p lo hi))) (dropNan (flatten (selectLines s lo hi)))) :
    Inv (runHistory T shuf {} history) ∧
    ∃ s1 out s2 out0,
      collocate T shuf tn (runHistory T shuf {} history) p s mi r start stop = (s1, .ok out) ∧
      collocate T shuf tn {} p s mi r start stop = (s2, .ok out0) ∧
      (∀ x, x ∈ outPairs out ↔ x ∈ outPairs out0) ∧ (out = none ↔ out0 = none) := by
  have hinv := runHistory_inv T shuf hshuf ({} : SState Pos) inv_init history
  refine ⟨hinv, ?_⟩
  exact C04_tuning_invariant dist hsym T T hT hT shuf shuf hshuf hshuf tn tn _ _ hinv inv_init
    p s mi r start stop hcut hcut

theorem ivOf_spec (t1 t2 : Int) :
    0 ≤ ivOf t1 t2 ∧ ivOf t1 t2 * 1000000000 ≤ |t1 - t2| ∧ |t1 - t2| < (ivOf t1 t2 + 1) * 1000000000 := by
  unfold ivOf
  have h : |t1 - t2| = ((t1 - t2).natAbs : Int) := (Int.natCast_natAbs _).symm
  rw [h]
  refine ⟨by positivity, ?_, ?_⟩ <;> omega

/-- **C04_interval_distance_values** — every stored collocation carries the interval
`⌊|Δt| / 1 s⌋` (whole seconds, truncated — the comparison with `max_interval` used the
untruncated `|Δt|`) and the distance of exactly that pair of points, in km (`dist/1000`). -/
theorem C04_interval_distance_values (dist : Pos → Pos → α) (hsym : ∀ a b, dist a b = dist b a)
    (T : TreeFn Pos α) (hT : TreeOK dist T) (shuf : Nat → List Pos → List Nat)
    (hshuf : ValidShuf shuf) (tn : Tuning) (st : SState Pos) (hinv : Inv st)
    (p s : List (Line Pos)) (mi : Int) (r : α) (start stop : Option Int)
    (hcut : ∀ lo hi, commonWindow p s mi start stop = some (lo, hi) →
      CutOK tn (dropNan (flatten (selectLines p lo hi))) (dropNan (flatten (selectLines s lo hi)))) :
    ∃ st' out, collocate T shuf tn st p s mi r start stop = (st', .ok out) ∧
      ∀ i j iv d, ((i, j), iv, d) ∈ outPairs out →
        ∃ x ∈ flatten p, ∃ y ∈ flatten s, x.id = i ∧ y.id = j ∧ ∃ px py, x.pos = some px ∧ y.pos = some py ∧
          0 ≤ iv ∧ iv * 1000000000 ≤ |x.time - y.time| ∧ |x.time - y.time| < (iv + 1) * 1000000000 ∧
          |x.time - y.time| < mi ∧ d = dist px py / ((1000 : Nat) : α) := by
  obtain ⟨st', out, e1, _, m1, _, _⟩ :=
    collocate_spec dist hsym T hT shuf hshuf tn st hinv p s mi r start stop hcut
  refine ⟨st', out, e1, ?_⟩
  intro i j iv d hmem
  obtain ⟨x, hx, y, hy, h1, h2, px, py, h3, h4, _, h6, _, _, rfl, rfl⟩ := (m1 i j iv d).mp hmem
  obtain ⟨a1, a2, a3⟩ := ivOf_spec x.time y.time
  refine ⟨x, hx, y, hy, h1, h2, px, py, h3, h4, a1, a2, a3, ?_, rfl⟩
  rw [abs_lt]; exact ⟨by have := h6.2; omega, h6.1⟩

/-- **C04_spatial_only_spec** — `collocate(primary, secondary, max_distance=r)` with
`max_interval=None` (spatial search only; `start`/`end` unused, nothing sorted): never
raises, keeps the object invariant, and reports exactly the id pairs of points with valid
positions at most `r` km apart — each once, `None` iff there is none — with `⌊|Δt|⌋`
seconds and the distance of that pair; for **every** object state satisfying `Inv`. -/
theorem C04_spatial_only_spec (dist : Pos → Pos → α) (hsym : ∀ a b, dist a b = dist b a)
    (T : TreeFn Pos α) (hT : TreeOK dist T) (shuf : Nat → List Pos → List Nat)
    (hshuf : ValidShuf shuf) (tn : Tuning) (st : SState Pos) (hinv : Inv st)
    (p s : List (Line Pos)) (r : α) :
    ∃ st' out, collocateSpatial T shuf tn st p s r = (st', .ok out) ∧ Inv st' ∧
      (∀ i j iv d, ((i, j), iv, d) ∈ outPairs out ↔ CollocatedSp dist r p s i j iv d) ∧
      (out = none ↔ ∀ i j iv d, ¬ CollocatedSp dist r p s i j iv d) ∧
      (((flatten p).map (·.id)).Nodup → ((flatten s).map (·.id)).Nodup →
        ((outPairs out).map (·.1)).Nodup) :=
  collocateSpatial_spec dist hsym T hT shuf hshuf tn st hinv p s r

/-- **C04_inv_preserved** — both kinds of calls (with and without `max_interval`) keep
the object invariant, whatever they are given and whether they return, return `None` or
raise; hence `Inv` holds after any mixed history on a fresh Collocator. -/
theorem C04_inv_preserved (T : TreeFn Pos α) (shuf : Nat → List Pos → List Nat)
    (hshuf : ValidShuf shuf) (tn : Tuning) (st : SState Pos) (hinv : Inv st)
    (p s : List (Line Pos)) (mi : Int) (r : α) (start stop : Option Int) :
    Inv (collocate T shuf tn st p s mi r start stop).1 ∧ Inv (collocateSpatial T shuf tn st p s r).1 :=
  ⟨collocate_inv T shuf hshuf tn st hinv p s mi r start stop,
   collocateSpatial_inv T shuf hshuf tn st hinv p s r⟩

/-- **C04_spatial_state_independent** — the spatial-only answer is the same for any two
object states satisfying `Inv` (a reused Collocator — e.g. one whose cached index was
built from other, or since corrected, positions — answers like a fresh one, because the
cache is used only when the coordinates are equal), any two trees, permutations, tunings. -/
theorem C04_spatial_state_independent (dist : Pos → Pos → α) (hsym : ∀ a b, dist a b = dist b a)
    (T T' : TreeFn Pos α) (hT : TreeOK dist T) (hT' : TreeOK dist T')
    (shuf shuf' : Nat → List Pos → List Nat) (hshuf : ValidShuf shuf) (hshuf' : ValidShuf shuf')
    (tn tn' : Tuning) (st st' : SState Pos) (hinv : Inv st) (hinv' : Inv st')
    (p s : List (Line Pos)) (r : α) :
    ∃ s1 out s2 out', collocateSpatial T shuf tn st p s r = (s1, .ok out) ∧
      collocateSpatial T' shuf' tn' st' p s r = (s2, .ok out') ∧
      (∀ x, x ∈ outPairs out ↔ x ∈ outPairs out') ∧ (out = none ↔ out' = none) := by
  obtain ⟨s1, out, e1, _, m1, n1, _⟩ := collocateSpatial_spec dist hsym T hT shuf hshuf tn st hinv p s r
  obtain ⟨s2, out', e2, _, m2, n2, _⟩ :=
    collocateSpatial_spec dist hsym T' hT' shuf' hshuf' tn' st' hinv' p s r
  refine ⟨s1, out, s2, out', e1, e2, ?_, by rw [n1, n2]⟩
  rintro ⟨⟨i, j⟩, iv, d⟩
  rw [m1, m2]

end C04

/-- **C04_grid_flatten** — stacking (scan line, scan position) row-major: the point at
flat index `l·npos + c` of the flattened dataset is cell `c` of line `l` with the line's
time broadcast, carrying its line label and scan position; `unflatIndex` inverts
`flatIndex` (so pairs found on the flat index map back to (line, position)). -/
theorem C04_grid_flatten {Pos : Type} (d : List (Line Pos)) (npos : Nat)
    (hrect : ∀ l ∈ d, l.cells.length = npos) (l c : Nat) (ln : Line Pos) (cell : Cell Pos)
    (hl : d[l]? = some ln) (hc : ln.cells[c]? = some cell) :
    (flatten d)[flatIndex npos l c]? = some ⟨ln.time, cell.pos, cell.id, ln.label, c⟩ ∧
    unflatIndex npos (flatIndex npos l c) = (l, c) ∧
    (∀ k, flatIndex npos (unflatIndex npos k).1 (unflatIndex npos k).2 = k) := by
  have hclt : c < npos := by
    have := (List.getElem?_eq_some_iff.mp hc).1
    rw [hrect ln (List.mem_of_getElem? hl)] at this; exact this
  refine ⟨?_, unflat_flat npos l c hclt, flat_unflat npos⟩
  induction d generalizing l with
  | nil => simp at hl
  | cons a rest ih =>
    have ha : a.cells.length = npos := hrect a List.mem_cons_self
    have hlen : (a.cells.zipIdx.map (fun cj => (⟨a.time, cj.1.pos, cj.1.id, a.label, cj.2⟩ : Pt Pos))).length
        = npos := by simp [ha]
    unfold flatten
    rw [List.flatMap_cons]
    cases l with
    | zero =>
      simp only [List.getElem?_cons_zero, Option.some.injEq] at hl
      subst hl
      rw [List.getElem?_append_left (by rw [hlen]; simp [flatIndex, hclt])]
      simp [flatIndex, List.getElem?_map, List.getElem?_zipIdx, hc]
    | succ l =>
      have hl' : rest[l]? = some ln := by simpa using hl
      have := ih (fun l hl => hrect l (List.mem_cons_of_mem _ hl)) l hl'
      rw [List.getElem?_append_right (by rw [hlen]; simp [flatIndex]; nlinarith)]
      rw [hlen]
      have e : flatIndex npos (l + 1) c - npos = flatIndex npos l c := by
        simp only [flatIndex]; rw [Nat.succ_mul]; omega
      rw [e]
      exact this

/-! ## Non-vacuity: every hypothesis is satisfiable by concrete, non-trivial data -/

example : Inv ({} : SState Int) := inv_init
example : ValidShuf (fun _ (pts : List Int) => List.range pts.length) := fun _ _ => List.Perm.refl _
example : ValidShuf (fun _ (pts : List Int) => (List.range pts.length).reverse) :=
  fun _ _ => List.reverse_perm _
example : TreeOK (fun a b : Rat => |a - b|) (bruteTree (fun a b : Rat => |a - b|)) :=
  bruteTree_ok _
/-- a valid cut with an empty run in the middle: times 0,5 | (nothing) | 12 -/
example : ValidCut [0, 5, 12] [(0, 2), (6, 0), (12, 1)] 0 := by
  refine ⟨?_, ?_, by simp, ?_, ?_, by simp, ?_, ?_, by simp, by simp [ValidCut]⟩ <;>
    intro a t h1 h2 <;>
    (rcases a with _ | _ | _ | a <;> simp at h2 <;> omega)

-- executable sanity tests of the model over ℚ with the brute-force tree (tests, not theorems):
-- positions are metres on a line, times ns; max_distance 1 km, max_interval 2 s
private def exP : List (Line Rat) :=
  [⟨7, 5000000000, [⟨some 0, 10⟩]⟩, ⟨3, 1000000000, [⟨some 900, 11⟩]⟩, ⟨9, 3000000000, [⟨none, 12⟩]⟩,
   ⟨4, 9000000000, [⟨some 5000, 13⟩]⟩]
private def exS : List (Line Rat) :=
  [⟨1, 2500000000, [⟨some 100, 20⟩]⟩, ⟨2, 3000000000, [⟨some 1950, 21⟩]⟩, ⟨5, 9999999999, [⟨some 5000, 22⟩]⟩,
   ⟨6, 7000000000, [⟨some 0, 23⟩]⟩]
private def exRun (tn : Tuning) (st : SState Rat) :=
  (collocate (bruteTree (fun a b : Rat => |a - b|)) (fun _ pts => (List.range pts.length).reverse) tn st
    exP exS 2000000000 (1 : Rat) none none).2.toOption.map
      (fun o => (outPairs o).map (fun x => (x.1, x.2.1)))
-- direct path: 11–20 (800 m, 1.5 s), 13–22 (0 m, 0.999… s), 10–23 (0 m, 2 s: NOT < 2 s) is out
#guard exRun {} {} == some [((11, 20), 1), ((13, 22), 0)]
-- pre-binned path forced (thr = 0): the secondary has more valid points, so it is the binned side;
-- a two-run cut of its sorted times 2.5 s, 3 s | 7 s, 9.99 s
#guard exRun { thr := 0, cut := [(1000000000, 2), (4000000000, 2)] } {} == some [((11, 20), 1), ((13, 22), 0)]

-- spatial-only search: every pair within 1 km whatever the times (10–23 at 2 s, 10–20 at 2.5 s, 11–23 at 6 s included)
#guard ((collocateSpatial (bruteTree (fun a b : Rat => |a - b|)) (fun _ pts => List.range pts.length) {} {} exP exS (1 : Rat)).2.toOption.map
    (fun o => ((outPairs o).map (fun x => (x.1, x.2.1))).mergeSort
      (fun a b => decide (a.1.1 < b.1.1 ∨ (a.1.1 = b.1.1 ∧ a.1.2 ≤ b.1.2))))) ==
  some [((10, 20), 2), ((10, 23), 2), ((11, 20), 1), ((11, 23), 6), ((13, 22), 0)]

assert_axioms C04_binning_complete_nodup C04_pairs_spec C04_swap_transpose C04_tuning_invariant
  C04_history_independent C04_interval_distance_values C04_grid_flatten collocated_swap ivOf_comm
  ivOf_spec C04_spatial_only_spec C04_inv_preserved C04_spatial_state_independent
