import Proofs.Lemmas.Collocate
import Proofs.Audit

open Geo Colloc

theorem C04_grid_flatten_index (npos l c : Nat) (hc : c < npos) :
    unflatIndex npos (flatIndex npos l c) = (l, c) := unflat_flat npos l c hc

assert_axioms C04_grid_flatten_index
