import Model.Collocate
import Std.Data.HashMap
/-!
Line-protocol driver for C04 (Collocator.collocate).  Positions are integer codes (equal
code ⇔ equal lat/lon doubles), doubles cross as decimal UInt64 bit patterns, times are
integer ns.  The tree is the replay of recorded `query_radius` answers, looked up by
(tree rows, query rows); the permutation of the k-th GeoIndex construction is `shuf k`.

  reset                        -> ok       (fresh Collocator, empty tables)
  clear                        -> ok       (empty tables, keep the Collocator state)
  shuf K s0,s1,...             -> ok
  ans TP QP Q J1..JQ D1..DQ    -> ok       (TP, QP comma lists of codes; rows as in drv_c06)
                                           a call the model makes that was not recorded verbatim (e.g. the other
                                           side builds the index) is answered from the recorded near-relation
                                           on coordinates: (code, code) -> distance
  cut L:n,L:n,...   | cut -    -> ok
  ds NAME line line ...        -> ok       line = label:time:cell|cell|...   cell = code/id or n/id
  collocate P S MI RBITS START STOP MF THR
        -> none | error E | ok P=ids S=ids PL=line.cell,.. SL=.. pairs=a:b,.. iv=..,.. d=bits,..
           each followed by " st=IWP:BUILT"
        (START/STOP = integer ns or "-"; MI = "-" is max_interval=None, the spatial-only search)
  binned MF MI RBITS P S       -> error E | ok a:b:bits ... st=IWP:BUILT
        P, S = code:time,code:time,... (time-sorted NaN-free points; uses the current cut)
  unflat NPOS K                -> l c
-/
open Geo Colloc

instance : NatCast Float := ⟨Float.ofNat⟩

structure DState where
  st : SState Nat := {}
  shufs : List (Nat × List Nat) := []
  answers : List (List Nat × List Nat × List (List Nat) × List (List Float)) := []
  rel : Std.HashMap (Nat × Nat) Float := {}
  cut : List (Int × Nat) := []
  datasets : List (String × List (Line Nat)) := []

def parseNatList (s : String) : Option (List Nat) :=
  if s == "-" then some [] else (s.splitOn ",").mapM String.toNat?

def errStr : Err → String
  | .valueError => "value-error"
  | .indexError => "index-error"
  | .nonFinite => "nonfinite"

def showList (l : List String) : String := if l.isEmpty then "-" else ",".intercalate l

def mkTree (d : DState) : TreeFn Nat Float := fun tp qs _ =>
  match d.answers.find? (fun a => a.1 == tp && a.2.1 == qs) with
  | some a => (a.2.2.1, a.2.2.2)
  | none =>
    -- brute force over the recorded near-relation (symmetric in the coordinates)
    let rows := qs.map (fun q => (tp.zipIdx.filterMap (fun (c, j) => (d.rel.get? (c, q)).map (fun x => (j, x)))))
    (rows.map (·.map Prod.fst), rows.map (·.map Prod.snd))

def mkShuf (d : DState) : Nat → List Nat → List Nat := fun k pts =>
  match d.shufs.find? (fun x => x.1 == k) with
  | some x => if x.2.length == pts.length then x.2 else List.range pts.length
  | none => List.range pts.length     -- a construction the real object did not make: any permutation will do

def parseCell (s : String) : Option (Cell Nat) :=
  match s.splitOn "/" with
  | [c, i] => do
    let id ← i.toNat?
    if c == "n" then pure ⟨none, id⟩ else do
      let code ← c.toNat?
      pure ⟨some code, id⟩
  | _ => none

def parseLine (s : String) : Option (Line Nat) :=
  match s.splitOn ":" with
  | [l, t, cs] => do
    let label ← l.toNat?
    let time ← t.toInt?
    let cells ← (cs.splitOn "|").mapM parseCell
    pure ⟨label, time, cells⟩
  | _ => none

def parseOptInt (s : String) : Option (Option Int) :=
  if s == "-" then some none else s.toInt?.map some

def parseNPts (s : String) : Option (List (NPt Nat)) :=
  if s == "-" then some [] else
  (s.splitOn ",").mapM (fun x => match x.splitOn ":" with
    | [c, t] => do
      let c ← c.toNat?
      let t ← t.toInt?
      pure ⟨c, t⟩
    | _ => none)

def parseCut (s : String) : Option (List (Int × Nat)) :=
  if s == "-" then some [] else
  (s.splitOn ",").mapM (fun x => match x.splitOn ":" with
    | [l, n] => do
      let l ← l.toInt?
      let n ← n.toNat?
      pure (l, n)
    | _ => none)

def stStr (st : SState Nat) : String :=
  " st=" ++ (if st.iwp then "1" else "0") ++ ":" ++ toString st.built

def showResult (res : Result Nat Float) : String :=
  "ok P=" ++ showList (res.primary.map (fun p => toString p.id)) ++
  " S=" ++ showList (res.secondary.map (fun p => toString p.id)) ++
  " PL=" ++ showList (res.primary.map (fun p => toString p.line ++ "." ++ toString p.cell)) ++
  " SL=" ++ showList (res.secondary.map (fun p => toString p.line ++ "." ++ toString p.cell)) ++
  " pairs=" ++ showList (res.pairs.map (fun p => toString p.1 ++ ":" ++ toString p.2)) ++
  " iv=" ++ showList (res.intervals.map toString) ++
  " d=" ++ showList (res.distances.map (fun d => toString d.toBits.toNat))

def step (d : DState) (line : String) : DState × String :=
  match (line.splitOn " ").filter (· ≠ "") with
  | ["reset"] => ({}, "ok")
  | ["clear"] => ({ d with shufs := [], answers := [], rel := {}, cut := [], datasets := [] }, "ok")
  | ["shuf", k, s] =>
    match k.toNat?, parseNatList s with
    | some k, some s => ({ d with shufs := (k, s) :: d.shufs }, "ok")
    | _, _ => (d, "bad-op")
  | "ans" :: tp :: qp :: q :: rows =>
    match parseNatList tp, parseNatList qp, q.toNat? with
    | some tp, some qp, some q =>
      if rows.length ≠ 2 * q then (d, "bad-op") else
      match (rows.take q).mapM parseNatList, (rows.drop q).mapM parseNatList with
      | some J, some Db =>
        let D : List (List Float) := Db.map (·.map (fun b => Float.ofBits b.toUInt64))
        let tpa := tp.toArray
        let rel := ((qp.zip (J.zip D)).foldl (fun (m : Std.HashMap (Nat × Nat) Float) (q, js, ds) =>
          (js.zip ds).foldl (fun m (j, x) =>
            let c := tpa.getD j 0
            (m.insert (c, q) x).insert (q, c) x) m) d.rel)
        ({ d with answers := (tp, qp, J, D) :: d.answers, rel := rel }, "ok")
      | _, _ => (d, "bad-op")
    | _, _, _ => (d, "bad-op")
  | ["cut", c] =>
    match parseCut c with
    | some c => ({ d with cut := c }, "ok")
    | none => (d, "bad-op")
  | "ds" :: name :: lines =>
    match lines.mapM parseLine with
    | some ls => ({ d with datasets := (name, ls) :: d.datasets.filter (·.1 ≠ name) }, "ok")
    | none => (d, "bad-op")
  | ["collocate", p, s, "-", rb, _, _, mf, _] =>          -- max_interval=None: spatial search only
    match d.datasets.find? (·.1 == p), d.datasets.find? (·.1 == s), rb.toNat?, mf.toNat? with
    | some p, some s, some rb, some mf =>
      let r := Float.ofBits rb.toUInt64
      let tn : Tuning := { mf := mf }
      let (st', out) := collocateSpatial (mkTree d) (mkShuf d) tn d.st p.2 s.2 r
      let txt := match out with
        | .error e => "error " ++ errStr e
        | .ok none => "none"
        | .ok (some res) => showResult res
      ({ d with st := st' }, txt ++ stStr st')
    | _, _, _, _ => (d, "bad-op")
  | ["collocate", p, s, mi, rb, a, b, mf, thr] =>
    match d.datasets.find? (·.1 == p), d.datasets.find? (·.1 == s), mi.toInt?, rb.toNat?,
          parseOptInt a, parseOptInt b, mf.toNat?, thr.toNat? with
    | some p, some s, some mi, some rb, some a, some b, some mf, some thr =>
      let r := Float.ofBits rb.toUInt64
      let tn : Tuning := { mf := mf, thr := thr, cut := d.cut }
      let (st', out) := collocate (mkTree d) (mkShuf d) tn d.st p.2 s.2 mi r a b
      let txt := match out with
        | .error e => "error " ++ errStr e
        | .ok none => "none"
        | .ok (some res) => showResult res
      ({ d with st := st' }, txt ++ stStr st')
    | _, _, _, _, _, _, _, _ => (d, "bad-op")
  | ["binned", mf, mi, rb, p, s] =>
    match mf.toNat?, mi.toInt?, rb.toNat?, parseNPts p, parseNPts s with
    | some mf, some mi, some rb, some p, some s =>
      let r := Float.ofBits rb.toUInt64
      let (st', out) := binnedSearch (mkTree d) (mkShuf d) mf mi r d.st p s d.cut
      let txt := match out with
        | .error e => "error " ++ errStr e
        | .ok (pairs, ds) =>
          "ok " ++ showList ((pairs.zip ds).map (fun x =>
            toString x.1.1 ++ ":" ++ toString x.1.2 ++ ":" ++ toString x.2.toBits.toNat)) ++
          (if pairs.length == ds.length then "" else " LENGTH-MISMATCH")
      ({ d with st := st' }, txt ++ stStr st')
    | _, _, _, _, _ => (d, "bad-op")
  | ["unflat", n, k] =>
    match n.toNat?, k.toNat? with
    | some n, some k => (d, toString (unflatIndex n k).1 ++ " " ++ toString (unflatIndex n k).2)
    | _, _ => (d, "bad-op")
  | _ => (d, "bad-op")

partial def loop (h : IO.FS.Stream) (out : IO.FS.Stream) (d : DState) : IO Unit := do
  let line ← h.getLine
  if line.isEmpty then return ()
  let (d', o) := step d line.trimAscii.toString
  out.putStrLn o
  loop h out d'

def main : IO Unit := do
  let out ← IO.getStdout
  loop (← IO.getStdin) out {}
  out.flush
