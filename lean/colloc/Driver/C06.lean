import Model.GeoIndex
/-!
Line-protocol driver for C06 (GeoIndex / to_kilometers).  Doubles cross as decimal
UInt64 bit patterns.  Points are represented by their position in the caller's
arrays (`P = Nat`); the tree is the replay of the recorded `query_radius` answer.

  km HEX                 -> "ok NUM/DEN" | "value-error" | "nonfinite"      (HEX = utf-8 bytes of the string, "-" = empty)
  table                  -> "name=NUM/DEN ..." in table order
  consts                 -> earth radius (metres)
  radius M BITS          -> bits of the radius handed to the tree  (M = mink | hav)
  query M N S Q J1..JQ D1..DQ
                         -> "ok TP b:q:bits ..." | "index-error" | "value-error"
       N = number of build points, S = "-" (no shuffle) or s0,s1,..., Ji = "-" or j,j,..,
       Di = "-" or bits,bits,...;  TP = "-" or the tree rows as positions of the caller's
       points (t0,t1,...)
  querynd M N S Q J1..JQ -> "ok b:q ..." (return_distance=False)
  queryarg M N S Q HEX J1..JQ D1..DQ
                         -> as `query`, but through `queryArg`: the radius is the string HEX (to_kilometers first;
                            "value-error" / "nonfinite" when it is rejected)
Anything else -> "bad-op".
-/
open Geo

instance : NatCast Float := ⟨Float.ofNat⟩

def hexVal (c : Char) : Option Nat :=
  if '0' ≤ c ∧ c ≤ '9' then some (c.toNat - '0'.toNat)
  else if 'a' ≤ c ∧ c ≤ 'f' then some (c.toNat - 'a'.toNat + 10)
  else none

def hexToChars : List Char → Option (List Char)
  | [] => some []
  | a :: b :: rest => do
    let x ← hexVal a
    let y ← hexVal b
    let r ← hexToChars rest
    pure (Char.ofNat (16 * x + y) :: r)
  | _ => none

def showRat (q : Rat) : String := toString q.num ++ "/" ++ toString q.den

def parseMetric : String → Option Metric
  | "mink" => some .minkowski
  | "hav" => some .haversine
  | "unk" => some .unknown
  | _ => none

def parseNatList (s : String) : Option (List Nat) :=
  if s == "-" then some [] else (s.splitOn ",").mapM String.toNat?

def parseShuffle (s : String) : Option (Option (List Nat)) :=
  if s == "-" then some none else (parseNatList s).map some

def errStr : Err → String
  | .valueError => "value-error"
  | .indexError => "index-error"
  | .nonFinite => "nonfinite"

def showNats (l : List Nat) : String :=
  if l.isEmpty then "-" else ",".intercalate (l.map toString)

def ratToFloat (q : Rat) : Float := Float.ofInt q.num / Float.ofNat q.den

def runQuery (withDist : Bool) (m : Metric) (n : Nat) (sh : Option (List Nat)) (rows : List String)
    (rarg : Option String := none) : String :=
  let q := if withDist then rows.length / 2 else rows.length
  match (rows.take q).mapM parseNatList,
        (if withDist then (rows.drop q).mapM parseNatList else some []) with
  | some J, some Db =>
    let D : List (List Float) := Db.map (·.map (fun b => Float.ofBits b.toUInt64))
    let T : TreeFn Nat Float := fun _ _ _ => (J, D)
    match Index.build m (List.range n) sh with
    | .error e => errStr e
    | .ok ix =>
      let tp := showNats ix.treePoints
      let qs := List.range q
      if withDist then
        match (match rarg with
               | none => query T ix qs (0 : Float)
               | some str => queryArg ratToFloat T ix qs (.str str)) with
        | .error e => errStr e
        | .ok (pairs, ds) =>
          let items := (pairs.zip ds).map (fun (p, d) =>
            toString p.1 ++ ":" ++ toString p.2 ++ ":" ++ toString d.toBits.toNat)
          "ok " ++ tp ++ " " ++ (if items.isEmpty then "-" else " ".intercalate items) ++
            (if pairs.length == ds.length then "" else " LENGTH-MISMATCH")
      else
        match queryNoDist T ix qs (0 : Float) with
        | .error e => errStr e
        | .ok pairs =>
          let items := pairs.map (fun p => toString p.1 ++ ":" ++ toString p.2)
          "ok " ++ tp ++ " " ++ (if items.isEmpty then "-" else " ".intercalate items)
  | _, _ => "bad-op"

def step (line : String) : String :=
  match (line.splitOn " ").filter (· ≠ "") with
  | ["km", h] =>
    match (if h == "-" then some [] else hexToChars h.toList) with
    | none => "bad-op"
    | some cs =>
      match toKilometers (.str (String.ofList cs)) with
      | .ok q => "ok " ++ showRat q
      | .error e => errStr e
  | ["table"] =>
    " ".intercalate (unitTable.flatMap (fun (ns, f) => ns.map (fun n => n ++ "=" ++ showRat f)))
  | ["consts"] => toString earthRadius
  | ["radius", m, b] =>
    match parseMetric m, b.toNat? with
    | some m, some b => toString (scaleRadius m (Float.ofBits b.toUInt64)).toBits.toNat
    | _, _ => "bad-op"
  | "query" :: m :: n :: s :: q :: rows =>
    match parseMetric m, n.toNat?, parseShuffle s, q.toNat? with
    | some m, some n, some sh, some q =>
      if rows.length ≠ 2 * q then "bad-op" else runQuery true m n sh rows
    | _, _, _, _ => "bad-op"
  | "queryarg" :: m :: n :: s :: q :: h :: rows =>
    match parseMetric m, n.toNat?, parseShuffle s, q.toNat?,
          (if h == "-" then some [] else hexToChars h.toList) with
    | some m, some n, some sh, some q, some cs =>
      if rows.length ≠ 2 * q then "bad-op" else runQuery true m n sh rows (some (String.ofList cs))
    | _, _, _, _, _ => "bad-op"
  | "querynd" :: m :: n :: s :: q :: rows =>
    match parseMetric m, n.toNat?, parseShuffle s, q.toNat? with
    | some m, some n, some sh, some q =>
      if rows.length ≠ q then "bad-op" else runQuery false m n sh rows
    | _, _, _, _ => "bad-op"
  | _ => "bad-op"

partial def loop (h : IO.FS.Stream) (out : IO.FS.Stream) : IO Unit := do
  let line ← h.getLine
  if line.isEmpty then return ()
  out.putStrLn (step line.trimAscii.toString)
  loop h out

def main : IO Unit := do
  let out ← IO.getStdout
  loop (← IO.getStdin) out
  out.flush
