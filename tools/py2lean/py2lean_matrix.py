"""py2lean_matrix — translate straight-line numpy matrix algebra into Lean 4 (Mathlib `Matrix`)
and, from the SAME expression tree, into exact-rational Python (the "Fraction dialect").

One Python function becomes
  * dialect "lean":  `noncomputable def TM.<name> {m n : ℕ} (K : Matrix (Fin m) (Fin n) ℝ) … :=`
                      (theorems are about these),
  * dialect "frac":  `def <name>(K, …): return F.inv(F.add(…))` over tools/py2lean/fracmat.py
                      (executable; cross-run against the real numpy/scipy code on small integer
                      matrices by the harness — this validates the tree builder below).

The two printers share the intermediate tree (`Node`) built by `Builder`; each printer is a table
of a few lines.  The Lean printer is additionally pinned by the hand-written normal-form lemmas of
lean/oem/Proofs/Props/C17.lean (they state every generated definition in explicit Mathlib
notation and are proved by unfolding only).

Accepted subset — anything else raises Refusal (the function is then OMITTED from the generated
module, so every theorem about it fails to build; never a silent skip):
  parameters : positional names, each with a declared symbolic shape from the spec
               (("m","n") matrix, ("n",) vector);  no defaults, *args, **kwargs
  statements : docstring;  `name = <expr>` (single Name target, not a parameter);  `return <expr>`
  expressions: names (parameters / locals);  `A @ B`  (matrix·matrix, matrix·vector,
               vector·matrix);  `A + B`, `A - B`, `-A`;  `A.T`, `A.transpose()`, `np.transpose(A)`
               (matrices only);  `inv(A)` where the callee RESOLVES, through the module's
               top-level imports and single-assignment aliases (`_invert = scipy.linalg.inv`,
               `from scipy.linalg import inv as _inv`), to `scipy.linalg.inv` or `numpy.linalg.inv`
               (square A only);
               calls of other translated functions (resolved the same way; positional or keyword
               arguments; shapes unified with the callee's declared shapes).
Spelling variants are normalised by tools/py2lean/normalize.py before the tree is built (gen_oem.py):
`np.matmul(A, B)` / `np.dot(A, B)` / `A.dot(B)` -> `A @ B` (identical for the 1-d / 2-d operands this
translator admits), `np.add/subtract/negative` -> operators, early returns -> single exit, calls of
module-level helper functions (incl. `*args` left folds over a fixed number of call-site arguments and
literal keyword flags) expanded in place, `for` over a literal tuple unrolled.  A local may be assigned
more than once (later `let`s shadow earlier ones, as in Python).
Shapes are symbolic and checked: a product with non-matching inner dimensions, a sum of different
shapes, the inverse of a non-square matrix are refusals ("shape mismatch") — in the real code they
raise for m ≠ n.
"""
import ast
import os
import sys

sys.path.insert(0, os.path.dirname(os.path.abspath(__file__)))
import normalize  # noqa: E402

Refusal = normalize.Refusal        # one exception type for the pre-passes and the tree builder


INV_TARGETS = {"scipy.linalg.inv", "numpy.linalg.inv", "scipy.linalg.basic.inv", "scipy.linalg._basic.inv"}
TRANSPOSE_TARGETS = {"numpy.transpose"}

LEAN_KEYWORDS = {"at", "from", "in", "fun", "end", "then", "else", "if", "do", "let", "have", "show", "with",
                 "open", "λ", "Type", "by", "m", "n"}


def san(name):
    name = name.replace("__", "_")
    if name in LEAN_KEYWORDS:
        return name + "_"
    return name


class Node:
    """expression tree shared by both printers.  op ∈ var, matmul, mulvec, vecmul, add, sub, neg,
    transpose, inv, call"""
    __slots__ = ("op", "args", "shape", "name")

    def __init__(self, op, args=(), shape=None, name=None):
        self.op, self.args, self.shape, self.name = op, tuple(args), tuple(shape), name

    def dump(self):
        if self.op == "var":
            return self.name
        if self.op == "call":
            return f"{self.name}({', '.join(a.dump() for a in self.args)})"
        return f"{self.op}({', '.join(a.dump() for a in self.args)})"


def import_table(tree, module_name):
    """top-level name -> dotted target it is bound to (imports, defs, single-assignment aliases such as
    `_invert = scipy.linalg.inv`); names bound by anything else map to None.  See normalize.module_table."""
    return normalize.module_table(tree, module_name)


class Builder:
    """builds the Node tree of one function; `known`: dotted name -> {'params': [(name, shape)], 'ret': shape, 'lean': name}"""

    def __init__(self, module_name, imports, known):
        self.module = module_name
        self.imports = imports
        self.known = known
        self.notes = []

    # ---------------------------------------------------------------- name resolution
    def resolve(self, f, env=()):
        """dotted target of a callee expression (Name / Attribute chain) or None"""
        parts = []
        e = f
        while isinstance(e, ast.Attribute):
            parts.append(e.attr)
            e = e.value
        if not isinstance(e, ast.Name):
            return None
        head = e.id
        if head == normalize.ABS_HEAD and head not in env:
            return ".".join(parts[::-1])                  # absolute spelling (helper brought in from another module)
        if head in env or head not in self.imports:      # parameters / locals shadow module names
            return None
        base = self.imports[head]
        if base is None:
            return None
        return ".".join([base] + parts[::-1])

    # ---------------------------------------------------------------- expressions
    def expr(self, e, env):
        if isinstance(e, ast.Name):
            if e.id not in env:
                raise Refusal(f"unknown name {e.id}")
            return Node("var", shape=env[e.id], name=e.id)
        if isinstance(e, ast.BinOp):
            a, b = self.expr(e.left, env), self.expr(e.right, env)
            if isinstance(e.op, ast.MatMult):
                return self.matmul(a, b, e)
            if isinstance(e.op, (ast.Add, ast.Sub)):
                if a.shape != b.shape:
                    raise Refusal(f"shape mismatch in {ast.unparse(e)}: {a.shape} vs {b.shape}")
                return Node("add" if isinstance(e.op, ast.Add) else "sub", (a, b), a.shape)
            raise Refusal(f"operator {type(e.op).__name__} in {ast.unparse(e)}")
        if isinstance(e, ast.UnaryOp) and isinstance(e.op, ast.USub):
            a = self.expr(e.operand, env)
            return Node("neg", (a,), a.shape)
        if isinstance(e, ast.Attribute) and e.attr == "T":
            return self.transpose(self.expr(e.value, env), e)
        if isinstance(e, ast.Call):
            return self.call(e, env)
        raise Refusal(f"expression {type(e).__name__}: {ast.unparse(e)}")

    def matmul(self, a, b, e):
        what = ast.unparse(e)
        if len(a.shape) == 2 and len(b.shape) == 2:
            if a.shape[1] != b.shape[0]:
                raise Refusal(f"shape mismatch in {what}: {a.shape} @ {b.shape}")
            return Node("matmul", (a, b), (a.shape[0], b.shape[1]))
        if len(a.shape) == 2 and len(b.shape) == 1:
            if a.shape[1] != b.shape[0]:
                raise Refusal(f"shape mismatch in {what}: {a.shape} @ {b.shape}")
            return Node("mulvec", (a, b), (a.shape[0],))
        if len(a.shape) == 1 and len(b.shape) == 2:
            if a.shape[0] != b.shape[0]:
                raise Refusal(f"shape mismatch in {what}: {a.shape} @ {b.shape}")
            return Node("vecmul", (a, b), (b.shape[1],))
        raise Refusal(f"vector @ vector (scalar result) in {what}")

    def transpose(self, a, e):
        if len(a.shape) != 2:
            raise Refusal(f"transpose of a vector in {ast.unparse(e)}")
        return Node("transpose", (a,), (a.shape[1], a.shape[0]))

    def call(self, e, env):
        f = e.func
        what = ast.unparse(e)
        # method  A.transpose()
        if isinstance(f, ast.Attribute) and f.attr == "transpose" and not e.args and not e.keywords \
                and self.resolve(f, env) is None:
            return self.transpose(self.expr(f.value, env), e)
        target = self.resolve(f, env)
        if target is None:
            raise Refusal(f"call of unresolved function in {what}")
        if target in INV_TARGETS:
            if len(e.args) != 1 or e.keywords:
                raise Refusal(f"inv with other than one positional argument: {what}")
            a = self.expr(e.args[0], env)
            if len(a.shape) != 2 or a.shape[0] != a.shape[1]:
                raise Refusal(f"shape mismatch: inverse of a {a.shape} array in {what}")
            return Node("inv", (a,), a.shape)
        if target in TRANSPOSE_TARGETS:
            if len(e.args) != 1 or e.keywords:
                raise Refusal(f"np.transpose with axes: {what}")
            return self.transpose(self.expr(e.args[0], env), e)
        if target in self.known:
            k = self.known[target]
            pnames = [p for p, _ in k["params"]]
            if len(e.args) > len(pnames):
                raise Refusal(f"too many arguments in {what}")
            bound = {}
            for p, a in zip(pnames, e.args):
                if isinstance(a, ast.Starred):
                    raise Refusal(f"starred argument in {what}")
                bound[p] = self.expr(a, env)
            for kw in e.keywords:
                if kw.arg is None or kw.arg not in pnames or kw.arg in bound:
                    raise Refusal(f"keyword argument {kw.arg} in {what}")
                bound[kw.arg] = self.expr(kw.value, env)
            if set(bound) != set(pnames):
                raise Refusal(f"missing arguments in {what}")
            subst = {}
            for p, shp in k["params"]:
                got = bound[p].shape
                if len(got) != len(shp):
                    raise Refusal(f"shape mismatch: argument {p} of {what} is {got}, expected {shp}")
                for s, g in zip(shp, got):
                    if subst.setdefault(s, g) != g:
                        raise Refusal(f"shape mismatch: argument {p} of {what} is {got}, expected {shp}")
            ret = tuple(subst.get(s, s) for s in k["ret"])
            return Node("call", [bound[p] for p in pnames], ret, name=k["lean"])
        why = getattr(self, "inline_failed", {}).get(target.rsplit(".", 1)[-1]) if target.startswith(self.module + ".") else None
        raise Refusal(f"call of {target} (not in the translated subset) in {what}" + (f" — not expanded in place: {why}" if why else ""))

    # ---------------------------------------------------------------- functions
    def function(self, fn, shapes):
        """fn: ast.FunctionDef; shapes: {param: shape tuple}.  Returns (params, lets, ret Node)"""
        a = fn.args
        if a.vararg or a.kwarg or a.kwonlyargs or a.posonlyargs or a.defaults or a.kw_defaults:
            raise Refusal("parameter list uses defaults / *args / **kwargs / keyword-only")
        if fn.decorator_list:
            raise Refusal("decorated function")
        params = [x.arg for x in a.args]
        if set(params) != set(shapes) or len(params) != len(shapes):
            raise Refusal(f"parameters {params} differ from the spec {sorted(shapes)}")
        env = {p: tuple(shapes[p]) for p in params}
        body = list(fn.body)
        if body and isinstance(body[0], ast.Expr) and isinstance(body[0].value, ast.Constant) \
                and isinstance(body[0].value.value, str):
            body = body[1:]
        lets, ret = [], None
        for st in body:
            first = ast.unparse(st).splitlines()[0]
            if ret is not None:
                raise Refusal(f"statement after return: {first}")
            if isinstance(st, ast.Assign) and len(st.targets) == 1 and isinstance(st.targets[0], ast.Name):
                nm = st.targets[0].id
                if nm in params:
                    raise Refusal(f"assignment to parameter: {first}")
                if nm in self.imports:
                    raise Refusal(f"local shadows a module-level name: {first}")
                node = self.expr(st.value, env)
                lets.append((nm, node))
                env[nm] = node.shape
                continue
            if isinstance(st, ast.Return) and st.value is not None:
                ret = self.expr(st.value, env)
                continue
            raise Refusal(f"statement {type(st).__name__}: {first}")
        if ret is None:
            raise Refusal("no return")
        return [(p, env[p]) for p in params], lets, ret


# -------------------------------------------------------------------- printers
def lean_type(shape):
    if len(shape) == 2:
        return f"Matrix (Fin {shape[0]}) (Fin {shape[1]}) ℝ"
    return f"Fin {shape[0]} → ℝ"


def lean_expr(n):
    a = [lean_expr(x) for x in n.args]
    if n.op == "var":
        return san(n.name)
    if n.op == "matmul":
        return f"({a[0]} * {a[1]})"
    if n.op == "mulvec":
        return f"(Matrix.mulVec {a[0]} {a[1]})"
    if n.op == "vecmul":
        return f"(Matrix.vecMul {a[0]} {a[1]})"
    if n.op == "add":
        return f"({a[0]} + {a[1]})"
    if n.op == "sub":
        return f"({a[0]} - {a[1]})"
    if n.op == "neg":
        return f"(-{a[0]})"
    if n.op == "transpose":
        return f"(Matrix.transpose {a[0]})"
    if n.op == "inv":
        return f"({a[0]})⁻¹"
    if n.op == "call":
        return "(" + " ".join([f"TM.{n.name}"] + a) + ")"
    raise Refusal(f"printer: {n.op}")


def lean_function(name, params, lets, ret, dims=("m", "n")):
    sig = " ".join(f"({san(p)} : {lean_type(s)})" for p, s in params)
    body = "".join(f"  let {san(nm)} : {lean_type(nd.shape)} := {lean_expr(nd)}\n" for nm, nd in lets)
    body += f"  {lean_expr(ret)}\n"
    used = [d for d in dims if any(d in s for _, s in params) or d in ret.shape]
    extra = sorted({d for _, s in params for d in s} - set(dims))
    if extra:
        raise Refusal(f"dimension symbols {extra} not declared")
    return (f"noncomputable def {san(name)} {{{' '.join(used)} : ℕ}} {sig} :\n    {lean_type(ret.shape)} :=\n{body}")


def frac_expr(n):
    a = [frac_expr(x) for x in n.args]
    if n.op == "var":
        return n.name
    if n.op == "call":
        return f"{n.name}({', '.join(a)})"
    table = {"matmul": "F.matmul", "mulvec": "F.mulvec", "vecmul": "F.vecmul", "add": "F.add", "sub": "F.sub",
             "neg": "F.neg", "transpose": "F.transpose", "inv": "F.inv"}
    if n.op not in table:
        raise Refusal(f"printer: {n.op}")
    return f"{table[n.op]}({', '.join(a)})"


def frac_function(name, params, lets, ret):
    out = f"def {name}({', '.join(p for p, _ in params)}):\n"
    for nm, nd in lets:
        out += f"    {nm} = {frac_expr(nd)}\n"
    out += f"    return {frac_expr(ret)}\n"
    return out
