"""normalize — behaviour-preserving AST pre-passes shared by py2lean (pointwise, scalar) and
py2lean_matrix (matrix algebra).

The translators understand a small canonical subset.  The passes below rewrite *spelling variants*
of that subset into the canonical spelling BEFORE translation.  Every pass is a source-to-source
transformation that preserves the value the function computes (justification per pass below and in
/verif/notes/translator.md); a form a pass does not recognise is left untouched (the translator then
refuses it) or is a `Refusal` — a pass never guesses.

  annotate_literals    remembers the source text of every float literal (the real dialect prints the exact
                       decimal the programmer wrote; nodes moved by the other passes keep their text)
  module_table         module-level name -> dotted target (imports, defs, and single-assignment aliases
                       `_invert = scipy.linalg.inv`, `from x import y as z`)
  canonical_names      numpy / typhon.constants reached through any alias are spelled `np.<f>` / `constants.<c>`;
                       a literal `np` that is NOT numpy in this module is a Refusal
  canon_numpy          np.square(x) -> x**2, np.multiply/divide/add/subtract -> operators, np.negative -> -x,
                       np.power(x, <int literal>) -> x**k, np.less/greater/... -> comparisons,
                       np.transpose(A), A.transpose() -> A.T, reductions: positional axis -> `axis=` keyword,
                       `axis=None` dropped; (matrix mode only) np.matmul / np.dot / A.dot(B) -> A @ B
  try_else             try: A / except: raise / else: B   ->   try: A / except: raise ; B
  fold_constants       `if <literal>` chooses its branch; `x = x` is dropped
  split_tuple_assign   a, b = e1, e2   ->   sequential assignments (through temporaries when needed)
  unroll_for           `for v in (e1, e2): body` (literal tuple/list, or a local bound once to one) -> body[v:=e1]; body[v:=e2]
  single_exit          early returns / guard clauses -> if/else with a result variable and ONE final return
                       (returns inside loops / try / with stay refusals)
  Inliner              calls of module-level helper functions that are not translated under their own name
                       are expanded in place (parameters bound, locals renamed apart); recursion, closures,
                       generators, global/nonlocal, decorators, **kwargs are refusals
  _ForeignHelpers      helper functions imported from ANOTHER module of the repository are first closed with
                       their own module's table (aliases resolved there; reading that module's state is a
                       refusal), then expanded like local helpers
prepare_function runs them in this order: canonical_names, canon_numpy, (foreign calls), try_else, fold_constants,
Inliner, fold_constants, unroll_for, split_tuple_assign, single_exit, collapse_ret.
"""
import ast
import copy


class Refusal(Exception):
    pass


# ------------------------------------------------------------------------------------------------
# literals

def annotate_literals(tree, src):
    """every float literal remembers its source text (used by the real dialect: exact decimal value)"""
    for nd in ast.walk(tree):
        if isinstance(nd, ast.Constant) and isinstance(nd.value, float) and not hasattr(nd, "_src_text"):
            try:
                nd._src_text = ast.get_source_segment(src, nd)
            except Exception:          # noqa: BLE001
                nd._src_text = None
    return tree


def literal_text(node):
    t = getattr(node, "_src_text", None)
    return t if t else repr(node.value)


# ------------------------------------------------------------------------------------------------
# names

def dotted_parts(e):
    """['np', 'linalg', 'inv'] for np.linalg.inv, None for anything that is not a Name/Attribute chain"""
    parts = []
    while isinstance(e, ast.Attribute):
        parts.append(e.attr)
        e = e.value
    if not isinstance(e, ast.Name):
        return None
    parts.append(e.id)
    return parts[::-1]


def _bound_names(st):
    out = []
    for nd in ast.walk(st):
        if isinstance(nd, ast.Name) and isinstance(nd.ctx, (ast.Store, ast.Del)):
            out.append(nd.id)
        elif isinstance(nd, (ast.FunctionDef, ast.AsyncFunctionDef, ast.ClassDef)):
            out.append(nd.name)
        elif isinstance(nd, (ast.Import, ast.ImportFrom)):
            for a in nd.names:
                out.append(a.asname or a.name.split(".")[0])
    return out


def module_table(tree, module_name):
    """top-level name -> dotted target it is bound to when the module has been executed:
    imports (`import numpy as np` -> numpy; `from scipy.linalg import inv as _inv` -> scipy.linalg.inv),
    defs / classes (-> '<module>.<name>'), single-name alias assignments whose right-hand side is a
    dotted name that resolves (`_invert = scipy.linalg.inv` -> scipy.linalg.inv, resolved with the bindings
    in force AT THAT LINE).  Names bound by anything else (other assignments, bindings inside module-level
    if/try/for/with, names some function declares `global`) map to None = unresolvable."""
    tab = {}

    def resolve_here(e):
        parts = dotted_parts(e)
        if parts is None or parts[0] not in tab or tab[parts[0]] is None:
            return None
        return ".".join([tab[parts[0]]] + parts[1:])

    for st in tree.body:
        if isinstance(st, ast.Import):
            for a in st.names:
                if a.asname:
                    tab[a.asname] = a.name
                else:
                    tab[a.name.split(".")[0]] = a.name.split(".")[0]
        elif isinstance(st, ast.ImportFrom):
            base = st.module or ""
            if st.level:
                parts = module_name.split(".")
                base = ".".join(parts[:len(parts) - st.level] + ([st.module] if st.module else []))
            for a in st.names:
                if a.name == "*":
                    tab["*"] = base          # star import: its names are not in the table -> unresolved when used
                    continue
                tab[a.asname or a.name] = f"{base}.{a.name}"
        elif isinstance(st, (ast.FunctionDef, ast.ClassDef, ast.AsyncFunctionDef)):
            tab[st.name] = f"{module_name}.{st.name}"
        elif isinstance(st, ast.Assign) and len(st.targets) == 1 and isinstance(st.targets[0], ast.Name) \
                and dotted_parts(st.value) is not None:
            tab[st.targets[0].id] = resolve_here(st.value)      # alias (None when the right-hand side does not resolve)
        elif isinstance(st, ast.Expr):
            pass
        else:
            for nm in _bound_names(st):
                if nm != "__all__":
                    tab[nm] = None
    # a name some function rebinds through `global` is unresolvable
    for nd in ast.walk(tree):
        if isinstance(nd, ast.Global):
            for nm in nd.names:
                tab[nm] = None
    return tab


def function_locals(fn):
    """parameters and every name the function binds (they shadow module-level names)"""
    a = fn.args
    names = {x.arg for x in a.posonlyargs + a.args + a.kwonlyargs}
    if a.vararg:
        names.add(a.vararg.arg)
    if a.kwarg:
        names.add(a.kwarg.arg)
    for st in fn.body:
        names.update(_bound_names(st))
    return names


CANON_HEADS = {"numpy": "np", "typhon.constants": "constants"}
ABS_HEAD = "__abs__"          # `__abs__.pkg.mod.name`: an absolute dotted name (only produced for helpers of other modules)


class _CanonNames(ast.NodeTransformer):
    def __init__(self, table, module_name, local_names):
        self.table, self.module, self.locals = table, module_name, local_names

    def _rewrite(self, node):
        parts = dotted_parts(node)
        if parts is None:
            return None
        head = parts[0]
        if head in self.locals:
            return None
        if head not in self.table:
            if head in CANON_HEADS.values():
                raise Refusal(f"name {head} is used but not bound at module level")
            return None
        base = self.table[head]
        if base is None:
            if head in CANON_HEADS.values():
                raise Refusal(f"module-level name {head} is rebound: cannot tell what it denotes")
            return None
        target = ".".join([base] + parts[1:])
        for full, short in CANON_HEADS.items():
            if target == full or target.startswith(full + "."):
                rest = target[len(full):].lstrip(".")
                return [short] + (rest.split(".") if rest else [])
        if head in CANON_HEADS.values():
            raise Refusal(f"name {head} denotes {base} in this module, not {[k for k, v in CANON_HEADS.items() if v == head][0]}")
        # an alias of a function defined in this module: call it by its own name
        if target.startswith(self.module + ".") and "." not in target[len(self.module) + 1:] and len(parts) == 1:
            own = target[len(self.module) + 1:]
            if self.table.get(own) == target:
                return [own]
        return None

    @staticmethod
    def _build(parts, ctx, like):
        e = ast.Name(id=parts[0], ctx=ast.Load())
        for p in parts[1:]:
            e = ast.Attribute(value=e, attr=p, ctx=ast.Load())
        e.ctx = ctx
        return ast.copy_location(e, like)

    def visit_Attribute(self, node):
        if isinstance(node.ctx, ast.Load):
            r = self._rewrite(node)
            if r is not None:
                return self._build(r, node.ctx, node)
        return self.generic_visit(node)

    def visit_Name(self, node):
        if isinstance(node.ctx, ast.Load):
            r = self._rewrite(node)
            if r is not None:
                return self._build(r, node.ctx, node)
        return node


def canonical_names(fn, table, module_name):
    """numpy / typhon.constants / functions of this module, reached through whatever alias the module binds,
    are spelled the way the translators know them (`np.<f>`, `constants.<c>`, `<function>`)."""
    loc = function_locals(fn)
    for head in CANON_HEADS.values():
        if head in loc:
            raise Refusal(f"the function binds a local named {head}: cannot tell what {head}.<x> denotes")
    return _CanonNames(table, module_name, loc).visit(fn)


# ------------------------------------------------------------------------------------------------
# numpy spellings

_BIN = {"multiply": ast.Mult, "divide": ast.Div, "true_divide": ast.Div, "add": ast.Add, "subtract": ast.Sub}
_BIN_MATRIX = {"matmul": ast.MatMult, "dot": ast.MatMult}
_CMP = {"less": ast.Lt, "less_equal": ast.LtE, "greater": ast.Gt, "greater_equal": ast.GtE,
        "equal": ast.Eq, "not_equal": ast.NotEq}
_REDUCTIONS = {"mean", "nanmean", "sum", "nansum", "median", "nanmedian", "min", "max", "nanmin", "nanmax",
               "amin", "amax", "prod", "std", "var", "nanstd", "nanvar"}


def _is_np(f, name=None):
    return isinstance(f, ast.Attribute) and isinstance(f.value, ast.Name) and f.value.id == "np" \
        and (name is None or f.attr == name)


def _int_literal(e):
    if isinstance(e, ast.UnaryOp) and isinstance(e.op, ast.USub):
        e = e.operand
    return isinstance(e, ast.Constant) and isinstance(e.value, int) and not isinstance(e.value, bool)


class _CanonNumpy(ast.NodeTransformer):
    def __init__(self, matrix):
        self.matrix = matrix

    def visit_Call(self, node):
        self.generic_visit(node)
        f, a, kw = node.func, node.args, node.keywords
        if any(isinstance(x, ast.Starred) for x in a):
            return node
        if _is_np(f):
            n = f.attr
            binops = dict(_BIN, **(_BIN_MATRIX if self.matrix else {}))
            if n in binops and len(a) == 2 and not kw:
                return ast.copy_location(ast.BinOp(left=a[0], op=binops[n](), right=a[1]), node)
            if n == "square" and len(a) == 1 and not kw:
                return ast.copy_location(ast.BinOp(left=a[0], op=ast.Pow(), right=ast.Constant(value=2)), node)
            if n == "negative" and len(a) == 1 and not kw:
                return ast.copy_location(ast.UnaryOp(op=ast.USub(), operand=a[0]), node)
            if n == "power" and len(a) == 2 and not kw and _int_literal(a[1]):
                return ast.copy_location(ast.BinOp(left=a[0], op=ast.Pow(), right=a[1]), node)
            if n in _CMP and len(a) == 2 and not kw:
                return ast.copy_location(ast.Compare(left=a[0], ops=[_CMP[n]()], comparators=[a[1]]), node)
            if n == "transpose" and len(a) == 1 and not kw:
                return ast.copy_location(ast.Attribute(value=a[0], attr="T", ctx=ast.Load()), node)
            if n in _REDUCTIONS:
                if len(a) == 2 and not any(k.arg == "axis" for k in kw):
                    node.keywords = [ast.keyword(arg="axis", value=a[1])] + list(kw)     # second positional parameter is `axis`
                    node.args = [a[0]]
                node.keywords = [k for k in node.keywords
                                 if not (k.arg == "axis" and isinstance(k.value, ast.Constant) and k.value.value is None)]
                return node
            return node
        if isinstance(f, ast.Attribute) and f.attr == "transpose" and not a and not kw and not _is_np(f):
            return ast.copy_location(ast.Attribute(value=f.value, attr="T", ctx=ast.Load()), node)
        if self.matrix and isinstance(f, ast.Attribute) and f.attr == "dot" and len(a) == 1 and not kw and not _is_np(f):
            return ast.copy_location(ast.BinOp(left=f.value, op=ast.MatMult(), right=a[0]), node)
        return node


def canon_numpy(fn, matrix=False):
    return _CanonNumpy(matrix).visit(fn)


# ------------------------------------------------------------------------------------------------
# small helpers on statement lists

def _strip_doc(body):
    if body and isinstance(body[0], ast.Expr) and isinstance(body[0].value, ast.Constant) \
            and isinstance(body[0].value.value, str):
        return body[:1], body[1:]
    return [], body


def _names(e, ctx=None):
    return [nd.id for nd in ast.walk(e) if isinstance(nd, ast.Name) and (ctx is None or isinstance(nd.ctx, ctx))]


def _stores(stmts):
    out = set()
    for st in stmts:
        for nd in ast.walk(st):
            if isinstance(nd, ast.Name) and isinstance(nd.ctx, (ast.Store, ast.Del)):
                out.add(nd.id)
    return out


def _contains(stmts, types):
    for st in stmts:
        for nd in ast.walk(st):
            if isinstance(nd, types):
                return True
    return False


def _always_exits(stmts):
    if not stmts:
        return False
    last = stmts[-1]
    if isinstance(last, (ast.Return, ast.Raise)):
        return True
    if isinstance(last, ast.If):
        return _always_exits(last.body) and _always_exits(last.orelse)
    return False


class _Subst(ast.NodeTransformer):
    """replace loads of the given names by (copies of) expressions; rename stores"""

    def __init__(self, loads, renames=None):
        self.loads, self.renames = loads, renames or {}

    def visit_Name(self, node):
        if isinstance(node.ctx, ast.Load) and node.id in self.loads:
            return ast.copy_location(copy.deepcopy(self.loads[node.id]), node)
        if node.id in self.renames:
            return ast.copy_location(ast.Name(id=self.renames[node.id], ctx=node.ctx), node)
        return node


def substitute(stmts, loads, renames=None):
    return [_Subst(loads, renames).visit(copy.deepcopy(st)) for st in stmts]


# ------------------------------------------------------------------------------------------------
# try / except / else

def try_else(stmts):
    """try: A / except …: …raise / else: B   ==   try: A / except …: …raise ; B
    (B runs exactly when A raised nothing, and exceptions of B are not handled — in both forms)."""
    out = []
    for st in stmts:
        for field in ("body", "orelse", "finalbody"):
            if isinstance(getattr(st, field, None), list) and not isinstance(st, ast.Try):
                setattr(st, field, try_else(getattr(st, field)))
        if isinstance(st, ast.Try):
            st.body = try_else(st.body)
            if st.orelse and not st.finalbody and st.handlers and all(_always_raises(h.body) for h in st.handlers):
                rest, st.orelse = try_else(st.orelse), []
                out.append(st)
                out += rest
                continue
        out.append(st)
    return out


def _always_raises(stmts):
    return bool(stmts) and isinstance(stmts[-1], ast.Raise)


# ------------------------------------------------------------------------------------------------
# constants, trivial statements

def _const_truth(e):
    if isinstance(e, ast.Constant) and (e.value is None or isinstance(e.value, (bool, int, float, str))):
        return bool(e.value)
    if isinstance(e, ast.UnaryOp) and isinstance(e.op, ast.Not):
        v = _const_truth(e.operand)
        return None if v is None else (not v)
    return None


def _negate(e):
    if isinstance(e, ast.UnaryOp) and isinstance(e.op, ast.Not):
        return e.operand
    return ast.copy_location(ast.UnaryOp(op=ast.Not(), operand=e), e)


def fold_constants(stmts):
    """`if <literal>:` chooses its branch (a literal reaches a test when a helper is expanded with a literal
    argument, e.g. `prior_first=False`); `x = x` is dropped; statements after an unconditional
    return / raise (unreachable) are dropped."""
    out = []
    for st in stmts:
        if out and _always_exits(out):
            break
        if isinstance(st, ast.If):
            v = _const_truth(st.test)
            if v is not None:
                out += fold_constants(st.body if v else st.orelse)
                continue
            st.body, st.orelse = fold_constants(st.body), fold_constants(st.orelse)
            st.body = [b for b in st.body if not isinstance(b, ast.Pass)]
            st.orelse = [b for b in st.orelse if not isinstance(b, ast.Pass)]
            if not st.body and not st.orelse:
                continue                      # (tests are pure in the translated subset)
            if not st.body:                   # if c: pass / else: B   ==   if not c: B
                st.test, st.body, st.orelse = _negate(st.test), st.orelse, []
        elif isinstance(st, (ast.For, ast.While)):
            st.body = fold_constants(st.body)
        if isinstance(st, ast.Assign) and len(st.targets) == 1 and isinstance(st.targets[0], ast.Name) \
                and isinstance(st.value, ast.Name) and st.value.id == st.targets[0].id:
            continue
        out.append(st)
    return out


class _Fresh:
    def __init__(self):
        self.n = 0

    def __call__(self):
        self.n += 1
        return self.n


def split_tuple_assign(stmts, fresh):
    """a, b = e1, e2  ->  a = e1; b = e2   (through temporaries when a later right-hand side reads an
    earlier target: Python evaluates the whole right-hand side first)"""
    out = []
    for st in stmts:
        for field in ("body", "orelse"):
            if isinstance(getattr(st, field, None), list):
                setattr(st, field, split_tuple_assign(getattr(st, field), fresh))
        if isinstance(st, ast.Assign) and len(st.targets) == 1 and isinstance(st.targets[0], (ast.Tuple, ast.List)) \
                and isinstance(st.value, (ast.Tuple, ast.List)) and len(st.targets[0].elts) == len(st.value.elts) \
                and all(isinstance(t, ast.Name) for t in st.targets[0].elts) \
                and not any(isinstance(v, ast.Starred) for v in st.value.elts):
            tg, vs = [t.id for t in st.targets[0].elts], st.value.elts
            clash = any(tg[i] in _names(vs[j]) for i in range(len(tg)) for j in range(i + 1, len(vs)))
            if clash:
                k = fresh()
                tmp = [f"{t}_t{k}" for t in tg]
                for t, v in zip(tmp, vs):
                    out.append(ast.copy_location(ast.Assign(targets=[ast.Name(id=t, ctx=ast.Store())], value=v), st))
                vs = [ast.Name(id=t, ctx=ast.Load()) for t in tmp]
            for t, v in zip(tg, vs):
                out.append(ast.copy_location(ast.Assign(targets=[ast.Name(id=t, ctx=ast.Store())], value=v), st))
            continue
        out.append(st)
    return fold_constants(out)


# ------------------------------------------------------------------------------------------------
# for loops over literal tuples

def _literal_seq(e):
    return isinstance(e, (ast.Tuple, ast.List)) and not any(isinstance(x, ast.Starred) for x in e.elts)


def _atomic(e):
    """an expression that may be copied freely: reading it has no effect and costs nothing"""
    if isinstance(e, ast.Constant):
        return True
    if isinstance(e, ast.UnaryOp) and isinstance(e.op, (ast.USub, ast.UAdd)) and isinstance(e.operand, ast.Constant):
        return True
    if isinstance(e, ast.Name):
        return True
    if isinstance(e, ast.Attribute):
        return _atomic(e.value)
    if isinstance(e, ast.Subscript) and isinstance(e.value, ast.Name) and isinstance(e.slice, ast.Constant):
        return True
    return False


def unroll_for(body, fresh, whole=None):
    """for v in (e1, …, ek): B   ->   B[v:=e1]; …; B[v:=ek]      (k fixed by the source text)
    The iterable is a tuple/list literal, or a local bound exactly once to such a literal and read only by
    `for` statements (the binding is then dropped).  Conditions: no break/continue/else; B does not assign v
    or a name an element reads; v is not read after the loop.  A non-atomic element that B reads more than
    once is bound to a temporary first."""
    whole = body if whole is None else whole
    # locals bound once to a literal sequence
    bound = {}
    counts = {}
    for st in whole:
        for nd in ast.walk(st):
            if isinstance(nd, ast.Name) and isinstance(nd.ctx, (ast.Store, ast.Del)):
                counts[nd.id] = counts.get(nd.id, 0) + 1
    for st in body:
        if isinstance(st, ast.Assign) and len(st.targets) == 1 and isinstance(st.targets[0], ast.Name) \
                and _literal_seq(st.value) and counts.get(st.targets[0].id) == 1:
            bound[st.targets[0].id] = st
    used_literal = set()
    out = []
    for idx, st in enumerate(body):
        for field in ("body", "orelse"):
            if isinstance(getattr(st, field, None), list) and not isinstance(st, ast.For):
                setattr(st, field, unroll_for(getattr(st, field), fresh, whole))
        if not isinstance(st, ast.For):
            out.append(st)
            continue
        st.body = unroll_for(st.body, fresh, whole)
        it = st.iter
        via = None
        if isinstance(it, ast.Name) and it.id in bound:
            via, it = it.id, bound[it.id].value
        if not _literal_seq(it) or st.orelse or _contains(st.body, (ast.Break, ast.Continue)):
            out.append(st)
            continue
        tgt = st.target
        if isinstance(tgt, ast.Name):
            tnames = [tgt.id]
        elif isinstance(tgt, (ast.Tuple, ast.List)) and all(isinstance(t, ast.Name) for t in tgt.elts):
            tnames = [t.id for t in tgt.elts]
            if not all(_literal_seq(x) and len(x.elts) == len(tnames) for x in it.elts):
                out.append(st)
                continue
        else:
            out.append(st)
            continue
        stored = _stores(st.body)
        read_by_elems = set(_names(it))
        rest = body[idx + 1:]
        later_reads = {n for s in rest for n in _names(s, ast.Load)}
        if stored & (set(tnames) | read_by_elems) or any(t in later_reads and t != "_" for t in tnames):
            out.append(st)
            continue
        for elem in it.elts:
            vals = [elem] if isinstance(tgt, ast.Name) else list(elem.elts)
            loads = {}
            for t, v in zip(tnames, vals):
                uses = sum(1 for s in st.body for n in _names(s, ast.Load) if n == t)
                if _atomic(v) or uses <= 1:
                    loads[t] = v
                else:
                    tmp = f"{t}_u{fresh()}"
                    out.append(ast.copy_location(ast.Assign(targets=[ast.Name(id=tmp, ctx=ast.Store())], value=copy.deepcopy(v)), st))
                    loads[t] = ast.Name(id=tmp, ctx=ast.Load())
            out += substitute(st.body, loads)
        if via:
            used_literal.add(via)
    # drop `name = (literal tuple)` when every remaining read of the name is gone
    if used_literal:
        still = {n for s in out for n in _names(s, ast.Load)}
        out = [s for s in out if not (isinstance(s, ast.Assign) and len(s.targets) == 1 and isinstance(s.targets[0], ast.Name)
                                      and s.targets[0].id in used_literal and s.targets[0].id not in still
                                      and bound.get(s.targets[0].id) is s)]
    return out


# ------------------------------------------------------------------------------------------------
# early returns

RET = "ret_"


def _returns_outside_defs(stmts):
    out = []

    def walk(sts, in_loop):
        for st in sts:
            if isinstance(st, ast.Return):
                out.append((st, in_loop))
            elif isinstance(st, ast.If):
                walk(st.body, in_loop)
                walk(st.orelse, in_loop)
            elif isinstance(st, (ast.For, ast.While, ast.With, ast.Try)):
                for field in ("body", "orelse", "finalbody"):
                    walk(getattr(st, field, []) or [], True)
                for h in getattr(st, "handlers", []) or []:
                    walk(h.body, True)
    walk(stmts, False)
    return out


def single_exit(body, suffix=""):
    """Early returns / guard clauses become if/else with a result variable and ONE return at the end:

        if c: A; return e1                 if c: A; ret_ = e1
        B; return e2              ==       else: B; ret_ = e2
                                           return ret_

    (the statements after an `if` whose branch returns are exactly the continuation of the other branch).
    Tuple results `return a, b` use one variable per component.  Returns inside loops / try / with are a
    Refusal; so is a path that falls off the end (returns None) when other paths return a value.
    Returns (new body, changed)."""
    doc, stmts = _strip_doc(body)
    rets = _returns_outside_defs(stmts)
    if any(loop for _, loop in rets):
        raise Refusal("return inside a loop / try / with block")
    if not rets:
        return body, False
    if len(rets) == 1 and stmts and stmts[-1] is rets[0][0]:
        return body, False
    procedure = all(r.value is None for r, _ in rets)
    if any(r.value is None for r, _ in rets) and not procedure:
        raise Refusal("bare `return` next to returns of a value")
    tuples = [isinstance(r.value, ast.Tuple) for r, _ in rets]
    if procedure:
        arity = 0
    elif all(tuples):
        ar = {len(r.value.elts) for r, _ in rets}
        if len(ar) != 1:
            raise Refusal("returns of tuples of different length")
        arity = ar.pop()
    elif not any(tuples):
        arity = 0
    else:
        raise Refusal("some paths return a tuple literal, others a single expression")
    names = [f"{RET}{suffix}"] if not arity else [f"{RET}{i}{suffix}" for i in range(arity)]

    def assign(r):
        if procedure:
            return []
        vals = [r.value] if not arity else list(r.value.elts)
        return [ast.copy_location(ast.Assign(targets=[ast.Name(id=n, ctx=ast.Store())], value=v), r)
                for n, v in zip(names, vals)]

    def lin(sts):
        out = []
        for i, st in enumerate(sts):
            if isinstance(st, ast.Return):
                if sts[i + 1:]:
                    raise Refusal(f"statement after return: {ast.unparse(sts[i + 1]).splitlines()[0]}")
                return out + assign(st)
            if isinstance(st, ast.Raise):
                if sts[i + 1:]:
                    raise Refusal(f"statement after raise: {ast.unparse(sts[i + 1]).splitlines()[0]}")
                return out + [st]
            if isinstance(st, ast.If) and _returns_outside_defs([st]):
                rest = sts[i + 1:]
                new = ast.copy_location(ast.If(test=st.test, body=[], orelse=[]), st)
                new.body = lin(list(st.body) + ([] if _always_exits(st.body) else copy.deepcopy(rest)))
                new.orelse = lin(list(st.orelse) + ([] if _always_exits(st.orelse) else copy.deepcopy(rest)))
                return out + [new]
            out.append(st)
        if procedure:
            return out
        raise Refusal("a path reaches the end of the function without `return` while other paths return a value")

    new = lin(stmts)
    if procedure:
        return doc + fold_constants(new), True
    if not arity:
        final = ast.Return(value=ast.Name(id=names[0], ctx=ast.Load()))
    else:
        final = ast.Return(value=ast.Tuple(elts=[ast.Name(id=n, ctx=ast.Load()) for n in names], ctx=ast.Load()))
    return doc + new + [final], True


def collapse_ret(stmts):
    """… ; ret_ = e ; return ret_   ->   … ; return e      (and the tuple form).  Applied after the static
    tests have been decided, so that a function whose early return is decided by the model prints exactly
    like its single-exit spelling."""
    if not stmts or not isinstance(stmts[-1], ast.Return) or stmts[-1].value is None:
        return stmts
    rv = stmts[-1].value
    names = [rv.id] if isinstance(rv, ast.Name) else \
        [x.id for x in rv.elts] if isinstance(rv, ast.Tuple) and all(isinstance(x, ast.Name) for x in rv.elts) else None
    if not names or not all(n.startswith(RET) for n in names) or len(stmts) < len(names) + 1:
        return stmts
    tail = stmts[-1 - len(names):-1]
    vals = []
    for n, st in zip(names, tail):
        if not (isinstance(st, ast.Assign) and len(st.targets) == 1 and isinstance(st.targets[0], ast.Name)
                and st.targets[0].id == n):
            return stmts
        vals.append(st.value)
    if any(n in _names(v) for n in names for v in vals):
        return stmts
    value = vals[0] if isinstance(rv, ast.Name) else ast.Tuple(elts=vals, ctx=ast.Load())
    return stmts[:-1 - len(names)] + [ast.copy_location(ast.Return(value=value), stmts[-1])]


# ------------------------------------------------------------------------------------------------
# helper expansion

_FORBIDDEN_IN_HELPER = (ast.FunctionDef, ast.AsyncFunctionDef, ast.ClassDef, ast.Lambda, ast.Global, ast.Nonlocal,
                        ast.Yield, ast.YieldFrom, ast.Await, ast.Import, ast.ImportFrom, ast.Delete, ast.With,
                        ast.AsyncWith, ast.AsyncFor)


class Inliner:
    """Expands calls `h(args)` of module-level functions that the translator does not know under their own
    name.  The expansion of a call is what Python does: bind the parameters to the argument values, run the
    body, use the returned value — with the helper's locals renamed apart (`<name>_h<k>`) and its body made
    single-exit first.  Only helpers made of assignments / if / for-over-literals / guards / one value are
    expanded; anything else (recursion, nested defs, lambda, global, yield, with, decorators, **kwargs,
    defaults that are not literals) is a Refusal that names the helper."""

    def __init__(self, funcs, keep=(), is_glue=None, fresh=None):
        self.funcs = funcs              # name -> ast.FunctionDef (module level, canonical names)
        self.keep = set(keep)           # translated under their own name / known to the translator
        self.is_glue = is_glue or (lambda st: False)
        self.fresh = fresh or _Fresh()
        self.inlined = []
        self.failed = {}                # helper -> why it could not be expanded (the call is then left in place:
        #                                 the translator refuses it if, and only if, the call is actually reached)

    # -- which calls
    def _target(self, call, local_names):
        f = call.func
        if isinstance(f, ast.Name) and f.id in self.funcs and f.id not in self.keep and f.id not in local_names:
            return f.id
        return None

    def _has_target(self, node, local_names):
        return any(isinstance(nd, ast.Call) and self._target(nd, local_names) for nd in ast.walk(node))

    # -- statements
    def run(self, fn):
        doc, body = _strip_doc(fn.body)
        loc = function_locals(fn)
        fn.body = doc + self.stmts(body, loc, [fn.name])
        return fn

    def stmts(self, sts, loc, stack):
        out = []
        for st in sts:
            if self.is_glue(st) or not self._has_target(st, loc):
                out.append(st)
                continue
            if isinstance(st, ast.If):
                pre, st.test = self.expr(st.test, loc, stack, hoist=True)
                st.body = self.stmts(st.body, loc, stack)
                st.orelse = self.stmts(st.orelse, loc, stack)
                out += pre + [st]
            elif isinstance(st, ast.While):
                pre, st.test = self.expr(st.test, loc, stack, hoist=False)
                st.body = self.stmts(st.body, loc, stack)
                st.orelse = self.stmts(st.orelse, loc, stack)
                out += pre + [st]
            elif isinstance(st, ast.For):
                pre, st.iter = self.expr(st.iter, loc, stack, hoist=True)
                st.body = self.stmts(st.body, loc, stack)
                st.orelse = self.stmts(st.orelse, loc, stack)
                out += pre + [st]
            elif isinstance(st, ast.Try):
                st.body = self.stmts(st.body, loc, stack)
                out.append(st)
            elif isinstance(st, ast.Expr) and isinstance(st.value, ast.Call) and self._target(st.value, loc):
                st.value.args = [self._sub(x, loc, stack, out) for x in st.value.args]
                try:
                    pre, val = self.expand(st.value, loc, stack, hoist=True, want_value=False)
                except Refusal as e:
                    self.failed[self._target(st.value, loc)] = str(e)
                    out.append(st)
                    continue
                out += pre
                if val is not None:
                    out.append(ast.copy_location(ast.Expr(value=val), st))
            elif isinstance(st, (ast.Assign, ast.AugAssign, ast.AnnAssign, ast.Return, ast.Expr)):
                if st.value is None:
                    out.append(st)
                    continue
                pre, st.value = self.expr(st.value, loc, stack, hoist=True)
                out += pre + [st]
            else:
                out.append(st)          # the translator refuses the statement (and the call inside) itself
        return out

    def _sub(self, e, loc, stack, out):
        pre, e = self.expr(e, loc, stack, hoist=True)
        out += pre
        return e

    # -- expressions: expand innermost calls first; `hoist`: may statements be placed before the statement?
    def expr(self, e, loc, stack, hoist):
        pre = []
        inl = self

        class T(ast.NodeTransformer):
            def __init__(self):
                self.cond = 0

            def visit_IfExp(self, node):
                node.test = self.visit(node.test)
                self.cond += 1
                node.body, node.orelse = self.visit(node.body), self.visit(node.orelse)
                self.cond -= 1
                return node

            def visit_BoolOp(self, node):
                node.values[0] = self.visit(node.values[0])
                self.cond += 1
                node.values[1:] = [self.visit(v) for v in node.values[1:]]
                self.cond -= 1
                return node

            def _cond(self, node):
                self.cond += 1
                self.generic_visit(node)
                self.cond -= 1
                return node
            visit_Lambda = visit_ListComp = visit_SetComp = visit_DictComp = visit_GeneratorExp = _cond

            def visit_Call(self, node):
                self.generic_visit(node)
                if inl._target(node, loc):
                    try:
                        p, val = inl.expand(node, loc, stack, hoist=hoist and not self.cond, want_value=True)
                    except Refusal as e:
                        inl.failed[inl._target(node, loc)] = str(e)
                        return node
                    pre.extend(p)
                    return val
                return node
        return pre, T().visit(e)

    # -- one call
    def expand(self, call, loc, stack, hoist, want_value):
        name = self._target(call, loc)
        what = ast.unparse(call)
        if name in stack:
            raise Refusal(f"recursive helper {name} in {what}")
        H = self.funcs[name]
        if H.decorator_list:
            raise Refusal(f"helper {name} is decorated")
        a = H.args
        if a.kwarg or a.posonlyargs:
            raise Refusal(f"helper {name} has **kwargs / positional-only parameters")
        doc, hbody = _strip_doc(copy.deepcopy(H.body))
        if _contains(hbody, _FORBIDDEN_IN_HELPER):
            raise Refusal(f"helper {name} contains a nested def / lambda / global / yield / with / import")
        k = self.fresh()
        # ---- bind parameters as Python does
        params = [x.arg for x in a.args]
        defaults = dict(zip(params[len(params) - len(a.defaults):], a.defaults))
        for x, dflt in zip(a.kwonlyargs, a.kw_defaults):
            if dflt is not None:
                defaults[x.arg] = dflt
        kwonly = [x.arg for x in a.kwonlyargs]
        bound = {}
        extra = []
        if any(isinstance(x, ast.Starred) for x in call.args) or any(kw.arg is None for kw in call.keywords):
            raise Refusal(f"helper call with * / ** arguments: {what}")
        for i, arg in enumerate(call.args):
            if i < len(params):
                bound[params[i]] = arg
            elif a.vararg:
                extra.append(arg)
            else:
                raise Refusal(f"too many arguments in {what}")
        for kw in call.keywords:
            if kw.arg in bound or kw.arg not in params + kwonly:
                raise Refusal(f"keyword argument {kw.arg} in {what}")
            bound[kw.arg] = kw.value
        for p in params + kwonly:
            if p not in bound:
                if p not in defaults:
                    raise Refusal(f"missing argument {p} in {what}")
                d = defaults[p]
                if not (isinstance(d, ast.Constant) or (isinstance(d, ast.UnaryOp) and isinstance(d.operand, ast.Constant))
                        or (dotted_parts(d) or [None])[0] in CANON_HEADS.values()):
                    raise Refusal(f"default of parameter {p} of helper {name} is not a literal / constant")
                bound[p] = copy.deepcopy(d)
        if a.vararg:
            bound[a.vararg.arg] = ast.Tuple(elts=extra, ctx=ast.Load())
        hlocals = function_locals(H)
        all_params = set(bound)
        stored = _stores(hbody)
        free = {n for st in hbody for n in _names(st, ast.Load)} - hlocals
        clash = free & loc
        if clash:
            raise Refusal(f"helper {name} reads module-level name(s) {sorted(clash)} that the caller shadows")
        pre, loads, renames = [], {}, {}
        for p, arg in bound.items():
            direct = p not in stored and (_atomic(arg) or (a.vararg and p == a.vararg.arg))
            uses = sum(1 for st in hbody for n in _names(st, ast.Load) if n == p)
            if not direct and p not in stored and uses <= 1 and not _contains([ast.Expr(value=arg)], (ast.Call,)):
                direct = True               # a pure operator expression read once: substitute it
            if direct:
                loads[p] = arg
            else:
                tmp = f"{p}_h{k}"
                pre.append(ast.copy_location(ast.Assign(targets=[ast.Name(id=tmp, ctx=ast.Store())], value=arg), call))
                renames[p] = tmp
        for v in hlocals - all_params:
            renames[v] = f"{v}_h{k}"
        body = substitute(hbody, loads, renames)
        # ---- the helper's own spelling variants
        body = try_else(body)
        body = fold_constants(body)
        body = unroll_for(body, self.fresh)
        body = fold_constants(body)
        newloc = loc | set(renames.values())
        body = self.stmts(body, newloc, stack + [name])
        body, _ = single_exit(body, suffix=f"h{k}")
        body = fold_constants(body)
        body = collapse_ret(body)
        body = split_tuple_assign(body, self.fresh)
        value = None
        if body and isinstance(body[-1], ast.Return):
            value = body[-1].value
            body = body[:-1]
        if _contains(body, (ast.Return,)):
            raise Refusal(f"helper {name}: return in the middle of the body")
        if want_value and value is None:
            raise Refusal(f"helper {name} returns nothing but its value is used in {what}")
        pre += body
        if pre and not hoist:
            raise Refusal(f"helper {name} has statements and is called inside a conditional expression / loop test: {what}")
        loc |= set(renames.values())
        self.inlined.append(name)
        return pre, value


# ------------------------------------------------------------------------------------------------
# driver

_SAFE_BUILTINS = {"abs", "len", "float", "int", "range", "tuple", "list", "any", "all", "isinstance", "map", "min", "max",
                  "ValueError", "Exception", "RuntimeError", "TypeError", "True", "False", "None"}


class _ForeignHelpers:
    """helper functions IMPORTED from another module of the repository.  A foreign helper is brought into the
    calling module as a *closed* function: its own module's aliases are resolved with ITS module table (numpy /
    constants become the canonical `np.` / `constants.`), and every other name it reads must be a parameter, a
    local, a harmless builtin, or another function of its module that can be closed the same way.  Anything else
    (module-level constants, classes, state of the other module) is a Refusal — its globals are not ours."""

    def __init__(self, load_module, matrix, keep_targets=()):
        self.load, self.matrix = load_module, matrix
        self.keep_targets = set(keep_targets)
        self.closed = {}          # dotted target -> local (mangled) name
        self.defs = {}            # mangled name -> FunctionDef
        self.failed = {}

    def local_name(self, target, stack=()):
        if target in self.closed:
            return self.closed[target]
        if target in stack:
            raise Refusal(f"recursive helper {target}")
        modname, func = target.rsplit(".", 1)
        got = self.load(modname) if self.load else None
        if got is None:
            return None
        tree, tab = got
        defs = [st for st in tree.body if isinstance(st, ast.FunctionDef) and st.name == func]
        if not defs or tab.get(func) != target:
            return None
        h = copy.deepcopy(defs[-1])
        h = canon_numpy(canonical_names(h, tab, modname), self.matrix)
        loc = function_locals(h)
        mangled = "_" + target.replace(".", "_")

        class Absolute(ast.NodeTransformer):
            """third-party names the helper reaches through ITS imports are spelled absolutely (`__abs__.scipy.linalg.inv`):
            the matrix translator resolves that spelling without consulting the caller's imports"""

            def rewrite(self, node):
                parts = dotted_parts(node)
                if parts is None or parts[0] in loc or parts[0] in CANON_HEADS.values() or not tab.get(parts[0]):
                    return None
                full = ".".join([tab[parts[0]]] + parts[1:])
                if full.split(".")[0] in ("typhon", modname.split(".")[0]):
                    return None
                e = ast.Name(id=ABS_HEAD, ctx=ast.Load())
                for p_ in full.split("."):
                    e = ast.Attribute(value=e, attr=p_, ctx=ast.Load())
                return ast.copy_location(e, node)

            def visit_Attribute(self, node):
                return (isinstance(node.ctx, ast.Load) and self.rewrite(node)) or self.generic_visit(node)

            def visit_Name(self, node):
                return (isinstance(node.ctx, ast.Load) and self.rewrite(node)) or node
        h = Absolute().visit(h)
        for nd in ast.walk(h):
            if isinstance(nd, ast.Name) and isinstance(nd.ctx, ast.Load) and nd.id not in loc and nd.id != ABS_HEAD \
                    and nd.id not in CANON_HEADS.values() and nd.id not in _SAFE_BUILTINS:
                t2 = tab.get(nd.id)
                if t2 == f"{modname}.{nd.id}" and any(isinstance(st, ast.FunctionDef) and st.name == nd.id for st in tree.body):
                    inner = self.local_name(t2, stack + (target,))
                    if inner is None:
                        raise Refusal(f"helper {target} calls {t2}, which cannot be brought in")
                    nd.id = inner
                else:
                    raise Refusal(f"helper {target} of another module reads its module-level name {nd.id}")
        h.name = mangled
        self.closed[target] = mangled
        self.defs[mangled] = h
        return mangled


class _CallForeign(ast.NodeTransformer):
    def __init__(self, table, module_name, local_names, foreign):
        self.table, self.module, self.locals, self.foreign = table, module_name, local_names, foreign

    def visit_Call(self, node):
        self.generic_visit(node)
        parts = dotted_parts(node.func)
        if parts is None or parts[0] in self.locals or self.table.get(parts[0]) is None:
            return node
        target = ".".join([self.table[parts[0]]] + parts[1:])
        if target.startswith(self.module + ".") or "." not in target or target in self.foreign.keep_targets \
                or target.split(".")[0] in ("numpy", "scipy", "math", "builtins"):
            return node
        try:
            name = self.foreign.local_name(target)
        except Refusal as e:
            self.foreign.failed[target] = str(e)
            return node
        if name is not None:
            node.func = ast.copy_location(ast.Name(id=name, ctx=ast.Load()), node.func)
        return node


def prepare_function(fn, module_tree, module_name, keep=(), is_glue=None, matrix=False, table=None, load_module=None,
                     keep_targets=()):
    """all passes, in order, on a COPY of the module-level function `fn`.  Returns (function, [expanded helpers]).
    load_module: dotted module name -> (ast of the module, its module_table) or None — gives access to helper functions
    imported from other modules of the repository; keep_targets: dotted names the translator knows itself."""
    table = table if table is not None else module_table(module_tree, module_name)
    fn = copy.deepcopy(fn)
    funcs = {}
    for st in module_tree.body:
        if isinstance(st, ast.FunctionDef) and table.get(st.name) == f"{module_name}.{st.name}":
            funcs[st.name] = st
    canon = {}
    foreign = _ForeignHelpers(load_module, matrix, keep_targets)

    def canon_func(name):
        if name not in canon:
            if name in foreign.defs:
                canon[name] = foreign.defs[name]      # already closed and canonical
                return canon[name]
            h = copy.deepcopy(funcs[name])
            h = canonical_names(h, table, module_name)
            h = canon_numpy(h, matrix)
            if load_module:
                h = _CallForeign(table, module_name, function_locals(h), foreign).visit(h)
            canon[name] = h
        return canon[name]

    class Lazy(dict):
        def __contains__(self, key):
            return key in funcs or key in foreign.defs

        def __getitem__(self, key):
            return canon_func(key)

    fn = canonical_names(fn, table, module_name)
    fn = canon_numpy(fn, matrix)
    if load_module:
        cf = _CallForeign(table, module_name, function_locals(fn), foreign)
        fn.body = [st if (is_glue and is_glue(st)) else cf.visit(st) for st in fn.body]     # declared glue stays verbatim
    fresh = _Fresh()
    doc, body = _strip_doc(fn.body)
    body = try_else(body)
    body = fold_constants(body)
    fn.body = doc + body
    inl = Inliner(Lazy(), keep=set(keep) | {fn.name}, is_glue=is_glue, fresh=fresh)
    fn = inl.run(fn)
    doc, body = _strip_doc(fn.body)
    body = fold_constants(body)
    body = unroll_for(body, fresh)
    body = split_tuple_assign(body, fresh)
    fn.body = doc + body
    fn.body, _ = single_exit(fn.body)
    doc, body = _strip_doc(fn.body)
    fn.body = doc + collapse_ret(fold_constants(body))
    ast.fix_missing_locations(fn)
    fn._inline_failed = dict(inl.failed)
    for target, why in foreign.failed.items():
        fn._inline_failed[target.rsplit(".", 1)[-1]] = why
        fn._inline_failed[target] = why
    back = {v: k for k, v in foreign.closed.items()}
    return fn, sorted({back.get(n, n) for n in inl.inlined})
