# Spec for typhon/geodesy.py (property C07).  Keys in addition to specs/atmosphere.py:
#   table "<class>"            class whose __init__ holds a literal dict name -> tuple of numbers
#   tuple_params {p: n}        tuple-valued parameter p becomes n scalars p_0 … p_{n-1}  (ellipsoid = (a, e))
#   none_params [p]            `p=None` parameters modelled as absent; given_params [p]: modelled as supplied
#   as "<lean name>"           second reading of the same Python function under other presence assumptions
#   kwargs_empty True          **kwargs modelled as empty
#   loop_entry_obligation True a while loop whose body is the first to assign some locals is accepted; the translator
#                              emits `<f>_loop<k>_entered` (the test holds in the start state), to be PROVED by the theorems
ELL = {"ellipsoid": 2}
ERR = "errtext = 'Invalid excentricity value in ellipsoid model.'"
LOS0 = ["lat0", "lon0", "za0", "aa0"]
MODULE = ("Geodesy", "typhon/geodesy.py", [
    {"table": "ellipsoidmodels",
     "entries": ["SphericalEarth", "WGS84", "SphericalVenus", "SphericalMars", "EllipsoidMars", "SphericalJupiter"]},
    {"name": "sind"}, {"name": "cosd"}, {"name": "tand"}, {"name": "asind"},
    {"name": "ellipsoid_r_geocentric", "tuple_params": ELL},
    {"name": "ellipsoid_r_geodetic", "tuple_params": ELL},
    # the optional position/LOS hints lat0 … aa0 are absent (plain coordinate conversion)
    {"name": "cart2geocentric", "none_params": LOS0},
    {"name": "geocentric2cart"},
    # `ellipsoid=None` -> WGS84 default is glue (checked by the harness); the model always receives (a, e)
    {"name": "geodetic2cart", "tuple_params": ELL},
    # N, h are first assigned inside the loop: the obligation cart2geodetic_loop1_entered is proved in C07.lean
    {"name": "cart2geodetic", "tuple_params": ELL, "loop_entry_obligation": True},
    {"name": "geodetic2geocentric", "tuple_params": ELL, "kwargs_empty": True},
    {"name": "geocentric2geodetic", "tuple_params": ELL},
    # r=None: central angle in degrees;  r given: arc length
    {"name": "great_circle_distance", "none_params": ["r"]},
    {"name": "great_circle_distance", "as": "great_circle_distance_r", "given_params": ["r"]},
    {"name": "tunnel_distance"},
    # position + line of sight, without the optional hints (ppc, lat0 … aa0 absent)
    # broadcasting / ravel / reshape prologue and epilogue are shape glue (pointwise identity), declared verbatim
    {"name": "geocentricposlos2cart", "glue": [
        "r, lat, lon, za, aa = _broadcast(r, lat, lon, za, aa)",
        "shape = r.shape",
        "r, lat, lon, za, aa = (array.ravel() for array in (r, lat, lon, za, aa))"]},
    {"name": "cartposlos2geocentric", "none_params": ["ppc"] + LOS0,
     "glue": ["args = [x, y, z, dx, dy, dz]",
              "args = _broadcast(*args)",
              "shape = args[0].shape",
              "args = [arg.ravel() for arg in args]",
              "x, y, z, dx, dy, dz = args[:6]"]},
])
