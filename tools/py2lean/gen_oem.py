#!/usr/bin/env python3
"""Regenerate lean/oem/GenReal/Oem.lean (Mathlib `Matrix` reading) and lean/oem/GenFrac/oem_frac.py
(exact-Fraction reading of the SAME expression trees) from the current source of
typhon/retrieval/oem/{common,error}.py.

Run on every `bin/check C17`.  Deterministic; files are rewritten only when their content changes.
A function the translator refuses is omitted from both generated files (every theorem about it
then fails to build: a broken tie, reported by the check) and listed in lean/oem/gen_report.json.
"""
import ast
import json
import os
import sys

HERE = os.path.dirname(os.path.abspath(__file__))
ROOT = os.path.dirname(os.path.dirname(HERE))
sys.path.insert(0, HERE)
import normalize  # noqa: E402
import py2lean_matrix as pm  # noqa: E402

M, N = "m", "n"      # measurement dimension, state dimension
# dependency order; shapes of the parameters in the property's notation
SPECS = [
    ("typhon.retrieval.oem.common", "typhon/retrieval/oem/common.py", "error_covariance_matrix",
     {"K": (M, N), "S_a": (N, N), "S_y": (M, M)}),
    ("typhon.retrieval.oem.common", "typhon/retrieval/oem/common.py", "retrieval_gain_matrix",
     {"K": (M, N), "S_a": (N, N), "S_y": (M, M)}),
    ("typhon.retrieval.oem.common", "typhon/retrieval/oem/common.py", "averaging_kernel_matrix",
     {"K": (M, N), "S_a": (N, N), "S_y": (M, M)}),
    ("typhon.retrieval.oem.error", "typhon/retrieval/oem/error.py", "smoothing_error",
     {"x": (N,), "x_a": (N,), "A": (N, N)}),
    ("typhon.retrieval.oem.error", "typhon/retrieval/oem/error.py", "retrieval_noise",
     {"K": (M, N), "S_a": (N, N), "S_y": (M, M), "e_y": (M,)}),
]
EXPECTED_RET = {"error_covariance_matrix": (N, N), "retrieval_gain_matrix": (N, M),
                "averaging_kernel_matrix": (N, N), "smoothing_error": (N,), "retrieval_noise": (N,)}


def write_if_changed(path, text):
    os.makedirs(os.path.dirname(path), exist_ok=True)
    if os.path.exists(path) and open(path, encoding="utf-8").read() == text:
        return False
    tmp = path + ".tmp"
    open(tmp, "w", encoding="utf-8").write(text)
    os.replace(tmp, path)
    return True


def generate(repo=None, package="oem"):
    repo = repo or os.environ.get("TYPHON_REPO", "/repo")
    lean_defs, frac_defs, report = translate(lambda rel: open(os.path.join(repo, rel), encoding="utf-8").read())
    return write_outputs(package, lean_defs, frac_defs, report)


def load_module(dotted, read):
    """(ast, module table) of another module of the repository, for helpers imported from it"""
    if dotted.split(".")[0] != "typhon":
        return None
    rel = dotted.replace(".", "/")
    for cand in (rel + ".py", rel + "/__init__.py"):
        try:
            src = read(cand)
            tree = ast.parse(src)
        except (OSError, SyntaxError, KeyError):
            continue
        normalize.annotate_literals(tree, src)
        return tree, normalize.module_table(tree, dotted)
    return None


def translate(read, SPECS=SPECS, EXPECTED_RET=EXPECTED_RET):
    """read: relative path -> module text.  Returns (lean definitions, Fraction-dialect definitions, report)."""
    report = {"refused": {}, "functions": {}, "trees": {}, "notes": {}, "auto_helpers": {}}
    known = {}
    lean_defs, frac_defs = [], []
    parsed = {}
    for modname, rel, name, shapes in SPECS:
        key = name
        try:
            if rel not in parsed:
                src = read(rel)
                tree = ast.parse(src)
                tab = pm.import_table(tree, modname)
                if any(v == "numpy" or (v or "").startswith("numpy.") for v in tab.values()) and tab.get("np", "numpy") == "numpy":
                    tab["np"] = "numpy"     # canonical spelling of numpy after normalize.canonical_names
                parsed[rel] = (tree, tab)
            tree, imports = parsed[rel]
        except (OSError, SyntaxError) as e:
            report["refused"][key] = f"cannot read/parse {rel}: {e}"
            continue
        fns = [st for st in tree.body if isinstance(st, ast.FunctionDef) and st.name == name]
        if not fns:
            report["refused"][key] = "function not found at module level"
            continue
        fn = fns[-1]          # the last definition is the one Python binds
        try:
            if imports.get(name) != f"{modname}.{name}":
                raise pm.Refusal("the module-level name is rebound after the definition")
            # spelling variants -> canonical subset (aliases, np.matmul, helper expansion, early returns, …)
            keep = {nm for mn, _, nm, _ in SPECS if mn == modname}
            fn, helpers = normalize.prepare_function(fn, tree, modname, keep=keep, matrix=True, table=imports,
                                                     load_module=lambda m_: load_module(m_, read),
                                                     keep_targets={f"{mn}.{nm}" for mn, _, nm, _ in SPECS})
            if helpers:
                report["auto_helpers"][key] = [f"{h} (expanded in place)" for h in helpers]
            b = pm.Builder(modname, imports, known)
            b.inline_failed = getattr(fn, "_inline_failed", {})
            params, lets, ret = b.function(fn, shapes)
            if ret.shape != EXPECTED_RET[name]:
                raise pm.Refusal(f"shape mismatch: returns {ret.shape}, the property expects {EXPECTED_RET[name]}")
            lean_defs.append(f"/-- {rel}::{name} -/\n" + pm.lean_function(name, params, lets, ret))
            frac_defs.append(pm.frac_function(name, params, lets, ret))
            known[f"{modname}.{name}"] = {"params": params, "ret": ret.shape, "lean": name}
            report["functions"][key] = "ok"
            report["trees"][key] = "; ".join([f"{nm} = {nd.dump()}" for nm, nd in lets] + [f"return {ret.dump()}"])
        except pm.Refusal as e:
            report["refused"][key] = str(e)
    return lean_defs, frac_defs, report


def write_outputs(package, lean_defs, frac_defs, report):
    hdr = ("import Mathlib.LinearAlgebra.Matrix.NonsingularInverse\nimport Mathlib.Data.Real.Basic\n\n"
           "/-! GENERATED by tools/py2lean/gen_oem.py from typhon/retrieval/oem/common.py and error.py — do not edit.\n"
           "Real-matrix reading of the Python functions: `@` ↦ `*` / `Matrix.mulVec`, `.T` ↦ `Matrix.transpose`,\n"
           "`scipy.linalg.inv` ↦ `Matrix.inv` (`⁻¹`, the nonsingular inverse: meaningful under `IsUnit A.det`,\n"
           "where the real code returns an inverse; for a singular argument the real code raises and this\n"
           "model returns a junk value — every theorem carries the hypotheses that exclude it).\n"
           "`m` = measurement dimension, `n` = state dimension. -/\n\nnamespace TM\n\n")
    base = os.path.join(os.environ.get("PY2LEAN_OUT_ROOT") or os.path.join(ROOT, "lean"), package)
    changed = []
    if write_if_changed(os.path.join(base, "GenReal", "Oem.lean"), hdr + "\n".join(lean_defs) + "\nend TM\n"):
        changed.append("GenReal/Oem.lean")
    fhdr = ('"""GENERATED by tools/py2lean/gen_oem.py from typhon/retrieval/oem/common.py and error.py — do not edit.\n'
            'Exact-rational reading (tools/py2lean/fracmat.py) of the same expression trees that\n'
            'lean/oem/GenReal/Oem.lean prints in Mathlib notation."""\nimport fracmat as F\n\n\n')
    if write_if_changed(os.path.join(base, "GenFrac", "oem_frac.py"), fhdr + "\n\n".join(frac_defs)):
        changed.append("GenFrac/oem_frac.py")
    report["changed"] = changed
    rep = dict(report)
    rep.pop("changed")
    write_if_changed(os.path.join(base, "gen_report.json"), json.dumps(rep, indent=1, sort_keys=True))
    return report


if __name__ == "__main__":
    r = generate()
    print("translated:", sorted(r["functions"]), "refused:", r["refused"], "changed:", r["changed"])
    for k, v in r["trees"].items():
        print(" ", k, ":", v)
