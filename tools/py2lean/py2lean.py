"""py2lean — translate straight-line numerical Python (numpy ufunc style) into Lean 4.

One Python function becomes two Lean definitions generated from the SAME ast:
  * dialect "real":  `noncomputable def TR.<name> … : ℝ`   (Mathlib; theorems are about these)
  * dialect "float": `def TF.<name> … : Float`              (core only; compiled into the driver
                                                              and cross-run against numpy)
Arrays are modelled pointwise: every parameter is a scalar, every numpy ufunc its scalar
function, a boolean-mask assignment `e[m] = v[m]` a pointwise `if`.

Accepted subset (anything else raises Refusal — never a silent skip):
  parameters: positional names; `x=None` parameters listed in spec["fun_params"] become
              function parameters (ℝ → ℝ) with the documented default substituted in `<name>_d`
  statements: `x = <expr>`; `return <expr>` / `return (<e1>, <e2>)`;
              `if <fp> is None: <fp> = <default>`  (function-parameter default);
              `if np.any(<cmp>): raise …`          (input guard -> `<name>_guard`);
              `e[m] = v[m]`                        (mask assignment, m a boolean local);
              glue recognised and skipped (listed in the output): spec["glue"] source lines
  expressions: + - * / ** (int literal), unary -, float/int literals, names,
              constants.<name>, np.<ufunc>, calls of other translated functions,
              comparisons (< <= > >=), `a if c else b`, np.where(c, a, b)
"""
import ast
import fractions
import struct


class Refusal(Exception):
    pass


UFUNCS = {
    # python name: (real, float)
    "exp": ("Real.exp", "Float.exp"), "log": ("Real.log", "Float.log"),
    "sqrt": ("Real.sqrt", "Float.sqrt"), "sin": ("Real.sin", "Float.sin"),
    "cos": ("Real.cos", "Float.cos"), "tan": ("Real.tan", "Float.tan"),
    "tanh": ("Real.tanh", "Float.tanh"), "arcsin": ("Real.arcsin", "Float.asin"),
    "arccos": ("Real.arccos", "Float.acos"), "arctan": ("Real.arctan", "Float.atan"),
    "abs": ("abs", "Float.abs"), "absolute": ("abs", "Float.abs"),
}


def float_bits(x):
    return struct.unpack("<Q", struct.pack("<d", float(x)))[0]


def real_of_float(x):
    """exact rational value of a double as a Lean ℝ term"""
    fr = fractions.Fraction(float(x))
    if fr.denominator == 1:
        return f"({fr.numerator} : ℝ)"
    return f"(({fr.numerator} : ℝ) / {fr.denominator})"


def real_of_literal(text, value):
    """a Python float literal becomes the exact decimal rational it spells"""
    try:
        fr = fractions.Fraction(text)
    except Exception:
        fr = fractions.Fraction(value)
    if fr.denominator == 1:
        return f"({fr.numerator} : ℝ)"
    return f"(({fr.numerator} : ℝ) / {fr.denominator})"


class Translator:
    def __init__(self, constants_module, known_funcs, source_text):
        self.C = constants_module
        self.known = known_funcs            # name -> spec (already translated / to be translated)
        self.src = source_text
        self.used_constants = {}
        self.notes = []

    # -------------------------------------------------------------- expressions
    def expr(self, e, d, env):
        """d = 'real' | 'float'; env: name -> kind ('num' | 'bool' | 'fun')"""
        R = d == "real"
        if isinstance(e, ast.Constant):
            if isinstance(e.value, bool):
                raise Refusal("bool literal")
            if isinstance(e.value, int):
                return f"({e.value} : ℝ)" if R else f"({e.value} : Float)" if e.value >= 0 else f"(-{-e.value} : Float)"
            if isinstance(e.value, float):
                if R:
                    seg = ast.get_source_segment(self.src, e) or repr(e.value)
                    return real_of_literal(seg, e.value)
                return f"(Float.ofBits 0x{float_bits(e.value):016X})"
            raise Refusal(f"literal {e.value!r}")
        if isinstance(e, ast.Name):
            if e.id not in env:
                raise Refusal(f"unknown name {e.id}")
            return san(e.id)
        if isinstance(e, ast.Attribute):
            if isinstance(e.value, ast.Name) and e.value.id == "constants":
                return self.const(e.attr, d)
            if isinstance(e.value, ast.Name) and e.value.id == "np" and e.attr == "pi":
                return "Real.pi" if R else "(Float.ofBits 0x400921FB54442D18)"
            if isinstance(e.value, ast.Name) and e.value.id == "np" and e.attr == "nan":
                raise Refusal("np.nan")
            raise Refusal(f"attribute {ast.unparse(e)}")
        if isinstance(e, ast.UnaryOp) and isinstance(e.op, ast.USub):
            return f"(-{self.expr(e.operand, d, env)})"
        if isinstance(e, ast.UnaryOp) and isinstance(e.op, ast.UAdd):
            return self.expr(e.operand, d, env)
        if isinstance(e, ast.BinOp):
            if isinstance(e.op, ast.Pow):
                return self.power(e, d, env)
            ops = {ast.Add: "+", ast.Sub: "-", ast.Mult: "*", ast.Div: "/"}
            if type(e.op) not in ops:
                raise Refusal(f"operator {type(e.op).__name__}")
            return f"({self.expr(e.left, d, env)} {ops[type(e.op)]} {self.expr(e.right, d, env)})"
        if isinstance(e, ast.IfExp):
            return f"(if {self.cond(e.test, d, env)} then {self.expr(e.body, d, env)} else {self.expr(e.orelse, d, env)})"
        if isinstance(e, ast.Call):
            return self.call(e, d, env)
        if isinstance(e, ast.Subscript) and ast.unparse(e.slice) in ("(slice(None, None, -1), ...)", "slice(None, None, -1)",
                                                                     "::-1", "(::-1, ...)", "::-1, ...") \
                and isinstance(e.value, ast.Name):
            self.notes.append(f"axis reversal {ast.unparse(e)}: pointwise identity (order handled as list reversal)")
            return self.expr(e.value, d, env)
        raise Refusal(f"expression {type(e).__name__}: {ast.unparse(e)}")

    def power(self, e, d, env):
        base = self.expr(e.left, d, env)
        n = e.right
        neg = False
        if isinstance(n, ast.UnaryOp) and isinstance(n.op, ast.USub):
            n, neg = n.operand, True
        if not (isinstance(n, ast.Constant) and isinstance(n.value, int) and not isinstance(n.value, bool)):
            raise Refusal(f"exponent {ast.unparse(e.right)} is not an integer literal")
        k = n.value
        if d == "real":
            t = f"({base} ^ {k})"
        else:
            # numpy evaluates x**2 as x*x; for larger integer exponents it calls pow().
            if k == 0:
                t = "(1 : Float)"
            elif k == 1:
                t = base
            elif k == 2:
                t = f"({base} * {base})"
            else:
                t = f"(Float.pow {base} ({k} : Float))"
        if neg:
            one = "(1 : ℝ)" if d == "real" else "(1 : Float)"
            t = f"({one} / {t})"
        return t

    def call(self, e, d, env):
        R = d == "real"
        f = e.func
        if e.keywords:
            raise Refusal(f"keyword arguments in {ast.unparse(e)}")
        args = e.args
        if isinstance(f, ast.Attribute) and isinstance(f.value, ast.Name) and f.value.id == "np":
            n = f.attr
            if n in UFUNCS and len(args) == 1:
                return f"({UFUNCS[n][0 if R else 1]} {self.expr(args[0], d, env)})"
            if n == "divide" and len(args) == 2:
                return f"({self.expr(args[0], d, env)} / {self.expr(args[1], d, env)})"
            if n == "multiply" and len(args) == 2:
                return f"({self.expr(args[0], d, env)} * {self.expr(args[1], d, env)})"
            if n in ("deg2rad", "radians") and len(args) == 1:
                k = "(Real.pi / 180)" if R else "(Float.ofBits 0x3F91DF46A2529D39)"  # pi/180
                return f"({self.expr(args[0], d, env)} * {k})"
            if n in ("rad2deg", "degrees") and len(args) == 1:
                k = "(180 / Real.pi)" if R else "(Float.ofBits 0x404CA5DC1A63C1F8)"  # 180/pi
                return f"({self.expr(args[0], d, env)} * {k})"
            if n == "where" and len(args) == 3:
                return f"(if {self.cond(args[0], d, env)} then {self.expr(args[1], d, env)} else {self.expr(args[2], d, env)})"
            if n == "hypot" and len(args) == 2:
                a, b = (self.expr(x, d, env) for x in args)
                return f"({'Real.sqrt' if R else 'Float.sqrt'} ({a} * {a} + {b} * {b}))"
            if n == "arctan2" and len(args) == 2:
                y, x = (self.expr(a, d, env) for a in args)
                return f"(Complex.arg ⟨{x}, {y}⟩)" if R else f"(Float.atan2 {y} {x})"
            if n in ("real",) and len(args) == 1:
                return self.expr(args[0], d, env)
            if n == "imag" and len(args) == 1:
                self.expr(args[0], d, env)           # must be translatable
                return "(0 : ℝ)" if R else "(0 : Float)"   # real-valued model
            raise Refusal(f"numpy function np.{n}/{len(args)}")
        if isinstance(f, ast.Attribute) and f.attr in ("ravel", "flatten") and not args:
            return self.expr(f.value, d, env)          # shape glue: pointwise identity
        if isinstance(f, ast.Attribute) and f.attr == "reshape" \
                and not (isinstance(f.value, ast.Name) and f.value.id == "np"):
            return self.expr(f.value, d, env)          # shape glue: pointwise identity
        if isinstance(f, ast.Name):
            if f.id in env and env[f.id] == "fun":
                if len(args) != 1:
                    raise Refusal("function parameter with arity != 1")
                return f"({san(f.id)} {self.expr(args[0], d, env)})"
            if f.id in self.known:
                spec = self.known[f.id]
                nargs = spec["nparams"]
                if len(args) != nargs:
                    raise Refusal(f"call {ast.unparse(e)}: expected {nargs} positional arguments")
                ns = "TR" if R else "TF"
                suffix = "_d" if spec.get("fun_params") else ""
                return "(" + f"{ns}.{san(f.id)}{suffix} " + " ".join(self.expr(a, d, env) for a in args) + ")"
            if f.id == "float" and len(args) == 1:
                return self.expr(args[0], d, env)
            raise Refusal(f"call of unknown function {f.id}")
        raise Refusal(f"call {ast.unparse(e)}")

    def cond(self, e, d, env):
        """boolean expression: Prop (real, classical if) or Bool (float)"""
        R = d == "real"
        if isinstance(e, ast.Compare) and len(e.ops) == 1:
            ops = {ast.Lt: "<", ast.LtE: "≤", ast.Gt: ">", ast.GtE: "≥"}
            if type(e.ops[0]) not in ops:
                raise Refusal(f"comparison {ast.unparse(e)}")
            a, b = self.expr(e.left, d, env), self.expr(e.comparators[0], d, env)
            op = ops[type(e.ops[0])]
            if R:
                return f"({a} {op} {b})"
            fop = {"<": "<", "≤": "<=", ">": ">", "≥": ">="}[op]
            return f"(decide ({a} {fop} {b}))"
        if isinstance(e, ast.Name) and env.get(e.id) == "bool":
            return san(e.id)
        if isinstance(e, ast.BoolOp):
            j = (" ∧ " if isinstance(e.op, ast.And) else " ∨ ") if R else (" && " if isinstance(e.op, ast.And) else " || ")
            return "(" + j.join(self.cond(v, d, env) for v in e.values) + ")"
        if isinstance(e, ast.UnaryOp) and isinstance(e.op, ast.Not):
            return f"(¬ {self.cond(e.operand, d, env)})" if R else f"(!{self.cond(e.operand, d, env)})"
        if isinstance(e, ast.Call) and isinstance(e.func, ast.Attribute) and isinstance(e.func.value, ast.Name) \
                and e.func.value.id == "np" and e.func.attr in ("any", "all") and len(e.args) == 1:
            return self.cond(e.args[0], d, env)       # pointwise
        raise Refusal(f"condition {ast.unparse(e)}")

    def static(self, e):
        """True/False when the test is decided by the real-valued model alone, else None"""
        if isinstance(e, ast.Call) and isinstance(e.func, ast.Attribute) and isinstance(e.func.value, ast.Name) \
                and e.func.value.id == "np":
            if e.func.attr == "isreal" and len(e.args) == 1:
                return True
            if e.func.attr in ("all", "any") and len(e.args) == 1:
                return self.static(e.args[0])
        if isinstance(e, ast.BoolOp):
            vals = [self.static(v) for v in e.values]
            if isinstance(e.op, ast.And):
                if any(v is False for v in vals):
                    return False
                return True if all(v is True for v in vals) else None
            if any(v is True for v in vals):
                return True
            return False if all(v is False for v in vals) else None
        if isinstance(e, ast.UnaryOp) and isinstance(e.op, ast.Not):
            v = self.static(e.operand)
            return None if v is None else (not v)
        return None

    def const(self, name, d):
        if not hasattr(self.C, name):
            raise Refusal(f"constants.{name} does not exist")
        v = getattr(self.C, name)
        if not isinstance(v, (int, float)):
            raise Refusal(f"constants.{name} is not a number")
        self.used_constants[name] = float(v)
        return f"C.{san(name)}" if d == "real" else f"CF.{san(name)}"

    # -------------------------------------------------------------- functions
    def function(self, fn, spec, d):
        """returns (lean text, notes)"""
        R = d == "real"
        ty = "ℝ" if R else "Float"
        ns = "TR" if R else "TF"
        fun_params = spec.get("fun_params", {})
        params = [a.arg for a in fn.args.args]
        defaults = fn.args.defaults
        ndef = len(defaults)
        default_of = {}
        for a, dflt in zip(params[len(params) - ndef:], defaults):
            default_of[a] = dflt
        env = {}
        sig = []
        for p in params:
            if p in fun_params:
                env[p] = "fun"
                sig.append(f"({san(p)} : {ty} → {ty})")
            else:
                env[p] = "num"
                sig.append(f"({san(p)} : {ty})")
        lets, guards, notes = [], [], []
        body = list(fn.body)
        if body and isinstance(body[0], ast.Expr) and isinstance(body[0].value, ast.Constant):
            body = body[1:]
        glue = set(spec.get("glue", ()))
        ret = None
        rettuple = 0

        def flatten(stmts):
            out = []
            for st in stmts:
                if isinstance(st, ast.If):
                    sv = self.static(st.test)
                    if sv is True:
                        notes.append(f"branch taken (real-valued model): {ast.unparse(st.test)}")
                        out += flatten(st.body)
                        continue
                    if sv is False:
                        notes.append(f"branch not taken (real-valued model): {ast.unparse(st.test)}")
                        out += flatten(st.orelse)
                        continue
                out.append(st)
            return out
        body = flatten(body)
        for st in body:
            text = ast.unparse(st)
            first = text.splitlines()[0]
            if first in glue:
                notes.append(f"glue skipped: {first}")
                continue
            if ret is not None:
                raise Refusal(f"statement after return: {first}")
            # if fp is None: fp = default
            if (isinstance(st, ast.If) and isinstance(st.test, ast.Compare) and isinstance(st.test.left, ast.Name)
                    and st.test.left.id in fun_params and isinstance(st.test.ops[0], ast.Is)):
                if not (len(st.body) == 1 and isinstance(st.body[0], ast.Assign) and isinstance(st.body[0].value, ast.Name)
                        and st.body[0].value.id == fun_params[st.test.left.id] and not st.orelse):
                    raise Refusal(f"default of function parameter changed: {first}")
                notes.append(f"default {st.test.left.id} := {fun_params[st.test.left.id]}")
                continue
            # guard: if np.any(cmp): raise
            if isinstance(st, ast.If) and len(st.body) == 1 and isinstance(st.body[0], ast.Raise) and not st.orelse:
                guards.append(self.cond(st.test, d, env))
                continue
            if isinstance(st, ast.Assign) and len(st.targets) == 1:
                tgt = st.targets[0]
                if isinstance(tgt, ast.Name):
                    v = st.value
                    if isinstance(v, (ast.Compare, ast.BoolOp)):
                        c = self.cond(v, d, env)
                        env[tgt.id] = "bool"
                        lets.append(f"let {san(tgt.id)} : {'Prop' if R else 'Bool'} := {c}")
                    else:
                        lets.append(f"let {san(tgt.id)} : {ty} := {self.expr(v, d, env)}")
                        env[tgt.id] = "num"
                    continue
                # mask assignment  e[m] = v[m]
                if (isinstance(tgt, ast.Subscript) and isinstance(tgt.value, ast.Name) and isinstance(tgt.slice, ast.Name)
                        and env.get(tgt.slice.id) == "bool" and isinstance(st.value, ast.Subscript)
                        and isinstance(st.value.slice, ast.Name) and st.value.slice.id == tgt.slice.id
                        and isinstance(st.value.value, ast.Name)):
                    e_, m_, v_ = tgt.value.id, tgt.slice.id, st.value.value.id
                    if env.get(e_) != "num" or env.get(v_) != "num":
                        raise Refusal(f"mask assignment on unknown arrays: {first}")
                    lets.append(f"let {san(e_)} : {ty} := if {san(m_)} then {san(v_)} else {san(e_)}")
                    continue
                raise Refusal(f"assignment target: {first}")
            if isinstance(st, ast.Return) and st.value is not None:
                v = st.value
                # reduction over the sample axis: emitted as the pointwise term; the mean over a
                # list is defined once by hand (Proofs/Lemmas) and applied to this term
                if (isinstance(v, ast.Call) and isinstance(v.func, ast.Attribute) and isinstance(v.func.value, ast.Name)
                        and v.func.value.id == "np" and v.func.attr in ("mean", "nanmean") and len(v.args) == 1
                        and not v.keywords and spec.get("reduction") == v.func.attr):
                    notes.append(f"reduction np.{v.func.attr} over the samples: pointwise term emitted")
                    v = v.args[0]
                if isinstance(v, ast.Tuple):
                    rettuple = len(v.elts)
                    ret = "(" + ", ".join(self.expr(x, d, env) for x in v.elts) + ")"
                else:
                    ret = self.expr(v, d, env)
                continue
            raise Refusal(f"statement {type(st).__name__}: {first}")
        if ret is None:
            raise Refusal("no return")
        rty = ty if not rettuple else " × ".join([ty] * rettuple)
        name = san(fn.name)
        out = []
        pre = "noncomputable def" if R else "def"
        bodytxt = "".join(f"  {l}\n" for l in lets) + f"  {ret}\n"
        out.append(f"{pre} {name} {' '.join(sig)} : {rty} :=\n{bodytxt}")
        if fun_params:
            # instance with the documented defaults substituted
            sig_d = [s for p, s in zip(params, sig) if p not in fun_params]
            call = " ".join((f"{ns}.{san(fun_params[p])}" if p in fun_params else san(p)) for p in params)
            out.append(f"{pre} {name}_d {' '.join(sig_d)} : {rty} :=\n  {name} {call}\n")
        if guards:
            gsig = [s for p, s in zip(params, sig) if env[p] == "num"]
            if R:
                out.append(f"/-- the inputs the Python function rejects (raises) -/\ndef {name}_rejects {' '.join(gsig)} : Prop :=\n  " + " ∨ ".join(guards) + "\n")
            else:
                out.append(f"def {name}_rejects {' '.join(gsig)} : Bool :=\n  " + " || ".join(guards) + "\n")
        return "\n".join(out), notes + self.notes


LEAN_KEYWORDS = {"at", "from", "in", "fun", "end", "then", "else", "if", "do", "let", "have", "show", "with", "open", "λ", "Type", "by"}


def san(name):
    name = name.replace("__", "_")
    if name in LEAN_KEYWORDS:
        return name + "_"
    return name
