"""py2lean — translate straight-line numerical Python (numpy ufunc style) into Lean 4.

One Python function becomes two Lean definitions generated from the SAME ast:
  * dialect "real":  `noncomputable def TR.<name> … : ℝ`   (Mathlib; theorems are about these)
  * dialect "float": `def TF.<name> … : Float`              (core only; compiled into the driver
                                                              and cross-run against numpy)
Arrays are modelled pointwise: every parameter is a scalar, every numpy ufunc its scalar
function, a boolean-mask assignment `e[m] = v[m]` a pointwise `if`.

Accepted subset (anything else raises Refusal — never a silent skip):
  parameters: positional names; `x=None` parameters listed in spec["fun_params"] become
              function parameters (ℝ → ℝ) with the documented default substituted in `<name>_d`
  statements: `x = <expr>`; `return <expr>` / `return (<e1>, <e2>)`;
              `if <fp> is None: <fp> = <default>`  (function-parameter default);
              `if np.any(<cmp>): raise …`          (input guard -> `<name>_guard`);
              `e[m] = v[m]`                        (mask assignment, m a boolean local);
              glue recognised and skipped (listed in the output): spec["glue"] source lines
  expressions: + - * / ** (int literal), unary -, float/int literals, names,
              constants.<name>, np.<ufunc>, calls of other translated functions,
              comparisons (< <= > >=), `a if c else b`, np.where(c, a, b)

Extensions (additive; used by specs_geodesy, none changes the output of older specs):
  parameters: spec["tuple_params"] {name: n}: a tuple-valued parameter becomes n scalars `<name>_<i>`
              (`name[i]` with literal i); spec["none_params"] [names]: `x=None` parameters modelled as
              absent (`x is None` decided statically); spec["given_params"] [names]: `x=None` parameters
              modelled as supplied; spec["kwargs_empty"]: `**kwargs` modelled as empty
  statements: `if c: … else: …` with assignments (merged into `let v := if c then … else …`);
              `while c: body` (-> `whileLoop c body init` over the tuple of the variables the body
              assigns; ℝ: first exit state by classical choice, Float: fuel-bounded);
              `x op= e`; `a, b, c = f(…)` for translated tuple functions; `a, b = map(np.f, [a, b])`;
              `e[m] = <expr with v[m]>`, `e[m] op= …` (general mask assignment), `if any(m): <masked body>`;
              `inrange(x, lo, hi, exclude=…)` (-> `<name>_rejects`); tuple locals, `f(*t)`, np.column_stack
  expressions: == !=, np.ones/zeros/empty (shape glue), np.clip, np.sign, np.sum(<tuple expr>, axis=1),
              np.logical_and/or/not, ~m, np.isnan, abs(), any()/all(), `.copy()`, `.astype(float)` (identity: the model has one real / binary64 type)

Spelling variants (see tools/py2lean/normalize.py and /verif/notes/translator.md; the justification of every rule is there):
  before translation the function is normalised (gen_all.py calls normalize.prepare_function): numpy / constants /
  own functions reached through aliases -> canonical names; np.square, np.multiply, np.divide, np.add, np.subtract,
  np.negative, np.power(x, <int literal>), np.less/greater/…/equal -> operators; reductions' positional axis -> `axis=`,
  `axis=None` dropped; early returns / guard clauses -> if/else with a result variable `ret_` (returns inside loops stay
  refusals); `for v in (<literal tuple>)` unrolled; calls of module-level helper functions that the spec does not name
  are expanded in place (locals renamed `<name>_h<k>`; recursion, closures, side effects refused), listed in
  gen_report.json under "auto_helpers".
  inferred by the translator itself:
  shape-typed locals  a local built only from .shape/.ndim/.size/len()/np.shape()/ints/tuples/+ - * // of such (also by
                      a loop of .append) is skipped; it may only feed reshape / np.ones / np.zeros / other shape
                      expressions — used as a number it is a Refusal, and a number used as a reshape argument is too
  static flags        `flag = np.all(np.isreal(x))` / `flag = a is None and …` assigned once: decided like the inlined test
  scalar/array glue   tests `isinstance(p, Number)`, `np.ndim(p) == 0`, `np.isscalar(p)` on an argument are accepted only
                      when the scalar branch is the array branch on the 1-element array (`p = np.asarray([p])`,
                      `return f(np.asarray([p]))[0]`, or the same code on the wrapped argument) and `v[0] if … else v`
  try/except          `try: <reshape glue> except …: raise …` — the body; handlers that do not raise are refused
  parameter aliases   `x = <tuple parameter>`, `x = <function parameter>`; the default of a function parameter may be
                      substituted by an (expanded) helper, both paths are checked against spec["fun_params"]
  np.array / np.asarray / np.atleast_1d of one value and np.asarray([x]) (1-element wrap): pointwise identity

Complex variant (additive; spec keys "variant" + "complex_params", used by specs/em.py):
  a second translation `<name>_<variant>` of the same function in which the listed parameters are
  complex numbers.  A complex parameter p becomes the two real parameters `pre pim`; every
  expression gets a kind (real | complex) by inference over the AST:
    np.real(p) -> pre, np.imag(p) -> pim (np.real/np.imag of another complex term t -> t.re / t.im);
    + - * / and unary minus with at least one complex operand are complex operations, a real operand
    is promoted (re, 0) first - exactly what Python / numpy do with mixed operands;
    real dialect: Mathlib's ℂ (`(⟨pre, pim⟩ : ℂ)`, coercion `((x : ℝ) : ℂ)`);
    float dialect: the core-only structure TF.Cplx of PRELUDE["complex_float"] (textbook product,
    Smith's division as CPython's `_Py_c_quot`);
    np.isreal(x) is decided statically by the kind of x (complex parameter: False, i.e. the variant
    models a genuinely complex argument, Im p ≠ 0 — recorded as a note);
    a call f(…) with a complex argument resolves to the translated variant of f with the same complex
    positions.
  Everything else applied to a complex term (powers, ufuncs, comparisons, masks, if-expressions,
  tuple assignment, nested blocks) is a Refusal.
"""
import ast
import fractions
import os
import struct
import sys

sys.path.insert(0, os.path.dirname(os.path.abspath(__file__)))
import normalize  # noqa: E402

Refusal = normalize.Refusal        # one exception type for the pre-passes and the translator


UFUNCS = {
    # python name: (real, float)
    "exp": ("Real.exp", "Float.exp"), "log": ("Real.log", "Float.log"),
    "sqrt": ("Real.sqrt", "Float.sqrt"), "sin": ("Real.sin", "Float.sin"),
    "cos": ("Real.cos", "Float.cos"), "tan": ("Real.tan", "Float.tan"),
    "tanh": ("Real.tanh", "Float.tanh"), "arcsin": ("Real.arcsin", "Float.asin"),
    "arccos": ("Real.arccos", "Float.acos"), "arctan": ("Real.arctan", "Float.atan"),
    "abs": ("abs", "Float.abs"), "absolute": ("abs", "Float.abs"),
}


def float_bits(x):
    return struct.unpack("<Q", struct.pack("<d", float(x)))[0]


def real_of_float(x):
    """exact rational value of a double as a Lean ℝ term"""
    fr = fractions.Fraction(float(x))
    if fr.denominator == 1:
        return f"({fr.numerator} : ℝ)"
    return f"(({fr.numerator} : ℝ) / {fr.denominator})"


def real_of_literal(text, value):
    """a Python float literal becomes the exact decimal rational it spells"""
    try:
        fr = fractions.Fraction(text)
    except Exception:
        fr = fractions.Fraction(value)
    if fr.denominator == 1:
        return f"({fr.numerator} : ℝ)"
    return f"(({fr.numerator} : ℝ) / {fr.denominator})"


class Translator:
    def __init__(self, constants_module, known_funcs, source_text):
        self.C = constants_module
        self.known = known_funcs            # name -> spec (already translated / to be translated)
        self.src = source_text
        self.used_constants = {}
        self.notes = []
        self.uses_while = False
        self.cmode = False                  # complex variant: some parameters are complex numbers
        self.cparams = ()
        self.ckinds = {}                    # name -> 'c' | 'r' (filled in source order while flattening)
        self.uses_complex = False

    # -------------------------------------------------------------- expressions
    def expr(self, e, d, env):
        """d = 'real' | 'float'; env: name -> kind ('num' | 'bool' | 'fun')"""
        R = d == "real"
        if self.cmode and self.is_c(e):
            return self.cexpr(e, d, env)
        if isinstance(e, ast.Constant):
            if isinstance(e.value, bool):
                raise Refusal("bool literal")
            if isinstance(e.value, int):
                return f"({e.value} : ℝ)" if R else f"({e.value} : Float)" if e.value >= 0 else f"(-{-e.value} : Float)"
            if isinstance(e.value, float):
                if R:
                    # the source text of the literal travels with the node (normalize.annotate_literals), so that
                    # nodes moved by the pre-passes (expanded helpers) keep their exact decimal value
                    return real_of_literal(normalize.literal_text(e), e.value)
                return f"(Float.ofBits 0x{float_bits(e.value):016X})"
            raise Refusal(f"literal {e.value!r}")
        if isinstance(e, ast.Name):
            if e.id not in env:
                raise Refusal(f"unknown name {e.id}")
            k = env[e.id]
            if k == "shape":
                raise Refusal(f"shape-typed local {e.id} is used as a value (it may only feed reshape / np.ones / np.zeros / other shape expressions)")
            if k in ("none", "kwargs", "bool") or (isinstance(k, str) and k.startswith("tparam:")):
                raise Refusal(f"name {e.id} (kind {k}) used as a number")
            return san(e.id)
        if isinstance(e, ast.Attribute):
            if isinstance(e.value, ast.Name) and e.value.id == "constants":
                return self.const(e.attr, d)
            if isinstance(e.value, ast.Name) and e.value.id == "np" and e.attr == "pi":
                return "Real.pi" if R else "(Float.ofBits 0x400921FB54442D18)"
            if isinstance(e.value, ast.Name) and e.value.id == "np" and e.attr == "nan":
                raise Refusal("np.nan")
            raise Refusal(f"attribute {ast.unparse(e)}")
        if isinstance(e, ast.UnaryOp) and isinstance(e.op, ast.USub):
            return f"(-{self.expr(e.operand, d, env)})"
        if isinstance(e, ast.UnaryOp) and isinstance(e.op, ast.UAdd):
            return self.expr(e.operand, d, env)
        if isinstance(e, ast.BinOp):
            if isinstance(e.op, ast.Pow):
                return self.power(e, d, env)
            ops = {ast.Add: "+", ast.Sub: "-", ast.Mult: "*", ast.Div: "/"}
            if type(e.op) not in ops:
                raise Refusal(f"operator {type(e.op).__name__}")
            return f"({self.expr(e.left, d, env)} {ops[type(e.op)]} {self.expr(e.right, d, env)})"
        if isinstance(e, ast.IfExp) and self.scalar_test(e.test) is not None:
            # `v[0] if <argument is a scalar> else v`: the scalar path wrapped the argument into a 1-element array
            # (checked where the wrap happens) and takes the only element back out — the pointwise value itself
            if not (isinstance(e.body, ast.Subscript) and isinstance(e.body.slice, ast.Constant) and e.body.slice.value == 0
                    and ast.unparse(e.body.value) == ast.unparse(e.orelse)):
                raise Refusal(f"test on the scalar-ness of an argument that is not the unwrap `v[0] if … else v`: {ast.unparse(e)}")
            self.notes.append(f"scalar/array glue: {ast.unparse(e)} is the pointwise value")
            return self.expr(e.orelse, d, env)
        if isinstance(e, ast.IfExp):
            return f"(if {self.cond(e.test, d, env)} then {self.expr(e.body, d, env)} else {self.expr(e.orelse, d, env)})"
        if isinstance(e, ast.Call):
            return self.call(e, d, env)
        if isinstance(e, ast.Subscript) and ast.unparse(e.slice) in ("(slice(None, None, -1), ...)", "slice(None, None, -1)",
                                                                     "::-1", "(::-1, ...)", "::-1, ...") \
                and isinstance(e.value, ast.Name):
            self.notes.append(f"axis reversal {ast.unparse(e)}: pointwise identity (order handled as list reversal)")
            return self.expr(e.value, d, env)
        if isinstance(e, ast.Subscript) and isinstance(e.value, ast.Name):
            k = env.get(e.value.id, "")
            if isinstance(k, str) and k.startswith("tparam:") and isinstance(e.slice, ast.Constant) \
                    and isinstance(e.slice.value, int) and 0 <= e.slice.value < int(k[7:]):
                return f"{san(self.tname(e.value.id))}_{e.slice.value}"
            if k == "num" and isinstance(e.slice, ast.Name) and env.get(e.slice.id) == "bool":
                # v[m] for a boolean mask m: pointwise the element itself (meaningful where m holds)
                return san(e.value.id)
        raise Refusal(f"expression {type(e).__name__}: {ast.unparse(e)}")

    # ---------------------------------------------------------- complex variant (additive)
    REAL_OF_COMPLEX = ("real", "imag")

    def is_c(self, e):
        """kind inference: True when the expression is complex-valued in the complex variant"""
        if not self.cmode:
            return False
        if isinstance(e, ast.Constant):
            return isinstance(e.value, complex)
        if isinstance(e, ast.Name):
            return self.ckinds.get(e.id) == "c"
        if isinstance(e, ast.BinOp):
            return self.is_c(e.left) or self.is_c(e.right)
        if isinstance(e, ast.UnaryOp):
            return self.is_c(e.operand)
        if isinstance(e, ast.IfExp):
            return self.is_c(e.body) or self.is_c(e.orelse)
        if isinstance(e, (ast.Tuple, ast.List)):
            return any(self.is_c(x) for x in e.elts)
        if isinstance(e, ast.Subscript):
            return self.is_c(e.value)
        if isinstance(e, ast.Attribute):
            return self.is_c(e.value)
        if isinstance(e, ast.Call):
            f = e.func
            args = list(e.args) + [k.value for k in e.keywords]
            anyc = any(self.is_c(a) for a in args)
            if isinstance(f, ast.Attribute) and isinstance(f.value, ast.Name) and f.value.id == "np" \
                    and f.attr in self.REAL_OF_COMPLEX:
                return False
            if isinstance(f, ast.Name) and anyc:
                v = self.find_variant(e)
                return v["cret"] == "c"
            if isinstance(f, ast.Attribute) and self.is_c(f.value):
                return True
            return anyc          # unknown function of a complex argument: treated as complex (then refused)
        return False

    def find_variant(self, e):
        """the translated variant of the called function whose complex positions are those of the call"""
        f = e.func
        if e.keywords or any(isinstance(a, ast.Starred) for a in e.args):
            raise Refusal(f"call with complex argument: {ast.unparse(e)}")
        pos = tuple(i for i, a in enumerate(e.args) if self.is_c(a))
        cands = [v for k, v in self.known.items() if k.startswith(f.id + "@") and tuple(v["cpos"]) == pos
                 and v["npyparams"] == len(e.args)]
        if len(cands) != 1:
            raise Refusal(f"call {ast.unparse(e)}: no translated variant of {f.id} with complex argument position(s) {list(pos)}")
        return cands[0]

    def cexpr(self, e, d, env):
        """Lean term of a complex-valued expression (ℂ in the real dialect, TF.Cplx in the float dialect)"""
        R = d == "real"
        self.uses_complex = True
        if isinstance(e, ast.Name):
            if e.id not in env:
                raise Refusal(f"unknown name {e.id}")
            if env[e.id] == "cparam":
                n = san(e.id)
                return f"(⟨{n}re, {n}im⟩ : ℂ)" if R else f"(Cplx.mk {n}re {n}im)"
            if env[e.id] == "cnum":
                return san(e.id)
            raise Refusal(f"name {e.id} is not complex")
        if isinstance(e, ast.UnaryOp) and isinstance(e.op, ast.USub):
            return f"(-{self.cexpr(e.operand, d, env)})"
        if isinstance(e, ast.UnaryOp) and isinstance(e.op, ast.UAdd):
            return self.cexpr(e.operand, d, env)
        if isinstance(e, ast.BinOp):
            ops = {ast.Add: "+", ast.Sub: "-", ast.Mult: "*", ast.Div: "/"}
            if type(e.op) not in ops:
                raise Refusal(f"operator {type(e.op).__name__} on a complex value: {ast.unparse(e)}")

            def side(x):
                if self.is_c(x):
                    return self.cexpr(x, d, env)
                t = self.expr(x, d, env)          # a real operand is promoted to (t, 0), as Python/numpy do
                return f"(({t} : ℝ) : ℂ)" if R else f"(Cplx.ofReal {t})"
            return f"({side(e.left)} {ops[type(e.op)]} {side(e.right)})"
        if isinstance(e, ast.Call) and isinstance(e.func, ast.Name):
            v = self.find_variant(e)
            if v["cret"] != "c":
                raise Refusal(f"call {ast.unparse(e)} is not complex-valued")
            return self.call_variant(e, d, env, v)
        raise Refusal(f"complex-valued expression {type(e).__name__}: {ast.unparse(e)}")

    def call_variant(self, e, d, env, v):
        R = d == "real"
        out = []
        for i, a in enumerate(e.args):
            if i in v["cpos"]:
                if isinstance(a, ast.Name) and env.get(a.id) == "cparam":
                    out += [f"{san(a.id)}re", f"{san(a.id)}im"]
                else:
                    t = self.cexpr(a, d, env)
                    out += [f"({t}).re", f"({t}).im"]
            else:
                out.append(self.expr(a, d, env))
        ns = "TR" if R else "TF"
        return "(" + f"{ns}.{san(v['lean_name'])} " + " ".join(out) + ")"

    def cty(self, d):
        return "ℂ" if d == "real" else "Cplx"

    def note_kinds(self, st):
        """record the kind (real / complex) of every local the statement assigns (source order; only the
        branches that survive the static tests are visited)"""
        if isinstance(st, ast.Assign):
            for tgt in st.targets:
                if isinstance(tgt, ast.Name):
                    k = "c" if self.is_c(st.value) else "r"
                    if self.ckinds.get(tgt.id, k) != k:
                        raise Refusal(f"local {tgt.id} is assigned both real and complex values")
                    self.ckinds[tgt.id] = k
                elif self.is_c(st.value) or self.is_c(tgt):
                    raise Refusal(f"complex value in assignment {ast.unparse(st).splitlines()[0]}")
        elif isinstance(st, ast.AugAssign):
            if self.is_c(st.value) or self.is_c(st.target):
                raise Refusal(f"complex value in {ast.unparse(st).splitlines()[0]}")
        elif isinstance(st, (ast.If, ast.While)):
            for b in list(st.body) + list(st.orelse):
                self.note_kinds(b)

    # ---------------------------------------------------------- tuples (additive)
    @staticmethod
    def proj(t, i, n):
        """i-th component (0-based) of the right-nested n-tuple term t"""
        if n == 1:
            return t
        return f"{t}" + ".2" * i + (".1" if i < n - 1 else "")

    def vexpr(self, e, d, env):
        """component list of a tuple-valued (row vector) expression, or None if e is scalar"""
        if isinstance(e, ast.Name) and isinstance(env.get(e.id), str) and env[e.id].startswith("tuple:"):
            n = int(env[e.id][6:])
            return [self.proj(san(e.id), i, n) for i in range(n)]
        if isinstance(e, ast.BinOp):
            a, b = self.vexpr(e.left, d, env), self.vexpr(e.right, d, env)
            if a is None and b is None:
                return None
            if isinstance(e.op, ast.Pow):
                if b is not None:
                    raise Refusal(f"tuple exponent {ast.unparse(e)}")
                out = []
                for comp in a:
                    fake = ast.BinOp(left=ast.Name(id="__c", ctx=ast.Load()), op=ast.Pow(), right=e.right)
                    env2 = dict(env)
                    env2["__c"] = "num"
                    out.append(self.power(fake, d, env2).replace(san("__c"), comp))
                return out
            ops = {ast.Add: "+", ast.Sub: "-", ast.Mult: "*", ast.Div: "/"}
            if type(e.op) not in ops:
                raise Refusal(f"operator {type(e.op).__name__}")
            n = len(a or b)
            if a is not None and b is not None and len(a) != len(b):
                raise Refusal(f"tuple arity in {ast.unparse(e)}")
            a = a or [self.expr(e.left, d, env)] * n
            b = b or [self.expr(e.right, d, env)] * n
            return [f"({x} {ops[type(e.op)]} {y})" for x, y in zip(a, b)]
        return None

    def tuple_call(self, e, d, env):
        """(lean term, arity) of a call of a translated tuple-valued function, else None"""
        if isinstance(e, ast.Call) and isinstance(e.func, ast.Attribute) and isinstance(e.func.value, ast.Name) \
                and e.func.value.id == "np" and e.func.attr == "column_stack" and len(e.args) == 1 and not e.keywords:
            r = self.tuple_call(e.args[0], d, env)
            if r is None:
                raise Refusal(f"np.column_stack of {ast.unparse(e.args[0])}")
            self.notes.append("np.column_stack(<tuple>): rows of the stacked array are the pointwise tuples")
            return r
        if isinstance(e, ast.Call) and isinstance(e.func, ast.Name) and e.func.id in self.known \
                and self.known[e.func.id].get("ntuple"):
            return self.call(e, d, env), self.known[e.func.id]["ntuple"]
        return None

    def power(self, e, d, env):
        base = self.expr(e.left, d, env)
        n = e.right
        neg = False
        if isinstance(n, ast.UnaryOp) and isinstance(n.op, ast.USub):
            n, neg = n.operand, True
        if not (isinstance(n, ast.Constant) and isinstance(n.value, int) and not isinstance(n.value, bool)):
            raise Refusal(f"exponent {ast.unparse(e.right)} is not an integer literal")
        k = n.value
        if d == "real":
            t = f"({base} ^ {k})"
        else:
            # numpy evaluates x**2 as x*x; for larger integer exponents it calls pow().
            if k == 0:
                t = "(1 : Float)"
            elif k == 1:
                t = base
            elif k == 2:
                t = f"({base} * {base})"
            else:
                t = f"(Float.pow {base} ({k} : Float))"
        if neg:
            one = "(1 : ℝ)" if d == "real" else "(1 : Float)"
            t = f"({one} / {t})"
        return t

    def call(self, e, d, env):
        R = d == "real"
        f = e.func
        if e.keywords:
            kw = e.keywords
            if (len(kw) == 1 and kw[0].arg is None and isinstance(kw[0].value, ast.Name)
                    and env.get(kw[0].value.id) == "kwargs" and isinstance(f, ast.Name) and f.id in self.known):
                self.notes.append(f"**{kw[0].value.id} modelled as empty in {ast.unparse(e)}")
            elif (isinstance(f, ast.Attribute) and isinstance(f.value, ast.Name) and f.value.id == "np" and f.attr == "sum"
                  and len(kw) == 1 and kw[0].arg == "axis" and isinstance(kw[0].value, ast.Constant) and kw[0].value.value == 1
                  and len(e.args) == 1):
                comps = self.vexpr(e.args[0], d, env)
                if comps is None:
                    raise Refusal(f"np.sum(axis=1) of a non-tuple: {ast.unparse(e)}")
                t = comps[0]
                for c in comps[1:]:
                    t = f"({t} + {c})"
                return t
            else:
                raise Refusal(f"keyword arguments in {ast.unparse(e)}")
        args = e.args
        if self.cmode and any(self.is_c(a) for a in args):
            if isinstance(f, ast.Attribute) and isinstance(f.value, ast.Name) and f.value.id == "np" \
                    and f.attr in ("real", "imag") and len(args) == 1:
                a = args[0]
                part = "re" if f.attr == "real" else "im"
                if isinstance(a, ast.Name) and env.get(a.id) == "cparam":
                    return f"{san(a.id)}{part}"
                return f"({self.cexpr(a, d, env)}).{part}"
            if isinstance(f, ast.Name):
                v = self.find_variant(e)       # real-valued variant of a translated function
                return self.call_variant(e, d, env, v)
            raise Refusal(f"function of a complex value: {ast.unparse(e)}")
        if isinstance(f, ast.Attribute) and isinstance(f.value, ast.Name) and f.value.id == "np":
            n = f.attr
            if n in UFUNCS and len(args) == 1:
                return f"({UFUNCS[n][0 if R else 1]} {self.expr(args[0], d, env)})"
            if n == "divide" and len(args) == 2:
                return f"({self.expr(args[0], d, env)} / {self.expr(args[1], d, env)})"
            if n == "multiply" and len(args) == 2:
                return f"({self.expr(args[0], d, env)} * {self.expr(args[1], d, env)})"
            if n in ("deg2rad", "radians") and len(args) == 1:
                k = "(Real.pi / 180)" if R else "(Float.ofBits 0x3F91DF46A2529D39)"  # pi/180
                return f"({self.expr(args[0], d, env)} * {k})"
            if n in ("rad2deg", "degrees") and len(args) == 1:
                k = "(180 / Real.pi)" if R else "(Float.ofBits 0x404CA5DC1A63C1F8)"  # 180/pi
                return f"({self.expr(args[0], d, env)} * {k})"
            if n == "where" and len(args) == 3:
                return f"(if {self.cond(args[0], d, env)} then {self.expr(args[1], d, env)} else {self.expr(args[2], d, env)})"
            if n == "hypot" and len(args) == 2:
                a, b = (self.expr(x, d, env) for x in args)
                return f"({'Real.sqrt' if R else 'Float.sqrt'} ({a} * {a} + {b} * {b}))"
            if n == "arctan2" and len(args) == 2:
                y, x = (self.expr(a, d, env) for a in args)
                return f"(Complex.arg ⟨{x}, {y}⟩)" if R else f"(Float.atan2 {y} {x})"
            if n in ("real", "atleast_1d", "asarray", "array", "asanyarray", "ascontiguousarray") and len(args) == 1:
                a0 = args[0]
                if isinstance(a0, (ast.List, ast.Tuple)) and len(a0.elts) == 1 and not isinstance(a0.elts[0], ast.Starred) \
                        and n != "real":
                    # np.asarray([x]) / np.array([x]): the 1-element array holding x — pointwise x itself
                    self.notes.append(f"singleton wrap {ast.unparse(e)}: pointwise identity")
                    a0 = a0.elts[0]
                return self.expr(a0, d, env)      # shape / dtype glue: pointwise identity
            if n == "reshape" and len(args) == 2:
                self.check_shape_args(args[1:], env, ast.unparse(e))
                return self.expr(args[0], d, env)      # shape glue: pointwise identity
            if n == "imag" and len(args) == 1:
                self.expr(args[0], d, env)           # must be translatable
                return "(0 : ℝ)" if R else "(0 : Float)"   # real-valued model
            if n in ("ones", "zeros", "empty") and len(args) == 1:
                sh = ast.unparse(args[0])
                ok = (isinstance(args[0], ast.Attribute) and args[0].attr == "shape" and isinstance(args[0].value, ast.Name)
                      and env.get(args[0].value.id) == "num") or \
                     (isinstance(args[0], ast.Call) and ast.unparse(args[0].func) == "np.shape" and len(args[0].args) == 1
                      and isinstance(args[0].args[0], ast.Name) and env.get(args[0].args[0].id) == "num") or \
                     self.is_shape_expr(args[0], env)
                if not ok:
                    raise Refusal(f"np.{n}({sh}): shape is not that of a parameter/local")
                v = 1 if n == "ones" else 0
                self.notes.append(f"np.{n}({sh}): shape glue, pointwise {v}"
                                  + (" (np.empty: placeholder; every element must be overwritten before it is read)" if n == "empty" else ""))
                return f"({v} : ℝ)" if R else f"({v} : Float)"
            if n == "clip" and len(args) == 3:
                v, lo, hi = (self.expr(a, d, env) for a in args)
                if R:
                    return f"(min (max {v} {lo}) {hi})"
                return f"(let v_ := {v}; if v_ < {lo} then {lo} else if v_ > {hi} then {hi} else v_)"
            if n == "sign" and len(args) == 1:
                v = self.expr(args[0], d, env)
                if R:
                    return f"(let v_ : ℝ := {v}; if v_ > 0 then (1 : ℝ) else if v_ < 0 then (-1 : ℝ) else 0)"
                return f"(let v_ : Float := {v}; if v_ > 0 then (1 : Float) else if v_ < 0 then (-1 : Float) else v_)"
            raise Refusal(f"numpy function np.{n}/{len(args)}")
        if isinstance(f, ast.Attribute) and f.attr == "copy" and not args \
                and not (isinstance(f.value, ast.Name) and f.value.id == "np"):
            return self.expr(f.value, d, env)          # value copy: pointwise identity
        if isinstance(f, ast.Attribute) and f.attr == "astype" and len(args) == 1 and not e.keywords \
                and not (isinstance(f.value, ast.Name) and f.value.id == "np") \
                and ((isinstance(args[0], ast.Name) and args[0].id == "float")
                     or (isinstance(args[0], ast.Attribute) and isinstance(args[0].value, ast.Name)
                         and args[0].value.id == "np" and args[0].attr in ("float64", "double"))):
            # conversion to double precision: the identity over the reals and on Lean's (binary64) Float
            return self.expr(f.value, d, env)
        if isinstance(f, ast.Attribute) and f.attr in ("ravel", "flatten") and not args:
            return self.expr(f.value, d, env)          # shape glue: pointwise identity
        if isinstance(f, ast.Attribute) and f.attr == "reshape" \
                and not (isinstance(f.value, ast.Name) and f.value.id == "np"):
            self.check_shape_args(args, env, ast.unparse(e))
            return self.expr(f.value, d, env)          # shape glue: pointwise identity
        if isinstance(f, ast.Name):
            if f.id in env and env[f.id] == "fun":
                if len(args) != 1:
                    raise Refusal("function parameter with arity != 1")
                return f"({san(self.tname(f.id))} {self.expr(args[0], d, env)})"
            if f.id in self.known and (self.known[f.id].get("pykinds") is not None
                                       and (any(k not in ("num", "fun") for _, k in self.known[f.id]["pykinds"])
                                            or any(isinstance(a, ast.Starred) for a in args))):
                return self.call_ext(e, d, env)
            if f.id == "abs" and len(args) == 1:
                return f"({'abs' if R else 'Float.abs'} {self.expr(args[0], d, env)})"
            if f.id in self.known:
                spec = self.known[f.id]
                nargs = spec["nparams"]
                if len(args) != nargs:
                    raise Refusal(f"call {ast.unparse(e)}: expected {nargs} positional arguments")
                ns = "TR" if R else "TF"
                suffix = "_d" if spec.get("fun_params") else ""
                return "(" + f"{ns}.{san(f.id)}{suffix} " + " ".join(self.expr(a, d, env) for a in args) + ")"
            if f.id == "float" and len(args) == 1:
                return self.expr(args[0], d, env)
            why = getattr(self, "inline_failed", {}).get(f.id)
            raise Refusal(f"call of unknown function {f.id}" + (f" (not expanded in place: {why})" if why else ""))
        failed = getattr(self, "inline_failed", {})
        why = failed.get(ast.unparse(f)) or (failed.get(f.attr) if isinstance(f, ast.Attribute) else None)
        raise Refusal(f"call {ast.unparse(e)}" + (f" (not expanded in place: {why})" if why else ""))

    def call_ext(self, e, d, env):
        """call of a translated function that has tuple / absent (None) parameters, or with *tuple"""
        R = d == "real"
        spec = self.known[e.func.id]
        kinds = list(spec["pykinds"])          # [(python parameter, kind)]
        out = []
        i = 0
        for a in e.args:
            if isinstance(a, ast.Starred):
                if not (isinstance(a.value, ast.Name) and str(env.get(a.value.id, "")).startswith("tuple:")):
                    raise Refusal(f"starred argument {ast.unparse(a)}")
                n = int(env[a.value.id][6:])
                for j in range(n):
                    if i >= len(kinds) or kinds[i][1] != "num":
                        raise Refusal(f"call {ast.unparse(e)}: *{a.value.id} does not match scalar parameters")
                    out.append(self.proj(san(a.value.id), j, n))
                    i += 1
                continue
            if i >= len(kinds):
                raise Refusal(f"call {ast.unparse(e)}: too many arguments")
            k = kinds[i][1]
            if k == "num":
                out.append(self.expr(a, d, env))
            elif k == "none":
                if not (isinstance(a, ast.Name) and env.get(a.id) == "none") and not (isinstance(a, ast.Constant) and a.value is None):
                    raise Refusal(f"call {ast.unparse(e)}: parameter {kinds[i][0]} is modelled as absent but receives {ast.unparse(a)}")
            elif k.startswith("tparam:"):
                if not (isinstance(a, ast.Name) and env.get(a.id) == k):
                    raise Refusal(f"call {ast.unparse(e)}: tuple parameter {kinds[i][0]} receives {ast.unparse(a)}")
                out += [f"{san(self.tname(a.id))}_{j}" for j in range(int(k[7:]))]
            else:
                raise Refusal(f"call {ast.unparse(e)}: parameter kind {k}")
            i += 1
        for name, k in kinds[i:]:
            if k != "none":
                raise Refusal(f"call {ast.unparse(e)}: parameter {name} not supplied")
        ns = "TR" if R else "TF"
        return "(" + f"{ns}.{san(spec.get('lean_name', e.func.id))} " + " ".join(out) + ")"

    def is_identity_glue_stmt(self, st):
        """v = x.reshape(…) / x.ravel() / np.asarray(x) / np.reshape(x, …): relayout of one value, pointwise identity"""
        if not (isinstance(st, ast.Assign) and len(st.targets) == 1 and isinstance(st.targets[0], ast.Name)
                and isinstance(st.value, ast.Call) and not st.value.keywords):
            return False
        f, a = st.value.func, st.value.args
        if isinstance(f, ast.Attribute) and isinstance(f.value, ast.Name) and f.value.id != "np" \
                and f.attr in ("reshape", "ravel", "flatten", "copy"):
            return True
        return isinstance(f, ast.Attribute) and isinstance(f.value, ast.Name) and f.value.id == "np" \
            and f.attr in ("reshape", "asarray", "atleast_1d", "array", "ravel") and a and isinstance(a[0], ast.Name)

    # ---------------------------------------------------------- aliases of tuple parameters
    def tname(self, name):
        """the tuple parameter a local stands for (`ell = ellipsoid` makes `ell` another name of the parameter)"""
        return getattr(self, "talias", {}).get(name, name)

    # ---------------------------------------------------------- shape-typed expressions / statements (inference)
    SHAPE_ATTRS = ("shape", "size", "ndim")

    def is_arrayish(self, e, env):
        """a value that has a shape: a numeric parameter / local (possibly through identity glue)"""
        if isinstance(e, ast.Name):
            k = env.get(e.id)
            return k in ("num", "cparam", "cnum") or (isinstance(k, str) and k.startswith("tuple:"))
        if isinstance(e, ast.Call) and isinstance(e.func, ast.Attribute) and isinstance(e.func.value, ast.Name) \
                and e.func.value.id == "np" and e.func.attr in ("asarray", "atleast_1d", "array", "asanyarray") and len(e.args) == 1:
            return self.is_arrayish(e.args[0], env)
        if isinstance(e, ast.Call) and isinstance(e.func, ast.Attribute) and e.func.attr in ("ravel", "flatten", "copy", "reshape"):
            return self.is_arrayish(e.func.value, env)
        return False

    def is_shape_expr(self, e, env):
        """an expression built only from .shape / .ndim / .size / len(…) / np.shape(…) of values, integer literals,
        shape-typed locals, tuples / lists, + - * // and indexing of such: its value depends on the SHAPES of the
        arguments only, never on their elements"""
        if isinstance(e, ast.Constant):
            return isinstance(e.value, int) and not isinstance(e.value, bool)
        if isinstance(e, ast.Name):
            return env.get(e.id) == "shape"
        if isinstance(e, ast.Attribute) and e.attr in self.SHAPE_ATTRS:
            return self.is_arrayish(e.value, env)
        if isinstance(e, ast.Call) and not e.keywords:
            f = ast.unparse(e.func)
            if f in ("len", "np.shape", "np.size", "np.ndim") and len(e.args) == 1:
                return self.is_arrayish(e.args[0], env) or self.is_shape_expr(e.args[0], env)
            if f in ("tuple", "list") and len(e.args) <= 1:
                return all(self.is_shape_expr(a, env) for a in e.args)
            if f == "range" and 1 <= len(e.args) <= 3:
                return all(self.is_shape_expr(a, env) for a in e.args)
            return False
        if isinstance(e, (ast.Tuple, ast.List)):
            return all(not isinstance(x, ast.Starred) and self.is_shape_expr(x, env) for x in e.elts)
        if isinstance(e, ast.BinOp) and isinstance(e.op, (ast.Add, ast.Sub, ast.Mult, ast.FloorDiv)):
            return self.is_shape_expr(e.left, env) and self.is_shape_expr(e.right, env)
        if isinstance(e, ast.UnaryOp) and isinstance(e.op, (ast.USub, ast.UAdd)):
            return self.is_shape_expr(e.operand, env)
        if isinstance(e, ast.Subscript):
            sl = e.slice
            if isinstance(sl, ast.Slice):
                ok = all(x is None or self.is_shape_expr(x, env) for x in (sl.lower, sl.upper, sl.step))
            else:
                ok = self.is_shape_expr(sl, env)
            return ok and self.is_shape_expr(e.value, env)
        if isinstance(e, (ast.ListComp, ast.GeneratorExp)) and len(e.generators) == 1:
            g = e.generators[0]
            if g.ifs or g.is_async or not isinstance(g.target, ast.Name) or not self.is_shape_expr(g.iter, env):
                return False
            env2 = dict(env)
            env2[g.target.id] = "shape"
            return self.is_shape_expr(e.elt, env2)
        return False

    def check_shape_args(self, args, env, what):
        """arguments of reshape: shape-typed expressions, or names the translator does not bind at all (shape locals
        of declared glue).  A number / mask flowing into a shape is refused."""
        for a in args:
            for nd in ast.walk(a):
                if isinstance(nd, ast.Name) and env.get(nd.id) in ("bool", "fun", "none", "kwargs"):
                    raise Refusal(f"reshape argument mentions {nd.id}: {what}")
            bound = [nd.id for nd in ast.walk(a) if isinstance(nd, ast.Name) and nd.id in env and nd.id not in ("np", "len", "tuple", "list")]
            if bound and not self.is_shape_expr(a, env):
                raise Refusal(f"reshape argument is not a shape-typed expression: {what}")

    def shape_stmt(self, st, env):
        """True (and the targets become shape-typed in env) when the statement only computes shapes: it assigns /
        mutates shape-typed locals from shape-typed expressions.  Such statements are skipped: nothing they bind can
        reach a number (expr refuses a shape-typed name), they can only feed reshape / np.ones / np.zeros."""
        if isinstance(st, ast.Assign) and all(isinstance(t, ast.Name) for t in st.targets) and self.is_shape_expr(st.value, env):
            for t in st.targets:
                env[t.id] = "shape"
            return True
        if isinstance(st, ast.Assign) and len(st.targets) == 1 and isinstance(st.targets[0], ast.Subscript) \
                and isinstance(st.targets[0].value, ast.Name) and env.get(st.targets[0].value.id) == "shape" \
                and not isinstance(st.targets[0].slice, ast.Slice) and self.is_shape_expr(st.targets[0].slice, env) \
                and self.is_shape_expr(st.value, env):
            return True
        if isinstance(st, ast.AugAssign) and isinstance(st.target, ast.Name) and env.get(st.target.id) == "shape" \
                and isinstance(st.op, (ast.Add, ast.Sub, ast.Mult, ast.FloorDiv)) and self.is_shape_expr(st.value, env):
            return True
        if isinstance(st, ast.Expr) and isinstance(st.value, ast.Call) and isinstance(st.value.func, ast.Attribute) \
                and isinstance(st.value.func.value, ast.Name) and env.get(st.value.func.value.id) == "shape" \
                and st.value.func.attr in ("append", "extend", "insert", "reverse") and not st.value.keywords \
                and all(self.is_shape_expr(a, env) for a in st.value.args):
            return True
        if isinstance(st, ast.For) and not st.orelse and isinstance(st.target, ast.Name) and self.is_shape_expr(st.iter, env):
            env2 = dict(env)
            env2[st.target.id] = "shape"
            if all(self.shape_stmt(b, env2) for b in st.body):
                for k2, v2 in env2.items():
                    if v2 == "shape":
                        env[k2] = "shape"
                return True
        return False

    # ---------------------------------------------------------- scalar-versus-array glue
    def scalar_test(self, e):
        """the parameter p when the test asks whether the ARGUMENT p is a scalar (not an array):
        isinstance(p, Number) / isinstance(p, (int, float)) / np.isscalar(p) / np.ndim(p) == 0, an `or` of such tests of
        the same p, or a flag assigned once from such a test.  Pointwise these tests say nothing about the value — both paths must be the same function."""
        params = [p for p, k in getattr(self, "pykinds", []) if k == "num"]
        if isinstance(e, ast.Name) and e.id in getattr(self, "sflags", {}):
            return self.sflags[e.id]
        if isinstance(e, ast.BoolOp) and isinstance(e.op, ast.Or):
            # `isinstance(p, Number) or np.ndim(p) == 0`: a disjunction of scalar tests of the SAME argument
            ps = {self.scalar_test(v) for v in e.values}
            return ps.pop() if len(ps) == 1 and None not in ps else None
        if isinstance(e, ast.Call) and isinstance(e.func, ast.Name) and e.func.id == "isinstance" and len(e.args) == 2 \
                and not e.keywords and isinstance(e.args[0], ast.Name) and e.args[0].id in params \
                and e.args[0].id not in getattr(self, "reassigned_before", set()):
            t = e.args[1]
            names = [ast.unparse(x) for x in (t.elts if isinstance(t, ast.Tuple) else [t])]
            if names and all(n in ("Number", "numbers.Number", "numbers.Real", "Real", "float", "int", "np.number",
                                   "np.floating", "np.integer", "np.generic") for n in names):
                return e.args[0].id
        if isinstance(e, ast.Call) and ast.unparse(e.func) == "np.isscalar" and len(e.args) == 1 and not e.keywords \
                and isinstance(e.args[0], ast.Name) and e.args[0].id in params:
            return e.args[0].id
        if isinstance(e, ast.Compare) and len(e.ops) == 1 and isinstance(e.ops[0], ast.Eq) \
                and isinstance(e.comparators[0], ast.Constant) and e.comparators[0].value == 0 \
                and isinstance(e.left, ast.Call) and ast.unparse(e.left.func) == "np.ndim" and len(e.left.args) == 1 \
                and isinstance(e.left.args[0], ast.Name) and e.left.args[0].id in params:
            return e.left.args[0].id
        return None

    def is_singleton_wrap(self, e, p):
        """np.asarray([p]) / np.array([p]) / np.atleast_1d(p)"""
        if not (isinstance(e, ast.Call) and isinstance(e.func, ast.Attribute) and isinstance(e.func.value, ast.Name)
                and e.func.value.id == "np" and len(e.args) == 1 and not e.keywords):
            return False
        a = e.args[0]
        if e.func.attr in ("asarray", "array", "asanyarray", "atleast_1d") and isinstance(a, (ast.List, ast.Tuple)) \
                and len(a.elts) == 1 and isinstance(a.elts[0], ast.Name) and a.elts[0].id == p:
            return True
        return e.func.attr == "atleast_1d" and isinstance(a, ast.Name) and a.id == p

    def scalar_branch_is_glue(self, body, array_br, p, fname, params):
        """the branch taken when the argument p is a scalar is pure scalar->array glue:
          (a) it only wraps p into a 1-element array (`p = np.asarray([p])`; no other branch), or
          (b) it delegates to the function itself on the wrapped argument and takes the only element:
              `ret_ = f(np.asarray([p]))[0]` (the other arguments passed through unchanged), or
          (c) it IS the array branch, run on the wrapped argument, with `[0]` taken from the result
              (syntactically: equal after erasing 1-element wraps, the final `[0]`, copies `a = b`, and
              renaming locals consistently)."""
        if body and not array_br and all(isinstance(b, ast.Assign) and len(b.targets) == 1 and isinstance(b.targets[0], ast.Name)
                                         and b.targets[0].id == p and self.is_singleton_wrap(b.value, p) for b in body):
            return "wrap"
        if body and array_br and self.same_modulo_wrap(body, array_br):
            return "same code on the wrapped argument"
        if len(body) == 1 and isinstance(body[0], ast.Assign) and len(body[0].targets) == 1 \
                and isinstance(body[0].targets[0], ast.Name) and body[0].targets[0].id.startswith(normalize.RET):
            v = body[0].value
            if isinstance(v, ast.Subscript) and isinstance(v.slice, ast.Constant) and v.slice.value == 0 \
                    and isinstance(v.value, ast.Call) and isinstance(v.value.func, ast.Name) and v.value.func.id == fname \
                    and not v.value.keywords and len(v.value.args) == len(params):
                ok = True
                for q, a in zip(params, v.value.args):
                    if q == p:
                        ok = ok and self.is_singleton_wrap(a, p)
                    else:
                        ok = ok and isinstance(a, ast.Name) and a.id == q
                if ok:
                    return "delegate"
        return None

    def same_modulo_wrap(self, scalar_br, array_br):
        import copy
        tr = self

        class Erase(ast.NodeTransformer):
            def visit_Call(self, node):
                self.generic_visit(node)
                if isinstance(node.func, ast.Attribute) and isinstance(node.func.value, ast.Name) and node.func.value.id == "np" \
                        and node.func.attr in ("asarray", "array", "asanyarray", "atleast_1d") and len(node.args) == 1 \
                        and not node.keywords and isinstance(node.args[0], (ast.List, ast.Tuple)) and len(node.args[0].elts) == 1 \
                        and isinstance(node.args[0].elts[0], ast.Name):
                    return node.args[0].elts[0]
                return node
        S = [Erase().visit(copy.deepcopy(b)) for b in scalar_br]
        A = [copy.deepcopy(b) for b in array_br]
        # the final unwrap: ret_ = V[0]  ->  ret_ = V
        unwrapped = False
        for b in S:
            if isinstance(b, ast.Assign) and len(b.targets) == 1 and isinstance(b.targets[0], ast.Name) \
                    and b.targets[0].id.startswith(normalize.RET) and isinstance(b.value, ast.Subscript) \
                    and isinstance(b.value.slice, ast.Constant) and b.value.slice.value == 0 and isinstance(b.value.value, ast.Name):
                b.value = b.value.value
                unwrapped = True

        def propagate(sts):
            counts = {}
            for b in sts:
                for nd in ast.walk(b):
                    if isinstance(nd, ast.Name) and isinstance(nd.ctx, ast.Store):
                        counts[nd.id] = counts.get(nd.id, 0) + 1
            out, sub = [], {}
            for b in sts:
                b = normalize.substitute([b], {k: ast.Name(id=v, ctx=ast.Load()) for k, v in sub.items()})[0]
                if isinstance(b, ast.Assign) and len(b.targets) == 1 and isinstance(b.targets[0], ast.Name) \
                        and isinstance(b.value, ast.Name) and counts.get(b.targets[0].id) == 1 \
                        and counts.get(b.value.id, 0) == 0 and not b.targets[0].id.startswith(normalize.RET):
                    sub[b.targets[0].id] = b.value.id
                    continue
                out.append(b)
            return out

        def alpha(sts):
            ren = {}
            for b in sts:
                for nd in ast.walk(b):
                    if isinstance(nd, ast.Name) and isinstance(nd.ctx, ast.Store) and nd.id not in ren \
                            and not nd.id.startswith(normalize.RET):
                        ren[nd.id] = f"v{len(ren)}_"
            out = []
            for b in sts:
                b = copy.deepcopy(b)
                for nd in ast.walk(b):
                    if isinstance(nd, ast.Name) and nd.id in ren:
                        nd.id = ren[nd.id]
                out.append(ast.dump(b))
            return out
        return alpha(propagate(S)) == alpha(propagate(A))

    def cond(self, e, d, env):
        """boolean expression: Prop (real, classical if) or Bool (float)"""
        R = d == "real"
        if self.cmode and isinstance(e, ast.Compare) and (self.is_c(e.left) or any(self.is_c(c) for c in e.comparators)):
            raise Refusal(f"comparison of complex values: {ast.unparse(e)}")
        if isinstance(e, ast.Compare) and len(e.ops) == 1:
            ops = {ast.Lt: "<", ast.LtE: "≤", ast.Gt: ">", ast.GtE: "≥"}
            if type(e.ops[0]) in (ast.Eq, ast.NotEq):
                a, b = self.expr(e.left, d, env), self.expr(e.comparators[0], d, env)
                if isinstance(e.ops[0], ast.Eq):
                    return f"({a} = {b})" if R else f"({a} == {b})"
                return f"({a} ≠ {b})" if R else f"({a} != {b})"
            if type(e.ops[0]) not in ops:
                raise Refusal(f"comparison {ast.unparse(e)}")
            a, b = self.expr(e.left, d, env), self.expr(e.comparators[0], d, env)
            op = ops[type(e.ops[0])]
            if R:
                return f"({a} {op} {b})"
            fop = {"<": "<", "≤": "<=", ">": ">", "≥": ">="}[op]
            return f"(decide ({a} {fop} {b}))"
        if isinstance(e, ast.Name) and env.get(e.id) == "bool":
            return san(e.id)
        if isinstance(e, ast.BoolOp):
            j = (" ∧ " if isinstance(e.op, ast.And) else " ∨ ") if R else (" && " if isinstance(e.op, ast.And) else " || ")
            return "(" + j.join(self.cond(v, d, env) for v in e.values) + ")"
        if isinstance(e, ast.UnaryOp) and isinstance(e.op, ast.Not):
            return f"(¬ {self.cond(e.operand, d, env)})" if R else f"(!{self.cond(e.operand, d, env)})"
        if isinstance(e, ast.Call) and isinstance(e.func, ast.Attribute) and isinstance(e.func.value, ast.Name) \
                and e.func.value.id == "np" and e.func.attr in ("any", "all") and len(e.args) == 1:
            return self.cond(e.args[0], d, env)       # pointwise
        if isinstance(e, ast.UnaryOp) and isinstance(e.op, ast.Invert):
            return f"(¬ {self.cond(e.operand, d, env)})" if R else f"(!{self.cond(e.operand, d, env)})"
        if isinstance(e, ast.Call) and isinstance(e.func, ast.Name) and e.func.id in ("any", "all") and len(e.args) == 1 \
                and not e.keywords and not isinstance(e.args[0], ast.GeneratorExp):
            return self.cond(e.args[0], d, env)       # pointwise
        if isinstance(e, ast.Call) and isinstance(e.func, ast.Attribute) and isinstance(e.func.value, ast.Name) \
                and e.func.value.id == "np" and not e.keywords:
            n, a = e.func.attr, e.args
            if n in ("logical_and", "logical_or") and len(a) == 2:
                j = (" ∧ " if n == "logical_and" else " ∨ ") if R else (" && " if n == "logical_and" else " || ")
                return "(" + self.cond(a[0], d, env) + j + self.cond(a[1], d, env) + ")"
            if n == "logical_not" and len(a) == 1:
                return f"(¬ {self.cond(a[0], d, env)})" if R else f"(!{self.cond(a[0], d, env)})"
            if n == "isnan" and len(a) == 1:
                x = self.expr(a[0], d, env)
                return "False" if R else f"(Float.isNaN {x})"      # no NaN among the reals
            if n == "isreal" and len(a) == 1:
                if self.cmode and self.is_c(a[0]):
                    raise Refusal(f"np.isreal of a complex value outside a statically decided test: {ast.unparse(e)}")
                self.expr(a[0], d, env)
                return "True" if R else "true"
        raise Refusal(f"condition {ast.unparse(e)}")

    def static(self, e):
        """True/False when the test is decided by the real-valued model alone, else None"""
        if isinstance(e, ast.Call) and isinstance(e.func, ast.Attribute) and isinstance(e.func.value, ast.Name) \
                and e.func.value.id == "np":
            if e.func.attr == "isreal" and len(e.args) == 1:
                if self.cmode:
                    return not self.is_c(e.args[0])
                return True
            if e.func.attr in ("all", "any") and len(e.args) == 1:
                return self.static(e.args[0])
        if isinstance(e, ast.Name) and e.id in getattr(self, "static_names", {}):
            return self.static_names[e.id]
        if isinstance(e, ast.Compare) and len(e.ops) == 1 and isinstance(e.ops[0], (ast.Is, ast.IsNot)) \
                and isinstance(e.left, ast.Name) and isinstance(e.comparators[0], ast.Constant) and e.comparators[0].value is None:
            k = getattr(self, "presence", {}).get(self.tname(e.left.id))
            if k is None:
                return None
            return (k == "absent") == isinstance(e.ops[0], ast.Is)
        if isinstance(e, ast.Call) and isinstance(e.func, ast.Name) and e.func.id in ("all", "any") and len(e.args) == 1 \
                and not e.keywords and isinstance(e.args[0], (ast.GeneratorExp, ast.ListComp)) and len(e.args[0].generators) == 1:
            g = e.args[0].generators[0]
            if isinstance(g.iter, (ast.List, ast.Tuple)) and isinstance(g.target, ast.Name) and not g.ifs \
                    and all(isinstance(x, ast.Name) for x in g.iter.elts):
                vals = []
                for x in g.iter.elts:
                    sub = ast.parse(ast.unparse(e.args[0].elt), mode="eval").body
                    for nd in ast.walk(sub):
                        if isinstance(nd, ast.Name) and nd.id == g.target.id:
                            nd.id = x.id
                    vals.append(self.static(sub))
                if e.func.id == "all":
                    if any(v is False for v in vals):
                        return False
                    return True if all(v is True for v in vals) else None
                if any(v is True for v in vals):
                    return True
                return False if all(v is False for v in vals) else None
        if isinstance(e, ast.BoolOp):
            vals = [self.static(v) for v in e.values]
            if isinstance(e.op, ast.And):
                if any(v is False for v in vals):
                    return False
                return True if all(v is True for v in vals) else None
            if any(v is True for v in vals):
                return True
            return False if all(v is False for v in vals) else None
        if isinstance(e, ast.UnaryOp) and isinstance(e.op, ast.Not):
            v = self.static(e.operand)
            return None if v is None else (not v)
        return None

    def const(self, name, d):
        if not hasattr(self.C, name):
            raise Refusal(f"constants.{name} does not exist")
        v = getattr(self.C, name)
        if not isinstance(v, (int, float)):
            raise Refusal(f"constants.{name} is not a number")
        self.used_constants[name] = float(v)
        return f"C.{san(name)}" if d == "real" else f"CF.{san(name)}"

    # -------------------------------------------------------------- statements (additive)
    def fresh(self, stem):
        self._tmp += 1
        return f"{stem}{self._tmp}_"

    def tuple_ty(self, ty, n):
        return " × ".join([ty] * n)

    def is_mask(self, m, env):
        if isinstance(m, ast.Name):
            return env.get(m.id) == "bool"
        return (isinstance(m, ast.Call) and isinstance(m.func, ast.Attribute) and isinstance(m.func.value, ast.Name)
                and m.func.value.id == "np" and m.func.attr in ("logical_and", "logical_or", "logical_not"))

    def check_masks(self, value, m):
        """every v[<bool name>] inside value must select with the same mask as the target"""
        for nd in ast.walk(value):
            if isinstance(nd, ast.Subscript) and isinstance(nd.slice, ast.Name) and isinstance(m, ast.Name) \
                    and nd.slice.id != m.id and isinstance(nd.value, ast.Name):
                raise Refusal(f"mask assignment mixes masks {m.id} and {nd.slice.id}")

    def block(self, stmts, env, d, ty, assigned):
        """nested statement list -> let lines; names assigned (in order) are appended to `assigned`"""
        lets = []
        for st in stmts:
            ctx = {"guards": None, "ret": None, "rettuple": 0, "top": False, "ty": ty, "assigned": assigned}
            before = set(env)
            if self.shape_stmt(st, env):
                self.notes.append(f"shape glue (inferred): {ast.unparse(st).splitlines()[0]}")
            elif self.stmt_ext(st, lets, env, d, ctx, pre=True):
                pass
            elif isinstance(st, ast.Assign) and len(st.targets) == 1 and isinstance(st.targets[0], ast.Name):
                tgt, v = st.targets[0], st.value
                if isinstance(v, (ast.Compare, ast.BoolOp)) or (isinstance(v, ast.Call) and self.is_mask(v, env)):
                    lets.append(f"let {san(tgt.id)} : {'Prop' if d == 'real' else 'Bool'} := {self.cond(v, d, env)}")
                    env[tgt.id] = "bool"
                else:
                    if self.cmode and self.is_c(v):
                        raise Refusal(f"complex value assigned inside a branch / loop: {ast.unparse(st).splitlines()[0]}")
                    lets.append(f"let {san(tgt.id)} : {ty} := {self.expr(v, d, env)}")
                    env[tgt.id] = "num"
                assigned.append(tgt.id)
            elif self.stmt_ext(st, lets, env, d, ctx, pre=False):
                pass
            else:
                raise Refusal(f"nested statement {type(st).__name__}: {ast.unparse(st).splitlines()[0]}")
        return lets

    def stmt_ext(self, st, lets, env, d, ctx, pre):
        """statement forms added for specs_geodesy; returns True when the statement was translated.
        pre=True: forms tried before the original statement logic (which would mistranslate them);
        pre=False: forms the original logic refuses."""
        R = d == "real"
        ty = ctx["ty"]
        assigned = ctx.get("assigned")
        if assigned is None:
            assigned = ctx["assigned"] = []
        first = ast.unparse(st).splitlines()[0]
        if pre:
            # x = <call of a tuple-valued translated function>
            if isinstance(st, ast.Assign) and len(st.targets) == 1 and isinstance(st.targets[0], ast.Name):
                tc = self.tuple_call(st.value, d, env)
                if tc is not None:
                    term, n = tc
                    lets.append(f"let {san(st.targets[0].id)} : {self.tuple_ty(ty, n)} := {term}")
                    env[st.targets[0].id] = f"tuple:{n}"
                    assigned.append(st.targets[0].id)
                    return True
                # mask-valued local built with np.logical_*
                if isinstance(st.value, ast.Call) and self.is_mask(st.value, env):
                    lets.append(f"let {san(st.targets[0].id)} : {'Prop' if R else 'Bool'} := {self.cond(st.value, d, env)}")
                    env[st.targets[0].id] = "bool"
                    assigned.append(st.targets[0].id)
                    return True
                # message text of a guard
                if isinstance(st.value, ast.Constant) and isinstance(st.value.value, str):
                    self.notes.append(f"string local skipped (not bound): {first}")
                    return True
                return False
            # a, b, c = f(...)   |   a, b = map(np.g, [a, b])
            if isinstance(st, ast.Assign) and len(st.targets) == 1 and isinstance(st.targets[0], ast.Tuple) \
                    and all(isinstance(t, ast.Name) for t in st.targets[0].elts):
                names = [t.id for t in st.targets[0].elts]
                tc = self.tuple_call(st.value, d, env)
                if tc is not None:
                    term, n = tc
                    if n != len(names):
                        raise Refusal(f"tuple arity: {first}")
                    tmp = self.fresh("tup")
                    lets.append(f"let {tmp} : {self.tuple_ty(ty, n)} := {term}")
                    for i, nm in enumerate(names):
                        lets.append(f"let {san(nm)} : {ty} := {self.proj(tmp, i, n)}")
                        env[nm] = "num"
                        assigned.append(nm)
                    return True
                v = st.value
                if isinstance(v, ast.Call) and isinstance(v.func, ast.Name) and v.func.id == "map" and len(v.args) == 2 \
                        and isinstance(v.args[1], ast.List) and len(v.args[1].elts) == len(names) \
                        and [ast.unparse(x) for x in v.args[1].elts] == names:
                    for nm in names:
                        call = ast.Call(func=v.args[0], args=[ast.Name(id=nm, ctx=ast.Load())], keywords=[])
                        lets.append(f"let {san(nm)} : {ty} := {self.expr(call, d, env)}")
                        assigned.append(nm)
                    return True
                raise Refusal(f"tuple assignment: {first}")
            # return tuple(v.reshape(shape) for v in (a, b, c))   — shape glue around a plain tuple return
            if isinstance(st, ast.Return) and ctx["top"] and isinstance(st.value, ast.Call) and isinstance(st.value.func, ast.Name) \
                    and st.value.func.id == "tuple" and len(st.value.args) == 1 and isinstance(st.value.args[0], ast.GeneratorExp):
                ge = st.value.args[0]
                gen = ge.generators[0]
                ok = (len(ge.generators) == 1 and not gen.ifs and isinstance(gen.target, ast.Name) and isinstance(gen.iter, ast.Tuple)
                      and all(isinstance(x, ast.Name) and env.get(x.id) == "num" for x in gen.iter.elts)
                      and isinstance(ge.elt, ast.Call) and isinstance(ge.elt.func, ast.Attribute) and ge.elt.func.attr == "reshape"
                      and isinstance(ge.elt.func.value, ast.Name) and ge.elt.func.value.id == gen.target.id
                      and len(ge.elt.args) == 1 and isinstance(ge.elt.args[0], ast.Name)
                      and (ge.elt.args[0].id not in env or env[ge.elt.args[0].id] == "shape"))
                if not ok:
                    raise Refusal(f"return form: {first}")
                self.notes.append(f"reshape glue on the returned tuple: {first}")
                ctx["ret"] = "(" + ", ".join(san(x.id) for x in gen.iter.elts) + ")"
                ctx["rettuple"] = len(gen.iter.elts)
                return True
            # return <call of a tuple-valued translated function>
            if isinstance(st, ast.Return) and st.value is not None and ctx["top"]:
                tc = self.tuple_call(st.value, d, env)
                if tc is not None:
                    ctx["ret"], ctx["rettuple"] = tc
                    return True
            return False
        # ---------------- forms the original logic refuses
        # inrange(x, lo, hi, exclude=…, text=…): typhon.geodesy.inrange raises when x is outside
        if isinstance(st, ast.Expr) and isinstance(st.value, ast.Call) and isinstance(st.value.func, ast.Name) \
                and st.value.func.id == "inrange" and len(st.value.args) == 3:
            if not ctx["top"]:
                raise Refusal(f"guard inside a branch: {first}")
            kw = {k.arg: k.value for k in st.value.keywords}
            if set(kw) - {"exclude", "text"}:
                raise Refusal(f"inrange keywords: {first}")
            ex = kw.get("exclude", ast.Constant(value="none"))
            if not (isinstance(ex, ast.Constant) and ex.value in ("none", "lower", "upper", "both")):
                raise Refusal(f"inrange exclude: {first}")
            x, lo, hi = (self.expr(a, d, env) for a in st.value.args)
            lo_bad = "≤" if ex.value in ("lower", "both") else "<"      # rejected when x (<|≤) lo
            hi_bad = "≥" if ex.value in ("upper", "both") else ">"
            if R:
                ctx["guards"].append(f"({x} {lo_bad} {lo})")
                ctx["guards"].append(f"({x} {hi_bad} {hi})")
            else:
                f_ = {"<": "<", "≤": "<=", ">": ">", "≥": ">="}
                ctx["guards"].append(f"(decide ({x} {f_[lo_bad]} {lo}))")
                ctx["guards"].append(f"(decide ({x} {f_[hi_bad]} {hi}))")
            return True
        # x op= e
        ops = {ast.Add: "+", ast.Sub: "-", ast.Mult: "*", ast.Div: "/"}
        if isinstance(st, ast.AugAssign) and isinstance(st.target, ast.Name) and type(st.op) in ops:
            if env.get(st.target.id) != "num":
                raise Refusal(f"augmented assignment to {st.target.id}: {first}")
            n = san(st.target.id)
            lets.append(f"let {n} : {ty} := ({n} {ops[type(st.op)]} {self.expr(st.value, d, env)})")
            assigned.append(st.target.id)
            return True
        # e[m] = <expr>,  e[m] op= <expr>   (m: boolean local or np.logical_* of such)
        tgt = st.targets[0] if isinstance(st, ast.Assign) and len(st.targets) == 1 else st.target if isinstance(st, ast.AugAssign) else None
        if isinstance(tgt, ast.Subscript) and isinstance(tgt.value, ast.Name) and env.get(tgt.value.id) == "num" \
                and self.is_mask(tgt.slice, env):
            self.check_masks(st.value, tgt.slice)
            n = san(tgt.value.id)
            m = self.cond(tgt.slice, d, env)
            v = self.expr(st.value, d, env)
            if isinstance(st, ast.AugAssign):
                if type(st.op) not in ops:
                    raise Refusal(f"operator in {first}")
                v = f"({n} {ops[type(st.op)]} {v})"
            lets.append(f"let {n} : {ty} := if {m} then {v} else {n}")
            assigned.append(tgt.value.id)
            return True
        # if any(m): <body of assignments masked by m / fresh locals>   -> the body itself (pointwise)
        if isinstance(st, ast.If) and not st.orelse and isinstance(st.test, ast.Call) and len(st.test.args) == 1 \
                and ast.unparse(st.test.func) in ("any", "np.any") and isinstance(st.test.args[0], ast.Name) \
                and env.get(st.test.args[0].id) == "bool":
            m = st.test.args[0].id
            for b in st.body:
                t = b.targets[0] if isinstance(b, ast.Assign) and len(b.targets) == 1 else b.target if isinstance(b, ast.AugAssign) else None
                if isinstance(t, ast.Subscript) and isinstance(t.slice, ast.Name) and t.slice.id == m:
                    continue
                if isinstance(b, ast.Assign) and isinstance(t, ast.Name) and t.id not in env:
                    continue
                raise Refusal(f"statement under `if any({m})` is neither masked by {m} nor a fresh local: {ast.unparse(b).splitlines()[0]}")
            self.notes.append(f"`if any({m})`: body translated pointwise (its assignments are masked by {m})")
            lets += self.block(st.body, env, d, ty, assigned)
            return True
        # if c: … else: …   (assignments only) -> merged lets
        if isinstance(st, ast.If):
            c = self.cond(st.test, d, env)
            env_t, env_e = dict(env), dict(env)
            as_t, as_e = [], []
            lets_t = self.block(st.body, env_t, d, ty, as_t)
            lets_e = self.block(st.orelse, env_e, d, ty, as_e)
            merged = []
            for v in as_t + as_e:
                if v not in merged and env_t.get(v) == "num" and env_e.get(v) == "num":
                    merged.append(v)
            dropped = [v for v in dict.fromkeys(as_t + as_e) if v not in merged]
            for v in dropped:
                env.pop(v, None)
            if dropped:
                self.notes.append(f"`if {ast.unparse(st.test)}`: not bound after the statement (assigned on one path only): {', '.join(dropped)}")
            if not merged:
                raise Refusal(f"if statement assigns no common variable: {first}")
            tup = "(" + ", ".join(san(v) for v in merged) + ")" if len(merged) > 1 else san(merged[0])

            def br(ls):
                return "(" + "".join(l + "; " for l in ls) + tup + ")"
            if len(merged) == 1:
                lets.append(f"let {san(merged[0])} : {ty} := if {c} then {br(lets_t)} else {br(lets_e)}")
            else:
                tmp = self.fresh("if")
                n = len(merged)
                lets.append(f"let {tmp} : {self.tuple_ty(ty, n)} := if {c} then {br(lets_t)} else {br(lets_e)}")
                for i, v in enumerate(merged):
                    lets.append(f"let {san(v)} : {ty} := {self.proj(tmp, i, n)}")
            for v in merged:
                env[v] = "num"
                assigned.append(v)
            return True
        # while c: body
        if isinstance(st, ast.While) and not st.orelse:
            env_b = dict(env)
            as_b = []
            probe = Translator(self.C, self.known, self.src)     # first pass: which variables does the body assign
            probe.presence, probe._tmp, probe.pykinds = self.presence, 1000, self.pykinds
            penv = dict(env)
            for v in self.assigned_names(st.body):
                penv.setdefault(v, "num")
            probe.block(st.body, penv, d, ty, as_b)
            state = list(dict.fromkeys(as_b))
            if any(penv.get(v) != "num" for v in state):
                raise Refusal(f"loop state is not numeric: {first}")
            n = len(state)
            T = self.tuple_ty(ty, n)
            init = []
            undefined = [v for v in state if v not in env]
            if undefined and not getattr(self, "spec", {}).get("loop_entry_obligation"):
                # a skipped loop would leave these locals unbound (Python: UnboundLocalError when read later)
                raise Refusal(f"while loop may be skipped with {', '.join(undefined)} unassigned: {first} "
                              f"(spec key loop_entry_obligation emits <loop>_entered, which the theorems must prove)")
            for v in state:
                if env.get(v) == "num":
                    init.append(san(v))
                elif v not in env:
                    # never read: the body must assign it before reading (checked below: it is not in scope),
                    # and <loop>_entered (a proof obligation) says the body runs at least once
                    init.append(f"(0 : {ty})" if R else "((0 : Float) / (0 : Float))")
                    self.notes.append(f"while: {v} is unassigned before the loop; obligation {self.cur_name}_loop{self._loops + 1}_entered "
                                      f"(the loop test holds in the start state) must be proved — Python raises UnboundLocalError otherwise; "
                                      f"placeholder {'0' if R else 'NaN'} is never read (the body assigns {v} before reading it)")
                else:
                    raise Refusal(f"loop variable {v} has kind {env[v]}")
            for v in state:
                if v not in undefined:
                    env_b[v] = "num"
            unpack = "".join(f"let {san(v)} : {ty} := {self.proj('s_', i, n)}; " for i, v in enumerate(state))
            cnd = self.cond(st.test, d, env_b)
            body_lets = self.block(st.body, env_b, d, ty, [])
            tup = "(" + ", ".join(san(v) for v in state) + ")" if n > 1 else san(state[0])
            tmp = self.fresh("wh")
            loop = "TR.whileLoop" if R else "TF.whileLoop 100000"
            # the stop predicate and the iteration map become named definitions over the function's
            # parameters and the locals the loop reads (so that theorems can speak about them)
            used = {nd.id for b in [st.test] + st.body for nd in ast.walk(b) if isinstance(nd, ast.Name)}
            free = [(san(v), "Prop" if R else "Bool") if k == "bool" else (san(v), ty)
                    for v, k in env.items() if k in ("num", "bool") and v in used and v not in state
                    and v not in [p for p, _ in self.pykinds]]
            fsig = list(self.cur_sig) + [f"({v} : {t})" for v, t in free]
            fargs = " ".join(self.cur_sig_names + [v for v, _ in free])
            self._loops += 1
            base = f"{self.cur_name}_loop{self._loops}"
            pre = "noncomputable def" if R else "def"
            # the array reducer of the test is invisible in the pointwise term: it goes into the name
            red = ""
            if isinstance(st.test, ast.Call):
                fname = st.test.func.attr if isinstance(st.test.func, ast.Attribute) else getattr(st.test.func, "id", "")
                if fname in ("any", "all"):
                    red = "_" + fname
            cond_name = f"{base}_cond{red}"
            if undefined:
                defined = [v for v in state if v not in undefined]
                self.aux_late.append(
                    f"/-- obligation: the loop of {self.cur_name} is entered from the start state ({', '.join(defined)} as assigned before the\n"
                    f"loop; {', '.join(undefined)} are unassigned there, so Python raises UnboundLocalError when the loop is skipped) -/\n"
                    f"def {base}_entered {' '.join(fsig)} " + " ".join(f"({san(v)} : {ty})" for v in defined)
                    + f" : {'Prop' if R else 'Bool'} :=\n  {ns_(R)}.{cond_name} {fargs} ({', '.join(init)})\n")
            self.aux.append(f"/-- `while {ast.unparse(st.test)}` of {self.cur_name}: the test, on the state ({', '.join(state)}) -/\n"
                            f"{'def' if R else 'def'} {cond_name} {' '.join(fsig)} (s_ : {T}) : {'Prop' if R else 'Bool'} :=\n"
                            + "".join(f"  let {san(v)} : {ty} := {self.proj('s_', i, n)}\n" for i, v in enumerate(state))
                            + f"  {cnd}\n")
            self.aux.append(f"/-- the body of that loop: one iteration, state -> state -/\n"
                            f"{pre} {base}_body {' '.join(fsig)} (s_ : {T}) : {T} :=\n"
                            + "".join(f"  let {san(v)} : {ty} := {self.proj('s_', i, n)}\n" for i, v in enumerate(state))
                            + "".join(f"  {l}\n" for l in body_lets) + f"  {tup}\n")
            ns = "TR" if R else "TF"
            self.aux += self.aux_late
            self.aux_late = []
            lets.append(f"let {tmp} : {T} := {loop} ({ns}.{cond_name} {fargs}) ({ns}.{base}_body {fargs}) ({', '.join(init)})")
            for i, v in enumerate(state):
                lets.append(f"let {san(v)} : {ty} := {self.proj(tmp, i, n)}")
                env[v] = "num"
                assigned.append(v)
            self.uses_while = True
            self.notes.append(f"while {ast.unparse(st.test)}: state ({', '.join(state)}); the reducer over an array argument "
                              f"({red[1:] or 'none'}) is modelled pointwise and recorded in the name {cond_name}")
            return True
        return False

    @staticmethod
    def assigned_names(stmts):
        out = []
        for st in stmts:
            for nd in ast.walk(st):
                if isinstance(nd, ast.Name) and isinstance(nd.ctx, ast.Store):
                    out.append(nd.id)
        return out

    def table(self, cls, spec, d):
        """class whose __init__ sets `self.<attr> = {<str>: (<number>, …), …}`: one tuple definition per entry.
        returns (lean text, [(entry name, arity)])"""
        R = d == "real"
        ty = "ℝ" if R else "Float"
        attr = spec.get("attr", "_data")
        init = [n for n in cls.body if isinstance(n, ast.FunctionDef) and n.name == "__init__"]
        if len(init) != 1:
            raise Refusal("table class without __init__")
        dicts = [st.value for st in init[0].body if isinstance(st, ast.Assign) and len(st.targets) == 1
                 and ast.unparse(st.targets[0]) == f"self.{attr}" and isinstance(st.value, ast.Dict)]
        if len(dicts) != 1:
            raise Refusal(f"self.{attr} is not assigned one dict literal")
        out, entries = [], []
        for k, v in zip(dicts[0].keys, dicts[0].values):
            if not (isinstance(k, ast.Constant) and isinstance(k.value, str) and k.value.isidentifier()):
                raise Refusal(f"table key {ast.unparse(k)}")
            if not isinstance(v, ast.Tuple):
                raise Refusal(f"table entry {k.value} is not a tuple")
            comps = [self.expr(x, d, {}) for x in v.elts]
            n = len(comps)
            out.append(f"{'noncomputable def' if R else 'def'} {san(cls.name)}_{san(k.value)} : {self.tuple_ty(ty, n)} :=\n"
                       f"  ({', '.join(comps)})\n")
            entries.append((k.value, n))
        if spec.get("entries") is not None and sorted(spec["entries"]) != sorted(e for e, _ in entries):
            raise Refusal(f"table entries changed: {sorted(e for e, _ in entries)}")
        return "\n".join(out), entries

    PRELUDE = {
        "real": ("/-- `while c s: s = f s` — the state at the first exit of the loop (classical choice).  When the loop\n"
                 "never exits the value is the start state; theorems about loops carry the exit hypothesis. -/\n"
                 "noncomputable def whileLoop {σ : Type} (c : σ → Prop) (f : σ → σ) (s : σ) : σ :=\n"
                 "  if h : ∃ n : ℕ, ¬ c (f^[n] s) then f^[Nat.find h] s else s\n\n"),
        "float": ("/-- `while c s: s = f s`, fuel-bounded so that the driver always answers -/\n"
                  "def whileLoop {σ : Type} (fuel : Nat) (c : σ → Bool) (f : σ → σ) (s : σ) : σ :=\n"
                  "  match fuel with\n  | 0 => s\n  | n + 1 => if c s then whileLoop n c f (f s) else s\n\n"),
        # complex variant, float dialect: IEEE-double pairs with the arithmetic of Python `complex` / numpy complex128
        "complex_float": (
            "/-- IEEE-double complex number (Python `complex` / numpy complex128); core Lean only -/\n"
            "structure Cplx where\n  re : Float\n  im : Float\n\n"
            "namespace Cplx\n\n"
            "/-- a real operand of a mixed operation is promoted to (x, +0) first, as Python and numpy do -/\n"
            "def ofReal (x : Float) : Cplx := ⟨x, 0⟩\n\n"
            "instance : Add Cplx := ⟨fun a b => ⟨a.re + b.re, a.im + b.im⟩⟩\n"
            "instance : Sub Cplx := ⟨fun a b => ⟨a.re - b.re, a.im - b.im⟩⟩\n"
            "instance : Neg Cplx := ⟨fun a => ⟨-a.re, -a.im⟩⟩\n"
            "/-- textbook product (CPython `_Py_c_prod`, numpy `nc_prod` / complex128 multiply loop) -/\n"
            "instance : Mul Cplx := ⟨fun a b => ⟨a.re * b.re - a.im * b.im, a.re * b.im + a.im * b.re⟩⟩\n\n"
            "/-- Smith's algorithm in the form of CPython's `_Py_c_quot` (divide by `denom`).  numpy's complex128\n"
            "divide loop is the same algorithm but multiplies by the reciprocal `1/denom`: the two differ by a few\n"
            "ulp, far below the relative 1e-9 of the cross-run.  A zero divisor gives NaN components here (CPython\n"
            "raises ZeroDivisionError, numpy returns nan/inf). -/\n"
            "def div (a b : Cplx) : Cplx :=\n"
            "  if Float.abs b.re >= Float.abs b.im then\n"
            "    let ratio := b.im / b.re\n"
            "    let denom := b.re + b.im * ratio\n"
            "    ⟨(a.re + a.im * ratio) / denom, (a.im - a.re * ratio) / denom⟩\n"
            "  else\n"
            "    let ratio := b.re / b.im\n"
            "    let denom := b.re * ratio + b.im\n"
            "    ⟨(a.re * ratio + a.im) / denom, (a.im * ratio - a.re) / denom⟩\n\n"
            "instance : Div Cplx := ⟨div⟩\n\n"
            "end Cplx\n\n"),
    }

    # -------------------------------------------------------------- functions
    def function(self, fn, spec, d):
        """returns (lean text, notes)"""
        R = d == "real"
        ty = "ℝ" if R else "Float"
        ns = "TR" if R else "TF"
        if fn.decorator_list:
            raise Refusal("decorated function: " + ", ".join(ast.unparse(x) for x in fn.decorator_list))
        fun_params = spec.get("fun_params", {})
        params = [a.arg for a in fn.args.args]
        defaults = fn.args.defaults
        ndef = len(defaults)
        default_of = {}
        for a, dflt in zip(params[len(params) - ndef:], defaults):
            default_of[a] = dflt
        env = {}
        sig = []
        tuple_params = spec.get("tuple_params", {})
        none_params = set(spec.get("none_params", ()))
        self.presence = {p: "absent" for p in none_params}
        self.presence.update({p: "given" for p in spec.get("given_params", ())})
        self.presence.update({p: "given" for p in tuple_params})
        self.pykinds = []
        self._tmp = 0
        cparams = list(spec.get("complex_params", ()))
        if cparams and not spec.get("variant"):
            raise Refusal("complex_params without a variant name")
        for p in cparams:
            if p not in params or p in fun_params or p in tuple_params or p in none_params:
                raise Refusal(f"complex parameter {p} is not a plain positional parameter")
        self.cmode = bool(cparams)
        self.cparams = tuple(cparams)
        self.ckinds = {p: ("c" if p in cparams else "r") for p in params}
        self.cret = "r"
        for p in params:
            if p in cparams:
                env[p] = "cparam"
                sig += [f"({san(p)}re : {ty})", f"({san(p)}im : {ty})"]
            elif p in fun_params:
                env[p] = "fun"
                sig.append(f"({san(p)} : {ty} → {ty})")
            elif p in tuple_params:
                env[p] = f"tparam:{tuple_params[p]}"
                sig += [f"({san(p)}_{i} : {ty})" for i in range(tuple_params[p])]
            elif p in none_params:
                if p not in default_of or not (isinstance(default_of[p], ast.Constant) and default_of[p].value is None):
                    raise Refusal(f"parameter {p} is modelled as absent but its default is not None")
                env[p] = "none"
            else:
                env[p] = "num"
                sig.append(f"({san(p)} : {ty})")
            self.pykinds.append((p, env[p]))
        if fn.args.kwarg is not None:
            if not spec.get("kwargs_empty"):
                raise Refusal(f"**{fn.args.kwarg.arg}")
            env[fn.args.kwarg.arg] = "kwargs"
        if fn.args.vararg is not None or fn.args.kwonlyargs:
            if tuple_params or none_params or spec.get("kwargs_empty"):
                raise Refusal("*args / keyword-only parameters")
        self.cur_sig = list(sig)
        self.cur_sig_names = [x.split(" : ")[0].lstrip("(") for x in sig]
        self.cur_name = san(fn.name)
        self.py_name = getattr(fn, "_py_name", fn.name)     # the Python name (a second reading may carry another Lean name)
        self.aux, self._loops = [], 0
        self.aux_late = []
        self.spec = spec
        lets, guards, notes = [], [], []
        guard_all = []
        body = list(fn.body)
        if body and isinstance(body[0], ast.Expr) and isinstance(body[0].value, ast.Constant):
            body = body[1:]
        glue = set(spec.get("glue", ()))
        ret = None
        rettuple = 0

        self.static_names = {}
        self.sflags = {}
        self.talias = {}
        store_count = {}
        for nd in ast.walk(fn):
            if isinstance(nd, ast.Name) and isinstance(nd.ctx, (ast.Store, ast.Del)):
                store_count[nd.id] = store_count.get(nd.id, 0) + 1
        num_params = [p for p, k in self.pykinds if k == "num"]

        def flatten(stmts):
            out = []
            for st in stmts:
                if ast.unparse(st) in glue:
                    # declared glue is skipped verbatim by the main loop; what it binds is still learnt, so that a
                    # REWRITTEN neighbour statement that mentions the flag / shape can be understood by inference
                    if isinstance(st, ast.Assign) and len(st.targets) == 1 and isinstance(st.targets[0], ast.Name) \
                            and store_count.get(st.targets[0].id) == 1 and self.scalar_test(st.value) is not None:
                        self.sflags[st.targets[0].id] = self.scalar_test(st.value)
                    out.append(st)
                    continue
                # flag = <test decided by the model>   (e.g. `hints = za0 is not None and …`, `real = np.all(np.isreal(n1))`);
                # the flag must be assigned exactly once in the function
                if (isinstance(st, ast.Assign) and len(st.targets) == 1 and isinstance(st.targets[0], ast.Name)
                        and not isinstance(st.value, (ast.Name, ast.Constant))
                        and store_count.get(st.targets[0].id) == 1 and st.targets[0].id not in [p for p, _ in self.pykinds]
                        and self.static(st.value) is not None):
                    self.static_names[st.targets[0].id] = self.static(st.value)
                    notes.append(f"flag decided by the model: {st.targets[0].id} = {self.static_names[st.targets[0].id]} ({ast.unparse(st.value)})")
                    continue
                # flag = <is the ARGUMENT a scalar?>   (scalar-versus-array glue)
                if (isinstance(st, ast.Assign) and len(st.targets) == 1 and isinstance(st.targets[0], ast.Name)
                        and store_count.get(st.targets[0].id) == 1 and self.scalar_test(st.value) is not None):
                    self.sflags[st.targets[0].id] = self.scalar_test(st.value)
                    notes.append(f"scalar/array flag: {st.targets[0].id} = {ast.unparse(st.value)}")
                    continue
                stest, sneg = (st.test, False) if isinstance(st, ast.If) else (None, False)
                if isinstance(stest, ast.UnaryOp) and isinstance(stest.op, ast.Not):
                    stest, sneg = stest.operand, True
                if isinstance(st, ast.If) and self.scalar_test(stest) is not None:
                    p = self.scalar_test(stest)
                    scalar_br, array_br = (st.orelse, st.body) if sneg else (st.body, st.orelse)
                    how = self.scalar_branch_is_glue(scalar_br, array_br, p, self.py_name, [q for q, _ in self.pykinds])
                    if how is None:
                        raise Refusal(f"`if {ast.unparse(st.test)}`: the scalar branch is neither a 1-element wrap of {p}, nor the "
                                      f"delegation {self.py_name}(np.asarray([{p}]))[0], nor the array branch on the wrapped argument")
                    notes.append(f"scalar/array glue ({how}): `if {ast.unparse(st.test)}` — the scalar path is the array path on the "
                                 f"1-element array; pointwise the same function")
                    out += flatten(array_br)
                    continue
                # try: <shape glue> except …: raise …      — the model describes the path on which nothing is raised
                if isinstance(st, ast.Try) and not st.finalbody and not st.orelse and st.handlers \
                        and all(h.body and isinstance(h.body[-1], ast.Raise) for h in st.handlers) \
                        and all(self.is_identity_glue_stmt(b) for b in st.body):
                    notes.append("try/except around shape glue; every handler raises (shape-error path, not modelled): "
                                 + "; ".join(ast.unparse(b) for b in st.body))
                    out += flatten(st.body)
                    continue
                if isinstance(st, ast.If):
                    sv = self.static(st.test)
                    how = f"variant {spec.get('variant')}: {', '.join(cparams)} complex, the other values real" if self.cmode \
                        else "real-valued model"
                    if sv is True:
                        notes.append(f"branch taken ({how}): {ast.unparse(st.test)}")
                        out += flatten(st.body)
                        continue
                    if sv is False:
                        notes.append(f"branch not taken ({how}): {ast.unparse(st.test)}")
                        out += flatten(st.orelse)
                        continue
                if self.cmode:
                    self.note_kinds(st)
                out.append(st)
            return out
        body = normalize.collapse_ret(flatten(body))
        guard_nlets, prev_n = [], 0
        for st in body:
            while len(guard_nlets) < len(guards):
                guard_nlets.append(prev_n)
            prev_n = len(lets)
            text = ast.unparse(st)
            first = text.splitlines()[0]
            if text in glue:           # the WHOLE statement must be the declared glue
                notes.append(f"glue skipped: {first}")
                self.shape_stmt(st, env)        # what it binds is learnt when it is recognisably a shape
                continue
            # (a statement that only resembles declared glue gets no special treatment: it is translated by the
            #  ordinary rules below — inference — or refused)
            if ret is not None:
                raise Refusal(f"statement after return: {first}")
            if self.shape_stmt(st, env):
                notes.append(f"shape glue (inferred): {first}")
                continue
            # x = <tuple parameter>: another name of the parameter
            if isinstance(st, ast.Assign) and len(st.targets) == 1 and isinstance(st.targets[0], ast.Name) \
                    and isinstance(st.value, ast.Name) and str(env.get(st.value.id, "")).startswith("tparam:"):
                self.talias[st.targets[0].id] = self.tname(st.value.id)
                env[st.targets[0].id] = env[st.value.id]
                notes.append(f"alias of tuple parameter: {first}")
                continue
            ctx = {"guards": guards, "ret": None, "rettuple": 0, "top": True, "ty": ty}
            if self.stmt_ext(st, lets, env, d, ctx, pre=True):
                if ctx["ret"] is not None:
                    ret, rettuple = ctx["ret"], ctx["rettuple"]
                continue
            # if fp is None: fp = default          (function-valued parameter with a documented default)
            # general form (also what an expanded default-substitution helper leaves behind):
            #     if fp is None: v = default  else: v = fp        |  if fp is not None: v = fp  else: v = default
            # the absent path must bind exactly the declared default, the given path exactly the parameter; v is then
            # another name of the parameter (the `_d` instance substitutes the default)
            if (isinstance(st, ast.If) and isinstance(st.test, ast.Compare) and isinstance(st.test.left, ast.Name)
                    and self.tname(st.test.left.id) in fun_params and env.get(st.test.left.id) == "fun"
                    and len(st.test.ops) == 1 and isinstance(st.test.ops[0], (ast.Is, ast.IsNot))
                    and isinstance(st.test.comparators[0], ast.Constant) and st.test.comparators[0].value is None):
                fp = self.tname(st.test.left.id)
                absent, given = (st.body, st.orelse) if isinstance(st.test.ops[0], ast.Is) else (st.orelse, st.body)

                def one_assign(branch, want):
                    return (len(branch) == 1 and isinstance(branch[0], ast.Assign) and len(branch[0].targets) == 1
                            and isinstance(branch[0].targets[0], ast.Name) and isinstance(branch[0].value, ast.Name)
                            and self.tname(branch[0].value.id) == want) and branch[0].targets[0].id
                tgt = one_assign(absent, fun_params[fp])
                if not tgt or fun_params[fp] in env:
                    raise Refusal(f"default of function parameter changed: {first}")
                if given:
                    if one_assign(given, fp) != tgt:
                        raise Refusal(f"function parameter {fp}: the path on which it is given does not pass it on unchanged: {first}")
                elif tgt != st.test.left.id:
                    raise Refusal(f"function parameter {fp}: {tgt} is unbound when the parameter is given: {first}")
                if tgt in env and env[tgt] != "fun":
                    raise Refusal(f"function parameter {fp}: {tgt} is already bound: {first}")
                env[tgt] = "fun"
                if tgt != fp:
                    self.talias[tgt] = fp
                notes.append(f"default {fp} := {fun_params[fp]}" + (f" (as {tgt})" if tgt != fp else ""))
                continue
            # x = <function parameter>: another name of the parameter
            if isinstance(st, ast.Assign) and len(st.targets) == 1 and isinstance(st.targets[0], ast.Name) \
                    and isinstance(st.value, ast.Name) and env.get(st.value.id) == "fun" \
                    and env.get(st.targets[0].id, "fun") == "fun":
                if self.tname(st.value.id) != st.targets[0].id:
                    self.talias[st.targets[0].id] = self.tname(st.value.id)
                else:
                    self.talias.pop(st.targets[0].id, None)
                env[st.targets[0].id] = "fun"
                notes.append(f"alias of function parameter: {first}")
                continue
            # guard: if np.any(cmp): raise
            if isinstance(st, ast.If) and len(st.body) == 1 and isinstance(st.body[0], ast.Raise) and not st.orelse:
                guards.append(self.cond(st.test, d, env))
                # pointwise reading: `np.any(c)` = "some element is rejected".  A guard written with
                # `all` rejects only when EVERY element is bad - a different array semantics that
                # the pointwise term cannot show, so it is made visible in the name of the guard.
                for nd in ast.walk(st.test):
                    if isinstance(nd, ast.Call):
                        fname = nd.func.attr if isinstance(nd.func, ast.Attribute) else getattr(nd.func, "id", "")
                        if fname == "all":
                            guard_all.append(first)
                continue
            if isinstance(st, ast.Assign) and len(st.targets) == 1:
                tgt = st.targets[0]
                if isinstance(tgt, ast.Name):
                    v = st.value
                    if isinstance(v, (ast.Compare, ast.BoolOp)):
                        c = self.cond(v, d, env)
                        env[tgt.id] = "bool"
                        lets.append(f"let {san(tgt.id)} : {'Prop' if R else 'Bool'} := {c}")
                    elif self.cmode and self.is_c(v):
                        lets.append(f"let {san(tgt.id)} : {self.cty(d)} := {self.cexpr(v, d, env)}")
                        env[tgt.id] = "cnum"
                    else:
                        lets.append(f"let {san(tgt.id)} : {ty} := {self.expr(v, d, env)}")
                        env[tgt.id] = "num"
                    continue
                # mask assignment  e[m] = v[m]
                if (isinstance(tgt, ast.Subscript) and isinstance(tgt.value, ast.Name) and isinstance(tgt.slice, ast.Name)
                        and env.get(tgt.slice.id) == "bool" and isinstance(st.value, ast.Subscript)
                        and isinstance(st.value.slice, ast.Name) and st.value.slice.id == tgt.slice.id
                        and isinstance(st.value.value, ast.Name)):
                    e_, m_, v_ = tgt.value.id, tgt.slice.id, st.value.value.id
                    if env.get(e_) != "num" or env.get(v_) != "num":
                        raise Refusal(f"mask assignment on unknown arrays: {first}")
                    lets.append(f"let {san(e_)} : {ty} := if {san(m_)} then {san(v_)} else {san(e_)}")
                    continue
                if self.stmt_ext(st, lets, env, d, ctx, pre=False):
                    continue
                raise Refusal(f"assignment target: {first}")
            if isinstance(st, ast.Return) and st.value is not None:
                v = st.value
                # reduction over the sample axis: emitted as the pointwise term; the mean over a
                # list is defined once by hand (Proofs/Lemmas) and applied to this term
                if (isinstance(v, ast.Call) and isinstance(v.func, ast.Attribute) and isinstance(v.func.value, ast.Name)
                        and v.func.value.id == "np" and v.func.attr in ("mean", "nanmean") and len(v.args) == 1
                        and spec.get("reduction") == v.func.attr):
                    kw = {k.arg: ast.unparse(k.value) for k in v.keywords}
                    want = spec.get("reduction_kwargs", {})
                    if kw != want:
                        raise Refusal(f"reduction np.{v.func.attr} called with keywords {kw}, declared {want}")
                    notes.append(f"reduction np.{v.func.attr} over the samples: pointwise term emitted")
                    v = v.args[0]
                if isinstance(v, ast.Tuple):
                    rettuple = len(v.elts)
                    ret = "(" + ", ".join(self.expr(x, d, env) for x in v.elts) + ")"
                    if self.cmode:
                        self.cret = ["c" if self.is_c(x) else "r" for x in v.elts]
                else:
                    ret = self.expr(v, d, env)
                    if self.cmode:
                        self.cret = "c" if self.is_c(v) else "r"
                continue
            if self.stmt_ext(st, lets, env, d, ctx, pre=False):
                continue
            raise Refusal(f"statement {type(st).__name__}: {first}")
        if ret is None:
            raise Refusal("no return")
        rty = ty if not rettuple else " × ".join([ty] * rettuple)
        if self.cmode and isinstance(self.cret, list):
            rty = " × ".join(self.cty(d) if k == "c" else ty for k in self.cret)
        elif self.cmode and self.cret == "c":
            rty = self.cty(d)
        if self.cmode:
            notes.append(f"variant {spec['variant']}: parameter(s) {', '.join(cparams)} complex (pairs <p>re <p>im); np.isreal(<p>) is decided "
                         f"False, i.e. the variant models Im <p> ≠ 0 (numpy takes the all-real branch when the imaginary part is exactly 0)")
        name = san(fn.name)
        out = []
        pre = "noncomputable def" if R else "def"
        bodytxt = "".join(f"  {l}\n" for l in lets) + f"  {ret}\n"
        out.append(f"{pre} {name} {' '.join(sig)} : {rty} :=\n{bodytxt}")
        if fun_params:
            # instance with the documented defaults substituted
            sig_d = [s for p, s in zip(params, sig) if p not in fun_params]
            call = " ".join((f"{ns}.{san(fun_params[p])}" if p in fun_params else san(p)) for p in params)
            out.append(f"{pre} {name}_d {' '.join(sig_d)} : {rty} :=\n  {name} {call}\n")
        if guard_all:
            name_rej = f"{name}_rejects_all"
            notes.append("guard uses all(): " + "; ".join(guard_all))
        else:
            name_rej = f"{name}_rejects"
        if guard_all:
            name_rej = f"{name}_rejects_all"
            notes.append("guard uses all(): " + "; ".join(guard_all))
        else:
            name_rej = f"{name}_rejects"
        while len(guard_nlets) < len(guards):
            guard_nlets.append(prev_n)
        if guards and (tuple_params or none_params or any(guard_nlets) or self.cmode):
            # guards that mention locals / tuple parameters: full signature, the lets in force at the guard
            gs = [g if not n else "(" + "".join(l + "; " for l in lets[:n]) + g + ")" for g, n in zip(guards, guard_nlets)]
            if R:
                out.append(f"/-- the inputs the Python function rejects (raises) -/\ndef {name_rej} {' '.join(sig)} : Prop :=\n  " + " ∨ ".join(gs) + "\n")
            else:
                out.append(f"def {name_rej} {' '.join(sig)} : Bool :=\n  " + " || ".join(gs) + "\n")
        elif guards:
            gsig = [s for p, s in zip(params, sig) if env[p] == "num"]
            if R:
                out.append(f"/-- the inputs the Python function rejects (raises) -/\ndef {name_rej} {' '.join(gsig)} : Prop :=\n  " + " ∨ ".join(guards) + "\n")
            else:
                out.append(f"def {name_rej} {' '.join(gsig)} : Bool :=\n  " + " || ".join(guards) + "\n")
        return "\n".join(self.aux + out), notes + self.notes


def ns_(real):
    return "TR" if real else "TF"


LEAN_KEYWORDS = {"at", "from", "in", "fun", "end", "then", "else", "if", "do", "let", "have", "show", "with", "open", "λ", "Type", "by"}


def san(name):
    name = name.replace("__", "_")
    if name in LEAN_KEYWORDS:
        return name + "_"
    return name
