"""Cases for the pointwise (scalar) translator py2lean.py + normalize.py.
Every accepted re-spelling is paired with at least one nearby BREAKING variant (mutant)."""
import run
from run import case, same, contains, refused, differs, tr, check

# ---------------------------------------------------------------------------------------------- 1. numpy spellings
PLANCKISH = '''
def f(x, y):
    c = constants.speed_of_light
    return 2 * x**2 / (c * y) - x
'''


@case
def numpy_arithmetic_aliases():
    same("np.square/multiply/divide/subtract", PLANCKISH, '''
def f(x, y):
    c = constants.speed_of_light
    return np.subtract(np.divide(np.multiply(2, np.square(x)), np.multiply(c, y)), x)
''', [{"name": "f"}])
    same("np.power literal / np.negative / np.add", '''
def f(x, y):
    return -x**3 + y**(-2)
''', '''
def f(x, y):
    return np.add(np.negative(np.power(x, 3)), np.power(y, -2))
''', [{"name": "f"}])
    # mutants
    differs("np.square -> np.sqrt", PLANCKISH, PLANCKISH.replace("x**2", "np.sqrt(x)"), [{"name": "f"}], "f")
    contains("np.square -> np.sqrt", PLANCKISH.replace("x**2", "np.sqrt(x)"), [{"name": "f"}], "f", yes=["Real.sqrt x"], no=["x ^ 2"])
    differs("np.subtract operands swapped", "def f(x, y):\n    return np.subtract(x, y)\n", "def f(x, y):\n    return np.subtract(y, x)\n",
            [{"name": "f"}], "f")
    refused("np.power with a non-literal exponent", "def f(x, y):\n    return np.power(x, y)\n", [{"name": "f"}], "f", "np.power")
    refused("np.divide with out=", "def f(x, y):\n    return np.divide(x, y, out=x)\n", [{"name": "f"}], "f", "keyword")


@case
def numpy_abs_and_comparisons():
    base = "def f(a, b, t):\n    return np.where(a < b, t * np.abs(a - b), (1.0 - t) * np.abs(a - b))\n"
    same("abs / np.absolute / np.less / np.subtract", base,
         "def f(a, b, t):\n    return np.where(np.less(a, b), t * abs(a - b), np.subtract(1.0, t) * np.absolute(a - b))\n",
         [{"name": "f"}])
    same("np.greater commuted", base,
         "def f(a, b, t):\n    return np.where(np.greater(b, a), t * abs(a - b), (1.0 - t) * abs(a - b))\n".replace("np.greater(b, a)", "a < b"),
         [{"name": "f"}])
    contains("np.less -> np.less_equal (mutant)", base.replace("a < b", "np.less_equal(a, b)"), [{"name": "f"}], "f", yes=["a ≤ b"], no=["a < b"])
    contains("np.greater_equal", "def f(a, b):\n    return np.where(np.greater_equal(a, b), a, b)\n", [{"name": "f"}], "f", yes=["a ≥ b"])
    contains("np.equal / np.not_equal", "def f(a, b):\n    return np.where(np.equal(a, b), a, np.where(np.not_equal(a, 0), b, a))\n",
             [{"name": "f"}], "f", yes=["(a = b)", "(a ≠ (0 : ℝ))"])


@case
def numpy_angles_and_identity_wrappers():
    base = "def f(x):\n    return np.rad2deg(np.arcsin(np.sin(np.deg2rad(x))))\n"
    same("np.radians / np.degrees", base, "def f(x):\n    return np.degrees(np.arcsin(np.sin(np.radians(x))))\n", [{"name": "f"}])
    differs("np.radians -> np.degrees (mutant)", base, base.replace("np.deg2rad", "np.degrees"), [{"name": "f"}], "f")
    same("np.array / np.asarray / np.atleast_1d of a value", "def f(x, y):\n    return x * y\n",
         "def f(x, y):\n    return np.asarray(x) * np.array(np.atleast_1d(y))\n", [{"name": "f"}])
    contains("rebinding through identity wrappers", "def f(x, y):\n    x = np.asarray(x)\n    y = np.array(np.atleast_1d(y))\n    return x * y\n",
             [{"name": "f"}], "f", yes=["let x : ℝ := x", "let y : ℝ := y", "(x * y)"])
    refused("np.array with two elements is not an identity wrapper", "def f(x, y):\n    return np.array([x, y])\n", [{"name": "f"}], "f", "List|expression")


@case
def reductions_axis_spellings():
    q = "def q(a, b, t):\n    return np.where(a < b, t * np.abs(a - b), (1.0 - t) * np.abs(a - b))\n\n\n"
    spec = [{"name": "q"}, {"name": "m", "reduction": "nanmean", "reduction_kwargs": {"axis": "0"}}]
    base = q + "def m(a, b, t):\n    return np.nanmean(q(a, b, t), axis=0)\n"
    same("positional axis", base, q + "def m(a, b, t):\n    return np.nanmean(q(a, b, t), 0)\n", spec)
    contains("result bound to a local first", q + "def m(a, b, t):\n    s = q(a, b, t)\n    return np.nanmean(s, 0)\n", spec, "m",
             yes=["let s : ℝ := (TR.q a b t)\n  s"])
    refused("changed axis (mutant)", q + "def m(a, b, t):\n    return np.nanmean(q(a, b, t), axis=1)\n", spec, "m", "reduction")
    refused("changed axis, positional (mutant)", q + "def m(a, b, t):\n    return np.nanmean(q(a, b, t), 1)\n", spec, "m", "reduction")
    refused("dropped axis (mutant)", q + "def m(a, b, t):\n    return np.nanmean(q(a, b, t))\n", spec, "m", "reduction")
    refused("other reducer (mutant)", q + "def m(a, b, t):\n    return np.nanmedian(q(a, b, t), axis=0)\n", spec, "m", "nanmedian|numpy function")
    spec2 = [{"name": "b", "reduction": "mean"}]
    b0 = "def b(p, t):\n    return np.mean(100.0 * (p - t) / t)\n"
    same("axis=None is no axis", b0, "def b(p, t):\n    return np.mean(100.0 * (p - t) / t, axis=None)\n", spec2)
    refused("axis=0 where none is declared (mutant)", "def b(p, t):\n    return np.mean(100.0 * (p - t) / t, axis=0)\n", spec2, "b", "reduction")


# ---------------------------------------------------------------------------------------------- 2. shape glue by inference
PERF = '''
def g(perhz, f_grid):
    c = constants.speed_of_light
    ndim = len(perhz.shape) - 1
    shape = (perhz.shape[0], ) + ndim * (1, )
    perm = perhz * f_grid.reshape(shape)**2 / c
    return perm
'''
PERF_GLUE = ["ndim = len(perhz.shape) - 1", "shape = (perhz.shape[0],) + ndim * (1,)"]


@case
def shape_locals_inferred():
    # the declared (verbatim) glue and the inference give the same model
    same("verbatim glue == inference", PERF, PERF, [{"name": "g", "glue": PERF_GLUE}], specs_b=[{"name": "g"}])
    same("renamed / restructured shape locals", PERF, '''
def g(perhz, f_grid):
    c = constants.speed_of_light
    n_trailing = perhz.ndim - 1
    column_shape = (np.shape(perhz)[0], ) + n_trailing * (1, )
    f_squared = f_grid.reshape(column_shape)**2
    perm = perhz * f_squared / c
    return perm
'''.replace("    f_squared = f_grid.reshape(column_shape)**2\n    perm = perhz * f_squared / c", "    perm = perhz * f_grid.reshape(column_shape)**2 / c"),
         [{"name": "g", "glue": PERF_GLUE}])
    same("shape built by a loop", PERF, '''
def g(perhz, f_grid):
    c = constants.speed_of_light
    shape = [perhz.shape[0]]
    for _ in range(len(perhz.shape) - 1):
        shape.append(1)
    perm = perhz * f_grid.reshape(tuple(shape))**2 / c
    return perm
''', [{"name": "g"}])
    rep = contains("np.size / .size / len", '''
def g(y_tau, y_test, taus):
    m = np.size(taus)
    y_tau = y_tau.reshape(-1, m)
    n = len(y_tau)
    k = taus.size * y_tau.shape[0]
    y_test = np.reshape(y_test, (n, 1))
    return taus * (y_tau - y_test)
''', [{"name": "g"}], "g", yes=["(taus * (y_tau - y_test))"])
    check(any("shape glue (inferred): m = np.size(taus)" in n for n in rep["notes"]["Snippet.g"]), "inferred shape glue is reported")
    # mutants: the shape flows into a number / a number flows into a shape / the formula changes
    refused("shape-typed local used as a value (mutant)", PERF.replace("/ c", "/ c * ndim"), [{"name": "g"}], "g", "shape-typed local ndim")
    refused("number used as a shape (mutant)", PERF.replace("reshape(shape)", "reshape(c)"), [{"name": "g"}], "g", "reshape argument")
    refused("loop appends a non-shape (mutant)", '''
def g(perhz, f_grid):
    shape = [perhz.shape[0]]
    for _ in range(len(perhz.shape) - 1):
        shape.append(perhz)
    return perhz * f_grid.reshape(tuple(shape))
''', [{"name": "g"}], "g", "For|statement")
    differs("exponent changed (mutant)", PERF, PERF.replace("**2", "**3"), [{"name": "g"}], "g")
    # an EDITED declared-glue statement gets no special treatment: ordinary rules or refusal
    refused("edited glue statement (mutant)", PERF.replace("ndim = len(perhz.shape) - 1", "ndim = len(perhz.shape) - perhz"),
            [{"name": "g", "glue": PERF_GLUE}], "g", "unknown function len|unknown name ndim")


QS = '''
def qs(y_tau, y_test, taus):
    taus = np.asarray(taus)
    m = taus.size
    y_tau = y_tau.reshape(-1, m)
    n = y_tau.shape[0]
    try:
        y_test = y_test.reshape(n, 1)
    except:
        raise ValueError("Shape of y_test is incompatible with y_tau and taus.")
    abs_1 = taus * np.abs(y_tau - y_test)
    abs_2 = (1.0 - taus) * np.abs(y_tau - y_test)
    return np.where(y_tau < y_test, abs_1, abs_2)
'''


@case
def try_except_around_shape_glue():
    contains("try/except/raise around reshape", QS, [{"name": "qs"}], "qs", yes=["if (y_tau < y_test) then abs_1 else abs_2"])
    contains("try/except/else", QS.replace('''    try:
        y_test = y_test.reshape(n, 1)
    except:
        raise ValueError("Shape of y_test is incompatible with y_tau and taus.")
''', '''    try:
        col = y_test.reshape(n, 1)
    except BaseException:
        raise ValueError("Shape of y_test is incompatible with y_tau and taus.")
    else:
        y_test = col
'''), [{"name": "qs"}], "qs", yes=["let col : ℝ := y_test", "let y_test : ℝ := col", "if (y_tau < y_test) then abs_1 else abs_2"])
    refused("handler swallows the error (mutant)", QS.replace('        raise ValueError("Shape of y_test is incompatible with y_tau and taus.")', "        pass"),
            [{"name": "qs"}], "qs", "Try")
    refused("arithmetic inside try (mutant)", QS.replace("y_test = y_test.reshape(n, 1)", "y_test = y_test.reshape(n, 1) * 2"),
            [{"name": "qs"}], "qs", "Try")
    refused("finally (mutant)", QS.replace("    abs_1 =", "    finally:\n        taus = taus * 2\n    abs_1 ="), [{"name": "qs"}], "qs", "Try")


# ---------------------------------------------------------------------------------------------- 3. static flags
SN = '''
def sn(n1, n2, th):
    if np.any(np.real(n1) <= 0):
        raise Exception('bad')
    if np.all(np.isreal(n1)) and np.all(np.isreal(n2)):
        t2 = np.arcsin(np.real(n1) * np.sin(np.deg2rad(th)) / np.real(n2))
    elif np.all(np.isreal(n1)):
        t2 = np.arcsin(np.sin(np.deg2rad(th)) / np.real(n2) + np.imag(n2))
    else:
        raise Exception('No expression implemented for imaginary *n1*.')
    return np.rad2deg(t2)
'''
SN_FLAG = SN.replace("    if np.all(np.isreal(n1)) and", "    n1_is_real = np.all(np.isreal(n1))\n    if n1_is_real and").replace(
    "    elif np.all(np.isreal(n1)):", "    elif n1_is_real:")
SPEC_SN = [{"name": "sn"}, {"name": "sn", "variant": "c", "complex_params": ["n2"]}]


@case
def static_flag_through_local():
    same("flag = np.all(np.isreal(n1))", SN, SN_FLAG, SPEC_SN)
    # mutant: flag negated -> the other branch / refusal, in both the real and the complex reading
    neg = SN_FLAG.replace("n1_is_real = np.all(np.isreal(n1))", "n1_is_real = not np.all(np.isreal(n1))")
    refused("flag negated (mutant, real reading)", neg, SPEC_SN, "sn", "no return|Raise|raise")
    differs("flag negated (mutant, complex reading)", SN_FLAG, neg, SPEC_SN, "sn_c")
    # a flag assigned twice is not static
    refused("flag assigned twice (mutant)", SN_FLAG.replace("    if n1_is_real and", "    n1_is_real = n1 > 0\n    if n1_is_real and"), SPEC_SN, "sn", "")
    # the flag may not be used as a number
    refused("flag used as a number (mutant)", SN_FLAG.replace("return np.rad2deg(t2)", "return np.rad2deg(t2) * n1_is_real"), SPEC_SN, "sn",
            "unknown name n1_is_real")


# ---------------------------------------------------------------------------------------------- 4. early returns / guards
ELL = '''
def inrange(x, lo, hi, exclude='none', text=None):
    pass


def r(ellipsoid, lat):
    inrange(ellipsoid[1], 0, 1, exclude='upper')
    if ellipsoid[1] == 0:
        ret_ = np.ones(np.shape(lat)) * ellipsoid[0]
    else:
        c = 1 - ellipsoid[1]**2
        b = ellipsoid[0] * np.sqrt(c)
        ret_ = b / np.sqrt(c * np.cos(lat)**2 + np.sin(lat)**2)
    return ret_
'''
ELL_EARLY = '''
def inrange(x, lo, hi, exclude='none', text=None):
    pass


def r(ellipsoid, lat):
    inrange(ellipsoid[1], 0, 1, exclude='upper')
    if ellipsoid[1] == 0:
        # spherical case
        return np.ones(np.shape(lat)) * ellipsoid[0]

    c = 1 - ellipsoid[1]**2
    b = ellipsoid[0] * np.sqrt(c)

    return b / np.sqrt(c * np.cos(lat)**2 + np.sin(lat)**2)
'''
SPEC_ELL = [{"name": "r", "tuple_params": {"ellipsoid": 2}}]


@case
def early_return_becomes_if_else():
    same("early return == if/else with result variable", ELL, ELL_EARLY, SPEC_ELL)
    contains("the rejects definition survives", ELL_EARLY, SPEC_ELL, "r", yes=["def r_rejects", "(ellipsoid_1 ≥ (1 : ℝ))"])
    swapped = ELL_EARLY.replace("if ellipsoid[1] == 0:", "if ellipsoid[1] != 0:")
    differs("test inverted (mutant)", ELL_EARLY, swapped, SPEC_ELL, "r")
    contains("test inverted (mutant)", swapped, SPEC_ELL, "r", yes=["if (ellipsoid_1 ≠ (0 : ℝ)) then (let ret_ : ℝ := ((1 : ℝ) * ellipsoid_0)"])
    refused("return inside a loop", "def f(x):\n    for i in range(3):\n        return x\n    return x\n", [{"name": "f"}], "f", "return inside a loop")
    refused("a path without return", "def f(x):\n    if x > 0:\n        return x\n", [{"name": "f"}], "f", "without `return`")
    refused("a guard after an early return ends up inside a branch", '''
def f(x):
    if x > 1:
        return x
    if np.any(x <= 0):
        raise ValueError('bad')
    return -x
''', [{"name": "f"}], "f", "nested statement|Raise|guard")


GCD = '''
def d(lat1, lat2, r=None):
    c = 2 * np.arcsin(np.sqrt(lat1 * lat2))
    if r is None:
        return np.rad2deg(c)
    else:
        return r * c
'''
GCD_EARLY = '''
def d(lat1, lat2, r=None):
    c = 2 * np.arcsin(np.sqrt(lat1 * lat2))
    if r is not None:
        return r * c

    return np.rad2deg(c)
'''
SPEC_GCD = [{"name": "d", "none_params": ["r"]}, {"name": "d", "as": "d_r", "given_params": ["r"]}]


@case
def early_return_decided_by_the_model():
    same("guard clause on an optional parameter", GCD, GCD_EARLY, SPEC_GCD)
    differs("branches swapped (mutant)", GCD_EARLY, GCD_EARLY.replace("is not None", "is None"), SPEC_GCD, "d")
    differs("branches swapped (mutant, r given)", GCD_EARLY, GCD_EARLY.replace("is not None", "is None"), SPEC_GCD, "d_r")


HINTS = '''
def h(x, y, lat0=None, lon0=None):
    r = np.sqrt(x**2 + y**2)
    if np.any(r == 0):
        raise Exception("r = 0")
    lat = np.rad2deg(np.arcsin(y / r))
    if all(v is not None for v in [lat0, lon0]):
        for i in range(np.size(r)):
            lat[i] = lat0[i]
    return r, lat
'''
HINTS_EARLY = '''
def h(x, y, lat0=None, lon0=None):
    r = np.sqrt(x**2 + y**2)
    if np.any(r == 0):
        raise Exception("r = 0")
    lat = np.rad2deg(np.arcsin(y / r))
    if any(hint is None for hint in (lat0, lon0)):
        return r, lat

    for i in range(np.size(r)):
        lat[i] = lat0[i]

    return r, lat
'''


@case
def any_is_none_over_optional_hints():
    spec = [{"name": "h", "none_params": ["lat0", "lon0"]}]
    same("any(v is None for v in (…)) with early return", HINTS, HINTS_EARLY, spec)
    # with one hint given and one absent: any(...) is True, all(...) is False -> `all` takes the loop (refused)
    spec2 = [{"name": "h", "none_params": ["lat0"], "given_params": ["lon0"]}]
    contains("any(...) with mixed presence", HINTS_EARLY, spec2, "h", yes=["(r, lat)"])
    refused("any -> all (mutant) reaches the loop", HINTS_EARLY.replace("if any(", "if all("), spec2, "h", "For|loop|statement")


# ---------------------------------------------------------------------------------------------- 5. helpers
CONV = '''
def f2l(frequency):
    return np.divide(constants.speed_of_light, frequency)


def l2n(wavelength):
    return np.divide(1, wavelength)


def p2p(perhz, f_grid):
    c = constants.speed_of_light
    ndim = len(perhz.shape) - 1
    shape = (perhz.shape[0], ) + ndim * (1, )
    perm = perhz * f_grid.reshape(shape)**2 / c
    lam_grid = f2l(f_grid)
    return perm[::-1, ...], lam_grid[::-1]
'''
CONV_HELPERS = '''
def _c_over(x):
    """Speed of light divided by *x*."""
    return np.divide(constants.speed_of_light, x)


def _reciprocal(x):
    return np.divide(1, x)


def _column_shape(spectrum):
    shape = [spectrum.shape[0]]
    for _ in range(len(spectrum.shape) - 1):
        shape.append(1)
    return tuple(shape)


def _times_grid_squared_over_c(spectrum, grid):
    c = constants.speed_of_light
    return spectrum * grid.reshape(_column_shape(spectrum))**2 / c


def f2l(frequency):
    return _c_over(frequency)


def l2n(wavelength):
    return _reciprocal(wavelength)


def p2p(perhz, f_grid):
    perm = _times_grid_squared_over_c(perhz, f_grid)
    lam_grid = f2l(f_grid)
    return perm[::-1, ...], lam_grid[::-1]
'''
SPEC_CONV = [{"name": "f2l"}, {"name": "l2n"}, {"name": "p2p"}]


@case
def expression_helpers_expanded():
    same("expression helpers", CONV, CONV_HELPERS, SPEC_CONV, fn="f2l")
    same("expression helpers", CONV, CONV_HELPERS, SPEC_CONV, fn="l2n")
    rep = contains("helper with a local and a shape helper", CONV_HELPERS, SPEC_CONV, "p2p",
                   yes=["let c_h1 : ℝ := C.speed_of_light", "let perm : ℝ := ((perhz * (f_grid ^ 2)) / c_h1)", "(TR.f2l f_grid)"])
    check(rep["auto_helpers"].get("Snippet.p2p") == ["_column_shape (expanded in place)", "_times_grid_squared_over_c (expanded in place)"],
          "expanded helpers are listed in the report (auto_helpers)", str(rep["auto_helpers"]))
    # mutants: the helper returns a slightly different expression
    m1 = CONV_HELPERS.replace("return np.divide(constants.speed_of_light, x)", "return np.divide(constants.speed_of_light, x) + 1")
    contains("helper changed (mutant)", m1, SPEC_CONV, "f2l", yes=["((C.speed_of_light / frequency) + (1 : ℝ))"])
    differs("helper changed (mutant)", CONV_HELPERS, m1, SPEC_CONV, "f2l")
    m2 = CONV_HELPERS.replace("**2 / c", "**2 * c")
    differs("helper changed (mutant 2)", CONV_HELPERS, m2, SPEC_CONV, "p2p")
    contains("helper changed (mutant 2)", m2, SPEC_CONV, "p2p", yes=["((perhz * (f_grid ^ 2)) * c_h1)"])
    m3 = CONV_HELPERS.replace("return np.divide(1, x)", "return np.divide(x, 1)")
    differs("helper operands swapped (mutant 3)", CONV_HELPERS, m3, SPEC_CONV, "l2n")


@case
def helper_argument_binding():
    same("non-atomic argument read twice is bound once", "def f(x, y):\n    a_h1 = x + y\n    return a_h1 * a_h1 - 2.5 * y\n",
         "def _h(a, b, k=2.5):\n    return a * a - k * b\n\n\ndef f(x, y):\n    return _h(x + y, b=y)\n", [{"name": "f"}])
    contains("float literal of a helper keeps its exact decimal value", "def _h(a):\n    return a * 0.1 + 1e-3\n\n\ndef f(x):\n    return _h(x) + 0.25\n",
             [{"name": "f"}], "f", yes=["(x * ((1 : ℝ) / 10))", "((1 : ℝ) / 1000)", "((1 : ℝ) / 4)"])
    contains("float dialect bits", "def _h(a):\n    return a * 0.1\n\n\ndef f(x):\n    return _h(x)\n", [{"name": "f"}], "f",
             yes=["0x3FB999999999999A"], dialect="float")
    differs("default changed (mutant)", "def _h(a, b, k=2.5):\n    return a * a - k * b\n\n\ndef f(x, y):\n    return _h(x + y, b=y)\n",
            "def _h(a, b, k=3.5):\n    return a * a - k * b\n\n\ndef f(x, y):\n    return _h(x + y, b=y)\n", [{"name": "f"}], "f")


@case
def helpers_that_are_refused():
    refused("recursive helper", "def _h(a):\n    return _h(a - 1) * a\n\n\ndef f(x):\n    return _h(x)\n", [{"name": "f"}], "f", "recursive helper _h")
    refused("mutually recursive helpers", "def _g(a):\n    return _h(a)\n\n\ndef _h(a):\n    return _g(a) + 1\n\n\ndef f(x):\n    return _h(x)\n",
            [{"name": "f"}], "f", "recursive helper")
    refused("helper with a side effect (print)", "def _h(a):\n    print(a)\n    return a\n\n\ndef f(x):\n    return _h(x)\n", [{"name": "f"}], "f", "print|Expr")
    refused("helper writing a global", "_N = 0\n\n\ndef _h(a):\n    global _N\n    _N = _N + 1\n    return a\n\n\ndef f(x):\n    return _h(x)\n",
            [{"name": "f"}], "f", "global")
    refused("helper with a nested def", "def _h(a):\n    def k(z):\n        return z\n    return k(a)\n\n\ndef f(x):\n    return _h(x)\n", [{"name": "f"}], "f", "nested def")
    refused("decorated helper", "import functools\n\n\n@functools.lru_cache()\ndef _h(a):\n    return a\n\n\ndef f(x):\n    return _h(x)\n",
            [{"name": "f"}], "f", "decorated")
    refused("decorated function", "import functools\n\n\n@functools.lru_cache()\ndef f(x):\n    return x\n", [{"name": "f"}], "f", "decorated")
    refused("helper reading a module name the caller shadows", "K = 2.0\n\n\ndef _h(a):\n    return a * constants.K * K\n\n\ndef f(x):\n    K = x\n    return _h(K)\n",
            [{"name": "f"}], "f", "shadows")
    refused("helper with statements in a loop test", '''
def _h(a):
    b = a * 2
    return b


def f(x):
    while _h(x) > 1:
        x = x / 2
    return x
''', [{"name": "f"}], "f", "loop test|unknown function _h")
    refused("helper with **kwargs", "def _h(a, **kw):\n    return a\n\n\ndef f(x):\n    return _h(x)\n", [{"name": "f"}], "f", "kwargs")
    refused("helper that returns nothing used as a value", "def _h(a):\n    b = a\n\n\ndef f(x):\n    return _h(x)\n", [{"name": "f"}], "f", "returns nothing")
    refused("helper rebound at module level", "def _h(a):\n    return a\n\n\n_h = abs\n\n\ndef f(x):\n    return _h(x)\n", [{"name": "f"}], "f", "unknown function _h|_h")


GUARD = '''
def e(T):
    if np.any(T <= 0):
        raise ValueError('Temperatures must be larger than 0 Kelvin.')
    return np.exp(9.5 - 5723.265 / T)
'''
GUARD_H = '''
def _require_positive_temperature(T):
    """Raise a ``ValueError`` if any temperature is not larger than 0 K."""
    if not np.any(T <= 0):
        return

    raise ValueError('Temperatures must be larger than 0 Kelvin.')


def e(T):
    _require_positive_temperature(T)
    return np.exp(9.5 - 5723.265 / T)
'''


@case
def guard_helpers():
    same("guard helper (bare return + raise)", GUARD, GUARD_H, [{"name": "e"}])
    same("guard helper (if: raise)", GUARD, GUARD_H.replace("    if not np.any(T <= 0):\n        return\n\n    raise", "    if np.any(T <= 0):\n        raise"),
         [{"name": "e"}])
    contains("guard helper changed (mutant)", GUARD_H.replace("T <= 0", "T < 0"), [{"name": "e"}], "e", yes=["def e_rejects (T : ℝ) : Prop :=\n  (T < (0 : ℝ))"])
    contains("guard helper inverted (mutant)", GUARD_H.replace("if not np.any", "if np.any"), [{"name": "e"}], "e", yes=["(¬ (T ≤ (0 : ℝ)))"])
    differs("guard helper emptied (mutant)", GUARD_H, GUARD_H.replace("    raise ValueError('Temperatures must be larger than 0 Kelvin.')\n\n\ndef e", "    return\n\n\ndef e"),
            [{"name": "e"}], "e")
    # inrange-style guard helper on a tuple parameter, and the default-ellipsoid helper
    a = '''
def inrange(x, lo, hi, exclude='none', text=None):
    pass


class ellipsoidmodels():
    pass


def g2c(h, lat, ellipsoid=None):
    if ellipsoid is None:
        ellipsoid = ellipsoidmodels()['WGS84']

    errtext = 'Invalid excentricity value in ellipsoid model.'
    inrange(ellipsoid[1], 0, 1, exclude='upper', text=errtext)

    a = ellipsoid[0]
    e2 = ellipsoid[1] ** 2
    return (a / np.sqrt(1 - e2 * np.sin(lat)**2) + h) * np.cos(lat)
'''
    b = '''
def inrange(x, lo, hi, exclude='none', text=None):
    pass


class ellipsoidmodels():
    pass


_ERR = 'Invalid excentricity value in ellipsoid model.'


def _check_eccentricity(ellipsoid):
    inrange(ellipsoid[1], 0, 1, exclude='upper', text=_ERR)


def _default_ellipsoid(ellipsoid):
    """Return the given ellipsoid or WGS84 if ``None`` is passed."""
    if ellipsoid is None:
        return ellipsoidmodels()['WGS84']
    return ellipsoid


def g2c(h, lat, ellipsoid=None):
    ellipsoid = _default_ellipsoid(ellipsoid)

    _check_eccentricity(ellipsoid)

    a = ellipsoid[0]
    e2 = ellipsoid[1] ** 2
    return (a / np.sqrt(1 - e2 * np.sin(lat)**2) + h) * np.cos(lat)
'''
    spec = [{"name": "g2c", "tuple_params": {"ellipsoid": 2}}]
    same("inrange helper + default-ellipsoid helper", a, b, spec)
    contains("inrange helper bound changed (mutant)", b.replace("inrange(ellipsoid[1], 0, 1, exclude='upper'", "inrange(ellipsoid[1], 0, 2, exclude='upper'"),
             spec, "g2c", yes=["(ellipsoid_1 ≥ (2 : ℝ))"])
    contains("inrange helper on the other component (mutant)", b.replace("inrange(ellipsoid[1], 0, 1", "inrange(ellipsoid[0], 0, 1"), spec, "g2c",
             yes=["(ellipsoid_0 ≥ (1 : ℝ))"])
    refused("default helper returns something else when given (mutant)", b.replace("    return ellipsoid\n", "    return (ellipsoid[0], 0.0)\n"), spec, "g2c", "")
    same("alias of a tuple parameter", a, a.replace("    a = ellipsoid[0]\n    e2 = ellipsoid[1] ** 2", "    ell = ellipsoid\n    a = ell[0]\n    e2 = ell[1] ** 2"), spec)


RH = '''
def ew(T):
    return np.exp(54.8 - 6763.22 / T)


def ei(T):
    return np.exp(9.55 - 5723.265 / T)


def rh2vmr(RH, p, T, e_eq=None):
    if e_eq is None:
        e_eq = ew

    return RH * e_eq(T) / p
'''
RH_H = RH.replace('''    if e_eq is None:
        e_eq = ew
''', '''    e_eq = _saturation_function(e_eq)
''').replace("def rh2vmr", '''def _saturation_function(e_eq):
    if e_eq is not None:
        return e_eq

    return ew


def rh2vmr''')
SPEC_RH = [{"name": "ew"}, {"name": "ei"}, {"name": "rh2vmr", "fun_params": {"e_eq": "ew"}}]


@case
def default_substitution_helper_for_function_parameters():
    same("default-substitution helper", RH, RH_H, SPEC_RH)
    contains("the _d instance", RH_H, SPEC_RH, "rh2vmr", yes=["rh2vmr_d (RH : ℝ) (p : ℝ) (T : ℝ) : ℝ :=\n  rh2vmr RH p T TR.ew"])
    refused("default changed in the helper (mutant)", RH_H.replace("    return ew\n", "    return ei\n"), SPEC_RH, "rh2vmr", "default of function parameter changed")
    refused("default changed inline (mutant)", RH.replace("        e_eq = ew\n", "        e_eq = ei\n"), SPEC_RH, "rh2vmr", "default of function parameter changed")
    refused("given function is replaced (mutant)", RH_H.replace("        return e_eq\n", "        return ei\n"), SPEC_RH, "rh2vmr", "does not pass it on|default")
    refused("test inverted (mutant)", RH_H.replace("if e_eq is not None:", "if e_eq is None:"), SPEC_RH, "rh2vmr", "default")


SNELL = '''
def s(n1, n2, th):
    if np.any(np.real(n1) <= 0) or np.any(np.real(n2) <= 0):
        raise Exception('The real part of *n1* and *n2* can not be <= 0.')
    return np.arcsin(np.real(n1) * np.sin(th) / np.real(n2))
'''
SNELL_FOR = '''
def s(n1, n2, th):
    for n in (n1, n2):
        if np.any(np.real(n) <= 0):
            raise Exception('The real part of *n1* and *n2* can not be <= 0.')
    return np.arcsin(np.real(n1) * np.sin(th) / np.real(n2))
'''


@case
def for_over_literal_tuple_unrolled():
    contains("for n in (n1, n2): guard", SNELL_FOR, [{"name": "s"}], "s", yes=["def s_rejects (n1 : ℝ) (n2 : ℝ) (th : ℝ) : Prop :=\n  (n1 ≤ (0 : ℝ)) ∨ (n2 ≤ (0 : ℝ))"])
    same("unrolled by hand", SNELL_FOR, SNELL_FOR.replace('''    for n in (n1, n2):
        if np.any(np.real(n) <= 0):
            raise Exception('The real part of *n1* and *n2* can not be <= 0.')
''', '''    if np.any(np.real(n1) <= 0):
        raise Exception('a')
    if np.any(np.real(n2) <= 0):
        raise Exception('b')
'''), [{"name": "s"}])
    contains("tuple (n1, n1) (mutant): n2 is no longer guarded", SNELL_FOR.replace("(n1, n2):", "(n1, n1):"), [{"name": "s"}], "s",
             yes=["(n1 ≤ (0 : ℝ)) ∨ (n1 ≤ (0 : ℝ))"], no=["n2 ≤"])
    same("table of ranges bound to a local", '''
def g(lat, lon):
    if any(lat < -90) or any(lat > 90):
        raise RuntimeError("lat")
    if any(lon < -180) or any(lon > 180):
        raise RuntimeError("lon")
    return lat + lon
''', '''
def g(lat, lon):
    valid_ranges = (
        ("latitude", lat, -90, 90),
        ("longitude", lon, -180, 180),
    )
    for name, values, lower, upper in valid_ranges:
        if any(values < lower) or any(values > upper):
            raise RuntimeError("The {} is out of range".format(name))
    return lat + lon
''', [{"name": "g"}])
    refused("loop variable assigned in the body", "def f(a, b):\n    s = a\n    for v in (a, b):\n        v = v + 1\n        s = s + v\n    return s\n", [{"name": "f"}], "f", "For")
    refused("break in the body", "def f(a, b):\n    s = a\n    for v in (a, b):\n        s = s + v\n        break\n    return s\n", [{"name": "f"}], "f", "For")
    refused("loop over a non-literal", "def f(a, b):\n    s = a\n    for v in b:\n        s = s + v\n    return s\n", [{"name": "f"}], "f", "For")
    contains("accumulating loop", "def f(a, b):\n    s = a\n    for v in (a, b, 2.0):\n        s = s * v\n    return s\n", [{"name": "f"}], "f",
             yes=["let s : ℝ := (s * a)", "let s : ℝ := (s * b)", "let s : ℝ := (s * (2 : ℝ))"])


# ---------------------------------------------------------------------------------------------- 6. aliases
@case
def aliases_of_imported_functions():
    base = "def f(x):\n    return np.exp(x) * constants.boltzmann\n"
    spec = [{"name": "f"}]
    same("from numpy import exp as _e", base, "def f(x):\n    return _e(x) * constants.boltzmann\n", spec,
         header_b="import numpy as np\nfrom numpy import exp as _e\nfrom typhon import constants\n\n")
    same("import numpy", base, "def f(x):\n    return numpy.exp(x) * typhon.constants.boltzmann\n", spec,
         header_b="import numpy\nimport typhon.constants\n\n")
    same("module-level alias", base, "_exp = np.exp\n_k = constants.boltzmann\n\n\ndef f(x):\n    return _exp(x) * _k\n", spec)
    same("alias of a function of this module", "def g(x):\n    return x + 1\n\n\ndef f(x):\n    return g(x) * 2\n",
         "def g(x):\n    return x + 1\n\n\n_g = g\n\n\ndef f(x):\n    return _g(x) * 2\n", [{"name": "g"}, {"name": "f"}])
    differs("alias to another function (mutant)", "_exp = np.exp\n\n\ndef f(x):\n    return _exp(x)\n", "_exp = np.log\n\n\ndef f(x):\n    return _exp(x)\n", spec, "f")
    refused("np is not numpy", "def f(x):\n    return np.exp(x)\n", spec, "f", "np", header="import math as np\nfrom typhon import constants\n\n")
    refused("constants is not typhon.constants", "def f(x):\n    return x * constants.boltzmann\n", spec, "f", "constants",
            header="import numpy as np\nfrom scipy import constants\n\n")
    refused("np rebound inside the function", "import math\n\n\ndef f(x):\n    np = math\n    return np.exp(x)\n", spec, "f", "local named np")
    refused("alias bound twice", "_exp = np.exp\n_exp = max\n\n\ndef f(x):\n    return _exp(x)\n", spec, "f", "_exp")
    refused("alias rebound through global", "_exp = np.exp\n\n\ndef k():\n    global _exp\n    _exp = np.log\n\n\ndef f(x):\n    return _exp(x)\n", spec, "f", "_exp")
    refused("alias shadowed by a local", "_exp = np.exp\n\n\ndef f(x):\n    _exp = x\n    return _exp(x)\n", spec, "f", "")


# ---------------------------------------------------------------------------------------------- 7. scalar / array glue
MIX = '''
from numbers import Number


def w(T):
    return np.exp(54.8 - 6763.22 / T)


def i(T):
    return np.exp(9.55 - 5723.265 / T)


def mixed(T):
    is_float_input = isinstance(T, Number) or np.ndim(T) == 0
    if is_float_input:
        T = np.asarray([T])

    e_w = w(T)
    e_i = i(T)
    is_water = T > constants.triple_point_water
    is_ice = T < (constants.triple_point_water - 23.)
    e_eq = (e_i + (e_w - e_i) * ((T - constants.triple_point_water + 23) / 23)**2)
    e_eq[is_ice] = e_i[is_ice]
    e_eq[is_water] = e_w[is_water]

    return e_eq[0] if is_float_input else e_eq
'''
SPEC_MIX_GLUE = [{"name": "w"}, {"name": "i"}, {"name": "mixed", "glue": [
    "is_float_input = isinstance(T, Number) or np.ndim(T) == 0", "if is_float_input:\n    T = np.asarray([T])"],
    "return_glue": "e_eq[0] if is_float_input else e_eq"}]
SPEC_MIX = [{"name": "w"}, {"name": "i"}, {"name": "mixed"}]
MIX_REC = MIX.replace('''    is_float_input = isinstance(T, Number) or np.ndim(T) == 0
    if is_float_input:
        T = np.asarray([T])
''', '''    if isinstance(T, Number) or np.ndim(T) == 0:
        return mixed(np.asarray([T]))[0]
''').replace("    return e_eq[0] if is_float_input else e_eq", "    return e_eq")


@case
def scalar_array_glue():
    same("verbatim glue == inference", MIX, MIX, SPEC_MIX_GLUE, specs_b=SPEC_MIX)
    same("np.array([T]) under verbatim glue for the flag", MIX, MIX.replace("T = np.asarray([T])", "T = np.array([T])"), SPEC_MIX_GLUE)
    same("np.atleast_1d(T), test inlined", MIX, MIX.replace("T = np.asarray([T])", "T = np.atleast_1d(T)"), SPEC_MIX)
    same("early recursive return", MIX, MIX_REC, SPEC_MIX_GLUE)
    same("early recursive return (no declared glue)", MIX, MIX_REC, SPEC_MIX)
    same("weight * weight for weight**2 is a different text but translates", MIX_REC, MIX_REC, SPEC_MIX)
    # mutants
    refused("scalar path scaled (mutant)", MIX_REC.replace("return mixed(np.asarray([T]))[0]", "return mixed(np.asarray([T]))[0] * 2"), SPEC_MIX, "mixed", "scalar branch")
    refused("scalar path shifts the argument (mutant)", MIX_REC.replace("mixed(np.asarray([T]))[0]", "mixed(np.asarray([T + 1]))[0]"), SPEC_MIX, "mixed", "scalar branch")
    refused("scalar path calls another function (mutant)", MIX_REC.replace("mixed(np.asarray([T]))[0]", "w(np.asarray([T]))[0]"), SPEC_MIX, "mixed", "scalar branch")
    refused("wrap changes the value (mutant)", MIX.replace("T = np.asarray([T])", "T = np.asarray([T]) * 2"), SPEC_MIX, "mixed", "scalar branch")
    refused("unwrap changes the value (mutant)", MIX.replace("return e_eq[0] if is_float_input else e_eq", "return e_eq[0] if is_float_input else e_eq * 2"),
            SPEC_MIX, "mixed", "unwrap")
    refused("flag used for arithmetic (mutant)", MIX.replace("    e_w = w(T)\n", "    e_w = w(T) * is_float_input\n"), SPEC_MIX, "mixed", "unknown name is_float_input")
    differs("blend changed (mutant)", MIX, MIX.replace("+ 23) / 23)**2", "+ 23) / 23)**3"), SPEC_MIX, "mixed")
    # the array branch factored into a helper that both paths call
    helper = '''
from numbers import Number


def w(T):
    return np.exp(54.8 - 6763.22 / T)


def i(T):
    return np.exp(9.55 - 5723.265 / T)


def mixed(T):
    if not (isinstance(T, Number) or np.ndim(T) == 0):
        return _mixed_array(T)

    return _mixed_array(np.asarray([T]))[0]


def _mixed_array(T):
    e_w = w(T)
    e_i = i(T)
    pure_phases = (
        (T < (constants.triple_point_water - 23.), e_i),
        (T > constants.triple_point_water, e_w),
    )
    e_eq = (e_i + (e_w - e_i) * ((T - constants.triple_point_water + 23) / 23)**2)
    for in_range, e_pure in pure_phases:
        e_eq[in_range] = e_pure[in_range]
    return e_eq
'''
    contains("array branch in a helper, called by both paths", helper, SPEC_MIX, "mixed",
             yes=["if in_range_h1_u2 then e_i_h1 else e_eq_h1", "if in_range_h1_u3 then e_w_h1 else e_eq_h1"])
    refused("scalar path uses a different helper argument (mutant)", helper.replace("_mixed_array(np.asarray([T]))[0]", "_mixed_array(np.asarray([T]) + 1)[0]"),
            SPEC_MIX, "mixed", "scalar branch")
    refused("scalar path forgets [0]... and scales (mutant)", helper.replace("_mixed_array(np.asarray([T]))[0]", "2 * _mixed_array(np.asarray([T]))[0]"),
            SPEC_MIX, "mixed", "scalar branch")


# ---------------------------------------------------------------------------------------------- helpers of other modules
OTHER = '''
import numpy
from typhon import constants as cst

SCALE = 2.0


def c_over(x):
    """Speed of light divided by *x*."""
    return numpy.divide(cst.speed_of_light, x)


def twice_c_over(x):
    y = c_over(x)
    return y * 2


def scaled(x):
    return x * SCALE
'''


@case
def helpers_imported_from_another_module():
    run.MODULES["typhon.utils.conv"] = OTHER
    try:
        hdr = HDR = "import numpy as np\nfrom typhon import constants\nfrom typhon.utils.conv import c_over\nfrom typhon.utils import conv\n\n"
        base = "def f(x):\n    return np.divide(constants.speed_of_light, x)\n"
        same("from m import helper", base, "def f(x):\n    return c_over(x)\n", [{"name": "f"}], header=hdr)
        same("m.helper", base, "def f(x):\n    return conv.c_over(x)\n", [{"name": "f"}], header=hdr)
        rep = contains("helper calling a helper of its module", "def f(x):\n    return conv.twice_c_over(x)\n", [{"name": "f"}], "f",
                       yes=["let y_h1 : ℝ := (C.speed_of_light / x)", "(y_h1 * (2 : ℝ))"], header=hdr)
        check(rep["auto_helpers"].get("Snippet.f") == ["typhon.utils.conv.c_over (expanded in place)", "typhon.utils.conv.twice_c_over (expanded in place)"],
              "foreign helpers are reported by their dotted name", str(rep["auto_helpers"]))
        refused("foreign helper reading a constant of its module", "def f(x):\n    return conv.scaled(x)\n", [{"name": "f"}], "f", "module-level name SCALE", header=hdr)
        refused("function that does not exist there", "def f(x):\n    return conv.nothing(x)\n", [{"name": "f"}], "f", "call", header=hdr)
        run.MODULES["typhon.utils.conv"] = OTHER.replace("numpy.divide(cst.speed_of_light, x)", "numpy.divide(cst.speed_of_light, x) + 1")
        contains("the other module's helper changed (mutant)", "def f(x):\n    return c_over(x)\n", [{"name": "f"}], "f",
                 yes=["((C.speed_of_light / x) + (1 : ℝ))"], header=hdr)
        del HDR
    finally:
        run.MODULES.clear()
