"""Cases for the matrix translator py2lean_matrix.py + normalize.py (module typhon.retrieval.oem.common)."""
import run
from run import case, msame, mcontains, mrefused, trm, check

S = '''
from scipy.linalg import inv


def f(K, S_a, S_y):
    return inv(K.T @ inv(S_y) @ K + inv(S_a))
'''


@case
def matmul_and_transpose_spellings():
    msame("np.matmul / .transpose()", S, '''
import numpy as np
from scipy.linalg import inv


def f(K, S_a, S_y):
    return inv(np.matmul(np.matmul(K.transpose(), inv(S_y)), K) + inv(S_a))
''')
    msame("np.dot / np.transpose / A.dot(B) / np.add", S, '''
import numpy as np
from scipy.linalg import inv


def f(K, S_a, S_y):
    return inv(np.add(np.dot(np.transpose(K), inv(S_y)).dot(K), inv(S_a)))
''')
    mcontains("np.matmul operands swapped (mutant)", '''
import numpy as np
from scipy.linalg import inv


def f(K, S_a, S_y):
    return inv(np.matmul(np.matmul(inv(S_y), K).T, K) + inv(S_a))
''', yes=["(Matrix.transpose ((S_y)⁻¹ * K))"])
    mrefused("np.matmul with swapped operands of non-matching shapes (mutant)", '''
import numpy as np
from scipy.linalg import inv


def f(K, S_a, S_y):
    return inv(np.matmul(K, np.matmul(K.transpose(), inv(S_y))) + inv(S_a))
''', "shape mismatch")
    mrefused("np.transpose with axes", S.replace("K.T", "np.transpose(K, (1, 0))").replace("from scipy", "import numpy as np\nfrom scipy"), "transpose|unresolved|numpy")
    mrefused("elementwise product is not the matrix product (mutant)", S.replace("K.T @ inv(S_y) @ K", "K.T @ inv(S_y) * K"), "operator Mult")


@case
def aliases_of_inv():
    msame("_invert = scipy.linalg.inv", S, '''
import scipy.linalg

_invert = scipy.linalg.inv


def f(K, S_a, S_y):
    return _invert(K.T @ _invert(S_y) @ K + _invert(S_a))
''')
    msame("from scipy.linalg import inv as _inv", S, '''
from scipy.linalg import inv as _inv


def f(K, S_a, S_y):
    return _inv(K.T @ _inv(S_y) @ K + _inv(S_a))
''')
    msame("numpy.linalg.inv through an alias of an alias", S, '''
import numpy
la = numpy.linalg
solve = la.inv


def f(K, S_a, S_y):
    return solve(K.T @ solve(S_y) @ K + solve(S_a))
''')
    mrefused("alias of pinv (mutant)", '''
import scipy.linalg

_invert = scipy.linalg.pinv


def f(K, S_a, S_y):
    return _invert(K.T @ _invert(S_y) @ K + _invert(S_a))
''', "scipy.linalg.pinv")
    mrefused("alias rebound later (mutant)", '''
import scipy.linalg

_invert = scipy.linalg.inv
_invert = scipy.linalg.pinv


def f(K, S_a, S_y):
    return _invert(K.T @ _invert(S_y) @ K + _invert(S_a))
''', "pinv")
    mrefused("alias assigned from a call", '''
import scipy.linalg

_invert = staticmethod(scipy.linalg.inv)


def f(K, S_a, S_y):
    return _invert(K.T @ _invert(S_y) @ K + _invert(S_a))
''', "unresolved")


CHAIN = '''
from scipy.linalg import inv


def _chain(first, *factors):
    """Multiply matrices from left to right."""
    product = first
    for factor in factors:
        product = product @ factor
    return product


def _posterior_covariance(K, S_a, S_y, prior_first):
    if prior_first:
        prior = inv(S_a)
        return inv(prior + _chain(K.T, inv(S_y), K))

    measurement = _chain(K.T, inv(S_y), K)
    return inv(measurement + inv(S_a))


def f(K, S_a, S_y):
    return _posterior_covariance(K, S_a, S_y, prior_first=False)


def g(K, S_a, S_y):
    S = _posterior_covariance(K, S_a, S_y, prior_first=True)
    return _chain(S, K.T, inv(S_y))
'''


@case
def helpers_left_fold_and_literal_flag():
    r, rep = trm(CHAIN, names=("f",))
    check("refused" not in r["f"], "left fold + flag helper translates", str(r["f"]))
    mcontains("left fold over *factors, flag False", CHAIN, yes=[
        "let product_h2 : Matrix (Fin n) (Fin m) ℝ := (Matrix.transpose K)",
        "let product_h2 : Matrix (Fin n) (Fin m) ℝ := (product_h2 * (S_y)⁻¹)",
        "let product_h2 : Matrix (Fin n) (Fin n) ℝ := (product_h2 * K)",
        "((measurement_h1 + (S_a)⁻¹))⁻¹"], no=["prior_h1"])
    check(rep["auto_helpers"].get("f") == ["_chain (expanded in place)", "_posterior_covariance (expanded in place)"], "auto_helpers lists both helpers",
          str(rep["auto_helpers"]))
    mcontains("flag flipped (mutant): the other order of the summands", CHAIN.replace("prior_first=False", "prior_first=True"),
              yes=["let prior_h1", "((prior_h1 + product_h2))⁻¹"], no=["measurement_h1"])
    mrefused("right fold (mutant): shapes no longer match", CHAIN.replace("product = product @ factor", "product = factor @ product"), "shape mismatch")
    mcontains("right fold (mutant), square case", CHAIN.replace("product = product @ factor", "product = factor @ product"),
              shapes={"K": ("n", "n"), "S_a": ("n", "n"), "S_y": ("n", "n")}, yes=["((S_y)⁻¹ * product_h2)", "(K * product_h2)"])
    mrefused("fold skips a factor (mutant): shapes no longer match", CHAIN.replace("measurement = _chain(K.T, inv(S_y), K)", "measurement = _chain(K.T, K.T)"),
             "shape mismatch")
    mcontains("second function through two helpers", CHAIN, fn="g", names=("g",), ret=("n", "m"),
              yes=["let S : Matrix (Fin n) (Fin n) ℝ := ((prior_h1 + product_h2))⁻¹", "(product_h3 * (S_y)⁻¹)"])
    mrefused("recursive helper", CHAIN.replace("    product = first\n", "    product = _chain(first)\n"), "recursive helper _chain")
    mrefused("flag that is not a literal", CHAIN.replace("prior_first=False", "prior_first=K"), "If|statement")


@case
def statement_helpers_and_early_return():
    msame("helper with named intermediate results", '''
from scipy.linalg import inv


def f(K, S_a, S_y):
    K_transposed_h1 = K.T
    S_y_inverse_h1 = inv(S_y)
    weighted_jacobian_h1 = K_transposed_h1 @ S_y_inverse_h1
    measurement_information = weighted_jacobian_h1 @ K
    return inv(measurement_information + inv(S_a))
''', '''
from scipy.linalg import inv


def _measurement_information(K, S_y):
    """Return the measurement contribution ``K^T S_y^-1 K``."""
    K_transposed = K.T
    S_y_inverse = inv(S_y)
    weighted_jacobian = K_transposed @ S_y_inverse
    return weighted_jacobian @ K


def f(K, S_a, S_y):
    measurement_information = _measurement_information(K, S_y)
    return inv(measurement_information + inv(S_a))
''')
    mcontains("helper changed (mutant)", '''
from scipy.linalg import inv


def _measurement_information(K, S_y):
    return K.T @ S_y @ K


def f(K, S_a, S_y):
    return inv(_measurement_information(K, S_y) + inv(S_a))
''', yes=["(((Matrix.transpose K) * S_y) * K)"], no=["(S_y)⁻¹"])
    mrefused("helper from another module is not expanded", '''
from scipy.linalg import inv
from typhon.retrieval.oem.other import _measurement_information


def f(K, S_a, S_y):
    return inv(_measurement_information(K, S_y) + inv(S_a))
''', "not in the translated subset")


@case
def matrix_helper_from_another_module():
    run.MODULES["typhon.retrieval.oem.util"] = '''
import scipy.linalg as sla


def information(K, S_y):
    return K.T @ sla.inv(S_y) @ K
'''
    try:
        msame("helper imported from a sibling module", S, '''
from scipy.linalg import inv
from typhon.retrieval.oem import util


def f(K, S_a, S_y):
    return inv(util.information(K, S_y) + inv(S_a))
''')
        run.MODULES["typhon.retrieval.oem.util"] = run.MODULES["typhon.retrieval.oem.util"].replace("sla.inv(S_y)", "S_y")
        mcontains("the sibling module's helper changed (mutant)", '''
from scipy.linalg import inv
from typhon.retrieval.oem import util


def f(K, S_a, S_y):
    return inv(util.information(K, S_y) + inv(S_a))
''', yes=["(((Matrix.transpose K) * S_y) * K)"])
    finally:
        run.MODULES.clear()
