#!/usr/bin/env python3
"""Regression tests of the Python->Lean translators (tools/py2lean).

    python3 tools/py2lean/tests/run.py [-v] [-k substring]

Each case translates small source snippets and checks
  * SAME     : a re-spelling (harmless rewrite) gives exactly the Lean text (real AND float dialect) of the
               canonical spelling,
  * CONTAINS : the Lean text contains / does not contain given fragments (used for the MUTANTS: a nearby
               breaking change must change the model accordingly …),
  * REFUSED  : … or be refused (regex on the refusal text) — never silently the old model.
Exit status 1 if any case fails.  Needs /repo only for typhon/constants.py (TYPHON_REPO is honoured).
"""
import os
import re
import sys

HERE = os.path.dirname(os.path.abspath(__file__))
try:
    import numpy  # noqa: F401   (typhon/constants.py needs numpy + scipy: use the project's interpreter when this one lacks them)
    import scipy  # noqa: F401
except ImportError:
    if os.path.exists("/venv/bin/python") and os.path.realpath(sys.executable) != os.path.realpath("/venv/bin/python"):
        os.execv("/venv/bin/python", ["/venv/bin/python", os.path.abspath(__file__)] + sys.argv[1:])
sys.path.insert(0, os.path.dirname(HERE))
os.environ.setdefault("PYTHONWARNINGS", "ignore")
import gen_all  # noqa: E402
import gen_oem  # noqa: E402

_C = None
FAIL, COUNT = [], [0]
VERBOSE = "-v" in sys.argv
ONLY = sys.argv[sys.argv.index("-k") + 1] if "-k" in sys.argv else None
CASES = []

HDR = "import numpy as np\nfrom typhon import constants\n\n"


def case(f):
    CASES.append(f)
    return f


# ------------------------------------------------------------------------------------------------ scalar translator
MODULES = {}          # further modules (dotted name -> text) the snippets may import helpers from


def tr(src, specs, header=HDR):
    """-> {lean name: {'real': text, 'float': text} | {'refused': reason}}, report"""
    global _C
    _C = _C or gen_all.load_constants()
    texts, report = gen_all.translate_source(header + src, specs, C=_C, modules=dict(MODULES))
    out = {}
    for key, why in report["refused"].items():
        out[key.split(".", 1)[1]] = {"refused": why}
    if texts:
        for d in ("real", "float"):
            for chunk in texts[d]:
                for name in [k.split(".", 1)[1] for k in report["functions"]]:
                    if re.search(rf"^(noncomputable )?def {re.escape(name)} ", chunk, re.M):
                        out.setdefault(name, {})[d] = chunk
    return out, report


def check(ok, what, detail=""):
    COUNT[0] += 1
    if not ok:
        FAIL.append((what, detail))
        print(f"  FAIL {what}\n       {detail[:1500]}")
    elif VERBOSE:
        print(f"  ok   {what}")


def same(what, a, b, specs, specs_b=None, fn=None, header=HDR, header_b=None):
    """translation of a (canonical) and b (re-spelling) is identical text for every function (or for fn)"""
    ra, _ = tr(a, specs, header)
    rb, _ = tr(b, specs_b or specs, header_b or header)
    names = [fn] if fn else sorted(ra)
    for n in names:
        if "refused" in ra.get(n, {"refused": "missing"}):
            check(False, f"{what}: canonical spelling of {n} refused", str(ra.get(n)))
            continue
        if "refused" in rb.get(n, {"refused": "missing"}):
            check(False, f"{what}: re-spelling of {n} refused", str(rb.get(n)))
            continue
        for d in ("real", "float"):
            check(ra[n][d] == rb[n][d], f"{what}: {n} [{d}] identical", f"--- canonical\n{ra[n][d]}\n--- re-spelled\n{rb[n][d]}")


def contains(what, src, specs, fn, yes=(), no=(), dialect="real", header=HDR):
    r, rep = tr(src, specs, header)
    got = r.get(fn, {"refused": "missing"})
    if "refused" in got:
        check(False, f"{what}: {fn} refused", got["refused"])
        return rep
    t = got[dialect]
    for frag in yes:
        check(frag in t, f"{what}: {fn} contains `{frag}`", t)
    for frag in no:
        check(frag not in t, f"{what}: {fn} does not contain `{frag}`", t)
    return rep


def refused(what, src, specs, fn, pattern, header=HDR):
    r, _ = tr(src, specs, header)
    got = r.get(fn, {})
    check("refused" in got and re.search(pattern, got["refused"]) is not None,
          f"{what}: {fn} refused ({pattern})", str(got)[:600])
    if VERBOSE and "refused" in got:
        print(f"         reason: {got['refused'][:200]}")


def differs(what, a, b, specs, fn, header=HDR):
    """b is a MUTANT of a: refused, or a different model"""
    ra, _ = tr(a, specs, header)
    rb, _ = tr(b, specs, header)
    if "refused" in rb.get(fn, {"refused": "x"}):
        check(True, f"{what}: mutant of {fn} refused")
        return
    check("refused" not in ra[fn] and ra[fn]["real"] != rb[fn]["real"] and ra[fn]["float"] != rb[fn]["float"],
          f"{what}: mutant of {fn} changes the model", rb[fn]["real"])


# ------------------------------------------------------------------------------------------------ matrix translator
M, N = "m", "n"
MOD = "typhon.retrieval.oem.common"
REL = "typhon/retrieval/oem/common.py"
MSHAPES = {"K": (M, N), "S_a": (N, N), "S_y": (M, M)}


def trm(src, names=("f",), shapes=None, ret=None):
    specs = [(MOD, REL, n, dict(shapes or MSHAPES)) for n in names]
    exp = {n: (ret or (N, N)) for n in names}
    def read(rel):
        if rel == REL:
            return src
        dotted = rel[:-3].replace("/", ".")
        if dotted in MODULES:
            return MODULES[dotted]
        raise OSError(rel)
    lean, frac, rep = gen_oem.translate(read, specs, exp)
    out = {}
    for n in names:
        if n in rep["refused"]:
            out[n] = {"refused": rep["refused"][n]}
    for t in lean:
        m_ = re.search(r"noncomputable def (\w+) ", t)
        out[m_.group(1)] = {"lean": t}
    for t in frac:
        m_ = re.match(r"def (\w+)\(", t)
        out[m_.group(1)]["frac"] = t
    return out, rep


def msame(what, a, b, fn="f", **kw):
    ra, _ = trm(a, **kw)
    rb, _ = trm(b, **kw)
    if "refused" in ra[fn] or "refused" in rb[fn]:
        check(False, f"{what}: refused", f"{ra[fn]} / {rb[fn]}")
        return
    for d in ("lean", "frac"):
        check(ra[fn][d] == rb[fn][d], f"{what}: {fn} [{d}] identical", f"--- canonical\n{ra[fn][d]}\n--- re-spelled\n{rb[fn][d]}")


def mcontains(what, src, fn="f", yes=(), no=(), **kw):
    r, rep = trm(src, **kw)
    if "refused" in r[fn]:
        check(False, f"{what}: {fn} refused", r[fn]["refused"])
        return rep
    for frag in yes:
        check(frag in r[fn]["lean"], f"{what}: {fn} contains `{frag}`", r[fn]["lean"])
    for frag in no:
        check(frag not in r[fn]["lean"], f"{what}: {fn} does not contain `{frag}`", r[fn]["lean"])
    return rep


def mrefused(what, src, pattern, fn="f", **kw):
    r, _ = trm(src, **kw)
    check("refused" in r[fn] and re.search(pattern, r[fn]["refused"]) is not None, f"{what}: {fn} refused ({pattern})", str(r[fn])[:600])
    if VERBOSE and "refused" in r[fn]:
        print(f"         reason: {r[fn]['refused'][:200]}")


def main():
    import cases_scalar  # noqa: F401
    import cases_matrix  # noqa: F401
    for f in CASES:
        if ONLY and ONLY not in f.__name__:
            continue
        if VERBOSE:
            print(f.__name__)
        try:
            f()
        except Exception as e:      # noqa: BLE001
            import traceback
            traceback.print_exc()
            FAIL.append((f.__name__, f"crashed: {e!r}"))
            print(f"  FAIL {f.__name__}: crashed: {e!r}")
    print(f"py2lean tests: {COUNT[0]} checks in {len(CASES)} cases, {len(FAIL)} failed")
    sys.exit(1 if FAIL else 0)


if __name__ == "__main__":
    sys.modules["run"] = sys.modules["__main__"]
    sys.path.insert(0, HERE)
    main()
