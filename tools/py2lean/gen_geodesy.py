#!/usr/bin/env python3
"""Regenerate lean/geodesy/GenReal/*.lean and GenFloat/*.lean (property C07) from /repo's current source."""
import os
import sys

sys.path.insert(0, os.path.dirname(os.path.abspath(__file__)))
import gen_all  # noqa: E402


def generate():
    return gen_all.generate(package="geodesy", spec_dir="specs_geodesy")


if __name__ == "__main__":
    r = generate()
    print("translated:", len(r["functions"]), "refused:", r["refused"], "changed:", r["changed"])
