#!/usr/bin/env python3
"""Regenerate lean/numeric/GenReal/*.lean and GenFloat/*.lean from /repo's current source.

Run on every check of a translator-tied property (and by bin/setup).  Output is deterministic;
files are only rewritten when their content changes (so an unchanged source causes no rebuild).
A function the translator refuses is omitted from the generated module (every theorem about it
then fails to build: a broken tie, reported by the check) and listed in gen_report.json.
"""
import ast
import importlib
import json
import os
import sys

HERE = os.path.dirname(os.path.abspath(__file__))
ROOT = os.path.dirname(os.path.dirname(HERE))
REPO = os.environ.get("TYPHON_REPO", "/repo")
sys.path.insert(0, HERE)
import normalize  # noqa: E402
import py2lean  # noqa: E402

# module-level functions the translator models itself (by name): never expanded in place
BUILTIN_GUARDS = {"inrange"}

# specs/<name>.py each define  MODULE = ("LeanModuleName", "path/in/repo.py", [function specs
# in dependency order]); see specs/atmosphere.py for the spec keys.
def OUT_ROOT():
    """directory holding the lake packages that receive the generated files (default /verif/lean;
    PY2LEAN_OUT_ROOT redirects the output to scratch copies — used by the translator's own tests)"""
    return os.environ.get("PY2LEAN_OUT_ROOT") or os.path.join(ROOT, "lean")


def load_modules(spec_dir="specs"):
    mods = {}
    d = os.path.join(HERE, spec_dir)
    for f in sorted(os.listdir(d)):
        if f.endswith(".py") and not f.startswith("_"):
            ns = {}
            exec(compile(open(os.path.join(d, f)).read(), f, "exec"), ns)
            name, rel, specs = ns["MODULE"]
            mods[name] = (rel, specs)
    return mods


def write_if_changed(path, text):
    os.makedirs(os.path.dirname(path), exist_ok=True)
    if os.path.exists(path) and open(path, encoding="utf-8").read() == text:
        return False
    tmp = path + ".tmp"
    open(tmp, "w", encoding="utf-8").write(text)
    os.replace(tmp, path)
    return True


def load_constants():
    if REPO not in sys.path:
        sys.path.insert(0, REPO)
    import warnings
    warnings.simplefilter("ignore")
    return importlib.import_module("typhon.constants")


_MODULES = {}


def load_repo_module(dotted, sources=None):
    """dotted module name -> (ast, module table) of a module of the repository under test (None when it is not one)"""
    key = (REPO, dotted)
    if sources is not None and dotted in sources:
        tree = ast.parse(sources[dotted])
        normalize.annotate_literals(tree, sources[dotted])
        return tree, normalize.module_table(tree, dotted)
    if key not in _MODULES:
        _MODULES[key] = None
        rel = dotted.replace(".", "/")
        for cand in (rel + ".py", os.path.join(rel, "__init__.py")):
            path = os.path.join(REPO, cand)
            if os.path.isfile(path) and dotted.split(".")[0] == "typhon":
                try:
                    src = open(path, encoding="utf-8").read()
                    tree = ast.parse(src)
                except (OSError, SyntaxError):
                    break
                normalize.annotate_literals(tree, src)
                _MODULES[key] = (tree, normalize.module_table(tree, dotted))
                break
    return _MODULES[key]


def prepare(fn, spec, src):
    """apply the declared glue (recognised exactly, else refusal)"""
    glue = list(spec.get("glue", ()))
    rg = spec.get("return_glue")
    if rg:
        last = fn.body[-1]
        if isinstance(last, ast.Return) and last.value is not None and ast.unparse(last.value) == rg:
            # `X[0] if flag else X`  ->  X
            fn.body[-1] = ast.Return(value=last.value.orelse)
        # (a return statement that is NOT the declared glue gets no special treatment: the translator's own rules
        #  — scalar/array inference — accept it or refuse it)
    if spec.get("const_defaults"):
        # default arguments that are constants become fixed let-bindings
        args = fn.args
        nd = len(args.defaults)
        keep = args.args[:len(args.args) - nd]
        pre = []
        for a, dflt in zip(args.args[len(args.args) - nd:], args.defaults):
            pre.append(ast.Assign(targets=[ast.Name(id=a.arg, ctx=ast.Store())], value=dflt, lineno=0))
        args.args = keep
        args.defaults = []
        doc = []
        body = fn.body
        if body and isinstance(body[0], ast.Expr) and isinstance(body[0].value, ast.Constant):
            doc, body = body[:1], body[1:]
        fn.body = doc + pre + body
    return glue


def generate(package="numeric", spec_dir="specs"):
    """package: lake package under /verif/lean that receives GenReal/ GenFloat/; spec_dir: directory
    (under tools/py2lean) with the spec files"""
    C = load_constants()
    report = {"refused": {}, "functions": {}, "notes": {}, "auto_helpers": {}}
    known = {}
    used_constants = {}
    outputs = {}
    by_key = {}
    tables = {}
    for mod, (rel, specs) in load_modules(spec_dir).items():
        src = open(os.path.join(REPO, rel), encoding="utf-8").read()
        texts = translate_module(C, mod, rel, src, specs, known, report, used_constants, by_key, tables)
        if texts is not None:
            outputs[mod] = (rel, texts)
    return write_outputs(package, report, used_constants, outputs, by_key, tables)


def translate_source(src, specs, rel="typhon/snippet.py", mod="Snippet", C=None, modules=None):
    """translate one module given as text (used by tools/py2lean/tests): returns (texts {"real","float"}, report);
    modules: {dotted name: text} of further modules the snippet imports helpers from"""
    report = {"refused": {}, "functions": {}, "notes": {}, "auto_helpers": {}}
    texts = translate_module(C or load_constants(), mod, rel, src, specs, {}, report, {}, {}, {}, modules=modules)
    return texts, report


def translate_module(C, mod, rel, src, specs, known, report, used_constants, by_key, tables, modules=None):
    """translate the functions `specs` names in the module text `src`; returns {"real": [defs], "float": [defs]}
    (None when the module does not parse) and fills report / known / by_key / tables"""
    if True:
        try:
            tree = ast.parse(src)
        except SyntaxError as e:
            for sp in specs:
                report["refused"][f"{mod}.{sp.get('name', sp.get('table'))}"] = f"syntax error: {e}"
            return None
        normalize.annotate_literals(tree, src)
        module_name = rel[:-3].replace("/", ".")
        table = normalize.module_table(tree, module_name)
        keep = {sp["name"] for sp in specs if "name" in sp} | BUILTIN_GUARDS
        fns = {n.name: n for n in tree.body if isinstance(n, ast.FunctionDef)}
        classes = {n.name: n for n in tree.body if isinstance(n, ast.ClassDef)}
        texts = {"real": [], "float": []}
        prelude = False
        cprelude = False
        for sp in specs:
            if "table" in sp:          # class holding a literal table  name -> tuple of numbers
                key = f"{mod}.{sp['table']}"
                try:
                    if sp["table"] not in classes:
                        raise py2lean.Refusal("class not found")
                    tr = py2lean.Translator(C, known, src)
                    for d in ("real", "float"):
                        text, entries = tr.table(classes[sp["table"]], sp, d)
                        texts[d].append(text)
                    used_constants.update(tr.used_constants)
                    report["functions"][key] = "ok"
                    tables[key] = entries
                except py2lean.Refusal as e:
                    report["refused"][key] = str(e)
                continue
            name = sp["name"]
            # spec["variant"] (with "complex_params"): a second translation `<name>_<variant>` of the same function
            lname = sp.get("as", name + "_" + sp["variant"] if sp.get("variant") else name)
            key = f"{mod}.{lname}"
            if name not in fns:
                report["refused"][key] = "function not found"
                continue
            try:
                per = {}
                if table.get(name) != f"{module_name}.{name}":
                    raise py2lean.Refusal("the module-level name is rebound after the definition")
                for d in ("real", "float"):
                    fsrc = ast.get_source_segment(src, fns[name])
                    tr = py2lean.Translator(C, known, fsrc)
                    spec = dict(sp)
                    glue_texts = set(spec.get("glue", ()))
                    # spelling variants -> canonical subset (aliases, numpy spellings, helper expansion, early returns, …)
                    fn, helpers = normalize.prepare_function(fns[name], tree, module_name, keep=keep,
                                                             is_glue=lambda st: ast.unparse(st) in glue_texts, table=table,
                                                             load_module=lambda m: load_repo_module(m, modules))
                    tr.inline_failed = getattr(fn, "_inline_failed", {})
                    if helpers:
                        report["auto_helpers"][key] = [f"{h} (expanded in place)" for h in helpers]
                    fn._py_name = name
                    spec["glue"] = prepare(fn, spec, fsrc)
                    spec["nparams"] = len(fn.args.args) - len(spec.get("fun_params", {}))
                    if lname != name:
                        fn.name = lname
                    text, notes = tr.function(fn, spec, d)
                    if any(k in sp for k in ("tuple_params", "none_params")):
                        spec["nparams"] = sum(int(k[7:]) if k.startswith("tparam:") else 0 if k == "none" else 1
                                              for _, k in tr.pykinds if k != "fun")
                    per[d] = text
                    used_constants.update(tr.used_constants)
                    report["notes"][key] = notes
                    prelude = prelude or tr.uses_while
                    cprelude = cprelude or tr.uses_complex
                head = per["float"].split(":=")[0]
                for ln in per["float"].splitlines():       # auxiliary (loop) definitions may precede the function
                    if ln.startswith(f"def {py2lean.san(lname)} "):
                        head = ln.split(":=")[0]
                info = {"nparams": spec["nparams"], "fun_params": sp.get("fun_params"),
                        "tuple": " × " in head, "rejects": f"def {py2lean.san(lname)}_rejects" in per["float"],
                        "ntuple": head.count(" × ") + 1 if " × " in head else 0,
                        "pykinds": list(tr.pykinds), "lean_name": lname}
                if sp.get("variant"):
                    # complex variant: Lean arity counts a complex parameter twice; callers find it by position
                    info["nparams"] = spec["nparams"] = len(tr.cur_sig)
                    info["npyparams"] = len(fn.args.args)
                    info["cpos"] = [i for i, a in enumerate(fn.args.args) if a.arg in sp.get("complex_params", ())]
                    info["cret"] = tr.cret
                    info["pykinds"] = None
                    known[f"{name}@{sp['variant']}"] = info
                by_key[key] = info
                if lname == name:
                    known[name] = info
                for d in per:
                    texts[d].append(per[d])
                report["functions"][key] = "ok"
            except py2lean.Refusal as e:
                report["refused"][key] = str(e)
        if prelude:
            for d in texts:
                texts[d].insert(0, py2lean.Translator.PRELUDE[d].rstrip("\n") + "\n")
        if cprelude:
            texts["float"].insert(0, py2lean.Translator.PRELUDE["complex_float"].rstrip("\n") + "\n")
        return texts


def write_outputs(package, report, used_constants, outputs, by_key, tables):
    # constants
    creal = ["import Mathlib.Data.Real.Basic", "", "/-! GENERATED by tools/py2lean/gen_all.py from typhon/constants.py — do not edit.",
             "Exact rational values of the doubles in `typhon.constants`. -/", "", "namespace C", ""]
    cflt = ["/-! GENERATED by tools/py2lean/gen_all.py from typhon/constants.py — do not edit. -/", "", "namespace CF", ""]
    for n in sorted(used_constants):
        v = used_constants[n]
        creal.append(f"/-- typhon.constants.{n} = {v!r} -/\nnoncomputable def {py2lean.san(n)} : ℝ := {py2lean.real_of_float(v)}\n")
        cflt.append(f"/-- typhon.constants.{n} = {v!r} -/\ndef {py2lean.san(n)} : Float := Float.ofBits 0x{py2lean.float_bits(v):016X}\n")
    creal.append("end C\n")
    cflt.append("end CF\n")
    base = os.path.join(OUT_ROOT(), package)
    changed = []
    if write_if_changed(os.path.join(base, "GenReal", "Constants.lean"), "\n".join(creal)):
        changed.append("GenReal/Constants.lean")
    if write_if_changed(os.path.join(base, "GenFloat", "Constants.lean"), "\n".join(cflt)):
        changed.append("GenFloat/Constants.lean")
    for mod, (rel, texts) in outputs.items():
        hdr_r = ("import GenReal.Constants\nimport Mathlib.Analysis.SpecialFunctions.Log.Basic\n"
                 "import Mathlib.Analysis.SpecialFunctions.Trigonometric.Inverse\n"
                 "import Mathlib.Analysis.SpecialFunctions.Trigonometric.Arctan\n"
                 "import Mathlib.Analysis.SpecialFunctions.Sqrt\n"
                 "import Mathlib.Analysis.SpecialFunctions.Trigonometric.DerivHyp\n\n"
                 f"/-! GENERATED by tools/py2lean/gen_all.py from {rel} — do not edit.\n"
                 "Real-number reading of the Python functions (pointwise). -/\n\nopen Classical\n\nnamespace TR\n\n")
        hdr_f = ("import GenFloat.Constants\n\n"
                 f"/-! GENERATED by tools/py2lean/gen_all.py from {rel} — do not edit.\n"
                 "IEEE double reading of the same Python functions (pointwise); executable. -/\n\nnamespace TF\n\n")
        if write_if_changed(os.path.join(base, "GenReal", f"{mod}.lean"), hdr_r + "\n".join(texts["real"]) + "\nend TR\n"):
            changed.append(f"GenReal/{mod}.lean")
        if write_if_changed(os.path.join(base, "GenFloat", f"{mod}.lean"), hdr_f + "\n".join(texts["float"]) + "\nend TF\n"):
            changed.append(f"GenFloat/{mod}.lean")
    # dispatch table for the Float driver
    disp = ["".join(f"import GenFloat.{m}\n" for m in outputs),
            "\n/-! GENERATED by tools/py2lean/gen_all.py — do not edit. name -> Float function. -/\n",
            "namespace TF\n",
            "def dispatch (name : String) (a : Array Float) : Option (Array Float) :=",
            "  match name, a.size with"]
    for key in sorted(report["functions"]):
        mod, name = key.split(".")
        if key in tables:
            for ename, arity in tables[key]:
                comps = ", ".join(py2lean.Translator.proj("r", i, arity) for i in range(arity))
                disp.append(f'  | "{name}.{ename}", 0 => let r := TF.{py2lean.san(name)}_{py2lean.san(ename)}; some #[{comps}]')
            continue
        k = by_key[key]
        n = k["nparams"]
        suffix = "_d" if k.get("fun_params") else ""
        args = " ".join(f"a[{i}]!" for i in range(n))
        if k.get("cret") is not None and k["cret"] != "r":
            # complex results cross the pipe as (re, im) pairs of doubles
            kinds = k["cret"] if isinstance(k["cret"], list) else [k["cret"]]
            comps = []
            for i, ck_ in enumerate(kinds):
                t = py2lean.Translator.proj("r", i, len(kinds))
                comps += [f"({t}).re", f"({t}).im"] if ck_ == "c" else [t]
            disp.append(f'  | "{name}", {n} => let r := TF.{py2lean.san(name)}{suffix} {args}; some #[{", ".join(comps)}]')
        elif k.get("tuple"):
            comps = ", ".join(py2lean.Translator.proj("r", i, k["ntuple"]) for i in range(k["ntuple"]))
            disp.append(f'  | "{name}", {n} => let r := TF.{py2lean.san(name)}{suffix} {args}; some #[{comps}]')
        else:
            disp.append(f'  | "{name}", {n} => some #[TF.{py2lean.san(name)}{suffix} {args}]')
        if k.get("rejects"):
            gargs = " ".join(f"a[{i}]!" for i in range(n))
            disp.append(f'  | "{name}!rejects", {n} => some #[if TF.{py2lean.san(name)}_rejects {gargs} then 1.0 else 0.0]')
    disp.append("  | _, _ => none\n")
    disp.append("end TF\n")
    if write_if_changed(os.path.join(base, "GenFloat", "Dispatch.lean"), "\n".join(disp)):
        changed.append("GenFloat/Dispatch.lean")
    # one dispatch table per module as well: a driver that imports only `Dispatch<Module>` keeps
    # building when ANOTHER source file changes into something untranslatable / ill-typed
    import re as _re
    name2mod = {key.split(".")[1]: key.split(".")[0] for key in report["functions"]}
    case_lines = [l for l in disp if l.startswith('  | "')]
    for mod in outputs:
        mine = [l for l in case_lines if name2mod.get(_re.match(r'\s*\| "([^"!.]+)', l).group(1)) == mod]
        txt = [f"import GenFloat.{mod}\n", "/-! GENERATED by tools/py2lean/gen_all.py — do not edit. name -> Float function. -/\n",
               "namespace TF\n", f"def dispatch{mod} (name : String) (a : Array Float) : Option (Array Float) :=",
               "  match name, a.size with"] + mine + ["  | _, _ => none\n", "end TF\n"]
        if write_if_changed(os.path.join(base, "GenFloat", f"Dispatch{mod}.lean"), "\n".join(txt)):
            changed.append(f"GenFloat/Dispatch{mod}.lean")
    report["changed"] = changed
    write_if_changed(os.path.join(base, "gen_report.json"), json.dumps(report, indent=1, sort_keys=True))
    return report


if __name__ == "__main__":
    r = generate()
    print("translated:", len(r["functions"]), "refused:", r["refused"], "changed:", r["changed"])
    sys.exit(0)
