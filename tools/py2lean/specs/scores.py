MODULE = ("Scores", "typhon/retrieval/scores.py", [
    {"name": "mape", "reduction": "nanmean"},
    {"name": "bias", "reduction": "mean"},
    # pointwise pinball loss; reshaping of the (n,k) estimates / (n,) observations is glue
    {"name": "quantile_score", "glue": [
        "taus = np.asarray(taus)",
        "m = taus.size",
        "y_tau = y_tau.reshape(-1, m)",
        "n = y_tau.shape[0]",
        "try:\n    y_test = y_test.reshape(n, 1)\nexcept:\n    raise ValueError('Shape of y_test is incompatible with y_tau and taus.')",
    ]},
    {"name": "mean_quantile_score", "reduction": "nanmean", "reduction_kwargs": {"axis": "0"}},
])
