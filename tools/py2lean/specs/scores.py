MODULE = ("Scores", "typhon/retrieval/scores.py", [
    {"name": "mape", "reduction": "nanmean"},
    {"name": "bias", "reduction": "mean"},
])
