MODULE = ("Em", "typhon/physics/em.py", [
    {"name": "planck"}, {"name": "planck_wavelength"}, {"name": "planck_wavenumber"},
    {"name": "rayleighjeans"}, {"name": "rayleighjeans_wavelength"},
    {"name": "radiance2planckTb"}, {"name": "radiance2rayleighjeansTb"},
    {"name": "frequency2wavelength"}, {"name": "frequency2wavenumber"},
    {"name": "wavelength2frequency"}, {"name": "wavelength2wavenumber"},
    {"name": "wavenumber2frequency"}, {"name": "wavenumber2wavelength"},
    # spectral-density converters: pointwise Jacobian; the grid reversal `[::-1]` is the
    # identity pointwise (as a list operation it is `List.reverse`, handled in the proofs)
    {"name": "perfrequency2perwavelength", "glue": ["ndim = len(perhz.shape) - 1", "shape = (perhz.shape[0],) + ndim * (1,)"]},
    {"name": "perwavelength2perfrequency", "glue": ["ndim = len(perm.shape) - 1", "shape = (perm.shape[0],) + ndim * (1,)"]},
    {"name": "perfrequency2perwavenumber"},
    {"name": "perwavenumber2perfrequency"},
    # real refractive indices (np.isreal(...) is True in the real-valued model)
    {"name": "snell"},
    {"name": "fresnel"},
    # complex refractive index n2 = n2re + i n2im of the reflecting medium (n1 real): second translation of the
    # SAME two functions.  np.isreal(n2) is decided False (Liou's branch of snell; it only uses np.real(n2) and
    # np.imag(n2), so snell_c is real-valued); fresnel_c returns two complex numbers (Mathlib ℂ / TF.Cplx pairs).
    {"name": "snell", "variant": "c", "complex_params": ["n2"]},
    {"name": "fresnel", "variant": "c", "complex_params": ["n2"]},
])
