MODULE = ("Em", "typhon/physics/em.py", [
    {"name": "planck"}, {"name": "planck_wavelength"}, {"name": "planck_wavenumber"},
    {"name": "rayleighjeans"}, {"name": "rayleighjeans_wavelength"},
    {"name": "radiance2planckTb"}, {"name": "radiance2rayleighjeansTb"},
    {"name": "frequency2wavelength"}, {"name": "frequency2wavenumber"},
    {"name": "wavelength2frequency"}, {"name": "wavelength2wavenumber"},
    {"name": "wavenumber2frequency"}, {"name": "wavenumber2wavelength"},
    # spectral-density converters: pointwise Jacobian; the grid reversal `[::-1]` is the
    # identity pointwise (as a list operation it is `List.reverse`, handled in the proofs)
    {"name": "perfrequency2perwavelength", "glue": ["ndim = len(perhz.shape) - 1", "shape = (perhz.shape[0],) + ndim * (1,)"]},
    {"name": "perwavelength2perfrequency", "glue": ["ndim = len(perm.shape) - 1", "shape = (perm.shape[0],) + ndim * (1,)"]},
    {"name": "perfrequency2perwavenumber"},
    {"name": "perwavenumber2perfrequency"},
    # real refractive indices (np.isreal(...) is True in the real-valued model)
    {"name": "snell"},
    {"name": "fresnel"},
])
