# Spec keys: name; fun_params {param: default function name} (function-valued parameters);
# glue [whole statements (ast.unparse text) skipped verbatim; an edited glue statement is a Refusal]; return_glue "<expr>" (`X[0] if flag else X` -> X);
# const_defaults True (constant default arguments become fixed lets); reduction "mean"|"nanmean"
# (top-level np.mean/np.nanmean over the samples: the pointwise term is emitted).
MODULE = ("Atmosphere", "typhon/physics/atmosphere.py", [
    {"name": "mixing_ratio2specific_humidity"},
    {"name": "mixing_ratio2vmr"},
    {"name": "specific_humidity2mixing_ratio"},
    {"name": "specific_humidity2vmr"},
    {"name": "vmr2mixing_ratio"},
    {"name": "vmr2specific_humidity"},
    {"name": "water_vapor_pressure2specific_humidity"},
    {"name": "density", "const_defaults": True},
    # second reading with the gas constant as a real parameter: TR.density_R p T R  (TR.density p T is its instance
    # R = constants.gas_constant_dry_air — `simp only [TR.density, TR.density_R]` proves that); for density(p, T, R_v)
    {"name": "density", "as": "density_R"},
    {"name": "e_eq_ice_mk"},
    {"name": "e_eq_water_mk"},
    {"name": "e_eq_mixed_mk", "glue": [
        "is_float_input = isinstance(T, Number) or np.ndim(T) == 0",
        "if is_float_input:\n    T = np.asarray([T])",
    ], "return_glue": "e_eq[0] if is_float_input else e_eq"},
    {"name": "relative_humidity2vmr", "fun_params": {"e_eq": "e_eq_water_mk"}},
    {"name": "vmr2relative_humidity", "fun_params": {"e_eq": "e_eq_water_mk"}},
    {"name": "moist_lapse_rate", "fun_params": {"e_eq": "e_eq_water_mk"}},
])
