"""Exact rational linear algebra for the "Fraction dialect" of py2lean_matrix (and for the C17
oracle).  Matrices are lists of rows of `fractions.Fraction`, vectors are lists of Fractions.
Independent of numpy/scipy/typhon.  `inv` is Gauss–Jordan with exact pivots and raises
`Singular` for a singular matrix (where Mathlib's `Matrix.inv` would return junk 0 and
scipy raises LinAlgError)."""
from fractions import Fraction


class Singular(Exception):
    pass


def mat(rows):
    return [[Fraction(x) for x in r] for r in rows]


def vec(xs):
    return [Fraction(x) for x in xs]


def shape(A):
    return (len(A), len(A[0]) if A else 0)


def eye(n):
    return [[Fraction(int(i == j)) for j in range(n)] for i in range(n)]


def transpose(A):
    r, c = shape(A)
    return [[A[i][j] for i in range(r)] for j in range(c)]


def matmul(A, B):
    ra, ca = shape(A)
    rb, cb = shape(B)
    if ca != rb:
        raise ValueError(f"matmul shapes {shape(A)} {shape(B)}")
    return [[sum((A[i][k] * B[k][j] for k in range(ca)), Fraction(0)) for j in range(cb)] for i in range(ra)]


def mulvec(A, v):
    ra, ca = shape(A)
    if ca != len(v):
        raise ValueError("mulvec shapes")
    return [sum((A[i][k] * v[k] for k in range(ca)), Fraction(0)) for i in range(ra)]


def vecmul(v, A):
    ra, ca = shape(A)
    if ra != len(v):
        raise ValueError("vecmul shapes")
    return [sum((v[k] * A[k][j] for k in range(ra)), Fraction(0)) for j in range(ca)]


def _zip(A, B, f):
    if A and isinstance(A[0], list):
        if shape(A) != shape(B):
            raise ValueError("shapes differ")
        return [[f(a, b) for a, b in zip(ra, rb)] for ra, rb in zip(A, B)]
    if len(A) != len(B):
        raise ValueError("shapes differ")
    return [f(a, b) for a, b in zip(A, B)]


def add(A, B):
    return _zip(A, B, lambda a, b: a + b)


def sub(A, B):
    return _zip(A, B, lambda a, b: a - b)


def neg(A):
    if A and isinstance(A[0], list):
        return [[-a for a in r] for r in A]
    return [-a for a in A]


def inv(A):
    n, c = shape(A)
    if n != c:
        raise ValueError("inverse of a non-square matrix")
    M = [list(A[i]) + [Fraction(int(i == j)) for j in range(n)] for i in range(n)]
    for col in range(n):
        piv = next((r for r in range(col, n) if M[r][col] != 0), None)
        if piv is None:
            raise Singular()
        M[col], M[piv] = M[piv], M[col]
        p = M[col][col]
        M[col] = [x / p for x in M[col]]
        for r in range(n):
            if r != col and M[r][col] != 0:
                f = M[r][col]
                M[r] = [x - f * y for x, y in zip(M[r], M[col])]
    return [row[n:] for row in M]


def tofloat(A):
    if A and isinstance(A[0], list):
        return [[float(a) for a in r] for r in A]
    return [float(a) for a in A]
