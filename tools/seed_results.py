#!/usr/bin/env python3
"""Runs bin/seedtest on every seeded/<id>/ (or the ones given) and records the outcome in its meta.json
(keys check_result, caught_by, replay_what)."""
import glob, json, os, subprocess, sys
ROOT = os.path.dirname(os.path.dirname(os.path.abspath(__file__)))
dirs = [os.path.join(ROOT, "seeded", a) for a in sys.argv[1:]] or sorted(glob.glob(os.path.join(ROOT, "seeded", "*")))
for d in dirs:
    if not os.path.exists(os.path.join(d, "meta.json")):
        continue
    p = subprocess.run([os.path.join(ROOT, "bin", "seedtest"), d], capture_output=True, text=True)
    line = (p.stdout.strip().splitlines() or [""])[-1]
    meta = json.load(open(os.path.join(d, "meta.json")))
    meta["check_result"] = line
    caught = "VIOLATION" in line and p.returncode == 0
    what = ""
    if caught and "replay=" in line:
        rp = line.split("replay=")[1].split()[0]
        try:
            o = json.load(open(os.path.join(ROOT, rp)))
            what = (o.get("what") or "")[:300]
            broken = o.get("broken_obligations") or []
            meta["broken_obligations"] = broken[:4]
        except Exception:
            pass
    meta["replay_what"] = what
    if caught:
        how = []
        if meta.get("broken_obligations"):
            how.append("broken proof obligation(s)")
        if "no-failing-input-found" in line:
            how.append("no failing input found")
        else:
            how.append("failing input found on the real code")
        meta["caught_by"] = f"bin/check {meta['property']} (quick): " + " + ".join(how) + (f" — {what[:160]}" if what else "")
    else:
        meta["caught_by"] = "MISSED by the quick check"
    json.dump(meta, open(os.path.join(d, "meta.json"), "w"), indent=1)
    print(os.path.basename(d), "->", meta["caught_by"][:150])
