"""Shared machinery for all property checks (see tools/harness/README.md).

A property script does

    ck = Check("C03", pkg="fileset", props="Proofs.Props.C03", driver="drv_c03",
               lemma_files=["Proofs/Lemmas/IntervalTree.lean"])
    ck.build()                      # lake build + axiom audit  -> ck.build_ok
    ... correspondence: ck.driver(lines), ck.case(...), ck.disagree(...)
    ... oracle on the real code:    ck.violation(...)
    if ck.broken(): ... failing-input search with a larger budget ...
    ck.finish()                     # verdict, evidence, exit code

Exit codes: 0 property held on everything explored; 1 VIOLATION; 2 infrastructure error.
"""
import ast
import fcntl
import hashlib
import json
import os
import random
import re
import subprocess
import sys
import time
import traceback

ROOT = os.path.dirname(os.path.dirname(os.path.dirname(os.path.abspath(__file__))))
REPO = os.environ.get("TYPHON_REPO", "/repo")
ALLOWED_AXIOMS = {"propext", "Classical.choice", "Quot.sound"}
TRUSTED_COMMON = [
    "Lean 4.33.0 kernel (thorough tier: leanchecker re-check of the compiled modules)",
    "axioms propext, Classical.choice, Quot.sound only (enforced by assert_axioms at build time and re-audited each run)",
    "Mathlib v4.33.0 as a library of kernel-checked theorems",
]


class InfraError(Exception):
    pass


def _strip_comments(text):
    """remove Lean block comments (nested) and line comments"""
    out = []
    i, depth, n = 0, 0, len(text)
    while i < n:
        if text.startswith("/-", i):
            depth += 1
            i += 2
        elif depth and text.startswith("-/", i):
            depth -= 1
            i += 2
        elif depth:
            if text[i] == "\n":
                out.append("\n")
            i += 1
        elif text.startswith("--", i):
            while i < n and text[i] != "\n":
                i += 1
        else:
            out.append(text[i])
            i += 1
    return "".join(out)


def lean_theorems(path):
    """Fully qualified names of the non-private theorems/lemmas of a Lean file."""
    text = _strip_comments(open(path, encoding="utf-8").read())
    ns, names = [], []
    for line in text.splitlines():
        m = re.match(r"\s*namespace\s+(\S+)", line)
        if m:
            ns.append(m.group(1))
            continue
        m = re.match(r"\s*end\s+(\S+)\s*$", line)
        if m and ns and ns[-1] == m.group(1):
            ns.pop()
            continue
        m = re.match(r"\s*(?:@\[[^\]]*\]\s*)?(?:protected\s+)?(theorem|lemma)\s+([^\s:({\[]+)", line)
        if m and not re.match(r"\s*private", line):
            names.append(".".join(ns + [m.group(2)]))
    return names


def forbidden_tokens(paths):
    """textual scan (comments stripped) for constructs we never allow"""
    bad = []
    pat = re.compile(r"\b(sorry|admit|native_decide|bv_decide|implemented_by|unsafe)\b|^\s*axiom\s|maxHeartbeats\s+0\b", re.M)
    for p in paths:
        if not os.path.exists(p):
            continue
        for m in pat.finditer(_strip_comments(open(p, encoding="utf-8").read())):
            bad.append(f"{os.path.relpath(p, ROOT)}: {m.group(0).strip()}")
    return bad


def ast_hash(relpath, qualname=None):
    """hash of a function/class AST of the repo (docstrings stripped)"""
    src = open(os.path.join(REPO, relpath), encoding="utf-8").read()
    tree = ast.parse(src)
    node = tree
    if qualname:
        for part in qualname.split("."):
            found = None
            for ch in ast.walk(node):
                if isinstance(ch, (ast.FunctionDef, ast.ClassDef, ast.AsyncFunctionDef)) and ch.name == part:
                    found = ch
                    break
            if found is None:
                return "missing"
            node = found
    for n in ast.walk(node):
        if isinstance(n, (ast.FunctionDef, ast.ClassDef, ast.Module, ast.AsyncFunctionDef)):
            if n.body and isinstance(n.body[0], ast.Expr) and isinstance(getattr(n.body[0], "value", None), ast.Constant) \
                    and isinstance(n.body[0].value.value, str):
                n.body = n.body[1:] or [ast.Pass()]
    return hashlib.sha256(ast.dump(node, include_attributes=False).encode()).hexdigest()[:16]


class Check:
    def __init__(self, prop, pkg, props, driver=None, lemma_files=(), model_files=(),
                 extra_targets=(), trusted=(), assumptions=(), tier=None, seed=None, more_props=()):
        global CURRENT
        CURRENT = self
        self.prop = prop
        self.pkg = pkg
        self.pkgdir = os.path.join(ROOT, "lean", pkg)
        self.props = props                      # e.g. "Proofs.Props.C03"
        self.props_file = os.path.join(self.pkgdir, props.replace(".", "/") + ".lean")
        # further modules of PROPERTY theorems (same status as `props`)
        self.more_props = list(more_props)
        self.props_files = [self.props_file] + [os.path.join(self.pkgdir, m.replace(".", "/") + ".lean")
                                                for m in self.more_props]
        self.driver_name = driver
        self.lemma_files = [os.path.join(self.pkgdir, f) for f in lemma_files]
        self.model_files = [os.path.join(self.pkgdir, f) for f in model_files]
        self.extra_targets = list(extra_targets)
        self.tier = tier or os.environ.get("VERIF_TIER", "quick")
        self.seed = int(seed if seed is not None else os.environ.get("VERIF_SEED", "0"))
        self.rng = random.Random(self.seed * 1000003 + int(prop[1:]))
        self.t0 = time.time()
        self.trusted = TRUSTED_COMMON + list(trusted)
        self.assumptions = list(assumptions)
        self.build_ok = None
        self.build_log = ""
        self.broken_obligations = []            # names / descriptions
        self.audit = {}                         # theorem -> axioms
        self.obligations = 0
        self.discharged = 0
        self.checker_cmd = ""
        self.evaluations = 0
        self.nontrivial = set()
        self.samples = []
        self.dist = {}
        self.disagreements = []                 # model vs implementation
        self.violations = []                    # real code vs oracle (dicts)
        self.notes = []
        self.anchors_changed = []
        self.budget_factor = 1
        self.exhaustive = False
        self.rule = ""
        self.extra_cov = {}
        self._driver_proc = None

    # ------------------------------------------------------------------ budgets
    def budget(self, quick, thorough):
        n = quick if self.tier == "quick" else thorough
        # VERIF_BUDGET_FACTOR: testing aid (soak runs / simulating the boost after anchor drift on a clean tree)
        return int(n * self.budget_factor * float(os.environ.get("VERIF_BUDGET_FACTOR", "1")))

    def anchors(self, items):
        """items: list of (relpath, qualname).  A changed AST hash multiplies the
        correspondence budget by 3 (quick) / 2 (thorough) for this run (never a violation by itself)."""
        base_file = os.path.join(ROOT, "tools", "harness", "anchors", f"{self.prop}.json")
        old = json.load(open(base_file)) if os.path.exists(base_file) else {}
        cur = {}
        for rel, q in items:
            key = f"{rel}::{q or ''}"
            try:
                cur[key] = ast_hash(rel, q)
            except Exception as e:  # unparsable source etc.
                cur[key] = f"error:{type(e).__name__}"
        if os.environ.get("VERIF_RECORD_ANCHORS"):
            os.makedirs(os.path.dirname(base_file), exist_ok=True)
            json.dump(cur, open(base_file, "w"), indent=1, sort_keys=True)
            return
        self.anchors_changed = [k for k, v in cur.items() if old.get(k) not in (None, v)]
        if self.anchors_changed:
            self.budget_factor = 3 if self.tier == "quick" else 2      # more cases, but the quick tier must stay quick

    # ------------------------------------------------------------------ lean
    def _pkg_lock(self):
        os.makedirs(os.path.join(self.pkgdir, ".lake"), exist_ok=True)
        lock = open(os.path.join(self.pkgdir, ".lake", "verif.lock"), "w")
        fcntl.flock(lock, fcntl.LOCK_EX)
        return lock

    def _lake_raw(self, args, timeout=3600):
        try:
            p = subprocess.run(["lake"] + args, cwd=self.pkgdir, capture_output=True, text=True,
                               timeout=timeout)
            return p.returncode, p.stdout + p.stderr
        except subprocess.TimeoutExpired:
            raise InfraError("lake timed out")

    def _lake(self, args, timeout=3600):
        """one lake command under the package lock; inside build() the lock is already held (one critical
        section for delete + build + audit, so that a concurrent run can never see half of it)"""
        if getattr(self, "_have_pkg_lock", False):
            return self._lake_raw(args, timeout)
        lock = self._pkg_lock()
        try:
            return self._lake_raw(args, timeout)
        finally:
            fcntl.flock(lock, fcntl.LOCK_UN)
            lock.close()

    def lock_package(self):
        """Hold an exclusive lock on the lake package for the rest of this process.  Needed by
        translator-tied checks: regeneration rewrites files inside the package and must not
        interleave with another run (e.g. a seeded-change run with another TYPHON_REPO)."""
        os.makedirs(os.path.join(self.pkgdir, ".lake"), exist_ok=True)
        self._runlock = open(os.path.join(self.pkgdir, ".lake", "verif-run.lock"), "w")
        fcntl.flock(self._runlock, fcntl.LOCK_EX)

    def guard(self, fn, case=None, what="real code"):
        """Run fn(); an exception raised from INSIDE the library under test becomes a violation
        (the property's inputs are valid), an exception from the harness itself stays an
        infrastructure error."""
        try:
            return fn()
        except (SystemExit, InfraError):
            raise
        except Exception as e:
            tb = traceback.extract_tb(e.__traceback__)
            repo = os.path.realpath(REPO)
            inside = [f for f in tb if os.path.realpath(f.filename).startswith(os.path.join(repo, "typhon"))]
            if not inside:
                raise
            last = inside[-1]
            self.violation("raised", f"{what} raised {type(e).__name__}: {str(e)[:200]} at {os.path.relpath(last.filename, repo)}:{last.lineno}",
                           case if case is not None else {"fn": "exception", "traceback": [f"{os.path.basename(f.filename)}:{f.lineno} {f.name}" for f in tb[-6:]]})
            return None

    def regenerate(self):
        """hook for translator-tied properties: overwritten by gen-based checks"""
        return True

    def build(self, clean=False):
        """lake build of the property's theorems (+ driver) and the axiom audit, as ONE critical section under the
        package lock.  Sets build_ok, broken_obligations, obligations, discharged."""
        lock = self._pkg_lock()
        self._have_pkg_lock = True
        try:
            return self._build_locked(clean)
        finally:
            self._have_pkg_lock = False
            fcntl.flock(lock, fcntl.LOCK_UN)
            lock.close()

    def _build_locked(self, clean=False):
        targets = [self.props] + self.more_props + self.extra_targets + ([self.driver_name] if self.driver_name else [])
        if clean or (self.tier == "thorough" and os.environ.get("VERIF_NO_CLEAN") is None):
            # rebuild the property's own modules from scratch (not Mathlib)
            lib = os.path.join(self.pkgdir, ".lake", "build", "lib", "lean")
            for f in self.props_files + self.lemma_files:
                rel = os.path.relpath(f, self.pkgdir)[:-5]
                for ext in (".olean", ".ilean", ".trace", ".olean.hash", ".ilean.hash"):
                    try:
                        os.remove(os.path.join(lib, rel + ext))
                    except OSError:
                        pass
        rc, log = self._lake(["build"] + targets)
        self.build_log = log
        names = []
        for f in self.props_files:
            if os.path.exists(f):
                names += lean_theorems(f)
            else:
                self.broken_obligations.append(f"property theorem file missing: {os.path.relpath(f, self.pkgdir)}")
        lemma_names = []
        for f in self.lemma_files:
            if os.path.exists(f):
                lemma_names += lean_theorems(f)
        self.theorem_names = names
        self.obligations = len(names) + len(lemma_names)
        self.n_property_theorems = len(names)
        self.checker_cmd = (f"cd lean/{self.pkg} && lake build {' '.join(targets)} && lake env lean .lake/audit_{self.prop}.lean"
                            f"   # the audit file (written by the check) asserts the axioms of {len(names)} property theorems + {len(lemma_names)} helper lemmas")
        tok = forbidden_tokens(self.props_files + self.lemma_files + self.model_files)
        if tok:
            self.broken_obligations.append("forbidden construct: " + "; ".join(tok[:5]))
        if rc != 0:
            self.build_ok = False
            errs = [l for l in log.splitlines() if l.startswith("error:")]
            self.broken_obligations += self._errors_to_theorems(errs) or ["lake build failed"]
            self.discharged = 0
            # which theorems still check?  audit what can be audited is impossible
            # without the olean; leave discharged = 0.
            if not names:
                self.broken_obligations.append("no property theorems found")
            return False
        # audit run (re-derives the axioms of every theorem from the compiled modules)
        mods = [self.props] + self.more_props + [os.path.relpath(f, self.pkgdir)[:-5].replace("/", ".") for f in self.lemma_files]
        audit_src = "".join(f"import {m}\n" for m in dict.fromkeys(mods + ["Proofs.Audit"]))
        allnames = names + lemma_names
        for i in range(0, len(allnames), 40):
            audit_src += "assert_axioms " + " ".join(allnames[i:i + 40]) + "\n"
        apath = os.path.join(self.pkgdir, ".lake", f"audit_{self.prop}.lean")
        open(apath, "w").write(audit_src)
        rc2, alog = self._lake(["env", "lean", apath])
        for m in re.finditer(r"AUDIT (\S+) : \[([^\]]*)\]", alog):
            self.audit[m.group(1)] = [a.strip() for a in m.group(2).split(",") if a.strip()]
        failed = re.findall(r"AUDIT-FAIL (\S+)", alog)
        missing = [n for n in allnames if n not in self.audit and n not in failed]
        if rc2 != 0 or failed or missing:
            self.build_ok = False
            self.broken_obligations += [f"axiom audit failed: {n}" for n in failed] + \
                                       [f"not audited: {n}" for n in missing[:10]]
            if rc2 != 0 and not failed and not missing:
                self.broken_obligations.append("audit run failed: " + alog[-300:])
        else:
            self.build_ok = not self.broken_obligations
        self.discharged = sum(1 for n in allnames if n in self.audit and set(self.audit[n]) <= ALLOWED_AXIOMS)
        if not names:
            self.build_ok = False
            self.broken_obligations.append("no property theorems found")
        if self.tier == "thorough" and self.build_ok and os.environ.get("VERIF_NO_LEANCHECKER") is None:
            rc3, clog = self._lake(["env", "leanchecker"] + mods, timeout=3600)
            self.extra_cov["leanchecker"] = "ok" if rc3 == 0 else "FAILED"
            if rc3 != 0:
                self.build_ok = False
                self.broken_obligations.append("leanchecker rejected: " + clog[-300:])
        return self.build_ok

    def _errors_to_theorems(self, errs):
        """map 'error: File.lean:LINE:COL: msg' to the enclosing theorem name"""
        out = []
        for e in errs:
            m = re.match(r"error: (\S+\.lean):(\d+):\d+: (.*)", e)
            if not m:
                continue
            f, line, msg = m.group(1), int(m.group(2)), m.group(3)
            path = os.path.join(self.pkgdir, f)
            name = None
            if os.path.exists(path):
                src = open(path, encoding="utf-8").read().splitlines()
                for i in range(min(line, len(src)) - 1, -1, -1):
                    mm = re.match(r"\s*(?:private\s+)?(?:theorem|lemma|def|example|instance)\s*([^\s:({\[]*)", src[i])
                    if mm:
                        name = mm.group(1) or "example"
                        break
            out.append(f"{f}:{line} {name or '?'}: {msg[:160]}")
        return out[:12]

    # ------------------------------------------------------------------ driver
    def driver(self, lines, exe=None, timeout=600):
        """run the compiled model driver on protocol lines; returns output lines"""
        exe = exe or self.driver_name
        path = os.path.join(self.pkgdir, ".lake", "build", "bin", exe)
        if not os.path.exists(path):
            raise InfraError(f"driver {exe} not built")
        data = "".join(l + "\n" for l in lines)
        try:
            p = subprocess.run([path], input=data, capture_output=True, text=True, timeout=timeout)
        except subprocess.TimeoutExpired:
            raise InfraError("driver timed out")
        if p.returncode != 0:
            raise InfraError(f"driver {exe} exited {p.returncode}: {p.stderr[-300:]}")
        out = p.stdout.splitlines()
        if len(out) != len(lines):
            raise InfraError(f"driver {exe}: {len(lines)} lines in, {len(out)} out")
        return out

    # ------------------------------------------------------------------ recording
    def case(self, key=None, sample=None, kind=None):
        """count one explored case; `key` (hashable) identifies a distinct non-trivial
        case (None = trivial); `kind` feeds the distribution histogram"""
        self.evaluations += 1
        if key is not None:
            self.nontrivial.add(key if isinstance(key, (str, int, tuple)) else repr(key))
        if kind is not None:
            self.dist[kind] = self.dist.get(kind, 0) + 1
        if sample is not None and len(self.samples) < 6:
            self.samples.append(sample)

    def count(self, kind, n=1):
        self.dist[kind] = self.dist.get(kind, 0) + n

    def disagree(self, what, case):
        """model and implementation differ on `case` (not yet a violation)"""
        if len(self.disagreements) < 50:
            self.disagreements.append({"what": what, "case": case})

    def violation(self, signature, what, case):
        """the REAL code contradicts the property on the concrete `case`"""
        if len(self.violations) < 200:
            self.violations.append({"signature": signature, "what": what, "case": case})

    def broken(self):
        return (self.build_ok is False) or bool(self.disagreements)

    # ------------------------------------------------------------------ verdict
    def _known(self):
        p = os.path.join(ROOT, "known_findings.json")
        if not os.path.exists(p):
            return []
        return [e for e in json.load(open(p)) if e.get("property") == self.prop]

    def finish(self):
        self._finishing = True
        known = self._known()
        finding_sigs = {e["signature"]: e for e in known if e.get("kind") == "finding"}
        listed, unlisted = [], []
        for v in self.violations:
            (listed if v["signature"] in finding_sigs else unlisted).append(v)
        replay = None
        verdict = "ok"
        if unlisted:
            verdict = "violation"
            v = min(unlisted, key=lambda v: len(json.dumps(v["case"], default=str)))
            replay = self._write_replay({"kind": "failing-input", "property": self.prop, **v,
                                         "seed": self.seed, "tier": self.tier,
                                         "broken_obligations": self.broken_obligations,
                                         "n_violations": len(unlisted)})
        elif self.broken():
            verdict = "violation-no-input"
            replay = self._write_replay({
                "kind": "no-failing-input-found", "property": self.prop,
                "seed": self.seed, "tier": self.tier,
                "broken_obligations": self.broken_obligations,
                "correspondence_disagreements": self.disagreements[:10],
                "build_log_tail": self.build_log[-3000:] if self.build_ok is False else "",
                "searched": self.evaluations,
            })
        self._write_evidence(verdict, len(unlisted))
        seen = set()
        for v in listed:
            if v["signature"] not in seen:
                seen.add(v["signature"])
                print(f"KNOWN-FINDING: property={self.prop} {finding_sigs[v['signature']].get('what', v['what'])}")
        if verdict == "ok":
            print(f"OK property={self.prop} tier={self.tier} seed={self.seed} theorems={self.discharged}/{self.obligations} "
                  f"cases={self.evaluations} nontrivial={len(self.nontrivial)} wall={time.time() - self.t0:.1f}s")
            sys.exit(0)
        rel = os.path.relpath(replay, ROOT)
        if verdict == "violation":
            print(f"VIOLATION property={self.prop} replay={rel}")
        else:
            print(f"VIOLATION property={self.prop} replay={rel} no-failing-input-found")
        sys.exit(1)

    def _write_replay(self, obj):
        d = os.path.join(ROOT, "evidence", "replay")
        os.makedirs(d, exist_ok=True)
        blob = json.dumps(obj, indent=1, default=str, sort_keys=True)
        h = hashlib.sha256(blob.encode()).hexdigest()[:10]
        path = os.path.join(d, f"{self.prop}-{h}.json")
        open(path, "w").write(blob)
        return path

    def _write_evidence(self, verdict, nviol):
        cov = {
            "obligations": max(self.obligations, 1),
            "discharged": self.discharged,
            "checker_cmd": self.checker_cmd or "lake build",
            "trusted_base": self.trusted,
            "property_theorems": getattr(self, "n_property_theorems", 0),
            "helper_lemmas": max(self.obligations - getattr(self, "n_property_theorems", 0), 0),
            "theorems": {k: self.audit.get(k, "NOT-CHECKED") for k in getattr(self, "theorem_names", [])},
            "broken_obligations": self.broken_obligations,
            "evaluations": self.evaluations,
            "distinct_nontrivial": len(self.nontrivial),
            "rule": self.rule,
            "samples": self.samples or ["(no case explored)"],
            "distribution": self.dist,
            "correspondence_disagreements": len(self.disagreements),
            "anchors_changed": self.anchors_changed,
            "exhaustive": self.exhaustive,
            "verdict": verdict,
            "notes": self.notes,
        }
        cov.update(self.extra_cov)
        if not self.discharged:
            # a run whose proofs did not build discharges nothing: report it under another key so
            # that the evidence stays valid (generic counts) instead of claiming a proof
            cov["discharged_count"] = cov.pop("discharged")
        ev = {
            "property_id": self.prop, "tier": self.tier, "seed": self.seed, "level": "proof",
            "coverage": cov, "assumptions": self.assumptions,
            "wall_s": round(time.time() - self.t0, 2), "violations": nviol,
        }
        d = os.environ.get("VERIF_EVIDENCE_DIR") or os.path.join(ROOT, "evidence")
        os.makedirs(d, exist_ok=True)
        tmp = os.path.join(d, f".{self.prop}.json.{os.getpid()}.tmp")
        json.dump(ev, open(tmp, "w"), indent=1, default=str)
        os.replace(tmp, os.path.join(d, f"{self.prop}.json"))


def load_corpus(prop):
    d = os.path.join(ROOT, "corpus", prop)
    out = []
    if os.path.isdir(d):
        for f in sorted(os.listdir(d)):
            if f.endswith(".json"):
                out.append((f, json.load(open(os.path.join(d, f)))))
    return out


CURRENT = None        # the Check of this process (set by Check.__init__)


def main_wrapper(fn):
    """run a property main.  Infrastructure errors (InfraError, OS-level errors of the harness itself) -> exit 2,
    never a VIOLATION.  Any OTHER exception that escapes the exploration is attributed to the code under test: it is
    either raised inside the library on an input the property admits, or it arises while the harness interprets what
    the library returned (wrong shape / type / missing key).  The same deterministic harness passes on the unchanged
    code, so the changed behaviour is the cause: it is reported as a violation with the traceback as replay, instead
    of hiding a real break behind "infrastructure"."""
    try:
        fn()
    except SystemExit:
        raise
    except InfraError as e:
        print(f"INFRA-ERROR {e}", file=sys.stderr)
        sys.exit(2)
    except Exception as e:
        traceback.print_exc()
        ck = CURRENT
        tb = traceback.extract_tb(e.__traceback__)
        repo = os.path.realpath(REPO)
        inside = [f for f in tb if os.path.realpath(f.filename).startswith(os.path.join(repo, "typhon"))]
        # resource problems of the machine are infrastructure; a missing / unexpected file is not (the harness only
        # touches files the code under test was supposed to create, and it passes on the unchanged code)
        import errno as _errno
        os_level = (isinstance(e, MemoryError)
                    or (isinstance(e, OSError) and not inside
                        and getattr(e, "errno", None) in (_errno.ENOSPC, _errno.EACCES, _errno.EPERM, _errno.EMFILE, _errno.ENFILE,
                                                          _errno.EROFS, _errno.EIO, _errno.ENOMEM, _errno.EDQUOT)))
        if ck is None or getattr(ck, "_finishing", False) or os_level or os.environ.get("VERIF_HARNESS_EXC_IS_INFRA"):
            print("INFRA-ERROR unexpected exception in harness", file=sys.stderr)
            sys.exit(2)
        last = (inside or tb)[-1]
        where = (os.path.relpath(last.filename, repo) if inside else os.path.basename(last.filename)) + f":{last.lineno}"
        ck.violation("raised" if inside else "harness-exception",
                     f"{type(e).__name__}: {str(e)[:200]} at {where} "
                     + ("(raised inside the library on an input the property admits)" if inside else
                        "(while the harness interpreted what the library returned; the same harness passes on the unchanged code)"),
                     {"fn": "exception", "traceback": [f"{os.path.basename(f.filename)}:{f.lineno} {f.name}" for f in tb[-8:]],
                      "last_sample": ck.samples[-1] if ck.samples else None})
        ck.finish()
