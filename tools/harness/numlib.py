"""Support for translator-tied (numerical) properties: regenerate the Lean model from /repo,
cross-run the Float instance of the translated functions against numpy."""
import math
import os
import struct
import sys

import vlib

sys.path.insert(0, os.path.join(vlib.ROOT, "tools", "py2lean"))


def regenerate(ck, needed):
    """Regenerate lean/numeric/Gen*/ from the current source.  `needed`: list of
    'Module.function' the property's theorems are about.  A refusal of one of them is a
    broken tie (recorded as broken obligation)."""
    import importlib
    import gen_all
    ck.lock_package()        # regeneration + build + driver runs of this check are one critical section
    importlib.reload(gen_all)
    rep = gen_all.generate()
    ck.extra_cov["translator"] = {"changed_files": rep["changed"],
                                  "translated": sorted(k for k in rep["functions"] if k in needed),
                                  "refused": {k: v for k, v in rep["refused"].items() if k in needed}}
    for k in needed:
        if k in rep["refused"]:
            ck.broken_obligations.append(f"translator refused {k}: {rep['refused'][k]}")
        elif k not in rep["functions"]:
            ck.broken_obligations.append(f"translator has no spec for {k}")
    if any(k in rep["refused"] for k in needed):
        ck.build_ok = False
    return rep


def bits(x):
    return struct.unpack("<Q", struct.pack("<d", float(x)))[0]


def unbits(b):
    return struct.unpack("<d", struct.pack("<Q", int(b)))[0]


def nextup(x):
    return math.nextafter(x, math.inf)


def float_cross(ck, calls, rtol=1e-9, cond_limit=1e6, exe="drv_num"):
    """calls: list of (name, args tuple, python_value or tuple).  Runs the compiled Float model
    on the same doubles (bit patterns) and compares.  Ill-conditioned points (a 1-ulp input
    perturbation moves the Lean result by more than cond_limit ulp-equivalents) are counted but
    not compared tightly.  Returns number of compared points."""
    lines, meta = [], []
    for name, args, val in calls:
        lines.append(name + " " + " ".join(str(bits(a)) for a in args))
        meta.append((name, args, val, "main"))
        for i in range(len(args)):
            pa = list(args)
            pa[i] = nextup(pa[i])
            lines.append(name + " " + " ".join(str(bits(a)) for a in pa))
            meta.append((name, args, val, "pert"))
    out = ck.driver(lines, exe=exe)
    compared = 0
    i = 0
    while i < len(lines):
        name, args, val, _ = meta[i]
        main = out[i]
        perts = []
        j = i + 1
        while j < len(lines) and meta[j][3] == "pert":
            perts.append(out[j])
            j += 1
        i = j
        if main in ("unknown", "bad-op"):
            ck.disagree(f"Float model has no function {name} ({main})", {"fn": name})
            continue
        mvals = [unbits(t) for t in main.split()]
        pvals = val if isinstance(val, (tuple, list)) else (val,)
        if len(mvals) != len(pvals):
            ck.disagree(f"{name}: arity of result differs", {"fn": name, "args": list(args)})
            continue
        for k, (m, p) in enumerate(zip(mvals, pvals)):
            p = float(p)
            if math.isnan(m) or math.isnan(p):
                if math.isnan(m) != math.isnan(p):
                    ck.disagree(f"{name}{args}: NaN mismatch model={m} numpy={p}", {"fn": name, "args": list(args)})
                ck.count("xrun/nan")
                continue
            if math.isinf(m) or math.isinf(p):
                if m != p:
                    ck.disagree(f"{name}{args}: inf mismatch model={m} numpy={p}", {"fn": name, "args": list(args)})
                continue
            # conditioning estimate from the perturbed runs
            scale = max(abs(m), 1e-300)
            sens = 0.0
            for pt in perts:
                pv = [unbits(t) for t in pt.split()]
                if k < len(pv) and not math.isnan(pv[k]) and not math.isinf(pv[k]):
                    sens = max(sens, abs(pv[k] - m) / scale)
            if sens > cond_limit * 2.3e-16:
                ck.count("xrun/ill-conditioned")
                # still catch O(1) discrepancies
                if abs(m - p) > 1e-3 * max(abs(m), abs(p)) + 1e-300 and abs(m - p) > 100 * sens * scale:
                    ck.disagree(f"{name}{args}: model={m!r} numpy={p!r}", {"fn": name, "args": list(args)})
                continue
            compared += 1
            if abs(m - p) > rtol * max(abs(m), abs(p)) + 1e-300:
                ck.disagree(f"{name}{args}: model={m!r} numpy={p!r} (rel {abs(m - p) / max(abs(m), abs(p), 1e-300):.3g})",
                            {"fn": name, "args": list(args), "model": m, "numpy": p})
    ck.count("xrun/compared", compared)
    return compared


def loguniform(rng, lo, hi):
    return math.exp(rng.uniform(math.log(lo), math.log(hi)))


def replay_by_rerun(prop, path, make_ck, explore):
    """Generic replay for generated (seeded) cases: re-run the deterministic exploration with the
    recorded seed and tier on the real code (oracle only, no model) and report whether a violation
    with the recorded case appears again.  Exit 1 if it reproduces, 0 otherwise."""
    import json
    import os
    obj = json.load(open(path))
    if obj.get("kind") != "failing-input" or "case" not in obj:
        print(json.dumps(obj, indent=1)[:3000])
        print("NOT-REPLAYABLE: this replay names a broken proof obligation / correspondence, no failing input was found")
        raise SystemExit(1)
    os.environ["VERIF_SEED"] = str(obj.get("seed", 0))
    os.environ["VERIF_TIER"] = str(obj.get("tier", "quick"))
    os.environ["VERIF_EVIDENCE_DIR"] = "/tmp"
    ck = make_ck()
    explore(ck)
    want = json.dumps(obj["case"], sort_keys=True, default=str)
    hits = [v for v in ck.violations if json.dumps(v["case"], sort_keys=True, default=str) == want]
    same_kind = [v for v in ck.violations if v["what"][:40] == str(obj.get("what", ""))[:40]]
    for v in (hits or same_kind)[:3]:
        print("REPRODUCED:", v["what"])
    if not hits and not same_kind:
        print(f"not reproduced on the current code ({len(ck.violations)} other violations)")
    raise SystemExit(1 if (hits or same_kind) else 0)


# ---------------------------------------------------------------------------------------------
# generic "glue" checks for numerical functions: the translator sees only the arithmetic, so
# aliasing, dtype conversions and memory layout are exercised on the real code here.

def relayout(np, rng, a):
    """the same values in a different memory layout: (array, tag)"""
    a = np.asarray(a)
    k = rng.choice(["C", "F", "strided", "negstride", "readonly"])
    if k == "C" or a.ndim == 0:
        return np.ascontiguousarray(a), "C"
    if k == "F":
        return (np.asfortranarray(a) if a.ndim >= 2 else a.copy()), "F"
    if k == "strided":
        big = np.zeros(tuple(2 * s for s in a.shape), dtype=a.dtype)
        sl = tuple(slice(None, None, 2) for _ in a.shape)
        big[sl] = a
        return big[sl], "strided"
    if k == "negstride":
        sl = tuple(slice(None, None, -1) for _ in a.shape)
        return a[sl].copy()[sl], "negstride"
    r = a.copy()
    r.setflags(write=False)
    return r, "readonly"


def same(np, u, v, rtol=0.0):
    u, v = np.asarray(u), np.asarray(v)
    if u.shape != v.shape:
        return False
    if u.dtype.kind in "OUS" or v.dtype.kind in "OUS":
        return bool(np.all(u == v))
    return bool(np.all((u == v) | (np.isnan(u) & np.isnan(v)) | (np.abs(u - v) <= rtol * np.maximum(np.abs(u), np.abs(v)))))


def pure_call(ck, np, fn, args, what, case, rtol=0.0, kwargs=None):
    """call fn(*args) twice on array arguments: the arguments must not be modified, the second call must give
    the same result (no state carried over, no in-place update of something a callback returned), and a call
    on re-laid-out copies (Fortran order / strided / negative strides / read-only) must give the same values.
    Returns the first result (or None after a violation)."""
    kwargs = kwargs or {}
    arrs = [np.array(a, copy=True) if isinstance(a, np.ndarray) else a for a in args]
    before = [a.copy() if isinstance(a, np.ndarray) else a for a in arrs]
    r1 = fn(*arrs, **kwargs)
    r1c = np.array(r1, copy=True) if not isinstance(r1, tuple) else tuple(np.array(t, copy=True) for t in r1)
    for i, (a, b) in enumerate(zip(arrs, before)):
        if isinstance(a, np.ndarray) and not same(np, a, b):
            ck.violation("argument-modified", f"{what} modified its argument #{i} in place", case)
            return None
    r2 = fn(*arrs, **kwargs)
    pairs = list(zip(r1c, r2)) if isinstance(r1c, tuple) else [(r1c, r2)]
    if not all(same(np, u, v) for u, v in pairs):
        ck.violation("not-repeatable", f"{what}: a second identical call returned a different result (state carried over / in-place update)", case)
        return None
    laid, tags = [], []
    for a in before:
        if isinstance(a, np.ndarray) and a.ndim >= 1:
            b, t = relayout(np, ck.rng, a)
            laid.append(b)
            tags.append(t)
        else:
            laid.append(a)
            tags.append("-")
    try:
        r3 = fn(*laid, **kwargs)
    except Exception as e:            # noqa: BLE001
        ck.violation("layout-raised", f"{what} raised {type(e).__name__} for the same values in memory layout {tags}: {str(e)[:100]}", dict(case, layout=tags))
        return None
    pairs = list(zip(r1c, r3)) if isinstance(r1c, tuple) else [(r1c, r3)]
    if not all(same(np, u, v, rtol) for u, v in pairs):
        ck.violation("layout-dependent", f"{what}: the same values in memory layout {tags} give a different result", dict(case, layout=tags))
        return None
    ck.count("glue/pure+layout")
    return r1
