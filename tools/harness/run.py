"""Entry point of all checks: bin/check Cnn [--tier quick|thorough] [--seed N] [--replay file]"""
import argparse
import importlib
import os
import sys

sys.path.insert(0, os.path.dirname(os.path.abspath(__file__)))


def main():
    ap = argparse.ArgumentParser()
    ap.add_argument("prop")
    ap.add_argument("--tier", choices=["quick", "thorough"], default=None)
    ap.add_argument("--seed", type=int, default=None)
    ap.add_argument("--replay", default=None)
    a = ap.parse_args()
    if a.tier:
        os.environ["VERIF_TIER"] = a.tier
    if a.seed is not None:
        os.environ["VERIF_SEED"] = str(a.seed)
    repo = os.environ.get("TYPHON_REPO")
    if repo and os.path.realpath(repo) != "/repo":
        # test a scratch worktree instead of /repo (mutation self-tests): it must shadow the
        # editable install, also in worker processes
        sys.path.insert(0, repo)
        os.environ["PYTHONPATH"] = repo + os.pathsep + os.environ.get("PYTHONPATH", "")
        try:
            import typhon
            assert os.path.realpath(typhon.__file__).startswith(os.path.realpath(repo)), typhon.__file__
        except AssertionError:
            print("INFRA-ERROR TYPHON_REPO is not importable as typhon", file=sys.stderr)
            sys.exit(2)
        except Exception:
            pass   # a broken import of the library under test is the check's business, not ours
    try:
        import vlib
        mod = importlib.import_module("props." + a.prop.lower())
    except Exception:
        import traceback
        traceback.print_exc()
        print("INFRA-ERROR cannot load the check", file=sys.stderr)
        sys.exit(2)
    if a.replay:
        vlib.main_wrapper(lambda: mod.replay(a.replay))
    else:
        vlib.main_wrapper(mod.main)


if __name__ == "__main__":
    main()
