"""Entry point of all checks: bin/check Cnn [--tier quick|thorough] [--seed N] [--replay file]"""
import argparse
import importlib
import os
import sys

sys.path.insert(0, os.path.dirname(os.path.abspath(__file__)))


def safe_tmpdir():
    """typhon treats a fileset path as a regular expression / format template, and some driver protocols are
    space-separated: a temporary directory whose name contains blanks or regex characters would break the
    SET-UP of the checks (not the property).  In that case scratch files go to a plainly named directory."""
    import re
    import tempfile
    td = tempfile.gettempdir()
    if re.fullmatch(r"[A-Za-z0-9_./-]+", td):
        return
    root = os.path.dirname(os.path.dirname(os.path.dirname(os.path.abspath(__file__))))
    for cand in ("/tmp", "/var/tmp", os.path.join(root, ".scratch")):
        try:
            os.makedirs(cand, exist_ok=True)
        except OSError:
            continue
        if os.access(cand, os.W_OK) and re.fullmatch(r"[A-Za-z0-9_./-]+", cand):
            os.environ["TMPDIR"] = cand
            tempfile.tempdir = None
            return


def main():
    safe_tmpdir()
    ap = argparse.ArgumentParser()
    ap.add_argument("prop")
    ap.add_argument("--tier", choices=["quick", "thorough"], default=None)
    ap.add_argument("--seed", type=int, default=None)
    ap.add_argument("--replay", default=None)
    a = ap.parse_args()
    if a.tier:
        os.environ["VERIF_TIER"] = a.tier
    if a.seed is not None:
        os.environ["VERIF_SEED"] = str(a.seed)
    repo = os.environ.get("TYPHON_REPO")
    if repo and os.path.realpath(repo) != "/repo":
        # test a scratch worktree instead of /repo (mutation self-tests): it must shadow the
        # editable install, also in worker processes
        sys.path.insert(0, repo)
        os.environ["PYTHONPATH"] = repo + os.pathsep + os.environ.get("PYTHONPATH", "")
        try:
            import typhon
            assert os.path.realpath(typhon.__file__).startswith(os.path.realpath(repo)), typhon.__file__
        except AssertionError:
            print("INFRA-ERROR TYPHON_REPO is not importable as typhon", file=sys.stderr)
            sys.exit(2)
        except Exception:
            pass   # a broken import of the library under test is the check's business, not ours
    try:
        import vlib
        mod = importlib.import_module("props." + a.prop.lower())
    except Exception:
        import traceback
        traceback.print_exc()
        print("INFRA-ERROR cannot load the check", file=sys.stderr)
        sys.exit(2)
    if a.replay:
        vlib.main_wrapper(lambda: mod.replay(a.replay))
    else:
        vlib.main_wrapper(mod.main)


if __name__ == "__main__":
    main()
